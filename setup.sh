#!/bin/bash
# Offline setup after a fresh restore: build Coq theories (full .vo build), constgen, all harness binaries.
set -u
cd "$(dirname "$0")"
export GOFLAGS=-mod=mod GOPROXY=off GOSUMDB=off GOTOOLCHAIN=local
REPO=${VERIF_REPO:-/repo}
WORK=${VERIF_WORK:-$PWD/.work}
mkdir -p "$WORK/bin" "$WORK/coq"
rsync -a --delete --exclude='*.vo' --exclude='*.vok' --exclude='*.vos' --exclude='*.glob' --exclude='.*.aux' --exclude=Consts.v coq/theories/ "$WORK/coq/theories/"
(cd tools/constgen && go build -o "$WORK/bin/constgen" .) || exit 1
"$WORK/bin/constgen" "$REPO" props > "$WORK/coq/theories/Consts.v.new" || echo "setup: some constants missing"
cmp -s "$WORK/coq/theories/Consts.v.new" "$WORK/coq/theories/Consts.v" 2>/dev/null && rm "$WORK/coq/theories/Consts.v.new" || mv "$WORK/coq/theories/Consts.v.new" "$WORK/coq/theories/Consts.v"
(cd "$WORK/coq" && { cat "$OLDPWD/coq/_CoqProject.head"; find theories -name '*.v' | sort; } > _CoqProject && coq_makefile -f _CoqProject -o Makefile >/dev/null && timeout 3600 make -k -j16 2>&1 | tail -n 30)
# harness binaries (build failures are reported by the individual checks)
sed "s#=> /repo#=> $REPO#" harness/go.mod > "$WORK/harness.mod"
cat "$REPO/go.sum" > "$WORK/harness.sum"; [ -f harness/go.sum.extra ] && cat harness/go.sum.extra >> "$WORK/harness.sum"
for d in harness/cmd/*/; do
  n=$(basename "$d")
  (cd harness && go build -modfile="$WORK/harness.mod" -tags verif -ldflags=-checklinkname=0 -o "$WORK/bin/$n" "./cmd/$n") || echo "setup: harness $n did not build"
done
echo "setup done"
exit 0
