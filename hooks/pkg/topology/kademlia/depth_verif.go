//go:build verif

package kademlia

import (
	"github.com/gauss-project/aurorafs/pkg/boson"
	"github.com/gauss-project/aurorafs/pkg/topology/pslice"
)

// Hooks of property C22 (neighbourhood depth).  Add-only; compiled only with
// the build tag `verif`.

// VerifDepthRecalc is recalcDepth: the depth of the given peer set for the
// given storage radius; unreachable(addr) == true filters the peer out.
func VerifDepthRecalc(peers *pslice.PSlice, radius uint8, unreachable func(boson.Address) bool) uint8 {
	return recalcDepth(peers, radius, unreachable)
}

// VerifDepthThresholds returns the LIVE values of the two package variables
// recalcDepth reads (kademlia.New rewrites the second from Options.BinMaxPeers).
func VerifDepthThresholds() (lowWatermark, quickSaturation int) {
	return nnLowWatermark, quickSaturationPeers
}

// VerifDepthState returns the stored depth and radius.
func (k *Kad) VerifDepthState() (depth, radius uint8) {
	k.depthMu.RLock()
	defer k.depthMu.RUnlock()
	return k.depth, k.radius
}

// VerifDepthUnreachable evaluates the filter recalcDepth is called with.
func (k *Kad) VerifDepthUnreachable(addr boson.Address) bool { return k.peerFilter(addr) }

// VerifDepthShutdown stops what New started for a Kad whose manage loop was
// never started.
func (k *Kad) VerifDepthShutdown() {
	k.bgBroadcastCancel()
	_ = k.blocker.Close()
}
