//go:build verif

package kademlia

import "github.com/gauss-project/aurorafs/pkg/boson"

// Hooks of property C24 (connection tracking).  Add-only; compiled only with
// the build tag `verif`.  Other verif files of this package: depth_verif.go,
// closest_verif.go (owned by other properties).

// VerifConnThresholds returns the LIVE values of the package variables that
// kademlia.New rewrites from Options.BinMaxPeers.
func VerifConnThresholds() (lowWatermark, quick, saturation, overSaturation, bootOverSaturation int) {
	return nnLowWatermark, quickSaturationPeers, saturationPeers, overSaturationPeers, bootNodeOverSaturationPeers
}

// VerifConnBinSaturation evaluates the saturation function with exactly the
// arguments Connected and Pick pass to it.
func (k *Kad) VerifConnBinSaturation(bin uint8) (saturated, oversaturated bool) {
	return k.saturationFunc(bin, k.knownPeers, k.connectedPeers, k.peerFilter)
}

// VerifConnShutdown stops what New started (blocker goroutines, broadcast
// context) for a Kad whose manage loop was never started.
func (k *Kad) VerifConnShutdown() {
	k.bgBroadcastCancel()
	_ = k.blocker.Close()
}

// VerifConnPotentialDepth is the depth binSaturated derives from the known
// peers (its short-circuit for bins at or beyond it).
func (k *Kad) VerifConnPotentialDepth() uint8 {
	return recalcDepth(k.knownPeers, boson.MaxPO, k.peerFilter)
}
