//go:build verif

package kademlia

// Hook of property C23 (closest-peer selection).  Add-only; compiled only with
// the build tag `verif`.

// VerifClosestShutdown stops what New started (blocker goroutine, broadcast
// context) for a Kad whose manage loop was never started, so that a harness can
// create many short-lived instances.
func (k *Kad) VerifClosestShutdown() {
	k.bgBroadcastCancel()
	_ = k.blocker.Close()
}
