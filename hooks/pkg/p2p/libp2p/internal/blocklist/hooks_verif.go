//go:build verif

package blocklist

import "time"

// VerifSetTimeNow replaces the package clock (the same variable the package's
// own tests replace through export_test.go) and returns the previous one.
func VerifSetTimeNow(f func() time.Time) (prev func() time.Time) {
	prev = timeNow
	timeNow = f
	return prev
}
