//go:build verif

// Package verifexport re-exports packages under pkg/p2p/libp2p/internal for the
// verification harnesses in /verif (build tag verif only; add-only file).
// This file: the handshake protocol service (property C37).
package verifexport

import (
	"github.com/gauss-project/aurorafs/pkg/aurora"
	"github.com/gauss-project/aurorafs/pkg/boson"
	"github.com/gauss-project/aurorafs/pkg/crypto"
	"github.com/gauss-project/aurorafs/pkg/logging"
	"github.com/gauss-project/aurorafs/pkg/p2p/libp2p/internal/handshake"
	"github.com/gauss-project/aurorafs/pkg/p2p/libp2p/internal/handshake/pb"
	"github.com/gauss-project/aurorafs/pkg/topology/lightnode"
	libp2ppeer "github.com/libp2p/go-libp2p-core/peer"
)

// H37Service is the internal handshake service (Handle / Handshake / SetPicker).
type H37Service = handshake.Service

// H37Resolver is handshake.AdvertisableAddressResolver.
type H37Resolver = handshake.AdvertisableAddressResolver

// Wire messages of the handshake protocol.
type (
	H37Syn        = pb.Syn
	H37Ack        = pb.Ack
	H37SynAck     = pb.SynAck
	H37BzzAddress = pb.BzzAddress
)

// Sentinel errors, for error classification by errors.Is.
var (
	H37ErrNetworkIDIncompatible = handshake.ErrNetworkIDIncompatible
	H37ErrInvalidAck            = handshake.ErrInvalidAck
	H37ErrInvalidSyn            = handshake.ErrInvalidSyn
	H37ErrPicker                = handshake.ErrPicker
	H37ErrPickerLight           = handshake.ErrPickerLight
)

// H37New is handshake.New.
func H37New(signer crypto.Signer, resolver H37Resolver, overlay boson.Address, networkID uint64, nodeMode aurora.Model,
	welcomeMessage string, ownPeerID libp2ppeer.ID, logger logging.Logger, lightNodes *lightnode.Container, lightLimit int) (*H37Service, error) {
	return handshake.New(signer, resolver, overlay, networkID, nodeMode, welcomeMessage, ownPeerID, logger, lightNodes, lightLimit)
}
