//go:build verif

// Package verifexport re-exports packages under pkg/p2p/libp2p/internal to the
// verification harnesses (which cannot import pkg/p2p/libp2p itself).
package verifexport

import (
	"github.com/gauss-project/aurorafs/pkg/p2p/libp2p/internal/handshake"
	"github.com/gauss-project/aurorafs/pkg/p2p/libp2p/internal/handshake/mock"
	"github.com/gauss-project/aurorafs/pkg/p2p/libp2p/internal/handshake/pb"
)

type (
	HandshakeService    = handshake.Service
	HandshakeSyn        = pb.Syn
	HandshakeAck        = pb.Ack
	HandshakeSynAck     = pb.SynAck
	HandshakeBzzAddress = pb.BzzAddress
	HandshakeMockStream = mock.Stream
)

var (
	HandshakeNew           = handshake.New
	HandshakeNewMockStream = mock.NewStream

	HandshakeErrNetworkIDIncompatible = handshake.ErrNetworkIDIncompatible
	HandshakeErrInvalidAck            = handshake.ErrInvalidAck
	HandshakeErrInvalidSyn            = handshake.ErrInvalidSyn
	HandshakeErrPicker                = handshake.ErrPicker
	HandshakeErrPickerLight           = handshake.ErrPickerLight
)
