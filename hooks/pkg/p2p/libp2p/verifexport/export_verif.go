//go:build verif

// Package verifexport re-exports, for the verification harness only, the
// internal blocklist package of pkg/p2p/libp2p. It must not import the libp2p
// package itself.
package verifexport

import (
	"time"

	"github.com/gauss-project/aurorafs/pkg/p2p/libp2p/internal/blocklist"
	"github.com/gauss-project/aurorafs/pkg/storage"
)

type Blocklist = blocklist.Blocklist

func NewBlocklist(store storage.StateStorer) *Blocklist { return blocklist.NewBlocklist(store) }

// SetBlocklistTimeNow pins the blocklist package clock; returns the previous one.
func SetBlocklistTimeNow(f func() time.Time) func() time.Time {
	return blocklist.VerifSetTimeNow(f)
}
