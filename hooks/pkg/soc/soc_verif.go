//go:build verif

package soc

// Read-only accessors of a parsed SOC (same as export_test.go offers to the
// package's own tests), used by the C05 correspondence harness.

// VerifID returns the SOC id as parsed / given.
func (s *SOC) VerifID() []byte { return s.id }

// VerifOwner returns the owner address (recovered by FromChunk, set by Sign).
func (s *SOC) VerifOwner() []byte { return s.owner }

// VerifSignature returns the signature bytes.
func (s *SOC) VerifSignature() []byte { return s.signature }

// Error sentinels, for classification by identity.
var (
	VerifErrWrongChunkSize = errWrongChunkSize
	VerifErrInvalidAddress = errInvalidAddress
)
