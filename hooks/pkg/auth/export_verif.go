//go:build verif

package auth

// Verification hooks (build tag verif): access to the authenticator's own
// AES-GCM instance, so that a harness can (a) report what the real primitive
// does on a given (nonce, ciphertext) and (b) craft authentic tokens with a
// chosen nonce and plaintext.

// VerifSeal is gcm.Seal(nil, nonce, plaintext, nil) of this authenticator.
func (a *Authenticator) VerifSeal(nonce, plaintext []byte) []byte {
	return a.ciph.gcm.Seal(nil, nonce, plaintext, nil)
}

// VerifOpen is gcm.Open(nil, nonce, ciphertext, nil) of this authenticator.
func (a *Authenticator) VerifOpen(nonce, ciphertext []byte) ([]byte, error) {
	return a.ciph.gcm.Open(nil, nonce, ciphertext, nil)
}

// VerifNonceSize is the nonce size the encrypter slices at.
func (a *Authenticator) VerifNonceSize() int { return a.ciph.gcm.NonceSize() }
