//go:build verif

// Verification hooks for pkg/localstore (build tag `verif`, add-only file).
// Used by the /verif harnesses of C11..C16: canonical dump of every index and
// of the persisted counters, a clock setter, control over the background
// garbage-collection worker and a synchronous collection run with an
// interleaving point between candidate selection and eviction.
package localstore

import (
	"github.com/gauss-project/aurorafs/pkg/boson"
	"github.com/gauss-project/aurorafs/pkg/shed"
)

// VerifDataEntry is one entry of retrievalDataIndex.
type VerifDataEntry struct {
	Address        []byte
	BinID          uint64
	StoreTimestamp int64
	Data           []byte
}

// VerifAccessEntry is one entry of retrievalAccessIndex.
type VerifAccessEntry struct {
	Address         []byte
	AccessTimestamp int64
}

// VerifGCEntry is one entry of gcIndex (key: AccessTimestamp|BinID|Address).
type VerifGCEntry struct {
	AccessTimestamp int64
	BinID           uint64
	Address         []byte
	GCounter        uint64
}

// VerifPinEntry is one entry of pinIndex.
type VerifPinEntry struct {
	Address    []byte
	PinCounter uint64
}

// VerifBinID is one non-zero element of the binIDs vector (bins 0..boson.MaxPO).
type VerifBinID struct {
	PO uint8
	ID uint64
}

// VerifDump is the canonical dump: every index in the key order of the
// storage driver (the order Index.Iterate yields), the non-zero bin ids in
// ascending bin order, and the persisted gcSize counter.
type VerifDump struct {
	Data   []VerifDataEntry
	Access []VerifAccessEntry
	GC     []VerifGCEntry
	Pin    []VerifPinEntry
	BinIDs []VerifBinID
	GCSize uint64
}

func verifCopy(b []byte) []byte { return append([]byte{}, b...) }

// VerifDump reads the committed database. It takes batchMu so that it is
// never interleaved with a write batch being assembled.
func (db *DB) VerifDump() (d VerifDump, err error) {
	db.batchMu.Lock()
	defer db.batchMu.Unlock()
	return db.verifDumpLocked()
}

// VerifDumpLocked is VerifDump for callers that already hold batchMu
// (the interleaving hook of a collection run does NOT hold it; use VerifDump there).
func (db *DB) verifDumpLocked() (d VerifDump, err error) {
	err = db.retrievalDataIndex.Iterate(func(it shed.Item) (bool, error) {
		d.Data = append(d.Data, VerifDataEntry{Address: verifCopy(it.Address), BinID: it.BinID, StoreTimestamp: it.StoreTimestamp, Data: verifCopy(it.Data)})
		return false, nil
	}, nil)
	if err != nil {
		return d, err
	}
	err = db.retrievalAccessIndex.Iterate(func(it shed.Item) (bool, error) {
		d.Access = append(d.Access, VerifAccessEntry{Address: verifCopy(it.Address), AccessTimestamp: it.AccessTimestamp})
		return false, nil
	}, nil)
	if err != nil {
		return d, err
	}
	err = db.gcIndex.Iterate(func(it shed.Item) (bool, error) {
		d.GC = append(d.GC, VerifGCEntry{AccessTimestamp: it.AccessTimestamp, BinID: it.BinID, Address: verifCopy(it.Address), GCounter: it.GCounter})
		return false, nil
	}, nil)
	if err != nil {
		return d, err
	}
	err = db.pinIndex.Iterate(func(it shed.Item) (bool, error) {
		d.Pin = append(d.Pin, VerifPinEntry{Address: verifCopy(it.Address), PinCounter: it.PinCounter})
		return false, nil
	}, nil)
	if err != nil {
		return d, err
	}
	// db.po is boson.Proximity, which never exceeds boson.MaxPO
	for po := 0; po <= int(boson.MaxPO); po++ {
		id, err := db.binIDs.Get(uint64(po))
		if err != nil {
			return d, err
		}
		if id != 0 {
			d.BinIDs = append(d.BinIDs, VerifBinID{PO: uint8(po), ID: id})
		}
	}
	d.GCSize, err = db.gcSize.Get()
	return d, err
}

// VerifSetNow replaces the package clock (nil restores nothing; pass a
// function). Returns the previous clock so that it can be restored.
func VerifSetNow(f func() int64) (prev func() int64) {
	prev = now
	now = f
	return prev
}

// VerifStopGCWorker terminates the background collectGarbageWorker started
// by New and re-arms the close channel so that Close still works. After this
// call collection only runs through VerifCollectGarbage, and a trigger stays
// pending in the (buffered) trigger channel where VerifGCTriggered sees it.
func (db *DB) VerifStopGCWorker() {
	close(db.close)
	<-db.collectGarbageWorkerDone
	db.close = make(chan struct{})
}

// VerifGCTriggered reports (and clears) a pending collection trigger.
func (db *DB) VerifGCTriggered() bool {
	select {
	case <-db.collectGarbageTrigger:
		return true
	default:
		return false
	}
}

// VerifWaitUpdateGC waits for the updateGC goroutines spawned by Get/GetMulti.
func (db *DB) VerifWaitUpdateGC() { db.updateGCWG.Wait() }

// VerifCollectGarbage runs one collection synchronously. atIterDone (may be
// nil) is called between candidate selection and eviction, without batchMu
// held: the interleaving point of testHookGCIteratorDone.
func (db *DB) VerifCollectGarbage(atIterDone func()) (collected uint64, done bool, err error) {
	prev := testHookGCIteratorDone
	testHookGCIteratorDone = atIterDone
	defer func() { testHookGCIteratorDone = prev }()
	return db.collectGarbage()
}

// VerifCapacity / VerifSetCapacity / VerifGCTarget expose the capacity the
// trigger and the target computation use.
func (db *DB) VerifCapacity() uint64     { return db.capacity }
func (db *DB) VerifSetCapacity(c uint64) { db.capacity = c }
func (db *DB) VerifGCTarget() uint64     { return db.gcTarget() }

// VerifSetGCBatchSize changes the per-run candidate limit; returns the previous value.
func VerifSetGCBatchSize(n uint64) (prev uint64) {
	prev = gcBatchSize
	gcBatchSize = n
	return prev
}

// VerifGCState returns the dirty-address bookkeeping of a running collection.
func (db *DB) VerifGCState() (running bool, dirty []boson.Address) {
	db.batchMu.Lock()
	defer db.batchMu.Unlock()
	return db.gcRunning, append([]boson.Address{}, db.dirtyAddresses...)
}

// VerifPO is the bin of an address relative to the store's base key.
func (db *DB) VerifPO(addr boson.Address) uint8 { return db.po(addr) }

// VerifBatchMuHeld reports whether some writer currently holds batchMu
// (used by the concurrency cases to release racing calls while a large
// batched Put keeps the write lock busy).
func (db *DB) VerifBatchMuHeld() bool {
	if db.batchMu.TryLock() {
		db.batchMu.Unlock()
		return false
	}
	return true
}
