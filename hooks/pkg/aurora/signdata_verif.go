//go:build verif

package aurora

// VerifSignData exposes generateSignData (the bytes an address record's
// signature covers) to the C34 correspondence harness.
func VerifSignData(underlay, overlay []byte, networkID uint64) []byte {
	return generateSignData(underlay, overlay, networkID)
}
