//go:build verif

package cac

// Error sentinels of NewWithDataSpan / New, for classification by identity
// in the C05 harness.
var (
	VerifSocErrTooShort = errTooShortChunkData
	VerifSocErrTooLarge = errTooLargeChunkData
)
