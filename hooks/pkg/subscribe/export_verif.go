//go:build verif

package subscribe

// Verification accessors (build tag verif only). Nothing here changes behaviour.

// VerifNewPaused returns a subPub exactly like NewSubPub, except that the process
// goroutine is not started until VerifStart is called (so that a test can queue
// subscribe and unsubscribe events first and then observe how process orders them).
func VerifNewPaused() *subPub {
	return &subPub{
		subInfoChan:   make(chan subInfo, 50),
		unsubInfoChan: make(chan subInfo, 50),
	}
}

// VerifStart starts the process goroutine of a subPub made by VerifNewPaused.
func (s *subPub) VerifStart() { go s.process() }

// VerifSnapshot returns, per key present in keyToNotifier, the registered
// notifiers in list order.
func (s *subPub) VerifSnapshot() map[string][]INotifier {
	out := map[string][]INotifier{}
	s.keyToNotifier.Range(func(k, v interface{}) bool {
		sl := v.([]*subInfo)
		l := make([]INotifier, len(sl))
		for i, e := range sl {
			l[i] = e.notifier
		}
		out[k.(string)] = l
		return true
	})
	return out
}

// VerifQueueLens returns the number of queued subscribe and unsubscribe events.
func (s *subPub) VerifQueueLens() (int, int) { return len(s.subInfoChan), len(s.unsubInfoChan) }
