//go:build verif

package crypto

// VerifAddEthereumPrefix exposes addEthereumPrefix (the EIP-191 framing that
// Sign and Recover hash) to the C05/C34 correspondence harness.
func VerifAddEthereumPrefix(data []byte) []byte { return addEthereumPrefix(data) }
