//go:build verif

// Verification accessors for property C38 (add-only file, build tag verif).
// Nothing here changes behaviour: the functions call the unexported group
// transitions exactly as the production call sites do, expose the three
// peer lists, and let a single-process harness give every simulated node
// its own de-duplication cache (the production cache is one package global).
package multicast

import (
	"time"

	"github.com/gauss-project/aurorafs/pkg/boson"
	"github.com/gauss-project/aurorafs/pkg/multicast/model"
	"github.com/gogf/gf/v2/os/gcache"
)

// VerifNewGroup registers a group object the way joinGroup/observeGroup/getGroupOrCreate do,
// without their background handshakes and discovery. An existing object is replaced
// only if replace is set (newGroup stores unconditionally).
func (s *Service) VerifNewGroup(gid boson.Address, o model.ConfigNodeGroup, replace bool) {
	if !replace && s.getGroup(gid) != nil {
		return
	}
	s.newGroup(gid, o)
}

func (s *Service) VerifHasGroup(gid boson.Address) bool { return s.getGroup(gid) != nil }

// verifUnthrottle: notifyPeers sleeps (holding the group lock) until 500 ms have
// passed since the previous groupPeers publication; pin that clock to "long ago".
func (g *Group) verifUnthrottle() { g.groupPeersLastSend = time.Time{} }

// VerifUnthrottle does the same for every group (before a call through a public handler).
func (s *Service) VerifUnthrottle() {
	for _, g := range s.getGroupAll() {
		g.verifUnthrottle()
	}
}

// VerifGroupAdd is g.add(peer, keep) on the registered group; false if there is none.
func (s *Service) VerifGroupAdd(gid, peer boson.Address, keep bool) bool {
	g := s.getGroup(gid)
	if g == nil {
		return false
	}
	g.verifUnthrottle()
	g.add(peer, keep)
	return true
}

// VerifGroupRemove is g.remove(peer, intoKnown).
func (s *Service) VerifGroupRemove(gid, peer boson.Address, intoKnown bool) bool {
	g := s.getGroup(gid)
	if g == nil {
		return false
	}
	g.verifUnthrottle()
	g.remove(peer, intoKnown)
	return true
}

// VerifGroupPrune is g.pruneKnown().
func (s *Service) VerifGroupPrune(gid boson.Address) bool {
	g := s.getGroup(gid)
	if g == nil {
		return false
	}
	g.pruneKnown()
	return true
}

// VerifPeerDisconnected is the body of the PeerStateDisconnect case of the loop in Start.
func (s *Service) VerifPeerDisconnected(peer boson.Address) {
	for _, g := range s.getGroupAll() {
		g.verifUnthrottle()
		g.remove(peer, true)
	}
}

// VerifGcGroup is the ticker's gcGroup().
func (s *Service) VerifGcGroup() { s.gcGroup() }

// VerifUpdatePeerGroupsJoin is what both handshake directions do with the peer's GID list.
func (s *Service) VerifUpdatePeerGroupsJoin(peer boson.Address, gids []boson.Address) {
	s.VerifUnthrottle()
	s.updatePeerGroupsJoin(peer, gids)
}

// VerifGroupLists returns the raw contents (slice order) of the three lists.
func (s *Service) VerifGroupLists(gid boson.Address) (connected, kept, known []boson.Address, gtype int, ok bool) {
	g := s.getGroup(gid)
	if g == nil {
		return nil, nil, nil, 0, false
	}
	return g.connectedPeers.BinPeers(0), g.keepPeers.BinPeers(0), g.knownPeers.BinPeers(0), int(g.option.GType), true
}

// VerifGroupIDs lists the registered group ids (map order).
func (s *Service) VerifGroupIDs() (out []boson.Address) {
	for _, g := range s.getGroupAll() {
		out = append(out, g.gid)
	}
	return out
}

// VerifPeerGroupObjects: for every group OBJECT still referenced from peerGroups[peer]
// (it may have been deleted from s.groups by gcGroup), its gid and three lists.
func (s *Service) VerifPeerGroupObjects(peer boson.Address) (gids []boson.Address, lists [][3][]boson.Address) {
	s.peerGroupsMix.Lock()
	defer s.peerGroupsMix.Unlock()
	for _, g := range s.peerGroups[peer.String()] {
		gids = append(gids, g.gid)
		lists = append(lists, [3][]boson.Address{g.connectedPeers.BinPeers(0), g.keepPeers.BinPeers(0), g.knownPeers.BinPeers(0)})
	}
	return
}

// VerifMsgSeq is the current value of the origin sequence counter.
func (s *Service) VerifMsgSeq() uint64 { return s.msgSeq }

// VerifSwapCache installs c as the package-global cache and returns the previous one.
// A single-threaded harness uses it to give each simulated node its own cache.
func VerifSwapCache(c *gcache.Cache) *gcache.Cache {
	old := cache
	cache = c
	return old
}

// VerifResetCache empties the current package-global cache.
func VerifResetCache() { _ = cache.Clear(cacheCtx) }

// VerifMaxKnownPeers / VerifForwardLimit / VerifCacheWindowMs expose the constants.
func VerifMaxKnownPeers() int   { return maxKnownPeers }
func VerifForwardLimit() int    { return forwardLimit }
func VerifCacheWindowMs() int64 { return int64(multicastMsgCache / time.Millisecond) }
