//go:build verif

package routetab

import (
	"github.com/gauss-project/aurorafs/pkg/addressbook"
	"github.com/gauss-project/aurorafs/pkg/logging"
	"github.com/gauss-project/aurorafs/pkg/p2p"
	"github.com/gauss-project/aurorafs/pkg/routetab/pb"
)

// VerifNewUnderlayService builds a Service holding only what FindUnderlay and
// saveUnderlay use (address book, network id, streamer, logger). No background
// loop is started and no route table is attached.
func VerifNewUnderlayService(book addressbook.Interface, networkID uint64, streamer p2p.Streamer, logger logging.Logger) *Service {
	return &Service{
		addressbook: book,
		networkID:   networkID,
		stream:      streamer,
		logger:      logger,
		metrics:     newMetrics(),
	}
}

// VerifSaveUnderlay runs saveUnderlay (the check applied to the underlay list
// carried by route requests and responses).
func (s *Service) VerifSaveUnderlay(list []*pb.UnderlayResp) { s.saveUnderlay(list) }
