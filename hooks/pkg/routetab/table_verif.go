//go:build verif

package routetab

import (
	"sort"
	"time"

	"github.com/ethereum/go-ethereum/common"
	"github.com/gauss-project/aurorafs/pkg/boson"
	"github.com/gauss-project/aurorafs/pkg/storage"
)

// Verification hooks for the unexported route table (properties C27/C28).
// Accessors only: a constructor, sorted dumps of the two in-memory maps and
// a setter for a path's UsedTime (the clock input of Gc).

// VerifNewTable is newRouteTable.
func VerifNewTable(self boson.Address, store storage.StateStorer) *Table {
	return newRouteTable(self, store)
}

// VerifPathEntry is one entry of Table.paths.
type VerifPathEntry struct {
	Key  common.Hash
	Path *Path
}

// VerifPaths returns the content of Table.paths sorted by key.
func (t *Table) VerifPaths() []VerifPathEntry {
	var out []VerifPathEntry
	t.paths.Range(func(key, value interface{}) bool {
		out = append(out, VerifPathEntry{Key: key.(common.Hash), Path: value.(*Path)})
		return true
	})
	sort.Slice(out, func(i, j int) bool { return string(out[i].Key[:]) < string(out[j].Key[:]) })
	return out
}

// VerifRouteEntry is one entry of Table.routes.
type VerifRouteEntry struct {
	Target common.Hash
	Routes []TargetRoute
}

// VerifRoutes returns a copy of Table.routes sorted by target key.
func (t *Table) VerifRoutes() []VerifRouteEntry {
	t.mu.RLock()
	defer t.mu.RUnlock()
	var out []VerifRouteEntry
	for k, v := range t.routes {
		out = append(out, VerifRouteEntry{Target: k, Routes: append([]TargetRoute(nil), v...)})
	}
	sort.Slice(out, func(i, j int) bool { return string(out[i].Target[:]) < string(out[j].Target[:]) })
	return out
}

// VerifSetUsedTime sets UsedTime of the stored path with the given key (what
// updateUsedTime does with time.Now()); false if there is no such path.
func (t *Table) VerifSetUsedTime(key common.Hash, tm time.Time) bool {
	v, ok := t.paths.Load(key)
	if !ok {
		return false
	}
	v.(*Path).UsedTime = tm
	return true
}

// VerifTable returns the service's route table.
func (s *Service) VerifTable() *Table { return s.routeTable }
