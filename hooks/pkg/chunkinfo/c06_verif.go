//go:build verif

package chunkinfo

import (
	"context"

	"github.com/gauss-project/aurorafs/pkg/boson"
)

// VerifFindChunkPyramid (C06 harness): one pyramid exchange with `overlay` for `rootCid`
// (doFindChunkPyramid -> sendPyramids -> sendPyramid -> onChunkPyramidResp), synchronously,
// without the retry/ticker loop of FindChunkInfo.
func (ci *ChunkInfo) VerifFindChunkPyramid(ctx context.Context, rootCid, overlay boson.Address) error {
	return ci.doFindChunkPyramid(ctx, nil, rootCid, overlay)
}
