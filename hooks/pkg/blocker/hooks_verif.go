//go:build verif

package blocker

import (
	"time"

	"github.com/gauss-project/aurorafs/pkg/boson"
	"github.com/gauss-project/aurorafs/pkg/logging"
	"github.com/gauss-project/aurorafs/pkg/p2p"
)

// VerifNew builds a Blocker through the real constructor (so its argument
// validation is the real one), stops the two background loops, and re-arms the
// quit channel so that block() runs to completion when called synchronously.
// wakeUpTime is fixed at one hour: the sweep loop cannot fire before it is stopped.
func VerifNew(blocklister p2p.Blocklister, flagTimeout, blockDuration time.Duration, callback func(boson.Address), logger logging.Logger) *Blocker {
	wake := time.Hour
	if wake < sequencerResolution {
		wake = sequencerResolution
	}
	b := New(blocklister, flagTimeout, blockDuration, wake, callback, logger)
	_ = b.Close()
	b.quit = make(chan struct{})
	b.sequence.Store(0)
	return b
}

// VerifTick is one iteration of the sequencer loop of New, run synchronously.
func (b *Blocker) VerifTick() {
	if b.blocklister.NetworkStatus() == p2p.NetworkStatusAvailable {
		b.sequence.Inc()
	}
}

// VerifSweep is one iteration of the blocking loop of New, run synchronously.
func (b *Blocker) VerifSweep() { b.block() }

// VerifSequence returns the monotonic sequence counter.
func (b *Blocker) VerifSequence() uint64 { return b.sequence.Load() }

// VerifSetSequence sets the sequence counter (to start a history near the uint64 wrap).
func (b *Blocker) VerifSetSequence(v uint64) { b.sequence.Store(v) }

// VerifFlagged returns the flagged peers with their deadlines (map order).
func (b *Blocker) VerifFlagged() map[string]uint64 {
	b.mu.Lock()
	defer b.mu.Unlock()
	out := make(map[string]uint64, len(b.peers))
	for k, p := range b.peers {
		out[k] = p.blockAfter
	}
	return out
}

// VerifSetResolution sets the sequencer resolution (as the package's own
// tests do through export_test.go); returns the previous value.
func VerifSetResolution(d time.Duration) (prev time.Duration) {
	prev = sequencerResolution
	sequencerResolution = d
	return prev
}

// VerifResolution returns the current sequencer resolution.
func VerifResolution() time.Duration { return sequencerResolution }
