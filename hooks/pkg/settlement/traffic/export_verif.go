//go:build verif

package traffic

import (
	"math/big"
	"sort"
)

// VerifTraffic is a snapshot of one per-peer Traffic record: copies of the
// seven *big.Int fields (in declaration order: trafficPeerBalance,
// retrieveChainTraffic, transferChainTraffic, retrieveChequeTraffic,
// transferChequeTraffic, retrieveTraffic, transferTraffic), the cash status,
// and the pointers themselves so that a caller can observe which fields share
// one big.Int.
type VerifTraffic struct {
	Key    string
	Vals   [7]*big.Int
	Ptrs   [7]*big.Int
	Status int
}

// VerifDump returns a snapshot of every Traffic record, sorted by map key.
func (s *Service) VerifDump() []VerifTraffic {
	type ent struct {
		k string
		t *Traffic
	}
	// the locks are taken one after the other, never nested (Pay holds a record lock
	// while AvailableBalance takes trafficLock)
	s.trafficPeers.trafficLock.Lock()
	ents := make([]ent, 0, len(s.trafficPeers.trafficPeers))
	for k, t := range s.trafficPeers.trafficPeers {
		ents = append(ents, ent{k, t})
	}
	s.trafficPeers.trafficLock.Unlock()
	out := make([]VerifTraffic, 0, len(ents))
	for _, e := range ents {
		t := e.t
		t.Lock()
		ptrs := [7]*big.Int{t.trafficPeerBalance, t.retrieveChainTraffic, t.transferChainTraffic,
			t.retrieveChequeTraffic, t.transferChequeTraffic, t.retrieveTraffic, t.transferTraffic}
		v := VerifTraffic{Key: e.k, Ptrs: ptrs, Status: t.status}
		for i, p := range ptrs {
			if p != nil {
				v.Vals[i] = new(big.Int).Set(p)
			}
		}
		t.Unlock()
		out = append(out, v)
	}
	sort.Slice(out, func(i, j int) bool { return out[i].Key < out[j].Key })
	return out
}

// VerifBalancePtr returns the *big.Int the service currently holds as its chain balance
// (for pointer-identity comparison only; callers must not modify it).
func (s *Service) VerifBalancePtr() *big.Int {
	s.peersLock.Lock()
	defer s.peersLock.Unlock()
	return s.trafficPeers.balance
}

// VerifBalance returns copies of the service-wide chain balance and total paid out.
func (s *Service) VerifBalance() (balance, totalPaidOut *big.Int) {
	s.peersLock.Lock()
	defer s.peersLock.Unlock()
	return new(big.Int).Set(s.trafficPeers.balance), new(big.Int).Set(s.trafficPeers.totalPaidOut)
}
