//go:build verif

package traffic

import (
	"math/big"

	"github.com/ethereum/go-ethereum/common"
)

// VerifTotals returns copies of the four per-peer totals the traffic service
// keeps in memory for chainAddress (retrieve/transfer traffic and the last
// cheque amounts), read under the peer's lock. known is false when the
// service has no record for the address.
func (s *Service) VerifTotals(chainAddress common.Address) (retrieveTraffic, retrieveCheque, transferTraffic, transferCheque *big.Int, known bool) {
	s.trafficPeers.trafficLock.Lock()
	t := s.trafficPeers.trafficPeers[chainAddress.String()]
	s.trafficPeers.trafficLock.Unlock()
	if t == nil {
		return nil, nil, nil, nil, false
	}
	t.Lock()
	defer t.Unlock()
	return new(big.Int).Set(t.retrieveTraffic), new(big.Int).Set(t.retrieveChequeTraffic),
		new(big.Int).Set(t.transferTraffic), new(big.Int).Set(t.transferChequeTraffic), true
}
