(** C38 — proofs, part 2: the de-duplication caches and the flooding network.
    - [times_spaced]: two passes of the same cache check at the same node for
      the same key are more than [W] apart — for every event history, with
      no assumption on the clock;
    - [run_ninv]: the registry invariants of part 1 hold at every node of
      every reachable network state;
    - [flood_measure]: inside one window a potential strictly decreases with
      every effective delivery / drop, so flooding stops. *)
From Coq Require Import List NArith ZArith Bool Lia Arith.
Import ListNotations.
Require Import Aurora.Base.Corr Aurora.C38.Model Aurora.C38.Proofs.
Local Open Scope N_scope.

(** * cache *)

Lemma key_eqb_eq a b : key_eqb a b = true <-> a = b.
Proof.
  destruct a as [[t1 o1] i1], b as [[t2 o2] i2]; cbn.
  rewrite !andb_true_iff, Bool.eqb_true_iff, aeqb_eq, N.eqb_eq.
  split; [intros [[-> ->] ->]; reflexivity | intros [= -> -> ->]; auto].
Qed.
Lemma key_eqb_refl a : key_eqb a a = true.
Proof. now apply key_eqb_eq. Qed.
Lemma dkey_fkey m m' : key_eqb (dkey m) (fkey m') = false.
Proof. reflexivity. Qed.

Definition cache_le (c c' : cache) : Prop :=
  forall k e, c_lookup k c = Some e -> exists e', c_lookup k c' = Some e' /\ e <= e'.
Lemma cache_le_refl c : cache_le c c.
Proof. intros k e H. exists e. split; [assumption | lia]. Qed.
Lemma cache_le_trans a b c : cache_le a b -> cache_le b c -> cache_le a c.
Proof.
  intros H1 H2 k e H. destruct (H1 _ _ H) as (e1 & L1 & I1). destruct (H2 _ _ L1) as (e2 & L2 & I2).
  exists e2. split; [assumption | lia].
Qed.

Lemma sine_cases W now k c :
  (exists e, c_lookup k c = Some e /\ now <= e /\ set_if_not_exist W now k c = (c, false)) \/
  ((forall e, c_lookup k c = Some e -> e < now) /\ set_if_not_exist W now k c = ((k, now + W) :: c, true)).
Proof.
  unfold set_if_not_exist. destruct (c_lookup k c) as [e|].
  - destruct (N.leb_spec now e).
    + left. exists e. auto.
    + right. split; [intros e' [= <-]; assumption | reflexivity].
  - right. split; [intros e' [=] | reflexivity].
Qed.

Lemma cons_le W now k c : (forall e, c_lookup k c = Some e -> e < now) -> cache_le c ((k, now + W) :: c).
Proof.
  intros Hk k0 e H. cbn [c_lookup]. destruct (key_eqb k k0) eqn:E.
  - apply key_eqb_eq in E. subst k0. exists (now + W). split; [reflexivity|]. specialize (Hk _ H). lia.
  - exists e. split; [assumption | lia].
Qed.

(** * one call *)

Record call_ok (W now : N) (nd nd' : node) (o : out) : Prop := {
  ck_self : n_self nd' = n_self nd;
  ck_svc : n_svc nd' = n_svc nd;
  ck_le : cache_le (n_cache nd) (n_cache nd');
  ck_deliv : forall d, In d (o_deliv o) ->
      (exists e1, c_lookup (dkey (snd (fst d))) (n_cache nd') = Some e1 /\ now + W <= e1) /\
      (forall e, c_lookup (dkey (snd (fst d))) (n_cache nd) = Some e -> e < now);
  ck_fwd : forall m, In m (o_fwd o) ->
      (exists e1, c_lookup (fkey m) (n_cache nd') = Some e1 /\ now + W <= e1) /\
      (forall e, c_lookup (fkey m) (n_cache nd) = Some e -> e < now);
  ck_deliv1 : (length (o_deliv o) <= 1)%nat;
  ck_fwd1 : (length (o_fwd o) <= 1)%nat;
  ck_sends : forall p, In p (o_sends o) -> In (p_msg p) (o_fwd o) /\ p_src p = n_self nd }.

Lemma call_ok_none W now nd nd' :
  n_self nd' = n_self nd -> n_svc nd' = n_svc nd -> cache_le (n_cache nd) (n_cache nd') -> call_ok W now nd nd' out_none.
Proof. intros; constructor; cbn; try assumption; try lia; intros ? []. Qed.

Lemma multicast_ok W now nd m skip hint nd' o :
  multicast W now nd m skip hint = (nd', o) -> call_ok W now nd nd' o.
Proof.
  unfold multicast. destruct (resolve nd m) as [m' seq].
  destruct (sine_cases W now (fkey m') (n_cache nd)) as [(e & L & I & ->)|(Hk & ->)].
  - intros [= <- <-]. apply call_ok_none; cbn; auto using cache_le_refl.
  - destruct (targets_of nd m' skip hint) as [targets good]. intros [= <- <-].
    constructor; cbn [o_deliv o_fwd o_sends n_self n_svc n_cache length out_none]; auto.
    + now apply cons_le.
    + intros d [].
    + intros m0 [<-|[]]. split; [|assumption]. cbn [c_lookup]. rewrite key_eqb_refl. exists (now + W). split; [reflexivity | lia].
    + intros p Hp. apply in_map_iff in Hp. destruct Hp as (d & <- & _). cbn. auto.
Qed.

Lemma on_multicast_ok W now nd from m hint nd' o :
  on_multicast W now nd from m hint = (nd', o) -> call_ok W now nd nd' o.
Proof.
  unfold on_multicast.
  destruct (sine_cases W now (dkey m) (n_cache nd)) as [(e & L & I & ->)|(Hk & ->)]; cbn [negb].
  - intros [= <- <-]. apply call_ok_none; cbn; auto using cache_le_refl.
  - destruct (aeqb (m_origin m) (n_self nd)).
    + intros [= <- <-]. apply call_ok_none; cbn; auto using cons_le.
    + set (dr := match get_obj (n_svc nd) (m_gid m) with Some o0 => _ | None => _ end).
      assert (Hdr : forall d, In d (fst dr) -> d = (m_gid m, m, from)).
      { subst dr. destruct (get_obj (n_svc nd) (m_gid m)) as [o0|]; [|intros d []].
        destruct (o_type o0); try (intros d []). destruct (o_sub o0); cbn; [intros d [<-|[]]; reflexivity | intros d []]. }
      assert (Hdl : (length (fst dr) <= 1)%nat).
      { subst dr. destruct (get_obj (n_svc nd) (m_gid m)) as [o0|]; [|cbn; lia].
        destruct (o_type o0); cbn; try lia. destruct (o_sub o0); cbn; lia. }
      destruct dr as [deliv recvlog]. cbn [fst] in Hdr, Hdl.
      set (nd1 := mkNode (n_self nd) (n_svc nd) (n_seq nd) ((dkey m, now + W) :: n_cache nd)).
      destruct (multicast W now nd1 m [from] hint) as [nd2 o2] eqn:Em. intros [= <- <-].
      apply multicast_ok in Em. destruct Em as [S1 S2 S3 S4 S5 S6 S7 S8]. cbn in S1, S2, S3.
      assert (Hle1 : cache_le (n_cache nd) (n_cache nd1)) by (now apply cons_le).
      constructor; cbn [o_deliv o_fwd o_sends n_self n_svc n_cache length]; auto.
      * eapply cache_le_trans; eassumption.
      * intros d Hd. apply Hdr in Hd. subst d. cbn [fst snd]. split; [|assumption].
        apply (S3 (dkey m) (now + W)). cbn [n_cache nd1 c_lookup]. now rewrite key_eqb_refl.
      (* [ck_fwd]: [S5] itself, since a lookup of a Multicast_ key skips the onMulticast_ entry by computation *)
Qed.

(** * one step of the network *)

Lemma find_node_nth a : forall l i n nd, find_node a l i = Some (n, nd) ->
  (i <= n)%nat /\ nth_error l (n - i) = Some nd /\ n_self nd = a.
Proof.
  induction l as [|x t IH]; intros i n nd; cbn; [discriminate|].
  destruct (aeqb (n_self x) a) eqn:E.
  - intros [= <- <-]. rewrite Nat.sub_diag. apply aeqb_eq in E. auto.
  - intros H. apply IH in H. destruct H as (H1 & H2 & H3).
    split; [lia|]. split; [|assumption]. replace (n - i)%nat with (S (n - S i)) by lia. exact H2.
Qed.

Lemma set_node_nth n nd' l j :
  nth_error (set_node n nd' l) j = if Nat.eqb n j then option_map (fun _ => nd') (nth_error l j) else nth_error l j.
Proof. unfold set_node. apply upd_nth_nth. Qed.

Lemma step_nodes W mk s e s1 on o : step W mk s e = (s1, (on, o)) ->
  forall n nd, nth_error (nodes s) n = Some nd ->
  exists nd', nth_error (nodes s1) n = Some nd' /\ n_self nd' = n_self nd /\
    ((on = Some n /\ call_ok W (clock s) nd nd' o) \/
     (on <> Some n /\ n_cache nd' = n_cache nd)).
Proof.
  intros Hs n nd Hn. destruct e; cbn [step] in Hs.
  - injection Hs as <- <- <-. cbn [nodes]. rewrite upd_nth_nth, Hn.
    destruct (Nat.eqb n0 n); cbn; eexists; (split; [reflexivity|]); (split; [reflexivity|]); right; (split; [discriminate | reflexivity]).
  - destruct (nth_error (nodes s) n0) as [nd0|] eqn:E0.
    + destruct (multicast W (clock s) nd0 m skip hint) as [nd0' o0] eqn:Em. injection Hs as <- <- <-. cbn [nodes].
      rewrite set_node_nth, Hn. destruct (Nat.eqb n0 n) eqn:En.
      * apply Nat.eqb_eq in En. subst n0. rewrite Hn in E0. injection E0 as <-.
        pose proof (multicast_ok _ _ _ _ _ _ _ _ Em) as Hok.
        exists nd0'. cbn. split; [reflexivity|]. split; [apply Hok|]. left. auto.
      * apply Nat.eqb_neq in En. exists nd. split; [reflexivity|]. split; [reflexivity|]. right. split; [congruence | reflexivity].
    + injection Hs as <- <- <-. exists nd. split; [assumption|]. split; [reflexivity|]. right. split; [congruence | reflexivity].
  - destruct (nth_error (soup s) i) as [p|].
    + destruct (find_node (p_dst p) (nodes s) 0) as [[n0 nd0]|] eqn:Ef.
      * destruct (on_multicast W (clock s) nd0 (p_src p) (p_msg p) hint) as [nd0' o0] eqn:Em. injection Hs as <- <- <-. cbn [nodes].
        apply find_node_nth in Ef. destruct Ef as (_ & Ef & _). rewrite Nat.sub_0_r in Ef.
        rewrite set_node_nth, Hn. destruct (Nat.eqb n0 n) eqn:En.
        -- apply Nat.eqb_eq in En. subst n0. rewrite Hn in Ef. injection Ef as <-.
           pose proof (on_multicast_ok _ _ _ _ _ _ _ _ Em) as Hok.
           exists nd0'. cbn. split; [reflexivity|]. split; [apply Hok|]. left. auto.
        -- apply Nat.eqb_neq in En. exists nd. split; [reflexivity|]. split; [reflexivity|]. right. split; [congruence | reflexivity].
      * injection Hs as <- <- <-. exists nd. split; [assumption|]. split; [reflexivity|]. right. split; [congruence | reflexivity].
    + injection Hs as <- <- <-. exists nd. split; [assumption|]. split; [reflexivity|]. right. split; [congruence | reflexivity].
  - injection Hs as <- <- <-. exists nd. split; [assumption|]. split; [reflexivity|]. right. split; [congruence | reflexivity].
  - injection Hs as <- <- <-. exists nd. split; [assumption|]. split; [reflexivity|]. right. split; [congruence | reflexivity].
  - injection Hs as <- <- <-. exists nd. split; [assumption|]. split; [reflexivity|]. right. split; [congruence | reflexivity].
Qed.

Lemma step_on W mk s e s1 n o : step W mk s e = (s1, (Some n, o)) -> exists nd, nth_error (nodes s) n = Some nd.
Proof.
  intros Hs. destruct e; cbn [step] in Hs; try discriminate.
  - destruct (nth_error (nodes s) n0) as [nd0|] eqn:E0; [|discriminate].
    destruct (multicast W (clock s) nd0 m skip hint). injection Hs as _ <- _. eauto.
  - destruct (nth_error (soup s) i) as [p|]; [|discriminate].
    destruct (find_node (p_dst p) (nodes s) 0) as [[n0 nd0]|] eqn:Ef; [|discriminate].
    destruct (on_multicast W (clock s) nd0 (p_src p) (p_msg p) hint). injection Hs as _ <- _.
    apply find_node_nth in Ef. destruct Ef as (_ & Ef & _). rewrite Nat.sub_0_r in Ef. eauto.
Qed.

(** * spacing of the passes of one cache check *)

Fixpoint spaced (W : N) (l : list N) : Prop :=
  match l with
  | a :: ((b :: _) as r) => a + W < b /\ spaced W r
  | _ => True
  end.
Lemma spaced_cons W a r : Forall (fun b => a + W < b) r -> spaced W r -> spaced W (a :: r).
Proof. destruct r as [|b r]; cbn; [auto|]. intros H Hs. inversion H; subst. auto. Qed.
Lemma spaced_all_after W a r : spaced W (a :: r) -> Forall (fun b => a + W < b) r.
Proof.
  revert a; induction r as [|b r IH]; intros a H; [constructor|].
  destruct H as [H1 H2]. constructor; [assumption|].
  specialize (IH _ H2). eapply Forall_impl; [|exact IH]. cbn. intros; lia.
Qed.
(** inside any interval of length [W] there is at most one pass *)
Definition in_window (W t0 t : N) : bool := (t0 <=? t) && (t <=? t0 + W).
Lemma spaced_window W l : spaced W l -> forall t0 : N,
  (length (filter (in_window W t0) l) <= 1)%nat.
Proof.
  induction l as [|a r IH]; intros Hs t0; cbn [filter length]; [lia|].
  assert (Hr : spaced W r) by (destruct r; [exact I | apply Hs]).
  destruct (in_window W t0 a) eqn:E; [|now apply IH].
  unfold in_window in E. apply andb_true_iff in E. destruct E as [E1 E2]. apply N.leb_le in E1.
  pose proof (spaced_all_after _ _ _ Hs) as Hall.
  assert (Hnone : filter (in_window W t0) r = []).
  { clear -Hall E1. induction r as [|b r IHr]; [reflexivity|]. inversion Hall; subst. cbn [filter]. unfold in_window at 1.
    destruct (N.leb_spec b (t0 + W)); [lia|]. rewrite andb_false_r. auto. }
  rewrite Hnone. cbn. lia.
Qed.

Section Spacing.
  Variable W mk : N.
  (** [sel o]: the cache keys whose check this output shows to have passed *)
  Variable sel : out -> list key.
  Hypothesis Hsel : forall now nd nd' o, call_ok W now nd nd' o -> forall k, In k (sel o) ->
      (exists e1, c_lookup k (n_cache nd') = Some e1 /\ now + W <= e1) /\
      (forall e, c_lookup k (n_cache nd) = Some e -> e < now).

  Definition hit (n : nat) (k : key) (x : N * option nat * out) : bool :=
    let '(_, on, o) := x in
    match on with Some n' => Nat.eqb n' n | None => false end && existsb (key_eqb k) (sel o).
  Definition times (n : nat) (k : key) (tr : list (N * option nat * out)) : list N :=
    map (fun x => fst (fst x)) (filter (hit n k) tr).

  Lemma hit_inv n k t on o : hit n k (t, on, o) = true -> on = Some n /\ In k (sel o).
  Proof.
    cbn. intros H. apply andb_true_iff in H. destruct H as [H1 H2].
    destruct on as [n'|]; [|discriminate]. apply Nat.eqb_eq in H1. subst. split; [reflexivity|].
    apply existsb_exists in H2. destruct H2 as (k' & Hk & E). apply key_eqb_eq in E. now subst.
  Qed.

  Lemma times_after k : forall evs s n nd e,
    nth_error (nodes s) n = Some nd -> c_lookup k (n_cache nd) = Some e ->
    Forall (fun t => e < t) (times n k (snd (run W mk s evs))).
  Proof.
    induction evs as [|ev evs IH]; intros s n nd e Hn He; cbn [run]; [constructor|].
    destruct (step W mk s ev) as [s1 [on o]] eqn:Es.
    destruct (run W mk s1 evs) as [s2 tr] eqn:Er. cbn [snd].
    destruct (step_nodes _ _ _ _ _ _ _ Es _ _ Hn) as (nd' & Hn' & _ & Hc).
    unfold times. cbn [filter].
    assert (Hrest : Forall (fun t => e < t) (times n k tr)).
    { destruct Hc as [[-> Hok]|[_ Hcache]].
      - destruct (ck_le _ _ _ _ _ Hok _ _ He) as (e1 & L1 & I1).
        specialize (IH s1 n nd' e1 Hn' L1). rewrite Er in IH. cbn in IH.
        eapply Forall_impl; [|exact IH]. cbn; intros; lia.
      - rewrite <- Hcache in He. specialize (IH s1 n nd' e Hn' He). rewrite Er in IH. exact IH. }
    destruct (hit n k (clock s, on, o)) eqn:Eh; [|exact Hrest].
    cbn [map]. constructor; [|exact Hrest]. cbn.
    apply hit_inv in Eh. destruct Eh as [-> Hk].
    destruct Hc as [[_ Hok]|[Hne _]]; [|congruence].
    destruct (Hsel _ _ _ _ Hok _ Hk) as [_ Hold]. now apply Hold.
  Qed.

  Lemma times_spaced k n : forall evs s, spaced W (times n k (snd (run W mk s evs))).
  Proof.
    induction evs as [|ev evs IH]; intros s; cbn [run]; [exact I|].
    destruct (step W mk s ev) as [s1 [on o]] eqn:Es.
    destruct (run W mk s1 evs) as [s2 tr] eqn:Er. cbn [snd].
    specialize (IH s1). rewrite Er in IH. cbn [snd] in IH.
    unfold times. cbn [filter]. destruct (hit n k (clock s, on, o)) eqn:Eh; [|exact IH].
    cbn [map]. apply spaced_cons; [|exact IH]. cbn [fst].
    apply hit_inv in Eh. destruct Eh as [-> Hk].
    destruct (step_on _ _ _ _ _ _ _ Es) as (nd & Hn).
    destruct (step_nodes _ _ _ _ _ _ _ Es _ _ Hn) as (nd' & Hn' & _ & Hc).
    destruct Hc as [[_ Hok]|[Hne _]]; [|congruence].
    destruct (Hsel _ _ _ _ Hok _ Hk) as [(e1 & L1 & I1) _].
    pose proof (times_after k evs s1 n nd' e1 Hn' L1) as Ha. rewrite Er in Ha. cbn [snd] in Ha.
    eapply Forall_impl; [|exact Ha]. cbn; intros; lia.
  Qed.
End Spacing.

Definition sel_deliv (o : out) : list key := map (fun d => dkey (snd (fst d))) (o_deliv o).
Definition sel_fwd (o : out) : list key := map fkey (o_fwd o).

Lemma sel_deliv_ok W now nd nd' o : call_ok W now nd nd' o -> forall k, In k (sel_deliv o) ->
  (exists e1, c_lookup k (n_cache nd') = Some e1 /\ now + W <= e1) /\
  (forall e, c_lookup k (n_cache nd) = Some e -> e < now).
Proof. intros Hok k Hk. apply in_map_iff in Hk. destruct Hk as (d & <- & Hd). now apply (ck_deliv _ _ _ _ _ Hok). Qed.
Lemma sel_fwd_ok W now nd nd' o : call_ok W now nd nd' o -> forall k, In k (sel_fwd o) ->
  (exists e1, c_lookup k (n_cache nd') = Some e1 /\ now + W <= e1) /\
  (forall e, c_lookup k (n_cache nd) = Some e -> e < now).
Proof. intros Hok k Hk. apply in_map_iff in Hk. destruct Hk as (d & <- & Hd). now apply (ck_fwd _ _ _ _ _ Hok). Qed.

(** each call delivers / forwards at most one message *)
Lemma step_out_small W mk s e s1 on o : step W mk s e = (s1, (on, o)) ->
  (length (o_deliv o) <= 1)%nat /\ (length (o_fwd o) <= 1)%nat /\
  (forall p, In p (o_sends o) -> In (p_msg p) (o_fwd o)).
Proof.
  intros Hs. destruct on as [n|].
  - destruct (step_on _ _ _ _ _ _ _ Hs) as (nd & Hn).
    destruct (step_nodes _ _ _ _ _ _ _ Hs _ _ Hn) as (nd' & _ & _ & [[_ Hok]|[Hne _]]); [|congruence].
    split; [apply Hok|]. split; [apply Hok|]. intros p Hp. now apply (ck_sends _ _ _ _ _ Hok).
  - assert (o = out_none); [|subst; cbn; repeat split; try lia; intros p []].
    destruct e; cbn [step] in Hs.
    + congruence.
    + destruct (nth_error (nodes s) n); [destruct (multicast _ _ _ _ _ _); discriminate | congruence].
    + destruct (nth_error (soup s) i); [|congruence].
      destruct (find_node _ _ _) as [[? ?]|]; [destruct (on_multicast _ _ _ _ _ _); discriminate | congruence].
    + congruence.
    + congruence.
    + congruence.
Qed.

Lemma run_out_small W mk : forall evs s, Forall (fun x : N * option nat * out =>
    (length (o_deliv (snd x)) <= 1)%nat /\ (length (o_fwd (snd x)) <= 1)%nat /\
    (forall p, In p (o_sends (snd x)) -> In (p_msg p) (o_fwd (snd x)))) (snd (run W mk s evs)).
Proof.
  induction evs as [|ev evs IH]; intros s; cbn [run]; [constructor|].
  destruct (step W mk s ev) as [s1 [on o]] eqn:Es.
  specialize (IH s1). destruct (run W mk s1 evs) as [s2 tr]. cbn [snd] in *.
  constructor; [|exact IH]. cbn [snd]. eapply step_out_small; eassumption.
Qed.

(** * the registry invariants at every node of every reachable state *)

Definition NoX : addr -> nat -> Prop := fun _ _ => False.
Definition ninv (s : net) : Prop := Forall (fun nd => sinv NoX (n_svc nd)) (nodes s).

Lemma upd_const_Forall {A} (P : A -> Prop) i x l : Forall P l -> P x -> Forall P (upd_nth i (fun _ => x) l).
Proof. intros H Hx. apply upd_nth_Forall; auto. Qed.

Lemma step_ninv W mk s e : ninv s -> ninv (fst (step W mk s e)).
Proof.
  intros H. unfold ninv in *. destruct e; cbn [step].
  - cbn. apply upd_nth_Forall; [assumption|]. intros nd Hnd; cbn. now apply gstep_inv.
  - destruct (nth_error (nodes s) n) as [nd0|] eqn:E0; [|assumption].
    destruct (multicast W (clock s) nd0 m skip hint) as [nd0' o0] eqn:Em. cbn.
    apply upd_const_Forall; [assumption|]. rewrite (ck_svc _ _ _ _ _ (multicast_ok _ _ _ _ _ _ _ _ Em)).
    rewrite Forall_forall in H. apply H. eapply nth_error_In; eassumption.
  - destruct (nth_error (soup s) i) as [p|]; [|assumption].
    destruct (find_node (p_dst p) (nodes s) 0) as [[n0 nd0]|] eqn:Ef; [|assumption].
    destruct (on_multicast W (clock s) nd0 (p_src p) (p_msg p) hint) as [nd0' o0] eqn:Em. cbn.
    apply find_node_nth in Ef. destruct Ef as (_ & Ef & _). rewrite Nat.sub_0_r in Ef.
    apply upd_const_Forall; [assumption|]. rewrite (ck_svc _ _ _ _ _ (on_multicast_ok _ _ _ _ _ _ _ _ Em)).
    rewrite Forall_forall in H. apply H. eapply nth_error_In; eassumption.
  - assumption.
  - assumption.
  - assumption.
Qed.

Lemma run_ninv W mk : forall evs s, ninv s -> ninv (fst (run W mk s evs)).
Proof.
  induction evs as [|ev evs IH]; intros s H; cbn [run]; [assumption|].
  pose proof (step_ninv W mk s ev H) as H1.
  destruct (step W mk s ev) as [s1 [on o]]. cbn [fst] in H1.
  specialize (IH s1 H1). destruct (run W mk s1 evs) as [s2 tr]. exact IH.
Qed.

Lemma sinv_empty X : sinv X svc_empty.
Proof.
  unfold sinv, heap_ok, conn_ok, gmap_ok; cbn. split; [constructor|]. split; [intros ? ? ? ? []|intros ? ? []].
Qed.
Lemma ninv_init selfs : ninv (init_net selfs).
Proof.
  unfold ninv, init_net; cbn. induction selfs as [|a l IH]; cbn; constructor; [apply sinv_empty | assumption].
Qed.

Lemma get_obj_reg s gid o : get_obj s gid = Some o ->
  exists i, In (gid, i) (gmap s) /\ nth_error (heap s) i = Some o.
Proof.
  unfold get_obj, get_group. destruct (amap_get gid (gmap s)) as [i|] eqn:E; [|discriminate].
  intros H. exists i. split; [now apply amap_get_In | assumption].
Qed.

(** the partition statement, spelled out *)
Definition partitioned (g : group) : Prop :=
  NoDup (g_conn g) /\ NoDup (g_kept g) /\ NoDup (g_known g) /\
  (forall p, In p (g_conn g) -> ~ In p (g_kept g)) /\
  (forall p, In p (g_conn g) -> ~ In p (g_known g)) /\
  (forall p, In p (g_kept g) -> ~ In p (g_known g)).

Lemma partition_thm W mk selfs evs nd :
  In nd (nodes (fst (run W mk (init_net selfs) evs))) ->
  (forall o, In o (heap (n_svc nd)) -> partitioned (o_grp o)) /\
  (forall gid o p, get_obj (n_svc nd) gid = Some o -> In p (g_conn (o_grp o)) ->
     In p (nbrs (n_svc nd)) \/ In p (pend (n_svc nd))).
Proof.
  intros Hin. pose proof (run_ninv W mk evs _ (ninv_init selfs)) as H.
  unfold ninv in H. rewrite Forall_forall in H. destruct (H _ Hin) as (Hh & Hc & _). split.
  - intros o Ho. unfold heap_ok in Hh. rewrite Forall_forall in Hh. exact (Hh _ Ho).
  - intros gid o p Hg Hp. apply get_obj_reg in Hg. destruct Hg as (i & Hi & Hn).
    destruct (Hc _ _ _ _ Hi Hn Hp) as [H1|[H1|[]]]; auto.
Qed.

Lemma deliver_once_thm W mk s evs n origin id (t0 : N) :
  let tr := snd (run W mk s evs) in
  let ts := times sel_deliv n (false, origin, id) tr in
  spaced W ts /\ (length (filter (in_window W t0) ts) <= 1)%nat /\
  Forall (fun x : N * option nat * out => (length (o_deliv (snd x)) <= 1)%nat) tr.
Proof.
  cbv zeta. pose proof (times_spaced W mk sel_deliv (sel_deliv_ok W) (false, origin, id) n evs s) as Hs.
  split; [exact Hs|]. split; [now apply spaced_window|].
  eapply Forall_impl; [|apply run_out_small]. cbn. tauto.
Qed.

Lemma forward_once_thm W mk s evs n origin id (t0 : N) :
  let tr := snd (run W mk s evs) in
  let ts := times sel_fwd n (true, origin, id) tr in
  spaced W ts /\ (length (filter (in_window W t0) ts) <= 1)%nat /\
  Forall (fun x : N * option nat * out => (length (o_fwd (snd x)) <= 1)%nat /\
            forall p, In p (o_sends (snd x)) -> In (p_msg p) (o_fwd (snd x))) tr.
Proof.
  cbv zeta. pose proof (times_spaced W mk sel_fwd (sel_fwd_ok W) (true, origin, id) n evs s) as Hs.
  split; [exact Hs|]. split; [now apply spaced_window|].
  eapply Forall_impl; [|apply run_out_small]. cbn. tauto.
Qed.

Lemma prune_thm W mk selfs evs nd o :
  In nd (nodes (fst (run W mk (init_net selfs) evs))) -> In o (heap (n_svc nd)) ->
  N.of_nat (length (g_known (g_prune mk (o_grp o)))) = N.min mk (N.of_nat (length (g_known (o_grp o)))).
Proof.
  intros Hin Ho. destruct (partition_thm W mk selfs evs nd Hin) as [Hp _].
  apply g_prune_bound. apply (Hp _ Ho).
Qed.
