(** C38 — proofs, part 3: flooding stops.  Inside one de-duplication window
    ([Tend] = its end) the potential

      |soup| + sum over nodes, sum over messages m in flight:
                 (0 if the node's Multicast_ entry for m lives until Tend,
                  else the node's fan-out for m's group)

    drops by at least one with every delivery or loss of a packet, whatever
    the interleaving. *)
From Coq Require Import List NArith ZArith Bool Lia Arith.
Import ListNotations.
Require Import Aurora.Base.Corr Aurora.C38.Model Aurora.C38.Proofs Aurora.C38.ProofsFlood.
Local Open Scope N_scope.

Definition net_ev (e : ev) : bool :=
  match e with EvDeliver _ _ | EvDrop _ | EvTick _ => true | _ => false end.
Definition tick_of (e : ev) : N := match e with EvTick dt => dt | _ => 0 end.
Fixpoint ticks (evs : list ev) : N := match evs with [] => 0 | e :: r => tick_of e + ticks r end.
(** an event is effective when it takes a packet out of the soup *)
Definition eff (s : net) (e : ev) : nat :=
  match e with
  | EvDeliver i _ | EvDrop i => if (i <? length (soup s))%nat then 1%nat else 0%nat
  | _ => 0%nat
  end.
Fixpoint neff (W mk : N) (s : net) (evs : list ev) : nat :=
  match evs with
  | [] => 0%nat
  | e :: r => (eff s e + neff W mk (fst (step W mk s e)) r)%nat
  end.

Fixpoint lsum (l : list nat) : nat := match l with [] => 0%nat | x :: t => (x + lsum t)%nat end.

Definition locked (Tend : N) (c : cache) (m : msg) : bool :=
  match c_lookup (fkey m) c with Some e => Tend <=? e | None => false end.
(** fan-out bound of a node for a group id: its connected and kept members, or
    4 on the relay path (two candidates, each possibly written twice) *)
Definition fb (nd : node) (gid : addr) : nat :=
  match get_obj (n_svc nd) gid with
  | Some o => (length (g_conn (o_grp o)) + length (g_kept (o_grp o)))%nat
  | None => 4%nat
  end.
Definition node_pot (Tend : N) (K : list msg) (nd : node) : nat :=
  lsum (map (fun m => if locked Tend (n_cache nd) m then 0%nat else fb nd (m_gid m)) K).
Definition pot (Tend : N) (K : list msg) (s : net) : nat :=
  (length (soup s) + lsum (map (node_pot Tend K) (nodes s)))%nat.
Definition soup_ok (K : list msg) (l : list packet) : Prop :=
  forall p, In p l -> m_origin (p_msg p) <> [] /\ In (p_msg p) K.

(** * sums *)

Lemma sum_le {A} (f g : A -> nat) l :
  (forall x, In x l -> (f x <= g x)%nat) -> (lsum (map f l) <= lsum (map g l))%nat.
Proof.
  induction l as [|x t IH]; intros H; cbn; [lia|].
  pose proof (H x (or_introl eq_refl)). assert (forall y, In y t -> (f y <= g y)%nat) by (intros; apply H; now right).
  specialize (IH H1). lia.
Qed.
Lemma sum_drop {A} (f g : A -> nat) l x d :
  (forall y, In y l -> (f y <= g y)%nat) -> In x l -> (f x + d <= g x)%nat ->
  (lsum (map f l) + d <= lsum (map g l))%nat.
Proof.
  induction l as [|y t IH]; intros H Hin Hx; [destruct Hin|]. cbn.
  assert (Ht : forall z, In z t -> (f z <= g z)%nat) by (intros; apply H; now right).
  destruct Hin as [->|Hin].
  - pose proof (sum_le f g t Ht). lia.
  - specialize (IH Ht Hin Hx). pose proof (H y (or_introl eq_refl)). lia.
Qed.
Lemma sum_set_node (g : node -> nat) : forall l n nd nd', nth_error l n = Some nd ->
  (lsum (map g (set_node n nd' l)) + g nd = lsum (map g l) + g nd')%nat.
Proof.
  unfold set_node. induction l as [|x t IH]; intros [|n] nd nd' H; cbn in *; try discriminate.
  - injection H as ->. lia.
  - specialize (IH _ _ nd' H). lia.
Qed.

Lemma filter_len {A} (f : A -> bool) l : (length (filter f l) <= length l)%nat.
Proof. induction l as [|x t IH]; cbn; [lia|]. destruct (f x); cbn; lia. Qed.

Lemma remove_nth_len {A} i (l : list A) : (i < length l)%nat -> S (length (remove_nth i l)) = length l.
Proof.
  intros H. unfold remove_nth. rewrite app_length, firstn_length, skipn_length. lia.
Qed.
Lemma remove_nth_out {A} i (l : list A) : (length l <= i)%nat -> remove_nth i l = l.
Proof.
  intros H. unfold remove_nth. rewrite firstn_all2 by lia. rewrite skipn_all2 by lia. apply app_nil_r.
Qed.
Lemma remove_nth_In {A} i (l : list A) x : In x (remove_nth i l) -> In x l.
Proof.
  unfold remove_nth. intros H. apply in_app_or in H. destruct H as [H|H].
  - rewrite <- (firstn_skipn i l). apply in_or_app. now left.
  - rewrite <- (firstn_skipn (S i) l). apply in_or_app. now right.
Qed.

(** * fan-out *)

Lemma valid_pick2_len l pick : valid_pick2 l pick = true -> length pick = 2%nat.
Proof. destruct pick as [|a [|b [|c r]]]; cbn; try discriminate. reflexivity. Qed.

Lemma get_forward_len og skip hint : (length (fst (get_forward og skip hint)) <= 4)%nat.
Proof.
  destruct og as [g|]; cbn [get_forward fst length]; [|lia].
  set (F := filter (notskip skip) (g_conn g)).
  assert (HF : match g_conn g with [] => [] | _ => F end = F).
  { subst F. destruct (g_conn g); reflexivity. }
  rewrite HF. destruct (Nat.ltb_spec 2 (length F)).
  - destruct (valid_pick2 F hint) eqn:E; cbn [fst].
    + rewrite (valid_pick2_len _ _ E). lia.
    + rewrite firstn_length. lia.
  - destruct (g_kept g); cbn [fst]; [lia|]. rewrite app_length. lia.
Qed.

Lemma forward_nodes_len s gid skip hint : (length (fst (forward_nodes s gid skip hint)) <= 4)%nat.
Proof.
  unfold forward_nodes. pose proof (get_forward_len (closer_gid s false gid) skip hint) as H1.
  destruct (get_forward (closer_gid s false gid) skip hint) as [[|a l] b]; [apply get_forward_len | exact H1].
Qed.

Lemma targets_len nd m skip hint : (length (fst (targets_of nd m skip hint)) <= fb nd (m_gid m))%nat.
Proof.
  unfold targets_of, fb. destruct (get_obj (n_svc nd) (m_gid m)) as [o|]; cbn [fst].
  - unfold member_targets. rewrite app_length.
    pose proof (filter_len (notskip skip) (g_conn (o_grp o))). pose proof (filter_len (notskip skip) (g_kept (o_grp o))). lia.
  - apply forward_nodes_len.
Qed.

(** what [onMulticast] shows for a message that carries an origin *)
Lemma on_multicast_flood W now nd from m hint nd' o :
  m_origin m <> [] -> on_multicast W now nd from m hint = (nd', o) ->
  (forall p, In p (o_sends o) -> p_msg p = m) /\
  ((o_fwd o = [] /\ o_sends o = []) \/ (o_fwd o = [m] /\ (length (o_sends o) <= fb nd (m_gid m))%nat)).
Proof.
  intros Ho. unfold on_multicast.
  destruct (set_if_not_exist W now (dkey m) (n_cache nd)) as [c ok]. destruct ok; cbn [negb].
  2:{ intros [= <- <-]. cbn. split; [intros p []|]. left; auto. }
  destruct (aeqb (m_origin m) (n_self nd)).
  { intros [= <- <-]. cbn. split; [intros p []|]. left; auto. }
  set (dr := match get_obj (n_svc nd) (m_gid m) with Some o0 => _ | None => _ end). destruct dr as [deliv recvlog].
  set (nd1 := mkNode (n_self nd) (n_svc nd) (n_seq nd) c).
  unfold multicast.
  assert (Hr : resolve nd1 m = (m, n_seq nd1)).
  { unfold resolve. destruct (m_origin m); [contradiction | reflexivity]. }
  rewrite Hr. destruct (set_if_not_exist W now (fkey m) (n_cache nd1)) as [c2 ok2]. destruct ok2.
  - pose proof (targets_len nd1 m [from] hint) as Hl.
    destruct (targets_of nd1 m [from] hint) as [targets good]. cbn [fst] in Hl.
    intros [= <- <-]. cbn [o_sends o_fwd]. split.
    + intros p Hp. apply in_map_iff in Hp. destruct Hp as (d & <- & _). reflexivity.
    + right. split; [reflexivity|]. rewrite map_length. exact Hl.
  - intros [= <- <-]. cbn. split; [intros p []|]. left; auto.
Qed.

(** * the potential of one node *)

Lemma locked_mono Tend c c' m : cache_le c c' -> locked Tend c m = true -> locked Tend c' m = true.
Proof.
  unfold locked. intros Hle. destruct (c_lookup (fkey m) c) as [e|] eqn:E; [|discriminate].
  destruct (Hle _ _ E) as (e' & -> & I). intros H. apply N.leb_le in H. apply N.leb_le. lia.
Qed.

Lemma fb_svc nd nd' gid : n_svc nd' = n_svc nd -> fb nd' gid = fb nd gid.
Proof. unfold fb. now intros ->. Qed.

Lemma node_pot_le Tend K nd nd' :
  n_svc nd' = n_svc nd -> cache_le (n_cache nd) (n_cache nd') -> (node_pot Tend K nd' <= node_pot Tend K nd)%nat.
Proof.
  intros Hs Hle. unfold node_pot. apply sum_le. intros m _. rewrite (fb_svc _ _ _ Hs).
  destruct (locked Tend (n_cache nd) m) eqn:E; [rewrite (locked_mono _ _ _ _ Hle E); lia|].
  destruct (locked Tend (n_cache nd') m); lia.
Qed.

Lemma node_pot_fwd W now Tend K nd nd' m :
  n_svc nd' = n_svc nd -> cache_le (n_cache nd) (n_cache nd') -> In m K ->
  now <= Tend -> Tend <= now + W ->
  (exists e1, c_lookup (fkey m) (n_cache nd') = Some e1 /\ now + W <= e1) ->
  (forall e, c_lookup (fkey m) (n_cache nd) = Some e -> e < now) ->
  (node_pot Tend K nd' + fb nd (m_gid m) <= node_pot Tend K nd)%nat.
Proof.
  intros Hs Hle Hin H1 H2 (e1 & L1 & I1) Hold. unfold node_pot.
  apply sum_drop with (x := m); [|assumption|].
  - intros m0 _. rewrite (fb_svc _ _ _ Hs).
    destruct (locked Tend (n_cache nd) m0) eqn:E; [rewrite (locked_mono _ _ _ _ Hle E); lia|].
    destruct (locked Tend (n_cache nd') m0); lia.
  - assert (Hl' : locked Tend (n_cache nd') m = true) by (unfold locked; rewrite L1; apply N.leb_le; lia).
    assert (Hl : locked Tend (n_cache nd) m = false).
    { unfold locked. destruct (c_lookup (fkey m) (n_cache nd)) as [e|] eqn:E; [|reflexivity].
      specialize (Hold _ eq_refl). apply N.leb_gt. lia. }
    rewrite Hl', Hl. lia.
Qed.

(** * one step *)

Lemma step_pot W mk Tend K s e :
  net_ev e = true -> soup_ok K (soup s) -> clock s + tick_of e <= Tend -> Tend <= clock s + W ->
  let s1 := fst (step W mk s e) in
  soup_ok K (soup s1) /\ (eff s e + pot Tend K s1 <= pot Tend K s)%nat /\ clock s1 = clock s + tick_of e.
Proof.
  intros Hne Hok Hc1 Hc2. destruct e; try discriminate; cbn [step eff tick_of] in *.
  - (* EvDeliver *)
    destruct (nth_error (soup s) i) as [p|] eqn:Ep.
    2:{ cbn [fst soup nodes clock]. apply nth_error_None in Ep. destruct (Nat.ltb_spec i (length (soup s))); [exfalso; lia|]. split; [assumption|]. split; lia. }
    assert (Hi : (i < length (soup s))%nat) by (apply nth_error_Some; congruence).
    destruct (Nat.ltb_spec i (length (soup s))); [|exfalso; lia].
    pose proof (remove_nth_len i (soup s) Hi) as Hlen.
    destruct (Hok p (nth_error_In _ _ Ep)) as [Hpo HpK].
    assert (Hrest : soup_ok K (remove_nth i (soup s))) by (intros q Hq; apply Hok; eapply remove_nth_In; eassumption).
    destruct (find_node (p_dst p) (nodes s) 0) as [[n nd]|] eqn:Ef.
    2:{ cbn [fst soup nodes clock]. split; [assumption|]. unfold pot; cbn [soup nodes]. split; lia. }
    destruct (on_multicast W (clock s) nd (p_src p) (p_msg p) hint) as [nd' o] eqn:Em. cbn [fst soup nodes clock].
    apply find_node_nth in Ef. destruct Ef as (_ & Ef & _). rewrite Nat.sub_0_r in Ef.
    pose proof (on_multicast_ok _ _ _ _ _ _ _ _ Em) as Hcall.
    destruct (on_multicast_flood _ _ _ _ _ _ _ _ Hpo Em) as [Hmsg Hcase].
    split; [|split; [|lia]].
    + intros q Hq. apply in_app_or in Hq. destruct Hq as [Hq|Hq]; [now apply Hrest|].
      rewrite (Hmsg _ Hq). auto.
    + unfold pot; cbn [soup nodes]. rewrite app_length.
      pose proof (sum_set_node (node_pot Tend K) _ _ _ nd' Ef) as Hsum.
      destruct Hcase as [[Hf Hsn]|[Hf Hsn]].
      * rewrite Hsn. cbn [length].
        pose proof (node_pot_le Tend K nd nd' (ck_svc _ _ _ _ _ Hcall) (ck_le _ _ _ _ _ Hcall)). lia.
      * assert (Hin : In (p_msg p) (o_fwd o)) by (rewrite Hf; now left).
        destruct (ck_fwd _ _ _ _ _ Hcall _ Hin) as [Hnew Hold].
        pose proof (node_pot_fwd W (clock s) Tend K nd nd' (p_msg p) (ck_svc _ _ _ _ _ Hcall) (ck_le _ _ _ _ _ Hcall) HpK ltac:(lia) Hc2 Hnew Hold).
        lia.
  - (* EvDrop *)
    cbn [fst soup nodes clock]. destruct (Nat.ltb_spec i (length (soup s))) as [Hi|Hi].
    + pose proof (remove_nth_len i (soup s) Hi). split; [intros q Hq; apply Hok; eapply remove_nth_In; eassumption|].
      unfold pot; cbn [soup nodes]. split; lia.
    + rewrite remove_nth_out by assumption. split; [assumption|]. unfold pot; cbn [soup nodes]. split; lia.
  - (* EvTick *)
    cbn [fst soup nodes clock]. split; [assumption|]. unfold pot; cbn [soup nodes]. split; lia.
Qed.

Lemma run_cons_fst W mk s e r : fst (run W mk s (e :: r)) = fst (run W mk (fst (step W mk s e)) r).
Proof.
  cbn [run]. destruct (step W mk s e) as [s1 [on o]]. cbn [fst]. now destruct (run W mk s1 r).
Qed.

Lemma flood_measure W mk Tend K : forall evs s,
  forallb net_ev evs = true -> soup_ok K (soup s) -> clock s + ticks evs <= Tend -> Tend <= clock s + W ->
  (neff W mk s evs + pot Tend K (fst (run W mk s evs)) <= pot Tend K s)%nat.
Proof.
  induction evs as [|e r IH]; intros s Hne Hok Hc1 Hc2; [cbn; lia|].
  cbn [forallb] in Hne. apply andb_true_iff in Hne. destruct Hne as [He Hr].
  cbn [ticks] in Hc1. rewrite run_cons_fst. cbn [neff].
  destruct (step_pot W mk Tend K s e He Hok ltac:(lia) Hc2) as (Hok1 & Hpot & Hclk). cbv zeta in *.
  specialize (IH (fst (step W mk s e)) Hr Hok1 ltac:(lia) ltac:(lia)). lia.
Qed.

Lemma pot_bound Tend K s :
  (pot Tend K s <= length (soup s) + lsum (map (fun nd => lsum (map (fun m => fb nd (m_gid m)) K)) (nodes s)))%nat.
Proof.
  unfold pot. apply Nat.add_le_mono_l. apply sum_le. intros nd _. unfold node_pot. apply sum_le.
  intros m _. destruct (locked Tend (n_cache nd) m); lia.
Qed.

(** Within one window, from a soup whose packets all carry an origin, with no
    new origination or injection: the number of effective deliveries / drops
    plus what is still in flight never exceeds the initial soup plus, for each
    packet's message, the sum of the nodes' fan-outs. *)
Lemma flood_terminates_thm W mk s evs :
  forallb net_ev evs = true -> (forall p, In p (soup s) -> m_origin (p_msg p) <> []) -> ticks evs <= W ->
  (neff W mk s evs + length (soup (fst (run W mk s evs))) <=
   length (soup s) + lsum (map (fun nd => lsum (map (fun p => fb nd (m_gid (p_msg p))) (soup s))) (nodes s)))%nat.
Proof.
  intros Hne Ho Ht.
  pose proof (flood_measure W mk (clock s + W) (map p_msg (soup s)) evs s Hne) as H.
  assert (Hok : soup_ok (map p_msg (soup s)) (soup s)) by (intros p Hp; split; [now apply Ho | now apply in_map]).
  specialize (H Hok ltac:(lia) ltac:(lia)).
  pose proof (pot_bound (clock s + W) (map p_msg (soup s)) s) as Hb.
  assert (Hs : (length (soup (fst (run W mk s evs))) <= pot (clock s + W) (map p_msg (soup s)) (fst (run W mk s evs)))%nat) by (unfold pot; lia).
  assert (Hm : forall nd, lsum (map (fun m => fb nd (m_gid m)) (map p_msg (soup s))) = lsum (map (fun p => fb nd (m_gid (p_msg p))) (soup s))).
  { intros nd. now rewrite map_map. }
  rewrite (map_ext _ _ Hm) in Hb. lia.
Qed.

(** quiescence: with nothing in flight, deliveries and drops do nothing *)
Lemma quiescent W mk s e : soup s = [] -> net_ev e = true ->
  soup (fst (step W mk s e)) = [] /\ snd (snd (step W mk s e)) = out_none.
Proof.
  intros Hs He. destruct e; try discriminate; cbn [step]; rewrite ?Hs.
  - destruct i; cbn; auto.
  - unfold remove_nth. destruct i; cbn; auto.
  - cbn. auto.
Qed.

(** counting form of forward-once: in any interval of length [W], over all
    nodes together, the calls that pass the Multicast_ check for one key are
    at most as many as there are nodes — for every history *)
Lemma lsum_ones {A} (f : A -> nat) l : (forall x, In x l -> (f x <= 1)%nat) -> (lsum (map f l) <= length l)%nat.
Proof.
  induction l as [|x t IH]; intros H; cbn; [lia|].
  pose proof (H x (or_introl eq_refl)). assert (forall y, In y t -> (f y <= 1)%nat) by (intros; apply H; now right).
  specialize (IH H1). lia.
Qed.

Lemma forwards_bounded_thm W mk s evs origin id (t0 : N) :
  (lsum (map (fun n => length (filter (in_window W t0) (times sel_fwd n (true, origin, id) (snd (run W mk s evs)))))
             (seq 0 (length (nodes s)))) <= length (nodes s))%nat.
Proof.
  rewrite <- (seq_length (length (nodes s)) 0) at 2. apply lsum_ones. intros n _.
  apply (forward_once_thm W mk s evs n origin id t0).
Qed.
