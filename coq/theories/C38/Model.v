(** C38 — model of pkg/multicast: group.go (add / remove / pruneKnown), the
    group registry of kademlia.go / handshake.go (getGroupOrCreate, onNotify,
    updatePeerGroupsJoin, gcGroup, observeGroupCancel, the disconnect branch
    of Start), and the flooding functions Multicast / onMulticast with the
    relay selection of discover.go (getForwardNodes, getForward).

    Definitions only (computable); proofs are in Proofs*.v.

    Addresses are byte strings ([list N]).  A [pslice.PSlice] created with
    [pslice.New(1, self)] has one bin, so it is a plain slice: [Add] appends
    when absent, [Remove] overwrites the removed index with the last element
    and truncates, [Exists] is a linear scan with [bytes.Equal].

    The de-duplication cache (gcache) is a map key -> expiry time in ms:
    [SetIfNotExist(key, 1, d)] succeeds iff the key is absent or its expiry
    [e] satisfies [e < now] ([adapterMemoryItem.IsExpired]); on success the
    entry becomes [now + d].  The production cache is one package global; the
    model gives each node its own (one node per process). *)
From Coq Require Import List NArith ZArith Bool.
Import ListNotations.
Require Import Aurora.Base.Corr.
Local Open Scope N_scope.

Definition addr := list N.
Definition aeqb (a b : addr) : bool := bytes_eqb a b.

(** * pslice with one bin *)

Definition ps_exists (a : addr) (l : list addr) : bool := existsb (aeqb a) l.

(** [Add] of a single address: [index] first, append when absent *)
Definition ps_add (a : addr) (l : list addr) : list addr :=
  if ps_exists a l then l else l ++ [a].

(** [Remove]: the first index holding [a] is overwritten with the last element
    and the slice is shortened by one *)
Fixpoint ps_remove (a : addr) (l : list addr) : list addr :=
  match l with
  | [] => []
  | x :: t =>
      if aeqb x a then
        match t with
        | [] => []
        | _ => last t x :: removelast t
        end
      else x :: ps_remove a t
  end.

(** * group.go *)

Record group := mkGroup { g_conn : list addr; g_kept : list addr; g_known : list addr }.
Definition g_empty : group := mkGroup [] [] [].

(** [func (g *Group) remove(peer, intoKnown)] *)
Definition g_remove (p : addr) (intoKnown : bool) (g : group) : group :=
  let c := ps_exists p (g_conn g) in
  let k := ps_exists p (g_kept g) in
  let notify := c || k in
  let conn' := if c then ps_remove p (g_conn g) else g_conn g in
  let kept' := if k then ps_remove p (g_kept g) else g_kept g in
  let known' :=
    if ps_exists p (g_known g)
    then (if intoKnown then g_known g else ps_remove p (g_known g))
    else (if intoKnown && notify then ps_add p (g_known g) else g_known g) in
  mkGroup conn' kept' known'.

(** [func (g *Group) add(peer, keep)]; [isnbr] = [g.srv.route.IsNeighbor(peer)]
    evaluated at the time of the call *)
Definition g_add (isnbr : bool) (p : addr) (keep : bool) (g : group) : group :=
  let rm (l : list addr) := if ps_exists p l then ps_remove p l else l in
  let ad (l : list addr) := if ps_exists p l then l else ps_add p l in
  if negb keep then mkGroup (rm (g_conn g)) (rm (g_kept g)) (ad (g_known g))
  else if isnbr then mkGroup (ad (g_conn g)) (rm (g_kept g)) (rm (g_known g))
  else mkGroup (rm (g_conn g)) (ad (g_kept g)) (rm (g_known g)).

(** [func (g *Group) pruneKnown()]: [k = Length() - maxKnownPeers]; when
    positive, walk the snapshot [BinPeers(0)] and [Remove] its first [k]
    entries from the live slice *)
Definition g_prune (maxKnown : N) (g : group) : group :=
  let len := N.of_nat (length (g_known g)) in
  if maxKnown <? len then
    let k := N.to_nat (len - maxKnown) in
    mkGroup (g_conn g) (g_kept g)
            (fold_left (fun l p => ps_remove p l) (firstn k (g_known g)) (g_known g))
  else g.

(** * the group registry of a Service *)

Inductive gtype := GJoin | GObserve | GKnown.
Definition gtype_eqb (a b : gtype) : bool :=
  match a, b with GJoin, GJoin | GObserve, GObserve | GKnown, GKnown => true | _, _ => false end.

(** a [*Group] object *)
Record gobj := mkObj { o_gid : addr; o_type : gtype; o_sub : bool; o_grp : group }.

(** [heap]: every Group object ever allocated (index = pointer identity);
    [gmap]: [s.groups] (sync.Map keyed by the hex of the gid — injective);
    [pgs]: [s.peerGroups] (peer -> slice of object pointers, which may
    outlive the registration of the object);
    [nbrs]: the environment, what [route.IsNeighbor] answers;
    [pend]: PeerStateDisconnect notifications published by the topology and
    not yet consumed by the loop of [Start]. *)
Record svc := mkSvc {
  heap : list gobj;
  gmap : list (addr * nat);
  pgs : list (addr * list nat);
  nbrs : list addr;
  pend : list addr }.
Definition svc_empty : svc := mkSvc [] [] [] [] [].

Fixpoint amap_get {V} (k : addr) (m : list (addr * V)) : option V :=
  match m with
  | [] => None
  | (k', v) :: t => if aeqb k' k then Some v else amap_get k t
  end.
Fixpoint amap_set {V} (k : addr) (v : V) (m : list (addr * V)) : list (addr * V) :=
  match m with
  | [] => [(k, v)]
  | (k', v') :: t => if aeqb k' k then (k, v) :: t else (k', v') :: amap_set k v t
  end.
Fixpoint amap_del {V} (k : addr) (m : list (addr * V)) : list (addr * V) :=
  match m with
  | [] => []
  | (k', v') :: t => if aeqb k' k then t else (k', v') :: amap_del k t
  end.

Fixpoint upd_nth {A} (i : nat) (f : A -> A) (l : list A) : list A :=
  match l, i with
  | [], _ => []
  | x :: t, O => f x :: t
  | x :: t, S i' => x :: upd_nth i' f t
  end.

Definition is_nbr (s : svc) (p : addr) : bool := ps_exists p (nbrs s).
Definition set_heap (s : svc) (h : list gobj) : svc := mkSvc h (gmap s) (pgs s) (nbrs s) (pend s).
Definition on_obj (i : nat) (f : group -> group) (s : svc) : svc :=
  set_heap s (upd_nth i (fun o => mkObj (o_gid o) (o_type o) (o_sub o) (f (o_grp o))) (heap s)).

(** [s.getGroup(gid)] *)
Definition get_group (s : svc) (gid : addr) : option nat := amap_get gid (gmap s).
Definition get_obj (s : svc) (gid : addr) : option gobj :=
  match get_group s gid with Some i => nth_error (heap s) i | None => None end.

(** [s.newGroup(gid, o)]: allocates and stores unconditionally *)
Definition new_group (gid : addr) (t : gtype) (s : svc) : svc * nat :=
  let i := length (heap s) in
  (mkSvc (heap s ++ [mkObj gid t false g_empty]) (amap_set gid i (gmap s)) (pgs s) (nbrs s) (pend s), i).

(** [s.getGroupOrCreate(gid)] *)
Definition get_or_create (gid : addr) (s : svc) : svc * nat :=
  match get_group s gid with Some i => (s, i) | None => new_group gid GKnown s end.

Definition obj_add (i : nat) (p : addr) (keep : bool) (s : svc) : svc :=
  on_obj i (g_add (is_nbr s p) p keep) s.
Definition obj_remove (i : nat) (p : addr) (intoKnown : bool) (s : svc) : svc :=
  on_obj i (g_remove p intoKnown) s.

(** [s.updatePeerGroupsJoin(peer, GIDs)] *)
Definition update_peer_groups (p : addr) (gids : list addr) (s : svc) : svc :=
  let olds := match amap_get p (pgs s) with Some l => l | None => [] end in
  let s1 := fold_left (fun s i =>
              match nth_error (heap s) i with
              | Some o => if existsb (aeqb (o_gid o)) gids then s else obj_remove i p false s
              | None => s
              end) olds s in
  let '(s2, now) := fold_left (fun '(s, now) gid =>
              let '(s', i) := get_or_create gid s in
              (obj_add i p true s', now ++ [i])) gids (s1, []) in
  mkSvc (heap s2) (gmap s2) (amap_set p now (pgs s2)) (nbrs s2) (pend s2).

(** [s.gcGroup()] over the snapshot [getGroupAll()] *)
Definition gc_one (s : svc) (gi : addr * nat) : svc :=
  match nth_error (heap s) (snd gi) with
  | Some o =>
      match o_type o with
      | GKnown =>
          let g := o_grp o in
          let s1 := on_obj (snd gi) (fun g => mkGroup (g_conn g) [] []) s in
          match g_conn g with
          | [] => mkSvc (heap s1) (amap_del (o_gid o) (gmap s1)) (pgs s1) (nbrs s1) (pend s1)
          | _ => s1
          end
      | _ => s
      end
  | None => s
  end.
Definition gc_group (s : svc) : svc := fold_left gc_one (gmap s) s.

(** events on one Service *)
Inductive gev :=
| GNew (gid : addr) (t : gtype) (replace : bool)   (* joinGroup / observeGroup registering a group *)
| GAdd (gid p : addr) (keep : bool)                (* g.add on the registered group *)
| GRemove (gid p : addr) (intoKnown : bool)        (* g.remove on the registered group *)
| GPrune (gid : addr)                              (* g.pruneKnown *)
| GNotify (p : addr) (join : bool) (gids : list addr)   (* the onNotify handler *)
| GHandshake (p : addr) (gids : list addr)         (* either handshake direction: updatePeerGroupsJoin *)
| GGc                                              (* the ticker's gcGroup *)
| GObserveCancel (gid : addr)                      (* RemoveGroup(gid, GTypeObserve) *)
| GSubscribe (gid : addr)                          (* SubscribeMulticastMsg *)
| EConnect (p : addr)                              (* environment: p becomes a neighbour *)
| EDisconnect (p : addr)                           (* environment: p stops being one; the topology publishes PeerStateDisconnect *)
| GProcDisconnect.                                 (* the loop of Start consumes one notification *)

Definition set_type_sub (i : nat) (f : gobj -> gobj) (s : svc) : svc := set_heap s (upd_nth i f (heap s)).

Definition gstep (maxKnown : N) (s : svc) (e : gev) : svc :=
  match e with
  | GNew gid t replace =>
      match get_group s gid with
      | Some _ => if replace then fst (new_group gid t s) else s
      | None => fst (new_group gid t s)
      end
  | GAdd gid p keep => match get_group s gid with Some i => obj_add i p keep s | None => s end
  | GRemove gid p ik => match get_group s gid with Some i => obj_remove i p ik s | None => s end
  | GPrune gid => match get_group s gid with Some i => on_obj i (g_prune maxKnown) s | None => s end
  | GNotify p join gids =>
      fold_left (fun s gid =>
                   let '(s', i) := get_or_create gid s in
                   if join then obj_add i p true s' else obj_remove i p false s') gids s
  | GHandshake p gids => update_peer_groups p gids s
  | GGc => gc_group s
  | GObserveCancel gid =>
      match get_group s gid with
      | Some i => set_type_sub i (fun o => match o_type o with
                                           | GObserve => mkObj (o_gid o) GKnown (o_sub o) (o_grp o)
                                           | _ => o end) s
      | None => s
      end
  | GSubscribe gid =>
      match get_group s gid with
      | Some i => set_type_sub i (fun o => match o_type o with
                                           | GJoin => mkObj (o_gid o) GJoin true (o_grp o)
                                           | _ => o end) s
      | None => s
      end
  | EConnect p => mkSvc (heap s) (gmap s) (pgs s) (ps_add p (nbrs s)) (pend s)
  | EDisconnect p =>
      mkSvc (heap s) (gmap s) (pgs s) (filter (fun q => negb (aeqb q p)) (nbrs s)) (pend s ++ [p])
  | GProcDisconnect =>
      match pend s with
      | [] => s
      | p :: r =>
          let s0 := mkSvc (heap s) (gmap s) (pgs s) (nbrs s) r in
          fold_left (fun s gi => obj_remove (snd gi) p true s) (gmap s0) s0
      end
  end.

(** * flooding *)

Record msg := mkMsg { m_origin : addr; m_id : N; m_gid : addr; m_data : list N }.
Definition msg_eqb (a b : msg) : bool :=
  aeqb (m_origin a) (m_origin b) && (m_id a =? m_id b) && aeqb (m_gid a) (m_gid b) && bytes_eqb (m_data a) (m_data b).

(** cache key: [true] = "Multicast_<origin>_<id>", [false] = "onMulticast_<origin>_<id>" *)
Definition key := (bool * addr * N)%type.
Definition key_eqb (a b : key) : bool :=
  let '(t1, o1, i1) := a in let '(t2, o2, i2) := b in Bool.eqb t1 t2 && aeqb o1 o2 && (i1 =? i2).
Definition cache := list (key * N).
Fixpoint c_lookup (k : key) (c : cache) : option N :=
  match c with
  | [] => None
  | (k', e) :: t => if key_eqb k' k then Some e else c_lookup k t
  end.
(** [cache.SetIfNotExist(ctx, key, 1, W)] at time [now] (ms) *)
Definition set_if_not_exist (W now : N) (k : key) (c : cache) : cache * bool :=
  match c_lookup k c with
  | Some e => if now <=? e then (c, false) else ((k, now + W) :: c, true)
  | None => ((k, now + W) :: c, true)
  end.

Record node := mkNode { n_self : addr; n_svc : svc; n_seq : N; n_cache : cache }.
Record packet := mkPkt { p_src : addr; p_dst : addr; p_msg : msg }.

(** what one call makes visible *)
Record out := mkOut {
  o_deliv : list (addr * msg * addr);   (* Publish("group","multicastMsg", gid, Message{.., From}) *)
  o_recvlog : bool;                     (* logContent "multicast_receive" *)
  o_fwd : list msg;                     (* logContent "multicast_deliver": the Multicast_ check was passed *)
  o_sends : list packet;                (* sendData(.., streamMulticast, info) in order *)
  o_bad : bool }.                       (* the observed random choice is not one the code can make *)
Definition out_none : out := mkOut [] false [] [] false.

Definition notskip (skip : list addr) (a : addr) : bool := negb (existsb (aeqb a) skip).

(** [g.multicast(msg, skip...)]: connected then kept, skipping members of [skip]
    (both empty: [discover] — modelled as not changing the lists — then return) *)
Definition member_targets (g : group) (skip : list addr) : list addr :=
  filter (notskip skip) (g_conn g) ++ filter (notskip skip) (g_kept g).

(** [boson.DistanceCmp] / [Address.Closer] (same transcription as C20) *)
Fixpoint cmp_loop (a x y : list N) : Z :=
  match a, x, y with
  | ai :: a', xi :: x', yi :: y' =>
      let dx := N.lxor xi ai in
      let dy := N.lxor yi ai in
      if dx =? dy then cmp_loop a' x' y'
      else if dx <? dy then 1%Z else (-1)%Z
  | _, _, _ => 0%Z
  end.
Definition closer_yes (a x y : addr) : bool :=   (* yes, _ := a.Closer(x, y) *)
  Nat.eqb (length x) (length a) && Nat.eqb (length x) (length y) && Z.eqb (cmp_loop x a y) 1.

(** [getCloserKnownGID] ([self_groups = false]) / [getCloserSelfGID] ([true]):
    the loop over [getGroupAll()] in the order given *)
Definition closer_gid (s : svc) (self_groups : bool) (gid : addr) : option group :=
  snd (fold_left (fun '(closer, best) gi =>
         match nth_error (heap s) (snd gi) with
         | Some o =>
             let g := o_grp o in
             let is_join := gtype_eqb (o_type o) GJoin in
             if Bool.eqb is_join self_groups && negb (match g_conn g, g_kept g with [], [] => true | _, _ => false end) then
               match closer with
               | [] => (o_gid o, Some g)
               | _ => if closer_yes (o_gid o) gid closer then (o_gid o, Some g) else (closer, best)
               end
             else (closer, best)
         | None => (closer, best)
         end) (gmap s) (([] : addr), None)).

(** two entries of [l] at distinct positions, in any order
    ([RandomPeersLimit(l, 2)] after a shuffle) *)
Fixpoint remove_one (a : addr) (l : list addr) : option (list addr) :=
  match l with
  | [] => None
  | x :: t => if aeqb x a then Some t else option_map (cons x) (remove_one a t)
  end.
Definition valid_pick2 (l pick : list addr) : bool :=
  match pick with
  | [a; b] => match remove_one a l with Some l' => existsb (aeqb b) l' | None => false end
  | _ => false
  end.

(** [getForward(conn, kept, skip...)] as coded: the second half walks [conn]
    again (not [kept]), and [RandomPeersLimit(list, k)] with [k <= 1] returns
    its argument, so a relay with kept peers sends to the connected ones twice.
    Result: (targets, hint accepted); a hint that is not a possible outcome of
    the shuffle is replaced by the first two candidates and flagged. *)
Definition get_forward (og : option group) (skip hint : list addr) : list addr * bool :=
  match og with
  | None => ([], true)
  | Some g =>
      let nodes := match g_conn g with [] => [] | _ => filter (notskip skip) (g_conn g) end in
      if (2 <? length nodes)%nat then
        (if valid_pick2 nodes hint then (hint, true) else (firstn 2 nodes, false))
      else match g_kept g with
           | [] => (nodes, true)
           | _ => (nodes ++ filter (notskip skip) (g_conn g), true)
           end
  end.

(** [getForwardNodes] *)
Definition forward_nodes (s : svc) (gid : addr) (skip hint : list addr) : list addr * bool :=
  match get_forward (closer_gid s false gid) skip hint with
  | ([], _) => get_forward (closer_gid s true gid) skip hint
  | r => r
  end.

Definition u64 (n : N) : N := n mod 18446744073709551616.

Definition fkey (m : msg) : key := (true, m_origin m, m_id m).    (* "Multicast_%s_%d" *)
Definition dkey (m : msg) : key := (false, m_origin m, m_id m).   (* "onMulticast_%s_%d" *)

(** the head of [Multicast]: a message without origin is stamped with the
    node's address and the next sequence number (uint64 wrap-around) *)
Definition resolve (nd : node) (m : msg) : msg * N :=
  match m_origin m with
  | [] => let id := u64 (n_seq nd + 1) in (mkMsg (n_self nd) id (m_gid m) (m_data m), id)
  | _ => (m, n_seq nd)
  end.

(** where [Multicast] writes to: the group's connected and kept peers when the
    node has a group object for the gid, the relay selection otherwise *)
Definition targets_of (nd : node) (m : msg) (skip hint : list addr) : list addr * bool :=
  match get_obj (n_svc nd) (m_gid m) with
  | Some o => (member_targets (o_grp o) skip, true)
  | None => forward_nodes (n_svc nd) (m_gid m) skip hint
  end.

(** [func (s *Service) Multicast(info, skip...)] *)
Definition multicast (W now : N) (nd : node) (m : msg) (skip hint : list addr) : node * out :=
  let '(m', seq) := resolve nd m in
  let '(c, ok) := set_if_not_exist W now (fkey m') (n_cache nd) in
  let nd' := mkNode (n_self nd) (n_svc nd) seq c in
  if ok then
    let '(targets, good) := targets_of nd m' skip hint in
    (nd', mkOut [] false [m'] (map (fun d => mkPkt (n_self nd) d m') targets) (negb good))
  else (nd', out_none).

(** [func (s *Service) onMulticast(ctx, peer, stream)] after a successful read *)
Definition on_multicast (W now : N) (nd : node) (from : addr) (m : msg) (hint : list addr) : node * out :=
  let '(c, ok) := set_if_not_exist W now (dkey m) (n_cache nd) in
  let nd1 := mkNode (n_self nd) (n_svc nd) (n_seq nd) c in
  if negb ok then (nd1, out_none)
  else if aeqb (m_origin m) (n_self nd) then (nd1, out_none)
  else
    let '(deliv, recvlog) :=
      match get_obj (n_svc nd) (m_gid m) with
      | Some o =>
          match o_type o with
          | GJoin => (if o_sub o then [(m_gid m, m, from)] else [], false)
          | _ => ([], true)
          end
      | None => ([], true)
      end in
    let '(nd2, o) := multicast W now nd1 m [from] hint in
    (nd2, mkOut deliv recvlog (o_fwd o) (o_sends o) (o_bad o)).

(** * the network: nodes, a soup of packets in flight, a clock *)

Record net := mkNet { nodes : list node; soup : list packet; clock : N }.

Inductive ev :=
| EvG (n : nat) (e : gev)                                   (* registry / environment event at node n *)
| EvMulticast (n : nat) (m : msg) (skip hint : list addr)   (* API call Multicast(info, skip...) at node n *)
| EvDeliver (i : nat) (hint : list addr)                    (* packet i reaches the onMulticast handler of its destination *)
| EvDrop (i : nat)                                          (* packet i is lost *)
| EvInject (p : packet)                                     (* a forged or duplicated packet enters the network *)
| EvTick (dt : N).                                          (* time passes *)

Fixpoint find_node (a : addr) (l : list node) (i : nat) : option (nat * node) :=
  match l with
  | [] => None
  | nd :: t => if aeqb (n_self nd) a then Some (i, nd) else find_node a t (S i)
  end.
Definition remove_nth {A} (i : nat) (l : list A) : list A := firstn i l ++ skipn (S i) l.
Definition set_node (n : nat) (nd : node) (l : list node) : list node := upd_nth n (fun _ => nd) l.

(** [step] returns the node the event ran on (if any) and what it made visible *)
Definition step (W maxKnown : N) (s : net) (e : ev) : net * (option nat * out) :=
  match e with
  | EvG n ge =>
      (mkNet (upd_nth n (fun nd => mkNode (n_self nd) (gstep maxKnown (n_svc nd) ge) (n_seq nd) (n_cache nd)) (nodes s))
             (soup s) (clock s), (None, out_none))
  | EvMulticast n m skip hint =>
      match nth_error (nodes s) n with
      | Some nd =>
          let '(nd', o) := multicast W (clock s) nd m skip hint in
          (mkNet (set_node n nd' (nodes s)) (soup s ++ o_sends o) (clock s), (Some n, o))
      | None => (s, (None, out_none))
      end
  | EvDeliver i hint =>
      match nth_error (soup s) i with
      | Some p =>
          let rest := remove_nth i (soup s) in
          match find_node (p_dst p) (nodes s) 0 with
          | Some (n, nd) =>
              let '(nd', o) := on_multicast W (clock s) nd (p_src p) (p_msg p) hint in
              (mkNet (set_node n nd' (nodes s)) (rest ++ o_sends o) (clock s), (Some n, o))
          | None => (mkNet (nodes s) rest (clock s), (None, out_none))
          end
      | None => (s, (None, out_none))
      end
  | EvDrop i => (mkNet (nodes s) (remove_nth i (soup s)) (clock s), (None, out_none))
  | EvInject p => (mkNet (nodes s) (soup s ++ [p]) (clock s), (None, out_none))
  | EvTick dt => (mkNet (nodes s) (soup s) (clock s + dt), (None, out_none))
  end.

(** a run: the final state and, per event, (time, node, output) *)
Fixpoint run (W maxKnown : N) (s : net) (evs : list ev) : net * list (N * option nat * out) :=
  match evs with
  | [] => (s, [])
  | e :: r =>
      let '(s1, (n, o)) := step W maxKnown s e in
      let '(s2, tr) := run W maxKnown s1 r in
      (s2, (clock s, n, o) :: tr)
  end.

Definition init_node (self : addr) : node := mkNode self svc_empty 0 [].
Definition init_net (selfs : list addr) : net := mkNet (map init_node selfs) [] 0.

(** * interleavings of [add] with the disconnect handling

    [Group.add] as coded: [g.mux.Lock()]; for [keep = true] the call
    [g.srv.route.IsNeighbor(peer)] — made while holding the lock —; the list
    updates; unlock.  The loop of [Start] handles one PeerStateDisconnect at a
    time: it takes the notification, snapshots [getGroupAll()] and calls
    [g.remove(peer, true)] group by group, each call taking that group's lock.
    The environment (a peer stops being a neighbour) needs no lock.

    [cstep false] is the code as it is.  [cstep true] is the variant in which
    the neighbour lookup is made BEFORE the lock is taken and the saved answer
    is used inside (refuted in ProofsConc). All other registry events stay
    atomic ([CAtomic]); [GProcDisconnect] is replaced by [CHPop]/[CHVisit]. *)

Record athread := mkThr {
  a_obj : nat;            (* the Group object the add works on *)
  a_peer : addr;
  a_keep : bool;
  a_locked : bool;        (* holds g.mux *)
  a_read : option bool }. (* the answer of IsNeighbor, once asked *)

Record cstate := mkC {
  c_svc : svc;
  c_adds : list athread;                 (* add calls in progress *)
  c_hand : option (addr * list nat) }.   (* disconnect handler: peer, groups still to visit *)

Inductive cev :=
| CAtomic (e : gev)
| CAddStart (i : nat) (p : addr) (keep : bool)   (* an add on object i begins *)
| CAddRead (k : nat)                             (* thread k asks IsNeighbor *)
| CAddLock (k : nat)                             (* thread k acquires g.mux (lookup-before-lock variant only) *)
| CAddCommit (k : nat)                           (* thread k updates the lists and unlocks *)
| CHPop                                          (* the loop of Start takes the next notification *)
| CHVisit.                                       (* ... and removes the peer from the next group *)

Definition lock_free (i : nat) (ts : list athread) : bool :=
  negb (existsb (fun t => a_locked t && Nat.eqb (a_obj t) i) ts).

Definition cstep (early : bool) (mk : N) (c : cstate) (e : cev) : cstate :=
  match e with
  | CAtomic GProcDisconnect => c
  | CAtomic ge => mkC (gstep mk (c_svc c) ge) (c_adds c) (c_hand c)
  | CAddStart i p keep =>
      if negb (i <? length (heap (c_svc c)))%nat then c   (* the add works on an existing Group object *)
      else if early then
        mkC (c_svc c) (c_adds c ++ [mkThr i p keep false (Some (keep && is_nbr (c_svc c) p))]) (c_hand c)
      else if lock_free i (c_adds c) then
        mkC (c_svc c) (c_adds c ++ [mkThr i p keep true None]) (c_hand c)
      else c
  | CAddRead k =>
      match nth_error (c_adds c) k with
      | Some t =>
          match a_locked t, a_read t with
          | true, None =>
              mkC (c_svc c)
                  (upd_nth k (fun t => mkThr (a_obj t) (a_peer t) (a_keep t) true
                                             (Some (a_keep t && is_nbr (c_svc c) (a_peer t)))) (c_adds c))
                  (c_hand c)
          | _, _ => c
          end
      | None => c
      end
  | CAddLock k =>
      match nth_error (c_adds c) k with
      | Some t =>
          if negb (a_locked t) && lock_free (a_obj t) (c_adds c) then
            mkC (c_svc c)
                (upd_nth k (fun t => mkThr (a_obj t) (a_peer t) (a_keep t) true (a_read t)) (c_adds c))
                (c_hand c)
          else c
      | None => c
      end
  | CAddCommit k =>
      match nth_error (c_adds c) k with
      | Some t =>
          let go (b : bool) :=
            mkC (on_obj (a_obj t) (g_add b (a_peer t) (a_keep t)) (c_svc c)) (remove_nth k (c_adds c)) (c_hand c) in
          if a_locked t then
            match a_read t with
            | Some b => go b
            | None => if a_keep t then c else go false   (* keep = false never asks *)
            end
          else c
      | None => c
      end
  | CHPop =>
      match c_hand c, pend (c_svc c) with
      | None, p :: r =>
          let s := c_svc c in
          mkC (mkSvc (heap s) (gmap s) (pgs s) (nbrs s) r) (c_adds c) (Some (p, map snd (gmap s)))
      | _, _ => c
      end
  | CHVisit =>
      match c_hand c with
      | Some (p, i :: r) =>
          if lock_free i (c_adds c) then mkC (obj_remove i p true (c_svc c)) (c_adds c) (Some (p, r)) else c
      | Some (_, []) => mkC (c_svc c) (c_adds c) None
      | None => c
      end
  end.

Definition crun (early : bool) (mk : N) (c : cstate) (evs : list cev) : cstate := fold_left (cstep early mk) evs c.
Definition cinit : cstate := mkC svc_empty [] None.
