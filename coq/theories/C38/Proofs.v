(** C38 — proofs, part 1: the one-bin pslice, the group transitions and the
    group registry.  Invariants:
    - every Group object ever allocated keeps its three lists duplicate-free
      and pairwise disjoint ([part_ok]);
    - every connected peer of a REGISTERED group is a neighbour or has its
      disconnect notification still queued ([conn_ok]). *)
From Coq Require Import List NArith ZArith Bool Lia Arith Permutation.
Import ListNotations.
Require Import Aurora.Base.Corr Aurora.C38.Model.
Local Open Scope N_scope.

(** * equality *)

Lemma aeqb_eq a b : aeqb a b = true <-> a = b.
Proof. apply bytes_eqb_eq. Qed.
Lemma aeqb_refl a : aeqb a a = true.
Proof. now apply aeqb_eq. Qed.
Lemma aeqb_neq a b : aeqb a b = false <-> a <> b.
Proof.
  split.
  - intros H E. apply aeqb_eq in E. congruence.
  - intros H. destruct (aeqb a b) eqn:E; [apply aeqb_eq in E; contradiction | reflexivity].
Qed.
Lemma aeqb_sym a b : aeqb a b = aeqb b a.
Proof.
  destruct (aeqb a b) eqn:E.
  - apply aeqb_eq in E. subst. now rewrite aeqb_refl.
  - apply aeqb_neq in E. symmetry. apply aeqb_neq. congruence.
Qed.

(** * pslice *)

Lemma ps_exists_In a l : ps_exists a l = true <-> In a l.
Proof.
  unfold ps_exists. rewrite existsb_exists. split.
  - intros [x [Hx He]]. apply aeqb_eq in He. now subst.
  - intros H. exists a. split; [assumption | apply aeqb_refl].
Qed.
Lemma ps_exists_false a l : ps_exists a l = false <-> ~ In a l.
Proof.
  rewrite <- ps_exists_In. destruct (ps_exists a l); split; intros H; try congruence; try reflexivity.
  all: try (exfalso; apply H; reflexivity).
Qed.

Lemma swap_perm (x : addr) t : t <> [] -> Permutation (last t x :: removelast t) t.
Proof.
  intros H. rewrite (app_removelast_last x H) at 3. apply Permutation_cons_append.
Qed.

Lemma ps_remove_absent a l : ~ In a l -> ps_remove a l = l.
Proof.
  induction l as [|x t IH]; intros H; cbn [ps_remove]; [reflexivity|].
  destruct (aeqb x a) eqn:E.
  - apply aeqb_eq in E. subst. exfalso. apply H. now left.
  - f_equal. apply IH. intros Hi. apply H. now right.
Qed.

Lemma ps_remove_perm a l : In a l -> Permutation l (a :: ps_remove a l).
Proof.
  induction l as [|x t IH]; intros H; [destruct H|]. cbn [ps_remove].
  destruct (aeqb x a) eqn:E.
  - apply aeqb_eq in E. subst x. destruct t as [|y t'].
    + reflexivity.
    + apply perm_skip. symmetry. apply swap_perm. discriminate.
  - destruct H as [H|H]; [subst; rewrite aeqb_refl in E; discriminate|].
    specialize (IH H). rewrite IH at 1. apply perm_swap.
Qed.

Lemma ps_remove_spec a l : NoDup l ->
  NoDup (ps_remove a l) /\ (forall y, In y (ps_remove a l) <-> In y l /\ y <> a).
Proof.
  intros Hn. destruct (in_dec (list_eq_dec N.eq_dec) a l) as [Hi|Hi].
  - pose proof (ps_remove_perm a l Hi) as Hp.
    assert (Hn' : NoDup (a :: ps_remove a l)) by (eapply Permutation_NoDup; eassumption).
    inversion Hn' as [|? ? Hna Hnr]; subst. split; [assumption|].
    intros y; split.
    + intros Hy. split.
      * eapply Permutation_in; [symmetry; exact Hp | now right].
      * intros ->. contradiction.
    + intros [Hy Hne]. assert (Hy' : In y (a :: ps_remove a l)) by (eapply Permutation_in; eassumption).
      destruct Hy' as [->|Hy']; [congruence | assumption].
  - rewrite ps_remove_absent by assumption. split; [assumption|].
    intros y; split; [|tauto]. intros Hy; split; [assumption | intros ->; contradiction].
Qed.

Lemma ps_remove_incl a l y : In y (ps_remove a l) -> In y l.
Proof.
  destruct (in_dec (list_eq_dec N.eq_dec) a l) as [Hi|Hi].
  - intros Hy. eapply Permutation_in; [symmetry; apply ps_remove_perm; exact Hi | now right].
  - now rewrite ps_remove_absent.
Qed.

Lemma ps_remove_length a l : (length (ps_remove a l) <= length l)%nat.
Proof.
  destruct (in_dec (list_eq_dec N.eq_dec) a l) as [Hi|Hi].
  - pose proof (Permutation_length (ps_remove_perm a l Hi)) as H. cbn in H. lia.
  - rewrite ps_remove_absent by assumption. lia.
Qed.
Lemma ps_remove_length_in a l : In a l -> length l = S (length (ps_remove a l)).
Proof. intros Hi. now rewrite (Permutation_length (ps_remove_perm a l Hi)). Qed.

Lemma ps_add_spec a l : NoDup l ->
  NoDup (ps_add a l) /\ (forall y, In y (ps_add a l) <-> y = a \/ In y l).
Proof.
  intros Hn. unfold ps_add. destruct (ps_exists a l) eqn:E.
  - apply ps_exists_In in E. split; [assumption|]. intros y; split; [tauto|]. intros [->|H]; assumption.
  - apply ps_exists_false in E. split.
    + apply (Permutation_NoDup (Permutation_cons_append l a)). now constructor.
    + intros y. rewrite in_app_iff. cbn. intuition.
Qed.

(** [rm] / [ad] of [g_add] *)
Definition rm (p : addr) (l : list addr) := if ps_exists p l then ps_remove p l else l.
Definition ad (p : addr) (l : list addr) := if ps_exists p l then l else ps_add p l.

Lemma rm_spec p l : NoDup l -> NoDup (rm p l) /\ (forall y, In y (rm p l) <-> In y l /\ y <> p).
Proof.
  intros Hn. unfold rm. destruct (ps_exists p l) eqn:E.
  - now apply ps_remove_spec.
  - apply ps_exists_false in E. split; [assumption|]. intros y; split; [|tauto].
    intros Hy; split; [assumption | intros ->; contradiction].
Qed.
Lemma ad_spec p l : NoDup l -> NoDup (ad p l) /\ (forall y, In y (ad p l) <-> y = p \/ In y l).
Proof.
  intros Hn. unfold ad. destruct (ps_exists p l) eqn:E.
  - apply ps_exists_In in E. split; [assumption|]. intros y; split; [tauto|]. intros [->|H]; assumption.
  - now apply ps_add_spec.
Qed.

(** * groups *)

Definition disj (a b : list addr) : Prop := forall x, In x a -> In x b -> False.
Definition part_ok (g : group) : Prop :=
  NoDup (g_conn g) /\ NoDup (g_kept g) /\ NoDup (g_known g) /\
  disj (g_conn g) (g_kept g) /\ disj (g_conn g) (g_known g) /\ disj (g_kept g) (g_known g).

Lemma part_ok_empty : part_ok g_empty.
Proof. unfold part_ok, disj; cbn. repeat split; try constructor; intros x []. Qed.

Lemma g_add_eq isnbr p keep g :
  g_add isnbr p keep g =
  if negb keep then mkGroup (rm p (g_conn g)) (rm p (g_kept g)) (ad p (g_known g))
  else if isnbr then mkGroup (ad p (g_conn g)) (rm p (g_kept g)) (rm p (g_known g))
  else mkGroup (rm p (g_conn g)) (ad p (g_kept g)) (rm p (g_known g)).
Proof. reflexivity. Qed.

Lemma g_add_ok isnbr p keep g : part_ok g -> part_ok (g_add isnbr p keep g).
Proof.
  intros (Hc & Hk & Hn & Hck & Hcn & Hkn). rewrite g_add_eq.
  destruct (rm_spec p _ Hc) as [Rc1 Rc2], (rm_spec p _ Hk) as [Rk1 Rk2], (rm_spec p _ Hn) as [Rn1 Rn2].
  destruct (ad_spec p _ Hc) as [Ac1 Ac2], (ad_spec p _ Hk) as [Ak1 Ak2], (ad_spec p _ Hn) as [An1 An2].
  unfold part_ok, disj in *.
  destruct keep; cbn [negb]; [destruct isnbr|]; cbn [g_conn g_kept g_known];
    repeat split; try assumption; intros x H1 H2;
    repeat match goal with
           | H : In _ (rm _ _) |- _ => first [apply Rc2 in H | apply Rk2 in H | apply Rn2 in H]; destruct H
           | H : In _ (ad _ _) |- _ => first [apply Ac2 in H | apply Ak2 in H | apply An2 in H]; destruct H
           end; subst; try congruence; eauto.
Qed.

Lemma g_add_conn isnbr p keep g y : NoDup (g_conn g) ->
  In y (g_conn (g_add isnbr p keep g)) -> In y (g_conn g) \/ (y = p /\ isnbr = true /\ keep = true).
Proof.
  intros Hc. rewrite g_add_eq.
  destruct (rm_spec p _ Hc) as [_ Rc2], (ad_spec p _ Hc) as [_ Ac2].
  destruct keep; cbn [negb]; [destruct isnbr|]; cbn [g_conn]; intros H.
  - apply Ac2 in H. destruct H; [right; auto | left; assumption].
  - apply Rc2 in H. left; tauto.
  - apply Rc2 in H. left; tauto.
Qed.

Lemma g_remove_eq p ik g :
  g_remove p ik g =
  mkGroup (rm p (g_conn g)) (rm p (g_kept g))
    (if ps_exists p (g_known g)
     then (if ik then g_known g else ps_remove p (g_known g))
     else (if ik && (ps_exists p (g_conn g) || ps_exists p (g_kept g)) then ps_add p (g_known g) else g_known g)).
Proof. reflexivity. Qed.

Lemma g_remove_ok p ik g : part_ok g -> part_ok (g_remove p ik g).
Proof.
  intros (Hc & Hk & Hn & Hck & Hcn & Hkn). rewrite g_remove_eq.
  destruct (rm_spec p _ Hc) as [Rc1 Rc2], (rm_spec p _ Hk) as [Rk1 Rk2].
  destruct (ps_remove_spec p _ Hn) as [Pn1 Pn2], (ps_add_spec p _ Hn) as [An1 An2].
  unfold part_ok, disj in *. cbn [g_conn g_kept g_known].
  destruct (ps_exists p (g_known g)) eqn:Ekn; [destruct ik | destruct (ik && _) eqn:Eik];
    repeat split; try assumption; intros x H1 H2;
    repeat match goal with
           | H : In _ (rm _ _) |- _ => first [apply Rc2 in H | apply Rk2 in H]; destruct H
           | H : In _ (ps_remove _ _) |- _ => apply Pn2 in H; destruct H
           | H : In _ (ps_add _ _) |- _ => apply An2 in H; destruct H
           end; subst; try congruence; eauto.
Qed.

Lemma g_remove_conn p ik g y : NoDup (g_conn g) ->
  In y (g_conn (g_remove p ik g)) -> In y (g_conn g) /\ y <> p.
Proof.
  intros Hc. rewrite g_remove_eq. cbn [g_conn]. destruct (rm_spec p _ Hc) as [_ Rc2]. apply Rc2.
Qed.

Lemma fold_remove_ok : forall (ps : list addr) (l : list addr), NoDup l ->
  let l' := fold_left (fun l p => ps_remove p l) ps l in
  NoDup l' /\ (forall y, In y l' -> In y l) /\ (length l' <= length l)%nat.
Proof.
  induction ps as [|p ps IH]; intros l Hn; cbn [fold_left].
  - repeat split; auto.
  - destruct (ps_remove_spec p l Hn) as [H1 H2]. specialize (IH _ H1). cbv zeta in IH.
    destruct IH as (I1 & I2 & I3). repeat split; [assumption | | ].
    + intros y Hy. apply I2 in Hy. apply H2 in Hy. tauto.
    + pose proof (ps_remove_length p l). lia.
Qed.

Lemma g_prune_ok mk g : part_ok g -> part_ok (g_prune mk g).
Proof.
  intros (Hc & Hk & Hn & Hck & Hcn & Hkn). unfold g_prune.
  destruct (mk <? N.of_nat (length (g_known g))); [|repeat split; assumption].
  destruct (fold_remove_ok (firstn (N.to_nat (N.of_nat (length (g_known g)) - mk)) (g_known g)) _ Hn) as (F1 & F2 & _).
  unfold part_ok, disj in *; cbn [g_conn g_kept g_known]. repeat split; try assumption.
  - intros x H1 H2. apply F2 in H2. eauto.
  - intros x H1 H2. apply F2 in H2. eauto.
Qed.

Lemma g_prune_conn mk g : g_conn (g_prune mk g) = g_conn g.
Proof. unfold g_prune. now destruct (mk <? _). Qed.

(** the bound of pruneKnown: removing the first [k] entries of a duplicate-free
    slice one by one shortens it by exactly [k] *)
Lemma fold_remove_len : forall (ps l : list addr), NoDup l -> NoDup ps -> incl ps l ->
  length (fold_left (fun l p => ps_remove p l) ps l) = (length l - length ps)%nat.
Proof.
  induction ps as [|p ps IH]; intros l Hn Hp Hi; cbn [fold_left length]; [lia|].
  inversion Hp as [|? ? Hnp Hps]; subst.
  destruct (ps_remove_spec p l Hn) as [H1 H2].
  rewrite IH; try assumption.
  - assert (In p l) by (apply Hi; now left). rewrite (ps_remove_length_in p l) by assumption. cbn. lia.
  - intros y Hy. apply H2. split; [apply Hi; now right | intros ->; contradiction].
Qed.

Lemma firstn_In' {A} (x : A) : forall n l, In x (firstn n l) -> In x l.
Proof.
  induction n as [|n IH]; intros [|y t]; cbn; try tauto. intros [H|H]; [now left | right; auto].
Qed.

Lemma firstn_NoDup {A} (n : nat) (l : list A) : NoDup l -> NoDup (firstn n l).
Proof.
  revert n; induction l as [|x t IH]; intros [|n] H; cbn; try constructor.
  - inversion H; subst. intros Hi. apply firstn_In' in Hi. contradiction.
  - inversion H; subst. now apply IH.
Qed.

Lemma g_prune_bound mk g : NoDup (g_known g) ->
  N.of_nat (length (g_known (g_prune mk g))) = N.min mk (N.of_nat (length (g_known g))).
Proof.
  intros Hn. unfold g_prune.
  destruct (N.ltb_spec mk (N.of_nat (length (g_known g)))) as [Hlt|Hge]; cbn [g_known].
  - rewrite fold_remove_len; [| assumption | now apply firstn_NoDup | intros y Hy; eapply firstn_In'; exact Hy].
    rewrite firstn_length. lia.
  - lia.
Qed.

(** * the registry *)

Definition heap_ok (s : svc) : Prop := Forall (fun o => part_ok (o_grp o)) (heap s).
(** registered indices point into the heap *)
Definition gmap_ok (s : svc) : Prop := forall gid i, In (gid, i) (gmap s) -> (i < length (heap s))%nat.
(** connected peers of registered groups are neighbours, or their disconnect is
    still queued, or — [X p i], used by the concurrent model of ProofsConc —
    the disconnect handler is at work on [p] and has not reached object [i] yet *)
Definition conn_ok (X : addr -> nat -> Prop) (s : svc) : Prop :=
  forall gid i o p, In (gid, i) (gmap s) -> nth_error (heap s) i = Some o ->
    In p (g_conn (o_grp o)) -> In p (nbrs s) \/ In p (pend s) \/ X p i.
Definition sinv (X : addr -> nat -> Prop) (s : svc) : Prop := heap_ok s /\ conn_ok X s /\ gmap_ok s.

Lemma upd_nth_length {A} i (f : A -> A) l : length (upd_nth i f l) = length l.
Proof. revert i; induction l as [|x t IH]; intros [|i]; cbn; auto. Qed.
Lemma upd_nth_nth {A} i (f : A -> A) l j :
  nth_error (upd_nth i f l) j = if Nat.eqb i j then option_map f (nth_error l j) else nth_error l j.
Proof.
  revert i j; induction l as [|x t IH]; intros [|i] [|j]; cbn; try reflexivity.
  - now destruct (Nat.eqb i j).
  - apply IH.
Qed.
Lemma upd_nth_Forall {A} (P : A -> Prop) i f l : Forall P l -> (forall x, P x -> P (f x)) -> Forall P (upd_nth i f l).
Proof.
  intros H Hf. revert i; induction H as [|x t Hx Ht IH]; intros [|i]; cbn; constructor; auto.
Qed.

Lemma amap_get_In {V} k (m : list (addr * V)) v : amap_get k m = Some v -> In (k, v) m.
Proof.
  induction m as [|[k' v'] t IH]; cbn; [discriminate|].
  destruct (aeqb k' k) eqn:E.
  - intros [= ->]. apply aeqb_eq in E. subst. now left.
  - intros H. right. auto.
Qed.
Lemma amap_set_In {V} k (v : V) m x : In x (amap_set k v m) -> x = (k, v) \/ In x m.
Proof.
  induction m as [|[k' v'] t IH]; cbn.
  - intros [<-|[]]. now left.
  - destruct (aeqb k' k).
    + intros [<-|H]; [now left | right; now right].
    + intros [<-|H]; [right; now left|]. apply IH in H. destruct H; [now left | right; now right].
Qed.
Lemma amap_del_In {V} k (m : list (addr * V)) x : In x (amap_del k m) -> In x m.
Proof.
  induction m as [|[k' v'] t IH]; cbn; [tauto|].
  destruct (aeqb k' k).
  - intros H. now right.
  - intros [<-|H]; [now left | right; auto].
Qed.

(** a change of one object by a function that keeps [part_ok] and whose
    connected list only gains [extra] *)
Lemma on_obj_inv X i f s (extra : addr -> Prop) :
  sinv X s ->
  (forall g, part_ok g -> part_ok (f g)) ->
  (forall g y, part_ok g -> In y (g_conn (f g)) -> In y (g_conn g) \/ extra y) ->
  (forall y gid, extra y -> In (gid, i) (gmap s) -> In y (nbrs s) \/ In y (pend s) \/ X y i) ->
  sinv X (on_obj i f s).
Proof.
  intros (Hh & Hc & Hg) Hf Hconn Hex. unfold sinv, on_obj, set_heap, heap_ok, conn_ok, gmap_ok in *; cbn.
  split; [|split].
  - apply upd_nth_Forall; [assumption|]. intros x Hx; cbn. auto.
  - intros gid j o p Hin Hnth Hp. rewrite upd_nth_nth in Hnth.
    destruct (Nat.eqb i j) eqn:E.
    + destruct (nth_error (heap s) j) as [o0|] eqn:E0; [|discriminate]. cbn in Hnth. injection Hnth as <-. cbn in Hp.
      assert (Hpo : part_ok (o_grp o0)).
      { rewrite Forall_forall in Hh. apply Hh. eapply nth_error_In; eassumption. }
      apply Hconn in Hp; [|assumption]. apply Nat.eqb_eq in E. subst j. destruct Hp as [Hp|Hp]; [eapply Hc; eassumption | eauto].
    + eapply Hc; eassumption.
  - intros gid j Hin. rewrite upd_nth_length. eauto.
Qed.

Lemma obj_add_inv X i p keep s : sinv X s -> sinv X (obj_add i p keep s).
Proof.
  intros H. unfold obj_add.
  apply (on_obj_inv X i _ s (fun y => y = p /\ is_nbr s p = true)); try assumption.
  - intros g. apply g_add_ok.
  - intros g y Hg Hy. apply g_add_conn in Hy; [|apply Hg]. destruct Hy as [Hy|(-> & Hn & _)]; [now left | right; auto].
  - intros y gid [-> Hn] _. left. now apply ps_exists_In.
Qed.
Lemma obj_remove_inv X i p ik s : sinv X s -> sinv X (obj_remove i p ik s).
Proof.
  intros H. unfold obj_remove.
  apply (on_obj_inv X i _ s (fun _ => False)); try assumption.
  - intros g. apply g_remove_ok.
  - intros g y Hg Hy. apply g_remove_conn in Hy; [|apply Hg]. left; tauto.
  - intros y ? [].
Qed.

Lemma obj_add_frame i p keep s : gmap (obj_add i p keep s) = gmap s /\ nbrs (obj_add i p keep s) = nbrs s /\ pend (obj_add i p keep s) = pend s /\ pgs (obj_add i p keep s) = pgs s /\ length (heap (obj_add i p keep s)) = length (heap s).
Proof. unfold obj_add, on_obj, set_heap; cbn. rewrite upd_nth_length. auto. Qed.
Lemma obj_remove_frame i p ik s : gmap (obj_remove i p ik s) = gmap s /\ nbrs (obj_remove i p ik s) = nbrs s /\ pend (obj_remove i p ik s) = pend s /\ pgs (obj_remove i p ik s) = pgs s /\ length (heap (obj_remove i p ik s)) = length (heap s).
Proof. unfold obj_remove, on_obj, set_heap; cbn. rewrite upd_nth_length. auto. Qed.

Lemma new_group_inv X gid t s : sinv X s -> sinv X (fst (new_group gid t s)).
Proof.
  intros (Hh & Hc & Hg). unfold new_group, sinv, heap_ok, conn_ok, gmap_ok in *; cbn.
  split; [|split].
  - apply Forall_app. split; [assumption|]. constructor; [apply part_ok_empty | constructor].
  - intros g i o p Hin Hnth Hp. apply amap_set_In in Hin. destruct Hin as [[= -> ->]|Hin].
    + rewrite nth_error_app2 in Hnth by lia. rewrite Nat.sub_diag in Hnth. cbn in Hnth. injection Hnth as <-. destruct Hp.
    + pose proof (Hg _ _ Hin) as Hlt. rewrite nth_error_app1 in Hnth by assumption. eapply Hc; eassumption.
  - intros g i Hin. rewrite app_length; cbn. apply amap_set_In in Hin. destruct Hin as [[= -> ->]|Hin]; [lia|].
    specialize (Hg _ _ Hin). lia.
Qed.
Lemma new_group_frame gid t s : nbrs (fst (new_group gid t s)) = nbrs s /\ pend (fst (new_group gid t s)) = pend s.
Proof. now cbn. Qed.

Lemma get_or_create_inv X gid s : sinv X s -> sinv X (fst (get_or_create gid s)).
Proof.
  intros H. unfold get_or_create. destruct (get_group s gid); [assumption|]. now apply new_group_inv.
Qed.

(** generic: a fold of invariant-preserving steps *)
Lemma fold_inv {A S} (P : S -> Prop) (f : S -> A -> S) l : (forall s a, P s -> P (f s a)) -> forall s, P s -> P (fold_left f l s).
Proof. intros Hf. induction l as [|a l IH]; intros s Hs; cbn; auto. Qed.

Lemma update_peer_groups_inv X p gids s : sinv X s -> sinv X (update_peer_groups p gids s).
Proof.
  intros H. unfold update_peer_groups.
  set (s1 := fold_left _ (match amap_get p (pgs s) with Some l => l | None => [] end) s).
  assert (H1 : sinv X s1).
  { apply fold_inv; [|assumption]. intros s0 i Hs0.
    destruct (nth_error (heap s0) i); [|assumption].
    destruct (existsb _ gids); [assumption|]. now apply obj_remove_inv. }
  clearbody s1.
  set (r := fold_left _ gids (s1, [])).
  assert (H2 : sinv X (fst r)).
  { subst r. apply (fold_inv (fun sn : svc * list nat => sinv X (fst sn))); [|assumption].
    intros [s0 now] gid Hs0. cbn in Hs0.
    destruct (get_or_create gid s0) as [s' i] eqn:E. cbn.
    apply obj_add_inv. change s' with (fst (s', i)). rewrite <- E. now apply get_or_create_inv. }
  destruct r as [s2 now]. cbn in H2.
  destruct H2 as (A & B & C). split; [|split]; assumption.
Qed.

Lemma gc_one_inv X s gi : sinv X s -> sinv X (gc_one s gi).
Proof.
  intros H. unfold gc_one. destruct (nth_error (heap s) (snd gi)) as [o|]; [|assumption].
  destruct (o_type o); try assumption.
  set (s1 := on_obj (snd gi) (fun g => mkGroup (g_conn g) [] []) s).
  assert (H1 : sinv X s1).
  { subst s1. apply (on_obj_inv X _ _ s (fun _ => False)); try assumption.
    - intros g (Hc & _). unfold part_ok, disj; cbn. repeat split; try assumption; try constructor; intros x _ [].
    - intros g y _ Hy. now left.
    - intros y ? []. }
  destruct (g_conn (o_grp o)); [|assumption].
  destruct H1 as (A & B & C). unfold sinv, heap_ok, conn_ok, gmap_ok in *; cbn.
  split; [assumption|split].
  - intros g i o' p Hin. apply amap_del_In in Hin. eapply B; eassumption.
  - intros g i Hin. apply amap_del_In in Hin. eauto.
Qed.

(** the disconnect loop: after it, [p] is connected in no registered group *)
Lemma disconnect_loop p : forall (l : list (addr * nat)) s, heap_ok s ->
  let s' := fold_left (fun s gi => obj_remove (snd gi) p true s) l s in
  heap_ok s' /\ gmap s' = gmap s /\ nbrs s' = nbrs s /\ pend s' = pend s /\ length (heap s') = length (heap s) /\
  forall i o', nth_error (heap s') i = Some o' ->
    exists o, nth_error (heap s) i = Some o /\ incl (g_conn (o_grp o')) (g_conn (o_grp o)) /\
              (In i (map snd l) \/ ~ In p (g_conn (o_grp o)) -> ~ In p (g_conn (o_grp o'))).
Proof.
  induction l as [|gi l IH]; intros s Hh; cbn [fold_left].
  - cbv zeta. repeat split; try assumption. intros i o' Hn. exists o'. repeat split; [assumption | apply incl_refl |].
    intros [[]|H]; assumption.
  - set (s1 := obj_remove (snd gi) p true s).
    assert (Hh1 : heap_ok s1).
    { subst s1. unfold obj_remove, on_obj, set_heap, heap_ok; cbn. apply upd_nth_Forall; [assumption|].
      intros x Hx; cbn. now apply g_remove_ok. }
    specialize (IH s1 Hh1). cbv zeta in IH. destruct IH as (I1 & I2 & I3 & I4 & I5 & I6).
    destruct (obj_remove_frame (snd gi) p true s) as (F1 & F2 & F3 & _ & F5). fold s1 in F1, F2, F3, F5.
    cbv zeta. repeat split; try congruence.
    intros i o' Hn. destruct (I6 _ _ Hn) as (o1 & Hn1 & Hinc & Hnot).
    subst s1. unfold obj_remove, on_obj, set_heap in Hn1; cbn in Hn1. rewrite upd_nth_nth in Hn1.
    destruct (Nat.eqb (snd gi) i) eqn:E.
    + apply Nat.eqb_eq in E. destruct (nth_error (heap s) i) as [o|] eqn:E0; [|discriminate]. cbn in Hn1. injection Hn1 as <-.
      cbn [o_grp] in Hinc, Hnot. exists o. split; [reflexivity|].
      assert (Hpo : NoDup (g_conn (o_grp o))).
      { unfold heap_ok in Hh. rewrite Forall_forall in Hh. apply (Hh o). eapply nth_error_In; eassumption. }
      split.
      * intros y Hy. apply Hinc in Hy. apply g_remove_conn in Hy; tauto.
      * intros _. apply Hnot. right. intros Hp. apply g_remove_conn in Hp; [tauto | assumption].
    + exists o1. split; [assumption|]. split; [assumption|].
      intros [Hi|Hp]; apply Hnot; [|now right].
      cbn in Hi. destruct Hi as [Hi|Hi]; [apply Nat.eqb_neq in E; contradiction | now left].
Qed.

Lemma gstep_inv X mk s e : sinv X s -> sinv X (gstep mk s e).
Proof.
  intros H. destruct e; cbn [gstep].
  - destruct (get_group s gid); [destruct replace; [now apply new_group_inv | assumption] | now apply new_group_inv].
  - destruct (get_group s gid); [now apply obj_add_inv | assumption].
  - destruct (get_group s gid); [now apply obj_remove_inv | assumption].
  - destruct (get_group s gid); [|assumption].
    apply (on_obj_inv X _ _ s (fun _ => False)); try assumption.
    + intros g. apply g_prune_ok.
    + intros g y _ Hy. rewrite g_prune_conn in Hy. now left.
    + intros y ? [].
  - apply fold_inv; [|assumption]. intros s0 gid Hs0.
    destruct (get_or_create gid s0) as [s' i] eqn:E.
    assert (Hs' : sinv X s') by (change s' with (fst (s', i)); rewrite <- E; now apply get_or_create_inv).
    destruct join; [now apply obj_add_inv | now apply obj_remove_inv].
  - now apply update_peer_groups_inv.
  - unfold gc_group. apply fold_inv; [|assumption]. intros; now apply gc_one_inv.
  - destruct (get_group s gid); [|assumption].
    destruct H as (A & B & C). unfold sinv, set_type_sub, set_heap, heap_ok, conn_ok, gmap_ok in *; cbn.
    split; [|split].
    + apply upd_nth_Forall; [assumption|]. intros x Hx. destruct (o_type x); assumption.
    + intros g i o p Hin Hnth Hp. rewrite upd_nth_nth in Hnth. destruct (Nat.eqb n i).
      * destruct (nth_error (heap s) i) as [o0|] eqn:E0; [|discriminate]. cbn in Hnth. injection Hnth as <-.
        eapply B; [eassumption | eassumption |]. destruct (o_type o0); exact Hp.
      * eapply B; eassumption.
    + intros g i Hin. rewrite upd_nth_length. eauto.
  - destruct (get_group s gid); [|assumption].
    destruct H as (A & B & C). unfold sinv, set_type_sub, set_heap, heap_ok, conn_ok, gmap_ok in *; cbn.
    split; [|split].
    + apply upd_nth_Forall; [assumption|]. intros x Hx. destruct (o_type x); assumption.
    + intros g i o p Hin Hnth Hp. rewrite upd_nth_nth in Hnth. destruct (Nat.eqb n i).
      * destruct (nth_error (heap s) i) as [o0|] eqn:E0; [|discriminate]. cbn in Hnth. injection Hnth as <-.
        eapply B; [eassumption | eassumption |]. destruct (o_type o0); exact Hp.
      * eapply B; eassumption.
    + intros g i Hin. rewrite upd_nth_length. eauto.
  - (* EConnect *)
    destruct H as (A & B & C). unfold sinv, heap_ok, conn_ok, gmap_ok in *; cbn. split; [assumption|split; [|assumption]].
    intros g i o q Hin Hnth Hq. destruct (B _ _ _ _ Hin Hnth Hq) as [Hn|Hn]; [left|now right].
    unfold ps_add. destruct (ps_exists p (nbrs s)); [assumption | apply in_or_app; now left].
  - (* EDisconnect *)
    destruct H as (A & B & C). unfold sinv, heap_ok, conn_ok, gmap_ok in *; cbn. split; [assumption|split; [|assumption]].
    intros g i o q Hin Hnth Hq. destruct (B _ _ _ _ Hin Hnth Hq) as [Hn|[Hn|Hn]].
    + destruct (aeqb q p) eqn:E.
      * apply aeqb_eq in E. subst. right. left. apply in_or_app. right. now left.
      * left. apply filter_In. split; [assumption|]. now rewrite E.
    + right. left. apply in_or_app. now left.
    + right. now right.
  - (* GProcDisconnect *)
    destruct (pend s) as [|p r] eqn:Ep; [assumption|].
    destruct H as (A & B & C).
    set (s0 := mkSvc (heap s) (gmap s) (pgs s) (nbrs s) r).
    destruct (disconnect_loop p (gmap s0) s0 A) as (L1 & L2 & L3 & L4 & L5 & L6).
    cbv zeta in L6. unfold sinv. split; [assumption|split].
    + unfold conn_ok. rewrite L2, L3, L4. cbn. intros g i o' q Hin Hnth Hq.
      destruct (L6 _ _ Hnth) as (o & Hn0 & Hinc & Hnot). cbn in Hn0.
      destruct (B g i o q Hin Hn0 (Hinc _ Hq)) as [Hn|[Hn|Hn]]; [now left | | right; now right].
      rewrite Ep in Hn. destruct Hn as [<-|Hn]; [|right; now left].
      exfalso. apply Hnot; [|assumption]. left. cbn. apply in_map_iff. exists (g, i). auto.
    + unfold gmap_ok. rewrite L2, L5. cbn. exact C.
Qed.
