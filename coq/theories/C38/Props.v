(** C38 — property theorems only.  Each is closed by [exact <lemma>] and
    followed by [Print Assumptions].  [W] (the de-duplication window in ms)
    and [MaxKnown] come from the constants re-extracted from pkg/multicast on
    every run ([Consts.v]). *)
From Coq Require Import List NArith ZArith Bool.
Import ListNotations.
Require Import Aurora.Consts Aurora.C38.Model Aurora.C38.Proofs Aurora.C38.ProofsFlood.
Local Open Scope N_scope.

Definition W : N := Z.to_N (Consts.multicast_multicastMsgCache / 1000000).
Definition MaxKnown : N := Z.to_N Consts.multicast_maxKnownPeers.

(** side conditions on the constants, re-checked by computation on every run:
    the window is a positive whole number of milliseconds, the model's relay
    selection is written for forwardLimit = 2 *)
Lemma consts_ok_C38 :
  (0 <? Consts.multicast_multicastMsgCache)%Z && (Consts.multicast_multicastMsgCache mod 1000000 =? 0)%Z
  && (Consts.multicast_forwardLimit =? 2)%Z && (0 <=? Consts.multicast_maxKnownPeers)%Z = true.
Proof. vm_compute. reflexivity. Qed.

(** Every event history (group add / remove / prune, handshakes, notifies, gc,
    neighbours coming and going, interleaved with any flooding traffic), every
    node, every Group object ever allocated: the three lists are duplicate-free
    and pairwise disjoint; and every connected peer of a registered group is a
    neighbour or its disconnect notification is still queued. *)
Theorem C38_partition : forall (selfs : list addr) (evs : list ev) (nd : node),
  In nd (nodes (fst (run W MaxKnown (init_net selfs) evs))) ->
  (forall o, In o (heap (n_svc nd)) -> partitioned (o_grp o)) /\
  (forall gid o p, get_obj (n_svc nd) gid = Some o -> In p (g_conn (o_grp o)) ->
     In p (nbrs (n_svc nd)) \/ In p (pend (n_svc nd))).
Proof. exact (partition_thm W MaxKnown). Qed.
Print Assumptions C38_partition.

(** From ANY network state, for any event history (drops, duplicates, forged
    packets, time passing arbitrarily): the times at which node [n] hands
    message (origin, id) to its subscribers are pairwise more than [W] apart,
    hence at most one falls in any interval of length [W]; and one call
    delivers at most one message. *)
Theorem C38_deliver_once : forall (s : net) (evs : list ev) (n : nat) (origin : addr) (id t0 : N),
  let tr := snd (run W MaxKnown s evs) in
  let ts := times sel_deliv n (false, origin, id) tr in
  spaced W ts /\ (length (filter (in_window W t0) ts) <= 1)%nat /\
  Forall (fun x : N * option nat * out => (length (o_deliv (snd x)) <= 1)%nat) tr.
Proof. exact (deliver_once_thm W MaxKnown). Qed.
Print Assumptions C38_deliver_once.

(** The same for forwarding: the calls in which node [n] passes the
    Multicast_ check for (origin, id) — the only calls that write packets, and
    every packet written carries the message of that check — are more than [W]
    apart. *)
Theorem C38_forward_once : forall (s : net) (evs : list ev) (n : nat) (origin : addr) (id t0 : N),
  let tr := snd (run W MaxKnown s evs) in
  let ts := times sel_fwd n (true, origin, id) tr in
  spaced W ts /\ (length (filter (in_window W t0) ts) <= 1)%nat /\
  Forall (fun x : N * option nat * out => (length (o_fwd (snd x)) <= 1)%nat /\
            forall p, In p (o_sends (snd x)) -> In (p_msg p) (o_fwd (snd x))) tr.
Proof. exact (forward_once_thm W MaxKnown). Qed.
Print Assumptions C38_forward_once.
