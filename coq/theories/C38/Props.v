(** C38 — property theorems only.  Each is closed by [exact <lemma>] and
    followed by [Print Assumptions].  [W] (the de-duplication window in ms)
    and [MaxKnown] come from the constants re-extracted from pkg/multicast on
    every run ([Consts.v]). *)
From Coq Require Import List NArith ZArith Bool.
Import ListNotations.
Require Import Aurora.Consts Aurora.C38.Model Aurora.C38.Proofs Aurora.C38.ProofsFlood Aurora.C38.ProofsTerm Aurora.C38.ProofsTerm2 Aurora.C38.ProofsConc.
Local Open Scope N_scope.

Definition W : N := Z.to_N (Consts.multicast_multicastMsgCache / 1000000).
Definition MaxKnown : N := Z.to_N Consts.multicast_maxKnownPeers.

(** side conditions on the constants, re-checked by computation on every run:
    the window is a positive whole number of milliseconds, the model's relay
    selection is written for forwardLimit = 2 *)
Lemma consts_ok_C38 :
  (0 <? Consts.multicast_multicastMsgCache)%Z && (Consts.multicast_multicastMsgCache mod 1000000 =? 0)%Z
  && (Consts.multicast_forwardLimit =? 2)%Z && (0 <=? Consts.multicast_maxKnownPeers)%Z = true.
Proof. vm_compute. reflexivity. Qed.

(** Every event history (group add / remove / prune, handshakes, notifies, gc,
    neighbours coming and going, interleaved with any flooding traffic), every
    node, every Group object ever allocated: the three lists are duplicate-free
    and pairwise disjoint; and every connected peer of a registered group is a
    neighbour or its disconnect notification is still queued. *)
Theorem C38_partition : forall (selfs : list addr) (evs : list ev) (nd : node),
  In nd (nodes (fst (run W MaxKnown (init_net selfs) evs))) ->
  (forall o, In o (heap (n_svc nd)) -> partitioned (o_grp o)) /\
  (forall gid o p, get_obj (n_svc nd) gid = Some o -> In p (g_conn (o_grp o)) ->
     In p (nbrs (n_svc nd)) \/ In p (pend (n_svc nd))).
Proof. exact (partition_thm W MaxKnown). Qed.
Print Assumptions C38_partition.

(** The same over SCHEDULES.  [Group.add] is split into its atomic actions as
    coded — take g.mux; (for keep) ask route.IsNeighbor while holding it;
    update the lists and unlock — and interleaved arbitrarily with the
    environment (links dropping / coming up), with the disconnect handling of
    Start (take one notification, snapshot the groups, remove the peer group
    by group under each group's lock: [CHPop] / [CHVisit]) and with every other
    registry event.  In every reachable state: all group objects are
    partitioned; a connected peer of a registered group is a neighbour, or its
    disconnect notification is queued, or the handler is at work on it and has
    not reached that group yet; hence with nothing queued and the handler idle
    every connected peer is a neighbour. *)
Theorem C38_partition_interleaved : forall (evs : list cev),
  let c := crun false MaxKnown cinit evs in
  (forall o, In o (heap (c_svc c)) -> partitioned (o_grp o)) /\
  (forall gid i o q, get_group (c_svc c) gid = Some i -> nth_error (heap (c_svc c)) i = Some o ->
     In q (g_conn (o_grp o)) ->
     In q (nbrs (c_svc c)) \/ In q (pend (c_svc c)) \/
     (exists rem, c_hand c = Some (q, rem) /\ In i rem)) /\
  (pend (c_svc c) = [] -> c_hand c = None ->
   forall gid o q, get_obj (c_svc c) gid = Some o -> In q (g_conn (o_grp o)) -> In q (nbrs (c_svc c))).
Proof. exact (partition_interleaved_thm MaxKnown). Qed.
Print Assumptions C38_partition_interleaved.

(** The variant of [add] that asks IsNeighbor BEFORE taking the lock and uses
    the saved answer inside ([cstep true]) does not have the property: after
    the 9-step schedule [early_witness] (lookup, link drops, handler runs to
    completion, lock, commit) no add is in flight, the handler is idle,
    nothing is queued, and a registered group lists a connected peer that is
    not a neighbour. *)
Theorem C38_add_lookup_before_lock_refuted :
  let c := crun true MaxKnown cinit early_witness in
  c_adds c = [] /\ c_hand c = None /\ pend (c_svc c) = [] /\
  exists gid o q, get_obj (c_svc c) gid = Some o /\ In q (g_conn (o_grp o)) /\ ~ In q (nbrs (c_svc c)).
Proof. exact (early_refuted_thm MaxKnown). Qed.
Print Assumptions C38_add_lookup_before_lock_refuted.

(** From ANY network state, for any event history (drops, duplicates, forged
    packets, time passing arbitrarily): the times at which node [n] hands
    message (origin, id) to its subscribers are pairwise more than [W] apart,
    hence at most one falls in any interval of length [W]; and one call
    delivers at most one message. *)
Theorem C38_deliver_once : forall (s : net) (evs : list ev) (n : nat) (origin : addr) (id t0 : N),
  let tr := snd (run W MaxKnown s evs) in
  let ts := times sel_deliv n (false, origin, id) tr in
  spaced W ts /\ (length (filter (in_window W t0) ts) <= 1)%nat /\
  Forall (fun x : N * option nat * out => (length (o_deliv (snd x)) <= 1)%nat) tr.
Proof. exact (deliver_once_thm W MaxKnown). Qed.
Print Assumptions C38_deliver_once.

(** The same for forwarding: the calls in which node [n] passes the
    Multicast_ check for (origin, id) — the only calls that write packets, and
    every packet written carries the message of that check — are more than [W]
    apart. *)
Theorem C38_forward_once : forall (s : net) (evs : list ev) (n : nat) (origin : addr) (id t0 : N),
  let tr := snd (run W MaxKnown s evs) in
  let ts := times sel_fwd n (true, origin, id) tr in
  spaced W ts /\ (length (filter (in_window W t0) ts) <= 1)%nat /\
  Forall (fun x : N * option nat * out => (length (o_fwd (snd x)) <= 1)%nat /\
            forall p, In p (o_sends (snd x)) -> In (p_msg p) (o_fwd (snd x))) tr.
Proof. exact (forward_once_thm W MaxKnown). Qed.
Print Assumptions C38_forward_once.

(** "Flooding stops after each node has forwarded it at most once", counting
    form, for EVERY history from any state: inside any interval of length [W]
    the calls — over all nodes together — that pass the Multicast_ check for
    (origin, id), i.e. the only calls that write packets for it, number at
    most the number of nodes. *)
Theorem C38_forwards_bounded : forall (s : net) (evs : list ev) (origin : addr) (id t0 : N),
  (lsum (map (fun n => length (filter (in_window W t0) (times sel_fwd n (true, origin, id) (snd (run W MaxKnown s evs)))))
             (seq 0 (length (nodes s)))) <= length (nodes s))%nat.
Proof. exact (forwards_bounded_thm W MaxKnown). Qed.
Print Assumptions C38_forwards_bounded.

(** Flooding stops.  From ANY state — the soup may hold forged packets without
    an origin, which the receiver re-stamps as a new message of its own — for
    any interleaving of deliveries, losses, clock ticks and adversarial
    injections of arbitrary packets that stays within one de-duplication
    window ([ticks evs <= W]): the number of deliveries / losses that actually
    consume a packet, plus what is still in flight at the end, is at most

      |soup| + sum over packets in flight of tfb(gid)            (initial state)
             + sum over injected packets of (1 + tfb(gid))        ([inj_cost])

    where [tfb nodes gid] is the sum over all nodes of their fan-out for the
    group ([fb]: connected + kept members, 4 for a relaying non-member).
    Without injections the flood therefore dies after a bounded number of
    steps whatever was in flight; an adversary keeps it alive only as long as
    it keeps injecting, each injected packet buying at most 1 + tfb steps. *)
Theorem C38_flood_terminates : forall (s : net) (evs : list ev),
  forallb net_ev2 evs = true ->
  ticks evs <= W ->
  (neff W MaxKnown s evs + length (soup (fst (run W MaxKnown s evs))) <=
   length (soup s) + lsum (map (fun p => tfb (nodes s) (m_gid (p_msg p))) (soup s)) + inj_cost (nodes s) evs)%nat.
Proof. exact (flood_terminates2_thm W MaxKnown). Qed.
Print Assumptions C38_flood_terminates.

Theorem C38_quiescent : forall (s : net) (e : ev), soup s = [] -> net_ev e = true ->
  soup (fst (step W MaxKnown s e)) = [] /\ snd (snd (step W MaxKnown s e)) = out_none.
Proof. exact (quiescent W MaxKnown). Qed.
Print Assumptions C38_quiescent.

(** pruneKnown on any reachable group object leaves min(maxKnownPeers, before) known peers *)
Theorem C38_prune_bound : forall (selfs : list addr) (evs : list ev) (nd : node) (o : gobj),
  In nd (nodes (fst (run W MaxKnown (init_net selfs) evs))) -> In o (heap (n_svc nd)) ->
  N.of_nat (length (g_known (g_prune MaxKnown (o_grp o)))) = N.min MaxKnown (N.of_nat (length (g_known (o_grp o)))).
Proof. exact (prune_thm W MaxKnown). Qed.
Print Assumptions C38_prune_bound.

(** non-vacuity: three nodes, one group; node 0 has a connected, a kept and a
    known peer; its message reaches node 1 once, a duplicate is swallowed, the
    same packet after the window is delivered again ([0; W+1]); the flood from
    the state after origination satisfies the hypotheses of
    [C38_flood_terminates] and takes 3 effective steps; with a forged
    origin-less packet injected on the way (re-stamped and flooded by its
    receiver) 8 effective steps, bound 18. *)
Definition ex_setup : list ev :=
  [EvG 0 (GNew [9] GJoin false); EvG 0 (EConnect [2]); EvG 0 (GAdd [9] [2] true); EvG 0 (GAdd [9] [3] true); EvG 0 (GAdd [9] [7] false);
   EvG 1 (GNew [9] GJoin false); EvG 1 (GSubscribe [9]); EvG 1 (EConnect [3]); EvG 1 (GAdd [9] [3] true); EvG 1 (EConnect [1]); EvG 1 (GAdd [9] [1] true);
   EvG 2 (GNew [9] GJoin false); EvG 2 (GSubscribe [9]); EvG 2 (EConnect [1]); EvG 2 (GAdd [9] [1] true);
   EvMulticast 0 (mkMsg [] 0 [9] [42]) [] []].
Definition ex_s : net := fst (run W MaxKnown (init_net [[1]; [2]; [3]]) ex_setup).
Definition ex_flood : list ev :=
  [EvDeliver 0 []; EvDeliver 0 []; EvDeliver 5 []; EvDeliver 0 []; EvDrop 0; EvTick 10; EvDeliver 0 []].
Definition ex_pkt : packet := mkPkt [1] [2] (mkMsg [1] 1 [9] [42]).
(** a forged packet without origin, injected during the flood: node 1 re-stamps it as ([2], 1) *)
Definition ex_forged : packet := mkPkt [7] [2] (mkMsg [] 5 [9] [66]).
Definition ex_flood2 : list ev :=
  [EvDeliver 0 []; EvInject ex_forged; EvDeliver 2 []; EvDeliver 0 []; EvDeliver 0 []; EvDeliver 0 []; EvDeliver 0 []; EvDeliver 0 []; EvDeliver 0 []].
Definition ex_all : list ev :=
  ex_setup ++ [EvDeliver 0 []; EvInject ex_pkt; EvDeliver 1 []; EvTick (W + 1); EvInject ex_pkt; EvDeliver 1 []].
Example C38_hyps_satisfiable :
  map (fun nd => map o_grp (heap (n_svc nd))) (nodes ex_s) =
    [[mkGroup [[2]] [[3]] [[7]]]; [mkGroup [[3]; [1]] [] []]; [mkGroup [[1]] [] []]]
  /\ map p_dst (soup ex_s) = [[2]; [3]]
  /\ forallb net_ev2 ex_flood = true
  /\ (ticks ex_flood <=? W) = true
  /\ (neff W MaxKnown ex_s ex_flood, length (soup (fst (run W MaxKnown ex_s ex_flood)))) = (3%nat, 0%nat)
  /\ forallb net_ev2 ex_flood2 = true
  /\ (neff W MaxKnown ex_s ex_flood2, length (soup (fst (run W MaxKnown ex_s ex_flood2))),
      (length (soup ex_s) + lsum (map (fun p => tfb (nodes ex_s) (m_gid (p_msg p))) (soup ex_s)) + inj_cost (nodes ex_s) ex_flood2)%nat)
     = (8%nat, 0%nat, 18%nat)
  /\ times sel_deliv 1 (false, [1], 1) (snd (run W MaxKnown (init_net [[1]; [2]; [3]]) ex_all)) = [0; W + 1]
  /\ times sel_fwd 1 (true, [1], 1) (snd (run W MaxKnown (init_net [[1]; [2]; [3]]) ex_all)) = [0; W + 1].
Proof. vm_compute. repeat split; reflexivity. Qed.

(** the schedule of the refutation on the code as it is: the handler's visit
    blocks on the lock, the add commits, then the handler moves the peer to known *)
Example C38_head_schedule :
  let c := crun false MaxKnown cinit head_schedule in
  (c_adds c, c_hand c, pend (c_svc c), nbrs (c_svc c), map o_grp (heap (c_svc c))) =
  ([], None, [], [], [mkGroup [] [] [[2]]]).
Proof. vm_compute. reflexivity. Qed.
