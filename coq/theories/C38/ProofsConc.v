(** C38 — proofs, part 5: interleavings of [Group.add] (lock; IsNeighbor inside
    the lock; list updates; unlock) with the environment and with the
    disconnect handling of [Start] (take a notification; snapshot the groups;
    remove the peer group by group, each under that group's lock).

    Invariant of the code as it is ([cstep false]): every connected peer [q]
    of a registered group object [i] is a neighbour, or its disconnect
    notification is still queued, or the handler is at work on [q] and has not
    visited [i] yet.  The variant that asks IsNeighbor before taking the lock
    ([cstep true]) is refuted by a 9-step schedule. *)
From Coq Require Import List NArith ZArith Bool Lia Arith.
Import ListNotations.
Require Import Aurora.Base.Corr Aurora.C38.Model Aurora.C38.Proofs Aurora.C38.ProofsFlood.
Local Open Scope N_scope.

(** the handler's excuse: it works on [q] and object [i] is still on its list *)
Definition HX (h : option (addr * list nat)) : addr -> nat -> Prop :=
  fun q i => match h with Some (p, rem) => q = p /\ In i rem | None => False end.
Definition excused (s : svc) (h : option (addr * list nat)) (q : addr) (i : nat) : Prop :=
  In q (nbrs s) \/ In q (pend s) \/ HX h q i.
Definition registered (s : svc) (i : nat) : Prop := exists gid, In (gid, i) (gmap s).

(** * frame of the atomic registry events *)

Record frame (s s' : svc) : Prop := {
  fr_len : (length (heap s) <= length (heap s'))%nat;
  fr_reg : forall gid i, In (gid, i) (gmap s') -> In (gid, i) (gmap s) \/ (length (heap s) <= i)%nat;
  fr_env : forall q, In q (nbrs s) \/ In q (pend s) -> In q (nbrs s') \/ In q (pend s') }.

Lemma frame_refl s : frame s s.
Proof. constructor; auto. Qed.
Lemma frame_trans a b c : frame a b -> frame b c -> frame a c.
Proof.
  intros [L1 R1 E1] [L2 R2 E2]. constructor; [lia | | auto].
  intros gid i H. destruct (R2 _ _ H) as [H'|H']; [|right; lia]. destruct (R1 _ _ H') as [H''|H'']; auto.
Qed.
Lemma frame_same s s' : length (heap s') = length (heap s) -> gmap s' = gmap s -> nbrs s' = nbrs s -> pend s' = pend s -> frame s s'.
Proof. intros H1 H2 H3 H4. constructor; rewrite ?H1, ?H2, ?H3, ?H4; auto. Qed.

Lemma frame_on_obj i f s : frame s (on_obj i f s).
Proof. apply frame_same; cbn; auto using upd_nth_length. Qed.
Lemma frame_set_type i f s : frame s (set_type_sub i f s).
Proof. apply frame_same; cbn; auto using upd_nth_length. Qed.
Lemma frame_new_group gid t s : frame s (fst (new_group gid t s)).
Proof.
  constructor; cbn; [rewrite app_length; lia | | auto].
  intros g i H. apply amap_set_In in H. destruct H as [[= -> ->]|H]; [right; lia | now left].
Qed.
Lemma frame_get_or_create gid s : frame s (fst (get_or_create gid s)).
Proof. unfold get_or_create. destruct (get_group s gid); [apply frame_refl | apply frame_new_group]. Qed.

Lemma fold_frame {A} (f : svc -> A -> svc) l : (forall s a, frame s (f s a)) -> forall s, frame s (fold_left f l s).
Proof.
  intros Hf. induction l as [|a l IH]; intros s; cbn; [apply frame_refl|].
  eapply frame_trans; [apply Hf | apply IH].
Qed.

Lemma frame_update_peer_groups p gids s : frame s (update_peer_groups p gids s).
Proof.
  unfold update_peer_groups.
  set (s1 := fold_left _ (match amap_get p (pgs s) with Some l => l | None => [] end) s).
  assert (H1 : frame s s1).
  { apply fold_frame. intros s0 i. destruct (nth_error (heap s0) i); [|apply frame_refl].
    destruct (existsb _ gids); [apply frame_refl | apply frame_on_obj]. }
  clearbody s1.
  assert (H2 : forall l (sn : svc * list nat), frame (fst sn)
             (fst (fold_left (fun '(s, now) gid => let '(s', i) := get_or_create gid s in (obj_add i p true s', now ++ [i])) l sn))).
  { induction l as [|g l IH]; intros [s0 now]; cbn [fold_left]; [apply frame_refl|].
    eapply frame_trans; [|apply IH]. cbn [fst].
    pose proof (frame_get_or_create g s0) as Hg. destruct (get_or_create g s0) as [s' i]. cbn [fst] in *.
    eapply frame_trans; [exact Hg | apply frame_on_obj]. }
  specialize (H2 gids (s1, [])). cbn [fst] in H2.
  destruct (fold_left _ gids (s1, [])) as [s2 now]. cbn [fst] in H2.
  eapply frame_trans; [exact H1|]. eapply frame_trans; [exact H2|]. apply frame_same; reflexivity.
Qed.

Lemma frame_gc_one s gi : frame s (gc_one s gi).
Proof.
  unfold gc_one. destruct (nth_error (heap s) (snd gi)) as [o|]; [|apply frame_refl].
  destruct (o_type o); try apply frame_refl.
  destruct (g_conn (o_grp o)); [|apply frame_on_obj].
  eapply frame_trans; [apply (frame_on_obj (snd gi) (fun g => mkGroup (g_conn g) [] []))|].
  constructor; cbn; [lia | | auto]. intros g i H. left. eapply amap_del_In; eassumption.
Qed.

Lemma gstep_frame mk s e : e <> GProcDisconnect -> frame s (gstep mk s e).
Proof.
  intros Hne. destruct e; cbn [gstep]; try congruence.
  - destruct (get_group s gid); [destruct replace; [apply frame_new_group | apply frame_refl] | apply frame_new_group].
  - destruct (get_group s gid); [apply frame_on_obj | apply frame_refl].
  - destruct (get_group s gid); [apply frame_on_obj | apply frame_refl].
  - destruct (get_group s gid); [apply frame_on_obj | apply frame_refl].
  - apply fold_frame. intros s0 g. pose proof (frame_get_or_create g s0) as Hg.
    destruct (get_or_create g s0) as [s' i]. cbn [fst] in Hg.
    destruct join; (eapply frame_trans; [exact Hg | apply frame_on_obj]).
  - apply frame_update_peer_groups.
  - unfold gc_group. apply fold_frame. intros; apply frame_gc_one.
  - destruct (get_group s gid); [apply frame_set_type | apply frame_refl].
  - destruct (get_group s gid); [apply frame_set_type | apply frame_refl].
  - constructor; cbn; auto. intros q [H|H]; [left | now right].
    unfold ps_add. destruct (ps_exists p (nbrs s)); [assumption | apply in_or_app; now left].
  - constructor; cbn; auto. intros q [H|H].
    + destruct (aeqb q p) eqn:E.
      * apply aeqb_eq in E. subst. right. apply in_or_app. right. now left.
      * left. apply filter_In. split; [assumption | now rewrite E].
    + right. apply in_or_app. now left.
Qed.

(** * the invariant *)

Definition thr_ok (c : cstate) (t : athread) : Prop :=
  a_locked t = true /\ (a_obj t < length (heap (c_svc c)))%nat /\
  (a_read t = Some true -> registered (c_svc c) (a_obj t) -> excused (c_svc c) (c_hand c) (a_peer t) (a_obj t)).
Definition cinv (c : cstate) : Prop :=
  sinv (HX (c_hand c)) (c_svc c) /\ Forall (thr_ok c) (c_adds c).

Lemma lock_free_spec i ts t : lock_free i ts = true -> In t ts -> a_locked t = true -> a_obj t <> i.
Proof.
  unfold lock_free. intros H Hin Hl E. apply negb_true_iff in H.
  assert (existsb (fun t => a_locked t && Nat.eqb (a_obj t) i) ts = true); [|congruence].
  apply existsb_exists. exists t. split; [assumption|]. rewrite Hl, E, Nat.eqb_refl. reflexivity.
Qed.

Lemma remove_nth_Forall {A} (P : A -> Prop) k l : Forall P l -> Forall P (remove_nth k l).
Proof.
  intros H. rewrite Forall_forall in *. intros x Hx. apply H. unfold remove_nth in Hx.
  apply in_app_or in Hx. destruct Hx as [Hx|Hx].
  - rewrite <- (firstn_skipn k l). apply in_or_app. now left.
  - rewrite <- (firstn_skipn (S k) l). apply in_or_app. now right.
Qed.

Lemma cinv_init : cinv cinit.
Proof. split; [apply sinv_empty | constructor]. Qed.

Lemma cstep_inv mk c e : cinv c -> cinv (cstep false mk c e).
Proof.
  intros Hc. pose proof Hc as [Hs Ht]. destruct e; cbn [cstep].
  - (* CAtomic *)
    assert (Hgen : e <> GProcDisconnect -> cinv (mkC (gstep mk (c_svc c) e) (c_adds c) (c_hand c))).
    { intros Hne. split; cbn [c_svc c_adds c_hand]; [now apply gstep_inv|].
      pose proof (gstep_frame mk (c_svc c) e Hne) as [FL FR FE].
      eapply Forall_impl; [|exact Ht]. intros t (T1 & T2 & T3). split; [assumption|]. cbn [c_svc c_hand]. split; [lia|].
      intros Hr (gid & Hreg). destruct (FR _ _ Hreg) as [Hreg'|Hbig]; [|lia].
      destruct (T3 Hr (ex_intro _ gid Hreg')) as [H|[H|H]].
      - destruct (FE _ (or_introl H)) as [H'|H']; [now left | right; now left].
      - destruct (FE _ (or_intror H)) as [H'|H']; [now left | right; now left].
      - right. now right. }
    destruct e; try (apply Hgen; discriminate). exact Hc.
  - (* CAddStart *)
    destruct (Nat.ltb_spec i (length (heap (c_svc c)))) as [Hi|Hi]; cbn [negb]; [|exact Hc].
    destruct (lock_free i (c_adds c)); [|exact Hc].
    split; [assumption|]. cbn [c_adds]. apply Forall_app. split.
    + eapply Forall_impl; [|exact Ht]. intros t H. exact H.
    + constructor; [|constructor]. split; [reflexivity|]. split; [assumption|]. cbn. discriminate.
  - (* CAddRead *)
    destruct (nth_error (c_adds c) k) as [t|] eqn:Ek; [|exact Hc].
    destruct (a_locked t) eqn:El; [|exact Hc]. destruct (a_read t) eqn:Er; [exact Hc|].
    split; [assumption|]. cbn [c_adds]. apply upd_nth_Forall.
    + eapply Forall_impl; [|exact Ht]. intros t0 H. exact H.
    + intros t0 (T1 & T2 & T3). split; [reflexivity|]. split; [assumption|]. cbn [a_read a_peer a_obj c_svc c_hand].
      intros [= Hb] _. apply andb_true_iff in Hb. destruct Hb as [_ Hb]. left. now apply ps_exists_In.
  - (* CAddLock: not used by the code as it is *)
    destruct (nth_error (c_adds c) k) as [t|] eqn:Ek; [|exact Hc].
    assert (Hl : a_locked t = true).
    { rewrite Forall_forall in Ht. apply (Ht t). eapply nth_error_In; eassumption. }
    rewrite Hl. cbn [negb andb]. exact Hc.
  - (* CAddCommit *)
    destruct (nth_error (c_adds c) k) as [t|] eqn:Ek; [|exact Hc].
    assert (Htk : thr_ok c t) by (rewrite Forall_forall in Ht; apply Ht; eapply nth_error_In; eassumption).
    destruct Htk as (T1 & T2 & T3). rewrite T1.
    assert (Hgo : forall b, (b = true -> a_read t = Some true) ->
              cinv (mkC (on_obj (a_obj t) (g_add b (a_peer t) (a_keep t)) (c_svc c)) (remove_nth k (c_adds c)) (c_hand c))).
    { intros b Hb. split; cbn [c_svc c_adds c_hand].
      - apply (on_obj_inv _ _ _ _ (fun y => y = a_peer t /\ b = true)); try assumption.
        + intros g. apply g_add_ok.
        + intros g y Hg Hy. apply g_add_conn in Hy; [|apply Hg]. destruct Hy as [Hy|(-> & -> & _)]; [now left | right; auto].
        + intros y gid [-> ->] Hreg. apply (T3 (Hb eq_refl)). now exists gid.
      - apply remove_nth_Forall. eapply Forall_impl; [|exact Ht].
        intros t0 (U1 & U2 & U3). split; [assumption|]. cbn [c_svc c_hand on_obj set_heap heap].
        rewrite upd_nth_length. split; [assumption|]. exact U3. }
    destruct (a_read t) as [b|] eqn:Er.
    + apply Hgo. intros ->. reflexivity.
    + destruct (a_keep t); [exact Hc|]. apply Hgo. discriminate.
  - (* CHPop *)
    destruct (c_hand c) as [h|] eqn:Eh; [exact Hc|].
    destruct (pend (c_svc c)) as [|p r] eqn:Ep; [exact Hc|].
    destruct Hs as (A & B & C). split; cbn [c_svc c_adds c_hand].
    + split; [exact A|]. split; [|exact C].
      intros gid i o q Hin Hn Hq. cbn [gmap heap nbrs pend] in *.
      destruct (B _ _ _ _ Hin Hn Hq) as [H|[H|[]]]; [now left|]. rewrite Ep in H.
      destruct H as [<-|H]; [|right; now left]. right. right. cbn. split; [reflexivity|].
      apply in_map_iff. exists (gid, i). auto.
    + eapply Forall_impl; [|exact Ht]. intros t (T1 & T2 & T3). split; [assumption|]. split; [assumption|].
      cbn [c_svc c_hand]. intros Hr (gid & Hreg). cbn [gmap] in Hreg.
      destruct (T3 Hr (ex_intro _ gid Hreg)) as [H|[H|H]]; [now left | | rewrite Eh in H; destruct H]. rewrite Ep in H.
      destruct H as [<-|H]; [|right; now left]. right. right. cbn. split; [reflexivity|].
      apply in_map_iff. exists (gid, a_obj t). auto.
  - (* CHVisit *)
    destruct (c_hand c) as [[p [|i r]]|] eqn:Eh; [| |exact Hc].
    + (* list exhausted: handler idle again *)
      destruct Hs as (A & B & C). split; cbn [c_svc c_adds c_hand].
      * split; [exact A|]. split; [|exact C]. intros gid i o q Hin Hn Hq.
        destruct (B _ _ _ _ Hin Hn Hq) as [H|[H|[_ []]]]; auto.
      * eapply Forall_impl; [|exact Ht]. intros t (T1 & T2 & T3). split; [assumption|]. split; [assumption|].
        cbn [c_svc c_hand]. intros Hr Hreg. destruct (T3 Hr Hreg) as [H|[H|H]]; [now left | right; now left|].
        rewrite Eh in H. destruct H as [_ []].
    + destruct (lock_free i (c_adds c)) eqn:Elf; [|exact Hc].
      destruct Hs as (A & B & C). split; cbn [c_svc c_adds c_hand].
      * unfold sinv, obj_remove, on_obj, set_heap, heap_ok, conn_ok, gmap_ok in *; cbn [heap gmap nbrs pend].
        split; [|split].
        -- apply upd_nth_Forall; [assumption|]. intros x Hx. cbn. now apply g_remove_ok.
        -- intros gid j o q Hin Hn Hq. rewrite upd_nth_nth in Hn. destruct (Nat.eqb i j) eqn:E.
           ++ apply Nat.eqb_eq in E. subst j. destruct (nth_error (heap (c_svc c)) i) as [o0|] eqn:E0; [|discriminate].
              cbn in Hn. injection Hn as <-. cbn [o_grp] in Hq.
              assert (Hnd : NoDup (g_conn (o_grp o0))).
              { rewrite Forall_forall in A. apply (A o0). eapply nth_error_In; eassumption. }
              apply g_remove_conn in Hq; [|assumption]. destruct Hq as [Hq Hne].
              destruct (B _ _ _ _ Hin E0 Hq) as [H|[H|[H _]]]; [now left | right; now left | contradiction].
           ++ destruct (B _ _ _ _ Hin Hn Hq) as [H|[H|[H1 H2]]]; [now left | right; now left|].
              right. right. cbn. split; [assumption|]. destruct H2 as [H2|H2]; [|assumption].
              apply Nat.eqb_neq in E. contradiction.
        -- intros gid j Hin. rewrite upd_nth_length. eauto.
      * rewrite Forall_forall in *. intros t Hin. destruct (Ht t Hin) as (T1 & T2 & T3).
        split; [assumption|]. cbn [c_svc c_hand obj_remove on_obj set_heap heap]. rewrite upd_nth_length. split; [assumption|].
        intros Hr Hreg. pose proof (lock_free_spec _ _ _ Elf Hin T1) as Hne.
        destruct (T3 Hr Hreg) as [H|[H|H]]; [now left | right; now left|]. rewrite Eh in H. destruct H as [H1 H2].
        right. right. cbn. split; [assumption|]. destruct H2 as [H2|H2]; [congruence | assumption].
Qed.

Lemma crun_inv mk : forall evs c, cinv c -> cinv (crun false mk c evs).
Proof. induction evs as [|e r IH]; intros c H; cbn; [assumption|]. apply IH. now apply cstep_inv. Qed.

(** the property clause, over all interleavings *)
Lemma partition_interleaved_thm mk evs :
  let c := crun false mk cinit evs in
  (forall o, In o (heap (c_svc c)) -> partitioned (o_grp o)) /\
  (forall gid i o q, get_group (c_svc c) gid = Some i -> nth_error (heap (c_svc c)) i = Some o ->
     In q (g_conn (o_grp o)) ->
     In q (nbrs (c_svc c)) \/ In q (pend (c_svc c)) \/
     (exists rem, c_hand c = Some (q, rem) /\ In i rem)) /\
  (pend (c_svc c) = [] -> c_hand c = None ->
   forall gid o q, get_obj (c_svc c) gid = Some o -> In q (g_conn (o_grp o)) -> In q (nbrs (c_svc c))).
Proof.
  cbv zeta. destruct (crun_inv mk evs cinit cinv_init) as [(A & B & C) _].
  split; [|split].
  - intros o Ho. unfold heap_ok in A. rewrite Forall_forall in A. exact (A _ Ho).
  - intros gid i o q Hg Hn Hq. unfold get_group in Hg. apply amap_get_In in Hg.
    destruct (B _ _ _ _ Hg Hn Hq) as [H|[H|H]]; [now left | right; now left|]. right. right.
    unfold HX in H. destruct (c_hand (crun false mk cinit evs)) as [[p rem]|]; [|contradiction].
    destruct H as [-> H]. exists rem. auto.
  - intros Hp Hh gid o q Hg Hq. apply get_obj_reg in Hg. destruct Hg as (i & Hi & Hn).
    destruct (B _ _ _ _ Hi Hn Hq) as [H|[H|H]]; [assumption | rewrite Hp in H; destruct H|].
    rewrite Hh in H. destruct H.
Qed.

(** * the lookup-before-lock variant is refuted *)

Definition early_witness : list cev :=
  [CAtomic (GNew [9] GJoin false); CAtomic (EConnect [2]);
   CAddStart 0 [2] true;              (* the add asks IsNeighbor: true *)
   CAtomic (EDisconnect [2]);         (* the link drops, the notification is queued *)
   CHPop; CHVisit; CHVisit;           (* the handler runs to completion: nothing to remove yet *)
   CAddLock 0; CAddCommit 0].         (* the add files the peer as connected on the stale answer *)

Lemma early_refuted_thm mk :
  let c := crun true mk cinit early_witness in
  c_adds c = [] /\ c_hand c = None /\ pend (c_svc c) = [] /\
  exists gid o q, get_obj (c_svc c) gid = Some o /\ In q (g_conn (o_grp o)) /\ ~ In q (nbrs (c_svc c)).
Proof.
  cbv zeta. vm_compute. repeat split. exists [9], (mkObj [9] GJoin false (mkGroup [[2]] [] [])), [2].
  repeat split; [now left | intros []].
Qed.

(** the same schedule on the code as it is: the handler's visit blocks on the
    lock, the add commits, then the handler removes the peer *)
Definition head_schedule : list cev :=
  [CAtomic (GNew [9] GJoin false); CAtomic (EConnect [2]);
   CAddStart 0 [2] true; CAddRead 0; CAtomic (EDisconnect [2]);
   CHPop; CHVisit;                     (* blocked: the add holds the lock *)
   CAddCommit 0; CHVisit; CHVisit].
