(** C38 — proofs, part 4: flooding stops, general form.  The soup may hold
    origin-less (forged) packets — the receiver re-stamps such a packet as a
    new message of its own — and an adversary may keep injecting packets
    during the flood.  Potential, for a ghost list [K] of the messages with an
    origin that are or were in flight:

      |soup| + sum over nodes, over m in K: (0 if locked until Tend, else fan-out)
             + sum over origin-less packets in flight: total fan-out of all nodes
               (the reserve that pays for the one new message it may spawn)

    Every effective delivery / loss lowers it by at least one; an injected
    packet raises it by at most 1 + the total fan-out for its group. *)
From Coq Require Import List NArith ZArith Bool Lia Arith.
Import ListNotations.
Require Import Aurora.Base.Corr Aurora.C38.Model Aurora.C38.Proofs Aurora.C38.ProofsFlood Aurora.C38.ProofsTerm.
Local Open Scope N_scope.

Definition has_origin (p : packet) : bool := match m_origin (p_msg p) with [] => false | _ => true end.
Definition wt (Tend : N) (nd : node) (m : msg) : nat :=
  if locked Tend (n_cache nd) m then 0%nat else fb nd (m_gid m).
(** total fan-out of a list of nodes for a group id *)
Definition tfb (l : list node) (g : addr) : nat := lsum (map (fun nd => fb nd g) l).
Definition rsv (l : list node) (sp : list packet) : nat :=
  lsum (map (fun p => if has_origin p then 0%nat else tfb l (m_gid (p_msg p))) sp).
Definition pot2 (Tend : N) (K : list msg) (s : net) : nat :=
  (length (soup s) + lsum (map (node_pot Tend K) (nodes s)) + rsv (nodes s) (soup s))%nat.
Definition soup_ok2 (K : list msg) (l : list packet) : Prop :=
  forall p, In p l -> m_origin (p_msg p) <> [] -> In (p_msg p) K.
Definition net_ev2 (e : ev) : bool :=
  match e with EvDeliver _ _ | EvDrop _ | EvTick _ | EvInject _ => true | _ => false end.
Fixpoint inj_cost (l : list node) (evs : list ev) : nat :=
  match evs with
  | [] => 0%nat
  | EvInject p :: r => (S (tfb l (m_gid (p_msg p))) + inj_cost l r)%nat
  | _ :: r => inj_cost l r
  end.

(** * sums *)

Lemma lsum_app a b : lsum (a ++ b) = (lsum a + lsum b)%nat.
Proof. induction a as [|x t IH]; cbn; [reflexivity|]. rewrite IH. lia. Qed.
Lemma lsum_map_add {A} (f g : A -> nat) l : lsum (map (fun x => (f x + g x)%nat) l) = (lsum (map f l) + lsum (map g l))%nat.
Proof. induction l as [|x t IH]; cbn; [reflexivity|]. rewrite IH. lia. Qed.
Lemma lsum_remove_nth {A} (f : A -> nat) : forall l i x, nth_error l i = Some x ->
  lsum (map f l) = (lsum (map f (remove_nth i l)) + f x)%nat.
Proof.
  induction l as [|a t IH]; intros [|i] x H; cbn in H; try discriminate.
  - injection H as ->. unfold remove_nth. cbn. lia.
  - specialize (IH _ _ H). unfold remove_nth in *. change (firstn (S i) (a :: t)) with (a :: firstn i t). change (skipn (S (S i)) (a :: t)) with (skipn (S i) t). cbn [app map lsum]. rewrite IH. lia.
Qed.
Lemma lsum_swap {A B} (f : A -> B -> nat) la lb :
  lsum (map (fun a => lsum (map (fun b => f a b) lb)) la) = lsum (map (fun b => lsum (map (fun a => f a b) la)) lb).
Proof.
  induction la as [|a t IH]; cbn.
  - induction lb as [|b r IHb]; cbn; [reflexivity | now rewrite <- IHb].
  - rewrite IH. now rewrite <- lsum_map_add.
Qed.
Lemma lsum_split {A} (h : A -> bool) (f : A -> nat) l :
  lsum (map f l) = (lsum (map f (filter h l)) + lsum (map (fun x => if h x then 0%nat else f x) l))%nat.
Proof. induction l as [|x t IH]; cbn; [reflexivity|]. destruct (h x); cbn; lia. Qed.
Lemma lsum_zero {A} (f : A -> nat) l : (forall x, In x l -> f x = 0%nat) -> lsum (map f l) = 0%nat.
Proof.
  induction l as [|x t IH]; intros H; cbn; [reflexivity|].
  rewrite (H x (or_introl eq_refl)), IH; [reflexivity | intros; apply H; now right].
Qed.

Lemma node_pot_cons Tend m K nd : node_pot Tend (m :: K) nd = (wt Tend nd m + node_pot Tend K nd)%nat.
Proof. reflexivity. Qed.
Lemma wt_le Tend nd m : (wt Tend nd m <= fb nd (m_gid m))%nat.
Proof. unfold wt. destruct (locked _ _ _); lia. Qed.

Lemma tfb_set_node l n nd nd' g : nth_error l n = Some nd -> n_svc nd' = n_svc nd -> tfb (set_node n nd' l) g = tfb l g.
Proof.
  intros Hn Hs. unfold tfb. pose proof (sum_set_node (fun x => fb x g) l n nd nd' Hn) as H.
  cbv beta in H. rewrite (fb_svc _ _ g Hs) in H. lia.
Qed.
Lemma rsv_nodes l l' sp : (forall g, tfb l' g = tfb l g) -> rsv l' sp = rsv l sp.
Proof. intros H. unfold rsv. apply f_equal. apply map_ext. intros p. destruct (has_origin p); [reflexivity | apply H]. Qed.
Lemma rsv_app l a b : rsv l (a ++ b) = (rsv l a + rsv l b)%nat.
Proof. unfold rsv. rewrite map_app. apply lsum_app. Qed.
Lemma rsv_zero l sp : (forall p, In p sp -> m_origin (p_msg p) <> []) -> rsv l sp = 0%nat.
Proof.
  intros H. unfold rsv. apply lsum_zero. intros p Hp. unfold has_origin. specialize (H p Hp).
  destruct (m_origin (p_msg p)); [contradiction | reflexivity].
Qed.

(** * what one onMulticast call can show, with or without an origin *)

Lemma on_multicast_any W now nd from m hint nd' o :
  on_multicast W now nd from m hint = (nd', o) ->
  (o_fwd o = [] /\ o_sends o = []) \/
  (exists m', o_fwd o = [m'] /\ (forall p, In p (o_sends o) -> p_msg p = m') /\
              (length (o_sends o) <= fb nd (m_gid m))%nat /\ m_gid m' = m_gid m /\
              m_origin m' <> [] /\ (m_origin m <> [] -> m' = m)).
Proof.
  unfold on_multicast.
  destruct (set_if_not_exist W now (dkey m) (n_cache nd)) as [c ok]. destruct ok; cbn [negb].
  2:{ intros [= <- <-]. left; auto. }
  destruct (aeqb (m_origin m) (n_self nd)) eqn:Eself.
  { intros [= <- <-]. left; auto. }
  set (dr := match get_obj (n_svc nd) (m_gid m) with Some o0 => _ | None => _ end). destruct dr as [deliv recvlog].
  set (nd1 := mkNode (n_self nd) (n_svc nd) (n_seq nd) c).
  unfold multicast.
  destruct (resolve nd1 m) as [m' seq] eqn:Er.
  assert (Hm' : m_gid m' = m_gid m /\ m_origin m' <> [] /\ (m_origin m <> [] -> m' = m)).
  { unfold resolve in Er. destruct (m_origin m) as [|b t] eqn:Eo.
    - injection Er as <- _. cbn. split; [reflexivity|]. split; [|congruence].
      intros Hs. apply aeqb_neq in Eself. apply Eself. now rewrite Hs.
    - injection Er as <- _. split; [reflexivity|]. split; [rewrite Eo; discriminate | reflexivity]. }
  destruct Hm' as (Hg & Ho & Hsame).
  destruct (set_if_not_exist W now (fkey m') (n_cache nd1)) as [c2 ok2]. destruct ok2.
  - pose proof (targets_len nd1 m' [from] hint) as Hl.
    destruct (targets_of nd1 m' [from] hint) as [targets good]. cbn [fst] in Hl.
    intros [= <- <-]. cbn [o_sends o_fwd]. right. exists m'. split; [reflexivity|]. split.
    + intros p Hp. apply in_map_iff in Hp. destruct Hp as (d & <- & _). reflexivity.
    + split; [|auto]. rewrite map_length. rewrite Hg in Hl. exact Hl.
  - intros [= <- <-]. left; auto.
Qed.

(** * one step *)

Lemma set_node_In n nd' l nd : nth_error l n = Some nd -> In nd' (set_node n nd' l).
Proof.
  intros H. apply (nth_error_In _ n). rewrite set_node_nth, Nat.eqb_refl, H. reflexivity.
Qed.

Lemma step_pot2 W mk Tend K s e :
  net_ev2 e = true -> soup_ok2 K (soup s) -> clock s + tick_of e <= Tend -> Tend <= clock s + W ->
  let s1 := fst (step W mk s e) in
  exists K', soup_ok2 K' (soup s1) /\
    (eff s e + pot2 Tend K' s1 <= pot2 Tend K s + inj_cost (nodes s) [e])%nat /\
    clock s1 = clock s + tick_of e /\ (forall g, tfb (nodes s1) g = tfb (nodes s) g).
Proof.
  intros Hne Hok Hc1 Hc2. destruct e; try discriminate; cbn [step eff tick_of inj_cost] in *.
  - (* EvDeliver *)
    destruct (nth_error (soup s) i) as [p|] eqn:Ep.
    2:{ cbn [fst soup nodes clock]. apply nth_error_None in Ep. destruct (Nat.ltb_spec i (length (soup s))); [exfalso; lia|].
        exists K. split; [assumption|]. split; [lia|]. split; [lia | reflexivity]. }
    assert (Hi : (i < length (soup s))%nat) by (apply nth_error_Some; congruence).
    destruct (Nat.ltb_spec i (length (soup s))); [|exfalso; lia].
    pose proof (remove_nth_len i (soup s) Hi) as Hlen.
    set (rest := remove_nth i (soup s)) in *.
    assert (Hrest : soup_ok2 K rest) by (intros q Hq; apply Hok; eapply remove_nth_In; eassumption).
    pose proof (lsum_remove_nth (fun p => if has_origin p then 0%nat else tfb (nodes s) (m_gid (p_msg p))) _ _ _ Ep) as Hrsv.
    fold (rsv (nodes s) (soup s)) in Hrsv. fold rest in Hrsv. fold (rsv (nodes s) rest) in Hrsv. cbv beta in Hrsv.
    destruct (find_node (p_dst p) (nodes s) 0) as [[n nd]|] eqn:Ef.
    2:{ cbn [fst soup nodes clock]. exists K. split; [assumption|]. unfold pot2; cbn [soup nodes]. split; [lia|]. split; [lia | reflexivity]. }
    destruct (on_multicast W (clock s) nd (p_src p) (p_msg p) hint) as [nd' o] eqn:Em. cbn [fst soup nodes clock].
    apply find_node_nth in Ef. destruct Ef as (_ & Ef & _). rewrite Nat.sub_0_r in Ef.
    pose proof (on_multicast_ok _ _ _ _ _ _ _ _ Em) as Hcall.
    pose proof (ck_svc _ _ _ _ _ Hcall) as Hsvc. pose proof (ck_le _ _ _ _ _ Hcall) as Hle.
    assert (Htfb : forall g, tfb (set_node n nd' (nodes s)) g = tfb (nodes s) g) by (intros g; now apply tfb_set_node with (nd := nd)).
    pose proof (sum_set_node (node_pot Tend K) _ _ _ nd' Ef) as Hsum.
    pose proof (node_pot_le Tend K nd nd' Hsvc Hle) as Hnp.
    destruct (on_multicast_any _ _ _ _ _ _ _ _ Em) as [[Hf Hsn]|(m' & Hf & Hmsg & Hlen' & Hg & Ho & Hsame)].
    + (* nothing forwarded *)
      exists K. rewrite Hsn, app_nil_r. split; [assumption|]. split; [|split; [lia | assumption]].
      unfold pot2; cbn [soup nodes]. rewrite (rsv_nodes _ _ rest Htfb). lia.
    + assert (Hin : In m' (o_fwd o)) by (rewrite Hf; now left).
      destruct (ck_fwd _ _ _ _ _ Hcall _ Hin) as [Hnew Hold].
      assert (Hsz : rsv (nodes s) (o_sends o) = 0%nat).
      { apply rsv_zero. intros q Hq. rewrite (Hmsg _ Hq). exact Ho. }
      destruct (m_origin (p_msg p)) as [|b t] eqn:Eo.
      * (* origin-less packet re-stamped as the new message m' *)
        exists (m' :: K). split; [|split; [|split; [lia | assumption]]].
        -- intros q Hq Hqo. apply in_app_or in Hq. destruct Hq as [Hq|Hq]; [right; now apply Hrest | left; symmetry; now apply Hmsg].
        -- unfold pot2; cbn [soup nodes]. rewrite app_length, (rsv_nodes _ _ _ Htfb), rsv_app, Hsz.
           assert (Hnp2 : lsum (map (node_pot Tend (m' :: K)) (set_node n nd' (nodes s)))
                          = (lsum (map (fun x => wt Tend x m') (set_node n nd' (nodes s))) + lsum (map (node_pot Tend K) (set_node n nd' (nodes s))))%nat).
           { rewrite <- lsum_map_add. apply f_equal. apply map_ext. intros x. apply node_pot_cons. }
           rewrite Hnp2.
           assert (Hw : (lsum (map (fun x => wt Tend x m') (set_node n nd' (nodes s))) + fb nd (m_gid (p_msg p)) <= tfb (nodes s) (m_gid (p_msg p)))%nat).
           { rewrite <- (Htfb (m_gid (p_msg p))). unfold tfb.
             apply sum_drop with (x := nd'); [| eapply set_node_In; eassumption |].
             - intros x _. rewrite <- Hg. apply wt_le.
             - destruct Hnew as (e1 & L1 & I1).
               assert (Hl : locked Tend (n_cache nd') m' = true) by (unfold locked; rewrite L1; apply N.leb_le; lia).
               unfold wt. rewrite Hl. rewrite (fb_svc _ _ _ Hsvc). lia. }
           assert (Hr : has_origin p = false) by (unfold has_origin; now rewrite Eo).
           rewrite Hr in Hrsv. lia.
      * (* a packet with an origin: m' = its message, already in K *)
        assert (Hpo : m_origin (p_msg p) <> []) by (rewrite Eo; discriminate).
        specialize (Hsame ltac:(discriminate)). subst m'.
        assert (HpK : In (p_msg p) K) by (apply Hok; [eapply nth_error_In; eassumption | assumption]).
        exists K. split; [|split; [|split; [lia | assumption]]].
        -- intros q Hq Hqo. apply in_app_or in Hq. destruct Hq as [Hq|Hq]; [now apply Hrest|]. now rewrite (Hmsg _ Hq).
        -- unfold pot2; cbn [soup nodes]. rewrite app_length, (rsv_nodes _ _ _ Htfb), rsv_app, Hsz.
           pose proof (node_pot_fwd W (clock s) Tend K nd nd' (p_msg p) Hsvc Hle HpK ltac:(lia) Hc2 Hnew Hold).
           lia.
  - (* EvDrop *)
    cbn [fst soup nodes clock]. exists K. destruct (Nat.ltb_spec i (length (soup s))) as [Hi|Hi].
    + pose proof (remove_nth_len i (soup s) Hi).
      destruct (nth_error (soup s) i) as [p|] eqn:Ep; [|apply nth_error_None in Ep; exfalso; lia].
      pose proof (lsum_remove_nth (fun p => if has_origin p then 0%nat else tfb (nodes s) (m_gid (p_msg p))) _ _ _ Ep) as Hrsv.
      fold (rsv (nodes s) (soup s)) in Hrsv. fold (rsv (nodes s) (remove_nth i (soup s))) in Hrsv. cbv beta in Hrsv.
      split; [intros q Hq; apply Hok; eapply remove_nth_In; eassumption|].
      unfold pot2; cbn [soup nodes]. split; [lia|]. split; [lia | reflexivity].
    + rewrite remove_nth_out by assumption. split; [assumption|]. unfold pot2; cbn [soup nodes]. split; [lia|]. split; [lia | reflexivity].
  - (* EvInject *)
    cbn [fst soup nodes clock]. destruct (m_origin (p_msg p)) as [|b t] eqn:Eo.
    + exists K. split; [|split; [|split; [lia | reflexivity]]].
      * intros q Hq Hqo. apply in_app_or in Hq. destruct Hq as [Hq|[<-|[]]]; [now apply Hok | congruence].
      * unfold pot2; cbn [soup nodes]. rewrite app_length, rsv_app. cbn [length]. unfold rsv at 2. cbn [map lsum].
        unfold has_origin. rewrite Eo. lia.
    + exists (p_msg p :: K). split; [|split; [|split; [lia | reflexivity]]].
      * intros q Hq Hqo. apply in_app_or in Hq. destruct Hq as [Hq|[<-|[]]]; [right; now apply Hok | now left].
      * unfold pot2; cbn [soup nodes]. rewrite app_length, rsv_app. cbn [length]. unfold rsv at 2. cbn [map lsum].
        unfold has_origin. rewrite Eo.
        assert (Hnp2 : lsum (map (node_pot Tend (p_msg p :: K)) (nodes s))
                       = (lsum (map (fun x => wt Tend x (p_msg p)) (nodes s)) + lsum (map (node_pot Tend K) (nodes s)))%nat).
        { rewrite <- lsum_map_add. apply f_equal. apply map_ext. intros x. apply node_pot_cons. }
        rewrite Hnp2.
        assert (Hw : (lsum (map (fun x => wt Tend x (p_msg p)) (nodes s)) <= tfb (nodes s) (m_gid (p_msg p)))%nat).
        { unfold tfb. apply sum_le. intros x _. apply wt_le. }
        lia.
  - (* EvTick *)
    cbn [fst soup nodes clock]. exists K. split; [assumption|]. unfold pot2; cbn [soup nodes]. split; [lia|]. split; [lia | reflexivity].
Qed.

Lemma inj_cost_nodes l l' evs : (forall g, tfb l' g = tfb l g) -> inj_cost l' evs = inj_cost l evs.
Proof. intros H. induction evs as [|e r IH]; cbn; [reflexivity|]. destruct e; try assumption. now rewrite IH, H. Qed.

Lemma flood_measure2 W mk Tend : forall evs s K,
  forallb net_ev2 evs = true -> soup_ok2 K (soup s) -> clock s + ticks evs <= Tend -> Tend <= clock s + W ->
  (neff W mk s evs + length (soup (fst (run W mk s evs))) <= pot2 Tend K s + inj_cost (nodes s) evs)%nat.
Proof.
  induction evs as [|e r IH]; intros s K Hne Hok Hc1 Hc2; [unfold pot2; cbn; lia|].
  cbn [forallb] in Hne. apply andb_true_iff in Hne. destruct Hne as [He Hr].
  cbn [ticks] in Hc1. rewrite run_cons_fst. cbn [neff].
  destruct (step_pot2 W mk Tend K s e He Hok ltac:(lia) Hc2) as (K' & Hok1 & Hpot & Hclk & Htfb). cbv zeta in *.
  specialize (IH (fst (step W mk s e)) K' Hr Hok1 ltac:(lia) ltac:(lia)).
  rewrite (inj_cost_nodes _ _ r Htfb) in IH.
  assert (Hsplit : inj_cost (nodes s) (e :: r) = (inj_cost (nodes s) [e] + inj_cost (nodes s) r)%nat).
  { cbn. destruct e; lia. }
  lia.
Qed.

(** the potential of the initial state, with K = the messages that carry an origin *)
Lemma pot2_bound Tend s :
  (pot2 Tend (map p_msg (filter has_origin (soup s))) s <=
   length (soup s) + lsum (map (fun p => tfb (nodes s) (m_gid (p_msg p))) (soup s)))%nat.
Proof.
  unfold pot2.
  rewrite (lsum_split has_origin (fun p => tfb (nodes s) (m_gid (p_msg p))) (soup s)).
  fold (rsv (nodes s) (soup s)).
  assert (H : (lsum (map (node_pot Tend (map p_msg (filter has_origin (soup s)))) (nodes s)) <=
               lsum (map (fun p => tfb (nodes s) (m_gid (p_msg p))) (filter has_origin (soup s))))%nat).
  { unfold tfb. rewrite <- (lsum_swap (fun nd p => fb nd (m_gid (p_msg p)))).
    apply sum_le. intros nd _. unfold node_pot. rewrite map_map. apply sum_le. intros p _.
    destruct (locked _ _ _); lia. }
  lia.
Qed.

(** Flooding stops — all soups, adversarial injections accounted for. *)
Lemma flood_terminates2_thm W mk s evs :
  forallb net_ev2 evs = true -> ticks evs <= W ->
  (neff W mk s evs + length (soup (fst (run W mk s evs))) <=
   length (soup s) + lsum (map (fun p => tfb (nodes s) (m_gid (p_msg p))) (soup s)) + inj_cost (nodes s) evs)%nat.
Proof.
  intros Hne Ht.
  pose proof (flood_measure2 W mk (clock s + W) evs s (map p_msg (filter has_origin (soup s))) Hne) as H.
  assert (Hok : soup_ok2 (map p_msg (filter has_origin (soup s))) (soup s)).
  { intros p Hp Ho. apply in_map. apply filter_In. split; [assumption|]. unfold has_origin. destruct (m_origin (p_msg p)); [contradiction | reflexivity]. }
  specialize (H Hok ltac:(lia) ltac:(lia)).
  pose proof (pot2_bound (clock s + W) s). lia.
Qed.
