(** C38 — correspondence.  A case is one whole run on the real code: the
    node addresses, then per event what the harness observed.  [check_case]
    replays the events on the model step by step and compares, for a
    registry/environment event the dump of that node's groups, for a
    Multicast / onMulticast call the subscriber deliveries, the two log
    markers, the packets written (destination and content, in order) and the
    sequence counter.  The random choice of [RandomPeersLimit] is fed
    relationally: the observed destinations are the hint, and the model
    checks it is a choice the code can make. *)
From Coq Require Import List NArith ZArith Bool.
Import ListNotations.
Require Import Aurora.Base.Corr Aurora.Consts.
Require Export Aurora.C38.Model.
Local Open Scope N_scope.

Definition W : N := Z.to_N (Consts.multicast_multicastMsgCache / 1000000).
Definition MaxKnown : N := Z.to_N Consts.multicast_maxKnownPeers.

(** compact literal for a byte string in generated case files: [B n v] is the
    [n]-byte big-endian representation of [v] *)
Fixpoint B (n : nat) (v : N) : list N :=
  match n with O => [] | S k => B k (v / 256) ++ [v mod 256] end.

Definition dump_entry := (addr * N * list addr * list addr * list addr)%type.

Inductive obs :=
| ODump (d : list dump_entry)        (* groups of the node after the event, by gid: (gid, GType, connected, kept, known) *)
| OFlood (n : option N)              (* index of the node whose handler ran, if any *)
         (deliv : list (addr * msg * addr)) (recvlog : bool) (fwd : list msg)
         (sends : list (addr * msg)) (seq : N)
| ONone.

(** a run of the fine-grained registry model (one add in flight, the
    disconnect handler, atomic events) as the harness scheduled it on the real
    code; [KAddStart] names the group by gid, [KHVisit n] is n handler steps *)
Inductive kev :=
| KAt (e : gev) | KAddStart (gid p : addr) (keep : bool) | KAddRead | KAddCommit | KHPop | KHVisit (n : nat).

Inductive case :=
| CRun (selfs : list addr) (steps : list (ev * obs))
| CConc (steps : list kev) (final : list dump_entry).

Definition gtype_code (t : gtype) : N := match t with GJoin => 0 | GObserve => 1 | GKnown => 2 end.
Definition addrs_eqb := list_eqb aeqb.

Definition entry_ok (s : svc) (e : dump_entry) : bool :=
  let '(gid, t, c, k, kn) := e in
  match get_obj s gid with
  | Some o => (gtype_code (o_type o) =? t) && addrs_eqb (g_conn (o_grp o)) c
              && addrs_eqb (g_kept (o_grp o)) k && addrs_eqb (g_known (o_grp o)) kn
  | None => false
  end.
Fixpoint distinct_gids (d : list dump_entry) : bool :=
  match d with
  | [] => true
  | e :: t => negb (existsb (fun e' => aeqb (fst (fst (fst (fst e')))) (fst (fst (fst (fst e))))) t) && distinct_gids t
  end.
Definition dump_ok (s : svc) (d : list dump_entry) : bool :=
  Nat.eqb (length (gmap s)) (length d) && distinct_gids d && forallb (entry_ok s) d.

(** the model's dump, for [explain_case] *)
Definition model_dump (s : svc) : list dump_entry :=
  flat_map (fun gi => match nth_error (heap s) (snd gi) with
                      | Some o => [(fst gi, gtype_code (o_type o), g_conn (o_grp o), g_kept (o_grp o), g_known (o_grp o))]
                      | None => [] end) (gmap s).

Definition deliv_eqb (a b : addr * msg * addr) : bool :=
  aeqb (fst (fst a)) (fst (fst b)) && msg_eqb (snd (fst a)) (snd (fst b)) && aeqb (snd a) (snd b).
Definition send_eqb (self : addr) (p : packet) (q : addr * msg) : bool :=
  aeqb (p_dst p) (fst q) && msg_eqb (p_msg p) (snd q).
Fixpoint list_eqb2 {A B} (e : A -> B -> bool) (a : list A) (b : list B) : bool :=
  match a, b with
  | [], [] => true
  | x :: a', y :: b' => e x y && list_eqb2 e a' b'
  | _, _ => false
  end.

Definition with_hint (e : ev) (o : obs) : ev :=
  match o with
  | OFlood _ _ _ _ sends _ =>
      match e with
      | EvMulticast n m skip _ => EvMulticast n m skip (map fst sends)
      | EvDeliver i _ => EvDeliver i (map fst sends)
      | _ => e
      end
  | _ => e
  end.

Definition node_of_ev (e : ev) : option nat := match e with EvG n _ => Some n | _ => None end.

Definition step_ok (s s' : net) (e : ev) (r : option nat * out) (o : obs) : bool :=
  match o with
  | ODump d =>
      match node_of_ev e with
      | Some n => match nth_error (nodes s') n with Some nd => dump_ok (n_svc nd) d | None => false end
      | None => false
      end
  | OFlood n deliv recvlog fwd sends seq =>
      let '(rn, ro) := r in
      option_eqb N.eqb (option_map N.of_nat rn) n
      && list_eqb deliv_eqb (o_deliv ro) deliv
      && Bool.eqb (o_recvlog ro) recvlog
      && list_eqb msg_eqb (o_fwd ro) fwd
      && list_eqb2 (send_eqb []) (o_sends ro) sends
      && negb (o_bad ro)
      && match rn with
         | Some k => match nth_error (nodes s') k with
                     | Some nd => (n_seq nd =? seq) && forallb (fun p => aeqb (p_src p) (n_self nd)) (o_sends ro)
                     | None => false end
         | None => true
         end
  | ONone => true
  end.

(** index of the first step on which model and observation differ *)
Fixpoint first_bad (s : net) (steps : list (ev * obs)) (i : nat) : option (nat * net * (option nat * out)) :=
  match steps with
  | [] => None
  | (e, o) :: t =>
      let e' := with_hint e o in
      let '(s', r) := step W MaxKnown s e' in
      if step_ok s s' e' r o then first_bad s' t (S i) else Some (i, s', r)
  end.

Definition kstep (c : cstate) (k : kev) : cstate :=
  match k with
  | KAt e => cstep false MaxKnown c (CAtomic e)
  | KAddStart gid p keep =>
      match get_group (c_svc c) gid with Some i => cstep false MaxKnown c (CAddStart i p keep) | None => c end
  | KAddRead => cstep false MaxKnown c (CAddRead 0)
  | KAddCommit => cstep false MaxKnown c (CAddCommit 0)
  | KHPop => cstep false MaxKnown c CHPop
  | KHVisit n => Nat.iter n (fun c => cstep false MaxKnown c CHVisit) c
  end.
(** final state: the observed dump, no add in flight, handler idle, nothing queued *)
Definition conc_ok (c : cstate) (d : list dump_entry) : bool :=
  dump_ok (c_svc c) d
  && match c_adds c with [] => true | _ => false end
  && match c_hand c with None => true | Some _ => false end
  && match pend (c_svc c) with [] => true | _ => false end.

Definition check_case (c : case) : bool :=
  match c with
  | CRun selfs steps => match first_bad (init_net selfs) steps 0 with None => true | Some _ => false end
  | CConc steps d => conc_ok (fold_left kstep steps cinit) d
  end.

(** on mismatch: step index, the model's output for it, the model's dump of
    the node concerned, and the observation *)
Definition explain_case (c : case) :=
  match c with
  | CConc steps d =>
      let c' := fold_left kstep steps cinit in
      if conc_ok c' d then None
      else Some (0%nat, (None, out_none), Some (model_dump (c_svc c')),
                 Some (OFlood (option_map (fun h => N.of_nat (length (snd h))) (c_hand c')) [] false [] [] (N.of_nat (length (c_adds c')))))
  | CRun selfs steps =>
      match first_bad (init_net selfs) steps 0 with
      | None => None
      | Some (i, s', r) =>
          let eo := nth_error steps i in
          let dump := match eo with
                      | Some (e, _) => match node_of_ev e with
                                       | Some n => option_map (fun nd => model_dump (n_svc nd)) (nth_error (nodes s') n)
                                       | None => None end
                      | None => None end in
          Some (i, r, dump, option_map snd eo)
      end
  end.
