(** C22 — correspondence.
    [CDepth]: [recalcDepth] (through the hook [VerifDepthRecalc]) on a real
    [PSlice] over 32 bins: the bins in slice order with the filter's answer
    per peer ([true] = unreachable), the radius and the live thresholds.
    [CKad]: a real [Kad] driven by events, [NeighborhoodDepth] after each.
    [CThresh]: [quickSaturationPeers] after [kademlia.New] with
    [Options.BinMaxPeers = b]. *)
From Coq Require Import List NArith ZArith Bool Arith.
Import ListNotations.
Require Import Aurora.Base.Corr Aurora.Consts.
Require Export Aurora.C21.Model Aurora.C22.Model Aurora.C22.Conc.

Definition MaxPO : N := Z.to_N Consts.boson_MaxPO.
Definition MaxBins : nat := S (N.to_nat MaxPO).

Inductive case :=
| CDepth (nn quick radius : nat) (bins : list (list bool)) (obs : nat)
| CKad (base : addr) (nn quick : nat) (events : list event) (obs : list nat)
| CThresh (b quick_before obs : Z)
(* two goroutines on a real Kad, interleaving forced through the reachability
   predicate: sequential [setup], then thread programs run under [sched]; [obs] =
   NeighborhoodDepth once both have returned *)
| CConc (base : addr) (nn quick : nat) (setup : list event) (progs : list (list event))
        (sched : list (nat * nat)) (obs : nat).

Definition model_out (c : case) : list Z :=
  match c with
  | CDepth nn quick radius bins _ => [Z.of_nat (recalc_depth (fun u : bool => u) nn quick bins radius)]
  | CKad base nn quick es _ =>
      map Z.of_nat (kad_trace (po_of MaxPO base MaxBins) nn quick (kad_init MaxBins (N.to_nat MaxPO)) es)
  | CThresh b qb _ => [snd (thresholds_new b (0, 0, qb)%Z)]
  | CConc base nn quick setup progs sched _ =>
      let pof := po_of MaxPO base MaxBins in
      let k0 := kad_run pof nn quick (kad_init MaxBins (N.to_nat MaxPO)) setup in
      let g := grun pof nn quick false (ginit k0 progs) sched in
      [if all_done g (length progs) then 1%Z else 0%Z; Z.of_nat (depth (gk g))]
  end.
Definition obs_out (c : case) : list Z :=
  match c with
  | CDepth _ _ _ _ o => [Z.of_nat o]
  | CKad _ _ _ _ o => map Z.of_nat o
  | CThresh _ _ o => [o]
  | CConc _ _ _ _ _ _ o => [1%Z; Z.of_nat o]
  end.
Definition check_case (c : case) : bool := list_eqb Z.eqb (model_out c) (obs_out c).
Definition explain_case (c : case) := (model_out c, obs_out c).
