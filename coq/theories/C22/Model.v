(** C22 — model of [recalcDepth] (pkg/topology/kademlia/kademlia.go) with
    proposed/C22/fix-depth-skips-bin.patch and fix-depth-stale.patch applied,
    of the places where [Kad] recomputes its stored depth, and of the
    derivation of the saturation thresholds from [Options.BinMaxPeers].
    Definitions only.

    The peer set is the value-level [PSlice] of C21 (bins as lists, slice
    order); the two scans are the callbacks of the code run over
    [EachBinRev] / [EachBin] with their stop flag.  [unr a = true] means the
    filter drops [a] (peer not reachable).  Bin numbers are [uint8] in the
    code; [shallowestUnsaturated+1] of the repair is written with its
    wrap-around. *)
From Coq Require Import List NArith ZArith Arith Bool.
Import ListNotations.
Require Import Aurora.C21.Model Aurora.C21.Abs.

Definition u8n (n : nat) : nat := n mod 256.

Section Depth.
Context {A : Type}.
Variable unr : A -> bool.
Variables nn quick : nat.      (* nnLowWatermark, quickSaturationPeers *)

(** [for _, peer := range peers { stop, _, _ := pf(peer, bin) ... }] *)
Fixpoint walk_cells {S} (cb : S -> A -> nat -> S * bool) (l : list A) (bin : nat) (st : S) : S * bool :=
  match l with
  | [] => (st, false)
  | a :: t => let r := cb st a bin in
              if snd r then (fst r, true) else walk_cells cb t bin (fst r)
  end.

Fixpoint walk_bins {S} (cb : S -> A -> nat -> S * bool) (order : list nat) (bins : list (list A)) (st : S) : S :=
  match order with
  | [] => st
  | i :: rest => let r := walk_cells cb (nth i bins []) i st in
                 if snd r then fst r else walk_bins cb rest bins (fst r)
  end.

(** first scan (EachBinRev): state = (shallowestUnsaturated, binCount) *)
Definition cb1 (st : nat * nat) (a : A) (bin : nat) : (nat * nat) * bool :=
  if unr a then (st, false)
  else
    let sU := fst st in let c := snd st in
    if bin =? sU then ((sU, S c), false)
    else if (sU <? bin) && (c <? quick) then (st, true)
    else if u8n (sU + 1) <? bin then ((u8n (sU + 1), c), true)      (* fix-depth-skips-bin *)
    else ((bin, 1), false).

(** second scan (EachBin): state = (peersCtr, candidate) *)
Definition cb2 (st : nat * nat) (a : A) (bin : nat) : (nat * nat) * bool :=
  if unr a then (st, false)
  else
    let ctr := S (fst st) in
    if nn <=? ctr then ((ctr, bin), true) else ((ctr, snd st), false).

(** [PSlice.ShallowestEmpty] *)
Fixpoint shallowest_empty_from (bins : list (list A)) (i : nat) : nat * bool :=
  match bins with
  | [] => (0, true)
  | l :: t => match l with [] => (i, false) | _ :: _ => shallowest_empty_from t (S i) end
  end.

Definition recalc_depth (bins : list (list A)) (radius : nat) : nat :=
  if length (concat bins) <=? nn then 0
  else
    let se := shallowest_empty_from bins 0 in
    let sU0 := fst (walk_bins cb1 (seq 0 (length bins)) bins (0, 0)) in
    let sU := if negb (snd se) && (fst se <? sU0) then fst se else sU0 in
    let cand := snd (walk_bins cb2 (rev (seq 0 (length bins))) bins (0, 0)) in
    if cand <? sU then (if radius <? cand then radius else cand)
    else (if radius <? sU then radius else sU).
End Depth.

(** ---- Kad: where the stored depth is recomputed ---- *)

Inductive status := Unknown | Public | Private.
Definition status_eqb (a b : status) : bool :=
  match a, b with Unknown, Unknown | Public, Public | Private, Private => true | _, _ => false end.

(** the metrics collector's reachability column: last recorded status, absent = no entry *)
Fixpoint lookup (a : addr) (m : list (addr * status)) : option status :=
  match m with
  | [] => None
  | (k, v) :: t => if addr_eqb k a then Some v else lookup a t
  end.
Definition record (a : addr) (v : status) (m : list (addr * status)) : list (addr * status) := (a, v) :: m.

(** [Kad.peerUnreachable] *)
Definition peer_unreachable (m : list (addr * status)) (a : addr) : bool :=
  match lookup a m with
  | Some Public => false
  | _ => true
  end.

Record kad := Kad { conn : list (list addr); radius : nat; reach : list (addr * status); depth : nat }.

Inductive event :=
| EConnected (a : addr)                 (* Connected -> onConnected (bin not over-saturated) *)
| EOutbound (a : addr) (bootnode : bool)
| EDisconnected (a : addr)
| EReachable (a : addr) (v : status)
| ESetRadius (r : nat).

Section Kad.
Variable pof : addr -> option nat.
Variables nn quick : nat.

Definition depth_of (c : list (list addr)) (r : nat) (m : list (addr * status)) : nat :=
  recalc_depth (peer_unreachable m) nn quick c r.

Definition kad_init (maxBins maxpo : nat) : kad := Kad (repeat [] maxBins) maxpo [] 0.

Definition kad_step (k : kad) (e : event) : kad :=
  match e with
  | EConnected a | EOutbound a false =>
      let c := v_add1 pof (conn k) a in
      Kad c (radius k) (reach k) (depth_of c (radius k) (reach k))
  | EOutbound a true => k
  | EDisconnected a =>
      let c := v_remove pof (conn k) a in
      Kad c (radius k) (reach k) (depth_of c (radius k) (reach k))
  | EReachable a v =>
      let m := record a v (reach k) in
      Kad (conn k) (radius k) m (depth_of (conn k) (radius k) m)           (* fix-depth-stale *)
  | ESetRadius r =>
      if radius k =? r then k
      else Kad (conn k) r (reach k) (depth_of (conn k) r (reach k))
  end.

Definition kad_run (k : kad) (es : list event) : kad := fold_left kad_step es k.

(** the depth reported after every event *)
Fixpoint kad_trace (k : kad) (es : list event) : list nat :=
  match es with
  | [] => []
  | e :: t => let k' := kad_step k e in depth k' :: kad_trace k' t
  end.
End Kad.

(** ---- thresholds: [kademlia.New] ---- *)

(** (overSaturationPeers, saturationPeers, quickSaturationPeers) after
    [New] with [Options.BinMaxPeers = b], given the values before (package
    variables: a non-positive [b] leaves them as they are) *)
Definition thresholds_new (b : Z) (prev : Z * Z * Z) : Z * Z * Z :=
  if (0 <? b)%Z then
    let b := if (b <? 5)%Z then 5%Z else b in
    let over := if (Z.rem b 5 =? 0)%Z then b else (b - Z.rem b 5 + 5)%Z in
    (over, (Z.quot over 5 * 2)%Z, Z.quot over 5)
  else prev.
