(** C22 — proofs.  The two scans of [recalcDepth] are first reduced from the
    peer level (callbacks run over the slices) to the bin level (one step per
    bin, depending only on the number of reachable peers of the bin); the
    clauses of the property are then loop invariants of the bin-level scans. *)
From Coq Require Import List NArith ZArith Arith Bool Lia Permutation.
Import ListNotations.
Require Import Aurora.C21.Model Aurora.C21.Abs Aurora.C22.Model.

Section Depth.
Context {A : Type}.
Variable unr : A -> bool.
Variables nn quick : nat.

(** reachable peers of a slice *)
Definition rc (l : list A) : nat := length (filter (fun a => negb (unr a)) l).

Lemma rc_cons a l : rc (a :: l) = if unr a then rc l else S (rc l).
Proof. unfold rc. cbn. destruct (unr a); reflexivity. Qed.

Lemma rc_app l1 l2 : rc (l1 ++ l2) = rc l1 + rc l2.
Proof. unfold rc. now rewrite filter_app, app_length. Qed.

Lemma rc_perm l1 l2 : Permutation l1 l2 -> rc l1 = rc l2.
Proof.
  intros Hp. unfold rc. induction Hp; cbn; auto.
  - destruct (negb (unr x)); cbn; auto.
  - destruct (negb (unr x)), (negb (unr y)); cbn; auto.
  - congruence.
Qed.

(** ---- bin-level steps ---- *)

Definition b1 (st : nat * nat) (b r : nat) : (nat * nat) * bool :=
  if r =? 0 then (st, false)
  else
    let sU := fst st in let c := snd st in
    if b =? sU then ((sU, c + r), false)
    else if (sU <? b) && (c <? quick) then (st, true)
    else if u8n (sU + 1) <? b then ((u8n (sU + 1), c), true)
    else ((b, r), false).

Definition b2 (st : nat * nat) (b r : nat) : (nat * nat) * bool :=
  if (0 <? r) && (nn <=? fst st + r) then ((Nat.max nn (S (fst st)), b), true)
  else ((fst st + r, snd st), false).

Lemma walk_cells_cb1 : forall l b st,
  walk_cells (cb1 unr quick) l b st = b1 st b (rc l).
Proof.
  induction l as [|a l IH]; intros b [sU c]; cbn [walk_cells].
  - reflexivity.
  - rewrite rc_cons. remember (cb1 unr quick (sU, c) a b) as r eqn:Hr.
    unfold cb1 in Hr. cbn [fst snd] in Hr. destruct (unr a).
    + subst r. cbn [fst snd]. apply IH.
    + unfold b1 at 1. cbn [fst snd Nat.eqb].
      destruct (Nat.eqb_spec b sU) as [->|Hne].
      * subst r. cbn [fst snd]. rewrite IH. unfold b1. cbn [fst snd]. rewrite Nat.eqb_refl.
        destruct (Nat.eqb_spec (rc l) 0) as [->|_]; f_equal; f_equal; lia.
      * destruct ((sU <? b) && (c <? quick)); [subst r; reflexivity|].
        destruct (u8n (sU + 1) <? b); [subst r; reflexivity|].
        subst r. cbn [fst snd]. rewrite IH. unfold b1. cbn [fst snd]. rewrite Nat.eqb_refl.
        destruct (Nat.eqb_spec (rc l) 0) as [->|_]; reflexivity.
Qed.

Lemma walk_cells_cb2 : forall l b st,
  walk_cells (cb2 unr nn) l b st = b2 st b (rc l).
Proof.
  induction l as [|a l IH]; intros b [ctr cand]; cbn [walk_cells].
  - unfold b2, rc. cbn. now rewrite Nat.add_0_r.
  - rewrite rc_cons. remember (cb2 unr nn (ctr, cand) a b) as r eqn:Hr.
    unfold cb2 in Hr. cbn [fst snd] in Hr. destruct (unr a).
    + subst r. cbn [fst snd]. apply IH.
    + destruct (Nat.leb_spec nn (S ctr)) as [Hle|Hgt]; subst r; cbn [fst snd].
      * unfold b2. cbn [fst snd]. replace (0 <? S (rc l)) with true by (symmetry; apply Nat.ltb_lt; lia).
        replace (nn <=? ctr + S (rc l)) with true by (symmetry; apply Nat.leb_le; lia).
        cbn [andb]. f_equal. f_equal. lia.
      * rewrite IH. unfold b2. cbn [fst snd].
        replace (0 <? S (rc l)) with true by (symmetry; apply Nat.ltb_lt; lia). cbn [andb].
        replace (S ctr + rc l) with (ctr + S (rc l)) by lia.
        destruct (Nat.leb_spec nn (ctr + S (rc l))) as [H1|H1].
        -- replace (0 <? rc l) with true by (symmetry; apply Nat.ltb_lt; lia). cbn [andb].
           f_equal. f_equal. lia.
        -- rewrite andb_false_r. reflexivity.
Qed.

(** bin-level walk over per-bin reachable counts *)
Fixpoint walk_counts {S} (bf : S -> nat -> nat -> S * bool) (order : list nat) (rs : nat -> nat) (st : S) : S :=
  match order with
  | [] => st
  | i :: rest => let r := bf st i (rs i) in
                 if snd r then fst r else walk_counts bf rest rs (fst r)
  end.

Lemma walk_bins_counts {S} (cb : S -> A -> nat -> S * bool) (bf : S -> nat -> nat -> S * bool) bins :
  (forall l b st, walk_cells cb l b st = bf st b (rc l)) ->
  forall order st, walk_bins cb order bins st = walk_counts bf order (fun i => rc (nth i bins [])) st.
Proof.
  intros Hc. induction order as [|i rest IH]; intros st; cbn [walk_bins walk_counts]; [reflexivity|].
  rewrite Hc. destruct (snd (bf st i (rc (nth i bins [])))); [reflexivity|apply IH].
Qed.

(** ---- the depth as a function of per-bin (total, reachable) counts ---- *)

Fixpoint se_counts (ts : list nat) (i : nat) : nat * bool :=
  match ts with
  | [] => (0, true)
  | t :: rest => if t =? 0 then (i, false) else se_counts rest (S i)
  end.

Definition depth_counts (ts rsl : list nat) (radius : nat) : nat :=
  let n := length ts in
  let rs := fun i => nth i rsl 0 in
  if fold_right plus 0 ts <=? nn then 0
  else
    let se := se_counts ts 0 in
    let sU0 := fst (walk_counts b1 (seq 0 n) rs (0, 0)) in
    let sU := if negb (snd se) && (fst se <? sU0) then fst se else sU0 in
    let cand := snd (walk_counts b2 (rev (seq 0 n)) rs (0, 0)) in
    if cand <? sU then (if radius <? cand then radius else cand)
    else (if radius <? sU then radius else sU).

Lemma concat_length (bins : list (list A)) : length (concat bins) = fold_right plus 0 (map (@length A) bins).
Proof. induction bins as [|l t IH]; cbn; [reflexivity|]. now rewrite app_length, IH. Qed.

Lemma se_counts_spec (bins : list (list A)) : forall i,
  shallowest_empty_from bins i = se_counts (map (@length A) bins) i.
Proof.
  induction bins as [|l t IH]; intros i; cbn; [reflexivity|].
  destruct l; cbn; [reflexivity|apply IH].
Qed.

Lemma walk_counts_ext {S} (bf : S -> nat -> nat -> S * bool) order rs rs' st :
  (forall i, In i order -> rs i = rs' i) -> walk_counts bf order rs st = walk_counts bf order rs' st.
Proof.
  revert st; induction order as [|i rest IH]; intros st He; cbn [walk_counts]; [reflexivity|].
  rewrite (He i (or_introl eq_refl)). destruct (snd _); [reflexivity|]. apply IH. intros j Hj. apply He. now right.
Qed.

Theorem recalc_depth_counts bins radius :
  recalc_depth unr nn quick bins radius =
  depth_counts (map (@length A) bins) (map rc bins) radius.
Proof.
  unfold recalc_depth, depth_counts. rewrite concat_length, map_length, se_counts_spec.
  rewrite (walk_bins_counts _ _ bins walk_cells_cb1), (walk_bins_counts _ _ bins walk_cells_cb2).
  assert (He : forall i, rc (nth i bins []) = nth i (map rc bins) 0).
  { intros i. change 0 with (rc []). now rewrite map_nth. }
  rewrite (walk_counts_ext b1 _ _ (fun i => nth i (map rc bins) 0) _ (fun i _ => He i)).
  rewrite (walk_counts_ext b2 _ _ (fun i => nth i (map rc bins) 0) _ (fun i _ => He i)).
  reflexivity.
Qed.

(** ---- invariants of the bin-level scans ---- *)

Section Counts.
Variable rs : nat -> nat.

(** all bins below [sU] are quick-saturated *)
Definition Q (sU : nat) : Prop := forall i, i < sU -> quick <= rs i.

(** invariant before bin [k] *)
Definition J (st : nat * nat) (k : nat) : Prop :=
  fst st <= k /\ Q (fst st) /\ snd st = (if fst st <? k then rs (fst st) else 0).

Lemma scan1_inv : forall m k st, J st k -> k + m <= 256 ->
  Q (fst (walk_counts b1 (seq k m) rs st)).
Proof.
  induction m as [|m IH]; intros k [sU c] (Hle & HQ & Hc) Hb; cbn [seq walk_counts]; [exact HQ|].
  cbn [fst snd] in *. remember (b1 (sU, c) k (rs k)) as r eqn:Hr.
  unfold b1 in Hr. cbn [fst snd] in Hr.
  destruct (Nat.eqb_spec (rs k) 0) as [H0|Hn0].
  - subst r. cbn [fst snd]. apply IH; [|lia]. split; [|split]; cbn [fst snd]; [lia|exact HQ|].
    destruct (Nat.ltb_spec sU k) as [H1|H1].
    + replace (sU <? S k) with true by (symmetry; apply Nat.ltb_lt; lia). exact Hc.
    + assert (sU = k) by lia. subst sU. replace (k <? S k) with true by (symmetry; apply Nat.ltb_lt; lia). lia.
  - destruct (Nat.eqb_spec k sU) as [He|Hne].
    + subst r. subst sU. cbn [fst snd]. apply IH; [|lia]. split; [|split]; cbn [fst snd]; [lia|exact HQ|].
      rewrite Nat.ltb_irrefl in Hc. subst c.
      replace (k <? S k) with true by (symmetry; apply Nat.ltb_lt; lia). lia.
    + assert (Hlt : sU < k) by lia.
      replace (sU <? k) with true in * by (symmetry; apply Nat.ltb_lt; lia). cbn [andb] in Hr.
      destruct (Nat.ltb_spec c quick) as [Hcq|Hcq]; [subst r; cbn [fst snd]; exact HQ|].
      assert (Hu : u8n (sU + 1) = sU + 1) by (unfold u8n; apply Nat.mod_small; lia).
      rewrite Hu in Hr.
      assert (HQ' : Q (sU + 1)).
      { intros i Hi. destruct (Nat.eq_dec i sU) as [->|Hni]; [lia|]. apply HQ. lia. }
      destruct (Nat.ltb_spec (sU + 1) k) as [Hgap|Hadj]; [subst r; cbn [fst snd]; exact HQ'|].
      assert (k = sU + 1) by lia. subst k. subst r. cbn [fst snd].
      apply IH; [|lia]. split; [|split]; cbn [fst snd]; [lia|exact HQ'|].
      replace (sU + 1 <? S (sU + 1)) with true by (symmetry; apply Nat.ltb_lt; lia). reflexivity.
Qed.

(** sum of the reachable counts of bins [a, b) *)
Fixpoint sum_range (a len : nat) : nat :=
  match len with O => 0 | S l => rs a + sum_range (S a) l end.

Lemma sum_range_snoc a len : sum_range a (S len) = sum_range a len + rs (a + len).
Proof.
  revert a; induction len as [|l IH]; intros a; cbn [sum_range]; [rewrite !Nat.add_0_r; lia|].
  cbn [sum_range] in IH. rewrite IH. replace (S a + l) with (a + S l) by lia. lia.
Qed.

Lemma scan2_inv : forall n ctr,
  let r := walk_counts b2 (rev (seq 0 n)) rs (ctr, 0) in
  0 < snd r -> snd r < n /\ nn <= ctr + sum_range (snd r) (n - snd r).
Proof.
  induction n as [|n IH]; intros ctr; cbn zeta; [cbn; lia|].
  rewrite seq_S, rev_app_distr. cbn [rev app plus walk_counts].
  remember (b2 (ctr, 0) n (rs n)) as r eqn:Hr. unfold b2 in Hr. cbn [fst snd] in Hr.
  destruct ((0 <? rs n) && (nn <=? ctr + rs n)) eqn:E; subst r; cbn [fst snd].
  - intros Hpos. apply andb_true_iff in E as [_ E]. apply Nat.leb_le in E.
    split; [lia|]. replace (S n - n) with 1 by lia. cbn [sum_range]. lia.
  - intros Hpos. destruct (IH (ctr + rs n) Hpos) as [Hlt Hsum]. split; [lia|].
    replace (S n - snd (walk_counts b2 (rev (seq 0 n)) rs (ctr + rs n, 0)))
      with (S (n - snd (walk_counts b2 (rev (seq 0 n)) rs (ctr + rs n, 0)))) by lia.
    rewrite sum_range_snoc.
    replace (snd (walk_counts b2 (rev (seq 0 n)) rs (ctr + rs n, 0)) +
             (n - snd (walk_counts b2 (rev (seq 0 n)) rs (ctr + rs n, 0)))) with n by lia.
    lia.
Qed.
End Counts.

Lemma se_counts_first : forall ts k i, i < length ts -> nth i ts 1 = 0 ->
  snd (se_counts ts k) = false /\ fst (se_counts ts k) <= k + i.
Proof.
  induction ts as [|t ts IH]; intros k i Hi Hz; cbn in Hi; [lia|]. cbn [se_counts].
  destruct (Nat.eqb_spec t 0); cbn [fst snd]; [split; [reflexivity|lia]|].
  destruct i as [|i]; [cbn in Hz; lia|]. cbn in Hz.
  destruct (IH (S k) i ltac:(lia) Hz) as [H1 H2]. split; [exact H1|lia].
Qed.

(** ---- the clauses, on counts ---- *)
Section Clauses.
Variables (ts rsl : list nat) (radius : nat).
Let d := depth_counts ts rsl radius.
Let rs := fun i => nth i rsl 0.

Lemma dc_le_radius : d <= radius.
Proof.
  unfold d, depth_counts. destruct (_ <=? nn); [lia|]. cbv zeta.
  repeat match goal with |- context [if ?x <? ?y then _ else _] => destruct (Nat.ltb_spec x y) end; lia.
Qed.

Lemma dc_zero_small : fold_right plus 0 ts <= nn -> d = 0.
Proof. intros H. unfold d, depth_counts. apply Nat.leb_le in H. now rewrite H. Qed.

Lemma dc_bounds :
  d <= fst (walk_counts b1 (seq 0 (length ts)) rs (0, 0)) /\
  d <= snd (walk_counts b2 (rev (seq 0 (length ts))) rs (0, 0)) /\
  (snd (se_counts ts 0) = false -> d <= fst (se_counts ts 0)).
Proof.
  unfold d, depth_counts. fold rs. destruct (_ <=? nn); [repeat split; lia|]. cbv zeta.
  set (sU0 := fst (walk_counts b1 (seq 0 (length ts)) rs (0, 0))).
  set (cand := snd (walk_counts b2 (rev (seq 0 (length ts))) rs (0, 0))).
  set (se := se_counts ts 0).
  destruct (snd se); cbn [negb andb].
  - destruct (Nat.ltb_spec cand sU0); [destruct (Nat.ltb_spec radius cand)|destruct (Nat.ltb_spec radius sU0)];
      repeat split; intros; try discriminate; lia.
  - destruct (Nat.ltb_spec (fst se) sU0).
    + destruct (Nat.ltb_spec cand (fst se)); [destruct (Nat.ltb_spec radius cand)|destruct (Nat.ltb_spec radius (fst se))];
        repeat split; intros; lia.
    + destruct (Nat.ltb_spec cand sU0); [destruct (Nat.ltb_spec radius cand)|destruct (Nat.ltb_spec radius sU0)];
        repeat split; intros; lia.
Qed.

Lemma dc_shallower_saturated : length ts <= 256 -> forall i, i < d -> quick <= rs i.
Proof.
  intros Hn i Hi. destruct dc_bounds as (H1 & _ & _).
  apply (scan1_inv rs (length ts) 0 (0, 0)); [|lia|lia].
  repeat split; cbn; [lia|intros j Hj; lia].
Qed.

Lemma dc_three_beyond : 0 < d -> d < length ts /\ nn <= sum_range rs d (length ts - d).
Proof.
  intros Hpos. destruct dc_bounds as (_ & H2 & _).
  pose proof (scan2_inv rs (length ts) 0) as Hs. cbv zeta in Hs.
  set (cand := snd (walk_counts b2 (rev (seq 0 (length ts))) rs (0, 0))) in *.
  destruct (Hs ltac:(lia)) as [Hlt Hsum]. split; [lia|].
  (* the range [d, n) contains [cand, n) *)
  assert (Hmono : forall a b len, a <= b -> b <= a + len ->
            sum_range rs b (a + len - b) <= sum_range rs a len).
  { intros a b len. revert a b. induction len as [|l IH]; intros a b Hab Hb.
    - replace (a + 0 - b) with 0 by lia. cbn. lia.
    - destruct (Nat.eq_dec a b) as [->|Hne].
      + replace (b + S l - b) with (S l) by lia. lia.
      + cbn [sum_range]. specialize (IH (S a) b ltac:(lia) ltac:(lia)).
        replace (S a + l - b) with (a + S l - b) in IH by lia. lia. }
  specialize (Hmono d cand (length ts - d) ltac:(lia) ltac:(lia)).
  replace (d + (length ts - d) - cand) with (length ts - cand) in Hmono by lia. lia.
Qed.

Lemma dc_le_empty i : i < length ts -> nth i ts 1 = 0 -> d <= i.
Proof.
  intros Hi Hz. destruct (se_counts_first ts 0 i Hi Hz) as [H1 H2].
  destruct dc_bounds as (_ & _ & H3). specialize (H3 H1). lia.
Qed.
End Clauses.

(** ---- the clauses, on the peer-level model ---- *)

Lemma skipn_nth_cons {B} (l : list B) : forall k d, k < length l -> skipn k l = nth k l d :: skipn (S k) l.
Proof. induction l as [|x l IH]; intros [|k] d H; cbn in *; try lia; auto. apply IH; lia. Qed.

Lemma sum_range_rc (bins : list (list A)) : forall k,
  sum_range (fun i => nth i (map rc bins) 0) k (length bins - k) = rc (concat (skipn k bins)).
Proof.
  intros k. remember (length bins - k) as len eqn:Hl. revert k Hl.
  induction len as [|len IH]; intros k Hl.
  - cbn. rewrite skipn_all2 by lia. reflexivity.
  - cbn [sum_range]. rewrite (IH (S k)) by lia.
    assert (Hk : k < length bins) by lia.
    pose proof (skipn_nth_cons bins k [] Hk) as Hs.
    rewrite Hs. cbn [concat]. rewrite rc_app. f_equal.
    change 0 with (rc []). now rewrite map_nth.
Qed.

Theorem rd_le_radius bins radius : recalc_depth unr nn quick bins radius <= radius.
Proof. rewrite recalc_depth_counts. apply dc_le_radius. Qed.

Theorem rd_zero_small bins radius : length (concat bins) <= nn -> recalc_depth unr nn quick bins radius = 0.
Proof. intros H. rewrite recalc_depth_counts. apply dc_zero_small. now rewrite <- concat_length. Qed.

Theorem rd_three_beyond bins radius :
  0 < recalc_depth unr nn quick bins radius ->
  nn <= rc (concat (skipn (recalc_depth unr nn quick bins radius) bins)).
Proof.
  rewrite recalc_depth_counts. intros Hpos.
  destruct (dc_three_beyond _ _ _ Hpos) as [_ Hs]. rewrite map_length in Hs.
  now rewrite sum_range_rc in Hs.
Qed.

Theorem rd_le_empty bins radius i :
  i < length bins -> nth i bins [] = [] -> recalc_depth unr nn quick bins radius <= i.
Proof.
  intros Hi Hz. rewrite recalc_depth_counts. apply dc_le_empty; [now rewrite map_length|].
  change 1 with (length [@nilA]). unfold nilA.
  assert (H : nth i (map (@length A) bins) (length (@nil A)) = 0) by (rewrite map_nth, Hz; reflexivity).
  rewrite <- H. apply nth_indep. now rewrite map_length.
Qed.

Theorem rd_shallower_saturated bins radius :
  length bins <= 256 ->
  forall i, i < recalc_depth unr nn quick bins radius -> quick <= rc (nth i bins []).
Proof.
  intros Hn i Hi. rewrite recalc_depth_counts in Hi.
  pose proof (dc_shallower_saturated _ _ _ ltac:(rewrite map_length; exact Hn) i Hi) as H.
  cbv beta in H.
  replace (nth i (map rc bins) 0) with (rc (nth i bins [])) in H
    by (change 0 with (rc []); now rewrite map_nth).
  exact H.
Qed.

(** the depth depends only on the multiset of each bin *)
Theorem rd_order_independent bins bins' radius :
  Forall2 (@Permutation A) bins bins' ->
  recalc_depth unr nn quick bins radius = recalc_depth unr nn quick bins' radius.
Proof.
  intros Hp. rewrite !recalc_depth_counts. f_equal.
  - induction Hp; cbn; [reflexivity|]. f_equal; [now apply Permutation_length|assumption].
  - induction Hp; cbn; [reflexivity|]. f_equal; [now apply rc_perm|assumption].
Qed.

End Depth.

(** ---- Kad: the stored depth is the depth of the current set ---- *)
Section KadInv.
Variable pof : addr -> option nat.
Variables nn quick : nat.

Definition kad_ok (k : kad) : Prop := depth k = depth_of nn quick (conn k) (radius k) (reach k).

Lemma kad_step_ok k e : kad_ok k -> kad_ok (kad_step pof nn quick k e).
Proof.
  intros Hk. destruct e as [a|a [|]|a|a v|r]; cbn [kad_step]; try reflexivity; try exact Hk.
  destruct (Nat.eqb_spec (radius k) r); [exact Hk|reflexivity].
Qed.

Lemma kad_run_ok es : forall k, kad_ok k -> kad_ok (kad_run pof nn quick k es).
Proof.
  induction es as [|e t IH]; intros k Hk; cbn [kad_run fold_left]; [exact Hk|].
  apply IH. now apply kad_step_ok.
Qed.

Lemma kad_init_ok maxBins maxpo : kad_ok (kad_init maxBins maxpo).
Proof.
  unfold kad_ok, kad_init, depth_of. cbn [depth conn radius reach].
  symmetry. apply rd_zero_small.
  assert (H : concat (repeat (@nil addr) maxBins) = []) by (induction maxBins; cbn; auto).
  rewrite H. cbn. lia.
Qed.
End KadInv.

(** ---- thresholds ---- *)
Lemma thresholds_quick_pos b prev :
  (1 <= snd prev)%Z -> (1 <= snd (thresholds_new b prev))%Z /\
  ((0 < b)%Z -> let over := fst (fst (thresholds_new b prev)) in
               (Z.rem over 5 = 0 /\ Z.max 5 b <= over < Z.max 5 b + 5 /\
                snd (thresholds_new b prev) = Z.quot over 5 /\
                snd (fst (thresholds_new b prev)) = 2 * Z.quot over 5)%Z).
Proof.
  intros Hp. unfold thresholds_new. destruct (Z.ltb_spec 0 b) as [Hb|Hb]; [|split; [exact Hp|lia]].
  cbn [fst snd].
  set (b' := if (b <? 5)%Z then 5%Z else b).
  assert (Hb' : (b' = Z.max 5 b)%Z) by (unfold b'; destruct (Z.ltb_spec b 5); lia).
  assert (H5 : (5 <= b')%Z) by lia.
  pose proof (Z.rem_bound_pos b' 5 ltac:(lia) ltac:(lia)) as Hr.
  pose proof (Z.quot_rem' b' 5) as Hq.
  destruct (Z.eqb_spec (Z.rem b' 5) 0) as [H0|Hn0].
  - split.
    + apply Z.quot_le_lower_bound; lia.
    + intros _. cbv zeta. rewrite <- Hb'. repeat split; try lia.
  - set (over := (b' - Z.rem b' 5 + 5)%Z).
    assert (Ho : (over = 5 * (Z.quot b' 5 + 1))%Z) by (unfold over; lia).
    assert (Hrem : Z.rem over 5 = 0%Z).
    { rewrite Ho. rewrite Z.mul_comm. apply Z.rem_mul. lia. }
    split.
    + apply Z.quot_le_lower_bound; lia.
    + intros _. cbv zeta. rewrite <- Hb'. repeat split; try lia.
Qed.

(** ---- every reachable Kad state: the stored depth has all the clauses ---- *)
Require Import Aurora.C21.Heap.

Section KadClauses.
Variable pof : addr -> option nat.
Variables nn quick maxBins maxpo : nat.

Lemma kad_conn_length es : forall k, length (conn k) = maxBins ->
  length (conn (kad_run pof nn quick k es)) = maxBins.
Proof.
  induction es as [|e t IH]; intros k Hl; cbn [kad_run fold_left]; [exact Hl|].
  apply IH. destruct e as [a|a [|]|a|a v|r]; cbn [kad_step conn]; auto.
  - unfold v_add1. destruct (pof a); auto. destruct (mem _ _); auto. now rewrite upd_nth_length.
  - unfold v_add1. destruct (pof a); auto. destruct (mem _ _); auto. now rewrite upd_nth_length.
  - unfold v_remove. destruct (pof a); auto. destruct (index_of _ _ _); auto. now rewrite upd_nth_length.
  - destruct (radius k =? r); auto.
Qed.

Definition reachable_in (m : list (addr * status)) (l : list addr) : nat :=
  length (filter (fun a => negb (peer_unreachable m a)) l).

Lemma kad_clauses es : maxBins <= 256 ->
  let k := kad_run pof nn quick (kad_init maxBins maxpo) es in
  depth k = depth_of nn quick (conn k) (radius k) (reach k) /\
  depth k <= radius k /\
  (length (concat (conn k)) <= nn -> depth k = 0) /\
  (0 < depth k -> nn <= reachable_in (reach k) (concat (skipn (depth k) (conn k)))) /\
  (forall i, i < maxBins -> nth i (conn k) [] = [] -> depth k <= i) /\
  (forall i, i < depth k -> quick <= reachable_in (reach k) (nth i (conn k) [])).
Proof.
  intros H256 k.
  assert (Hok : kad_ok nn quick k) by (apply kad_run_ok, kad_init_ok).
  assert (Hl : length (conn k) = maxBins) by (apply kad_conn_length; cbn; apply repeat_length).
  unfold kad_ok, depth_of in Hok. split; [exact Hok|]. rewrite Hok.
  split; [apply rd_le_radius|]. split; [apply rd_zero_small|].
  split; [apply rd_three_beyond|]. split.
  - intros i Hi. apply rd_le_empty. now rewrite Hl.
  - apply rd_shallower_saturated. now rewrite Hl.
Qed.
End KadClauses.
