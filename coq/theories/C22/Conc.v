(** C22 — the depth writers of [Kad] as concurrent threads.

    Every writer at HEAD ([onConnected], [Outbound], [Disconnected],
    [DisconnectForce], [Reachable]) first changes the peer set / the
    reachability records (under the PSlice's own lock or the collector's
    sync.Map — NOT under [depthMu]), then does
    [depthMu.Lock(); depth = recalcDepth(current ...); depthMu.Unlock()].
    [SetRadius] does everything (compare, write radius, recompute) under [depthMu].

    Atomic actions of a call: (a) the set/reachability change; (b) acquiring
    [depthMu]; (c) store + unlock.  [recalcDepth] runs between (b) and (c) and
    reads the PSlice in several separately locked steps, so another thread's
    (a) may fall in the middle of it: this is over-approximated by the
    [gdirty] flag — if any (a) happened while the lock was held, the stored
    value is ARBITRARY (the [hv] component of the schedule entry).

    [variant = true] is the seeded change seeded/C22-3: [Reachable] computes the
    depth BEFORE taking the lock and only stores under it. *)
From Coq Require Import List NArith Arith Bool Lia.
Import ListNotations.
Require Import Aurora.C21.Model Aurora.C21.Abs Aurora.C22.Model Aurora.C22.Proofs.

Inductive phase := PIdle | PWait | PCS | PHave (v : nat).

Record gstate := G { gk : kad; glock : option nat; gdirty : bool; gth : nat -> phase * list event }.

Definition upd_th (ths : nat -> phase * list event) (i : nat) (t : phase * list event) :=
  fun j => if j =? i then t else ths j.

Definition is_reach (e : event) : bool := match e with EReachable _ _ => true | _ => false end.

Section Conc.
Variable pof : addr -> option nat.
Variables nn quick : nat.
Variable variant : bool.

Definition fresh (k : kad) : nat := depth_of nn quick (conn k) (radius k) (reach k).
Definition set_depth (k : kad) (d : nat) : kad := Kad (conn k) (radius k) (reach k) d.

(** action (a): what the call changes before it touches [depthMu] *)
Definition pre_update (k : kad) (e : event) : kad :=
  match e with
  | EConnected a | EOutbound a false => Kad (v_add1 pof (conn k) a) (radius k) (reach k) (depth k)
  | EDisconnected a => Kad (v_remove pof (conn k) a) (radius k) (reach k) (depth k)
  | EReachable a v => Kad (conn k) (radius k) (record a v (reach k)) (depth k)
  | _ => k
  end.

(** one atomic action of thread [i]; a thread that needs the lock while it is
    held does nothing (it is blocked) *)
Definition gstep (g : gstate) (i hv : nat) : gstate :=
  let p := fst (gth g i) in let td := snd (gth g i) in
  match p with
  | PIdle =>
      match td with
      | [] => g
      | e :: rest =>
          match e with
          | EOutbound _ true => G (gk g) (glock g) (gdirty g) (upd_th (gth g) i (PIdle, rest))
          | ESetRadius r =>
              match glock g with
              | Some _ => g
              | None =>
                  if radius (gk g) =? r then G (gk g) None (gdirty g) (upd_th (gth g) i (PIdle, rest))
                  else G (Kad (conn (gk g)) r (reach (gk g)) (depth (gk g))) (Some i) false
                         (upd_th (gth g) i (PCS, td))
              end
          | _ =>
              let k' := pre_update (gk g) e in
              if variant && is_reach e
              then G k' (glock g) true (upd_th (gth g) i (PHave (fresh k'), td))
              else G k' (glock g) true (upd_th (gth g) i (PWait, td))
          end
      end
  | PWait =>
      match glock g with
      | None => G (gk g) (Some i) false (upd_th (gth g) i (PCS, td))
      | Some _ => g
      end
  | PHave v =>
      match glock g with
      | None => G (set_depth (gk g) v) None (gdirty g) (upd_th (gth g) i (PIdle, tl td))
      | Some _ => g
      end
  | PCS =>
      G (set_depth (gk g) (if gdirty g then hv else fresh (gk g))) None false
        (upd_th (gth g) i (PIdle, tl td))
  end.

Definition grun (g : gstate) (sched : list (nat * nat)) : gstate :=
  fold_left (fun g s => gstep g (fst s) (snd s)) sched g.

Definition ginit (k0 : kad) (progs : list (list event)) : gstate :=
  G k0 None false (fun i => (PIdle, nth i progs [])).

Definition waiting (p : phase) : bool := match p with PWait | PHave _ => true | _ => false end.
(** every call that started has returned *)
Definition quiescent (g : gstate) : Prop := glock g = None /\ forall i, waiting (fst (gth g i)) = false.
End Conc.

(** ---- all schedules (code at HEAD: [variant = false]) ---- *)
Section Inv.
Variable pof : addr -> option nat.
Variables nn quick : nat.

Definition nowait (g : gstate) : Prop := forall i, waiting (fst (gth g i)) = false.
Definition gok (g : gstate) : Prop := depth (gk g) = fresh nn quick (gk g).

Definition GInv (g : gstate) : Prop :=
  (forall i v, fst (gth g i) <> PHave v) /\
  (forall i, fst (gth g i) = PCS <-> glock g = Some i) /\
  (glock g = None -> nowait g -> gok g) /\
  (glock g <> None -> nowait g -> gdirty g = false).

Lemma upd_th_same ths i t : upd_th ths i t i = t.
Proof. unfold upd_th. now rewrite Nat.eqb_refl. Qed.
Lemma upd_th_other ths i j t : j <> i -> upd_th ths i t j = ths j.
Proof. intros H. unfold upd_th. destruct (Nat.eqb_spec j i); [contradiction|reflexivity]. Qed.

(** the thread list changes only at [i], from a non-waiting to a non-waiting phase *)
Lemma nowait_back g (ths' : nat -> phase * list event) i :
  waiting (fst (gth g i)) = false -> (forall j, j <> i -> ths' j = gth g j) ->
  (forall j, waiting (fst (ths' j)) = false) -> nowait g.
Proof.
  intros Hi Hoth Hn j. destruct (Nat.eq_dec j i) as [->|Hne]; [exact Hi|]. rewrite <- Hoth by exact Hne. apply Hn.
Qed.

Lemma nohave_upd g i t :
  (forall j v, fst (gth g j) <> PHave v) -> (forall v, fst t <> PHave v) ->
  forall j v, fst (upd_th (gth g) i t j) <> PHave v.
Proof.
  intros H Ht j v. destruct (Nat.eq_dec j i) as [->|Hne]; [rewrite upd_th_same; apply Ht|].
  rewrite upd_th_other by exact Hne. apply H.
Qed.

Lemma gstep_inv g i hv : GInv g -> GInv (gstep pof nn quick false g i hv).
Proof.
  intros Hg. pose proof Hg as (H0 & HL & HI1 & HI2). unfold gstep. cbn [andb].
  destruct (gth g i) as [p td] eqn:Hth. cbn [fst snd].
  assert (Hpi : fst (gth g i) = p) by now rewrite Hth.
  destruct p as [| | |v]; [| | |exfalso; eapply H0; eauto].
  - (* idle *)
    destruct td as [|e rest]; [exact Hg|].
    assert (Hnl : glock g <> Some i).
    { intros Hq. apply HL in Hq. congruence. }
    assert (Hdrop : GInv (G (gk g) (glock g) (gdirty g) (upd_th (gth g) i (PIdle, rest)))).
    { split; [|split; [|split]]; cbn [gth glock gk gdirty].
      - apply nohave_upd; [exact H0|discriminate].
      - intros j. destruct (Nat.eq_dec j i) as [->|Hne].
        + rewrite upd_th_same. cbn. split; [discriminate|]. intros Hq. contradiction.
        + rewrite upd_th_other by exact Hne. apply HL.
      - intros Hl Hn. apply HI1; auto. eapply (nowait_back g _ i); [now rewrite Hpi| |exact Hn].
        intros j Hne. now apply upd_th_other.
      - intros Hl Hn. apply HI2; auto. eapply (nowait_back g _ i); [now rewrite Hpi| |exact Hn].
        intros j Hne. now apply upd_th_other. }
    assert (Hpre : forall k', GInv (G k' (glock g) true (upd_th (gth g) i (PWait, e :: rest)))).
    { intros k'. split; [|split; [|split]]; cbn [gth glock gk gdirty].
      - apply nohave_upd; [exact H0|discriminate].
      - intros j. destruct (Nat.eq_dec j i) as [->|Hne].
        + rewrite upd_th_same. cbn. split; [discriminate|]. intros Hq. contradiction.
        + rewrite upd_th_other by exact Hne. apply HL.
      - intros _ Hn. specialize (Hn i). cbn [gth] in Hn. rewrite upd_th_same in Hn. discriminate.
      - intros _ Hn. specialize (Hn i). cbn [gth] in Hn. rewrite upd_th_same in Hn. discriminate. }
    destruct e as [a|a [|]|a|a v|r]; try apply Hpre; [exact Hdrop|].
    destruct (glock g) as [h|] eqn:Hl; [exact Hg|].
    destruct (radius (gk g) =? r); [exact Hdrop|].
    split; [|split; [|split]]; cbn [gth glock gk gdirty].
    + apply nohave_upd; [exact H0|discriminate].
    + intros j. destruct (Nat.eq_dec j i) as [->|Hne].
      * rewrite upd_th_same. cbn. tauto.
      * rewrite upd_th_other by exact Hne. rewrite HL. split; [discriminate|]. intros Hq; inversion Hq; congruence.
    + discriminate.
    + reflexivity.
  - (* waiting for the lock *)
    destruct (glock g) as [h|] eqn:Hl; [exact Hg|].
    split; [|split; [|split]]; cbn [gth glock gk gdirty].
    + apply nohave_upd; [exact H0|discriminate].
    + intros j. destruct (Nat.eq_dec j i) as [->|Hne].
      * rewrite upd_th_same. cbn. tauto.
      * rewrite upd_th_other by exact Hne. rewrite HL. split; [discriminate|]. intros Hq; inversion Hq; congruence.
    + discriminate.
    + reflexivity.
  - (* in the critical section: store + unlock *)
    assert (Hli : glock g = Some i) by now apply HL.
    split; [|split; [|split]]; cbn [gth glock gk gdirty].
    + apply nohave_upd; [exact H0|discriminate].
    + intros j. destruct (Nat.eq_dec j i) as [->|Hne].
      * rewrite upd_th_same. cbn. split; discriminate.
      * rewrite upd_th_other by exact Hne. rewrite HL, Hli. split; [intros Hq; inversion Hq; congruence|discriminate].
    + intros _ Hn.
      assert (Hnw : nowait g).
      { eapply (nowait_back g _ i); [now rewrite Hpi| |exact Hn]. intros j Hne. now apply upd_th_other. }
      rewrite (HI2 ltac:(congruence) Hnw). reflexivity.
    + intros Hq. contradiction.
Qed.

Lemma grun_inv sched : forall g, GInv g -> GInv (grun pof nn quick false g sched).
Proof.
  induction sched as [|s t IH]; intros g Hg; cbn [grun fold_left]; [exact Hg|].
  apply IH. now apply gstep_inv.
Qed.

Lemma ginit_inv k0 progs : kad_ok nn quick k0 -> GInv (ginit k0 progs).
Proof.
  intros Hk. split; [|split; [|split]]; cbn.
  - discriminate.
  - intros i. split; discriminate.
  - intros _ _. exact Hk.
  - intros Hq. contradiction.
Qed.

(** for every set of thread programs and EVERY schedule: whenever all started
    calls have returned, the stored depth is the depth of the current set *)
Theorem all_schedules k0 progs sched :
  kad_ok nn quick k0 ->
  let g := grun pof nn quick false (ginit k0 progs) sched in
  quiescent g -> depth (gk g) = depth_of nn quick (conn (gk g)) (radius (gk g)) (reach (gk g)).
Proof.
  intros Hk g [Hl Hn]. destruct (grun_inv sched _ (ginit_inv k0 progs Hk)) as (_ & _ & HI1 & _).
  now apply HI1.
Qed.
End Inv.

(** ---- seeded/C22-3 ([variant = true]): compute outside the lock ---- *)
Definition wit_pof : addr -> option nat := po_of 31 [0; 0; 0; 0]%N 32.
Definition wp (b : N) : addr := [b; 0; 0; 0]%N.
(** four public peers in bins 0..3, quick = 1: depth 1 *)
Definition wit_k0 : kad :=
  kad_run wit_pof 3 1 (kad_init 32 31)
    [EConnected (wp 128); EReachable (wp 128) Public; EConnected (wp 64); EReachable (wp 64) Public;
     EConnected (wp 32); EReachable (wp 32) Public; EConnected (wp 16); EReachable (wp 16) Public].
(** thread 0: a reachability update; thread 1: one disconnect *)
Definition wit_progs : list (list event) := [[EReachable (wp 128) Public]; [EDisconnected (wp 16)]].
(** thread 0 records and computes (depth 1 of four peers), thread 1 runs its
    whole call (three peers left: depth 0), thread 0 stores its stale value *)
Definition wit_sched : list (nat * nat) := [(0, 0); (1, 0); (1, 0); (1, 0); (0, 0)].

Lemma outside_lock_witness :
  kad_ok 3 1 wit_k0 /\
  (let g := grun wit_pof 3 1 true (ginit wit_k0 wit_progs) wit_sched in
   quiescent g /\ depth (gk g) = 1 /\ fresh 3 1 (gk g) = 0) /\
  (let g := grun wit_pof 3 1 false (ginit wit_k0 wit_progs) (wit_sched ++ [(0, 0); (0, 0)]) in
   quiescent g /\ depth (gk g) = 0).
Proof.
  split; [apply kad_run_ok, kad_init_ok|]. split.
  - cbv zeta. split; [|split; vm_compute; reflexivity].
    split; [vm_compute; reflexivity|]. intros [|[|[|i]]]; vm_compute; try reflexivity; destruct i; reflexivity.
  - cbv zeta. split; [|vm_compute; reflexivity].
    split; [vm_compute; reflexivity|]. intros [|[|[|i]]]; vm_compute; try reflexivity; destruct i; reflexivity.
Qed.

Theorem outside_lock_refuted :
  exists pof nn quick k0 progs sched,
    kad_ok nn quick k0 /\
    let g := grun pof nn quick true (ginit k0 progs) sched in
    quiescent g /\ depth (gk g) <> depth_of nn quick (conn (gk g)) (radius (gk g)) (reach (gk g)).
Proof.
  exists wit_pof, 3, 1, wit_k0, wit_progs, wit_sched.
  destruct outside_lock_witness as (Hk & (Hq & Hd & Hf) & _). split; [exact Hk|]. cbv zeta.
  split; [exact Hq|]. unfold fresh in Hf. rewrite Hd, Hf. discriminate.
Qed.

(** computable form of [quiescent] + "every call has run", for the correspondence *)
Definition all_done (g : gstate) (n : nat) : bool :=
  match glock g with Some _ => false | None => true end &&
  forallb (fun i => match gth g i with (PIdle, []) => true | _ => false end) (seq 0 n).
