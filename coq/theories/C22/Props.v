(** C22 — property theorems only.

    [recalc_depth unr nn quick bins radius] is the transcription of
    [recalcDepth(peers, radius, filter)]: [bins] the connected peers by bin (any
    element type, slice order), [unr a = true] when the filter drops [a] (not
    reachable), [nn = nnLowWatermark] (3 in the code), [quick =
    quickSaturationPeers] (a package variable [kademlia.New] rewrites; the
    theorems hold for every value).  [rc unr l] = number of reachable peers of [l]. *)
From Coq Require Import List NArith ZArith Arith Bool Permutation.
Import ListNotations.
Require Import Aurora.Consts Aurora.C21.Model Aurora.C21.Abs Aurora.C22.Model Aurora.C22.Proofs Aurora.C22.Conc.

(** "never exceeds the radius" *)
Theorem C22_le_radius : forall (A : Type) (unr : A -> bool) nn quick bins radius,
  recalc_depth unr nn quick bins radius <= radius.
Proof. exact @rd_le_radius. Qed.
Print Assumptions C22_le_radius.

(** "is zero when at most three peers are connected" (nn = 3) *)
Theorem C22_zero_small : forall (A : Type) (unr : A -> bool) nn quick bins radius,
  length (concat bins) <= nn -> recalc_depth unr nn quick bins radius = 0.
Proof. exact @rd_zero_small. Qed.
Print Assumptions C22_zero_small.

(** "when positive leaves at least three reachable peers at or beyond it" *)
Theorem C22_three_reachable_beyond : forall (A : Type) (unr : A -> bool) nn quick bins radius,
  0 < recalc_depth unr nn quick bins radius ->
  nn <= rc unr (concat (skipn (recalc_depth unr nn quick bins radius) bins)).
Proof. exact @rd_three_beyond. Qed.
Print Assumptions C22_three_reachable_beyond.

(** "never exceeds the shallowest empty bin" *)
Theorem C22_le_shallowest_empty : forall (A : Type) (unr : A -> bool) nn quick bins radius i,
  i < length bins -> nth i bins [] = [] -> recalc_depth unr nn quick bins radius <= i.
Proof. exact @rd_le_empty. Qed.
Print Assumptions C22_le_shallowest_empty.

(** "every shallower bin holds at least the quick-saturation number of
    reachable peers" — full for the repaired code (fix-depth-skips-bin) *)
Theorem C22_shallower_saturated : forall (A : Type) (unr : A -> bool) nn quick bins radius,
  length bins <= 256 ->
  forall i, i < recalc_depth unr nn quick bins radius -> quick <= rc unr (nth i bins []).
Proof. exact @rd_shallower_saturated. Qed.
Print Assumptions C22_shallower_saturated.

(** "depends only on the current set, not on the order of connections":
    the slice order inside every bin is irrelevant *)
Theorem C22_order_independent : forall (A : Type) (unr : A -> bool) nn quick bins bins' radius,
  Forall2 (@Permutation A) bins bins' ->
  recalc_depth unr nn quick bins radius = recalc_depth unr nn quick bins' radius.
Proof. exact @rd_order_independent. Qed.
Print Assumptions C22_order_independent.

(** in every state a Kad reaches by Connected / Outbound / Disconnected /
    Reachable / SetRadius events (repaired code: fix-depth-stale), the STORED
    depth is the depth of the current peer set, radius and reachability, and
    therefore has every clause above *)
Theorem C22_stored_depth_is_recalc : forall pof nn quick maxBins maxpo es, maxBins <= 256 ->
  let k := kad_run pof nn quick (kad_init maxBins maxpo) es in
  depth k = depth_of nn quick (conn k) (radius k) (reach k) /\
  depth k <= radius k /\
  (length (concat (conn k)) <= nn -> depth k = 0) /\
  (0 < depth k -> nn <= reachable_in (reach k) (concat (skipn (depth k) (conn k)))) /\
  (forall i, i < maxBins -> nth i (conn k) [] = [] -> depth k <= i) /\
  (forall i, i < depth k -> quick <= reachable_in (reach k) (nth i (conn k) [])).
Proof. exact kad_clauses. Qed.
Print Assumptions C22_stored_depth_is_recalc.

(** the same over ALL INTERLEAVINGS of concurrent depth writers (Conc.v: each
    call = set/reachability change, then [depthMu.Lock], then recompute + store
    + unlock; a recomputation overlapped by another thread's set change stores
    an arbitrary value): for every set of thread programs and every schedule,
    whenever every started call has returned, the stored depth is the depth of
    the current peer set, radius and reachability *)
Theorem C22_stored_depth_all_schedules : forall pof nn quick k0 progs sched,
  kad_ok nn quick k0 ->
  let g := grun pof nn quick false (ginit k0 progs) sched in
  quiescent g -> depth (gk g) = depth_of nn quick (conn (gk g)) (radius (gk g)) (reach (gk g)).
Proof. exact all_schedules. Qed.
Print Assumptions C22_stored_depth_all_schedules.

(** the variant in which [Reachable] computes the depth BEFORE taking
    [depthMu] and only stores it under the lock (seeded/C22-3) is refuted: a
    schedule exists after which everything has returned and the stored depth
    is not the depth of the current set *)
Theorem C22_depth_outside_lock_refuted :
  exists pof nn quick k0 progs sched,
    kad_ok nn quick k0 /\
    let g := grun pof nn quick true (ginit k0 progs) sched in
    quiescent g /\ depth (gk g) <> depth_of nn quick (conn (gk g)) (radius (gk g)) (reach (gk g)).
Proof. exact outside_lock_refuted. Qed.
Print Assumptions C22_depth_outside_lock_refuted.

(** configurations: the thresholds [New] derives from [Options.BinMaxPeers]
    (over = BinMaxPeers, at least 5, rounded up to a multiple of 5;
    saturation = 2*over/5; quick = over/5 >= 1) *)
Theorem C22_thresholds : forall b prev, (1 <= snd prev)%Z ->
  (1 <= snd (thresholds_new b prev))%Z /\
  ((0 < b)%Z -> let over := fst (fst (thresholds_new b prev)) in
     (Z.rem over 5 = 0 /\ Z.max 5 b <= over < Z.max 5 b + 5 /\
      snd (thresholds_new b prev) = Z.quot over 5 /\
      snd (fst (thresholds_new b prev)) = 2 * Z.quot over 5)%Z).
Proof. exact thresholds_quick_pos. Qed.
Print Assumptions C22_thresholds.

(** non-vacuity: the former witness of F-depth-skips-bin (bins 0: 4 reachable,
    1: 2 unreachable, 2: 4 reachable; quick = 4) now has depth 1; a saturated
    prefix reaches a positive depth limited by the third-deepest reachable
    peer; defaults give quick >= 1 *)
Example C22_hyps_satisfiable :
  let f := false in let t := true in
  recalc_depth (fun u : bool => u) 3 4 [[f;f;f;f]; [t;t]; [f;f;f;f]] 31 = 1 /\
  recalc_depth (fun u : bool => u) 3 1 [[f]; [f;t]; [f]; [f;f]; [f]; []] 31 = 3 /\
  0 < recalc_depth (fun u : bool => u) 3 1 [[f]; [f;t]; [f]; [f;f]; [f]; []] 31 /\
  thresholds_new 23 (20, 8, 4)%Z = (25, 10, 5)%Z /\ thresholds_new 0 (20, 8, 4)%Z = (20, 8, 4)%Z.
Proof. vm_compute. repeat split; try reflexivity. repeat constructor. Qed.
