(** C22 — property theorems only. *)
From Coq Require Import List NArith Arith Bool.
Import ListNotations.
Require Import Aurora.Consts Aurora.C22.Model Aurora.C22.Proofs.

Theorem C22_zero_small : forall (A : Type) (unr : A -> bool) nn quick bins radius,
  length (concat bins) <= nn -> recalc_depth unr nn quick bins radius = 0.
Proof. exact @depth_small. Qed.
Print Assumptions C22_zero_small.
