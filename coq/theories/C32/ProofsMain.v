(** C32 — the statements used by Props.v, assembled from the invariants. *)
From Coq Require Import List NArith ZArith Bool Lia ZifyBool.
Import ListNotations.
Require Import Aurora.C32.Model Aurora.C32.ProofsBase Aurora.C32.ProofsLock Aurora.C32.ProofsLocal
  Aurora.C32.ProofsBal Aurora.C32.ProofsLog.
Local Open Scope Z_scope.

(** ---- program order: finished operations ++ current ++ rest = the program ---- *)
Definition prog_ok (progs : N -> list op) (s : st) : Prop :=
  forall tid, rev (map d_op (done (thr s tid))) ++
              match cur (thr s tid) with Some l => [l_op l] | None => [] end ++ prog (thr s tid) = progs tid.

Lemma micro_fin_op c tid s l s' d : micro c tid s l = Fin s' d -> d_op d = l_op l.
Proof. intros Hm. micro_inv Hm; cbn; congruence. Qed.

Lemma prog_ok_step c progs s w : prog_ok progs s -> prog_ok progs (step c s w).
Proof.
  intros Hok. destruct w as [|tid0]; cbn [step]; [exact Hok|].
  destruct (step_thread_tstep c tid0 s) as [->|l0 r sh' l' Hs Hm ->|l0 r sh' d Hs Hm ->]; [assumption| |];
    intros tid; cbn; specialize (Hok tid).
  - destruct (upd_cases (thr s) tid0 {| prog := r; cur := Some l'; done := done (thr s tid0) |} tid) as [[-> Hu]|[Hn Hu]]; rewrite Hu; [|exact Hok].
    cbn. rewrite (micro_op_same _ _ _ _ _ _ Hm).
    apply standing_cases in Hs as [[Hc0 ->]|[Hc0 [o [Hpr ->]]]].
    + now rewrite Hc0 in Hok.
    + rewrite Hc0, Hpr in Hok. destruct o; exact Hok.
  - destruct (upd_cases (thr s) tid0 {| prog := r; cur := None; done := d :: done (thr s tid0) |} tid) as [[-> Hu]|[Hn Hu]]; rewrite Hu; [|exact Hok].
    cbn. rewrite (micro_fin_op _ _ _ _ _ _ Hm), <- app_assoc.
    apply standing_cases in Hs as [[Hc0 ->]|[Hc0 [o [Hpr ->]]]].
    + now rewrite Hc0 in Hok.
    + rewrite Hc0, Hpr in Hok. destruct o; exact Hok.
Qed.

Lemma prog_ok_run c e progs sched : prog_ok progs (run c sched (st0 e progs)).
Proof.
  unfold run. apply fold_left_inv; [intros; now apply prog_ok_step|]. intros tid. reflexivity.
Qed.

(** ---- lock discipline ---- *)
Lemma lock_discipline c e progs sched :
  reserve_locks c = true ->
  let s := run c sched (st0 e progs) in
  Forall (fun a => a_held a = true) (acc (shs s)) /\
  (forall t1 t2 l1 l2, cur (thr s t1) = Some l1 -> cur (thr s t2) = Some l2 ->
     touches (l_pt l1) = true -> touches (l_pt l2) = true ->
     peer_of (l_op l1) = peer_of (l_op l2) -> t1 = t2).
Proof.
  intros Hrl s. split.
  - now apply discipline_run.
  - intros t1 t2 l1 l2. exact (no_concurrent_access c s t1 t2 l1 l2 Hrl (Inv1_run c e progs sched)).
Qed.

(** ---- balance ---- *)
Lemma balance_exact c e progs sched p :
  (forall q, 0 <= retr e q) ->
  let s := run c sched (st0 e progs) in
  match unpaid (shs s) p with
  | None => events_of p (lin (shs s)) = []
  | Some v => v = fold_bal (events_of p (lin (shs s))) (init (shs s) p) /\ 0 <= v
  end.
Proof.
  intros He s. destruct (Inv3_run c e progs sched He) as [_ [[Hw Hb] Hn]]. fold s in Hw, Hb, Hn.
  specialize (Hb p). destruct (unpaid (shs s) p) as [v|].
  - subst v. split; [now apply cur_bal_fold | eapply cur_bal_nonneg; exact Hn].
  - now apply events_of_none.
Qed.

Definition drec_lin_ok (tid : N) (d : drec) : Prop :=
  option_map l_ev (d_lev d) = effective d /\
  forall x, d_lev d = Some x -> l_tid x = tid /\ l_peer x = peer_of (d_op d) /\ l_after x = d_reg d.

Lemma wf_drec_lin c tid d : wf_drec c tid d -> drec_lin_ok tid d.
Proof.
  unfold wf_drec, drec_lin_ok, effective, mk_de. intros H.
  destruct (d_op d) eqn:Eo; destruct (d_res d) eqn:Er; cbn in *;
    repeat match goal with H : _ /\ _ |- _ => destruct H end; try contradiction;
    match goal with H : d_lev d = _ |- _ => rewrite H end; cbn; split; try reflexivity;
    intros x Hx; inversion Hx; subst; cbn; auto.
Qed.

Lemma linearisation_faithful c e progs sched tid :
  let s := run c sched (st0 e progs) in
  filter (fun x => N.eqb (l_tid x) tid) (lin (shs s)) =
    olist (match cur (thr s tid) with Some l => lev_ l | None => None end) ++
    flat_map (fun d => olist (d_lev d)) (done (thr s tid)) /\
  Forall (drec_lin_ok tid) (done (thr s tid)) /\
  rev (map d_op (done (thr s tid))) ++
    match cur (thr s tid) with Some l => [l_op l] | None => [] end ++ prog (thr s tid) = progs tid.
Proof.
  intros s. destruct (Inv4_run c e progs sched) as [[_ H2] [Hl _]]. fold s in H2, Hl. split; [|split].
  - rewrite (Hl tid). unfold tl_of, lin_m, lin_md. destruct (cur (thr s tid)); reflexivity.
  - destruct (H2 tid) as [_ Hd]. eapply Forall_impl; [|exact Hd]. intros d. apply wf_drec_lin.
  - apply prog_ok_run.
Qed.

(** ---- payment requests ---- *)
Definition drec_credit_ok (c : cfg) (tid : N) (d : drec) : Prop :=
  forall p t, d_op d = OCredit p t ->
    match d_res d with
    | ROk => d_flag d = (threshold c <=? d_reg d) /\
             d_lev d = Some {| l_tid := tid; l_peer := p; l_ev := Cr (Z.of_N t); l_after := d_reg d |}
    | _ => d_flag d = false
    end.

Lemma wf_drec_credit c tid d : wf_drec c tid d -> drec_credit_ok c tid d.
Proof.
  unfold wf_drec, drec_credit_ok, mk_de. intros H p t Eo. rewrite Eo in H. cbn in H.
  destruct (d_res d); repeat match goal with H : _ /\ _ |- _ => destruct H end; try contradiction; auto.
Qed.

Lemma payment_requested c e progs sched tid :
  let s := run c sched (st0 e progs) in
  Forall (drec_credit_ok c tid) (done (thr s tid)) /\
  filter (fun x => N.eqb (fst x) tid) (sent (shs s)) =
    match cur (thr s tid) with Some l => sent_m c tid l | None => [] end ++
    flat_map (sent_md c tid) (done (thr s tid)) /\
  requests (shs s) = rev (map snd (sent (shs s))).
Proof.
  intros s. destruct (Inv4_run c e progs sched) as [[_ H2] [_ [Hs [_ Hr]]]]. fold s in H2, Hs, Hr. split; [|split].
  - destruct (H2 tid) as [_ Hd]. eapply Forall_impl; [|exact Hd]. intros d. apply wf_drec_credit.
  - apply (Hs tid).
  - exact Hr.
Qed.

(** ---- debit ---- *)
Definition drec_debit_ok (c : cfg) (d : drec) : Prop :=
  forall p t, d_op d = ODebit p t ->
    match d_res d with
    | ROk => d_reg d < tolerance c /\ d_put d = true
    | RBlocked => tolerance c <= d_reg d /\ d_put d = false
    | _ => d_put d = false
    end.

Lemma wf_drec_debit c tid d : wf_drec c tid d -> drec_debit_ok c d.
Proof.
  unfold wf_drec, drec_debit_ok. intros H p t Eo. rewrite Eo in H.
  destruct (d_res d); repeat match goal with H : _ /\ _ |- _ => destruct H end; try contradiction; auto.
Qed.

Lemma debit_refused c e progs sched tid :
  let s := run c sched (st0 e progs) in
  Forall (drec_debit_ok c) (done (thr s tid)) /\
  filter (fun x => N.eqb (fst x) tid) (puts (shs s)) =
    match cur (thr s tid) with Some l => puts_m tid l | None => [] end ++
    flat_map (puts_md tid) (done (thr s tid)).
Proof.
  intros s. destruct (Inv4_run c e progs sched) as [[_ H2] [_ [_ [Hp _]]]]. fold s in H2, Hp. split.
  - destruct (H2 tid) as [_ Hd]. eapply Forall_impl; [|exact Hd]. intros d. apply wf_drec_debit.
  - apply (Hp tid).
Qed.

Lemma debit_check_atomic c e progs sched :
  (forall tid, Forall not_settr (progs tid)) ->
  let s := run c sched (st0 e progs) in
  forall tid l, cur (thr s tid) = Some l -> l_pt l = PDPut ->
    transf (en (shs s)) (peer_of (l_op l)) = reg l /\ reg l < tolerance c.
Proof.
  intros Hp s tid l Hc Hpt. destruct (dt_run c e progs sched Hp) as [[_ H2] [_ Hd]]. fold s in H2, Hd.
  split; [exact (Hd tid l Hc Hpt)|]. destruct (H2 tid) as [Hl _]. destruct (Hl l Hc) as [_ Hloc].
  unfold local_ok in Hloc. rewrite Hpt in Hloc. apply Hloc.
Qed.

(** ---- no nil dereference ---- *)
Lemma wf_drec_no_panic c tid d : wf_drec c tid d -> d_res d <> RPanic.
Proof.
  unfold wf_drec. intros H E. rewrite E in H.
  destruct (d_op d); repeat match goal with H : _ /\ _ |- _ => destruct H end; try contradiction; discriminate.
Qed.

Lemma no_panic c e progs sched tid :
  Forall (fun d => d_res d <> RPanic) (done (thr (run c sched (st0 e progs)) tid)).
Proof.
  destruct (Inv12_run c e progs sched) as [_ H2]. destruct (H2 tid) as [_ Hd].
  eapply Forall_impl; [|exact Hd]. intros d. apply wf_drec_no_panic.
Qed.

(** ---- published big.Ints are immutable; every update installs a fresh cell ---- *)
Lemma micro_ptr_eff c tid s l s' q :
  micro_sh c tid s l = Some s' -> ptr s' q = ptr s q \/ ptr s' q = Some (next s).
Proof.
  unfold micro_sh. destruct (micro c tid s l) as [|s1 l1|s1 d1] eqn:Hm; intros H; inversion H; subst; clear H.
  all: micro_inv Hm; cbn; try (left; reflexivity).
  all: match goal with |- context [upd ?f ?k ?v ?x] => destruct (upd_cases f k v x) as [[Hq Hu]|[Hn Hu]]; rewrite Hu end; auto.
Qed.

Lemma heap_next_free s : heap_ok s -> heap s (next s) = None.
Proof.
  intros [_ H2]. destruct (heap s (next s)) eqn:E; [|reflexivity].
  assert (next s < next s)%N by (apply H2; congruence). lia.
Qed.

Lemma ptr_fresh_step c s w p :
  Inv1 c s -> ptr (shs (step c s w)) p <> ptr (shs s) p ->
  exists a, ptr (shs (step c s w)) p = Some a /\ heap (shs s) a = None.
Proof.
  intros [Hh _] Hne. destruct w as [|tid0]; cbn [step] in *.
  - exfalso. apply Hne. cbn. unfold step_settler. destruct (sreg (shs s)); [|destruct (chan (shs s))]; reflexivity.
  - destruct (step_thread_tstep c tid0 s) as [E|l0 r sh' l' Hs Hm E|l0 r sh' d Hs Hm E]; rewrite E in *; cbn in *.
    + now elim Hne.
    + destruct (micro_ptr_eff c tid0 (shs s) l0 sh' p (micro_sh_next _ _ _ _ _ _ Hm)) as [He|He]; [congruence|].
      exists (next (shs s)). split; [assumption | now apply heap_next_free].
    + destruct (micro_ptr_eff c tid0 (shs s) l0 sh' p (micro_sh_fin _ _ _ _ _ _ Hm)) as [He|He]; [congruence|].
      exists (next (shs s)). split; [assumption | now apply heap_next_free].
Qed.

Lemma heap_facts c e progs sched :
  let s := run c sched (st0 e progs) in
  (forall p, match ptr (shs s) p with
             | Some a => unpaid (shs s) p <> None /\ heap (shs s) a = unpaid (shs s) p
             | None => unpaid (shs s) p = None
             end) /\
  (forall a v more, heap (shs s) a = Some v -> heap (shs (run c more s)) a = Some v) /\
  (forall w p, ptr (shs (step c s w)) p <> ptr (shs s) p ->
     exists a, ptr (shs (step c s w)) p = Some a /\ heap (shs s) a = None) /\
  (forall tid l, cur (thr s tid) = Some l -> l_pt l = PDeref -> heap (shs s) (rptr l) = Some (reg l)).
Proof.
  intros s. pose proof (Inv1_run c e progs sched) as HI. fold s in HI. split; [|split; [|split]].
  - exact (proj1 (proj1 HI)).
  - intros a v more. now apply heap_immutable_run.
  - intros w p. now apply ptr_fresh_step.
  - intros tid l Hc Hp. destruct (proj2 HI tid l Hc) as [_ [_ [_ Hsn]]]. apply Hsn. now rewrite Hp.
Qed.
