(** C32 — what a thread knows while it is inside an operation (its local
    variable mirrors the balance while it holds the lock; its ghost fields
    describe what it has done so far) and what a finished operation recorded. *)
From Coq Require Import List NArith ZArith Bool Lia ZifyBool.
Import ListNotations.
Require Import Aurora.C32.Model Aurora.C32.ProofsBase Aurora.C32.ProofsLock.
Local Open Scope Z_scope.

Definition mirrors (p : pt) : bool :=
  match p with PCWrite | PCPut | PCCheck | PNWrite => true | _ => false end.

Definition mk_le (tid : N) (l : loc) (e : lev) : lentry :=
  {| l_tid := tid; l_peer := peer_of (l_op l); l_ev := e; l_after := reg l |}.
Definition mk_de (tid : N) (d : drec) (e : lev) : lentry :=
  {| l_tid := tid; l_peer := peer_of (d_op d); l_ev := e; l_after := d_reg d |}.

Definition local_ok (c : cfg) (tid : N) (l : loc) : Prop :=
  match l_pt l with
  | PCPut | PCCheck => lev_ l = Some (mk_le tid l (Cr (amt (l_op l)))) /\ flag l = false /\ putd l = false
  | PCSend => lev_ l = Some (mk_le tid l (Cr (amt (l_op l)))) /\ flag l = false /\ putd l = false /\
              (threshold c <=? reg l) = true
  | PNWrite => lev_ l = None /\ flag l = false /\ putd l = false /\ 0 < reg l
  | PDPut => lev_ l = None /\ flag l = false /\ putd l = false /\ reg l < tolerance c
  | PExit =>
      match l_op l with
      | OCredit _ _ =>
          lev_ l = Some (mk_le tid l (Cr (amt (l_op l)))) /\ putd l = false /\
          match pend l with
          | ROk => flag l = (threshold c <=? reg l)
          | RErrPut => flag l = false
          | _ => False
          end
      | ONotify _ _ =>
          lev_ l = Some (mk_le tid l (Py (amt (l_op l)))) /\ putd l = false /\ flag l = false /\ pend l = ROk
      | ODebit _ _ =>
          lev_ l = None /\ flag l = false /\
          match pend l with
          | ROk => putd l = true /\ reg l < tolerance c
          | RBlocked => putd l = false /\ tolerance c <= reg l
          | RErrTransfer | RErrPutTransfer => putd l = false
          | _ => False
          end
      | _ => False
      end
  | _ => lev_ l = None /\ flag l = false /\ putd l = false
  end.

(** record of a finished operation *)
Definition wf_drec (c : cfg) (tid : N) (d : drec) : Prop :=
  match d_op d with
  | OCredit _ _ =>
      d_put d = false /\
      match d_res d with
      | ROk => d_lev d = Some (mk_de tid d (Cr (amt (d_op d)))) /\ d_flag d = (threshold c <=? d_reg d)
      | RErrPut => d_lev d = Some (mk_de tid d (Cr (amt (d_op d)))) /\ d_flag d = false
      | RErrGet => d_lev d = None /\ d_flag d = false
      | _ => False
      end
  | ONotify _ _ =>
      d_put d = false /\ d_flag d = false /\
      match d_res d with
      | ROk => d_lev d = Some (mk_de tid d (Py (amt (d_op d))))
      | RErrGet => d_lev d = None
      | _ => False
      end
  | ODebit _ _ =>
      d_lev d = None /\ d_flag d = false /\
      match d_res d with
      | ROk => d_put d = true /\ d_reg d < tolerance c
      | RBlocked => d_put d = false /\ tolerance c <= d_reg d
      | RErrGet | RErrTransfer | RErrPutTransfer => d_put d = false
      | _ => False
      end
  | OReserve _ _ =>
      d_lev d = None /\ d_flag d = false /\ d_put d = false /\
      match d_res d with ROk | RLow | RErrGet | RErrAvail => True | _ => False end
  | OEnv _ => d_lev d = None /\ d_flag d = false /\ d_put d = false /\ d_res d = ROk
  end.

Definition loc_ok (c : cfg) (s : sh) (tid : N) (l : loc) : Prop :=
  (mirrors (l_pt l) = true -> unpaid s (peer_of (l_op l)) = Some (reg l)) /\ local_ok c tid l.

Lemma loc_ok_start c s tid o : loc_ok c s tid (start o).
Proof. unfold loc_ok, local_ok. destruct o; cbn; repeat split; intros; discriminate. Qed.

Ltac finish_local :=
  repeat match goal with H : _ /\ _ |- _ => destruct H end;
  repeat split; intros; subst; try discriminate; try reflexivity; try assumption;
  rewrite ?upd_same; try congruence; try lia.

Lemma micro_loc_next c tid s l s' l' :
  own_ok c s tid l -> loc_ok c s tid l -> micro c tid s l = Next s' l' -> loc_ok c s' tid l'.
Proof.
  intros [Hwf [Hreg [Hex Hsn]]] [Hmir Hloc] Hm. unfold local_ok in Hloc.
  own_cases Hm Hwf; unfold loc_ok, local_ok, mk_le in *; cbn in *; rewrite ?Eo in *; cbn in *;
    try (destruct (reserve_locks c) eqn:Erl; cbn in *; try discriminate);
    try specialize (Hmir eq_refl);
    finish_local.
Qed.

Lemma micro_loc_fin c tid s l s' d :
  heap_ok s -> own_ok c s tid l -> loc_ok c s tid l -> micro c tid s l = Fin s' d -> wf_drec c tid d.
Proof.
  intros Hh [Hwf [Hreg [Hex Hsn]]] [Hmir Hloc] Hm. unfold local_ok in Hloc.
  own_cases Hm Hwf; unfold loc_ok, local_ok, wf_drec, mk_le, mk_de, mk_drec in *; cbn in *; rewrite ?Eo in *; cbn in *;
    try (exfalso; apply Hex; [reflexivity|assumption]);
    try (exfalso; specialize (Hsn eq_refl); congruence);
    try (exfalso; destruct Hh as [Hh1 _];
         match goal with H : ptr ?s0 ?p0 = None |- _ => specialize (Hh1 p0); rewrite H in Hh1; congruence end);
    try (destruct (pend l) eqn:Ep; cbn in * );
    finish_local; try tauto.
Qed.

(** effect of anybody's step on the balances *)
Lemma micro_unpaid_eff c tid s l s' q :
  micro_sh c tid s l = Some s' ->
  unpaid s' q = unpaid s q \/
  (q = peer_of (l_op l) /\ ((l_pt l = PGet /\ unpaid s q = None) \/ in_region (l_pt l) = true)).
Proof.
  unfold micro_sh. destruct (micro c tid s l) as [|s1 l1|s1 d1] eqn:Hm; intros H; inversion H; subst; clear H.
  all: micro_inv Hm; cbn.
  all: try (left; reflexivity).
  all: match goal with |- context [upd (unpaid ?s0) ?k ?v ?x] =>
         destruct (upd_cases (unpaid s0) k v x) as [[Hq Hu]|[Hn Hu]]; rewrite Hu end.
  all: try (left; reflexivity).
  all: right; split; [assumption|].
  all: try (left; split; [reflexivity | subst; assumption]).
  all: right; reflexivity.
Qed.

Lemma mirrors_region p : mirrors p = true -> in_region p = true.
Proof. destruct p; cbn; intros; try discriminate; reflexivity. Qed.

Lemma micro_loc_frame c tid0 s l0 s' tid l :
  tid <> tid0 -> own_ok c s tid0 l0 -> micro_sh c tid0 s l0 = Some s' ->
  own_ok c s tid l -> loc_ok c s tid l -> loc_ok c s' tid l.
Proof.
  intros Hne [_ [Hreg0 _]] Hm [_ [Hreg _]] [Hmir Hloc]. split; [|assumption].
  intros Hmi. specialize (Hmir Hmi). specialize (Hreg (mirrors_region _ Hmi)).
  destruct (micro_unpaid_eff c tid0 s l0 s' (peer_of (l_op l)) Hm) as [He|[Hq [[_ Hn]|Hin0]]].
  - now rewrite He.
  - congruence.
  - specialize (Hreg0 Hin0). rewrite <- Hq in Hreg0. congruence.
Qed.

Definition Inv2 (c : cfg) (s : st) : Prop :=
  forall tid, (forall l, cur (thr s tid) = Some l -> loc_ok c (shs s) tid l) /\
              Forall (wf_drec c tid) (done (thr s tid)).

Lemma standing_loc c s tid l r :
  Inv2 c s -> standing (thr s tid) = Some (l, r) -> loc_ok c (shs s) tid l.
Proof.
  intros HI Hs. apply standing_cases in Hs as [[Hc _]|[_ [o [_ ->]]]].
  - now apply HI.
  - apply loc_ok_start.
Qed.

Lemma Inv2_step c s w : Inv1 c s -> Inv2 c s -> Inv2 c (step c s w).
Proof.
  intros H1 HI. pose proof (proj2 H1) as H1t. unfold Inv1t in H1t. destruct w as [|tid0]; cbn [step].
  - intros tid. destruct (HI tid) as [Ha Hb]. split; [|exact Hb].
    intros l Hc. cbn in Hc. specialize (Ha l Hc). unfold loc_ok in *. unfold step_settler.
    destruct (sreg (shs s)); [|destruct (chan (shs s))]; cbn; assumption.
  - destruct (step_thread_tstep c tid0 s) as [->|l0 r sh' l' Hs Hm ->|l0 r sh' d Hs Hm ->]; [assumption| |].
    + pose proof (standing_own c s tid0 l0 r H1 Hs) as Ho. pose proof (standing_loc c s tid0 l0 r HI Hs) as Hl.
      intros tid. cbn.
      destruct (upd_cases (thr s) tid0 {| prog := r; cur := Some l'; done := done (thr s tid0) |} tid) as [[-> Hu]|[Hn Hu]]; rewrite Hu; cbn.
      * split; [|apply HI]. intros l Hc. inversion Hc; subst. eapply micro_loc_next; eauto.
      * destruct (HI tid) as [Ha Hb]. split; [|exact Hb]. intros l Hc.
        eapply micro_loc_frame; eauto using micro_sh_next.
    + pose proof (standing_own c s tid0 l0 r H1 Hs) as Ho. pose proof (standing_loc c s tid0 l0 r HI Hs) as Hl.
      intros tid. cbn.
      destruct (upd_cases (thr s) tid0 {| prog := r; cur := None; done := d :: done (thr s tid0) |} tid) as [[-> Hu]|[Hn Hu]]; rewrite Hu; cbn.
      * split; [intros l Hc; discriminate|]. constructor; [eapply micro_loc_fin; eauto; exact (proj1 H1) | apply HI].
      * destruct (HI tid) as [Ha Hb]. split; [|exact Hb]. intros l Hc.
        eapply micro_loc_frame; eauto using micro_sh_fin.
Qed.

Lemma Inv2_init c e progs : Inv2 c (st0 e progs).
Proof. intros tid. cbn. split; [intros l Hc; discriminate | constructor]. Qed.

Definition Inv12 (c : cfg) (s : st) : Prop := Inv1 c s /\ Inv2 c s.

Lemma Inv12_run c e progs sched : Inv12 c (run c sched (st0 e progs)).
Proof.
  unfold run. apply fold_left_inv.
  - intros s w [H1 H2]. split; [now apply Inv1_step | now apply Inv2_step].
  - split; [apply Inv1_init | apply Inv2_init].
Qed.
