(** C32 — per-peer debt tracking is exact and race-free: property theorems.

    Universe of discourse: any configuration [c] (threshold, tolerance, channel
    capacity), any initial settlement state [e], any number of goroutines with
    any programs [progs : N -> list op] of Reserve / Credit / Debit /
    NotifyPayment and settlement-side changes, and ANY schedule
    [sched : list who] of micro steps (Model.v: one lock / unlock / read /
    write / settlement call / channel operation per step).
    [reserve_locks c = true] is the repaired Reserve. *)
From Coq Require Import List NArith ZArith Bool.
Import ListNotations.
Require Import Aurora.C32.Model Aurora.C32.ProofsLocal Aurora.C32.ProofsLog Aurora.C32.ProofsMain.
Local Open Scope Z_scope.

(** Every access to an unPaidTraffic field is made by the goroutine that owns
    that peer's lock at that moment ([a_held] is computed from the lock state),
    and two goroutines are never both about to read/write the same balance. *)
Theorem C32_lock_discipline : forall c e progs sched,
  reserve_locks c = true ->
  let s := run c sched (st0 e progs) in
  Forall (fun a => a_held a = true) (acc (shs s)) /\
  (forall t1 t2 l1 l2, cur (thr s t1) = Some l1 -> cur (thr s t2) = Some l2 ->
     touches (l_pt l1) = true -> touches (l_pt l2) = true ->
     peer_of (l_op l1) = peer_of (l_op l2) -> t1 = t2).
Proof. exact lock_discipline. Qed.
Print Assumptions C32_lock_discipline.

(** The unpaid balance of a peer is the fold, in linearisation order, of
    "credit adds, payment subtracts down to zero" over the peer's events,
    starting from the balance the peer was created with; it is never negative. *)
Theorem C32_balance_exact : forall c e progs sched p,
  (forall q, 0 <= retr e q) ->
  let s := run c sched (st0 e progs) in
  match unpaid (shs s) p with
  | None => events_of p (lin (shs s)) = []
  | Some v => v = fold_bal (events_of p (lin (shs s))) (init (shs s) p) /\ 0 <= v
  end.
Proof. exact balance_exact. Qed.
Print Assumptions C32_balance_exact.

(** The linearisation is faithful: the entries of a goroutine are exactly those
    of its own operations, once each and in program order (newest first); a
    finished operation contributed the event its result demands ([effective]),
    tagged with its own goroutine, its peer and the balance it left; and the
    finished operations, the current one and the rest are the program. *)
Theorem C32_linearisation_faithful : forall c e progs sched tid,
  let s := run c sched (st0 e progs) in
  filter (fun x => N.eqb (l_tid x) tid) (lin (shs s)) =
    olist (match cur (thr s tid) with Some l => lev_ l | None => None end) ++
    flat_map (fun d => olist (d_lev d)) (done (thr s tid)) /\
  Forall (fun d => option_map l_ev (d_lev d) = effective d /\
                   forall x, d_lev d = Some x -> l_tid x = tid /\ l_peer x = peer_of (d_op d) /\ l_after x = d_reg d)
         (done (thr s tid)) /\
  rev (map d_op (done (thr s tid))) ++
    match cur (thr s tid) with Some l => [l_op l] | None => [] end ++ prog (thr s tid) = progs tid.
Proof. exact linearisation_faithful. Qed.
Print Assumptions C32_linearisation_faithful.

(** A Credit that returned nil sent a payment request iff the balance it left
    (the [l_after] of its own linearisation entry) is at or above the threshold;
    a Credit that failed sent none; the sends of a goroutine are exactly its
    flagged credits; every send is queued, held by the settle goroutine or
    already passed to settlement.Pay, in sending order. *)
Theorem C32_payment_requested : forall c e progs sched tid,
  let s := run c sched (st0 e progs) in
  Forall (fun d => forall p t, d_op d = OCredit p t ->
            match d_res d with
            | ROk => d_flag d = (threshold c <=? d_reg d) /\
                     d_lev d = Some {| l_tid := tid; l_peer := p; l_ev := Cr (Z.of_N t); l_after := d_reg d |}
            | _ => d_flag d = false
            end) (done (thr s tid)) /\
  filter (fun x => N.eqb (fst x) tid) (sent (shs s)) =
    match cur (thr s tid) with Some l => (if flag l then [(tid, (peer_of (l_op l), threshold c))] else []) | None => [] end ++
    flat_map (fun d => if d_flag d then [(tid, (peer_of (d_op d), threshold c))] else []) (done (thr s tid)) /\
  requests (shs s) = rev (map snd (sent (shs s))).
Proof. exact payment_requested. Qed.
Print Assumptions C32_payment_requested.

(** A Debit is refused iff the unsettled served traffic it was shown
    ([d_reg]) has reached the tolerance, and then PutTransferTraffic was not
    called; the PutTransferTraffic calls of a goroutine are exactly its served debits. *)
Theorem C32_debit_refused : forall c e progs sched tid,
  let s := run c sched (st0 e progs) in
  Forall (fun d => forall p t, d_op d = ODebit p t ->
            match d_res d with
            | ROk => d_reg d < tolerance c /\ d_put d = true
            | RBlocked => tolerance c <= d_reg d /\ d_put d = false
            | _ => d_put d = false
            end) (done (thr s tid)) /\
  filter (fun x => N.eqb (fst x) tid) (puts (shs s)) =
    match cur (thr s tid) with Some l => (if putd l then [(tid, (peer_of (l_op l), amt (l_op l)))] else []) | None => [] end ++
    flat_map (fun d => if d_put d then [(tid, (peer_of (d_op d), amt (d_op d)))] else []) (done (thr s tid)).
Proof. exact debit_refused. Qed.
Print Assumptions C32_debit_refused.

(** The tolerance check and the recording are atomic with respect to other
    debits: as long as only Debit changes the transfer traffic (no cheque
    arrives in between), the value about to be increased is still the checked
    one, below the tolerance. *)
Theorem C32_debit_check_atomic : forall c e progs sched,
  (forall tid, Forall not_settr (progs tid)) ->
  let s := run c sched (st0 e progs) in
  forall tid l, cur (thr s tid) = Some l -> l_pt l = PDPut ->
    transf (en (shs s)) (peer_of (l_op l)) = reg l /\ reg l < tolerance c.
Proof. exact debit_check_atomic. Qed.
Print Assumptions C32_debit_check_atomic.

(** No operation dereferences a missing accountingPeer. *)
Theorem C32_no_panic : forall c e progs sched tid,
  Forall (fun d => d_res d <> RPanic) (done (thr (run c sched (st0 e progs)) tid)).
Proof. exact no_panic. Qed.
Print Assumptions C32_no_panic.

(** The unpaid field holds a *big.Int.  (1) the field of an existing peer points
    to an allocated cell that holds its balance; (2) NO step ever writes to an
    allocated cell: a cell keeps its value along every continuation (published
    big.Ints are immutable); (3) whenever the field changes it changes to a cell
    that was not allocated before (a fresh big.Int per Credit / NotifyPayment /
    creation); (4) hence the read Reserve makes AFTER releasing the lock, through
    the pointer it copied under the lock, returns the balance at the time of the
    copy ([reg] is set from the balance at [PRead]) and conflicts with no write. *)
Theorem C32_published_bigint_immutable : forall c e progs sched,
  let s := run c sched (st0 e progs) in
  (forall p, match ptr (shs s) p with
             | Some a => unpaid (shs s) p <> None /\ heap (shs s) a = unpaid (shs s) p
             | None => unpaid (shs s) p = None
             end) /\
  (forall a v more, heap (shs s) a = Some v -> heap (shs (run c more s)) a = Some v) /\
  (forall w p, ptr (shs (step c s w)) p <> ptr (shs s) p ->
     exists a, ptr (shs (step c s w)) p = Some a /\ heap (shs s) a = None) /\
  (forall tid l, cur (thr s tid) = Some l -> l_pt l = PDeref -> heap (shs s) (rptr l) = Some (reg l)).
Proof. exact heap_facts. Qed.
Print Assumptions C32_published_bigint_immutable.

(** ---- the code as found (Reserve reads without the lock): F-reserve-race ---- *)
Definition c_found : cfg := {| threshold := 100; tolerance := 100; chancap := 1000; reserve_locks := false |}.
Definition e_w : env := {| retr := fun _ => 0; transf := fun _ => 0; avail := 4; fails := fun _ => false |}.
Definition progs_w : N -> list op :=
  fun tid => match tid with 1%N => [OCredit 0 5] | 2%N => [OReserve 0 1] | _ => [] end.
(** Credit: getAccountingPeer, Lock, read -> about to write; Reserve: getAccountingPeer -> about to read *)
Definition sched_w : list who := [W 1; W 1; W 1; W 2].

Theorem C32_reserve_race_before_fix :
  let s := run c_found sched_w (st0 e_w progs_w) in
  option_map (fun l => (l_pt l, peer_of (l_op l))) (cur (thr s 1)) = Some (PCWrite, 0%N) /\
  option_map (fun l => (l_pt l, peer_of (l_op l))) (cur (thr s 2)) = Some (PReadNL, 0%N) /\
  existsb (fun a => negb (a_held a)) (acc (shs (run c_found (sched_w ++ [W 2]) (st0 e_w progs_w)))) = true.
Proof. vm_compute. repeat split; reflexivity. Qed.
Print Assumptions C32_reserve_race_before_fix.

(** ---- non-vacuity: a concrete contended run of the repaired code ---- *)
Definition c_x : cfg := {| threshold := 5; tolerance := 10; chancap := 1000; reserve_locks := true |}.
Definition progs_x : N -> list op :=
  fun tid => match tid with
             | 1%N => [OCredit 0 5; OCredit 0 1; ODebit 0 3]
             | 2%N => [ONotify 0 7; OCredit 0 6; OReserve 0 1]
             | _ => [] end.
Definition sched_x : list who := flat_map (fun _ => [W 1; W 1; W 2; Settler]) (seq 0 30).

Example C32_hyps_satisfiable :
  let s := run c_x sched_x (st0 e_w progs_x) in
  (forall q, 0 <= retr e_w q) /\ reserve_locks c_x = true /\ (forall tid, Forall not_settr (progs_x tid)) /\
  unpaid (shs s) 0%N = Some 7 /\
  events_of 0%N (lin (shs s)) = [Cr 5; Py 7; Cr 1; Cr 6] /\
  rev (pays (shs s)) = [(0%N, 5); (0%N, 5)] /\
  length (acc (shs s)) = 12%nat /\
  map d_res (done (thr s 2)) = [RLow; ROk; ROk] /\
  puts (shs s) = [(1%N, (0%N, 3))] /\
  ptr (shs s) 0%N = Some 4%N /\ heap (shs s) 4%N = Some 7 /\ heap (shs s) 0%N = Some 0 /\ next (shs s) = 5%N.
Proof.
  cbv zeta. split; [intros q; cbn; discriminate|]. split; [reflexivity|]. split.
  - intros tid. unfold progs_x.
    repeat match goal with |- Forall _ (match ?x with _ => _ end) => destruct x end; repeat constructor.
  - vm_compute. repeat split; reflexivity.
Qed.
