(** C32 — per-thread logs: every thread's effective operations appear in the
    global ghost logs (linearisation, channel sends, PutTransferTraffic calls)
    exactly once and in program order; requests are served first-in first-out;
    the Debit check is atomic with its recording. *)
From Coq Require Import List NArith ZArith Bool Lia ZifyBool.
Import ListNotations.
Require Import Aurora.C32.Model Aurora.C32.ProofsBase Aurora.C32.ProofsLock Aurora.C32.ProofsLocal.
Local Open Scope Z_scope.

Section ThreadLog.
  Context {X : Type}.
  Variable tagof : X -> N.
  Variable L : sh -> list X.
  Variable m : N -> loc -> list X.
  Variable md : N -> drec -> list X.
  Variable c : cfg.
  Variable P : sh -> N -> loc -> Prop.

  Definition tl_of (tid : N) (th : thread) : list X :=
    match cur th with Some l => m tid l | None => [] end ++ flat_map (md tid) (done th).
  Definition tl_ok (s : st) : Prop :=
    forall tid, filter (fun x => N.eqb (tagof x) tid) (L (shs s)) = tl_of tid (thr s tid).

  Hypothesis Hstart : forall tid o, m tid (start o) = [].
  Hypothesis Hnext : forall tid s l s' l', P s tid l -> micro c tid s l = Next s' l' ->
      (L s' = L s /\ m tid l' = m tid l) \/
      (exists x, L s' = x :: L s /\ tagof x = tid /\ m tid l' = x :: m tid l).
  Hypothesis Hfin : forall tid s l s' d, P s tid l -> micro c tid s l = Fin s' d ->
      L s' = L s /\ md tid d = m tid l.
  Hypothesis Hsettle : forall s, L (step_settler s) = L s.

  Lemma tl_of_standing tid th l r :
    standing th = Some (l, r) -> tl_of tid th = m tid l ++ flat_map (md tid) (done th).
  Proof.
    intros Hs. unfold tl_of. apply standing_cases in Hs as [[-> _]|[-> [o [_ ->]]]]; [reflexivity|].
    now rewrite Hstart.
  Qed.

  Lemma tl_step s w :
    (forall tid l r, standing (thr s tid) = Some (l, r) -> P (shs s) tid l) -> tl_ok s -> tl_ok (step c s w).
  Proof.
    intros HP Hok. destruct w as [|tid0]; cbn [step].
    - intros tid. cbn. rewrite Hsettle. apply Hok.
    - destruct (step_thread_tstep c tid0 s) as [->|l0 r sh' l' Hs Hm ->|l0 r sh' d Hs Hm ->]; [assumption| |].
      + specialize (HP _ _ _ Hs). intros tid. cbn.
        pose proof (Hok tid) as Ht.
        destruct (upd_cases (thr s) tid0 {| prog := r; cur := Some l'; done := done (thr s tid0) |} tid) as [[-> Hu]|[Hn Hu]]; rewrite Hu.
        * rewrite (tl_of_standing _ _ _ _ Hs) in Ht. unfold tl_of; cbn.
          destruct (Hnext _ _ _ _ _ HP Hm) as [[HL Hmm]|[x [HL [Hx Hmm]]]]; rewrite HL, Hmm.
          -- exact Ht.
          -- cbn. rewrite Hx, N.eqb_refl. cbn. now rewrite Ht.
        * destruct (Hnext _ _ _ _ _ HP Hm) as [[HL Hmm]|[x [HL [Hx Hmm]]]]; rewrite HL.
          -- exact Ht.
          -- cbn. rewrite Hx. destruct (N.eqb_spec tid0 tid) as [E|E]; [congruence|]. exact Ht.
      + specialize (HP _ _ _ Hs). intros tid. cbn.
        pose proof (Hok tid) as Ht. destruct (Hfin _ _ _ _ _ HP Hm) as [HL Hd]. rewrite HL.
        destruct (upd_cases (thr s) tid0 {| prog := r; cur := None; done := d :: done (thr s tid0) |} tid) as [[-> Hu]|[Hn Hu]]; rewrite Hu.
        * rewrite (tl_of_standing _ _ _ _ Hs) in Ht. unfold tl_of; cbn. now rewrite Hd.
        * exact Ht.
  Qed.
End ThreadLog.

Definition known (c : cfg) (s : sh) (tid : N) (l : loc) : Prop := own_ok c s tid l /\ loc_ok c s tid l.

Lemma known_standing c s tid l r :
  Inv12 c s -> standing (thr s tid) = Some (l, r) -> known c (shs s) tid l.
Proof. intros [H1 H2] Hs. split; eauto using standing_own, standing_loc. Qed.

Lemma settler_ghost s : lin (step_settler s) = lin s /\ sent (step_settler s) = sent s /\ puts (step_settler s) = puts s.
Proof. unfold step_settler. destruct (sreg s); [|destruct (chan s)]; cbn; auto. Qed.

(** ---- the linearisation ---- *)
Definition lin_m (tid : N) (l : loc) : list lentry := olist (lev_ l).
Definition lin_md (tid : N) (d : drec) : list lentry := olist (d_lev d).
Definition lin_link := tl_ok l_tid lin lin_m lin_md.

Lemma lin_next c tid s l s' l' :
  known c s tid l -> micro c tid s l = Next s' l' ->
  (lin s' = lin s /\ lin_m tid l' = lin_m tid l) \/
  (exists x, lin s' = x :: lin s /\ l_tid x = tid /\ lin_m tid l' = x :: lin_m tid l).
Proof.
  intros [[Hwf _] [_ Hloc]] Hm. unfold local_ok in Hloc.
  own_cases Hm Hwf; unfold lin_m; cbn in *; try (left; split; reflexivity).
  all: right; eexists; repeat split; destruct Hloc as [-> _]; reflexivity.
Qed.

Lemma lin_fin c tid s l s' d :
  known c s tid l -> micro c tid s l = Fin s' d -> lin s' = lin s /\ lin_md tid d = lin_m tid l.
Proof. intros _ Hm. micro_inv Hm; cbn; split; reflexivity. Qed.

Lemma lin_link_step c s w : Inv12 c s -> lin_link s -> lin_link (step c s w).
Proof.
  intros HI. apply tl_step with (P := known c).
  - reflexivity.
  - apply lin_next.
  - apply lin_fin.
  - intros s0. apply settler_ghost.
  - intros tid l r. now apply known_standing.
Qed.

(** ---- payment requests ---- *)
Definition req_of (c : cfg) (tid : N) (o : op) : N * (N * Z) := (tid, (peer_of o, threshold c)).
Definition sent_m (c : cfg) (tid : N) (l : loc) := if flag l then [req_of c tid (l_op l)] else [].
Definition sent_md (c : cfg) (tid : N) (d : drec) := if d_flag d then [req_of c tid (d_op d)] else [].
Definition sent_link (c : cfg) := tl_ok (@fst N (N * Z)) sent (sent_m c) (sent_md c).

Lemma sent_next c tid s l s' l' :
  known c s tid l -> micro c tid s l = Next s' l' ->
  (sent s' = sent s /\ sent_m c tid l' = sent_m c tid l) \/
  (exists x, sent s' = x :: sent s /\ fst x = tid /\ sent_m c tid l' = x :: sent_m c tid l).
Proof.
  intros [[Hwf _] [_ Hloc]] Hm. unfold local_ok in Hloc.
  own_cases Hm Hwf; unfold sent_m, req_of; cbn in *; try (left; split; reflexivity).
  right; eexists; repeat split. destruct Hloc as [_ [-> _]]. rewrite Eo. reflexivity.
Qed.

Lemma sent_fin c tid s l s' d :
  known c s tid l -> micro c tid s l = Fin s' d -> sent s' = sent s /\ sent_md c tid d = sent_m c tid l.
Proof. intros _ Hm. micro_inv Hm; cbn; split; reflexivity. Qed.

Lemma sent_link_step c s w : Inv12 c s -> sent_link c s -> sent_link c (step c s w).
Proof.
  intros HI. apply tl_step with (P := known c).
  - reflexivity.
  - apply sent_next.
  - apply sent_fin.
  - intros s0. apply settler_ghost.
  - intros tid l r. now apply known_standing.
Qed.

(** requests in flight or served = the sends, in order (first-in first-out) *)
Definition req_ok (s : sh) : Prop := requests s = rev (map snd (sent s)).

Lemma micro_req c tid s l s' : micro_sh c tid s l = Some s' -> req_ok s -> req_ok s'.
Proof.
  unfold micro_sh. destruct (micro c tid s l) as [|s1 l1|s1 d1] eqn:Hm; intros H; inversion H; subst; clear H.
  all: micro_inv Hm; unfold req_ok, requests; cbn; try (intros; assumption).
  intros H. rewrite <- H. now rewrite !app_assoc.
Qed.

Lemma settler_req s : req_ok s -> req_ok (step_settler s).
Proof.
  unfold req_ok, requests, step_settler. destruct (sreg s) as [x|] eqn:Es; [|destruct (chan s) as [|x r] eqn:Ec]; cbn; rewrite ?Es, ?Ec; intros H.
  - rewrite <- H. now rewrite <- app_assoc.
  - exact H.
  - exact H.
Qed.

(** ---- PutTransferTraffic calls ---- *)
Definition put_of (tid : N) (o : op) : N * (N * Z) := (tid, (peer_of o, amt o)).
Definition puts_m (tid : N) (l : loc) := if putd l then [put_of tid (l_op l)] else [].
Definition puts_md (tid : N) (d : drec) := if d_put d then [put_of tid (d_op d)] else [].
Definition puts_link := tl_ok (@fst N (N * Z)) puts puts_m puts_md.

Lemma puts_next c tid s l s' l' :
  known c s tid l -> micro c tid s l = Next s' l' ->
  (puts s' = puts s /\ puts_m tid l' = puts_m tid l) \/
  (exists x, puts s' = x :: puts s /\ fst x = tid /\ puts_m tid l' = x :: puts_m tid l).
Proof.
  intros [[Hwf _] [_ Hloc]] Hm. unfold local_ok in Hloc.
  own_cases Hm Hwf; unfold puts_m, put_of; cbn in *; try (left; split; reflexivity).
  right; eexists; repeat split. destruct Hloc as [_ [_ [-> _]]]. rewrite Eo. reflexivity.
Qed.

Lemma puts_fin c tid s l s' d :
  known c s tid l -> micro c tid s l = Fin s' d -> puts s' = puts s /\ puts_md tid d = puts_m tid l.
Proof. intros _ Hm. micro_inv Hm; cbn; split; reflexivity. Qed.

Lemma puts_link_step c s w : Inv12 c s -> puts_link s -> puts_link (step c s w).
Proof.
  intros HI. apply tl_step with (P := known c).
  - reflexivity.
  - apply puts_next.
  - apply puts_fin.
  - intros s0. apply settler_ghost.
  - intros tid l r. now apply known_standing.
Qed.

(** ---- everything together ---- *)
Definition Inv4 (c : cfg) (s : st) : Prop :=
  Inv12 c s /\ lin_link s /\ sent_link c s /\ puts_link s /\ req_ok (shs s).

Lemma Inv4_step c s w : Inv4 c s -> Inv4 c (step c s w).
Proof.
  intros [HI [Hl [Hs [Hp Hr]]]]. pose proof HI as [H1 H2].
  split; [split; [now apply Inv1_step | now apply Inv2_step]|].
  split; [now apply lin_link_step|]. split; [now apply sent_link_step|]. split; [now apply puts_link_step|].
  destruct w as [|tid0]; cbn [step].
  - cbn. now apply settler_req.
  - destruct (step_thread_tstep c tid0 s) as [->|l0 r sh' l' Hst Hm ->|l0 r sh' d Hst Hm ->]; [assumption| |]; cbn.
    + eapply micro_req; eauto using micro_sh_next.
    + eapply micro_req; eauto using micro_sh_fin.
Qed.

Lemma Inv4_run c e progs sched : Inv4 c (run c sched (st0 e progs)).
Proof.
  unfold run. apply fold_left_inv; [intros; now apply Inv4_step|].
  split; [split; [apply Inv1_init | apply Inv2_init]|].
  repeat split; intros tid; reflexivity.
Qed.

(** ---- Debit: the tolerance check is atomic with the recording ---- *)
Definition not_settr (o : op) : Prop := match o with OEnv (ESetTransfer _ _) => False | _ => True end.
Definition nst_ok (s : st) : Prop :=
  forall tid, Forall not_settr (prog (thr s tid)) /\ (forall l, cur (thr s tid) = Some l -> not_settr (l_op l)).
Definition dt_ok (s : st) : Prop :=
  forall tid l, cur (thr s tid) = Some l -> l_pt l = PDPut -> transf (en (shs s)) (peer_of (l_op l)) = reg l.

Lemma micro_op_same c tid s l s' l' : micro c tid s l = Next s' l' -> l_op l' = l_op l.
Proof. intros Hm. micro_inv Hm; reflexivity. Qed.

Lemma nst_step c s w : nst_ok s -> nst_ok (step c s w).
Proof.
  intros Hok. destruct w as [|tid0]; cbn [step]; [exact Hok|].
  destruct (step_thread_tstep c tid0 s) as [->|l0 r sh' l' Hs Hm ->|l0 r sh' d Hs Hm ->]; [assumption| |];
    intros tid; cbn; destruct (Hok tid0) as [Hp Hc].
  - destruct (upd_cases (thr s) tid0 {| prog := r; cur := Some l'; done := done (thr s tid0) |} tid) as [[-> Hu]|[Hn Hu]]; rewrite Hu; [|apply Hok].
    cbn. pose proof (micro_op_same _ _ _ _ _ _ Hm) as Hop.
    apply standing_cases in Hs as [[Hc0 ->]|[Hc0 [o [Hpr ->]]]].
    + split; [assumption|]. intros l Hl; inversion Hl; subst. rewrite Hop. now apply Hc.
    + rewrite Hpr in Hp. inversion Hp; subst. split; [assumption|]. intros l Hl; inversion Hl; subst.
      rewrite Hop. destruct o; assumption.
  - destruct (upd_cases (thr s) tid0 {| prog := r; cur := None; done := d :: done (thr s tid0) |} tid) as [[-> Hu]|[Hn Hu]]; rewrite Hu; [|apply Hok].
    cbn. split; [|intros l Hl; discriminate].
    apply standing_cases in Hs as [[Hc0 ->]|[Hc0 [o [Hpr ->]]]]; [assumption|].
    rewrite Hpr in Hp. now inversion Hp.
Qed.

Lemma micro_transf_eff c tid s l s' q :
  micro_sh c tid s l = Some s' ->
  transf (en s') q = transf (en s) q \/
  (q = peer_of (l_op l) /\ l_pt l = PDPut) \/
  (exists p z, l_op l = OEnv (ESetTransfer p z)).
Proof.
  unfold micro_sh. destruct (micro c tid s l) as [|s1 l1|s1 d1] eqn:Hm; intros H; inversion H; subst; clear H.
  all: micro_inv Hm; cbn; try (left; reflexivity).
  - match goal with |- context [upd ?f ?k ?v ?x] => destruct (upd_cases f k v x) as [[Hq Hu]|[Hn Hu]]; rewrite Hu end;
      [right; left; split; auto | left; reflexivity].
  - match goal with e : envop |- _ => destruct e end; cbn; try (left; reflexivity). right; right; eauto.
Qed.

Lemma dt_step c s w : Inv1 c s -> nst_ok s -> dt_ok s -> dt_ok (step c s w).
Proof.
  intros H1 Hns Hok. destruct w as [|tid0]; cbn [step].
  - intros tid l Hc Hp. cbn in *. unfold step_settler. specialize (Hok tid l Hc Hp).
    destruct (sreg (shs s)); [|destruct (chan (shs s))]; cbn; assumption.
  - destruct (step_thread_tstep c tid0 s) as [->|l0 r sh' l' Hs Hm ->|l0 r sh' d Hs Hm ->]; [assumption| |];
      pose proof (standing_own c s tid0 l0 r H1 Hs) as Ho0; intros tid l Hc Hp; cbn in Hc |- *.
    + destruct (upd_cases (thr s) tid0 {| prog := r; cur := Some l'; done := done (thr s tid0) |} tid) as [[-> Hu]|[Hn Hu]]; rewrite Hu in Hc.
      * cbn in Hc. inversion Hc; subst l'. clear Hc Hu.
        destruct Ho0 as [Hwf _]. own_cases Hm Hwf; cbn in *; try discriminate; try (destruct (reserve_locks c); discriminate). reflexivity.
      * specialize (Hok tid l Hc Hp). pose proof (proj2 H1 tid l Hc) as [_ [Hreg _]]. rewrite Hp in Hreg. specialize (Hreg eq_refl).
        destruct (micro_transf_eff c tid0 (shs s) l0 sh' (peer_of (l_op l)) (micro_sh_next _ _ _ _ _ _ Hm)) as [He|[[Hq Hp0]|[p [z Ho]]]].
        -- now rewrite He.
        -- destruct Ho0 as [_ [Hr0 _]]. rewrite Hp0 in Hr0. specialize (Hr0 eq_refl). rewrite <- Hq in Hr0. congruence.
        -- exfalso. destruct (Hns tid0) as [Hpr Hcu].
           apply standing_cases in Hs as [[Hc0 _]|[_ [o [Hpo ->]]]].
           ++ specialize (Hcu _ Hc0). rewrite Ho in Hcu. exact Hcu.
           ++ rewrite Hpo in Hpr. inversion Hpr; subst. cbn in Ho. subst o. assumption.
    + destruct (upd_cases (thr s) tid0 {| prog := r; cur := None; done := d :: done (thr s tid0) |} tid) as [[-> Hu]|[Hn Hu]]; rewrite Hu in Hc.
      * cbn in Hc. discriminate.
      * specialize (Hok tid l Hc Hp). pose proof (proj2 H1 tid l Hc) as [_ [Hreg _]]. rewrite Hp in Hreg. specialize (Hreg eq_refl).
        destruct (micro_transf_eff c tid0 (shs s) l0 sh' (peer_of (l_op l)) (micro_sh_fin _ _ _ _ _ _ Hm)) as [He|[[Hq Hp0]|[p [z Ho]]]].
        -- now rewrite He.
        -- destruct Ho0 as [_ [Hr0 _]]. rewrite Hp0 in Hr0. specialize (Hr0 eq_refl). rewrite <- Hq in Hr0. congruence.
        -- exfalso. destruct (Hns tid0) as [Hpr Hcu].
           apply standing_cases in Hs as [[Hc0 _]|[_ [o [Hpo ->]]]].
           ++ specialize (Hcu _ Hc0). rewrite Ho in Hcu. exact Hcu.
           ++ rewrite Hpo in Hpr. inversion Hpr; subst. cbn in Ho. subst o. assumption.
Qed.

Lemma dt_run c e progs sched :
  (forall tid, Forall not_settr (progs tid)) ->
  let s := run c sched (st0 e progs) in Inv12 c s /\ nst_ok s /\ dt_ok s.
Proof.
  intros Hp. cbn. unfold run.
  apply fold_left_inv with (P := fun s => Inv12 c s /\ nst_ok s /\ dt_ok s).
  - intros s w [[H1 H2] [Hn Hd]]. split; [split; [now apply Inv1_step | now apply Inv2_step]|].
    split; [now apply nst_step | now apply dt_step].
  - split; [split; [apply Inv1_init | apply Inv2_init]|]. split.
    + intros tid. cbn. split; [apply Hp | intros l Hl; discriminate].
    + intros tid l Hc. discriminate.
Qed.
