(** C32 — the unpaid balance equals the fold of the linearised credits and
    payments; it is never negative. *)
From Coq Require Import List NArith ZArith Bool Lia ZifyBool.
Import ListNotations.
Require Import Aurora.C32.Model Aurora.C32.ProofsBase Aurora.C32.ProofsLock Aurora.C32.ProofsLocal.
Local Open Scope Z_scope.

Fixpoint lin_wf (l : list lentry) (i : N -> Z) : Prop :=
  match l with
  | [] => True
  | e :: l' => l_after e = apply_lev (l_ev e) (cur_bal (l_peer e) l' (i (l_peer e))) /\ lin_wf l' i
  end.

Definition bal_ok' (u : N -> option Z) (l : list lentry) (i : N -> Z) : Prop :=
  lin_wf l i /\
  forall p, match u p with
            | Some v => v = cur_bal p l (i p)
            | None => forall e, In e l -> l_peer e <> p
            end.
Definition nn_ok' (r : N -> Z) (i : N -> Z) (l : list lentry) : Prop :=
  (forall p, 0 <= r p) /\ (forall p, 0 <= i p) /\ Forall (fun e => 0 <= l_after e) l.

Definition bal_ok (s : sh) : Prop := bal_ok' (unpaid s) (lin s) (init s).
Definition nn_ok (s : sh) : Prop := nn_ok' (retr (en s)) (init s) (lin s).

Lemma cur_bal_none p l x : (forall e, In e l -> l_peer e <> p) -> cur_bal p l x = x.
Proof.
  induction l as [|e l IH]; intros H; cbn; [reflexivity|].
  destruct (N.eqb_spec (l_peer e) p) as [E|E].
  - exfalso. apply (H e); [now left|assumption].
  - apply IH. intros e' He'. apply H. now right.
Qed.

Lemma lin_wf_ext l i i' : (forall e, In e l -> i' (l_peer e) = i (l_peer e)) -> lin_wf l i -> lin_wf l i'.
Proof.
  induction l as [|e l IH]; intros H Hw; cbn in *; [exact I|]. destruct Hw as [Ha Hw]. split.
  - rewrite (H e); [assumption|now left].
  - apply IH; [|assumption]. intros e' He'. apply H. now right.
Qed.

Lemma bal_create' u l i p v : u p = None -> bal_ok' u l i -> bal_ok' (upd u p (Some v)) l (upd i p v).
Proof.
  intros Hn [Hw Hb]. pose proof (Hb p) as Hp. rewrite Hn in Hp. split.
  - apply lin_wf_ext with (i := i); [|assumption]. intros e He. apply upd_other. now apply Hp.
  - intros q. destruct (upd_cases u p (Some v) q) as [[-> Hu]|[Hne Hu]]; rewrite Hu.
    + rewrite upd_same. symmetry. now apply cur_bal_none.
    + rewrite (upd_other i p v q Hne). apply Hb.
Qed.

Lemma bal_event' u l i tid p ev v u0 :
  u p = Some u0 -> v = apply_lev ev u0 -> bal_ok' u l i ->
  bal_ok' (upd u p (Some v)) ({| l_tid := tid; l_peer := p; l_ev := ev; l_after := v |} :: l) i.
Proof.
  intros Hu Hv [Hw Hb]. pose proof (Hb p) as Hp. rewrite Hu in Hp. split.
  - cbn. split; [|assumption]. now rewrite <- Hp.
  - intros q. destruct (upd_cases u p (Some v) q) as [[-> Hq]|[Hne Hq]]; rewrite Hq; cbn.
    + now rewrite N.eqb_refl.
    + destruct (N.eqb_spec p q) as [E|E]; [congruence|]. specialize (Hb q).
      destruct (u q); [assumption|]. intros e [<-|He]; [cbn; congruence | now apply Hb].
Qed.

Lemma bal_event_same' u l i tid p ev u0 :
  u p = Some u0 -> u0 = apply_lev ev u0 -> bal_ok' u l i ->
  bal_ok' u ({| l_tid := tid; l_peer := p; l_ev := ev; l_after := u0 |} :: l) i.
Proof.
  intros Hu Hv [Hw Hb]. pose proof (Hb p) as Hp. rewrite Hu in Hp. split.
  - cbn. split; [|assumption]. now rewrite <- Hp.
  - intros q. cbn. destruct (N.eqb_spec p q) as [E|E].
    + subst q. now rewrite Hu.
    + specialize (Hb q). destruct (u q); [assumption|]. intros e [<-|He]; [cbn; congruence | now apply Hb].
Qed.

Lemma cur_bal_nonneg r i l p : nn_ok' r i l -> 0 <= cur_bal p l (i p).
Proof.
  intros [_ [Hi Hl]]. induction l as [|e l IH]; cbn; [apply Hi|].
  inversion Hl; subst. destruct (N.eqb (l_peer e) p); [assumption|now apply IH].
Qed.

Lemma apply_lev_nonneg e u : 0 <= u -> (match e with Cr t => 0 <= t | Py _ => True end) -> 0 <= apply_lev e u.
Proof.
  intros Hu He. destruct e as [t|z]; cbn [apply_lev]; [lia|].
  destruct (u <=? 0) eqn:E1; [lia|]. destruct (u <? z) eqn:E2; lia.
Qed.

(** every step keeps "balance = fold of the linearisation" and non-negativity *)
Lemma micro_bal c tid s l s' :
  own_ok c s tid l -> loc_ok c s tid l -> micro_sh c tid s l = Some s' ->
  bal_ok s /\ nn_ok s -> bal_ok s' /\ nn_ok s'.
Proof.
  intros [Hwf [Hreg [Hex Hsn]]] [Hmir Hloc] Hm [Hb Hn]. unfold local_ok in Hloc. unfold micro_sh in Hm.
  pose proof (fun p => cur_bal_nonneg _ _ _ p Hn) as Hcb.
  destruct (micro c tid s l) as [|s1 l1|s1 d1] eqn:Hmm; inversion Hm; subst; clear Hm.
  all: own_cases Hmm Hwf; unfold bal_ok, nn_ok in *; cbn in *; try (split; assumption).
  all: try specialize (Hmir eq_refl).
  (* PutRetrieveTraffic *)
  all: try (match goal with |- context [upd (retr (en ?s0)) ?p0 ?v0] =>
            split; [assumption|]; destruct Hn as [Hr [Hi Hl]]; repeat split; try assumption;
            intros q; destruct (upd_cases (retr (en s0)) p0 v0 q) as [[-> Hu]|[_ Hu]];
            rewrite Hu; [specialize (Hr p0); lia | apply Hr] end).
  (* environment *)
  all: try (split; [assumption|]; match goal with e : envop |- _ => destruct e; cbn; assumption end).
  (* creation of the accountingPeer *)
  all: try (match goal with |- context [upd (init ?s0) ?p0 ?v0] =>
            split; [now apply bal_create'|];
            destruct Hn as [Hr [Hi Hl]]; repeat split; try assumption;
            intros q; destruct (upd_cases (init s0) p0 v0 q) as [[-> Hu]|[_ Hu]]; rewrite Hu; [apply Hr|apply Hi] end).
  (* credit / payment events *)
  all: destruct Hb as [Hw Hbb];
       match goal with H : unpaid ?s0 ?p0 = Some _ |- _ => pose proof (Hbb p0) as Hp; rewrite H in Hp; pose proof (Hcb p0) as Hc0 end.
  all: split;
       [ first [ eapply bal_event'; [eassumption| |split; assumption] | eapply bal_event_same'; [eassumption| |split; assumption] ];
         cbn [apply_lev]; try reflexivity;
         repeat match goal with |- context [if ?b then _ else _] => destruct b eqn:? end; try reflexivity; try lia
       | destruct Hn as [Hr [Hi Hl]]; repeat split; try assumption; constructor; [cbn|assumption];
         subst;
         repeat match goal with |- context [if ?b then _ else _] => destruct b eqn:? end; lia ].
Qed.

Definition Inv3 (c : cfg) (s : st) : Prop := Inv12 c s /\ bal_ok (shs s) /\ nn_ok (shs s).

Lemma Inv3_step c s w : Inv3 c s -> Inv3 c (step c s w).
Proof.
  intros [[H1 H2] Hb]. split; [split; [now apply Inv1_step | now apply Inv2_step]|].
  destruct w as [|tid0]; cbn [step].
  - cbn. unfold step_settler, bal_ok, nn_ok in *. destruct (sreg (shs s)); [|destruct (chan (shs s))]; cbn; assumption.
  - destruct (step_thread_tstep c tid0 s) as [->|l0 r sh' l' Hs Hm ->|l0 r sh' d Hs Hm ->]; [assumption| |]; cbn.
    + eapply micro_bal; eauto using standing_own, standing_loc, micro_sh_next.
    + eapply micro_bal; eauto using standing_own, standing_loc, micro_sh_fin.
Qed.

Lemma Inv3_run c e progs sched :
  (forall p, 0 <= retr e p) -> Inv3 c (run c sched (st0 e progs)).
Proof.
  intros He. unfold run. apply fold_left_inv; [intros; now apply Inv3_step|].
  split; [split; [apply Inv1_init | apply Inv2_init]|]. split.
  - split; [exact I|]. intros p. cbn. intros e0 [].
  - repeat split; cbn; [assumption | intros; lia | constructor].
Qed.

(** [cur_bal] is the fold of the peer's events in linearisation order *)
Lemma fold_bal_app evs e i : fold_bal (evs ++ [e]) i = apply_lev e (fold_bal evs i).
Proof. unfold fold_bal. now rewrite fold_left_app. Qed.

Lemma events_of_cons p e l :
  events_of p (e :: l) = events_of p l ++ (if N.eqb (l_peer e) p then [l_ev e] else []).
Proof.
  unfold events_of. cbn [rev]. rewrite filter_app, map_app. cbn [filter].
  destruct (N.eqb (l_peer e) p); reflexivity.
Qed.

Lemma cur_bal_fold p l i : lin_wf l i -> cur_bal p l (i p) = fold_bal (events_of p l) (i p).
Proof.
  induction l as [|e l IH]; intros Hw; [reflexivity|]. cbn in Hw. destruct Hw as [Ha Hw].
  rewrite events_of_cons. cbn [cur_bal]. destruct (N.eqb_spec (l_peer e) p) as [E|E].
  - rewrite fold_bal_app, <- IH by assumption. subst p. exact Ha.
  - rewrite app_nil_r. now apply IH.
Qed.

Lemma events_of_none p l : (forall e, In e l -> l_peer e <> p) -> events_of p l = [].
Proof.
  induction l as [|e l IH]; intros H; [reflexivity|]. rewrite events_of_cons, IH.
  - destruct (N.eqb_spec (l_peer e) p) as [E|E]; [|reflexivity]. exfalso. apply (H e); [now left|assumption].
  - intros e' He'. apply H. now right.
Qed.
