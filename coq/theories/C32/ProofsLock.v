(** C32 — lock ownership invariant and the lock discipline. *)
From Coq Require Import List NArith ZArith Bool Lia ZifyN.
Import ListNotations.
Require Import Aurora.C32.Model Aurora.C32.ProofsBase.
Local Open Scope Z_scope.

(** ---- the heap of big.Int cells ---- *)
Definition heap_ok' (u : N -> option Z) (pt : N -> option N) (h : N -> option Z) (n : N) : Prop :=
  (forall p, match pt p with
             | Some a => u p <> None /\ h a = u p
             | None => u p = None
             end) /\
  (forall a, h a <> None -> (a < n)%N).
(** the field of every existing peer points to an allocated cell holding its
    balance; everything allocated lies below the allocator *)
Definition heap_ok (s : sh) : Prop := heap_ok' (unpaid s) (ptr s) (heap s) (next s).

Lemma heap_ok_write_new u pt h n p v :
  heap_ok' u pt h n -> heap_ok' (upd u p (Some v)) (upd pt p (Some n)) (upd h n (Some v)) (n + 1)%N.
Proof.
  intros [H1 H2]. split.
  - intros q. destruct (upd_cases pt p (Some n) q) as [[-> Hu]|[Hne Hu]]; rewrite Hu.
    + rewrite !upd_same. split; [discriminate|reflexivity].
    + rewrite (upd_other u p (Some v) q Hne). specialize (H1 q). destruct (pt q) as [a|]; [|assumption].
      destruct H1 as [Hn He]. split; [assumption|]. rewrite upd_other; [assumption|].
      assert (a < n)%N by (apply H2; congruence). lia.
  - intros a Ha. destruct (upd_cases h n (Some v) a) as [[-> _]|[Hne Hu]]; [lia|].
    rewrite Hu in Ha. specialize (H2 a Ha). lia.
Qed.

(** NO STEP WRITES TO AN ALLOCATED CELL: a published big.Int is immutable *)
Lemma micro_heap c tid s l s' :
  heap_ok s -> micro_sh c tid s l = Some s' ->
  heap_ok s' /\ (forall a v, heap s a = Some v -> heap s' a = Some v).
Proof.
  intros Hh Hm. unfold micro_sh in Hm.
  destruct (micro c tid s l) as [|s1 l1|s1 d1] eqn:Hmm; inversion Hm; subst; clear Hm.
  all: micro_inv Hmm; unfold heap_ok in *; cbn; try (split; [assumption|intros; assumption]).
  all: split; [now apply heap_ok_write_new|].
  all: intros a v Ha; rewrite upd_other; [assumption|];
       destruct Hh as [_ H2]; assert (a < next s)%N by (apply H2; congruence); lia.
Qed.

Lemma settler_heap s : heap_ok s -> heap_ok (step_settler s) /\ heap (step_settler s) = heap s.
Proof. unfold step_settler, heap_ok. destruct (sreg s); [|destruct (chan s)]; cbn; auto. Qed.

(** thread [tid] standing at [l]: its program point belongs to its operation,
    inside a region it owns the peer lock, after getAccountingPeer the peer
    exists, and the cell whose address Reserve copied still holds the value it
    held when the pointer was copied *)
Definition snap_pt (p : pt) : bool := match p with PUnlockR | PDeref => true | _ => false end.
Definition own_ok (c : cfg) (s : sh) (tid : N) (l : loc) : Prop :=
  wf_pt c (l_op l) (l_pt l) = true /\
  (in_region (l_pt l) = true -> lock s (peer_of (l_op l)) = Some tid) /\
  (past_get (l_pt l) = true -> unpaid s (peer_of (l_op l)) <> None) /\
  (snap_pt (l_pt l) = true -> heap s (rptr l) = Some (reg l)).

Definition Inv1t (c : cfg) (s : st) : Prop :=
  forall tid l, cur (thr s tid) = Some l -> own_ok c (shs s) tid l.
Definition Inv1 (c : cfg) (s : st) : Prop := heap_ok (shs s) /\ Inv1t c s.

Lemma own_ok_start c s tid o : own_ok c s tid (start o).
Proof.
  unfold own_ok. destruct o; cbn; repeat split; intros; discriminate.
Qed.

Lemma standing_own c s tid l r :
  Inv1 c s -> standing (thr s tid) = Some (l, r) -> own_ok c (shs s) tid l.
Proof.
  intros [_ HI] Hs. apply standing_cases in Hs as [[Hc _]|[_ [o [_ ->]]]].
  - now apply HI.
  - apply own_ok_start.
Qed.

Ltac own_cases Hm Hwf :=
  micro_inv Hm;
  try match goal with E : l_pt ?l = _ |- _ => rewrite E in * end;
  destruct (l_op _) eqn:Eo; cbn in Hwf; try discriminate Hwf.

(** the thread's own step keeps its own facts *)
Lemma micro_own_next c tid s l s' l' :
  heap_ok s -> own_ok c s tid l -> micro c tid s l = Next s' l' -> own_ok c s' tid l'.
Proof.
  intros Hh [Hwf [Hreg [Hex Hsn]]] Hm.
  own_cases Hm Hwf; unfold own_ok; cbn in *; rewrite ?Eo; cbn;
    try (destruct (reserve_locks c) eqn:Erl; cbn in *; try discriminate);
    repeat split; intros; try discriminate; try reflexivity; try assumption;
    rewrite ?upd_same; try congruence; auto.
  all: destruct Hh as [Hh1 _];
       match goal with H : ptr ?s0 ?p0 = Some _ |- _ => specialize (Hh1 p0); rewrite H in Hh1; destruct Hh1; congruence end.
Qed.

(** effect of anybody's step on the locks *)
Lemma micro_lock_eff c tid s l s' q :
  micro_sh c tid s l = Some s' ->
  lock s' q = lock s q \/
  (q = peer_of (l_op l) /\ l_pt l = PLock /\ lock s q = None) \/
  (q = peer_of (l_op l) /\ in_region (l_pt l) = true /\ lock s' q = None).
Proof.
  unfold micro_sh. destruct (micro c tid s l) as [|s1 l1|s1 d1] eqn:Hm; intros H; inversion H; subst; clear H.
  all: micro_inv Hm; cbn.
  all: try (left; reflexivity).
  all: match goal with |- context [upd (lock ?s0) ?k ?v ?x] =>
         destruct (upd_cases (lock s0) k v x) as [[Hq Hu]|[Hn Hu]]; rewrite Hu end.
  all: try (left; reflexivity).
  all: try (right; left; subst; repeat split; assumption).
  all: right; right; repeat split; try assumption;
       match goal with E : l_pt _ = _ |- _ => rewrite E; reflexivity end.
Qed.

Lemma micro_unpaid_mono c tid s l s' q :
  micro_sh c tid s l = Some s' -> unpaid s q <> None -> unpaid s' q <> None.
Proof.
  unfold micro_sh. destruct (micro c tid s l) as [|s1 l1|s1 d1] eqn:Hm; intros H; inversion H; subst; clear H.
  all: micro_inv Hm; cbn; intros Hq; try assumption.
  all: match goal with |- context [upd (unpaid ?s0) ?k ?v ?x] =>
         destruct (upd_cases (unpaid s0) k v x) as [[Hk Hu]|[Hn Hu]]; rewrite Hu; [discriminate|assumption] end.
Qed.

(** another thread's step keeps my facts *)
Lemma micro_own_frame c tid0 s l0 s' tid l :
  heap_ok s -> tid <> tid0 -> own_ok c s tid0 l0 -> micro_sh c tid0 s l0 = Some s' ->
  own_ok c s tid l -> own_ok c s' tid l.
Proof.
  intros Hh Hne [_ [Hreg0 _]] Hm [Hwf [Hreg [Hex Hsn]]]. repeat split; [assumption| | |].
  - intros Hin. specialize (Hreg Hin).
    destruct (micro_lock_eff c tid0 s l0 s' (peer_of (l_op l)) Hm) as [He|[[_ [_ Hn]]|[Hq [Hin0 _]]]].
    + now rewrite He.
    + congruence.
    + specialize (Hreg0 Hin0). rewrite <- Hq in Hreg0. congruence.
  - intros Hp. eapply micro_unpaid_mono; eauto.
  - intros Hs. apply (proj2 (micro_heap c tid0 s l0 s' Hh Hm)). now apply Hsn.
Qed.

Lemma micro_sh_next c tid s l s' l' : micro c tid s l = Next s' l' -> micro_sh c tid s l = Some s'.
Proof. unfold micro_sh. now intros ->. Qed.
Lemma micro_sh_fin c tid s l s' d : micro c tid s l = Fin s' d -> micro_sh c tid s l = Some s'.
Proof. unfold micro_sh. now intros ->. Qed.

Lemma Inv1_step c s w : Inv1 c s -> Inv1 c (step c s w).
Proof.
  intros [Hh HI]. destruct w as [|tid0]; cbn [step].
  - (* settle goroutine: touches neither locks nor balances nor the heap *)
    destruct (settler_heap _ Hh) as [Hh' He]. split; [exact Hh'|].
    intros tid l Hc. cbn in Hc. specialize (HI tid l Hc). unfold own_ok in *. cbn. rewrite He. unfold step_settler.
    destruct (sreg (shs s)); [|destruct (chan (shs s))]; cbn; assumption.
  - destruct (step_thread_tstep c tid0 s) as [->|l0 r sh' l' Hs Hm ->|l0 r sh' d Hs Hm ->]; [now split| |].
    + pose proof (standing_own c s tid0 l0 r (conj Hh HI) Hs) as H0.
      split; [exact (proj1 (micro_heap _ _ _ _ _ Hh (micro_sh_next _ _ _ _ _ _ Hm)))|].
      intros tid l Hc. cbn in Hc |- *. destruct (upd_cases (thr s) tid0 {| prog := r; cur := Some l'; done := done (thr s tid0) |} tid) as [[-> Hu]|[Hn Hu]];
        rewrite Hu in Hc.
      * cbn in Hc. inversion Hc; subst. eapply micro_own_next; eauto.
      * eapply micro_own_frame; eauto using micro_sh_next.
    + pose proof (standing_own c s tid0 l0 r (conj Hh HI) Hs) as H0.
      split; [exact (proj1 (micro_heap _ _ _ _ _ Hh (micro_sh_fin _ _ _ _ _ _ Hm)))|].
      intros tid l Hc. cbn in Hc |- *. destruct (upd_cases (thr s) tid0 {| prog := r; cur := None; done := d :: done (thr s tid0) |} tid) as [[-> Hu]|[Hn Hu]];
        rewrite Hu in Hc.
      * cbn in Hc. discriminate.
      * eapply micro_own_frame; eauto using micro_sh_fin.
Qed.

Lemma Inv1_init c e progs : Inv1 c (st0 e progs).
Proof.
  split.
  - split; cbn; [intros p; reflexivity | intros a Ha; now elim Ha].
  - intros tid l Hc. cbn in Hc. discriminate.
Qed.

Lemma Inv1_run c e progs sched : Inv1 c (run c sched (st0 e progs)).
Proof. unfold run. apply fold_left_inv; [intros; now apply Inv1_step | apply Inv1_init]. Qed.

(** a cell, once allocated, keeps its value along every execution *)
Lemma heap_immutable_step c s w a v :
  Inv1 c s -> heap (shs s) a = Some v -> heap (shs (step c s w)) a = Some v.
Proof.
  intros [Hh _] Ha. destruct w as [|tid0]; cbn [step].
  - cbn. now rewrite (proj2 (settler_heap _ Hh)).
  - destruct (step_thread_tstep c tid0 s) as [->|l0 r sh' l' Hs Hm ->|l0 r sh' d Hs Hm ->]; [assumption| |]; cbn.
    + exact (proj2 (micro_heap _ _ _ _ _ Hh (micro_sh_next _ _ _ _ _ _ Hm)) a v Ha).
    + exact (proj2 (micro_heap _ _ _ _ _ Hh (micro_sh_fin _ _ _ _ _ _ Hm)) a v Ha).
Qed.

Lemma heap_immutable_run c sched s a v :
  Inv1 c s -> heap (shs s) a = Some v -> heap (shs (run c sched s)) a = Some v.
Proof.
  revert s. unfold run. induction sched as [|w r IH]; intros s HI Ha; cbn; [assumption|].
  apply IH; [now apply Inv1_step | now apply heap_immutable_step].
Qed.

(** ---- lock discipline ---- *)
Definition all_held (s : sh) : Prop := Forall (fun a => a_held a = true) (acc s).

Lemma owner_eqb_own s p tid : lock s p = Some tid -> owner_eqb (lock s p) tid = true.
Proof. intros ->. cbn. apply N.eqb_refl. Qed.

Lemma micro_acc_held c tid s l s' :
  reserve_locks c = true -> own_ok c s tid l -> micro_sh c tid s l = Some s' -> all_held s -> all_held s'.
Proof.
  intros Hrl [Hwf [Hreg _]] Hm Hall. unfold micro_sh in Hm.
  destruct (micro c tid s l) as [|s1 l1|s1 d1] eqn:Hmm; inversion Hm; subst; clear Hm;
    own_cases Hmm Hwf; unfold all_held in *; cbn in *; try assumption;
    try (rewrite Hrl in Hwf; discriminate);
    try (constructor; [cbn; apply owner_eqb_own; cbn; auto | assumption]).
Qed.

Lemma discipline_step c s w : reserve_locks c = true -> Inv1 c s -> all_held (shs s) -> all_held (shs (step c s w)).
Proof.
  intros Hrl HI Hall. destruct w as [|tid0]; cbn [step].
  - cbn. unfold step_settler, all_held in *. destruct (sreg (shs s)); [|destruct (chan (shs s))]; cbn; assumption.
  - destruct (step_thread_tstep c tid0 s) as [->|l0 r sh' l' Hs Hm ->|l0 r sh' d Hs Hm ->]; [assumption| |]; cbn.
    + eapply micro_acc_held; eauto using standing_own, micro_sh_next.
    + eapply micro_acc_held; eauto using standing_own, micro_sh_fin.
Qed.

Lemma discipline_run c e progs sched :
  reserve_locks c = true -> all_held (shs (run c sched (st0 e progs))).
Proof.
  intros Hrl.
  enough (H : Inv1 c (run c sched (st0 e progs)) /\ all_held (shs (run c sched (st0 e progs)))) by apply H.
  unfold run. apply fold_left_inv with (P := fun s => Inv1 c s /\ all_held (shs s)).
  - intros s w [HI Ha]. split; [now apply Inv1_step | now apply discipline_step].
  - split; [apply Inv1_init | constructor].
Qed.

(** two different threads are never both about to touch the same balance *)
Lemma no_concurrent_access c s t1 t2 l1 l2 :
  reserve_locks c = true -> Inv1 c s ->
  cur (thr s t1) = Some l1 -> cur (thr s t2) = Some l2 ->
  touches (l_pt l1) = true -> touches (l_pt l2) = true ->
  peer_of (l_op l1) = peer_of (l_op l2) -> t1 = t2.
Proof.
  intros Hrl HI H1 H2 T1 T2 Hp.
  destruct (proj2 HI _ _ H1) as [W1 [R1 _]]. destruct (proj2 HI _ _ H2) as [W2 [R2 _]].
  assert (I1 : in_region (l_pt l1) = true).
  { destruct (l_pt l1); try discriminate; try reflexivity. destruct (l_op l1); cbn in W1; rewrite ?Hrl in W1; discriminate. }
  assert (I2 : in_region (l_pt l2) = true).
  { destruct (l_pt l2); try discriminate; try reflexivity. destruct (l_op l2); cbn in W2; rewrite ?Hrl in W2; discriminate. }
  specialize (R1 I1). specialize (R2 I2). rewrite Hp in R1. congruence.
Qed.
