(** C32 — lock ownership invariant and the lock discipline. *)
From Coq Require Import List NArith ZArith Bool Lia.
Import ListNotations.
Require Import Aurora.C32.Model Aurora.C32.ProofsBase.
Local Open Scope Z_scope.

(** thread [tid] standing at [l]: its program point belongs to its operation,
    inside a region it owns the peer lock, after getAccountingPeer the peer exists *)
Definition own_ok (c : cfg) (s : sh) (tid : N) (l : loc) : Prop :=
  wf_pt c (l_op l) (l_pt l) = true /\
  (in_region (l_pt l) = true -> lock s (peer_of (l_op l)) = Some tid) /\
  (past_get (l_pt l) = true -> unpaid s (peer_of (l_op l)) <> None).

Definition Inv1 (c : cfg) (s : st) : Prop :=
  forall tid l, cur (thr s tid) = Some l -> own_ok c (shs s) tid l.

Lemma own_ok_start c s tid o : own_ok c s tid (start o).
Proof.
  unfold own_ok. destruct o; cbn; repeat split; intros; discriminate.
Qed.

Lemma standing_own c s tid l r :
  Inv1 c s -> standing (thr s tid) = Some (l, r) -> own_ok c (shs s) tid l.
Proof.
  intros HI Hs. apply standing_cases in Hs as [[Hc _]|[_ [o [_ ->]]]].
  - now apply HI.
  - apply own_ok_start.
Qed.

Ltac own_cases Hm Hwf :=
  micro_inv Hm;
  try match goal with E : l_pt ?l = _ |- _ => rewrite E in * end;
  destruct (l_op _) eqn:Eo; cbn in Hwf; try discriminate Hwf.

(** the thread's own step keeps its own facts *)
Lemma micro_own_next c tid s l s' l' :
  own_ok c s tid l -> micro c tid s l = Next s' l' -> own_ok c s' tid l'.
Proof.
  intros [Hwf [Hreg Hex]] Hm.
  own_cases Hm Hwf; unfold own_ok; cbn in *; rewrite ?Eo; cbn;
    try (destruct (reserve_locks c) eqn:Erl; cbn in *; try discriminate);
    repeat split; intros; try discriminate; try reflexivity; try assumption;
    rewrite ?upd_same; try congruence; auto.
Qed.

(** effect of anybody's step on the locks *)
Lemma micro_lock_eff c tid s l s' q :
  micro_sh c tid s l = Some s' ->
  lock s' q = lock s q \/
  (q = peer_of (l_op l) /\ l_pt l = PLock /\ lock s q = None) \/
  (q = peer_of (l_op l) /\ in_region (l_pt l) = true /\ lock s' q = None).
Proof.
  unfold micro_sh. destruct (micro c tid s l) as [|s1 l1|s1 d1] eqn:Hm; intros H; inversion H; subst; clear H.
  all: micro_inv Hm; cbn.
  all: try (left; reflexivity).
  all: match goal with |- context [upd (lock ?s0) ?k ?v ?x] =>
         destruct (upd_cases (lock s0) k v x) as [[Hq Hu]|[Hn Hu]]; rewrite Hu end.
  all: try (left; reflexivity).
  all: try (right; left; subst; repeat split; assumption).
  all: right; right; repeat split; try assumption;
       match goal with E : l_pt _ = _ |- _ => rewrite E; reflexivity end.
Qed.

Lemma micro_unpaid_mono c tid s l s' q :
  micro_sh c tid s l = Some s' -> unpaid s q <> None -> unpaid s' q <> None.
Proof.
  unfold micro_sh. destruct (micro c tid s l) as [|s1 l1|s1 d1] eqn:Hm; intros H; inversion H; subst; clear H.
  all: micro_inv Hm; cbn; intros Hq; try assumption.
  all: match goal with |- context [upd (unpaid ?s0) ?k ?v ?x] =>
         destruct (upd_cases (unpaid s0) k v x) as [[Hk Hu]|[Hn Hu]]; rewrite Hu; [discriminate|assumption] end.
Qed.

(** another thread's step keeps my facts *)
Lemma micro_own_frame c tid0 s l0 s' tid l :
  tid <> tid0 -> own_ok c s tid0 l0 -> micro_sh c tid0 s l0 = Some s' ->
  own_ok c s tid l -> own_ok c s' tid l.
Proof.
  intros Hne [_ [Hreg0 _]] Hm [Hwf [Hreg Hex]]. repeat split; [assumption| |].
  - intros Hin. specialize (Hreg Hin).
    destruct (micro_lock_eff c tid0 s l0 s' (peer_of (l_op l)) Hm) as [He|[[_ [_ Hn]]|[Hq [Hin0 _]]]].
    + now rewrite He.
    + congruence.
    + specialize (Hreg0 Hin0). rewrite <- Hq in Hreg0. congruence.
  - intros Hp. eapply micro_unpaid_mono; eauto.
Qed.

Lemma micro_sh_next c tid s l s' l' : micro c tid s l = Next s' l' -> micro_sh c tid s l = Some s'.
Proof. unfold micro_sh. now intros ->. Qed.
Lemma micro_sh_fin c tid s l s' d : micro c tid s l = Fin s' d -> micro_sh c tid s l = Some s'.
Proof. unfold micro_sh. now intros ->. Qed.

Lemma Inv1_step c s w : Inv1 c s -> Inv1 c (step c s w).
Proof.
  intros HI. destruct w as [|tid0]; cbn [step].
  - (* settle goroutine: touches neither locks nor balances *)
    intros tid l Hc. cbn in Hc. specialize (HI tid l Hc). unfold own_ok in *. unfold step_settler.
    destruct (sreg (shs s)); [|destruct (chan (shs s))]; cbn; assumption.
  - destruct (step_thread_tstep c tid0 s) as [->|l0 r sh' l' Hs Hm ->|l0 r sh' d Hs Hm ->]; [assumption| |].
    + pose proof (standing_own c s tid0 l0 r HI Hs) as H0.
      intros tid l Hc. cbn in Hc |- *. destruct (upd_cases (thr s) tid0 {| prog := r; cur := Some l'; done := done (thr s tid0) |} tid) as [[-> Hu]|[Hn Hu]];
        rewrite Hu in Hc.
      * cbn in Hc. inversion Hc; subst. eapply micro_own_next; eauto.
      * eapply micro_own_frame; eauto using micro_sh_next.
    + pose proof (standing_own c s tid0 l0 r HI Hs) as H0.
      intros tid l Hc. cbn in Hc |- *. destruct (upd_cases (thr s) tid0 {| prog := r; cur := None; done := d :: done (thr s tid0) |} tid) as [[-> Hu]|[Hn Hu]];
        rewrite Hu in Hc.
      * cbn in Hc. discriminate.
      * eapply micro_own_frame; eauto using micro_sh_fin.
Qed.

Lemma Inv1_init c e progs : Inv1 c (st0 e progs).
Proof. intros tid l Hc. cbn in Hc. discriminate. Qed.

Lemma Inv1_run c e progs sched : Inv1 c (run c sched (st0 e progs)).
Proof. unfold run. apply fold_left_inv; [intros; now apply Inv1_step | apply Inv1_init]. Qed.

(** ---- lock discipline ---- *)
Definition all_held (s : sh) : Prop := Forall (fun a => a_held a = true) (acc s).

Lemma owner_eqb_own s p tid : lock s p = Some tid -> owner_eqb (lock s p) tid = true.
Proof. intros ->. cbn. apply N.eqb_refl. Qed.

Lemma micro_acc_held c tid s l s' :
  reserve_locks c = true -> own_ok c s tid l -> micro_sh c tid s l = Some s' -> all_held s -> all_held s'.
Proof.
  intros Hrl [Hwf [Hreg _]] Hm Hall. unfold micro_sh in Hm.
  destruct (micro c tid s l) as [|s1 l1|s1 d1] eqn:Hmm; inversion Hm; subst; clear Hm;
    own_cases Hmm Hwf; unfold all_held in *; cbn in *; try assumption;
    try (rewrite Hrl in Hwf; discriminate);
    try (constructor; [cbn; apply owner_eqb_own; cbn; auto | assumption]).
Qed.

Lemma discipline_step c s w : reserve_locks c = true -> Inv1 c s -> all_held (shs s) -> all_held (shs (step c s w)).
Proof.
  intros Hrl HI Hall. destruct w as [|tid0]; cbn [step].
  - cbn. unfold step_settler, all_held in *. destruct (sreg (shs s)); [|destruct (chan (shs s))]; cbn; assumption.
  - destruct (step_thread_tstep c tid0 s) as [->|l0 r sh' l' Hs Hm ->|l0 r sh' d Hs Hm ->]; [assumption| |]; cbn.
    + eapply micro_acc_held; eauto using standing_own, micro_sh_next.
    + eapply micro_acc_held; eauto using standing_own, micro_sh_fin.
Qed.

Lemma discipline_run c e progs sched :
  reserve_locks c = true -> all_held (shs (run c sched (st0 e progs))).
Proof.
  intros Hrl.
  enough (H : Inv1 c (run c sched (st0 e progs)) /\ all_held (shs (run c sched (st0 e progs)))) by apply H.
  unfold run. apply fold_left_inv with (P := fun s => Inv1 c s /\ all_held (shs s)).
  - intros s w [HI Ha]. split; [now apply Inv1_step | now apply discipline_step].
  - split; [apply Inv1_init | constructor].
Qed.

(** two different threads are never both about to touch the same balance *)
Lemma no_concurrent_access c s t1 t2 l1 l2 :
  reserve_locks c = true -> Inv1 c s ->
  cur (thr s t1) = Some l1 -> cur (thr s t2) = Some l2 ->
  touches (l_pt l1) = true -> touches (l_pt l2) = true ->
  peer_of (l_op l1) = peer_of (l_op l2) -> t1 = t2.
Proof.
  intros Hrl HI H1 H2 T1 T2 Hp.
  destruct (HI _ _ H1) as [W1 [R1 _]]. destruct (HI _ _ H2) as [W2 [R2 _]].
  assert (I1 : in_region (l_pt l1) = true).
  { destruct (l_pt l1); try discriminate; try reflexivity. destruct (l_op l1); cbn in W1; rewrite ?Hrl in W1; discriminate. }
  assert (I2 : in_region (l_pt l2) = true).
  { destruct (l_pt l2); try discriminate; try reflexivity. destruct (l_op l2); cbn in W2; rewrite ?Hrl in W2; discriminate. }
  specialize (R1 I1). specialize (R2 I2). rewrite Hp in R1. congruence.
Qed.
