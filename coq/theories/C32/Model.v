(** C32 — model of pkg/accounting/accounting.go (Reserve / Credit / Debit /
    NotifyPayment / settle loop) together with the settlement stub it talks to.
    Definitions only (computable); proofs are in Proofs*.v.

    Granularity.  A goroutine executing one operation is a small program
    counter machine ([pt]); one micro step is ONE of: the getAccountingPeer
    region (map mutex), a Lock, an Unlock, one read of [unPaidTraffic], one
    write of [unPaidTraffic], one call into the settlement interface, one
    channel send / receive.  The read and the write of
    [unPaidTraffic = Add(unPaidTraffic, t)] are different micro steps, so the
    balance theorems really depend on the peer lock.  The field holds a
    *big.Int: [ptr] is the address stored in the field, [heap] the allocated
    big.Int cells ([unpaid] is the value seen through the field, kept alongside;
    [heap_ok] in ProofsLock.v proves the two agree).  Every update of the field
    installs a NEW cell ([write_new]); Reserve copies the pointer under the lock
    and reads the cell after Unlock ([PDeref]).  A schedule is a list of
    [who] (the settle goroutine or a worker thread id); a step of a thread
    that is not enabled (lock taken, channel full/empty, program finished)
    leaves the state unchanged.

    [reserve_locks c = true] is the repaired Reserve (proposed/C32/fix-reserve-lock.patch:
    Lock; read; Unlock); [false] is the code as found (read without the lock). *)
From Coq Require Import List NArith ZArith Bool.
Import ListNotations.
Local Open Scope Z_scope.

Definition upd {A} (f : N -> A) (k : N) (v : A) : N -> A :=
  fun x => if N.eqb x k then v else f x.

Record cfg := { threshold : Z; tolerance : Z; chancap : nat; reserve_locks : bool }.

(** ---- operations ---- *)
Inductive failkind := FRetrieve | FPutRetrieve | FAvail | FTransfer | FPutTransfer.
Definition failkind_eqb (a b : failkind) : bool :=
  match a, b with
  | FRetrieve, FRetrieve | FPutRetrieve, FPutRetrieve | FAvail, FAvail
  | FTransfer, FTransfer | FPutTransfer, FPutTransfer => true
  | _, _ => false
  end.

(** things the environment (the settlement service, the chain) does *)
Inductive envop :=
| ESetAvail (z : Z)                 (* AvailableBalance() changes *)
| ESetTransfer (p : N) (z : Z)      (* a cheque arrived: unsettled served traffic of p changes *)
| ESetFail (k : failkind) (b : bool). (* a settlement call starts / stops failing *)

Inductive op :=
| OReserve (p t : N)                (* Reserve(peer, traffic uint64) *)
| OCredit (p t : N)                 (* Credit(ctx, peer, traffic uint64) *)
| ODebit (p t : N)                  (* Debit(peer, traffic uint64) *)
| ONotify (p : N) (z : Z)           (* NotifyPayment(peer, *big.Int) *)
| OEnv (e : envop).

Inductive result :=
| ROk | RLow | RBlocked               (* nil, ErrLowAvailableExceeded, BlockPeerError *)
| RErrGet | RErrPut | RErrAvail | RErrTransfer | RErrPutTransfer  (* error of that settlement call passed through *)
| RPanic.                             (* nil accountingPeer: shown unreachable *)

(** ---- settlement stub ---- *)
Record env := { retr : N -> Z; transf : N -> Z; avail : Z; fails : failkind -> bool }.

Definition apply_env (e : envop) (v : env) : env :=
  match e with
  | ESetAvail z => {| retr := retr v; transf := transf v; avail := z; fails := fails v |}
  | ESetTransfer p z => {| retr := retr v; transf := upd (transf v) p z; avail := avail v; fails := fails v |}
  | ESetFail k b => {| retr := retr v; transf := transf v; avail := avail v;
                       fails := fun k' => if failkind_eqb k' k then b else fails v k' |}
  end.
Definition put_retr (p : N) (t : Z) (v : env) : env :=
  {| retr := upd (retr v) p (retr v p + t); transf := transf v; avail := avail v; fails := fails v |}.
Definition put_transf (p : N) (t : Z) (v : env) : env :=
  {| retr := retr v; transf := upd (transf v) p (transf v p + t); avail := avail v; fails := fails v |}.

(** ---- ghost bookkeeping ---- *)
Inductive lev := Cr (t : Z) | Py (z : Z).
(** effect of a linearised event on the unpaid balance: Credit adds,
    NotifyPayment is the guarded monus of the code *)
Definition apply_lev (e : lev) (u : Z) : Z :=
  match e with
  | Cr t => u + t
  | Py z => if u <=? 0 then u else if u <? z then 0 else u - z
  end.
Record lentry := { l_tid : N; l_peer : N; l_ev : lev; l_after : Z }.
Inductive rw := Rd | Wr.
Record access := { a_tid : N; a_peer : N; a_rw : rw; a_held : bool }.

(** ---- shared state ---- *)
Record sh := {
  unpaid : N -> option Z;          (* VALUE of accountingPeers[p].unPaidTraffic; None: no accountingPeer yet *)
  ptr : N -> option N;             (* the *big.Int stored in accountingPeers[p].unPaidTraffic (address of a heap cell) *)
  heap : N -> option Z;            (* allocated big.Int cells *)
  next : N;                        (* allocator: first address never handed out *)
  lock : N -> option N;            (* accountingPeers[p].lock: owner thread *)
  chan : list (N * Z);             (* payChan, oldest first *)
  sreg : option (N * Z);           (* request the settle goroutine holds between receive and Pay *)
  pays : list (N * Z);             (* settlement.Pay calls, newest first *)
  en : env;
  (* ghost *)
  init : N -> Z;                   (* balance the accountingPeer was created with *)
  lin : list lentry;               (* linearisation of credits / payments, newest first *)
  acc : list access;               (* every access to an unPaidTraffic field, newest first *)
  sent : list (N * (N * Z));       (* channel sends (thread, request), newest first *)
  puts : list (N * (N * Z))        (* PutTransferTraffic calls (thread, (peer, amount)), newest first *)
}.

Definition set_unpaid f s := {| unpaid := f; ptr := ptr s; heap := heap s; next := next s; lock := lock s; chan := chan s; sreg := sreg s; pays := pays s; en := en s; init := init s; lin := lin s; acc := acc s; sent := sent s; puts := puts s |}.
Definition set_ptr f s := {| unpaid := unpaid s; ptr := f; heap := heap s; next := next s; lock := lock s; chan := chan s; sreg := sreg s; pays := pays s; en := en s; init := init s; lin := lin s; acc := acc s; sent := sent s; puts := puts s |}.
Definition set_heap f s := {| unpaid := unpaid s; ptr := ptr s; heap := f; next := next s; lock := lock s; chan := chan s; sreg := sreg s; pays := pays s; en := en s; init := init s; lin := lin s; acc := acc s; sent := sent s; puts := puts s |}.
Definition set_next f s := {| unpaid := unpaid s; ptr := ptr s; heap := heap s; next := f; lock := lock s; chan := chan s; sreg := sreg s; pays := pays s; en := en s; init := init s; lin := lin s; acc := acc s; sent := sent s; puts := puts s |}.
Definition set_lock f s := {| unpaid := unpaid s; ptr := ptr s; heap := heap s; next := next s; lock := f; chan := chan s; sreg := sreg s; pays := pays s; en := en s; init := init s; lin := lin s; acc := acc s; sent := sent s; puts := puts s |}.
Definition set_chan f s := {| unpaid := unpaid s; ptr := ptr s; heap := heap s; next := next s; lock := lock s; chan := f; sreg := sreg s; pays := pays s; en := en s; init := init s; lin := lin s; acc := acc s; sent := sent s; puts := puts s |}.
Definition set_sreg f s := {| unpaid := unpaid s; ptr := ptr s; heap := heap s; next := next s; lock := lock s; chan := chan s; sreg := f; pays := pays s; en := en s; init := init s; lin := lin s; acc := acc s; sent := sent s; puts := puts s |}.
Definition set_pays f s := {| unpaid := unpaid s; ptr := ptr s; heap := heap s; next := next s; lock := lock s; chan := chan s; sreg := sreg s; pays := f; en := en s; init := init s; lin := lin s; acc := acc s; sent := sent s; puts := puts s |}.
Definition set_en f s := {| unpaid := unpaid s; ptr := ptr s; heap := heap s; next := next s; lock := lock s; chan := chan s; sreg := sreg s; pays := pays s; en := f; init := init s; lin := lin s; acc := acc s; sent := sent s; puts := puts s |}.
Definition set_init f s := {| unpaid := unpaid s; ptr := ptr s; heap := heap s; next := next s; lock := lock s; chan := chan s; sreg := sreg s; pays := pays s; en := en s; init := f; lin := lin s; acc := acc s; sent := sent s; puts := puts s |}.
Definition set_lin f s := {| unpaid := unpaid s; ptr := ptr s; heap := heap s; next := next s; lock := lock s; chan := chan s; sreg := sreg s; pays := pays s; en := en s; init := init s; lin := f; acc := acc s; sent := sent s; puts := puts s |}.
Definition set_acc f s := {| unpaid := unpaid s; ptr := ptr s; heap := heap s; next := next s; lock := lock s; chan := chan s; sreg := sreg s; pays := pays s; en := en s; init := init s; lin := lin s; acc := f; sent := sent s; puts := puts s |}.
Definition set_sent f s := {| unpaid := unpaid s; ptr := ptr s; heap := heap s; next := next s; lock := lock s; chan := chan s; sreg := sreg s; pays := pays s; en := en s; init := init s; lin := lin s; acc := acc s; sent := f; puts := puts s |}.
Definition set_puts f s := {| unpaid := unpaid s; ptr := ptr s; heap := heap s; next := next s; lock := lock s; chan := chan s; sreg := sreg s; pays := pays s; en := en s; init := init s; lin := lin s; acc := acc s; sent := sent s; puts := f |}.

Definition owner_eqb (o : option N) (tid : N) : bool :=
  match o with Some t => N.eqb t tid | None => false end.

(** an access to unPaidTraffic of [p] by [tid]; [a_held] is COMPUTED from the
    lock state at that moment, it is not an annotation *)
Definition log_acc (tid p : N) (k : rw) (s : sh) : sh :=
  set_acc ({| a_tid := tid; a_peer := p; a_rw := k; a_held := owner_eqb (lock s p) tid |} :: acc s) s.

(** install a NEW big.Int holding [v] in the unpaid field of [p]
    ([x.unPaidTraffic = big.NewInt(0).Add(..)], [new(big.Int).Sub(..)], [big.NewInt(0)],
    and the object handed out by RetrieveTraffic when the peer is created) *)
Definition write_new (p : N) (v : Z) (s : sh) : sh :=
  set_next (next s + 1)%N
    (set_heap (upd (heap s) (next s) (Some v))
       (set_ptr (upd (ptr s) p (Some (next s)))
          (set_unpaid (upd (unpaid s) p (Some v)) s))).

(** ---- thread-local state ---- *)
Inductive pt :=
| PGet                                  (* getAccountingPeer *)
| PLock                                 (* accountingPeer.lock.Lock() *)
| PRead | PUnlockR                      (* Reserve (repaired): copy the *big.Int under the lock, Unlock *)
| PReadNL                               (* Reserve (as found): copy the *big.Int without the lock *)
| PDeref                                (* Reserve: read the VALUE of the copied *big.Int, no lock held *)
| PAvail                                (* Reserve: settlement.AvailableBalance(), compare *)
| PCRead | PCWrite | PCPut | PCCheck | PCSend   (* Credit *)
| PDTransfer | PDPut                    (* Debit *)
| PNRead | PNWrite                      (* NotifyPayment *)
| PExit                                 (* deferred Unlock, return [pend] *)
| PEnv.

Record loc := { l_op : op; l_pt : pt; reg : Z; rptr : N; flag : bool; pend : result; lev_ : option lentry; putd : bool }.
(** record of a finished operation: result, last value held in the local
    variable (Credit: balance after its own add; Debit: TransferTraffic seen;
    Reserve / NotifyPayment: unpaid balance seen), whether it sent a payment
    request, its linearisation entry, whether it called PutTransferTraffic *)
Record drec := { d_op : op; d_res : result; d_reg : Z; d_flag : bool; d_lev : option lentry; d_put : bool }.
Record thread := { prog : list op; cur : option loc; done : list drec }.
Record st := { shs : sh; thr : N -> thread }.

Definition goto (l : loc) (p : pt) : loc := {| l_op := l_op l; l_pt := p; reg := reg l; rptr := rptr l; flag := flag l; pend := pend l; lev_ := lev_ l; putd := putd l |}.
Definition set_reg (l : loc) (v : Z) : loc := {| l_op := l_op l; l_pt := l_pt l; reg := v; rptr := rptr l; flag := flag l; pend := pend l; lev_ := lev_ l; putd := putd l |}.
Definition set_rptr (l : loc) (a : N) : loc := {| l_op := l_op l; l_pt := l_pt l; reg := reg l; rptr := a; flag := flag l; pend := pend l; lev_ := lev_ l; putd := putd l |}.
Definition set_flag (l : loc) (b : bool) : loc := {| l_op := l_op l; l_pt := l_pt l; reg := reg l; rptr := rptr l; flag := b; pend := pend l; lev_ := lev_ l; putd := putd l |}.
Definition set_lev (l : loc) (e : option lentry) : loc := {| l_op := l_op l; l_pt := l_pt l; reg := reg l; rptr := rptr l; flag := flag l; pend := pend l; lev_ := e; putd := putd l |}.
Definition set_putd (l : loc) (b : bool) : loc := {| l_op := l_op l; l_pt := l_pt l; reg := reg l; rptr := rptr l; flag := flag l; pend := pend l; lev_ := lev_ l; putd := b |}.
Definition exit_with (l : loc) (r : result) : loc := {| l_op := l_op l; l_pt := PExit; reg := reg l; rptr := rptr l; flag := flag l; pend := r; lev_ := lev_ l; putd := putd l |}.
Definition mk_drec (l : loc) (r : result) : drec :=
  {| d_op := l_op l; d_res := r; d_reg := reg l; d_flag := flag l; d_lev := lev_ l; d_put := putd l |}.

Definition peer_of (o : op) : N :=
  match o with OReserve p _ | OCredit p _ | ODebit p _ | ONotify p _ => p | OEnv _ => 0%N end.
Definition amt (o : op) : Z :=
  match o with OReserve _ t | OCredit _ t | ODebit _ t => Z.of_N t | ONotify _ z => z | OEnv _ => 0 end.

Definition after_get (c : cfg) (o : op) : pt :=
  match o with OReserve _ _ => if reserve_locks c then PLock else PReadNL | _ => PLock end.
Definition after_lock (o : op) : pt :=
  match o with
  | OReserve _ _ => PRead | OCredit _ _ => PCRead | ODebit _ _ => PDTransfer | ONotify _ _ => PNRead
  | OEnv _ => PExit
  end.

Inductive outcome := Blocked | Next (s : sh) (l : loc) | Fin (s : sh) (d : drec).

Definition add_lin (e : lentry) (s : sh) : sh := set_lin (e :: lin s) s.

(** one micro step of thread [tid] standing at [l] *)
Definition micro (c : cfg) (tid : N) (s : sh) (l : loc) : outcome :=
  let o := l_op l in
  let p := peer_of o in
  match l_pt l with
  | PGet =>
      (* accountingPeersMu region: look up, else RetrieveTraffic + insert *)
      match unpaid s p with
      | Some _ => Next s (goto l (after_get c o))
      | None =>
          if fails (en s) FRetrieve then Fin s (mk_drec l RErrGet)
          else Next (set_init (upd (init s) p (retr (en s) p)) (write_new p (retr (en s) p) s))
                    (goto l (after_get c o))
      end
  | PLock =>
      match lock s p with
      | None => Next (set_lock (upd (lock s) p (Some tid)) s) (goto l (after_lock o))
      | Some _ => Blocked
      end
  | PRead =>
      (* retrieve := accountingPeer.unPaidTraffic : the POINTER is copied ([reg] keeps, as a ghost,
         the value it points to at this moment) *)
      match unpaid s p, ptr s p with
      | Some u, Some a => Next (log_acc tid p Rd s) (goto (set_rptr (set_reg l u) a) PUnlockR)
      | _, _ => Fin s (mk_drec l RPanic)
      end
  | PReadNL =>
      match unpaid s p, ptr s p with
      | Some u, Some a => Next (log_acc tid p Rd s) (goto (set_rptr (set_reg l u) a) PDeref)
      | _, _ => Fin s (mk_drec l RPanic)
      end
  | PUnlockR => Next (set_lock (upd (lock s) p None) s) (goto l PDeref)
  | PDeref =>
      (* big.NewInt(0).Add(retrieve, traffic): the value is read through the copied pointer, lock released *)
      match heap s (rptr l) with
      | Some v => Next s (goto (set_reg l v) PAvail)
      | None => Fin s (mk_drec l RPanic)
      end
  | PAvail =>
      if fails (en s) FAvail then Fin s (mk_drec l RErrAvail)
      else if avail (en s) <? reg l + amt o then Fin s (mk_drec l RLow)
      else Fin s (mk_drec l ROk)
  | PCRead =>
      match unpaid s p with
      | None => Fin s (mk_drec l RPanic)
      | Some u => Next (log_acc tid p Rd s) (goto (set_reg l u) PCWrite)
      end
  | PCWrite =>
      let v := reg l + amt o in
      let e := {| l_tid := tid; l_peer := p; l_ev := Cr (amt o); l_after := v |} in
      Next (add_lin e (log_acc tid p Wr (write_new p v s)))
           (goto (set_lev (set_reg l v) (Some e)) PCPut)
  | PCPut =>
      if fails (en s) FPutRetrieve then Next s (exit_with l RErrPut)
      else Next (set_en (put_retr p (amt o) (en s)) s) (goto l PCCheck)
  | PCCheck =>
      match unpaid s p with
      | None => Fin s (mk_drec l RPanic)
      | Some u =>
          if threshold c <=? u then Next (log_acc tid p Rd s) (goto (set_reg l u) PCSend)
          else Next (log_acc tid p Rd s) (exit_with (set_reg l u) ROk)
      end
  | PCSend =>
      if (length (chan s) <? chancap c)%nat
      then Next (set_sent ((tid, (p, threshold c)) :: sent s) (set_chan (chan s ++ [(p, threshold c)]) s))
                (exit_with (set_flag l true) ROk)
      else Blocked
  | PDTransfer =>
      if fails (en s) FTransfer then Next s (exit_with l RErrTransfer)
      else
        let v := transf (en s) p in
        if tolerance c <=? v then Next s (exit_with (set_reg l v) RBlocked)
        else Next s (goto (set_reg l v) PDPut)
  | PDPut =>
      if fails (en s) FPutTransfer then Next s (exit_with l RErrPutTransfer)
      else Next (set_puts ((tid, (p, amt o)) :: puts s) (set_en (put_transf p (amt o) (en s)) s))
                (exit_with (set_putd l true) ROk)
  | PNRead =>
      match unpaid s p with
      | None => Fin s (mk_drec l RPanic)
      | Some u =>
          if u <=? 0
          then let e := {| l_tid := tid; l_peer := p; l_ev := Py (amt o); l_after := u |} in
               Next (add_lin e (log_acc tid p Rd s)) (exit_with (set_lev (set_reg l u) (Some e)) ROk)
          else Next (log_acc tid p Rd s) (goto (set_reg l u) PNWrite)
      end
  | PNWrite =>
      let v := if reg l <? amt o then 0 else reg l - amt o in
      let e := {| l_tid := tid; l_peer := p; l_ev := Py (amt o); l_after := v |} in
      Next (add_lin e (log_acc tid p Wr (write_new p v s)))
           (exit_with (set_lev (set_reg l v) (Some e)) ROk)
  | PExit => Fin (set_lock (upd (lock s) p None) s) (mk_drec l (pend l))
  | PEnv =>
      match o with
      | OEnv e => Fin (set_en (apply_env e (en s)) s) (mk_drec l ROk)
      | _ => Blocked
      end
  end.

Definition start (o : op) : loc :=
  {| l_op := o; l_pt := match o with OEnv _ => PEnv | _ => PGet end;
     reg := 0; rptr := 0%N; flag := false; pend := ROk; lev_ := None; putd := false |}.

(** the point a thread stands at: inside an operation, or about to start the next *)
Definition standing (th : thread) : option (loc * list op) :=
  match cur th with
  | Some l => Some (l, prog th)
  | None => match prog th with [] => None | o :: r => Some (start o, r) end
  end.

Definition step_thread (c : cfg) (tid : N) (s : st) : st :=
  let th := thr s tid in
  match standing th with
  | None => s
  | Some (l, r) =>
      match micro c tid (shs s) l with
      | Blocked => s
      | Next s' l' => {| shs := s'; thr := upd (thr s) tid {| prog := r; cur := Some l'; done := done th |} |}
      | Fin s' d => {| shs := s'; thr := upd (thr s) tid {| prog := r; cur := None; done := d :: done th |} |}
      end
  end.

(** the settle goroutine: [for pay := range payChan { settlement.Pay(...) }] *)
Definition step_settler (s : sh) : sh :=
  match sreg s with
  | Some x => set_pays (x :: pays s) (set_sreg None s)
  | None => match chan s with [] => s | x :: r => set_sreg (Some x) (set_chan r s) end
  end.

Inductive who := Settler | W (tid : N).

Definition step (c : cfg) (s : st) (w : who) : st :=
  match w with
  | Settler => {| shs := step_settler (shs s); thr := thr s |}
  | W tid => step_thread c tid s
  end.

Definition run (c : cfg) (sched : list who) (s : st) : st := fold_left (step c) sched s.

Definition sh0 (e : env) : sh :=
  {| unpaid := fun _ => None; ptr := fun _ => None; heap := fun _ => None; next := 0%N; lock := fun _ => None; chan := []; sreg := None; pays := []; en := e;
     init := fun _ => 0; lin := []; acc := []; sent := []; puts := [] |}.
Definition st0 (e : env) (progs : N -> list op) : st :=
  {| shs := sh0 e; thr := fun tid => {| prog := progs tid; cur := None; done := [] |} |}.

(** ---- specification-side notions ---- *)

(** balance of [p] according to the linearisation [l] (newest first) *)
Fixpoint cur_bal (p : N) (l : list lentry) (i : Z) : Z :=
  match l with
  | [] => i
  | e :: l' => if N.eqb (l_peer e) p then l_after e else cur_bal p l' i
  end.
(** the events of peer [p], oldest first *)
Definition events_of (p : N) (l : list lentry) : list lev :=
  map l_ev (filter (fun e => N.eqb (l_peer e) p) (rev l)).
(** "credits minus notified payments", folded in linearisation order *)
Definition fold_bal (evs : list lev) (i : Z) : Z := fold_left (fun u e => apply_lev e u) evs i.

(** requests in flight or served, oldest first *)
Definition requests (s : sh) : list (N * Z) :=
  rev (pays s) ++ (match sreg s with Some x => [x] | None => [] end) ++ chan s.

(** program points whose next micro step reads or writes an unPaidTraffic field *)
Definition touches (p : pt) : bool :=
  match p with PRead | PReadNL | PCRead | PCWrite | PCCheck | PNRead | PNWrite => true | _ => false end.

(** the effect a finished operation must have had on the unpaid balance:
    a Credit whose add was executed (it returned nil, or the error of the
    PutRetrieveTraffic call that follows the add), a NotifyPayment that returned nil *)
Definition effective (d : drec) : option lev :=
  match d_op d, d_res d with
  | OCredit _ t, (ROk | RErrPut) => Some (Cr (Z.of_N t))
  | ONotify _ z, ROk => Some (Py z)
  | _, _ => None
  end.

Definition olist {A} (o : option A) : list A := match o with Some x => [x] | None => [] end.
