(** C32 — correspondence.  The harness drives the REAL accounting.Accounting
    with goroutines that park inside the settlement stub ("gates"); at most one
    goroutine runs at a time, so an execution is a list of macro steps
    "let thread t run until it parks at the next gate / finishes its operation /
    blocks on a lock or on the full channel".  [go] is that macro step written
    with the SAME micro [step] the theorems quantify over, hence every state
    compared here is a [run] state of Model.v.  Model instance: repaired
    Reserve ([reserve_locks := true]). *)
From Coq Require Import List NArith ZArith Bool.
Import ListNotations.
Require Import Aurora.Base.Corr.
Require Export Aurora.C32.Model.
Local Open Scope Z_scope.

Inductive status :=
| SNoop                 (* thread has nothing left to do *)
| SFin (r : result)     (* operation returned r *)
| SGate (g : pt)        (* parked inside the settlement call made at g *)
| SBlk                  (* blocked: peer lock taken / channel full *)
| SPay                  (* settle goroutine parked inside settlement.Pay *)
| SIdle                 (* settle goroutine waiting on the empty channel *)
| SFuel.                (* model ran out of fuel: never expected *)

Definition is_gate (p : pt) : bool :=
  match p with PAvail | PCPut | PDTransfer | PDPut => true | _ => false end.

Fixpoint advance (c : cfg) (tid : N) (s : st) (fuel : nat) : st * status :=
  match fuel with
  | O => (s, SFuel)
  | S f =>
      match cur (thr s tid) with
      | None => (s, match done (thr s tid) with d :: _ => SFin (d_res d) | [] => SNoop end)
      | Some l =>
          if is_gate (l_pt l) then (s, SGate (l_pt l))
          else match micro c tid (shs s) l with
               | Blocked => (s, SBlk)
               | _ => advance c tid (step_thread c tid s) f
               end
      end
  end.

Definition go (c : cfg) (s : st) (w : who) : st * status :=
  match w with
  | W tid =>
      match standing (thr s tid) with
      | None => (s, SNoop)
      | Some (l, _) =>
          match micro c tid (shs s) l with
          | Blocked => (s, SBlk)
          | _ => advance c tid (step_thread c tid s) 40
          end
      end
  | Settler =>
      let s1 := match sreg (shs s) with Some _ => step c s Settler | None => s end in
      match chan (shs s1) with
      | [] => (s1, SIdle)
      | _ :: _ => (step c s1 Settler, SPay)
      end
  end.

Definition pt_code (p : pt) : N :=
  match p with
  | PGet => 0 | PLock => 1 | PRead => 2 | PUnlockR => 3 | PReadNL => 4 | PAvail => 5 | PCRead => 6
  | PCWrite => 7 | PCPut => 8 | PCCheck => 9 | PCSend => 10 | PDTransfer => 11 | PDPut => 12
  | PNRead => 13 | PNWrite => 14 | PExit => 15 | PEnv => 16 | PDeref => 17
  end%N.
Definition result_code (r : result) : N :=
  match r with
  | ROk => 0 | RLow => 1 | RBlocked => 2 | RErrGet => 3 | RErrPut => 4 | RErrAvail => 5
  | RErrTransfer => 6 | RErrPutTransfer => 7 | RPanic => 8
  end%N.
Definition status_code (x : status) : N :=
  match x with
  | SNoop => 0 | SFin r => 100 + result_code r | SGate g => 200 + pt_code g | SBlk => 1
  | SPay => 2 | SIdle => 3 | SFuel => 4
  end%N.

(** macro run; returns the statuses in order *)
Fixpoint go_all (c : cfg) (s : st) (ws : list who) : st * list status :=
  match ws with
  | [] => (s, [])
  | w :: r => let '(s1, x) := go c s w in let '(s2, xs) := go_all c s1 r in (s2, x :: xs)
  end.

(** what is observed of the implementation at the end of a history *)
Record final := {
  f_unpaid : list (option Z);      (* VerifUnpaid(peer i), i = 0.. *)
  f_locked : list bool;            (* VerifPeerLockHeld(peer i) *)
  f_retr : list Z;                 (* stub: retrieve traffic of peer i *)
  f_transf : list Z;               (* stub: transfer traffic of peer i *)
  f_pays : list (N * Z);           (* stub: Pay(peer, amount) calls, oldest first *)
  f_held : option (N * Z);         (* request the parked settle goroutine holds *)
  f_chan : nat;                    (* len(payChan) *)
  f_results : list (list N)        (* per thread: result codes of its operations, oldest first *)
}.

Definition assoc (l : list (N * Z)) (d : Z) : N -> Z :=
  fun p => match find (fun x => N.eqb (fst x) p) l with Some x => snd x | None => d end.

Definition mk_cfg (thr tol : Z) (cap : nat) : cfg :=
  {| threshold := thr; tolerance := tol; chancap := cap; reserve_locks := true |}.
Definition mk_env (re tr : list (N * Z)) (av : Z) : env :=
  {| retr := assoc re 0; transf := assoc tr 0; avail := av; fails := fun _ => false |}.
Definition mk_progs (ps : list (list op)) : N -> list op :=
  fun tid => match tid with 0%N => [] | _ => nth (N.to_nat tid - 1) ps [] end.

Definition npeers_of (f : final) : nat := length (f_unpaid f).
Definition peers_upto (n : nat) : list N := map N.of_nat (seq 0 n).

Definition model_final (s : st) (npeers nthreads : nat) : final :=
  let sh := shs s in
  {| f_unpaid := map (unpaid sh) (peers_upto npeers);
     f_locked := map (fun p => match lock sh p with Some _ => true | None => false end) (peers_upto npeers);
     f_retr := map (retr (en sh)) (peers_upto npeers);
     f_transf := map (transf (en sh)) (peers_upto npeers);
     f_pays := rev (pays sh);
     f_held := sreg sh;
     f_chan := length (chan sh);
     f_results := map (fun i => map (fun d => result_code (d_res d)) (rev (done (thr s (N.of_nat (S i)))))) (seq 0 nthreads) |}.

Definition nz_eqb (a b : N * Z) : bool := N.eqb (fst a) (fst b) && Z.eqb (snd a) (snd b).
Definition final_eqb (a b : final) : bool :=
  list_eqb (option_eqb Z.eqb) (f_unpaid a) (f_unpaid b) &&
  list_eqb Bool.eqb (f_locked a) (f_locked b) &&
  list_eqb Z.eqb (f_retr a) (f_retr b) &&
  list_eqb Z.eqb (f_transf a) (f_transf b) &&
  list_eqb nz_eqb (f_pays a) (f_pays b) &&
  option_eqb nz_eqb (f_held a) (f_held b) &&
  Nat.eqb (f_chan a) (f_chan b) &&
  list_eqb (list_eqb N.eqb) (f_results a) (f_results b).

(** sequential schedule used for the free-running cases whose observables do
    not depend on the interleaving: thread after thread, the settle loop
    draining in between *)
Definition seq_sched (ps : list (list op)) : list who :=
  flat_map (fun i => let n := length (nth i ps []) in
                     repeat (W (N.of_nat (S i))) (12 * n) ++ repeat Settler (2 * n + 2))
           (seq 0 (length ps)).

(** ---- pointer freshness of the unPaidTraffic field ----
    After a macro step at which nothing else is running, for every peer whose
    lock is free and whose accountingPeer exists: is the *big.Int stored in the
    field an object never observed before ([Some true]) or one seen at an earlier
    observation ([Some false])?  [None]: not observable (lock held / no peer). *)
Definition row := list (option bool).
Definition row_of (sh : sh) (npeers : nat) (seen : list N) : row * list N :=
  fold_left (fun (acc : row * list N) p =>
               let '(r, sn) := acc in
               match lock sh p, ptr sh p with
               | None, Some a => if existsb (N.eqb a) sn then (r ++ [Some false], sn) else (r ++ [Some true], a :: sn)
               | _, _ => (r ++ [None], sn)
               end) (peers_upto npeers) ([], seen).

Fixpoint go_all_obs (c : cfg) (s : st) (npeers : nat) (seen : list N) (ws : list (who * bool))
  : st * list status * list (option row) :=
  match ws with
  | [] => (s, [], [])
  | (w, ob) :: r =>
      let '(s1, x) := go c s w in
      let '(orow, seen1) := if ob then (let '(rw, sn) := row_of (shs s1) npeers seen in (Some rw, sn)) else (None, seen) in
      let '(s2, xs, rs) := go_all_obs c s1 npeers seen1 r in
      (s2, x :: xs, orow :: rs)
  end.

(** the implementation must be at least as fresh as the model: wherever the
    model installs a new cell the implementation shows a never-seen object *)
Definition cell_ok (m i : option bool) : bool :=
  match m, i with
  | None, None => true
  | Some true, Some b => b
  | Some false, Some _ => true
  | _, _ => false
  end.
Fixpoint list_rel {A B} (f : A -> B -> bool) (a : list A) (b : list B) : bool :=
  match a, b with
  | [], [] => true
  | x :: a', y :: b' => f x y && list_rel f a' b'
  | _, _ => false
  end.
Definition orow_ok (m i : option row) : bool :=
  match m, i with
  | None, None => true
  | Some a, Some b => list_rel cell_ok a b
  | _, _ => false
  end.

Inductive case :=
(** controlled history: configuration, initial stub state, programs (thread i+1
    runs the i-th), macro schedule with the status observed after each entry,
    observation at the end *)
| CHist (thr tol : Z) (cap : nat) (re tr : list (N * Z)) (av : Z) (ps : list (list op))
        (sched : list (who * N)) (obs : final) (rows : list (option row))
(** free-running goroutines (real scheduler); only order-independent
    observables: final unpaid balances, transfer/retrieve totals, Pay calls per peer *)
| CFree (thr tol : Z) (re tr : list (N * Z)) (av : Z) (ps : list (list op))
        (unp : list (option Z)) (retrs : list Z) (paycount : list N).

Definition count_pays (l : list (N * Z)) (p : N) : N :=
  N.of_nat (length (filter (fun x => N.eqb (fst x) p) l)).

Definition model_out (c : case) : list N * final * list N :=
  match c with
  | CHist th tol cap re tr av ps sched obs rows =>
      let '(s, xs) := go_all (mk_cfg th tol cap) (st0 (mk_env re tr av) (mk_progs ps)) (map fst sched) in
      (map status_code xs, model_final s (npeers_of obs) (length ps), [])
  | CFree th tol re tr av ps unp retrs pc =>
      let s := run (mk_cfg th tol 1000) (seq_sched ps) (st0 (mk_env re tr av) (mk_progs ps)) in
      let f := model_final s (length unp) 0 in
      ([], {| f_unpaid := f_unpaid f; f_locked := []; f_retr := f_retr f; f_transf := []; f_pays := [];
              f_held := None; f_chan := 0; f_results := [] |},
       map (count_pays (pays (shs s))) (peers_upto (length unp)))
  end.
Definition obs_out (c : case) : list N * final * list N :=
  match c with
  | CHist _ _ _ _ _ _ _ sched obs _ => (map snd sched, obs, [])
  | CFree _ _ _ _ _ _ unp retrs pc =>
      ([], {| f_unpaid := unp; f_locked := []; f_retr := retrs; f_transf := []; f_pays := [];
              f_held := None; f_chan := 0; f_results := [] |}, pc)
  end.

Definition out_eqb (a b : list N * final * list N) : bool :=
  list_eqb N.eqb (fst (fst a)) (fst (fst b)) && final_eqb (snd (fst a)) (snd (fst b)) &&
  list_eqb N.eqb (snd a) (snd b).

Definition model_rows (c : case) : list (option row) :=
  match c with
  | CHist th tol cap re tr av ps sched obs rows =>
      let ws := combine (map fst sched) (map (fun r : option row => match r with Some _ => true | None => false end) rows) in
      let '(_, _, rs) := go_all_obs (mk_cfg th tol cap) (st0 (mk_env re tr av) (mk_progs ps)) (npeers_of obs) [] ws in
      rs
  | CFree _ _ _ _ _ _ _ _ _ => []
  end.
Definition obs_rows (c : case) : list (option row) :=
  match c with CHist _ _ _ _ _ _ _ sched _ rows => rows | CFree _ _ _ _ _ _ _ _ _ => [] end.
Definition rows_ok (c : case) : bool :=
  match c with
  | CHist _ _ _ _ _ _ _ sched _ rows => Nat.eqb (length sched) (length rows) && list_rel orow_ok (model_rows c) rows
  | CFree _ _ _ _ _ _ _ _ _ => true
  end.

Definition check_case (c : case) : bool := out_eqb (model_out c) (obs_out c) && rows_ok c.
Definition explain_case (c : case) := (model_out c, obs_out c, model_rows c, obs_rows c).
