(** C32 — basic lemmas: function update, decomposition of a thread step,
    the case-analysis tactic for [micro]. *)
From Coq Require Import List NArith ZArith Bool Lia.
Import ListNotations.
Require Import Aurora.C32.Model.
Local Open Scope Z_scope.

Lemma upd_same {A} (f : N -> A) k v : upd f k v k = v.
Proof. unfold upd. now rewrite N.eqb_refl. Qed.
Lemma upd_other {A} (f : N -> A) k v x : x <> k -> upd f k v x = f x.
Proof. unfold upd. intros H. destruct (N.eqb_spec x k); [contradiction|reflexivity]. Qed.
Lemma upd_cases {A} (f : N -> A) k v x : (x = k /\ upd f k v x = v) \/ (x <> k /\ upd f k v x = f x).
Proof. destruct (N.eq_dec x k) as [->|H]; [left; split; [reflexivity|apply upd_same] | right; split; [assumption|now apply upd_other]]. Qed.

Definition micro_sh (c : cfg) (tid : N) (s : sh) (l : loc) : option sh :=
  match micro c tid s l with Blocked => None | Next s' _ => Some s' | Fin s' _ => Some s' end.

(** a thread step is: nothing, or one [micro] result installed *)
Inductive tstep (c : cfg) (tid : N) (s s' : st) : Prop :=
| ts_stutter : s' = s -> tstep c tid s s'
| ts_next l r sh' l' :
    standing (thr s tid) = Some (l, r) -> micro c tid (shs s) l = Next sh' l' ->
    s' = {| shs := sh'; thr := upd (thr s) tid {| prog := r; cur := Some l'; done := done (thr s tid) |} |} ->
    tstep c tid s s'
| ts_fin l r sh' d :
    standing (thr s tid) = Some (l, r) -> micro c tid (shs s) l = Fin sh' d ->
    s' = {| shs := sh'; thr := upd (thr s) tid {| prog := r; cur := None; done := d :: done (thr s tid) |} |} ->
    tstep c tid s s'.

Lemma step_thread_tstep c tid s : tstep c tid s (step_thread c tid s).
Proof.
  unfold step_thread. destruct (standing (thr s tid)) as [[l r]|] eqn:Es; [|now apply ts_stutter].
  destruct (micro c tid (shs s) l) as [|sh' l'|sh' d] eqn:Em.
  - now apply ts_stutter.
  - eapply ts_next; eauto.
  - eapply ts_fin; eauto.
Qed.

Lemma standing_cases th l r :
  standing th = Some (l, r) ->
  (cur th = Some l /\ r = prog th) \/ (cur th = None /\ exists o, prog th = o :: r /\ l = start o).
Proof.
  unfold standing. destruct (cur th) as [l0|].
  - intros H; inversion H; subst. now left.
  - destruct (prog th) as [|o r0]; [discriminate|]. intros H; inversion H; subst. right. split; [reflexivity|]. now exists o.
Qed.

(** case analysis of one [micro] equation: program point, then every test *)
Ltac micro_inv H :=
  unfold micro in H;
  repeat match type of H with
         | context [match ?x with _ => _ end] => destruct x eqn:?
         | context [if ?x then _ else _] => destruct x eqn:?
         end;
  try discriminate H; inversion H; subst; clear H.

Definition in_region (p : pt) : bool :=
  match p with
  | PRead | PUnlockR | PCRead | PCWrite | PCPut | PCCheck | PCSend | PDTransfer | PDPut | PNRead | PNWrite | PExit => true
  | _ => false
  end.
Definition past_get (p : pt) : bool := match p with PGet | PEnv => false | _ => true end.

(** which program points belong to which operation *)
Definition wf_pt (c : cfg) (o : op) (p : pt) : bool :=
  match o, p with
  | OEnv _, PEnv => true
  | OEnv _, _ => false
  | _, PEnv => false
  | _, PGet => true
  | OReserve _ _, PLock => reserve_locks c
  | _, PLock => true
  | OReserve _ _, (PRead | PUnlockR) => reserve_locks c
  | OReserve _ _, (PAvail | PDeref) => true
  | OReserve _ _, PReadNL => negb (reserve_locks c)
  | OCredit _ _, (PCRead | PCWrite | PCPut | PCCheck | PCSend | PExit) => true
  | ODebit _ _, (PDTransfer | PDPut | PExit) => true
  | ONotify _ _, (PNRead | PNWrite | PExit) => true
  | _, _ => false
  end.

Lemma start_pt c o : wf_pt c o (l_pt (start o)) = true /\ in_region (l_pt (start o)) = false /\ past_get (l_pt (start o)) = false.
Proof. destruct o; cbn; auto. Qed.

Lemma fold_left_inv {A B} (P : A -> Prop) (f : A -> B -> A) :
  (forall a b, P a -> P (f a b)) -> forall l a, P a -> P (fold_left f l a).
Proof. intros H l; induction l as [|b l IH]; intros a Ha; cbn; [assumption|]. apply IH, H, Ha. Qed.
