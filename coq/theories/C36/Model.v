(** C36 — model of pkg/keystore/file/{service.go,key.go} and pkg/keystore/mem/service.go.
    Definitions only (computable); proofs are in Proofs.v.

    The cryptographic primitives are Section variables:
      [kdf pw salt params]  scrypt.Key (None = the error return),
      [ctr key iv data]     AES-128-CTR XORKeyStream (only ever called with a 16-byte iv:
                            cipher.NewCTR panics otherwise, which the model makes explicit),
      [sha3], [keccak]      sha3.Sum256 and the legacy Keccak-256.
    Strings (names, passwords) are byte lists: Go strings are byte strings, and the
    code converts with []byte(password).  A private key enters the model as its scalar D (what GenerateSecp256k1Key produced, what
    ImportPrivateKey is given); it is stored as [ser32 D] and handed out as the 32 bytes read back.

    The key file is modelled after JSON decoding ([filedata]): json.Marshal /
    json.Unmarshal of the [encryptedKey] struct are taken as inverse; fields that the
    code writes but never reads back (address, id) are left out.  A hex string field is
    [Hex bytes] or [BadHex] (hex.DecodeString error).

    ImportKey / ImportPrivateKey are modelled AFTER the repair
    proposed/C36/fix-import-before-backup.patch (decrypt and re-encrypt before the key
    file is moved away); see notes/C36.md. *)
From Coq Require Import List NArith ZArith Bool.
Import ListNotations.
Local Open Scope N_scope.

Definition bytes := list N.

Fixpoint bytes_eqb (a b : bytes) : bool :=
  match a, b with
  | [], [] => true
  | x :: a', y :: b' => (x =? y) && bytes_eqb a' b'
  | _, _ => false
  end.

(** Go slice expression l[lo:hi] on a slice with len = cap; [None] = run-time panic *)
Definition slice (lo hi : nat) (l : bytes) : option bytes :=
  if Nat.leb hi (length l) then Some (firstn (hi - lo) (skipn lo l)) else None.

(** crypto.EncodeSecp256k1PrivateKey = btcec Serialize: the scalar D as EXACTLY 32 big-endian
    bytes, left-padded with zeros ([ser_be 32]); DecodeSecp256k1PrivateKey demands 32 bytes
    and reads them back big-endian ([be_val]). *)
Fixpoint ser_be (n : nat) (d : N) : bytes :=
  match n with O => [] | S n' => ser_be n' (d / 256) ++ [d mod 256] end.
Definition ser32 (d : N) : bytes := ser_be 32 d.
Definition be_val (l : bytes) : N := fold_left (fun acc b => acc * 256 + b) l 0.

Record kparams := { kp_n : Z; kp_r : Z; kp_p : Z; kp_dklen : Z }.

Inductive hexf := Hex (b : bytes) | BadHex.

(** keyCripto after JSON decoding *)
Record crypto := {
  c_cipher : bytes; c_ct : hexf; c_iv : hexf;
  c_kdf : bytes; c_params : kparams; c_salt : hexf; c_mac : hexf }.

(** contents of a key file / of an import argument *)
Inductive filedata := Json (version : Z) (c : crypto) | NotJson.

Inductive err :=
| EInvalidPassword    (* keystore.ErrInvalidPassword *)
| EIO                 (* file system error / "read private key failed" *)
| EJson | EVersion | ECipher | EHex | EKdfName | EKdf | EKeySize.

Inductive res (A : Type) := Ok (a : A) | Err (e : err) | Panic.
Arguments Ok {A}. Arguments Err {A}. Arguments Panic {A}.

Definition aes_name : bytes := [97;101;115;45;49;50;56;45;99;116;114].   (* "aes-128-ctr" *)
Definition scrypt_name : bytes := [115;99;114;121;112;116].               (* "scrypt" *)
Definition key_suffix : bytes := [46;107;101;121].                        (* ".key" *)

Section Keystore.
  Variable kdf : bytes -> bytes -> kparams -> option bytes.
  Variable ctr : bytes -> bytes -> bytes -> bytes.
  Variable sha3 keccak : bytes -> bytes.
  Variable P : kparams.          (* scryptN, scryptR, scryptP, scryptDKLen *)
  Variable ver : Z.              (* keyVersion *)
  Variable dirc : list bytes.    (* components of the (clean, absolute) keystore directory *)

  (** aesCTRXOR *)
  Definition aes_ctr_xor (key iv data : bytes) : res bytes :=
    if Nat.eqb (length iv) 16 then Ok (ctr key iv data) else Panic.

  (** encryptData; [salt] and [iv] are what rand.Reader delivered *)
  Definition encrypt_data (data pw salt iv : bytes) : res crypto :=
    match kdf pw salt P with
    | None => Err EKdf
    | Some dk =>
        match slice 0 16 dk, slice 16 32 dk with
        | Some ek, Some mk =>
            match aes_ctr_xor ek iv data with
            | Ok ct =>
                Ok {| c_cipher := aes_name; c_ct := Hex ct; c_iv := Hex iv; c_kdf := scrypt_name;
                      c_params := P; c_salt := Hex salt; c_mac := Hex (keccak (mk ++ ct)) |}
            | Err e => Err e
            | Panic => Panic
            end
        | _, _ => Panic
        end
    end.

  (** encryptKey (the key is its 32-byte encoding) *)
  Definition encrypt_key (k pw salt iv : bytes) : res filedata :=
    match encrypt_data k pw salt iv with
    | Ok c => Ok (Json ver c)
    | Err e => Err e
    | Panic => Panic
    end.

  (** decryptData, in the order of the Go checks *)
  Definition decrypt_data (c : crypto) (pw : bytes) : res bytes :=
    if negb (bytes_eqb (c_cipher c) aes_name) then Err ECipher else
    match c_mac c with BadHex => Err EHex | Hex mac =>
    match c_ct c with BadHex => Err EHex | Hex ct =>
    if negb (bytes_eqb (c_kdf c) scrypt_name) then Err EKdfName else
    match c_salt c with BadHex => Err EHex | Hex salt =>
    match kdf pw salt (c_params c) with None => Err EKdf | Some dk =>
    match slice 16 32 dk with None => Panic | Some mk =>
    if bytes_eqb (sha3 (mk ++ ct)) mac || bytes_eqb (keccak (mk ++ ct)) mac then
      match c_iv c with BadHex => Err EHex | Hex iv =>
      match slice 0 16 dk with None => Panic | Some ek => aes_ctr_xor ek iv ct end end
    else Err EInvalidPassword
    end end end end end.

  (** decryptKey *)
  Definition decrypt_key (d : filedata) (pw : bytes) : res bytes :=
    match d with
    | NotJson => Err EJson
    | Json v c =>
        if negb (Z.eqb v ver) then Err EVersion else
        match decrypt_data c pw with
        | Ok k => if Nat.eqb (length k) 32 then Ok k else Err EKeySize
        | Err e => Err e
        | Panic => Panic
        end
    end.

  (** ---- file names: filepath.Join(dir, name + ".key") ---- *)

  Fixpoint split_on (sep : N) (s : bytes) (cur : bytes) : list bytes :=
    match s with
    | [] => [rev cur]
    | c :: s' => if c =? sep then rev cur :: split_on sep s' [] else split_on sep s' (c :: cur)
    end.

  (** filepath.Clean of an absolute path, on a stack of components (top = last) *)
  Fixpoint clean_onto (stack : list bytes) (cs : list bytes) : list bytes :=
    match cs with
    | [] => rev stack
    | c :: cs' =>
        if bytes_eqb c [] || bytes_eqb c [46] then clean_onto stack cs'
        else if bytes_eqb c [46;46] then clean_onto (tl stack) cs'
        else clean_onto (c :: stack) cs'
    end.

  Definition path := list bytes.

  (** [None]: the name cannot be a file name (NUL byte: EINVAL; component longer than
      NAME_MAX: ENAMETOOLONG) — every file operation on it fails *)
  Definition key_filename (name : bytes) : option path :=
    let p := clean_onto (rev dirc) (split_on 47 (name ++ key_suffix) []) in
    if existsb (N.eqb 0) name || existsb (fun c => Nat.ltb 255 (length c)) p then None else Some p.

  (** Service.bak renames the key file to <file>.bak.<unix seconds> (".bak." + 10 decimal digits
      from 2001 to 2286 = 15 bytes): the rename fails with ENAMETOOLONG when the last component
      gets longer than NAME_MAX *)
  Definition bak_ok (p : path) : bool := Nat.leb (length (last p []) + 15) 255.

  (** ---- the directory tree: regular files only; directories are implied ---- *)
  Definition fs := list (path * filedata).

  Fixpoint path_eqb (a b : path) : bool :=
    match a, b with
    | [], [] => true
    | x :: a', y :: b' => bytes_eqb x y && path_eqb a' b'
    | _, _ => false
    end.

  (** [a] is a proper prefix of [b] *)
  Fixpoint proper_prefix (a b : path) : bool :=
    match a, b with
    | [], _ :: _ => true
    | x :: a', y :: b' => bytes_eqb x y && proper_prefix a' b'
    | _, _ => false
    end.

  Fixpoint lookup (s : fs) (p : path) : option filedata :=
    match s with
    | [] => None
    | (q, d) :: s' => if path_eqb q p then Some d else lookup s' p
    end.

  Fixpoint remove (s : fs) (p : path) : fs :=
    match s with
    | [] => []
    | (q, d) :: s' => if path_eqb q p then remove s' p else (q, d) :: remove s' p
    end.

  Definition write (s : fs) (p : path) (d : filedata) : fs := (p, d) :: remove s p.

  Inductive rd := RAbsent | RErr | RData (d : filedata).

  (** os.ReadFile: a regular file on the way (ENOTDIR) or a directory at the path
      (EISDIR) is an error that is not IsNotExist *)
  Definition read (s : fs) (p : option path) : rd :=
    match p with
    | None => RErr
    | Some p =>
        if existsb (fun e => proper_prefix (fst e) p || proper_prefix p (fst e)) s then RErr
        else match lookup s p with Some d => RData d | None => RAbsent end
    end.

  (** ---- the service ---- *)
  Inductive op :=
  | OKey (name pw : bytes) (newd : N) (salt iv : bytes)      (* newd/salt/iv: scalar of the generated key, and what rand.Reader yields, if used *)
  | OExists (name : bytes)
  | OExport (name pw : bytes) (salt iv : bytes)
  | OImport (name pw : bytes) (json : filedata) (salt iv : bytes)
  | OImportPriv (name pw : bytes) (d : N) (salt iv : bytes).          (* d: the scalar of the key to import *)

  Inductive out :=
  | OutKey (k : bytes) (created : bool)
  | OutExists (b : bool)
  | OutExport (d : filedata)
  | OutDone
  | OutErr (e : err)
  | OutPanic.

  Definition out_of {A} (r : res A) (f : A -> out) : out :=
    match r with Ok a => f a | Err e => OutErr e | Panic => OutPanic end.

  (** Service.read: any ReadFile error is "read private key failed" *)
  Definition svc_read (s : fs) (name pw : bytes) : res bytes :=
    match read s (key_filename name) with
    | RData d => decrypt_key d pw
    | _ => Err EIO
    end.

  Definition step (s : fs) (o : op) : fs * out :=
    match o with
    | OKey name pw newd salt iv =>
        let newkey := ser32 newd in
        match read s (key_filename name), key_filename name with
        | RErr, _ | _, None => (s, OutErr EIO)
        | RAbsent, Some p =>
            match encrypt_key newkey pw salt iv with
            | Ok d => (write s p d, OutKey newkey true)
            | Err e => (s, OutErr e)
            | Panic => (s, OutPanic)
            end
        | RData d, Some _ => (s, out_of (decrypt_key d pw) (fun k => OutKey k false))
        end
    | OExists name =>
        match read s (key_filename name) with
        | RErr => (s, OutErr EIO)
        | RAbsent => (s, OutExists false)
        | RData _ => (s, OutExists true)
        end
    | OExport name pw salt iv =>
        match svc_read s name pw with
        | Ok k => (s, out_of (encrypt_key k pw salt iv) OutExport)
        | Err e => (s, OutErr e)
        | Panic => (s, OutPanic)
        end
    | OImport name pw json salt iv =>
        match svc_read s name pw, key_filename name with
        | Ok _, Some p =>
            match decrypt_key json pw with
            | Ok k =>
                match encrypt_key k pw salt iv with
                | Ok d => if bak_ok p then (write s p d, OutDone) else (s, OutErr EIO)
                | Err e => (s, OutErr e)
                | Panic => (s, OutPanic)
                end
            | Err e => (s, OutErr e)
            | Panic => (s, OutPanic)
            end
        | Ok _, None => (s, OutErr EIO)
        | Err e, _ => (s, OutErr e)
        | Panic, _ => (s, OutPanic)
        end
    | OImportPriv name pw d salt iv =>
        let k := ser32 d in
        match svc_read s name pw, key_filename name with
        | Ok _, Some p =>
            match encrypt_key k pw salt iv with
            | Ok d => if bak_ok p then (write s p d, OutDone) else (s, OutErr EIO)
            | Err e => (s, OutErr e)
            | Panic => (s, OutPanic)
            end
        | Ok _, None => (s, OutErr EIO)
        | Err e, _ => (s, OutErr e)
        | Panic, _ => (s, OutPanic)
        end
    end.

  Fixpoint run (s : fs) (ops : list op) : fs * list out :=
    match ops with
    | [] => (s, [])
    | o :: ops' => let '(s1, x) := step s o in let '(s2, xs) := run s1 ops' in (s2, x :: xs)
    end.
End Keystore.

(** ---- the in-memory keystore: map name -> (key, password) ---- *)
Definition mem := list (bytes * (bytes * bytes)).

Fixpoint mlookup (m : mem) (name : bytes) : option (bytes * bytes) :=
  match m with
  | [] => None
  | (n, v) :: m' => if bytes_eqb n name then Some v else mlookup m' name
  end.

Inductive mop :=
| MKey (name pw newkey : bytes)
| MExists (name : bytes)
| MExport (name pw : bytes)
| MImport (name pw : bytes).

Definition mstep (m : mem) (o : mop) : mem * out :=
  match o with
  | MKey name pw newkey =>
      match mlookup m name with
      | None => ((name, (newkey, pw)) :: m, OutKey newkey true)
      | Some (k, pw0) => if bytes_eqb pw0 pw then (m, OutKey k false) else (m, OutErr EInvalidPassword)
      end
  | MExists name => (m, OutExists (match mlookup m name with Some _ => true | None => false end))
  | MExport _ _ | MImport _ _ => (m, OutPanic)      (* panic("implement me") *)
  end.

Fixpoint mrun (m : mem) (ops : list mop) : mem * list out :=
  match ops with
  | [] => (m, [])
  | o :: ops' => let '(m1, x) := mstep m o in let '(m2, xs) := mrun m1 ops' in (m2, x :: xs)
  end.

(** ---- concurrent first use of one name ----
    Threads all call Key([name], pw_i); a schedule is a list of thread ids, each occurrence
    lets that thread perform its next atomic action.

    [conc_run_atomic]: Key as coded — lookup, create and insert inside ONE critical section
    (mem: s.mu.Lock()/defer Unlock around the whole body; file, after fix-serialise-key-creation:
    the package mutex), i.e. one atomic action per caller.

    [conc_run_split]: the check-then-insert variant — lookup in one critical section, key
    generation outside, insert in a second critical section WITHOUT re-checking. *)
Record cthread := { t_pw : bytes; t_newkey : bytes; t_out : option out }.

Fixpoint upd {A} (i : nat) (f : A -> A) (l : list A) : list A :=
  match l, i with
  | [], _ => []
  | x :: l', O => f x :: l'
  | x :: l', S i' => x :: upd i' f l'
  end.

Definition set_out (o : out) (t : cthread) : cthread := {| t_pw := t_pw t; t_newkey := t_newkey t; t_out := Some o |}.

Definition conc_step_atomic (name : bytes) (st : mem * list cthread) (tid : nat) : mem * list cthread :=
  match nth_error (snd st) tid with
  | Some t =>
      match t_out t with
      | None => let '(m', o) := mstep (fst st) (MKey name (t_pw t) (t_newkey t)) in (m', upd tid (set_out o) (snd st))
      | Some _ => st
      end
  | None => st
  end.
Definition conc_run_atomic (name : bytes) (st : mem * list cthread) (sched : list nat) : mem * list cthread :=
  fold_left (conc_step_atomic name) sched st.

(** what a complete first-use round must look like: exactly one caller created the key; every
    caller with that caller's password got that key, every other caller was rejected *)
Definition is_created (t : cthread) : bool := match t_out t with Some (OutKey _ true) => true | _ => false end.
Definition agrees (k pw0 : bytes) (t : cthread) : bool :=
  match t_out t with
  | None => false
  | Some o =>
      if bytes_eqb (t_pw t) pw0
      then match o with OutKey k' _ => bytes_eqb k' k | _ => false end
      else match o with OutErr EInvalidPassword => true | _ => false end
  end.
Definition first_use_ok (m : mem) (name : bytes) (ths : list cthread) : bool :=
  match mlookup m name with
  | Some (k, pw0) => Nat.eqb (length (filter is_created ths)) 1 && forallb (agrees k pw0) ths
  | None => false
  end.

(** the split variant *)
Inductive spc := SStart | SLooked (r : option (bytes * bytes)) | SDone (o : out).
Record sthread := { s_pw : bytes; s_newkey : bytes; s_pc : spc }.
Definition set_pc (p : spc) (t : sthread) : sthread := {| s_pw := s_pw t; s_newkey := s_newkey t; s_pc := p |}.

Definition conc_step_split (name : bytes) (st : mem * list sthread) (tid : nat) : mem * list sthread :=
  match nth_error (snd st) tid with
  | Some t =>
      match s_pc t with
      | SStart => (fst st, upd tid (set_pc (SLooked (mlookup (fst st) name))) (snd st))            (* RLock; lookup; RUnlock *)
      | SLooked None =>                                                                            (* generate; Lock; insert; Unlock *)
          ((name, (s_newkey t, s_pw t)) :: fst st, upd tid (set_pc (SDone (OutKey (s_newkey t) true))) (snd st))
      | SLooked (Some (k, pw0)) =>
          (fst st, upd tid (set_pc (SDone (if bytes_eqb pw0 (s_pw t) then OutKey k false else OutErr EInvalidPassword))) (snd st))
      | SDone _ => st
      end
  | None => st
  end.
Definition conc_run_split (name : bytes) (st : mem * list sthread) (sched : list nat) : mem * list sthread :=
  fold_left (conc_step_split name) sched st.

(** regression witness (seeded change C36-3): a MAC comparator that accumulates the byte
    differences with XOR instead of OR — NOT what decryptData does (bytes.Equal = [bytes_eqb]) *)
Fixpoint xor_acc (a b : bytes) (acc : N) : N :=
  match a, b with
  | x :: a', y :: b' => xor_acc a' b' (N.lxor acc (N.lxor x y))
  | _, _ => acc
  end.
Definition xor_acc_eq (a b : bytes) : bool := Nat.eqb (length a) (length b) && (xor_acc a b 0 =? 0).
