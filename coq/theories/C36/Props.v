(** C36 — property theorems only.  Every theorem quantifies over the primitives
    (scrypt [kdf], AES-CTR [ctr], SHA3-256 [sha3], legacy Keccak-256 [keccak]) subject to
    the two laws [CtrLaw] and [KdfLaw]; the scrypt parameters and the key-file version are
    the constants of pkg/keystore/file/key.go, re-extracted on every run ([Consts.v]). *)
From Coq Require Import List NArith ZArith Bool Lia.
Import ListNotations.
Require Import Aurora.Consts Aurora.C36.Model Aurora.C36.Proofs.
Local Open Scope N_scope.

Definition P : kparams :=
  {| kp_n := Consts.file_scryptN; kp_r := Consts.file_scryptR; kp_p := Consts.file_scryptP; kp_dklen := Consts.file_scryptDKLen |}.
Definition ver : Z := Consts.file_keyVersion.

(** side conditions on the constants, re-checked by computation on every run: scrypt accepts
    the parameters (N a power of two > 1, r*p < 2^30) and the derived key has the 32 bytes
    that encryptData/decryptData slice *)
Lemma consts_ok_C36 :
  ((kp_dklen P =? 32) && (1 <? kp_n P) && (Z.land (kp_n P) (kp_n P - 1) =? 0) && (0 <? kp_r P) && (0 <? kp_p P)
   && (kp_r P * kp_p P <? 2 ^ 30) && (ver =? 3))%Z = true.
Proof. vm_compute. reflexivity. Qed.

(** CTR mode XORs with a key stream *)
Definition CtrLaw (ctr : bytes -> bytes -> bytes -> bytes) : Prop := forall k iv d, ctr k iv (ctr k iv d) = d.
(** scrypt.Key with the parameters of key.go never fails and returns dklen bytes *)
Definition KdfLaw (kdf : bytes -> bytes -> kparams -> option bytes) : Prop :=
  forall pw salt, exists dk, kdf pw salt P = Some dk /\ Z.of_nat (length dk) = kp_dklen P.

Lemma kdf_law_32 kdf : KdfLaw kdf -> forall pw salt, exists dk, kdf pw salt P = Some dk /\ length dk = 32%nat.
Proof.
  intros H pw salt. destruct (H pw salt) as [dk [H1 H2]]. exists dk. split; [exact H1|].
  change (kp_dklen P) with 32%Z in H2. lia.
Qed.

Section Closed.
  Variable kdf : bytes -> bytes -> kparams -> option bytes.
  Variable ctr : bytes -> bytes -> bytes -> bytes.
  Variable sha3 keccak : bytes -> bytes.
  Variable dirc : list bytes.
  Definition fstep := step kdf ctr sha3 keccak P ver dirc.
  Definition frun := run kdf ctr sha3 keccak P ver dirc.
  Definition fname := key_filename dirc.
End Closed.

(** "A key stored under a name and password is returned unchanged for that password":
    whatever Key(name, pw) returned once (created or not), any later Key on the same file
    (same cleaned path) with that password returns the same key with created = false, after
    any history of operations that does not import onto that file. *)
Theorem C36_file_same_password_same_key :
  forall kdf ctr sha3 keccak dirc, CtrLaw ctr -> KdfLaw kdf ->
  forall h1 name pw nk salt iv s2 k c h2 name' nk' salt' iv',
    Forall wf_op h1 -> wf_op (OKey name pw nk salt iv) ->
    fstep kdf ctr sha3 keccak dirc (fst (frun kdf ctr sha3 keccak dirc [] h1)) (OKey name pw nk salt iv) = (s2, OutKey k c) ->
    Forall wf_op h2 -> (forall p, fname dirc name = Some p -> no_import_on dirc p h2) ->
    fname dirc name' = fname dirc name ->
    fstep kdf ctr sha3 keccak dirc (fst (frun kdf ctr sha3 keccak dirc s2 h2)) (OKey name' pw nk' salt' iv')
      = (fst (frun kdf ctr sha3 keccak dirc s2 h2), OutKey k false).
Proof. intros kdf ctr sha3 keccak dirc Hc Hk. exact (same_password_same_key kdf ctr sha3 keccak P ver dirc Hc). Qed.
Print Assumptions C36_file_same_password_same_key.

(** "Asking again returns the same key rather than creating a new one" (and leaves the store unchanged) *)
Theorem C36_file_get_is_idempotent :
  forall kdf ctr sha3 keccak dirc, CtrLaw ctr -> KdfLaw kdf ->
  forall h name pw nk salt iv s' k c nk' salt' iv',
    Forall wf_op h -> wf_op (OKey name pw nk salt iv) ->
    fstep kdf ctr sha3 keccak dirc (fst (frun kdf ctr sha3 keccak dirc [] h)) (OKey name pw nk salt iv) = (s', OutKey k c) ->
    fstep kdf ctr sha3 keccak dirc s' (OKey name pw nk' salt' iv') = (s', OutKey k false).
Proof. intros kdf ctr sha3 keccak dirc Hc Hk. exact (get_is_idempotent kdf ctr sha3 keccak P ver dirc Hc). Qed.
Print Assumptions C36_file_get_is_idempotent.

(** "a different password is always rejected as invalid" — PARTIAL: rejected with
    ErrInvalidPassword, or else an explicit coincidence is exhibited: two different
    passwords, a salt and a ciphertext for which decryptData's MAC test passes ([Clash]). *)
Theorem C36_file_wrong_password_rejected_partial :
  forall kdf ctr sha3 keccak dirc, CtrLaw ctr -> KdfLaw kdf ->
  forall h1 o x s2 p pw h2 name' pw' nk' salt' iv',
    Forall wf_op h1 -> wf_op o ->
    fstep kdf ctr sha3 keccak dirc (fst (frun kdf ctr sha3 keccak dirc [] h1)) o = (s2, x) -> wrote dirc o x p pw ->
    Forall wf_op h2 -> no_import_on dirc p h2 -> fname dirc name' = Some p -> pw <> pw' ->
    snd (fstep kdf ctr sha3 keccak dirc (fst (frun kdf ctr sha3 keccak dirc s2 h2)) (OKey name' pw' nk' salt' iv')) = OutErr EInvalidPassword
    \/ Clash kdf sha3 keccak P pw pw'.
Proof. intros kdf ctr sha3 keccak dirc Hc Hk. exact (wrong_password kdf ctr sha3 keccak P ver dirc (kdf_law_32 kdf Hk)). Qed.
Print Assumptions C36_file_wrong_password_rejected_partial.

(** the same for the password gate of ExportKey / ImportKey / ImportPrivateKey *)
Theorem C36_file_wrong_password_gate_partial :
  forall kdf ctr sha3 keccak dirc, CtrLaw ctr -> KdfLaw kdf ->
  forall h1 o x s2 p pw h2 name' pw',
    Forall wf_op h1 -> wf_op o ->
    fstep kdf ctr sha3 keccak dirc (fst (frun kdf ctr sha3 keccak dirc [] h1)) o = (s2, x) -> wrote dirc o x p pw ->
    Forall wf_op h2 -> no_import_on dirc p h2 -> fname dirc name' = Some p -> pw <> pw' ->
    svc_read kdf ctr sha3 keccak ver dirc (fst (frun kdf ctr sha3 keccak dirc s2 h2)) name' pw' = Err EInvalidPassword
    \/ Clash kdf sha3 keccak P pw pw'.
Proof. intros kdf ctr sha3 keccak dirc Hc Hk. exact (wrong_password_gate kdf ctr sha3 keccak P ver dirc (kdf_law_32 kdf Hk)). Qed.
Print Assumptions C36_file_wrong_password_gate_partial.

(** REFUTED at full strength: scrypt uses the password only as an HMAC key; for EVERY key
    derivation of that shape the password "\x00" opens a key stored under the empty
    password (the Go code agrees: known finding). *)
Theorem C36_wrong_password_refuted :
  forall f sha256 ctr sha3 keccak dirc, CtrLaw ctr -> KdfLaw (hkdf f sha256) ->
  forall name nk salt iv nk' salt' iv',
    fname dirc name <> None -> length iv = 16%nat ->
    exists pw pw' s1, pw <> pw' /\
      fstep (hkdf f sha256) ctr sha3 keccak dirc [] (OKey name pw nk salt iv) = (s1, OutKey (ser32 nk) true) /\
      fstep (hkdf f sha256) ctr sha3 keccak dirc s1 (OKey name pw' nk' salt' iv') = (s1, OutKey (ser32 nk) false).
Proof.
  intros f sha256 ctr sha3 keccak dirc Hc Hk name nk salt iv nk' salt' iv' Hn Hiv.
  destruct (hmac_wrong_password_accepted f sha256 ctr sha3 keccak P ver dirc Hc
              (kdf_law_32 (hkdf f sha256) Hk) name nk salt iv nk' salt' iv' Hn Hiv) as [s1 H].
  exists [], [0], s1. split; [discriminate | exact H].
Qed.
Print Assumptions C36_wrong_password_refuted.

(** "exporting then importing reproduces the key": the exported blob, imported (with the same
    password) into any slot of any reachable store that holds a key under that password,
    succeeds, and Key then returns the exported key.  [bak_ok]: the file name leaves room for
    the ".bak.<unix seconds>" suffix of the backup that ImportKey makes (otherwise the rename
    fails and the import is refused with the key untouched). *)
Theorem C36_file_export_import :
  forall kdf ctr sha3 keccak dirc, CtrLaw ctr -> KdfLaw kdf ->
  forall h n1 pw salt iv d h' n2 salt' iv',
    Forall wf_op h -> wf_op (OExport n1 pw salt iv) ->
    snd (fstep kdf ctr sha3 keccak dirc (fst (frun kdf ctr sha3 keccak dirc [] h)) (OExport n1 pw salt iv)) = OutExport d ->
    Forall wf_op h' -> length iv' = 16%nat ->
    (exists k2, svc_read kdf ctr sha3 keccak ver dirc (fst (frun kdf ctr sha3 keccak dirc [] h')) n2 pw = Ok k2) ->
    (forall p, fname dirc n2 = Some p -> bak_ok p = true) ->
    exists k s2, svc_read kdf ctr sha3 keccak ver dirc (fst (frun kdf ctr sha3 keccak dirc [] h)) n1 pw = Ok k /\
      fstep kdf ctr sha3 keccak dirc (fst (frun kdf ctr sha3 keccak dirc [] h')) (OImport n2 pw d salt' iv') = (s2, OutDone) /\
      forall nk'' salt'' iv'', fstep kdf ctr sha3 keccak dirc s2 (OKey n2 pw nk'' salt'' iv'') = (s2, OutKey k false).
Proof. intros kdf ctr sha3 keccak dirc Hc Hk. exact (export_import kdf ctr sha3 keccak P ver dirc Hc (kdf_law_32 kdf Hk)). Qed.
Print Assumptions C36_file_export_import.

(** a key file changes only by a SUCCESSFUL import onto its own path: every other outcome of
    every operation — errors and run-time panics included — leaves it as it was (this is what
    the repair fix-import-before-backup restores; the unrepaired ImportKey lost the file when
    decryptKey panicked or failed to restore) *)
Theorem C36_file_key_survives :
  forall kdf ctr sha3 keccak dirc, CtrLaw ctr -> KdfLaw kdf ->
  forall s o p d, wf_op o -> lookup s p = Some d ->
    lookup (fst (fstep kdf ctr sha3 keccak dirc s o)) p = Some d \/
    (is_import_on dirc o p /\ snd (fstep kdf ctr sha3 keccak dirc s o) = OutDone).
Proof. intros kdf ctr sha3 keccak dirc Hc Hk. exact (file_stable kdf ctr sha3 keccak P ver dirc). Qed.
Print Assumptions C36_file_key_survives.

(** the key encoding has a fixed width: every scalar below 2^256 — hence every secp256k1
    scalar in [1, N-1], however many leading zero bytes it has — is written as exactly 32
    bytes (big-endian, left-padded) and reads back as the same number *)
Theorem C36_key_encoding_fixed_width :
  forall d, length (ser32 d) = 32%nat /\ (d < 2 ^ 256 -> be_val (ser32 d) = d).
Proof. intros d. exact (conj (ser32_length d) (be_val_ser32 d)). Qed.
Print Assumptions C36_key_encoding_fixed_width.

(** "A key stored under a name and password is returned unchanged for that password", for a key
    handed in through ImportPrivateKey: after a successful import of scalar [d], Key with that
    password returns the 32-byte encoding of [d] (created = false, store unchanged). Together
    with [C36_file_same_password_same_key] this holds after any later history as well. *)
Theorem C36_file_import_private_key_roundtrip :
  forall kdf ctr sha3 keccak dirc, CtrLaw ctr -> KdfLaw kdf ->
  forall h name pw d salt iv s' nk' salt' iv',
    Forall wf_op h -> wf_op (OImportPriv name pw d salt iv) ->
    fstep kdf ctr sha3 keccak dirc (fst (frun kdf ctr sha3 keccak dirc [] h)) (OImportPriv name pw d salt iv) = (s', OutDone) ->
    fstep kdf ctr sha3 keccak dirc s' (OKey name pw nk' salt' iv') = (s', OutKey (ser32 d) false).
Proof. intros kdf ctr sha3 keccak dirc Hc Hk. exact (import_priv_roundtrip kdf ctr sha3 keccak P ver dirc Hc). Qed.
Print Assumptions C36_file_import_private_key_roundtrip.

(** ---- in-memory keystore ---- *)
Theorem C36_mem_same_password_same_key :
  forall m name pw nk m' k c h nk',
    mstep m (MKey name pw nk) = (m', OutKey k c) ->
    mstep (fst (mrun m' h)) (MKey name pw nk') = (fst (mrun m' h), OutKey k false).
Proof. exact mem_same_password. Qed.
Print Assumptions C36_mem_same_password_same_key.

Theorem C36_mem_wrong_password_rejected :
  forall m name pw nk m' k c h pw' nk',
    mstep m (MKey name pw nk) = (m', OutKey k c) -> pw <> pw' ->
    mstep (fst (mrun m' h)) (MKey name pw' nk') = (fst (mrun m' h), OutErr EInvalidPassword).
Proof. exact mem_wrong_password. Qed.
Print Assumptions C36_mem_wrong_password_rejected.

(** Concurrent first use, Key being ONE critical section (mem: s.mu held over lookup + create +
    insert; file: the package mutex of fix-serialise-key-creation): for EVERY schedule of any
    number of callers of Key(name, pw_i) on a fresh store, at every moment every caller that
    holds a key holds the stored one and has the stored password, every rejected caller was
    rejected as invalid and has another password; once all have returned exactly one saw
    created = true ([first_use_ok]). *)
Theorem C36_concurrent_first_use :
  forall name ths0 sched, Forall (fun t => t_out t = None) ths0 ->
  let st := conc_run_atomic name ([], ths0) sched in
  (forall t k c, In t (snd st) -> t_out t = Some (OutKey k c) -> exists pw0, mlookup (fst st) name = Some (k, pw0) /\ t_pw t = pw0) /\
  (forall t e, In t (snd st) -> t_out t = Some (OutErr e) ->
     e = EInvalidPassword /\ exists k pw0, mlookup (fst st) name = Some (k, pw0) /\ t_pw t <> pw0) /\
  (snd st <> [] -> Forall (fun t => t_out t <> None) (snd st) -> first_use_ok (fst st) name (snd st) = true).
Proof. exact conc_first_use. Qed.
Print Assumptions C36_concurrent_first_use.

(** the check-then-insert variant (lookup under one lock, insert under another, no re-check;
    also what the unrepaired file keystore did with ReadFile ... WriteFile): a schedule under
    which two callers with the same password both see created = true, receive different keys,
    and the first one's key is not the stored one *)
Theorem C36_check_then_insert_refuted :
  exists name ths0 sched k1 k2,
    Forall (fun t => s_pc t = SStart) ths0 /\
    let st := conc_run_split name ([], ths0) sched in
    map s_pc (snd st) = [SDone (OutKey k1 true); SDone (OutKey k2 true)] /\ k1 <> k2 /\
    map s_pw ths0 = [[112]; [112]] /\
    mlookup (fst st) name = Some (k2, [112]).
Proof.
  exists [110], [{| s_pw := [112]; s_newkey := [1]; s_pc := SStart |}; {| s_pw := [112]; s_newkey := [2]; s_pc := SStart |}],
         [0; 1; 0; 1]%nat, [1], [2].
  split; [repeat constructor|]. vm_compute. repeat split; try reflexivity. discriminate.
Qed.
Print Assumptions C36_check_then_insert_refuted.

(** regression witness for C36-3: the XOR-accumulating comparator accepts two different MACs
    (the same bit flipped in two bytes), whereas the comparison of the model is list equality *)
Theorem C36_xor_accumulate_comparator_refuted :
  exists a b : bytes, length a = 2%nat /\ length b = 2%nat /\ a <> b /\ xor_acc_eq a b = true /\ bytes_eqb a b = false.
Proof. exists [0; 0], [1; 1]. repeat split; try reflexivity. discriminate. Qed.
Print Assumptions C36_xor_accumulate_comparator_refuted.

(** non-vacuity: toy primitives satisfying both laws, and a history that creates, re-reads,
    rejects, exports and imports *)
Definition toy_kdf (pw salt : bytes) (_ : kparams) : option bytes := Some (repeat (fold_right N.add (hd 0 salt) pw) 32).
Definition toy_ctr (k iv d : bytes) : bytes := map (N.lxor (hd 0 k + hd 0 iv)) d.
Definition toy_keccak (x : bytes) : bytes := x.
Definition toy_sha3 (x : bytes) : bytes := 1 :: x.

Example C36_hyps_satisfiable :
  let D1 := 5 in let D2 := 2 ^ 255 + 9 in let K1 := ser32 D1 in let K2 := ser32 D2 in let iv := repeat 3 16 in let salt := repeat 4 32 in
  let a := [97] in let b := [98;47;46;46;47;98] (* "b/../b" *) in
  let h := [OKey a [1;2] D1 salt iv; OKey b [1;2] D2 salt iv] in
  Forall wf_op h /\
  snd (frun toy_kdf toy_ctr toy_sha3 toy_keccak [[100]] [] (h ++ [OKey a [1;2] D2 salt iv; OKey a [1;3] D2 salt iv; OKey [98] [1;2] D1 salt iv]))
    = [OutKey K1 true; OutKey K2 true; OutKey K1 false; OutErr EInvalidPassword; OutKey K2 false] /\
  (exists d, snd (fstep toy_kdf toy_ctr toy_sha3 toy_keccak [[100]] (fst (frun toy_kdf toy_ctr toy_sha3 toy_keccak [[100]] [] h)) (OExport a [1;2] salt iv)) = OutExport d /\
     snd (frun toy_kdf toy_ctr toy_sha3 toy_keccak [[100]] (fst (frun toy_kdf toy_ctr toy_sha3 toy_keccak [[100]] [] h)) [OImport b [1;2] d salt iv; OKey b [1;2] D2 salt iv])
       = [OutDone; OutKey K1 false]).
Proof.
  cbv zeta. split; [repeat constructor|]. split; [vm_compute; reflexivity|].
  eexists. split; vm_compute; reflexivity.
Qed.

Lemma toy_laws : CtrLaw toy_ctr /\ KdfLaw toy_kdf.
Proof.
  split.
  - intros k iv d. unfold toy_ctr. rewrite map_map. rewrite <- (map_id d) at 2. apply map_ext.
    intros x. now rewrite <- N.lxor_assoc, N.lxor_nilpotent, N.lxor_0_l.
  - intros pw salt. eexists. split; [reflexivity|]. rewrite repeat_length. reflexivity.
Qed.
