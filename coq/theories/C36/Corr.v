(** C36 — correspondence.  One case is a whole history run against a fresh keystore.
    The harness records, per operation, the observable outcome and the decoded content of
    the operation's key file afterwards; the random choices of the implementation (new
    key, salt, iv) are read off those observations and fed to the model as inputs.  The
    primitives are instantiated by tables of results of the REAL scrypt / AES-CTR / SHA3 /
    Keccak computed by the harness for a superset of the arguments the model can ask for;
    what is compared is therefore the logic around them (which bytes are keyed, MAC'd and
    compared, the order of the checks, path cleaning, what is written when). *)
From Coq Require Import List NArith ZArith Bool.
Import ListNotations.
Require Import Aurora.Base.Corr Aurora.Consts.
Require Export Aurora.C36.Model.
Local Open Scope N_scope.

Definition P : kparams :=
  {| kp_n := Consts.file_scryptN; kp_r := Consts.file_scryptR; kp_p := Consts.file_scryptP; kp_dklen := Consts.file_scryptDKLen |}.
Definition ver : Z := Consts.file_keyVersion.

Definition kparams_eqb (a b : kparams) : bool :=
  (kp_n a =? kp_n b)%Z && (kp_r a =? kp_r b)%Z && (kp_p a =? kp_p b)%Z && (kp_dklen a =? kp_dklen b)%Z.

Record tables := {
  t_kdf : list (bytes * bytes * kparams * option bytes);
  t_ctr : list (bytes * bytes * bytes * bytes);
  t_sha3 : list (bytes * bytes);
  t_keccak : list (bytes * bytes) }.

Fixpoint kdf_of (t : list (bytes * bytes * kparams * option bytes)) (pw salt : bytes) (p : kparams) : option bytes :=
  match t with
  | [] => None
  | (pw0, salt0, p0, r) :: t' =>
      if bytes_eqb pw0 pw && bytes_eqb salt0 salt && kparams_eqb p0 p then r else kdf_of t' pw salt p
  end.
Fixpoint ctr_of (t : list (bytes * bytes * bytes * bytes)) (k iv d : bytes) : bytes :=
  match t with
  | [] => []
  | (k0, iv0, d0, r) :: t' =>
      if bytes_eqb k0 k && bytes_eqb iv0 iv && bytes_eqb d0 d then r else ctr_of t' k iv d
  end.
Fixpoint hash_of (t : list (bytes * bytes)) (x : bytes) : bytes :=
  match t with
  | [] => []
  | (x0, r) :: t' => if bytes_eqb x0 x then r else hash_of t' x
  end.

(** observed outcome: error CLASS only *)
Inductive oout :=
| OKeyR (k : bytes) (created : bool) | OExistsR (b : bool) | OExportR (d : filedata) | ODone
| OInvalidPassword | OOtherError | OPanicked.

Definition hexf_eqb (a b : hexf) : bool :=
  match a, b with Hex x, Hex y => bytes_eqb x y | BadHex, BadHex => true | _, _ => false end.
Definition crypto_eqb (a b : crypto) : bool :=
  bytes_eqb (c_cipher a) (c_cipher b) && hexf_eqb (c_ct a) (c_ct b) && hexf_eqb (c_iv a) (c_iv b) &&
  bytes_eqb (c_kdf a) (c_kdf b) && kparams_eqb (c_params a) (c_params b) && hexf_eqb (c_salt a) (c_salt b) &&
  hexf_eqb (c_mac a) (c_mac b).
Definition filedata_eqb (a b : filedata) : bool :=
  match a, b with
  | Json v c, Json w d => (v =? w)%Z && crypto_eqb c d
  | NotJson, NotJson => true
  | _, _ => false
  end.

(** compact constructors for the generated case files *)
Definition J (v : Z) (cipher : bytes) (ct iv : hexf) (kdf : bytes) (n r p dklen : Z) (salt mac : hexf) : filedata :=
  Json v {| c_cipher := cipher; c_ct := ct; c_iv := iv; c_kdf := kdf;
            c_params := {| kp_n := n; kp_r := r; kp_p := p; kp_dklen := dklen |}; c_salt := salt; c_mac := mac |}.
Definition KP (n r p dklen : Z) : kparams := {| kp_n := n; kp_r := r; kp_p := p; kp_dklen := dklen |}.
Definition T (k : list (bytes * bytes * kparams * option bytes)) (c : list (bytes * bytes * bytes * bytes))
  (s3 kc : list (bytes * bytes)) : tables := {| t_kdf := k; t_ctr := c; t_sha3 := s3; t_keccak := kc |}.

Definition classify (x : out) : oout :=
  match x with
  | OutKey k c => OKeyR k c
  | OutExists b => OExistsR b
  | OutExport d => OExportR d
  | OutDone => ODone
  | OutErr EInvalidPassword => OInvalidPassword
  | OutErr _ => OOtherError
  | OutPanic => OPanicked
  end.

Definition oout_eqb (a b : oout) : bool :=
  match a, b with
  | OKeyR k c, OKeyR k' c' => bytes_eqb k k' && Bool.eqb c c'
  | OExistsR x, OExistsR y => Bool.eqb x y
  | OExportR d, OExportR e => filedata_eqb d e
  | ODone, ODone | OInvalidPassword, OInvalidPassword | OOtherError, OOtherError | OPanicked, OPanicked => true
  | _, _ => false
  end.

Definition op_name (o : op) : bytes :=
  match o with
  | OKey n _ _ _ _ | OExists n | OExport n _ _ _ | OImport n _ _ _ _ | OImportPriv n _ _ _ _ => n
  end.

(** one observed step: the operation (with the fed random choices), the outcome, and the
    decoded key file of the operation's name afterwards (None: no readable regular file) *)
Definition fstepobs := (op * oout * option filedata)%type.

Inductive case :=
| CFile (dirc : list bytes) (t : tables) (steps : list fstepobs)
| CMem (steps : list (mop * oout))
  (* 8 callers of Key on a fresh name released together: (password, scalar of the key if this
     caller created it, outcome), and the outcome of a later Key with the winner's password *)
| CConc (callers : list (bytes * N * oout)) (later : oout).

Section WithTables.
  Variable dirc : list bytes.
  Variable t : tables.
  Definition mstep' := step (kdf_of (t_kdf t)) (ctr_of (t_ctr t)) (hash_of (t_sha3 t)) (hash_of (t_keccak t)) P ver dirc.

  Definition file_after (s : fs) (o : op) : option filedata :=
    match key_filename dirc (op_name o) with Some p => lookup s p | None => None end.

  (** index of the first disagreeing step, with the model's view of it *)
  Fixpoint check_file (s : fs) (steps : list fstepobs) (i : nat) : option (nat * oout * option filedata) :=
    match steps with
    | [] => None
    | (o, x, after) :: rest =>
        let '(s', mx) := mstep' s o in
        if oout_eqb (classify mx) x && option_eqb filedata_eqb (file_after s' o) after
        then check_file s' rest (S i) else Some (i, classify mx, file_after s' o)
    end.
End WithTables.

Fixpoint check_mem (m : mem) (steps : list (mop * oout)) (i : nat) : option (nat * oout) :=
  match steps with
  | [] => None
  | (o, x) :: rest =>
      let '(m', mx) := mstep m o in
      if oout_eqb (classify mx) x then check_mem m' rest (S i) else Some (i, classify mx)
  end.

(** a concurrent first-use round agrees with the model iff SOME schedule of the atomic model
    produces the observed outcomes; all schedules that start with the same caller give the same
    outcomes, so it suffices to try the schedule led by the caller observed with created = true *)
Fixpoint find_created (l : list (bytes * N * oout)) (i : nat) : option nat :=
  match l with
  | [] => None
  | (_, _, OKeyR _ true) :: _ => Some i
  | _ :: l' => find_created l' (S i)
  end.
Definition conc_model (callers : list (bytes * N * oout)) : option (list oout * oout) :=
  match find_created callers 0 with
  | None => None
  | Some w =>
      let ths0 := map (fun c => {| t_pw := fst (fst c); t_newkey := ser32 (snd (fst c)); t_out := None |}) callers in
      let '(m, ths) := conc_run_atomic [] ([], ths0) (w :: seq 0 (length callers)) in
      let wpw := match nth_error callers w with Some c => fst (fst c) | None => [] end in
      Some (map (fun t => match t_out t with Some o => classify o | None => OPanicked end) ths,
            classify (snd (mstep m (MKey [] wpw []))))
  end.
Definition check_conc (callers : list (bytes * N * oout)) (later : oout) : bool :=
  match conc_model callers with
  | Some (outs, l) => list_eqb oout_eqb outs (map snd callers) && oout_eqb l later
  | None => false
  end.

Definition check_case (c : case) : bool :=
  match c with
  | CFile dirc t steps => match check_file dirc t [] steps 0 with None => true | Some _ => false end
  | CMem steps => match check_mem [] steps 0 with None => true | Some _ => false end
  | CConc callers later => check_conc callers later
  end.

(** (index of first disagreeing step, model's outcome, model's file afterwards) *)
Definition explain_case (c : case) : option (nat * oout * option filedata) :=
  match c with
  | CFile dirc t steps => check_file dirc t [] steps 0
  | CMem steps => option_map (fun r => (fst r, snd r, None)) (check_mem [] steps 0)
  | CConc callers later =>
      if check_conc callers later then None
      else Some (match find_created callers 0 with Some w => w | None => 0%nat end,
                 match conc_model callers with Some (_, l) => l | None => OPanicked end, None)
  end.
