From Coq Require Import List NArith ZArith Bool Lia Arith.
Import ListNotations.
Require Import Aurora.C36.Model.
Local Open Scope N_scope.

Lemma bytes_eqb_eq a b : bytes_eqb a b = true <-> a = b.
Proof.
  revert b; induction a as [|x a IH]; intros [|y b]; cbn; split; intros Hq; try reflexivity; try discriminate.
  - apply andb_true_iff in Hq as [H1 H2]. apply N.eqb_eq in H1. apply IH in H2. now subst.
  - inversion Hq; subst. apply andb_true_iff; split; [apply N.eqb_refl | now apply IH].
Qed.
Lemma bytes_eqb_refl a : bytes_eqb a a = true.
Proof. now apply bytes_eqb_eq. Qed.
Lemma bytes_eqb_neq a b : a <> b -> bytes_eqb a b = false.
Proof. intros Hn. destruct (bytes_eqb a b) eqn:E; [apply bytes_eqb_eq in E; contradiction | reflexivity]. Qed.

Lemma path_eqb_eq a b : path_eqb a b = true <-> a = b.
Proof.
  revert b; induction a as [|x a IH]; intros [|y b]; cbn; split; intros Hq; try reflexivity; try discriminate.
  - apply andb_true_iff in Hq as [H1 H2]. apply bytes_eqb_eq in H1. apply IH in H2. now subst.
  - inversion Hq; subst. apply andb_true_iff; split; [apply bytes_eqb_refl | now apply IH].
Qed.
Lemma path_eqb_refl a : path_eqb a a = true.
Proof. now apply path_eqb_eq. Qed.
Lemma path_eqb_neq a b : a <> b -> path_eqb a b = false.
Proof. intros Hn. destruct (path_eqb a b) eqn:E; [apply path_eqb_eq in E; contradiction | reflexivity]. Qed.

(** * the 32-byte key encoding *)
Lemma ser_be_length n : forall d, length (ser_be n d) = n.
Proof. induction n as [|n IH]; intros d; cbn [ser_be]; [reflexivity|]. rewrite app_length, IH. cbn. lia. Qed.
Lemma ser32_length d : length (ser32 d) = 32%nat.
Proof. apply ser_be_length. Qed.

Lemma be_val_snoc l b : be_val (l ++ [b]) = be_val l * 256 + b.
Proof. unfold be_val. now rewrite fold_left_app. Qed.

Lemma be_val_ser_be n : forall d, be_val (ser_be n d) = d mod 256 ^ N.of_nat n.
Proof.
  induction n as [|n IH]; intros d; cbn [ser_be].
  - cbn. now rewrite N.mod_1_r.
  - rewrite be_val_snoc, IH, Nat2N.inj_succ, N.pow_succ_r'.
    assert (H256 : 256 ^ N.of_nat n <> 0) by (apply N.pow_nonzero; discriminate).
    rewrite (N.mod_mul_r d 256 (256 ^ N.of_nat n)) by (discriminate || assumption). lia.
Qed.

(** every scalar below 2^256 — in particular every secp256k1 scalar in [1, N-1], with any number
    of leading zero bytes — is stored on exactly 32 bytes and read back unchanged *)
Lemma be_val_ser32 d : d < 2 ^ 256 -> be_val (ser32 d) = d.
Proof. intros H. unfold ser32. rewrite be_val_ser_be. apply N.mod_small. exact H. Qed.

Lemma proper_prefix_irrefl a : proper_prefix a a = false.
Proof. induction a as [|x a IH]; cbn; [reflexivity|]. now rewrite IH, andb_false_r. Qed.

(** * the directory tree *)
Lemma lookup_In s p d : lookup s p = Some d -> In (p, d) s.
Proof.
  induction s as [|[q e] s IH]; cbn; [discriminate|].
  destruct (path_eqb q p) eqn:E.
  - intros [= ->]. apply path_eqb_eq in E. subst. now left.
  - intros H. right. now apply IH.
Qed.

Lemma In_remove s p q d : In (q, d) (remove s p) -> In (q, d) s /\ q <> p.
Proof.
  induction s as [|[r e] s IH]; cbn; [tauto|].
  destruct (path_eqb r p) eqn:E.
  - intros H. destruct (IH H). tauto.
  - cbn. intros [[= -> ->]|H].
    + split; [now left|]. intros ->. now rewrite path_eqb_refl in E.
    + destruct (IH H). tauto.
Qed.

Lemma lookup_remove_other s p q : q <> p -> lookup (remove s p) q = lookup s q.
Proof.
  intros Hn. induction s as [|[r e] s IH]; cbn; [reflexivity|].
  destruct (path_eqb r p) eqn:E.
  - apply path_eqb_eq in E. subst r. rewrite (path_eqb_neq p q) by congruence. exact IH.
  - cbn. now rewrite IH.
Qed.

Lemma lookup_write_same s p d : lookup (write s p d) p = Some d.
Proof. unfold write. cbn. now rewrite path_eqb_refl. Qed.
Lemma lookup_write_other s p d q : q <> p -> lookup (write s p d) q = lookup s q.
Proof. intros Hn. unfold write. cbn. rewrite (path_eqb_neq p q) by congruence. now apply lookup_remove_other. Qed.
Lemma In_write s p d q e : In (q, e) (write s p d) -> (q = p /\ e = d) \/ (In (q, e) s /\ q <> p).
Proof. unfold write. cbn. intros [[= -> ->]|H]; [now left | right; now apply In_remove]. Qed.

(** no regular file lies on the way to another one *)
Definition prefix_free (s : fs) : Prop :=
  forall q d q' d', In (q, d) s -> In (q', d') s -> proper_prefix q q' = false.

Definition no_conflict (s : fs) (p : path) : bool :=
  negb (existsb (fun e => proper_prefix (fst e) p || proper_prefix p (fst e)) s).

Lemma read_some s p :
  read s (Some p) = if no_conflict s p then match lookup s p with Some d => RData d | None => RAbsent end else RErr.
Proof. unfold read, no_conflict. now destruct (existsb _ s). Qed.

Lemma no_conflict_present s p d : prefix_free s -> lookup s p = Some d -> no_conflict s p = true.
Proof.
  intros Hpf Hl. apply lookup_In in Hl. unfold no_conflict. apply negb_true_iff.
  destruct (existsb _ s) eqn:E; [|reflexivity]. apply existsb_exists in E as [[q e] [Hin Hc]]. cbn in Hc.
  rewrite (Hpf q e p d Hin Hl), (Hpf p d q e Hl Hin) in Hc. discriminate.
Qed.

Lemma prefix_free_write s p d : prefix_free s -> no_conflict s p = true -> prefix_free (write s p d).
Proof.
  intros Hpf Hc q e q' e' H1 H2.
  unfold no_conflict in Hc. apply negb_true_iff in Hc.
  assert (Hall : forall r x, In (r, x) s -> proper_prefix r p = false /\ proper_prefix p r = false).
  { intros r x Hin. destruct (proper_prefix r p || proper_prefix p r) eqn:E.
    - assert (existsb (fun e0 => proper_prefix (fst e0) p || proper_prefix p (fst e0)) s = true)
        by (apply existsb_exists; exists (r, x); now split).
      congruence.
    - now apply orb_false_iff in E. }
  apply In_write in H1. apply In_write in H2.
  destruct H1 as [[-> ->]|[H1 N1]], H2 as [[-> ->]|[H2 N2]].
  - apply proper_prefix_irrefl.
  - now apply (Hall q' e').
  - now apply (Hall q e).
  - now apply (Hpf q e q' e').
Qed.

Section Laws.
  Variable kdf : bytes -> bytes -> kparams -> option bytes.
  Variable ctr : bytes -> bytes -> bytes -> bytes.
  Variable sha3 keccak : bytes -> bytes.
  Variable P : kparams.
  Variable ver : Z.
  Variable dirc : list bytes.

  (** CTR mode is an XOR with a key stream *)
  Hypothesis ctr_inv : forall k iv d, ctr k iv (ctr k iv d) = d.
  (** scrypt with the fixed, valid parameters of key.go never fails and yields dklen = 32 bytes *)
  Hypothesis kdf_std : forall pw salt, exists dk, kdf pw salt P = Some dk /\ length dk = 32%nat.

  Notation encrypt_key := (encrypt_key kdf ctr keccak P ver).
  Notation decrypt_key := (decrypt_key kdf ctr sha3 keccak ver).
  Notation key_filename := (key_filename dirc).
  Notation step := (step kdf ctr sha3 keccak P ver dirc).
  Notation run := (run kdf ctr sha3 keccak P ver dirc).
  Notation svc_read := (svc_read kdf ctr sha3 keccak ver dirc).

  (** [pw'] opens a blob whose MAC was made under the derived key of [pw]: exactly the
      acceptance condition of decryptData *)
  Definition mac_accepts (pw' salt ct mac : bytes) : Prop :=
    exists dk' mk', kdf pw' salt P = Some dk' /\ slice 16 32 dk' = Some mk' /\
      (sha3 (mk' ++ ct) = mac \/ keccak (mk' ++ ct) = mac).
  Definition Clash (pw pw' : bytes) : Prop :=
    pw <> pw' /\ exists salt ct dk mk, kdf pw salt P = Some dk /\ slice 16 32 dk = Some mk /\
      mac_accepts pw' salt ct (keccak (mk ++ ct)).

  Lemma slices_32 dk : length dk = 32%nat -> exists ek mk, slice 0 16 dk = Some ek /\ slice 16 32 dk = Some mk.
  Proof. intros Hl. unfold slice. rewrite Hl. cbn. eauto. Qed.

  Lemma encrypt_key_inv k pw salt iv d :
    encrypt_key k pw salt iv = Ok d ->
    exists dk ek mk, kdf pw salt P = Some dk /\ slice 0 16 dk = Some ek /\ slice 16 32 dk = Some mk /\
      length iv = 16%nat /\
      d = Json ver {| c_cipher := aes_name; c_ct := Hex (ctr ek iv k); c_iv := Hex iv; c_kdf := scrypt_name;
                      c_params := P; c_salt := Hex salt; c_mac := Hex (keccak (mk ++ ctr ek iv k)) |}.
  Proof.
    unfold Model.encrypt_key, encrypt_data, aes_ctr_xor.
    destruct (kdf pw salt P) as [dk|]; [|discriminate].
    destruct (slice 0 16 dk) as [ek|] eqn:E1; [|discriminate].
    destruct (slice 16 32 dk) as [mk|] eqn:E2; [|discriminate].
    destruct (Nat.eqb (length iv) 16) eqn:E; [|discriminate].
    intros [= <-]. apply Nat.eqb_eq in E. exists dk, ek, mk. repeat split; auto.
  Qed.

  Lemma encrypt_key_ok k pw salt iv : length iv = 16%nat -> exists d, encrypt_key k pw salt iv = Ok d.
  Proof.
    intros Hiv. destruct (kdf_std pw salt) as [dk [Hk Hl]]. destruct (slices_32 dk Hl) as [ek [mk [H1 H2]]].
    unfold Model.encrypt_key, encrypt_data, aes_ctr_xor. rewrite Hk, H1, H2, Hiv. cbn. eauto.
  Qed.

  Lemma decrypt_encrypt k pw salt iv d :
    encrypt_key k pw salt iv = Ok d -> length k = 32%nat -> decrypt_key d pw = Ok k.
  Proof.
    intros He Hk. apply encrypt_key_inv in He as (dk & ek & mk & H1 & H2 & H3 & H4 & ->).
    unfold Model.decrypt_key, decrypt_data, aes_ctr_xor. cbn.
    rewrite Z.eqb_refl. cbn. rewrite H1, H3, bytes_eqb_refl, orb_true_r, H2, H4. cbn.
    rewrite ctr_inv, Hk. reflexivity.
  Qed.

  Lemma decrypt_wrong k pw salt iv d pw' :
    encrypt_key k pw salt iv = Ok d -> pw <> pw' ->
    decrypt_key d pw' = Err EInvalidPassword \/ Clash pw pw'.
  Proof.
    intros He Hne. apply encrypt_key_inv in He as (dk & ek & mk & H1 & H2 & H3 & H4 & ->).
    unfold Model.decrypt_key, decrypt_data. cbn. rewrite Z.eqb_refl. cbn.
    destruct (kdf_std pw' salt) as [dk' [Hk' Hl']]. destruct (slices_32 dk' Hl') as [ek' [mk' [H1' H2']]].
    rewrite Hk', H2'.
    destruct (bytes_eqb (sha3 (mk' ++ ctr ek iv k)) (keccak (mk ++ ctr ek iv k))) eqn:E1.
    - right. split; [exact Hne|]. exists salt, (ctr ek iv k), dk, mk. repeat split; auto.
      exists dk', mk'. repeat split; auto. left. now apply bytes_eqb_eq.
    - destruct (bytes_eqb (keccak (mk' ++ ctr ek iv k)) (keccak (mk ++ ctr ek iv k))) eqn:E2.
      + right. split; [exact Hne|]. exists salt, (ctr ek iv k), dk, mk. repeat split; auto.
        exists dk', mk'. repeat split; auto. right. now apply bytes_eqb_eq.
      + cbn. now left.
  Qed.

  Lemma decrypt_key_len d pw k : decrypt_key d pw = Ok k -> length k = 32%nat.
  Proof.
    unfold Model.decrypt_key. destruct d as [v c|]; [|discriminate].
    destruct (negb (v =? ver)%Z); [discriminate|].
    destruct (decrypt_data kdf ctr sha3 keccak c pw) as [k'| |]; try discriminate.
    destruct (Nat.eqb (length k') 32) eqn:E; [|discriminate]. intros [= <-]. now apply Nat.eqb_eq.
  Qed.

  (** * invariant of reachable directory trees *)
  Definition sealed (d : filedata) : Prop :=
    exists k pw salt iv, encrypt_key k pw salt iv = Ok d /\ length k = 32%nat.

  Definition Inv (s : fs) : Prop :=
    prefix_free s /\ forall q d, In (q, d) s -> sealed d.

  Definition wf_op (o : op) : Prop :=
    match o with
    | OKey _ _ _ _ iv => length iv = 16%nat
    | OExists _ => True
    | OExport _ _ _ iv => length iv = 16%nat
    | OImport _ _ _ _ iv => length iv = 16%nat
    | OImportPriv _ _ _ _ iv => length iv = 16%nat
    end.

  Lemma Inv_nil : Inv [].
  Proof. split; [intros q d q' d' []| intros q d []]. Qed.

  Lemma Inv_write s p d : Inv s -> no_conflict s p = true -> sealed d -> Inv (write s p d).
  Proof.
    intros [Hpf Hs] Hc Hd. split; [now apply prefix_free_write|].
    intros q e Hin. apply In_write in Hin as [[-> ->]|[Hin _]]; [exact Hd | eauto].
  Qed.

  Lemma svc_read_ok s name pw k :
    svc_read s name pw = Ok k ->
    exists p d, key_filename name = Some p /\ no_conflict s p = true /\ lookup s p = Some d /\ decrypt_key d pw = Ok k.
  Proof.
    unfold Model.svc_read. destruct (key_filename name) as [p|] eqn:Ep; [|cbn; discriminate].
    rewrite read_some. destruct (no_conflict s p) eqn:Ec; [|discriminate].
    destruct (lookup s p) as [d|] eqn:El; [|discriminate]. intros H. exists p, d. auto.
  Qed.

  (** [wrote o x p pw]: operation [o] with outcome [x] stored a key under password [pw] at [p]
      (a key was created, or an import succeeded) *)
  Definition wrote (o : op) (x : out) (p : path) (pw : bytes) : Prop :=
    match o, x with
    | OKey name pw0 _ _ _, OutKey _ true => key_filename name = Some p /\ pw0 = pw
    | OImport name pw0 _ _ _, OutDone => key_filename name = Some p /\ pw0 = pw
    | OImportPriv name pw0 _ _ _, OutDone => key_filename name = Some p /\ pw0 = pw
    | _, _ => False
    end.

  Definition is_import_on (o : op) (p : path) : Prop :=
    match o with
    | OImport name _ _ _ _ | OImportPriv name _ _ _ _ => key_filename name = Some p
    | _ => False
    end.

  (** what an operation does to the tree: nothing, or one write of a sealed blob at a
      conflict-free path *)
  Lemma step_effect s o s' x :
    wf_op o -> step s o = (s', x) ->
    s' = s \/
    exists p d k pw salt iv,
      s' = write s p d /\ no_conflict s p = true /\ encrypt_key k pw salt iv = Ok d /\ length k = 32%nat /\
      wrote o x p pw /\ (is_import_on o p \/ lookup s p = None).
  Proof.
    intros Hwf. destruct o as [name pw nk salt iv|name|name pw salt iv|name pw json salt iv|name pw k0 salt iv]; cbn [Model.step]; cbv zeta.
    - destruct (key_filename name) as [p|] eqn:Ep.
      + rewrite read_some. destruct (no_conflict s p) eqn:Ec; [|intros [= <- <-]; now left].
        destruct (lookup s p) as [d|] eqn:El; [intros [= <- <-]; now left|].
        destruct (encrypt_key (ser32 nk) pw salt iv) as [d| |] eqn:Ee; intros [= <- <-]; try now left.
        right. exists p, d, (ser32 nk), pw, salt, iv. cbn. rewrite Ep. repeat split; auto using ser32_length.
      + cbn. intros [= <- <-]; now left.
    - destruct (read s (key_filename name)); intros [= <- <-]; now left.
    - destruct (svc_read s name pw) as [k| |]; intros [= <- <-]; now left.
    - destruct (svc_read s name pw) as [k1| |] eqn:Er; try (intros [= <- <-]; now left).
      apply svc_read_ok in Er as (p & d0 & Ep & Ec & El & Hd). rewrite Ep.
      destruct (decrypt_key json pw) as [k| |] eqn:Ed; try (intros [= <- <-]; now left).
      destruct (encrypt_key k pw salt iv) as [d| |] eqn:Ee; [destruct (bak_ok p)|idtac|idtac]; intros [= <- <-]; try now left.
      right. exists p, d, k, pw, salt, iv. cbn. rewrite Ep. repeat split; auto. now apply decrypt_key_len in Ed.
    - destruct (svc_read s name pw) as [k1| |] eqn:Er; try (intros [= <- <-]; now left).
      apply svc_read_ok in Er as (p & d0 & Ep & Ec & El & Hd). rewrite Ep.
      destruct (encrypt_key (ser32 k0) pw salt iv) as [d| |] eqn:Ee; [destruct (bak_ok p)|idtac|idtac]; intros [= <- <-]; try now left.
      right. exists p, d, (ser32 k0), pw, salt, iv. cbn. rewrite Ep. repeat split; auto using ser32_length.
  Qed.

  Lemma Inv_step s o : Inv s -> wf_op o -> Inv (fst (step s o)).
  Proof.
    intros HI Hwf. destruct (step s o) as [s' x] eqn:E. cbn.
    apply step_effect in E as [->|(p & d & k & pw & salt & iv & -> & Hc & He & Hk & _)]; auto.
    apply Inv_write; auto. now exists k, pw, salt, iv.
  Qed.

  Lemma Inv_run ops : forall s, Inv s -> Forall wf_op ops -> Inv (fst (run s ops)).
  Proof.
    induction ops as [|o ops IH]; intros s HI Hwf; cbn; [exact HI|].
    inversion Hwf as [|? ? Ho Hops]; subst.
    pose proof (Inv_step s o HI Ho) as H1. destruct (step s o) as [s1 x]. cbn in H1.
    specialize (IH s1 H1 Hops). destruct (run s1 ops) as [s2 xs]. exact IH.
  Qed.

  (** * a key file changes only by a successful import on its own path *)
  Lemma file_stable s o p d :
    wf_op o -> lookup s p = Some d ->
    lookup (fst (step s o)) p = Some d \/ (is_import_on o p /\ snd (step s o) = OutDone).
  Proof.
    intros Hwf Hl. destruct (step s o) as [s' x] eqn:E. cbn.
    apply step_effect in E as [->|(q & d' & k & pw & salt & iv & -> & Hc & He & Hk & Hw & Hi)]; auto.
    destruct (list_eq_dec (list_eq_dec N.eq_dec) p q) as [->|Hne].
    - destruct Hi as [Hi|Hn]; [|congruence]. right. split; [exact Hi|].
      destruct o, x; cbn in Hw, Hi; try contradiction; reflexivity.
    - left. now rewrite lookup_write_other.
  Qed.

  Fixpoint no_import_on (p : path) (ops : list op) : Prop :=
    match ops with [] => True | o :: ops' => ~ is_import_on o p /\ no_import_on p ops' end.

  Lemma file_stable_run ops : forall s p d,
    Forall wf_op ops -> no_import_on p ops -> lookup s p = Some d -> lookup (fst (run s ops)) p = Some d.
  Proof.
    induction ops as [|o ops IH]; intros s p d Hwf Hni Hl; cbn; [exact Hl|].
    inversion Hwf as [|? ? Ho Hops]; subst. destruct Hni as [Hn Hni].
    pose proof (file_stable s o p d Ho Hl) as H1. destruct (step s o) as [s1 x]. cbn in H1.
    destruct H1 as [H1|[Hi _]]; [|contradiction].
    specialize (IH s1 p d Hops Hni H1). destruct (run s1 ops) as [s2 xs]. exact IH.
  Qed.

  (** Key on a present file *)
  Lemma key_present s name pw nk salt iv p d :
    prefix_free s -> key_filename name = Some p -> lookup s p = Some d ->
    step s (OKey name pw nk salt iv) = (s, out_of (decrypt_key d pw) (fun k => OutKey k false)).
  Proof.
    intros Hpf Ep Hl. cbn [Model.step]. rewrite Ep, read_some, (no_conflict_present s p d Hpf Hl), Hl. reflexivity.
  Qed.

  (** what Key returned is what the file now opens to *)
  Lemma key_result s name pw nk salt iv s' k c :
    wf_op (OKey name pw nk salt iv) -> step s (OKey name pw nk salt iv) = (s', OutKey k c) ->
    exists p d, key_filename name = Some p /\ lookup s' p = Some d /\ decrypt_key d pw = Ok k.
  Proof.
    intros Hiv. cbn [Model.step]. cbv zeta. destruct (key_filename name) as [p|] eqn:Ep; [|cbn; discriminate].
    rewrite read_some. destruct (no_conflict s p); [|discriminate].
    destruct (lookup s p) as [d|] eqn:El.
    - destruct (decrypt_key d pw) as [k'| |] eqn:Ed; cbn; try discriminate. intros [= <- <- <-]. eauto.
    - destruct (encrypt_key (ser32 nk) pw salt iv) as [d| |] eqn:Ee; try discriminate. intros [= <- <- <-].
      exists p, d. rewrite lookup_write_same. repeat split; auto. apply (decrypt_encrypt (ser32 nk) pw salt iv); auto using ser32_length.
  Qed.

  Lemma same_password_same_key h1 name pw nk salt iv s2 k c h2 name' nk' salt' iv' :
    Forall wf_op h1 -> wf_op (OKey name pw nk salt iv) ->
    step (fst (run [] h1)) (OKey name pw nk salt iv) = (s2, OutKey k c) ->
    Forall wf_op h2 -> (forall p, key_filename name = Some p -> no_import_on p h2) ->
    key_filename name' = key_filename name ->
    step (fst (run s2 h2)) (OKey name' pw nk' salt' iv') = (fst (run s2 h2), OutKey k false).
  Proof.
    intros Hh1 Hwf Hs Hh2 Hni Hn.
    pose proof (Inv_run h1 [] Inv_nil Hh1) as HI1.
    pose proof (Inv_step _ _ HI1 Hwf) as HI2. rewrite Hs in HI2. cbn in HI2.
    pose proof (Inv_run h2 s2 HI2 Hh2) as [Hpf _].
    apply key_result in Hs as (p & d & Ep & Hl & Hd); [|exact Hwf].
    pose proof (file_stable_run h2 s2 p d Hh2 (Hni p Ep) Hl) as Hl2.
    rewrite (key_present _ name' pw nk' salt' iv' p d Hpf (eq_trans Hn Ep) Hl2), Hd. reflexivity.
  Qed.

  Lemma get_is_idempotent h name pw nk salt iv s' k c nk' salt' iv' :
    Forall wf_op h -> wf_op (OKey name pw nk salt iv) ->
    step (fst (run [] h)) (OKey name pw nk salt iv) = (s', OutKey k c) ->
    step s' (OKey name pw nk' salt' iv') = (s', OutKey k false).
  Proof.
    intros Hh Hwf Hs.
    exact (same_password_same_key h name pw nk salt iv s' k c [] name nk' salt' iv' Hh Hwf Hs (Forall_nil _) (fun _ _ => I) eq_refl).
  Qed.

  (** a key stored under [pw] (created, or imported) is not handed out for another password *)
  Lemma wrote_form s o s' x p pw :
    wf_op o -> step s o = (s', x) -> wrote o x p pw ->
    exists d k1 salt iv, lookup s' p = Some d /\ encrypt_key k1 pw salt iv = Ok d /\ length k1 = 32%nat.
  Proof.
    intros Hwf Hs Hw.
    destruct o as [name pw0 nk salt iv|name|name pw0 salt iv|name pw0 json salt iv|name pw0 k0 salt iv];
      cbn [Model.step] in Hs; cbv zeta in Hs; cbn in Hw; try contradiction.
    - destruct x as [k0 [|]| | | | |]; try contradiction. destruct Hw as (Ep & ->).
      rewrite Ep, read_some in Hs. destruct (no_conflict s p); [|discriminate].
      destruct (lookup s p) as [d|] eqn:El.
      + destruct (decrypt_key d pw); cbn in Hs; discriminate.
      + destruct (encrypt_key (ser32 nk) pw salt iv) as [d| |] eqn:Ee; try discriminate.
        injection Hs as <- _. exists d, (ser32 nk), salt, iv. rewrite lookup_write_same. auto using ser32_length.
    - destruct x; try contradiction. destruct Hw as (Ep & ->).
      destruct (svc_read s name pw) as [k2| |] eqn:Er; try discriminate. rewrite Ep in Hs.
      destruct (decrypt_key json pw) as [k3| |] eqn:Ed; try discriminate.
      destruct (encrypt_key k3 pw salt iv) as [d| |] eqn:Ee; try discriminate.
      destruct (bak_ok p); [|discriminate].
      injection Hs as <-. exists d, k3, salt, iv. rewrite lookup_write_same. apply decrypt_key_len in Ed. auto.
    - destruct x; try contradiction. destruct Hw as (Ep & ->).
      destruct (svc_read s name pw) as [k2| |] eqn:Er; try discriminate. rewrite Ep in Hs.
      destruct (encrypt_key (ser32 k0) pw salt iv) as [d| |] eqn:Ee; try discriminate.
      destruct (bak_ok p); [|discriminate].
      injection Hs as <-. exists d, (ser32 k0), salt, iv. rewrite lookup_write_same. auto using ser32_length.
  Qed.

  Lemma wrong_password h1 o x s2 p pw h2 name' pw' nk' salt' iv' :
    Forall wf_op h1 -> wf_op o -> step (fst (run [] h1)) o = (s2, x) -> wrote o x p pw ->
    Forall wf_op h2 -> no_import_on p h2 -> key_filename name' = Some p -> pw <> pw' ->
    snd (step (fst (run s2 h2)) (OKey name' pw' nk' salt' iv')) = OutErr EInvalidPassword \/ Clash pw pw'.
  Proof.
    intros Hh1 Hwf Hs Hw Hh2 Hni Ep Hne.
    pose proof (Inv_run h1 [] Inv_nil Hh1) as HI1.
    pose proof (Inv_step _ _ HI1 Hwf) as HI2. rewrite Hs in HI2. cbn in HI2.
    pose proof (Inv_run h2 s2 HI2 Hh2) as [Hpf _].
    destruct (wrote_form _ _ _ _ _ _ Hwf Hs Hw) as (d & k1 & salt & iv & Hl & He & Hk).
    pose proof (file_stable_run h2 s2 p d Hh2 Hni Hl) as Hl2.
    rewrite (key_present _ name' pw' nk' salt' iv' p d Hpf Ep Hl2). cbn [snd].
    destruct (decrypt_wrong k1 pw salt iv d pw' He Hne) as [Hd|Hc]; [left | now right].
    now rewrite Hd.
  Qed.

  (** the same gate guards ExportKey / ImportKey / ImportPrivateKey *)
  Lemma wrong_password_gate h1 o x s2 p pw h2 name' pw' :
    Forall wf_op h1 -> wf_op o -> step (fst (run [] h1)) o = (s2, x) -> wrote o x p pw ->
    Forall wf_op h2 -> no_import_on p h2 -> key_filename name' = Some p -> pw <> pw' ->
    svc_read (fst (run s2 h2)) name' pw' = Err EInvalidPassword \/ Clash pw pw'.
  Proof.
    intros Hh1 Hwf Hs Hw Hh2 Hni Ep Hne.
    pose proof (Inv_run h1 [] Inv_nil Hh1) as HI1.
    pose proof (Inv_step _ _ HI1 Hwf) as HI2. rewrite Hs in HI2. cbn in HI2.
    pose proof (Inv_run h2 s2 HI2 Hh2) as [Hpf _].
    destruct (wrote_form _ _ _ _ _ _ Hwf Hs Hw) as (d & k1 & salt & iv & Hl & He & Hk).
    pose proof (file_stable_run h2 s2 p d Hh2 Hni Hl) as Hl2.
    unfold Model.svc_read. rewrite Ep, read_some, (no_conflict_present _ p d Hpf Hl2), Hl2.
    exact (decrypt_wrong k1 pw salt iv d pw' He Hne).
  Qed.

  (** ImportPrivateKey of ANY scalar, then Key with the same password: the 32-byte encoding of
      that scalar comes back (so the scalar itself, [be_val_ser32]) *)
  Lemma import_priv_roundtrip h name pw d salt iv s' nk' salt' iv' :
    Forall wf_op h -> wf_op (OImportPriv name pw d salt iv) ->
    step (fst (run [] h)) (OImportPriv name pw d salt iv) = (s', OutDone) ->
    step s' (OKey name pw nk' salt' iv') = (s', OutKey (ser32 d) false).
  Proof.
    intros Hh Hwf Hs.
    pose proof (Inv_run h [] Inv_nil Hh) as HI1.
    pose proof (Inv_step _ _ HI1 Hwf) as HI2. rewrite Hs in HI2. cbn in HI2.
    cbn [Model.step] in Hs. cbv zeta in Hs.
    destruct (svc_read (fst (run [] h)) name pw) as [k1| |] eqn:Er; try discriminate.
    apply svc_read_ok in Er as (p & d0 & Ep & Ec & El & Hd). rewrite Ep in Hs.
    destruct (encrypt_key (ser32 d) pw salt iv) as [b| |] eqn:Ee; try discriminate.
    destruct (bak_ok p); [|discriminate]. injection Hs as <-.
    rewrite (key_present _ name pw nk' salt' iv' p b (proj1 HI2) Ep (lookup_write_same _ _ _)).
    now rewrite (decrypt_encrypt (ser32 d) pw salt iv b Ee (ser32_length d)).
  Qed.

  (** export, then import into any slot that holds a key under the same password *)
  Lemma export_import h n1 pw salt iv d h' n2 salt' iv' :
    Forall wf_op h -> wf_op (OExport n1 pw salt iv) ->
    snd (step (fst (run [] h)) (OExport n1 pw salt iv)) = OutExport d ->
    Forall wf_op h' -> length iv' = 16%nat ->
    (exists k2, svc_read (fst (run [] h')) n2 pw = Ok k2) ->
    (forall p, key_filename n2 = Some p -> bak_ok p = true) ->
    exists k s2, svc_read (fst (run [] h)) n1 pw = Ok k /\
      step (fst (run [] h')) (OImport n2 pw d salt' iv') = (s2, OutDone) /\
      forall nk'' salt'' iv'', step s2 (OKey n2 pw nk'' salt'' iv'') = (s2, OutKey k false).
  Proof.
    intros Hh Hiv Hx Hh' Hiv' [k2 Hr2] Hbak.
    cbn [Model.step] in Hx. destruct (svc_read (fst (run [] h)) n1 pw) as [k| |] eqn:Er; try discriminate.
    destruct (encrypt_key k pw salt iv) as [d0| |] eqn:Ee; cbn in Hx; try discriminate. injection Hx as ->.
    pose proof Er as Er0. apply svc_read_ok in Er as (p1 & d1 & _ & _ & _ & Hd1).
    pose proof (decrypt_key_len _ _ _ Hd1) as Hk.
    pose proof (decrypt_encrypt k pw salt iv d Ee Hk) as Hdd.
    destruct (encrypt_key_ok k pw salt' iv' Hiv') as [d2 Ee2].
    pose proof (Inv_run h' [] Inv_nil Hh') as HI'.
    pose proof Hr2 as Hr2'. apply svc_read_ok in Hr2' as (p2 & d3 & Ep2 & Hc2 & Hl2 & _).
    exists k, (write (fst (run [] h')) p2 d2). split; [reflexivity|]. split.
    - cbn [Model.step]. now rewrite Hr2, Ep2, Hdd, Ee2, (Hbak p2 Ep2).
    - intros nk'' salt'' iv''.
      assert (HI2 : Inv (write (fst (run [] h')) p2 d2)).
      { apply Inv_write; auto. now exists k, pw, salt', iv'. }
      rewrite (key_present _ n2 pw nk'' salt'' iv'' p2 d2 (proj1 HI2) Ep2 (lookup_write_same _ _ _)).
      now rewrite (decrypt_encrypt k pw salt' iv' d2 Ee2 Hk).
  Qed.
End Laws.

(** * the in-memory keystore *)
Lemma mlookup_stable o m name v : mlookup m name = Some v -> mlookup (fst (mstep m o)) name = Some v.
Proof.
  intros Hl. destruct o as [n pw nk|n|n pw|n pw]; cbn; auto.
  destruct (mlookup m n) as [[k pw0]|] eqn:E.
  - now destruct (bytes_eqb pw0 pw).
  - cbn. destruct (bytes_eqb n name) eqn:En; [|exact Hl]. apply bytes_eqb_eq in En. congruence.
Qed.

Lemma mlookup_stable_run ops : forall m name v, mlookup m name = Some v -> mlookup (fst (mrun m ops)) name = Some v.
Proof.
  induction ops as [|o ops IH]; intros m name v Hl; cbn; [exact Hl|].
  pose proof (mlookup_stable o m name v Hl) as H1. destruct (mstep m o) as [m1 x]. cbn in H1.
  specialize (IH m1 name v H1). now destruct (mrun m1 ops).
Qed.

Lemma mkey_result m name pw nk m' k c :
  mstep m (MKey name pw nk) = (m', OutKey k c) -> mlookup m' name = Some (k, pw).
Proof.
  cbn. destruct (mlookup m name) as [[k0 pw0]|] eqn:E.
  - destruct (bytes_eqb pw0 pw) eqn:Ep; [|discriminate]. apply bytes_eqb_eq in Ep. subst. now intros [= <- <- <-].
  - intros [= <- <- <-]. cbn. now rewrite bytes_eqb_refl.
Qed.

Lemma mem_same_password m name pw nk m' k c h nk' :
  mstep m (MKey name pw nk) = (m', OutKey k c) ->
  mstep (fst (mrun m' h)) (MKey name pw nk') = (fst (mrun m' h), OutKey k false).
Proof.
  intros Hs. apply mkey_result in Hs. apply (mlookup_stable_run h) in Hs. cbn. now rewrite Hs, bytes_eqb_refl.
Qed.

Lemma mem_wrong_password m name pw nk m' k c h pw' nk' :
  mstep m (MKey name pw nk) = (m', OutKey k c) -> pw <> pw' ->
  mstep (fst (mrun m' h)) (MKey name pw' nk') = (fst (mrun m' h), OutErr EInvalidPassword).
Proof.
  intros Hs Hne. apply mkey_result in Hs. apply (mlookup_stable_run h) in Hs. cbn. now rewrite Hs, bytes_eqb_neq.
Qed.

(** * scrypt sees the password only as an HMAC key

    scrypt.Key(password, ...) = PBKDF2-HMAC-SHA256(password, ...) at both ends, and HMAC
    first turns its key into one 64-byte block: keys of at most 64 bytes are padded with
    zero bytes, longer ones are replaced by their SHA-256 digest (then padded).  Any KDF of
    that shape gives two different passwords the same derived key. *)
Definition hmac_key (sha256 : bytes -> bytes) (pw : bytes) : bytes :=
  let k := if Nat.leb (length pw) 64 then pw else sha256 pw in k ++ repeat 0 (64 - length k).

Lemma decrypt_key_ext kdf ctr sha3 keccak ver d pw pw' :
  (forall salt prm, kdf pw salt prm = kdf pw' salt prm) ->
  decrypt_key kdf ctr sha3 keccak ver d pw = decrypt_key kdf ctr sha3 keccak ver d pw'.
Proof.
  intros He. destruct d as [v c|]; [|reflexivity]. unfold decrypt_key, decrypt_data.
  destruct (negb (v =? ver)%Z); [reflexivity|].
  destruct (negb (bytes_eqb (c_cipher c) aes_name)); [reflexivity|].
  destruct (c_mac c) as [mac|]; [|reflexivity]. destruct (c_ct c) as [ct|]; [|reflexivity].
  destruct (negb (bytes_eqb (c_kdf c) scrypt_name)); [reflexivity|].
  destruct (c_salt c) as [salt|]; [|reflexivity]. now rewrite He.
Qed.

Section HmacShape.
  Variable f : bytes -> bytes -> kparams -> option bytes.
  Variable sha256 : bytes -> bytes.
  Variable ctr : bytes -> bytes -> bytes -> bytes.
  Variable sha3 keccak : bytes -> bytes.
  Variable P : kparams.
  Variable ver : Z.
  Variable dirc : list bytes.
  Hypothesis ctr_inv : forall k iv d, ctr k iv (ctr k iv d) = d.
  Definition hkdf (pw salt : bytes) (prm : kparams) := f (hmac_key sha256 pw) salt prm.
  Hypothesis h_std : forall pw salt, exists dk, hkdf pw salt P = Some dk /\ length dk = 32%nat.

  Lemma hmac_wrong_password_accepted name nk salt iv nk' salt' iv' :
    key_filename dirc name <> None -> length iv = 16%nat ->
    exists s1,
      step hkdf ctr sha3 keccak P ver dirc [] (OKey name [] nk salt iv) = (s1, OutKey (ser32 nk) true) /\
      step hkdf ctr sha3 keccak P ver dirc s1 (OKey name [0] nk' salt' iv') = (s1, OutKey (ser32 nk) false).
  Proof.
    intros Hn Hiv. destruct (key_filename dirc name) as [p|] eqn:Ep; [|congruence].
    destruct (encrypt_key_ok hkdf ctr keccak P ver h_std (ser32 nk) [] salt iv Hiv) as [d Ee].
    exists (write [] p d). split.
    - cbn [step]. cbv zeta. rewrite Ep. cbn [read existsb lookup]. now rewrite Ee.
    - assert (Hpf : prefix_free (write [] p d)).
      { apply prefix_free_write; [intros q e q' e' [] | reflexivity]. }
      rewrite (key_present hkdf ctr sha3 keccak P ver dirc _ name [0] nk' salt' iv' p d Hpf Ep (lookup_write_same _ _ _)).
      rewrite (decrypt_key_ext hkdf ctr sha3 keccak ver d [0] []) by reflexivity.
      now rewrite (decrypt_encrypt hkdf ctr sha3 keccak P ver ctr_inv (ser32 nk) [] salt iv d Ee (ser32_length nk)).
  Qed.
End HmacShape.

(** * concurrent first use: Key as ONE critical section, all schedules *)
Lemma upd_Forall {A} (P : A -> Prop) f : forall (l : list A) i t,
  nth_error l i = Some t -> Forall P l -> P (f t) -> Forall P (upd i f l).
Proof.
  induction l as [|x l IH]; intros [|i] t Hn HF Hp; cbn in *; try discriminate.
  - injection Hn as ->. inversion HF; subst. now constructor.
  - inversion HF; subst. constructor; [assumption | now apply (IH i t)].
Qed.

Lemma upd_created f : forall (l : list cthread) i t,
  nth_error l i = Some t -> is_created t = false ->
  length (filter is_created (upd i f l)) = (length (filter is_created l) + (if is_created (f t) then 1 else 0))%nat.
Proof.
  induction l as [|x l IH]; intros [|i] t Hn Hc; cbn [upd filter nth_error] in *; try discriminate.
  - injection Hn as ->. rewrite Hc. destruct (is_created (f t)); cbn; lia.
  - destruct (is_created x); cbn [length]; rewrite (IH i t Hn Hc); lia.
Qed.

Lemma none_not_created l : Forall (fun t => t_out t = None) l -> filter is_created l = [].
Proof.
  induction 1 as [|t l Ht _ IH]; [reflexivity|]. cbn. unfold is_created at 1. now rewrite Ht.
Qed.

Definition conc_inv (name : bytes) (st : mem * list cthread) : Prop :=
  match mlookup (fst st) name with
  | None => Forall (fun t => t_out t = None) (snd st)
  | Some (k, pw0) =>
      length (filter is_created (snd st)) = 1%nat /\
      Forall (fun t => t_out t = None \/ agrees k pw0 t = true) (snd st)
  end.

Lemma conc_inv_step name st tid : conc_inv name st -> conc_inv name (conc_step_atomic name st tid).
Proof.
  destruct st as [m ths]. unfold conc_step_atomic, conc_inv. cbn [fst snd]. intros HI.
  destruct (nth_error ths tid) as [t|] eqn:En; [|exact HI].
  destruct (t_out t) as [o|] eqn:Eo; [exact HI|].
  assert (Hnc : is_created t = false) by (unfold is_created; now rewrite Eo).
  cbn [mstep]. destruct (mlookup m name) as [[k pw0]|] eqn:El.
  - destruct HI as [Hc HF].
    destruct (bytes_eqb pw0 (t_pw t)) eqn:Ep; cbn [fst snd]; rewrite El; split.
    + rewrite (upd_created _ ths tid t En Hnc). cbn. lia.
    + apply (upd_Forall _ _ ths tid t En HF). right. unfold agrees. cbn.
      apply bytes_eqb_eq in Ep. subst pw0. now rewrite !bytes_eqb_refl.
    + rewrite (upd_created _ ths tid t En Hnc). cbn. lia.
    + apply (upd_Forall _ _ ths tid t En HF). right. unfold agrees. cbn.
      rewrite bytes_eqb_neq; [reflexivity|]. intros E. rewrite E, bytes_eqb_refl in Ep. discriminate.
  - cbn [fst snd mlookup]. rewrite bytes_eqb_refl. split.
    + rewrite (upd_created _ ths tid t En Hnc), (none_not_created ths HI). reflexivity.
    + apply (upd_Forall _ _ ths tid t En).
      * eapply Forall_impl; [|exact HI]. intros a Ha. now left.
      * right. unfold agrees. cbn. now rewrite !bytes_eqb_refl.
Qed.

Lemma conc_inv_run name sched : forall st, conc_inv name st -> conc_inv name (conc_run_atomic name st sched).
Proof.
  unfold conc_run_atomic. induction sched as [|tid sched IH]; intros st HI; cbn [fold_left]; [exact HI|].
  apply IH. now apply conc_inv_step.
Qed.

(** every schedule; when all callers have returned the round is as it should be *)
Lemma conc_first_use name ths0 sched :
  Forall (fun t => t_out t = None) ths0 ->
  let st := conc_run_atomic name ([], ths0) sched in
  (* at any time: whoever holds a key holds the stored one, whoever was rejected had another password *)
  (forall t k c, In t (snd st) -> t_out t = Some (OutKey k c) -> exists pw0, mlookup (fst st) name = Some (k, pw0) /\ t_pw t = pw0) /\
  (forall t e, In t (snd st) -> t_out t = Some (OutErr e) ->
     e = EInvalidPassword /\ exists k pw0, mlookup (fst st) name = Some (k, pw0) /\ t_pw t <> pw0) /\
  (snd st <> [] -> Forall (fun t => t_out t <> None) (snd st) -> first_use_ok (fst st) name (snd st) = true).
Proof.
  intros H0 st.
  assert (HI : conc_inv name st) by (apply conc_inv_run; exact H0).
  unfold conc_inv in HI. unfold first_use_ok.
  destruct (mlookup (fst st) name) as [[k0 pw0]|] eqn:El.
  - destruct HI as [Hc HF]. rewrite Forall_forall in HF. split; [|split].
    + intros t k c Hin Ho. destruct (HF t Hin) as [Hn|Ha]; [congruence|].
      unfold agrees in Ha. rewrite Ho in Ha. destruct (bytes_eqb (t_pw t) pw0) eqn:Ep; [|discriminate].
      apply bytes_eqb_eq in Ep, Ha. subst. eauto.
    + intros t e Hin Ho. destruct (HF t Hin) as [Hn|Ha]; [congruence|].
      unfold agrees in Ha. rewrite Ho in Ha. destruct (bytes_eqb (t_pw t) pw0) eqn:Ep; [discriminate|].
      destruct e; try discriminate. split; [reflexivity|]. exists k0, pw0. split; [reflexivity|].
      intros E. rewrite E, bytes_eqb_refl in Ep. discriminate.
    + intros _ Hd. rewrite Hc. cbn. apply forallb_forall. intros t Hin.
      rewrite Forall_forall in Hd. destruct (HF t Hin) as [Hn|Ha]; [|exact Ha]. now elim (Hd t Hin).
  - rewrite Forall_forall in HI. split; [|split].
    + intros t k c Hin Ho. rewrite (HI t Hin) in Ho. discriminate.
    + intros t e Hin Ho. rewrite (HI t Hin) in Ho. discriminate.
    + intros Hne Hd. destruct (snd st) as [|t l]; [congruence|]. exfalso.
      rewrite Forall_forall in Hd. apply (Hd t (or_introl eq_refl)). apply HI. now left.
Qed.
