(** C16 — deleting one file never breaks another; no unpinned orphan remains.
    Property theorems only.  The model is [Aurora.C12.Model]: [api_delete]
    (the closure of auroraDeleteHandler inside chunkinfo.DelFile), [gc_end_ci]
    (cache eviction), the pyramid reference counts of chunkinfo — of the code
    with proposed/C16/fix-delfile-unregistered-root.patch and
    proposed/C16/fix-delete-shared-root.patch.

    "Another locally known file" is read as: another file registered with
    chunkinfo (its root is in the pyramid table: that is what the node knows).
    [readable cat s r]: every chunk of the file — data chunks, intermediate
    chunks, manifest nodes — is stored (content addressing: the stored bytes of
    an address never change, so reading gives the same bytes). *)
From Coq Require Import List NArith ZArith Bool.
Import ListNotations.
Require Import Aurora.C11.Model Aurora.C12.Model Aurora.C12.ProofsCi Aurora.C12.ProofsGc
        Aurora.C12.ProofsHist Aurora.C12.ProofsOrphan Aurora.C12.Witness.
Local Open Scope N_scope.

(** DELETE.  After EVERY history (any interleaving of localstore calls, registrations,
    deletes and collection phases from the empty node), for EVERY reference handed to the delete
    handler and every order in which Go ranges over the pyramid maps: every OTHER registered
    file keeps the stored bytes and the pin count of every one of its chunks, is exactly as
    readable as before and stays registered.  (Code with the two C16 repairs; the witnesses of
    the unrepaired code are corpus cases of the harness.) *)
Theorem C16_delete_keeps_others :
  forall cat po cap (h : list gop) root order rb shb,
    let x := gexec cat po cap sys_init h in
    registered (ci x) rb = true -> cat_get cat rb = Some shb -> rb <> root ->
    (forall a, In a (cidset shb) ->
       data_get (ls (delete_run cat po cap root order x)) a = data_get (ls x) a /\
       pin_get (ls (delete_run cat po cap root order x)) a = pin_get (ls x) a) /\
    readable cat (ls (delete_run cat po cap root order x)) rb = readable cat (ls x) rb /\
    registered (ci (delete_run cat po cap root order x)) rb = true.
Proof. exact delete_others_thm. Qed.
Print Assumptions C16_delete_keeps_others.

(** "Afterwards, no unpinned chunk used only by the deleted file remains stored."  After every
    history, for a DELETE answered 200 and every order: every chunk of the deleted file that no
    OTHER registered file contains is, afterwards, either not stored or still pinned (its pin
    count exceeded the number of times the file uses it). *)
Theorem C16_delete_leaves_no_orphan :
  forall cat po cap (h : list gop) root order sh a,
    let x := gexec cat po cap sys_init h in
    trav cat (ls x) root = Some sh ->
    snd (gstep cat po cap x (GDelete root order)) = GDel true ->
    In a (cidset sh) ->
    (forall r, registered (ci x) r = true -> r <> root -> in_fileb cat r a = false) ->
    data_get (ls (delete_run cat po cap root order x)) a = None \/
    pin_get (ls (delete_run cat po cap root order x)) a <> None.
Proof. exact delete_no_orphan_thm. Qed.
Print Assumptions C16_delete_leaves_no_orphan.

(** EVICTION.  "every other stored file stays fully readable" is FALSE for cache eviction:
    the run deletes the root chunk of every recycled file without consulting the reference
    counts; a registered manifest over a cached one-chunk file loses that chunk (the same
    statement in collectGarbage; not repaired: known finding). *)
Theorem C16_eviction_keeps_others_refuted :
  exists cat po cap h rb ctx,
     let x := gexec cat po cap sys_init h in
     s_gcrun (ls x) = Some ctx /\ ~ In rb (cand_roots (g_cands ctx)) /\
     registered (ci x) rb = true /\ readable cat (ls x) rb = true /\
     readable cat (ls (gc_run cat po cap x)) rb = false.
Proof. exact others_readable_refuted. Qed.
Print Assumptions C16_eviction_keeps_others_refuted.

(** What holds for eviction: after every history, a run leaves every registered file that is
    not a candidate as it was (bytes, pins, readability, registration), provided none of its
    chunks is a candidate's root address. *)
Theorem C16_eviction_keeps_others_partial :
  forall cat po cap (h : list gop) ctx rb shb,
    let x := gexec cat po cap sys_init h in
    s_gcrun (ls x) = Some ctx ->
    registered (ci x) rb = true -> cat_get cat rb = Some shb -> ~ In rb (cand_roots (g_cands ctx)) ->
    (forall r, In r (cand_roots (g_cands ctx)) -> ~ In r (cidset shb)) ->
    (forall a, In a (cidset shb) ->
       data_get (ls (gc_run cat po cap x)) a = data_get (ls x) a /\
       pin_get (ls (gc_run cat po cap x)) a = pin_get (ls x) a) /\
    readable cat (ls (gc_run cat po cap x)) rb = readable cat (ls x) rb /\
    registered (ci (gc_run cat po cap x)) rb = true.
Proof. exact gc_others_thm. Qed.
Print Assumptions C16_eviction_keeps_others_partial.

(** non-vacuity: two registered uploaded files sharing a chunk (one uses it twice, pinned);
    deleting the first leaves the second readable and removes the exclusive chunks; and the
    two witnesses of the unrepaired delete path: the manifest stays readable *)
Example C16_example :
  let cat := [ (rA, {| f_leaves := [x1; x1; x2]; f_edges := [rA]; f_probe := [] |});
               (rB, {| f_leaves := [x1; x3]; f_edges := [rB]; f_probe := [] |}) ] in
  let h := [uppin 1 x1; uppin 2 x1; uppin 3 x2; uppin 4 rA; GReg rA; up 5 x1; up 6 x3; up 7 rB; GReg rB] in
  let x := gexec cat po0 100 sys_init h in
  registered (ci x) rA = true /\ registered (ci x) rB = true /\ readable cat (ls x) rB = true /\
  snd (gstep cat po0 100 x (GDelete rA [x2])) = GDel true /\
  readable cat (ls (delete_run cat po0 100 rA [x2] x)) rB = true /\
  data_has (ls (delete_run cat po0 100 rA [x2] x)) x2 = false /\
  data_has (ls (delete_run cat po0 100 rA [x2] x)) rA = false /\
  pin_get (ls (delete_run cat po0 100 rA [x2] x)) x1 = Some 2.
Proof. vm_compute. repeat split; reflexivity. Qed.
Example C16_repaired_witnesses :
  (let x := gexec cat0 po0 100 sys_init w_del_unreg in
   snd (gstep cat0 po0 100 x (GDelete rB [])) = GDel true /\
   readable cat0 (ls (delete_run cat0 po0 100 rB [] x)) rM = true /\
   ci (delete_run cat0 po0 100 rB [] x) = ci x) /\
  (let x := gexec cat0 po0 100 sys_init w_del_root in
   snd (gstep cat0 po0 100 x (GDelete rB [])) = GDel true /\
   readable cat0 (ls (delete_run cat0 po0 100 rB [] x)) rM = true /\
   registered (ci (delete_run cat0 po0 100 rB [] x)) rB = false).
Proof. exact delete_witnesses_repaired. Qed.
