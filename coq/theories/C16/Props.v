(** C16 — deleting one file never breaks another; no unpinned orphan remains.
    Property theorems only.  The model is [Aurora.C12.Model]: [api_delete]
    (the closure of auroraDeleteHandler inside chunkinfo.DelFile), [gc_end_ci]
    (cache eviction), the pyramid reference counts of chunkinfo.

    "Another locally known file" is read as: another file registered with
    chunkinfo (its root is in the pyramid table: that is what the node knows).
    [readable cat s r]: every chunk of the file — data chunks, intermediate
    chunks, manifest nodes — is stored (content addressing: the stored bytes of
    an address never change, so reading gives the same bytes). *)
From Coq Require Import List NArith ZArith Bool.
Import ListNotations.
Require Import Aurora.C11.Model Aurora.C12.Model Aurora.C12.ProofsCi Aurora.C12.ProofsGc
        Aurora.C12.ProofsHist Aurora.C12.ProofsOrphan Aurora.C12.Witness.
Local Open Scope N_scope.

(** "every other stored file stays fully readable" — FALSE in three ways:
    (1) DELETE of a reference chunkinfo never registered (the bare POST /bytes reference of the
        content a registered manifest points to): the counts of the registered file's chunks are
        1, so the closure removes them;
    (2) the deleted file IS registered, but its root chunk is an inner chunk of another
        registered file: the closure removes the root unconditionally;
    (3) the same through eviction: the run deletes the root of every recycled file unconditionally. *)
Theorem C16_others_readable_refuted :
  (exists cat po cap h root order rb,
     let x := gexec cat po cap sys_init h in
     registered (ci x) rb = true /\ registered (ci x) root = false /\ rb <> root /\
     readable cat (ls x) rb = true /\
     snd (gstep cat po cap x (GDelete root order)) = GDel true /\
     readable cat (ls (delete_run cat po cap root order x)) rb = false) /\
  (exists cat po cap h root order rb,
     let x := gexec cat po cap sys_init h in
     guarded cat po cap sys_init (h ++ [GDelete root order]) /\
     registered (ci x) rb = true /\ registered (ci x) root = true /\ rb <> root /\
     readable cat (ls x) rb = true /\
     snd (gstep cat po cap x (GDelete root order)) = GDel true /\
     readable cat (ls (delete_run cat po cap root order x)) rb = false) /\
  (exists cat po cap h rb ctx,
     let x := gexec cat po cap sys_init h in
     guarded cat po cap sys_init (h ++ [GGcEnd]) /\
     s_gcrun (ls x) = Some ctx /\ ~ In rb (cand_roots (g_cands ctx)) /\
     registered (ci x) rb = true /\ readable cat (ls x) rb = true /\
     readable cat (ls (gc_run cat po cap x)) rb = false).
Proof. exact others_readable_refuted. Qed.
Print Assumptions C16_others_readable_refuted.

(** What holds for DELETE.  After every guarded history (reference counts exact), when the
    deleted reference is registered (or cannot be traversed: then the handler does nothing):
    every OTHER registered file keeps the stored bytes and the pin count of every one of its
    chunks, is exactly as readable as before and stays registered — unless the deleted root
    address is itself one of its chunks (witness 2 above). For every order in which Go ranges
    over the pyramid maps. *)
Theorem C16_delete_keeps_others_partial :
  forall cat po cap (h : list gop) root order rb shb,
    guarded cat po cap sys_init h ->
    let x := gexec cat po cap sys_init h in
    (forall sh, trav cat (ls x) root = Some sh -> registered (ci x) root = true) ->
    registered (ci x) rb = true -> cat_get cat rb = Some shb -> rb <> root -> ~ In root (cidset shb) ->
    (forall a, In a (cidset shb) ->
       data_get (ls (delete_run cat po cap root order x)) a = data_get (ls x) a /\
       pin_get (ls (delete_run cat po cap root order x)) a = pin_get (ls x) a) /\
    readable cat (ls (delete_run cat po cap root order x)) rb = readable cat (ls x) rb /\
    registered (ci (delete_run cat po cap root order x)) rb = true.
Proof. exact delete_others_thm. Qed.
Print Assumptions C16_delete_keeps_others_partial.

(** What holds for eviction: the same for a collection run whose candidates are registered
    when their turn comes ([gc_guard]), for every registered file that is not a candidate and
    none of whose chunks is a candidate's root address (witness 3). *)
Theorem C16_eviction_keeps_others_partial :
  forall cat po cap (h : list gop) ctx rb shb,
    guarded cat po cap sys_init h ->
    let x := gexec cat po cap sys_init h in
    s_gcrun (ls x) = Some ctx -> gc_guard cat (ls x) (ci x) (g_cands ctx) ->
    registered (ci x) rb = true -> cat_get cat rb = Some shb -> ~ In rb (cand_roots (g_cands ctx)) ->
    (forall r, In r (cand_roots (g_cands ctx)) -> ~ In r (cidset shb)) ->
    (forall a, In a (cidset shb) ->
       data_get (ls (gc_run cat po cap x)) a = data_get (ls x) a /\
       pin_get (ls (gc_run cat po cap x)) a = pin_get (ls x) a) /\
    readable cat (ls (gc_run cat po cap x)) rb = readable cat (ls x) rb /\
    registered (ci (gc_run cat po cap x)) rb = true.
Proof. exact gc_others_thm. Qed.
Print Assumptions C16_eviction_keeps_others_partial.

(** "Afterwards, no unpinned chunk used only by the deleted file remains stored."  For a
    DELETE answered 200 of a registered file, after every guarded history: every chunk of the
    file that no other registered file contains is, afterwards, either not stored or still
    pinned (its pin count exceeded the number of times the file uses it).  For every order. *)
Theorem C16_delete_leaves_no_orphan_partial :
  forall cat po cap (h : list gop) root order sh a,
    guarded cat po cap sys_init h ->
    let x := gexec cat po cap sys_init h in
    registered (ci x) root = true -> trav cat (ls x) root = Some sh ->
    snd (gstep cat po cap x (GDelete root order)) = GDel true ->
    In a (cidset sh) -> refs cat (ci x) a = 1 ->
    data_get (ls (delete_run cat po cap root order x)) a = None \/
    pin_get (ls (delete_run cat po cap root order x)) a <> None.
Proof. exact delete_no_orphan_thm. Qed.
Print Assumptions C16_delete_leaves_no_orphan_partial.

(** non-vacuity: two registered uploaded files sharing a chunk (one uses it twice, pinned);
    deleting the first leaves the second readable, removes the exclusive chunks *)
Example C16_example :
  let cat := [ (rA, {| f_leaves := [x1; x1; x2]; f_edges := [rA] |});
               (rB, {| f_leaves := [x1; x3]; f_edges := [rB] |}) ] in
  let h := [uppin 1 x1; uppin 2 x1; uppin 3 x2; uppin 4 rA; GReg rA; up 5 x1; up 6 x3; up 7 rB; GReg rB] in
  let x := gexec cat po0 100 sys_init h in
  guarded cat po0 100 sys_init (h ++ [GDelete rA [x2]]) /\
  registered (ci x) rA = true /\ registered (ci x) rB = true /\ readable cat (ls x) rB = true /\
  snd (gstep cat po0 100 x (GDelete rA [x2])) = GDel true /\
  readable cat (ls (delete_run cat po0 100 rA [x2] x)) rB = true /\
  data_has (ls (delete_run cat po0 100 rA [x2] x)) x2 = false /\
  data_has (ls (delete_run cat po0 100 rA [x2] x)) rA = false /\
  pin_get (ls (delete_run cat po0 100 rA [x2] x)) x1 = Some 2.
Proof. vm_compute. repeat split; try reflexivity; try discriminate. Qed.
