(** C16 — correspondence: the same case language, model and checker as C12
    ([Aurora.C12.Corr]: localstore calls, chunkinfo registrations, DELETE
    /aurora/{root} and both phases of collection runs on the real stack,
    compared step by step with [Aurora.C12.Model]). *)
Require Export Aurora.C11.Model Aurora.C11.Corr Aurora.C12.Model Aurora.C12.Corr.
Definition case := Aurora.C12.Corr.case.
Definition check_case : case -> bool := Aurora.C12.Corr.check_case.
Definition explain_case := Aurora.C12.Corr.explain_case.
