(** C06 — correspondence.  The harness drives the real retrieval.Service
    (RetrieveChunk, the relaying handler), traversal.GetChunkHashes and
    chunkinfo's pyramid exchange with scripted peers/stubs and records what
    they did (calls made on the stubs, Put calls, result class); [check_case]
    recomputes all of that with the model.

    Payloads are written as literal stretches + runs ([blob]) so that 256 KiB
    payloads stay small in the case files; the model runs on the expanded
    byte lists.  The BMT hash is instantiated by a table computed by the
    harness with an independent reference BMT: preimage (span ++ the data
    bytes the hasher digests) -> hash; [covers] checks that every payload the
    model hashes is in the table. *)
From Coq Require Import List NArith ZArith Bool.
Import ListNotations.
Require Import Aurora.Base.Corr Aurora.Consts.
Require Export Aurora.C06.Model.
Local Open Scope N_scope.

Definition ChunkSize : N := Z.to_N Consts.boson_ChunkSize.
Definition SpanSize : N := Z.to_N Consts.boson_SpanSize.
Definition HCap : N := Z.to_N (Consts.boson_BmtBranches * Consts.boson_HashSize).
Definition MaxFrame : N := Z.to_N Consts.protobuf_delimitedReaderMaxSize.

Inductive seg := Lit (l : list N) | Run (b n : N).
Definition blob := list seg.
Fixpoint expand (b : blob) : list N :=
  match b with
  | [] => []
  | Lit l :: t => l ++ expand t
  | Run x n :: t => N.iter n (cons x) (expand t)
  end.

Definition etab := list (list N * list N).
Definition expand_tab (t : list (blob * list N)) : etab := map (fun e => (expand (fst e), snd e)) t.
Fixpoint tab_find (pre : list N) (t : etab) : option (list N) :=
  match t with
  | [] => None
  | (k, h) :: t' => if beq k pre then Some h else tab_find pre t'
  end.
(** an absent preimage hashes to something that is no byte string *)
Definition H_tab (t : etab) (span data : list N) : list N :=
  match tab_find (span ++ data) t with Some h => h | None => [256] end.
(** the repaired code (and cac.Valid) hashes a payload only when its length is
    within [SpanSize, ChunkSize+SpanSize]; those must be in the table *)
Definition covered (t : etab) (p : list N) : bool :=
  let n := lenN p in
  if (n <? SpanSize) || (ChunkSize + SpanSize <? n) then true
  else match tab_find (span_of SpanSize p ++ hasher_write HCap [] (data_of SpanSize p)) t with Some _ => true | None => false end.

(** ---------------- retrieval ---------------- *)

Inductive creply := CClose | CFrame (flen : N) (msg : option blob).
Inductive cenv := CEnv (connect reserve stream : bool) (r : creply) (socv : bool) (credit report put : bool).

Definition env_of (e : cenv) : renv :=
  match e with
  | CEnv c r s rp _ cr rpt pt =>
      {| connect_ok := c; reserve_ok := r; stream_ok := s;
         rep := match rp with CClose => RClose | CFrame n m => RFrame n (option_map expand m) end;
         credit_ok := cr; report_ok := rpt; put_ok := pt |}
  end.
Definition env_payload (e : cenv) : list (list N * bool) :=
  match e with CEnv _ _ _ (CFrame _ (Some d)) sv _ _ _ => [(expand d, sv)] | _ => [] end.
(** soc.Valid as observed by the harness on (addr, the delivered data) *)
Definition soc_tab (ps : list (list N * bool)) (a p : list N) : bool :=
  existsb (fun e : list N * bool => if snd e then beq (fst e) p else false) ps.

Inductive cev := OConnect | OReserve | OStream | OCredit | OReport | OPut (a : list N) (p : blob).
Inductive cres := OOk (a : list N) (p : blob) | ONoRoute | ONotFound | OOther.  (* OOther: hang / unexpected error *)

Definition ev_eqb (m : event) (o : cev) : bool :=
  match m, o with
  | EvConnect, OConnect | EvReserve, OReserve | EvStream, OStream | EvCredit, OCredit | EvReport, OReport => true
  | EvPut a p, OPut a' p' => if beq a a' then beq p (expand p') else false
  | _, _ => false
  end.
Fixpoint trace_eqb (m : list event) (o : list cev) : bool :=
  match m, o with
  | [], [] => true
  | x :: m', y :: o' => if ev_eqb x y then trace_eqb m' o' else false
  | _, _ => false
  end.
Definition lres_eqb (m : lres) (o : cres) : bool :=
  match m, o with
  | LOk a p, OOk a' p' => if beq a a' then beq p (expand p') else false
  | LNoRoute, ONoRoute | LNotFound, ONotFound => true
  | _, _ => false
  end.

(** ---------------- pyramid ---------------- *)

Definition cmap := list (pkey * blob).
Definition map_of (m : cmap) : pmap := map (fun e => (fst e, expand (snd e))) m.

Definition gclass_code (c : gclass) : N :=
  match c with
  | GOk => 0 | GInvalidPyramid => 1 | GPut => 2 | GPanic => 3
  | GNoRoot | GShort | GHex | GWalk => 4
  end.
Definition pclass_code (c : pclass) : N :=
  match c with PSkip => 0 | PRead => 4 | PSource => 4 | PGet g => gclass_code g end.

Definition put_eqb (m : list N * list N) (o : list N * blob) : bool :=
  if beq (fst m) (fst o) then beq (snd m) (expand (snd o)) else false.
Definition subset_mo (m : list (list N * list N)) (o : list (list N * blob)) : bool :=
  forallb (fun x => existsb (fun y => put_eqb x y) o) m.
Definition subset_om (o : list (list N * blob)) (m : list (list N * list N)) : bool :=
  forallb (fun y => existsb (fun x => put_eqb x y) m) o.
Definition head_eqb (m : list (list N * list N)) (o : list (list N * blob)) : bool :=
  match m, o with
  | [], [] => true
  | x :: _, y :: _ => put_eqb x y
  | _, _ => false
  end.
(** the root is Put first; the others follow in Go map order, so they are
    compared as sets.  With an injected Put failure only the number of calls
    and membership in the failure-free Put list are determined. *)
Definition puts_match (m mfree : list (list N * list N)) (failing : bool) (o : list (list N * blob)) : bool :=
  Nat.eqb (length m) (length o) && head_eqb m o &&
  (if failing then subset_om o mfree else subset_mo m o && subset_om o m).

Inductive cframe := CFResp (hash : list N) (chunk : blob) (ok : bool) | CFBad.
Definition frame_of (f : cframe) : frame :=
  match f with CFResp h c ok => FResp h (expand c) ok | CFBad => FBad end.
Inductive cop := COp (root : list N) (frames : list cframe) (queries : list (list N)) (wend : wout)
                     (fail_at : option N) (source_ok : bool).

(** ---------------- cases ---------------- *)

Inductive case :=
| CRetr (addr : list N) (nroutes : N) (pass1 pass2 : list cenv) (tab : list (blob * list N))
        (otrace : list cev) (ores : cres)
| CRelay (addr : list N) (local : option blob) (self : bool) (e : cenv) (tab : list (blob * list N))
        (otrace : list cev) (odeliver : option blob)
| CPyr (root : list N) (m : cmap) (queries : list (list N)) (wend : wout) (fail_at : option N)
        (tab : list (blob * list N)) (oputs : list (list N * blob)) (oclass : N)
| CHist (ops : list cop) (tab : list (blob * list N)) (obs : list (list (list N * blob) * N)).

Definition frame_payloads (f : cframe) : list (list N) :=
  match f with CFResp _ c false => [expand c] | _ => [] end.

Definition covers (c : case) : bool :=
  match c with
  | CRetr _ _ p1 p2 tab _ _ =>
      let t := expand_tab tab in forallb (fun e => covered t (fst e)) (flat_map env_payload (p1 ++ p2))
  | CRelay _ _ _ e tab _ _ =>
      let t := expand_tab tab in forallb (fun e => covered t (fst e)) (env_payload e)
  | CPyr _ m _ _ _ tab _ _ =>
      let t := expand_tab tab in forallb (fun e => covered t (expand (snd e))) m
  | CHist ops tab _ =>
      let t := expand_tab tab in
      forallb (fun o => match o with COp _ fr _ _ _ _ => forallb (covered t) (flat_map frame_payloads fr) end) ops
  end.

Definition hres_eqb (m : hres) (o : option blob) : bool :=
  match m, o with
  | HDeliver d, Some d' => beq d (expand d')
  | HErr, None => true
  | _, _ => false
  end.

(** history of pyramid exchanges, per-operation outputs *)
Fixpoint hist_run (H : list N -> list N -> list N) (bounded : bool) (st : pstate) (ops : list cop)
  : list (list (list N * list N) * list (list N * list N) * bool * N) :=
  match ops with
  | [] => []
  | COp root fr qs we fa so :: t =>
      let w := {| queries := qs; wend := we |} in
      let frames := map frame_of fr in
      let '(st', ps, c) := find_pyramid H ChunkSize SpanSize HCap bounded st root frames w fa so in
      let psfree := match fa with
                    | Some _ => snd (fst (find_pyramid H ChunkSize SpanSize HCap bounded st root frames w None so))
                    | None => ps end in
      (ps, psfree, match fa with Some _ => true | None => false end, pclass_code c) :: hist_run H bounded st' t
  end.
Fixpoint hist_match (m : list (list (list N * list N) * list (list N * list N) * bool * N))
  (o : list (list (list N * blob) * N)) : bool :=
  match m, o with
  | [], [] => true
  | (ps, psfree, failing, c) :: m', (ops, oc) :: o' =>
      (c =? oc) && puts_match ps psfree failing ops && hist_match m' o'
  | _, _ => false
  end.

(** the repository carries the repair: the model is run with [bounded = true] *)
Definition bounded := true.

Definition check_case (c : case) : bool :=
  covers c &&
  match c with
  | CRetr addr n p1 p2 tab otr ores =>
      let H := H_tab (expand_tab tab) in
      let sv := soc_tab (flat_map env_payload (p1 ++ p2)) in
      let '(tr, r) := retrieve_loop H sv ChunkSize SpanSize HCap MaxFrame addr n (map env_of p1) (map env_of p2) in
      trace_eqb tr otr && lres_eqb r ores
  | CRelay addr local self e tab otr odel =>
      let H := H_tab (expand_tab tab) in
      let sv := soc_tab (env_payload e) in
      let '(tr, r) := handler_relay H sv ChunkSize SpanSize HCap MaxFrame addr (option_map expand local) self (env_of e) in
      trace_eqb tr otr && hres_eqb r odel
  | CPyr root m qs we fa tab oputs oclass =>
      let H := H_tab (expand_tab tab) in
      let w := {| queries := qs; wend := we |} in
      let pm := map_of m in
      let '(ps, c) := get_chunk_hashes H ChunkSize SpanSize HCap bounded root pm w fa in
      let psfree := match fa with
                    | Some _ => fst (get_chunk_hashes H ChunkSize SpanSize HCap bounded root pm w None)
                    | None => ps end in
      (gclass_code c =? oclass) && puts_match ps psfree (match fa with Some _ => true | None => false end) oputs
  | CHist ops tab obs =>
      let H := H_tab (expand_tab tab) in
      hist_match (hist_run H bounded ([], []) ops) obs
  end.

(** on a mismatch: (table covers the case, model's result class code, number
    of model events / Puts, number of observed events / Puts) *)
Definition explain_case (c : case) : bool * N * N * N :=
  match c with
  | CRetr addr n p1 p2 tab otr ores =>
      let H := H_tab (expand_tab tab) in
      let sv := soc_tab (flat_map env_payload (p1 ++ p2)) in
      let '(tr, r) := retrieve_loop H sv ChunkSize SpanSize HCap MaxFrame addr n (map env_of p1) (map env_of p2) in
      (covers c, match r with LOk _ _ => 0 | LNoRoute => 1 | LNotFound => 2 end, lenN tr, lenN otr)
  | CRelay addr local self e tab otr odel =>
      let H := H_tab (expand_tab tab) in
      let sv := soc_tab (env_payload e) in
      let '(tr, r) := handler_relay H sv ChunkSize SpanSize HCap MaxFrame addr (option_map expand local) self (env_of e) in
      (covers c, match r with HDeliver _ => 0 | HErr => 1 end, lenN tr, lenN otr)
  | CPyr root m qs we fa tab oputs oclass =>
      let H := H_tab (expand_tab tab) in
      let w := {| queries := qs; wend := we |} in
      let '(ps, cl) := get_chunk_hashes H ChunkSize SpanSize HCap bounded root (map_of m) w fa in
      (covers c, gclass_code cl, lenN ps, lenN oputs)
  | CHist ops tab obs =>
      let H := H_tab (expand_tab tab) in
      let r := hist_run H bounded ([], []) ops in
      (covers c, fold_left (fun acc x => acc * 8 + snd x) r 0, lenN (flat_map (fun x => fst (fst (fst x))) r),
       lenN (flat_map (fun x => fst x) obs))
  end.
