From Coq Require Import List NArith Bool Lia Arith.
From Coq Require Import ZifyBool ZifyNat ZifyN.
Import ListNotations.
Require Import Aurora.C06.Model.
Local Open Scope N_scope.

(** * byte-string helpers *)

Lemma lenN_acc_length {A} (l : list A) : forall acc, lenN_acc l acc = acc + N.of_nat (length l).
Proof.
  remember (length l) as n eqn:Hn. revert l Hn.
  induction n as [n IH] using lt_wf_ind. intros l Hn acc.
  destruct l as [|x0 [|x1 [|x2 [|x3 [|x4 [|x5 [|x6 [|x7 t]]]]]]]]; cbn [lenN_acc]; subst n.
  all: try (cbn [length]; lia).
  rewrite (IH (length t)); [cbn [length]; lia | cbn [length]; lia | reflexivity].
Qed.

Lemma lenN_length {A} (l : list A) : lenN l = N.of_nat (length l).
Proof. unfold lenN. rewrite lenN_acc_length. lia. Qed.

Lemma takeN_acc_firstn {A} (n : N) (l acc : list A) :
  takeN_acc n l acc = rev acc ++ firstn (N.to_nat n) l.
Proof.
  revert n acc; induction l as [|x l IH]; intros n acc; cbn [takeN_acc].
  - rewrite firstn_nil, rev_append_rev, !app_nil_r. reflexivity.
  - destruct (N.eqb_spec n 0) as [->|Hn].
    + cbn [N.to_nat firstn]. rewrite rev_append_rev, !app_nil_r. reflexivity.
    + replace (N.to_nat n) with (S (N.to_nat (N.pred n))) by lia. cbn [firstn].
      rewrite IH. cbn [rev]. rewrite <- app_assoc. reflexivity.
Qed.

Lemma takeN_firstn {A} (n : N) (l : list A) : takeN n l = firstn (N.to_nat n) l.
Proof.
  unfold takeN. destruct (N.leb_spec (lenN l) n) as [Hl|Hl].
  - symmetry. apply firstn_all2. rewrite lenN_length in Hl. lia.
  - now rewrite takeN_acc_firstn.
Qed.

Lemma takeN_all {A} (n : N) (l : list A) : lenN l <= n -> takeN n l = l.
Proof.
  intros Hl. rewrite takeN_firstn. apply firstn_all2. rewrite lenN_length in Hl. lia.
Qed.

Lemma lenN_skipn {A} (k : nat) (l : list A) : lenN (skipn k l) = lenN l - N.of_nat k.
Proof. rewrite !lenN_length, skipn_length. lia. Qed.

Lemma beq_eq a b : beq a b = true <-> a = b.
Proof.
  revert b; induction a as [|x a IH]; intros [|y b]; cbn [beq]; split; intros Hq;
    try reflexivity; try discriminate.
  - destruct (N.eqb_spec x y) as [->|]; [|discriminate]. apply IH in Hq. now subst.
  - inversion Hq; subst. rewrite N.eqb_refl. now apply IH.
Qed.

Lemma beq_refl a : beq a a = true.
Proof. now apply beq_eq. Qed.

Lemma mem_In a l : mem a l = true <-> In a l.
Proof.
  unfold mem. rewrite existsb_exists. split.
  - intros (x & Hx & Hb). apply beq_eq in Hb. now subst.
  - intros Hin. exists a. split; [assumption | apply beq_refl].
Qed.

Section CacProofs.

Variable H : list N -> list N -> list N.
Variable chunk_size span_size hcap : N.

(** the one arithmetic fact about the configuration that the argument needs:
    the hasher can take a whole chunk (closed at the repo's constants in Props.v) *)
Hypothesis cap_ok : chunk_size <= hcap.

Notation hasher_sum := (hasher_sum H hcap).
Notation cac_valid_go := (cac_valid_go H chunk_size span_size hcap).
Notation chain_write := (chain_write H span_size hcap).
Notation cac_valid := (cac_valid H chunk_size span_size).
Notation check_entries := (check_entries H chunk_size span_size hcap).
Notation get_chunk_hashes := (get_chunk_hashes H chunk_size span_size hcap).
Notation on_pyramid_resp := (on_pyramid_resp H chunk_size span_size hcap).
Notation send_pyramid := (send_pyramid H chunk_size span_size hcap).
Notation find_pyramid := (find_pyramid H chunk_size span_size hcap).
Notation pyr_step := (pyr_step H chunk_size span_size hcap).
Notation pyr_run := (pyr_run H chunk_size span_size hcap).

(** * the hasher does not truncate what cac.Valid lets through *)

Lemma hasher_sum_short span data : lenN data <= hcap -> hasher_sum span data = H span data.
Proof.
  intros Hl. unfold Model.hasher_sum, hasher_write. cbn [app].
  change (lenN (@nil N)) with 0. rewrite N.sub_0_r. now rewrite takeN_all.
Qed.

Lemma cac_valid_go_spec a p : cac_valid_go a p = true <-> cac_valid a p.
Proof.
  unfold Model.cac_valid_go, Model.cac_valid. cbv zeta.
  destruct (N.ltb_spec (lenN p) span_size) as [Hs|Hs].
  { split; [discriminate | intros (Hc & _); lia]. }
  destruct (N.ltb_spec (chunk_size + span_size) (lenN p)) as [Hb|Hb].
  { split; [discriminate | intros (_ & Hc & _); lia]. }
  assert (Hd : lenN (data_of span_size p) <= hcap).
  { unfold data_of. rewrite lenN_skipn. lia. }
  rewrite (hasher_sum_short _ _ Hd). rewrite beq_eq. intuition.
Qed.

(** the pipeline writer's reference, for an entry within the chunk bound *)
Lemma chain_write_bounded a p :
  lenN p <= chunk_size + span_size -> chain_write p = Some a -> cac_valid a p.
Proof.
  intros Hb. unfold Model.chain_write.
  destruct (N.ltb_spec (lenN p) span_size) as [Hs|Hs]; [discriminate|].
  intros Hq. injection Hq as Hq. unfold Model.cac_valid. repeat split; try assumption.
  rewrite <- Hq. symmetry. apply hasher_sum_short. unfold data_of. rewrite lenN_skipn. lia.
Qed.

(** * pyramid *)

Lemma plookup_In a m d : plookup a m = Some d -> In (KHex a, d) m.
Proof.
  induction m as [|[k d'] m IH]; cbn [plookup]; [discriminate|].
  destruct k as [b|id].
  - destruct (beq b a) eqn:E.
    + intros [= ->]. apply beq_eq in E. subst. now left.
    + intros Hq. right. now apply IH.
  - intros Hq. right. now apply IH.
Qed.

Lemma check_entries_ok m :
  check_entries true m = None ->
  forall a d, In (KHex a, d) m -> cac_valid a d.
Proof.
  induction m as [|[k d'] m IH]; cbn [Model.check_entries]; [intros _ a d []|].
  cbn [andb]. destruct (N.ltb_spec (chunk_size + span_size) (lenN d')) as [Hb|Hb]; [discriminate|].
  destruct (chain_write d') as [ref|] eqn:Ecw; [|discriminate].
  destruct k as [kb|id]; [|discriminate].
  destruct (beq ref kb) eqn:Eb; [|discriminate].
  intros Hrest a d [Hin|Hin].
  - injection Hin as <- <-. apply beq_eq in Eb. subst. now apply chain_write_bounded.
  - now apply IH.
Qed.

Lemma put_all_sub m ks : forall idx f ps ok,
  put_all m ks idx f = (ps, ok) ->
  (forall k, In k ks -> exists d, plookup k m = Some d) ->
  forall a p, In (a, p) ps -> In a ks /\ plookup a m = Some p.
Proof.
  induction ks as [|k ks IH]; intros idx f ps ok; cbn [put_all].
  - intros [= <- <-] _ a p [].
  - intros Hq Hall. destruct (Hall k (or_introl eq_refl)) as [d Hd]. rewrite Hd in Hq.
    destruct (match f with Some f0 => f0 =? idx | None => false end).
    + injection Hq as <- <-. intros a p [Hin|[]]. injection Hin as <- <-. split; [now left|exact Hd].
    + destruct (put_all m ks (N.succ idx) f) as [ps' ok'] eqn:E. injection Hq as <- <-.
      intros a p [Hin|Hin].
      * injection Hin as <- <-. split; [now left|exact Hd].
      * destruct (IH _ _ _ _ E (fun k' Hk => Hall k' (or_intror Hk)) a p Hin) as [H1 H2].
        split; [now right|exact H2].
Qed.

Lemma seen_of_present m qs : forall acc,
  (forall k, In k acc -> exists d, plookup k m = Some d) ->
  forall k, In k (seen_of m qs acc) -> exists d, plookup k m = Some d.
Proof.
  induction qs as [|q qs IH]; intros acc Hacc; cbn [seen_of]; [exact Hacc|].
  destruct (plookup q m) as [d|] eqn:E; [|now apply IH].
  destruct (mem q acc); [now apply IH|]. apply IH. intros k Hin.
  apply in_app_or in Hin as [Hin|[<-|[]]]; [now apply Hacc|now exists d].
Qed.

Lemma get_chunk_hashes_valid root m w f ps c :
  get_chunk_hashes true root m w f = (ps, c) ->
  forall a p, In (a, p) ps -> In (KHex a, p) m /\ cac_valid a p.
Proof.
  unfold Model.get_chunk_hashes.
  destruct (plookup root m) as [dr|] eqn:Er; [|intros [= <- <-] a p []].
  destruct (check_entries true m) as [cc|] eqn:Ec; [intros [= <- <-] a p []|].
  pose proof (check_entries_ok _ Ec) as Hok.
  assert (Hgen : forall ps' ok',
    put_all m (root :: filter (fun k => negb (beq k root)) (seen_of m (queries w) [])) 0 f = (ps', ok') ->
    forall a p, In (a, p) ps' -> In (KHex a, p) m /\ cac_valid a p).
  { intros ps' ok' Hp a p Hin.
    destruct (put_all_sub _ _ _ _ _ _ Hp) with (a := a) (p := p) as [_ Hl]; [|exact Hin|].
    - intros k [<-|Hk]; [now exists dr|].
      apply filter_In in Hk as [Hk _]. revert k Hk. apply seen_of_present. intros k [].
    - apply plookup_In in Hl. split; [exact Hl | now apply Hok]. }
  destruct (wend w);
    try (intros [= <- <-] a p []; fail);
    destruct (put_all m _ 0 f) as [ps' ok'] eqn:Ep; intros [= <- <-]; exact (Hgen _ _ eq_refl).
Qed.

Lemma on_pyramid_resp_valid st root resps w f s st' ps c :
  on_pyramid_resp true st root resps w f s = (st', ps, c) ->
  forall a p, In (a, p) ps -> cac_valid a p.
Proof.
  unfold Model.on_pyramid_resp. destruct st as [known sourced].
  destruct (mem root known); [intros [= <- <- <-] a p []|].
  destruct (get_chunk_hashes true root (build_map resps) w f) as [ps1 c1] eqn:E.
  pose proof (get_chunk_hashes_valid _ _ _ _ _ _ E) as Hv.
  intros Hq a p Hin. apply (Hv a p).
  destruct c1; try destruct (mem root sourced); try destruct s; injection Hq as <- <- <-; exact Hin.
Qed.

Lemma send_pyramid_valid frames : forall st root acc w f s st' ps c,
  send_pyramid true st root frames acc w f s = (st', ps, c) ->
  forall a p, In (a, p) ps -> cac_valid a p.
Proof.
  induction frames as [|fr frames IH]; intros st root acc w f s st' ps c; cbn [Model.send_pyramid].
  - intros [= <- <- <-] a p [].
  - destruct fr as [h ch [|]|].
    + apply on_pyramid_resp_valid.
    + apply IH.
    + intros [= <- <- <-] a p [].
Qed.

Lemma find_pyramid_valid st root frames w f s st' ps c :
  find_pyramid true st root frames w f s = (st', ps, c) ->
  forall a p, In (a, p) ps -> cac_valid a p.
Proof.
  unfold Model.find_pyramid. destruct (mem root (fst st)); [intros [= <- <- <-] a p []|].
  apply send_pyramid_valid.
Qed.

Lemma pyr_run_valid ops : forall st,
  (forall a p, In (a, p) (snd st) -> cac_valid a p) ->
  forall a p, In (a, p) (snd (fold_left (pyr_step true) ops st)) -> cac_valid a p.
Proof.
  induction ops as [|o ops IH]; intros st Hst; cbn [fold_left]; [exact Hst|].
  apply IH. unfold Model.pyr_step.
  destruct (find_pyramid true (fst st) (op_root o) (op_frames o) (op_walk o) (op_fail o) (op_source_ok o))
    as [[st' ps] c] eqn:E. cbn [snd].
  intros a p Hin. apply in_app_or in Hin as [Hin|Hin]; [now apply Hst|].
  eapply find_pyramid_valid; eassumption.
Qed.

End CacProofs.

Section RetrProofs.

Variable H : list N -> list N -> list N.
Variable soc_valid : list N -> list N -> bool.
Variable chunk_size span_size hcap max_frame : N.
Hypothesis cap_ok : chunk_size <= hcap.

Notation cac_valid_go := (cac_valid_go H chunk_size span_size hcap).
Notation valid_chunk := (valid_chunk H soc_valid chunk_size span_size).
Notation retrieve_chunk := (retrieve_chunk H soc_valid chunk_size span_size hcap max_frame).
Notation try_routes := (try_routes H soc_valid chunk_size span_size hcap max_frame).
Notation retrieve_loop := (retrieve_loop H soc_valid chunk_size span_size hcap max_frame).
Notation handler_relay := (handler_relay H soc_valid chunk_size span_size hcap max_frame).

(** * retrieval *)

Definition res_chunk (r : rres) : list (list N * list N) :=
  match r with ROk a p => [(a, p)] | RErr _ => [] end.

Lemma puts_of_app t1 t2 : puts_of (t1 ++ t2) = puts_of t1 ++ puts_of t2.
Proof.
  induction t1 as [|e t1 IH]; [reflexivity|]. destruct e; cbn [app puts_of]; try assumption.
  now rewrite IH.
Qed.

Lemma retrieve_chunk_valid addr e tr r :
  retrieve_chunk addr e = (tr, r) ->
  forall a p, In (a, p) (puts_of tr ++ res_chunk r) -> a = addr /\ valid_chunk a p.
Proof.
  unfold Model.retrieve_chunk.
  destruct (connect_ok e); cbn [negb]; [|intros [= <- <-] a p []].
  destruct (reserve_ok e); cbn [negb]; [|intros [= <- <-] a p []].
  destruct (stream_ok e); cbn [negb]; [|intros [= <- <-] a p []].
  destruct (rep e) as [|flen msg]; [intros [= <- <-] a p []|].
  destruct (max_frame <? flen); [intros [= <- <-] a p []|].
  destruct msg as [d|]; [|intros [= <- <-] a p []].
  destruct (cac_valid_go addr d) eqn:Hc, (soc_valid addr d) eqn:Hs; cbn [negb andb];
    try (intros [= <- <-] a p []; fail);
    (assert (Hv : valid_chunk addr d)
       by (first [ left; now apply (cac_valid_go_spec H chunk_size span_size hcap cap_ok) | right; exact Hs ]));
    (destruct (credit_ok e); cbn [negb]; [|intros [= <- <-] a p []]);
    (destruct (report_ok e); cbn [negb]; [|intros [= <- <-] a p []]);
    (destruct (put_ok e); cbn [negb]; intros [= <- <-] a p Hin; cbn in Hin;
       repeat (destruct Hin as [Hin|Hin]; [injection Hin as <- <-; now split|]); destruct Hin).
Qed.

Lemma try_routes_valid addr envs : forall tr r,
  try_routes addr envs = (tr, r) ->
  forall a p, In (a, p) (puts_of tr ++ match r with Some c => [c] | None => [] end) ->
  a = addr /\ valid_chunk a p.
Proof.
  induction envs as [|e envs IH]; intros tr r; cbn [Model.try_routes].
  - intros [= <- <-] a p [].
  - destruct (retrieve_chunk addr e) as [tr1 r1] eqn:E1.
    pose proof (retrieve_chunk_valid _ _ _ _ E1) as H1.
    destruct r1 as [a1 p1|c].
    + intros [= <- <-] a p Hin. apply H1. exact Hin.
    + destruct (try_routes addr envs) as [tr2 r2] eqn:E2. intros [= <- <-] a p Hin.
      rewrite puts_of_app, <- app_assoc in Hin. apply in_app_or in Hin as [Hin|Hin].
      * apply H1. cbn [res_chunk]. rewrite app_nil_r. exact Hin.
      * eapply IH; [reflexivity | exact Hin].
Qed.

Definition lres_chunk (r : lres) : list (list N * list N) :=
  match r with LOk a p => [(a, p)] | _ => [] end.

Lemma retrieve_loop_valid addr n p1 p2 tr r :
  retrieve_loop addr n p1 p2 = (tr, r) ->
  forall a p, In (a, p) (puts_of tr ++ lres_chunk r) -> a = addr /\ valid_chunk a p.
Proof.
  unfold Model.retrieve_loop. destruct (n =? 0); [intros [= <- <-] a p []|].
  destruct (try_routes addr p1) as [t1 r1] eqn:E1.
  pose proof (try_routes_valid _ _ _ _ E1) as H1.
  destruct r1 as [[a1 q1]|].
  - intros [= <- <-] a p Hin. apply H1. exact Hin.
  - destruct (try_routes addr p2) as [t2 r2] eqn:E2.
    pose proof (try_routes_valid _ _ _ _ E2) as H2.
    destruct r2 as [[a2 q2]|]; intros [= <- <-] a p Hin;
      rewrite puts_of_app, <- app_assoc in Hin; apply in_app_or in Hin as [Hin|Hin];
      try (apply H1; rewrite app_nil_r; exact Hin); apply H2; exact Hin.
Qed.

Lemma handler_relay_valid addr self e tr r :
  handler_relay addr None self e = (tr, r) ->
  (forall a p, In (a, p) (puts_of tr) -> a = addr /\ valid_chunk a p) /\
  (forall d, r = HDeliver d -> valid_chunk addr d).
Proof.
  unfold Model.handler_relay. destruct self.
  { intros [= <- <-]. split; [intros a p [] | discriminate]. }
  destruct (retrieve_chunk addr e) as [tr1 r1] eqn:E1.
  pose proof (retrieve_chunk_valid _ _ _ _ E1) as H1.
  destruct r1 as [a1 p1|c]; intros [= <- <-]; split.
  - intros a p Hin. apply H1. apply in_or_app. now left.
  - intros d [= <-]. destruct (H1 a1 p1) as [-> Hv]; [apply in_or_app; right; now left|exact Hv].
  - intros a p Hin. apply H1. apply in_or_app. now left.
  - discriminate.
Qed.

End RetrProofs.


(** * the code as found (no length bound in the pyramid check) *)
Section Unbounded.

Variable H : list N -> list N -> list N.
Variable chunk_size span_size : N.

Lemma takeN_app_le {A} (n : N) (l e : list A) : n <= lenN l -> takeN n (l ++ e) = takeN n l.
Proof.
  intros Hn. rewrite !takeN_firstn, firstn_app. rewrite lenN_length in Hn.
  replace (N.to_nat n - length l)%nat with 0%nat by lia. cbn [firstn]. now rewrite app_nil_r.
Qed.

(** for EVERY hash function: an honest chunk of maximal size followed by any
    trailing bytes passes the unbounded check (the hasher, whose capacity is
    the chunk size, drops the tail), is Put, and is not a valid chunk *)
Lemma unbounded_accepts_extension (a p e : list N) :
  cac_valid H chunk_size span_size a p ->
  lenN p = chunk_size + span_size -> e <> [] ->
  get_chunk_hashes H chunk_size span_size chunk_size false a [(KHex a, p ++ e)]
    {| queries := []; wend := WOk |} None = ([(a, p ++ e)], GOk)
  /\ ~ cac_valid H chunk_size span_size a (p ++ e).
Proof.
  intros (Hs & Hb & Hh) Hl He. split.
  - unfold Model.get_chunk_hashes. cbn [plookup]. rewrite beq_refl.
    cbn [Model.check_entries andb]. unfold Model.chain_write.
    assert (Hlen : lenN (p ++ e) = lenN p + lenN e) by (rewrite !lenN_length, app_length; lia).
    destruct (N.ltb_spec (lenN (p ++ e)) span_size) as [Hc|Hc]; [lia|].
    assert (Hspan : span_of span_size (p ++ e) = span_of span_size p)
      by (unfold span_of; now apply takeN_app_le).
    assert (Hdata : data_of span_size (p ++ e) = data_of span_size p ++ e).
    { unfold data_of. rewrite skipn_app. rewrite lenN_length in Hs.
      replace (N.to_nat span_size - length p)%nat with 0%nat by lia. reflexivity. }
    unfold Model.hasher_sum, hasher_write. cbn [app]. change (lenN (@nil N)) with 0.
    rewrite N.sub_0_r, Hspan, Hdata.
    assert (Hd : lenN (data_of span_size p) = chunk_size) by (unfold data_of; rewrite lenN_skipn; lia).
    rewrite takeN_app_le by lia. rewrite takeN_all by lia. rewrite Hh, beq_refl.
    cbn [wend queries seen_of filter put_all plookup]. rewrite beq_refl. reflexivity.
  - intros (_ & Hb' & _). rewrite lenN_length, app_length in Hb'. rewrite lenN_length in Hl.
    destruct e; [congruence|]. cbn [length] in Hb'. lia.
Qed.

(** the hypotheses are satisfiable for every configuration (constant hash) *)
Lemma unbounded_witness_exists :
  exists (a p e : list N),
    cac_valid (fun _ _ => []) chunk_size span_size a p /\ lenN p = chunk_size + span_size /\ e <> [].
Proof.
  exists [], (repeat 0 (N.to_nat (chunk_size + span_size))), [1].
  assert (Hl : lenN (repeat 0 (N.to_nat (chunk_size + span_size))) = chunk_size + span_size)
    by (rewrite lenN_length, repeat_length; lia).
  repeat split; try discriminate; rewrite ?Hl; lia.
Qed.

End Unbounded.
