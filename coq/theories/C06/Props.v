(** C06 — property theorems only.  Each is closed by [exact <lemma>] and
    followed by [Print Assumptions].  The lemmas are generic in the sizes; here
    they are instantiated at the constants re-read from the Go source on every
    run ([Consts.v]); the BMT hash and the single-owner validity predicate stay
    universally quantified (they are C03/C04/C05's subject). *)
From Coq Require Import List NArith ZArith Bool.
Import ListNotations.
Require Import Aurora.Consts Aurora.C06.Model Aurora.C06.Proofs.
Local Open Scope N_scope.

Definition ChunkSize : N := Z.to_N Consts.boson_ChunkSize.
Definition SpanSize : N := Z.to_N Consts.boson_SpanSize.
(** bmt.NewConf: maxSize = count * hasher().Size(), count = BmtBranches when that is a power of two *)
Definition HCap : N := Z.to_N (Consts.boson_BmtBranches * Consts.boson_HashSize).
Definition MaxFrame : N := Z.to_N Consts.protobuf_delimitedReaderMaxSize.

Definition is_pow2 (n : N) : bool := (0 <? n) && (N.land n (n - 1) =? 0).

(** side conditions on the constants, re-checked by computation on every run:
    the pooled hasher holds a whole chunk; the sizes are non-negative *)
Lemma consts_ok_C06 :
  (ChunkSize <=? HCap) && (HCap =? ChunkSize) && is_pow2 (Z.to_N Consts.boson_BmtBranches) && (SpanSize =? 8)
  && (0 <=? Consts.boson_ChunkSize)%Z && (0 <=? Consts.boson_SpanSize)%Z
  && (0 <? Consts.protobuf_delimitedReaderMaxSize)%Z = true.
Proof. vm_compute. reflexivity. Qed.

Lemma cap_ok : ChunkSize <= HCap.
Proof. apply N.leb_le. vm_compute. reflexivity. Qed.

Section Instantiated.
Variable H : list N -> list N -> list N.
Variable soc_valid : list N -> list N -> bool.

Definition cac_valid := Model.cac_valid H ChunkSize SpanSize.
Definition valid_chunk := Model.valid_chunk H soc_valid ChunkSize SpanSize.
Definition cac_valid_go := Model.cac_valid_go H ChunkSize SpanSize HCap.
Definition retrieve_chunk := Model.retrieve_chunk H soc_valid ChunkSize SpanSize HCap MaxFrame.
Definition retrieve_loop := Model.retrieve_loop H soc_valid ChunkSize SpanSize HCap MaxFrame.
Definition handler_relay := Model.handler_relay H soc_valid ChunkSize SpanSize HCap MaxFrame.
Definition get_chunk_hashes := Model.get_chunk_hashes H ChunkSize SpanSize HCap.
Definition pyr_run := Model.pyr_run H ChunkSize SpanSize HCap.
End Instantiated.

(** cac.Valid as coded (length bounds, then the truncating hasher) decides
    exactly "the BMT hash of the span and ALL the data bytes is the address" *)
Theorem C06_cac_check_exact : forall H (a p : list N),
  cac_valid_go H a p = true <-> cac_valid H a p.
Proof. intros H a p. exact (cac_valid_go_spec H ChunkSize SpanSize HCap cap_ok a p). Qed.
Print Assumptions C06_cac_check_exact.

(** retrieveChunk, every reply and every outcome of the local calls: whatever
    is passed to storer.Put or returned is stored under the requested address
    and is a valid content-addressed or single-owner chunk for it *)
Theorem C06_retrieval : forall H soc_valid (addr : list N) (e : renv) tr r,
  retrieve_chunk H soc_valid addr e = (tr, r) ->
  forall a p, In (a, p) (puts_of tr ++ res_chunk r) -> a = addr /\ valid_chunk H soc_valid a p.
Proof. intros H sv addr e tr r. exact (retrieve_chunk_valid H sv ChunkSize SpanSize HCap MaxFrame cap_ok addr e tr r). Qed.
Print Assumptions C06_retrieval.

(** RetrieveChunk: all route lists, both passes, all replies *)
Theorem C06_retrieval_loop : forall H soc_valid (addr : list N) n (pass1 pass2 : list renv) tr r,
  retrieve_loop H soc_valid addr n pass1 pass2 = (tr, r) ->
  forall a p, In (a, p) (puts_of tr ++ lres_chunk r) -> a = addr /\ valid_chunk H soc_valid a p.
Proof. intros H sv addr n p1 p2 tr r. exact (retrieve_loop_valid H sv ChunkSize SpanSize HCap MaxFrame cap_ok addr n p1 p2 tr r). Qed.
Print Assumptions C06_retrieval_loop.

(** the relaying handler hands to the requester only a valid chunk obtained from the next peer *)
Theorem C06_relay : forall H soc_valid (addr : list N) self (e : renv) tr r,
  handler_relay H soc_valid addr None self e = (tr, r) ->
  (forall a p, In (a, p) (puts_of tr) -> a = addr /\ valid_chunk H soc_valid a p) /\
  (forall d, r = HDeliver d -> valid_chunk H soc_valid addr d).
Proof. intros H sv addr self e tr r. exact (handler_relay_valid H sv ChunkSize SpanSize HCap MaxFrame cap_ok addr self e tr r). Qed.
Print Assumptions C06_relay.

(** GetChunkHashes with a pyramid (repaired code): every pyramid map in every
    iteration order, every walker, every Put failure point: each Put is an entry
    of the map and a valid content-addressed chunk for its address *)
Theorem C06_pyramid : forall H (root : list N) (m : pmap) (w : walk) (f : option N) ps c,
  get_chunk_hashes H true root m w f = (ps, c) ->
  forall a p, In (a, p) ps -> In (KHex a, p) m /\ cac_valid H a p.
Proof. intros H root m w f ps c. exact (get_chunk_hashes_valid H ChunkSize SpanSize HCap cap_ok root m w f ps c). Qed.
Print Assumptions C06_pyramid.

(** any history of pyramid exchanges (sendPyramid + onChunkPyramidResp) from the
    initial state: everything ever Put is a valid content-addressed chunk *)
Theorem C06_pyramid_history : forall H (ops : list pyr_op),
  forall a p, In (a, p) (snd (pyr_run H true ops)) -> cac_valid H a p.
Proof. intros H ops. exact (pyr_run_valid H ChunkSize SpanSize HCap cap_ok ops (([], []), []) (fun a p (F : In (a, p) []) => match F with end)). Qed.
Print Assumptions C06_pyramid_history.

(** why the repair was needed.  The check as found ([bounded = false]: the
    pipeline BMT writer alone, no length bound), for EVERY hash function: an
    honest chunk of maximal size followed by any non-empty tail passes the
    check, is Put under the honest address, and is not a valid chunk
    (F-pyramid-oversize; the harness replays this witness on every run). *)
Lemma hcap_is_chunk : HCap = ChunkSize.
Proof. vm_compute. reflexivity. Qed.

Theorem C06_unbounded_check_accepts_oversize : forall H (a p e : list N),
  cac_valid H a p -> lenN p = ChunkSize + SpanSize -> e <> [] ->
  get_chunk_hashes H false a [(KHex a, p ++ e)] {| queries := []; wend := WOk |} None = ([(a, p ++ e)], GOk)
  /\ ~ cac_valid H a (p ++ e).
Proof. intros H a p e. unfold get_chunk_hashes. rewrite hcap_is_chunk. exact (unbounded_accepts_extension H ChunkSize SpanSize a p e). Qed.
Print Assumptions C06_unbounded_check_accepts_oversize.

(** non-vacuity.  With the toy hash [H span data = data]: an honest reply is
    stored and returned, a reply with one byte flipped is refused; an honest
    pyramid entry is Put, the same entry with a wrong key is refused; and the
    hypotheses of the last theorem are satisfiable. *)
Example C06_hyps_satisfiable :
  let H := fun (_ d : list N) => d in
  let nosoc := fun (_ _ : list N) => false in
  let addr := [1; 2; 3] in
  let pay := [3; 0; 0; 0; 0; 0; 0; 0; 1; 2; 3] in
  let env d := {| connect_ok := true; reserve_ok := true; stream_ok := true; rep := RFrame 13 (Some d);
                  credit_ok := true; report_ok := true; put_ok := true |} in
  snd (retrieve_chunk H nosoc addr (env pay)) = ROk addr pay /\
  snd (retrieve_chunk H nosoc addr (env [3; 0; 0; 0; 0; 0; 0; 0; 1; 2; 7])) = RErr EInvalid /\
  get_chunk_hashes H true addr [(KHex addr, pay)] {| queries := [addr]; wend := WOk |} None = ([(addr, pay)], GOk) /\
  snd (get_chunk_hashes H true [9] [(KHex [9], pay)] {| queries := []; wend := WOk |} None) = GInvalidPyramid /\
  (exists a p e : list N, cac_valid (fun _ _ => @nil N) a p /\ lenN p = ChunkSize + SpanSize /\ e <> []).
Proof.
  repeat split; try (vm_compute; reflexivity). exact (unbounded_witness_exists ChunkSize SpanSize).
Qed.
