(** C06 — model of the acceptance decisions for chunks that come from peers.

    Transcribed code (Go, pkg/...):
    - bmt/bmt.go            Hasher.SetHeader / Write (truncation at capacity) / Hash
    - cac/cac.go            Valid   (length bounds, then the pooled hasher)
    - file/pipeline/bmt     bmtWriter.ChainWrite (no upper bound; same hasher)
    - retrieval/retrieval.go  retrieveChunk, the RetrieveChunk route loop,
                            RetrieveChunkFromNode, the relaying branch of handler
    - traversal/traversal.go  GetChunkHashes with a pyramid (check loop, pyramid
                            getter with its [seen] set, the deferred Puts)
    - chunkinfo/message.go  sendPyramid read loop, onChunkPyramidResp

    Abstract (Section variables): the BMT hash [H span data] of at most [hcap]
    data bytes and the single-owner-chunk validity predicate; they are modelled
    by C03/C04/C05.  Everything that decides acceptance on LENGTHS is concrete.

    Definitions only; proofs are in Proofs.v. *)
From Coq Require Import List NArith Bool.
Import ListNotations.
Local Open Scope N_scope.

(** ---- byte-string helpers (payloads can be > 256 KiB: no unary [nat] counters) ---- *)

(** all three are written tail-recursively: the correspondence evaluates them by
    vm_compute on 256 KiB .. 1 MiB payloads, where deep non-tail recursion is very slow *)
Fixpoint lenN_acc {A} (l : list A) (acc : N) : N :=
  match l with
  | _ :: _ :: _ :: _ :: _ :: _ :: _ :: _ :: t => lenN_acc t (acc + 8)
  | _ :: t => lenN_acc t (N.succ acc)
  | [] => acc
  end.
Definition lenN {A} (l : list A) : N := lenN_acc l 0.

(** [b[:n]] of Go's [copy]/slicing when [n] may exceed the length *)
Fixpoint takeN_acc {A} (n : N) (l acc : list A) : list A :=
  match l with
  | [] => rev_append acc []
  | x :: t => if n =? 0 then rev_append acc [] else takeN_acc (N.pred n) t (x :: acc)
  end.
Definition takeN {A} (n : N) (l : list A) : list A :=
  if lenN l <=? n then l else takeN_acc n l [].

Fixpoint beq (a b : list N) : bool :=
  match a, b with
  | [], [] => true
  | x :: a', y :: b' => if x =? y then beq a' b' else false
  | _, _ => false
  end.

Definition mem (a : list N) (l : list (list N)) : bool := existsb (beq a) l.

(** ================================================================== *)
Section Accept.

Variable H : list N -> list N -> list N.        (* BMT root over (span, data), |data| <= hcap *)
Variable soc_valid : list N -> list N -> bool.  (* soc.Valid (addr, payload) *)
Variable chunk_size : N.   (* boson.ChunkSize *)
Variable span_size : N.    (* boson.SpanSize *)
Variable hcap : N.         (* bmt.Hasher maxSize = BmtBranches * HashSize *)
Variable max_frame : N.    (* protobuf.delimitedReaderMaxSize *)

Definition span_of (p : list N) : list N := takeN span_size p.
Definition data_of (p : list N) : list N := skipn (N.to_nat span_size) p.

(** bmt.Hasher: [Get] (size 0), [SetHeader span], ONE [Write data], [Hash].
    Write: [l := len(b); max := maxSize - size; if l > max { l = max }]; the
    bytes beyond are silently dropped and [Write] still returns a nil error. *)
Definition hasher_write (written b : list N) : list N :=
  written ++ takeN (hcap - lenN written) b.
Definition hasher_sum (span data : list N) : list N := H span (hasher_write [] data).

(** cac.Valid *)
Definition cac_valid_go (a p : list N) : bool :=
  let n := lenN p in
  if n <? span_size then false
  else if chunk_size + span_size <? n then false
  else beq (hasher_sum (span_of p) (data_of p)) a.

(** pipeline/bmt bmtWriter.ChainWrite: [None] = errInvalidData, else p.Ref *)
Definition chain_write (p : list N) : option (list N) :=
  if lenN p <? span_size then None else Some (hasher_sum (span_of p) (data_of p)).

(** ---------------- retrieval.retrieveChunk ---------------- *)

(** what the peer (or the network) makes ReadMsg see *)
Inductive reply :=
| RClose                                   (* EOF / reset / nothing readable *)
| RFrame (flen : N) (msg : option (list N)).
      (* a frame announcing [flen] bytes; [msg] = Some d when its body decodes
         to Delivery{Data: d}, None when it does not decode *)

Record renv := {
  connect_ok : bool;     (* routeTab.Connect *)
  reserve_ok : bool;     (* accounting.Reserve *)
  stream_ok : bool;      (* streamer.NewStream *)
  rep : reply;
  credit_ok : bool;      (* accounting.Credit *)
  report_ok : bool;      (* chunkinfo.OnChunkRetrieved *)
  put_ok : bool }.       (* storer.Put *)

Inductive event :=
| EvConnect | EvReserve | EvStream | EvCredit | EvReport
| EvPut (a p : list N).

Inductive rclass := EConnect | EReserve | EStream | ERead | EInvalid | ECredit | EReport | EPutErr.
Inductive rres := ROk (a p : list N) | RErr (c : rclass).

Definition retrieve_chunk (addr : list N) (e : renv) : list event * rres :=
  if negb (connect_ok e) then ([EvConnect], RErr EConnect) else
  if negb (reserve_ok e) then ([EvConnect; EvReserve], RErr EReserve) else
  if negb (stream_ok e) then ([EvConnect; EvReserve; EvStream], RErr EStream) else
  let pre := [EvConnect; EvReserve; EvStream] in
  match rep e with
  | RClose => (pre, RErr ERead)
  | RFrame flen msg =>
      if max_frame <? flen then (pre, RErr ERead) else
      match msg with
      | None => (pre, RErr ERead)
      | Some d =>
          if negb (cac_valid_go addr d) && negb (soc_valid addr d) then (pre, RErr EInvalid) else
          if negb (credit_ok e) then (pre ++ [EvCredit], RErr ECredit) else
          if negb (report_ok e) then (pre ++ [EvCredit; EvReport], RErr EReport) else
          if negb (put_ok e) then (pre ++ [EvCredit; EvReport; EvPut addr d], RErr EPutErr) else
          (pre ++ [EvCredit; EvReport; EvPut addr d], ROk addr d)
      end
  end.

(** RetrieveChunk: [maxRequestAttempt = 2] passes over the route list, one
    retrieveChunk per route, first success wins (the 10 s ticker that lets a
    later route start while an earlier one is still pending is not modelled:
    every such call is still a [retrieve_chunk]). *)
Inductive lres := LOk (a p : list N) | LNoRoute | LNotFound.

Fixpoint try_routes (addr : list N) (envs : list renv) : list event * option (list N * list N) :=
  match envs with
  | [] => ([], None)
  | e :: t =>
      let '(tr, r) := retrieve_chunk addr e in
      match r with
      | ROk a p => (tr, Some (a, p))
      | RErr _ => let '(tr', r') := try_routes addr t in (tr ++ tr', r')
      end
  end.

(** [attempts]: the environments met by the 1st and the 2nd pass; [nroutes] =
    len(routeList). *)
Definition retrieve_loop (addr : list N) (nroutes : N) (pass1 pass2 : list renv) : list event * lres :=
  if nroutes =? 0 then ([], LNoRoute) else
  let '(t1, r1) := try_routes addr pass1 in
  match r1 with
  | Some (a, p) => (t1, LOk a p)
  | None =>
      let '(t2, r2) := try_routes addr pass2 in
      match r2 with
      | Some (a, p) => (t1 ++ t2, LOk a p)
      | None => (t1 ++ t2, LNotFound)
      end
  end.

(** handler (serving side), for a chunk requested by another peer:
    local hit -> deliver; miss and we are the target -> error; miss otherwise ->
    RetrieveChunkFromNode (one attempt, route (target,target)) and deliver
    what came back.  [delivered] is what is written to the requester. *)
Inductive hres := HDeliver (d : list N) | HErr.
Definition handler_relay (addr : list N) (local : option (list N)) (self_is_target : bool) (e : renv)
  : list event * hres :=
  match local with
  | Some d => ([], HDeliver d)
  | None =>
      if self_is_target then ([], HErr) else
      let '(tr, r) := retrieve_chunk addr e in
      match r with
      | ROk _ p => (tr, HDeliver p)
      | RErr _ => (tr, HErr)
      end
  end.

(** ---------------- traversal.GetChunkHashes(ctx, addr, pyramid) ---------------- *)

(** map key: hex string of some bytes, or a string that is not hex *)
Inductive pkey := KHex (b : list N) | KBad (id : N).
Definition pmap := list (pkey * list N).      (* in the (arbitrary) iteration order of the Go map *)

Fixpoint plookup (a : list N) (m : pmap) : option (list N) :=
  match m with
  | [] => None
  | (KHex b, d) :: t => if beq b a then Some d else plookup a t
  | (KBad _, _) :: t => plookup a t
  end.

Inductive gclass :=
| GOk | GNoRoot | GShort | GHex | GInvalidPyramid | GWalk | GPut | GPanic.

(** the verification loop.  [bounded] = with the repair (entry longer than
    ChunkSize+SpanSize is refused); [bounded = false] is the code as found. *)
Fixpoint check_entries (bounded : bool) (m : pmap) : option gclass :=
  match m with
  | [] => None
  | (k, d) :: t =>
      if bounded && (chunk_size + span_size <? lenN d) then Some GInvalidPyramid else
      match chain_write d with
      | None => Some GShort
      | Some ref =>
          match k with
          | KBad _ => Some GHex
          | KHex kb => if beq ref kb then check_entries bounded t else Some GInvalidPyramid
          end
      end
  end.

(** the walk (manifest / joiner code reading through the pyramid getter) is an
    arbitrary client: the addresses it asks for, in order, and how it ends *)
Inductive wout := WOk | WErr | WPanic.
Record walk := { queries : list (list N); wend : wout }.

(** pyramid.Get marks an address as seen iff it is present *)
Fixpoint seen_of (m : pmap) (qs : list (list N)) (acc : list (list N)) : list (list N) :=
  match qs with
  | [] => acc
  | q :: t =>
      match plookup q m with
      | Some _ => if mem q acc then seen_of m t acc else seen_of m t (acc ++ [q])
      | None => seen_of m t acc
      end
  end.

(** the deferred function: Put root, then every other seen address; a failing
    Put ([fail_at] = index of the failing call) stops it. *)
Fixpoint put_all (m : pmap) (ks : list (list N)) (idx : N) (fail_at : option N)
  : list (list N * list N) * bool :=
  match ks with
  | [] => ([], true)
  | k :: t =>
      let d := match plookup k m with Some d => d | None => [] end in   (* pyramid[k]; nil when absent *)
      if match fail_at with Some f => f =? idx | None => false end then ([(k, d)], false)
      else let '(ps, ok) := put_all m t (N.succ idx) fail_at in ((k, d) :: ps, ok)
  end.

Definition get_chunk_hashes (bounded : bool) (root : list N) (m : pmap) (w : walk) (fail_at : option N)
  : list (list N * list N) * gclass :=
  match plookup root m with
  | None => ([], GNoRoot)
  | Some _ =>
      match check_entries bounded m with
      | Some c => ([], c)
      | None =>
          match wend w with
          | WErr => ([], GWalk)
          | we =>
              let seen := seen_of m (queries w) [] in
              let others := filter (fun k => negb (beq k root)) seen in
              let '(ps, ok) := put_all m (root :: others) 0 fail_at in
              (ps, match we with WPanic => GPanic | _ => if ok then GOk else GPut end)
          end
      end
  end.

(** ---------------- chunkinfo: sendPyramid read loop + onChunkPyramidResp ---------------- *)

(** pyramid[hex(resp.Hash)] = resp.Chunk, later entries overwrite earlier ones *)
Fixpoint upsert (k d : list N) (m : pmap) : pmap :=
  match m with
  | [] => [(KHex k, d)]
  | (KHex b, d') :: t => if beq b k then (KHex b, d) :: t else (KHex b, d') :: upsert k d t
  | e :: t => e :: upsert k d t
  end.
Definition build_map (resps : list (list N * list N)) : pmap :=
  fold_left (fun m r => upsert (fst r) (snd r) m) resps [].

Inductive frame := FResp (hash chunk : list N) (ok : bool) | FBad.

Inductive pclass := PSkip | PRead | PSource | PGet (c : gclass).

(** state: the roots whose pyramid is already known (cp.hashData) and the roots
    that have a pyramid-source record (cs.presence: created on the first
    UpdatePyramidSource for the root, whether or not its state-store Put
    succeeds; later calls for the root return nil without storing) *)
Definition pstate := (list (list N) * list (list N))%type.

Definition on_pyramid_resp (bounded : bool) (st : pstate) (root : list N)
  (resps : list (list N * list N)) (w : walk) (fail_at : option N) (source_ok : bool)
  : pstate * list (list N * list N) * pclass :=
  let '(known, sourced) := st in
  if mem root known then (st, [], PSkip) else
  let '(ps, c) := get_chunk_hashes bounded root (build_map resps) w fail_at in
  match c with
  | GOk =>
      if mem root sourced then ((root :: known, sourced), ps, PGet GOk)
      else if source_ok then ((root :: known, root :: sourced), ps, PGet GOk)
      else ((known, root :: sourced), ps, PSource)
  | _ => (st, ps, PGet c)
  end.

Fixpoint send_pyramid (bounded : bool) (st : pstate) (root : list N) (frames : list frame)
  (acc : list (list N * list N)) (w : walk) (fail_at : option N) (source_ok : bool)
  : pstate * list (list N * list N) * pclass :=
  match frames with
  | [] => (st, [], PRead)
  | FBad :: _ => (st, [], PRead)
  | FResp h c true :: _ => on_pyramid_resp bounded st root acc w fail_at source_ok
  | FResp h c false :: t => send_pyramid bounded st root t (acc ++ [(h, c)]) w fail_at source_ok
  end.

(** doFindChunkPyramid: nothing is sent for a root that is already known *)
Definition find_pyramid (bounded : bool) (st : pstate) (root : list N) (frames : list frame)
  (w : walk) (fail_at : option N) (source_ok : bool)
  : pstate * list (list N * list N) * pclass :=
  if mem root (fst st) then (st, [], PSkip) else send_pyramid bounded st root frames [] w fail_at source_ok.

Record pyr_op := {
  op_root : list N; op_frames : list frame; op_walk : walk; op_fail : option N; op_source_ok : bool }.

Definition pyr_step (bounded : bool) (st : pstate * list (list N * list N)) (o : pyr_op) :=
  let '(st', ps, _) := find_pyramid bounded (fst st) (op_root o) (op_frames o) (op_walk o) (op_fail o) (op_source_ok o) in
  (st', snd st ++ ps).

(** all Puts made by a history of pyramid exchanges, from the empty state *)
Definition pyr_run (bounded : bool) (ops : list pyr_op) : pstate * list (list N * list N) :=
  fold_left (pyr_step bounded) ops (([], []), []).

(** ---------------- specification objects ---------------- *)

(** cac.Valid's meaning: length within bounds and the BMT hash of EXACTLY the
    span and the data is the address *)
Definition cac_valid (a p : list N) : Prop :=
  span_size <= lenN p /\ lenN p <= chunk_size + span_size /\ H (span_of p) (data_of p) = a.

Definition valid_chunk (a p : list N) : Prop := cac_valid a p \/ soc_valid a p = true.

Fixpoint puts_of (tr : list event) : list (list N * list N) :=
  match tr with
  | [] => []
  | EvPut a p :: t => (a, p) :: puts_of t
  | _ :: t => puts_of t
  end.

End Accept.
