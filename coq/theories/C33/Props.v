(** C33 — property theorems only. *)
From Coq Require Import List ZArith Bool.
Import ListNotations.
Require Import Aurora.C33.Model Aurora.C33.Proofs.
Local Open Scope Z_scope.

(** Any programs (non-negative amounts and thresholds), any interleaving, stop at ANY point of the
    schedule (also between the memory update and the store write, or between two store writes):
    what a restart restores from the disk is at least (1) every completed traffic update added
    up, (2) the largest completed sent / received cheque amount, and (3) the memory as it was the
    last time the peer lock was free. *)
Theorem C33_restart_covers_completed : forall d g progs sched,
  Claim g d -> Forall (Forall op_ok) progs ->
  let s := exec (boot true d g progs) sched in
  Claim (gh s) (disk s) /\ fle (committed s) (restore (disk s)).
Proof. exact restart_covers_completed. Qed.
Print Assumptions C33_restart_covers_completed.

(** ... and through any number of crash/restart epochs, starting from any disk *)
Theorem C33_histories_of_restarts : forall es d,
  Forall (fun e : epoch => Forall (Forall op_ok) (fst e)) es ->
  let '(d', g') := run_epochs true d (ghost0 (restore d)) es in
  rT0 g' + doneR g' <= rT (restore d') /\ tT0 g' + doneT g' <= tT (restore d') /\
  sentDone g' <= rC (restore d') /\ recvDone g' <= tC (restore d').
Proof.
  intros es d H. pose proof (epochs_cover_completed es d (ghost0 (restore d)) (Claim_init d) H) as E.
  destruct (run_epochs true d (ghost0 (restore d)) es) as [d' g'].
  destruct E as [A [B [C [D _]]]]. exact (conj A (conj B (conj C D))).
Qed.
Print Assumptions C33_histories_of_restarts.

(** no cheque is issued for an amount already paid: every cheque ever handed to the peer, in any
    epoch, starts at or above the largest payout whose sending had completed before (also before
    earlier restarts) and never decreases the cumulative payout *)
Theorem C33_no_reissue : forall es d,
  Forall (fun e : epoch => Forall (Forall op_ok) (fst e)) es ->
  let '(d', g') := run_epochs true d (ghost0 (restore d)) es in
  Forall (fun e : Z * Z * Z => let '(sd, rc_before, payout) := e in sd <= rc_before /\ rc_before <= payout) (emitted g').
Proof.
  intros es d H. pose proof (epochs_cover_completed es d (ghost0 (restore d)) (Claim_init d) H) as E.
  destruct (run_epochs true d (ghost0 (restore d)) es) as [d' g'].
  destruct E as [_ [_ [_ [_ F]]]]. exact F.
Qed.
Print Assumptions C33_no_reissue.

(** the code as it was before fix-persist-under-lock (field re-read and store write after the
    unlock) violates the statement: regression witness, replayed on the Go code by the harness *)
Theorem C33_persist_outside_lock_refuted :
  exists progs sched,
    Forall (Forall op_ok) progs /\
    let s := exec (boot false d_zero (ghost0 (restore d_zero)) progs) sched in
    ~ (rT0 (gh s) + doneR (gh s) <= rT (restore (disk s))).
Proof.
  exists old_witness_progs, old_witness_sched. split.
  - repeat constructor; cbn; discriminate.
  - destruct old_code_refuted as [A B]. cbv zeta. rewrite A, B. vm_compute. intros H. apply H. reflexivity.
Qed.
Print Assumptions C33_persist_outside_lock_refuted.

(** a 24 h refresh that reads the stored total before taking the peer lock (instead of under it,
    as the code does) loses a concurrent update for good: regression witness *)
Theorem C33_early_read_refresh_refuted :
  exists s0 sched, let s := exec s0 sched in
    lock s0 = None /\ mem s0 = restore (disk s0) /\ ~ (rT0 (gh s) + doneR (gh s) <= rT (restore (disk s))).
Proof.
  exists refresh_s0, refresh_witness_sched. destruct early_read_refresh_refuted as [A B]. cbv zeta in A, B |- *.
  split; [reflexivity|]. split; [reflexivity|]. rewrite A, B. vm_compute. intros H. apply H. reflexivity.
Qed.
Print Assumptions C33_early_read_refresh_refuted.

(** a cash-out receipt handler that stores the cashed amount under the served-total key (instead
    of the cached on-chain amount, as the code does) forgets, at the next restart, the traffic
    served beyond the last received cheque; the code as it is restores it on the same history:
    regression witness, replayed on the Go code by the harness (sequential cash-out cases) *)
Theorem C33_cash_overwrites_total_refuted :
  exists s0 sched, let s := exec s0 sched in
    lock s0 = None /\ mem s0 = restore (disk s0) /\ ~ (tT0 (gh s) + doneT (gh s) <= tT (restore (disk s))).
Proof.
  exists cash_s0, (repeat 0%nat 12). destruct cash_overwrites_total_refuted as [A [B _]]. cbv zeta in A, B |- *.
  split; [reflexivity|]. split; [reflexivity|]. rewrite A, B. vm_compute. intros H. apply H. reflexivity.
Qed.
Print Assumptions C33_cash_overwrites_total_refuted.

(** non-vacuity: a run in which operations really complete and are covered *)
Example C33_nonvacuous :
  let s := exec (boot true d_zero (ghost0 (restore d_zero)) [[PutR 5; PutT 7]; [PutR 3]; [Pay 4]; [Recv 9]])
                [0;0;0;0; 2;2; 1;1;1;1; 2;2;2;2; 3;3;3;3; 0;0;0]%nat in
  doneR (gh s) = 8 /\ sentDone (gh s) = 5 /\ recvDone (gh s) = 9 /\ rT (restore (disk s)) = 8 /\
  rC (restore (disk s)) = 5 /\ tC (restore (disk s)) = 9 /\ lock s = Some 0%nat.
Proof. vm_compute. repeat split. Qed.
