From Coq Require Import List ZArith Bool Lia.
Import ListNotations.
Require Import Aurora.C33.Model.
Local Open Scope Z_scope.

Definition emit_ok (e : Z * Z * Z) : Prop := let '(sd, rcb, po) := e in sd <= rcb /\ rcb <= po.

(** the user-level statement: what a restart from disk [d] gives back covers every COMPLETED
    operation counted in the ghost [g] *)
Definition Claim (g : ghost) (d : dsk) : Prop :=
  rT0 g + doneR g <= rT (restore d) /\ tT0 g + doneT g <= tT (restore d) /\
  sentDone g <= rC (restore d) /\ recvDone g <= tC (restore d) /\ Forall emit_ok (emitted g).

(** invariant at moments when nobody holds the peer lock *)
Definition P (g : ghost) (m : fields) (d : dsk) : Prop :=
  fle m (restore d) /\ lastSend d <= rC m /\ cR d <= rC m /\ rC m <= rT m /\
  s_rT d <= rT m /\ s_tT d <= tT m /\
  rT0 g + doneR g <= rT m /\ tT0 g + doneT g <= tT m /\
  sentDone g <= rC m /\ recvDone g <= tC (restore d) /\ Forall emit_ok (emitted g).

Lemma P_Claim g m d : P g m d -> Claim g d.
Proof. unfold P, Claim, fle. intros H. decompose [and] H. repeat split; try lia; assumption. Qed.

Lemma Claim_P_boot g d : Claim g d -> P g (restore d) d.
Proof.
  unfold P, Claim, fle. intros H. decompose [and] H. unfold restore in *. cbn in *.
  repeat split; try lia; assumption.
Qed.

(** what must hold after every instruction of a region entered from a [P] state; [cm] is the
    memory at region entry (= [committed]) *)
Fixpoint safe_rest (c : list instr) (cm : fields) (m : fields) (d : dsk) (g : ghost) (l : Z) (f : bool) : Prop :=
  match c with
  | [] => P g m d
  | i :: r =>
      let '(m', d', g', l', f') := exec_instr i m d g l f in
      Claim g' d' /\ fle cm (restore d') /\ safe_rest r cm m' d' g' l' f'
  end.

Definition good_region (r : region) : Prop :=
  fst r = true /\ snd r <> [] /\ forall g m d l f, P g m d -> safe_rest (snd r) m m d g l f.

Ltac crush :=
  unfold P, Claim, fle, restore in *; cbn in *;
  repeat match goal with H : _ /\ _ |- _ => destruct H end;
  repeat split; try lia; try assumption.

Lemma good_putR a : 0 <= a -> good_region (true, [IAddRT a; IPersistRT; IDoneR a]).
Proof. intros Ha. split; [reflexivity|]. split; [discriminate|]. intros g m d l f HP. cbn. crush. Qed.

Lemma good_putT a : 0 <= a -> good_region (true, [IAddTT a; IPersistTT; IDoneT a]).
Proof. intros Ha. split; [reflexivity|]. split; [discriminate|]. intros g m d l f HP. cbn. crush. Qed.

Lemma good_loadbal : good_region (true, [ILoadBal]).
Proof. split; [reflexivity|]. split; [discriminate|]. intros g m d l f HP. cbn. crush. Qed.

Lemma good_issue th : 0 <= th -> good_region (true, [IIssue th; IPersistSend; IDoneSend]).
Proof.
  intros Hth. split; [reflexivity|]. split; [discriminate|]. intros g m d l f HP. cbn.
  destruct (Z.leb_spec th l) as [Hle|Hgt]; cbn.
  - crush; constructor; try assumption; cbn; lia.
  - crush.
Qed.

Lemma good_recv p : good_region (true, [IRecvStore p; IRecvMem p; IDoneRecv p]).
Proof.
  split; [reflexivity|]. split; [discriminate|]. intros g m d l f HP. cbn.
  destruct (Z.ltb_spec (lastRecv d) p) as [Hlt|Hge]; cbn; crush.
Qed.

Lemma good_refresh : good_region (true, [IRefresh]).
Proof.
  split; [reflexivity|]. split; [discriminate|]. intros g m d l f HP. cbn.
  pose proof (P_Claim _ _ _ HP) as HC. split; [exact HC|]. split; [apply HP|]. now apply Claim_P_boot.
Qed.

Lemma good_cash : good_region (true, [ICash]).
Proof. split; [reflexivity|]. split; [discriminate|]. intros g m d l f HP. cbn. crush. Qed.

Lemma good_compile o : op_ok o -> Forall good_region (compile true o).
Proof.
  destruct o as [a|a|th|p| |]; cbn; intros Hok; repeat apply Forall_cons; try apply Forall_nil;
    auto using good_putR, good_putT, good_loadbal, good_issue, good_recv, good_refresh, good_cash.
Qed.

Lemma good_flat_map ops : Forall op_ok ops -> Forall good_region (flat_map (compile true) ops).
Proof.
  induction 1 as [|o ops Ho Hops IH]; cbn; [constructor|]. apply Forall_app. split. { now apply good_compile. } exact IH.
Qed.

(** * list plumbing *)
Lemma nth_error_set_nth_eq {A} (l : list A) n x y : nth_error l n = Some y -> nth_error (set_nth l n x) n = Some x.
Proof. revert n; induction l as [|h t IH]; intros [|n] H; cbn in *; try discriminate; auto. Qed.
Lemma nth_error_set_nth_neq {A} (l : list A) n k x : n <> k -> nth_error (set_nth l n x) k = nth_error l k.
Proof. revert n k; induction l as [|h t IH]; intros [|n] [|k] H; cbn; auto; try lia. Qed.

(** * the invariant over interleavings (code after the fix: every region holds the lock) *)
Definition thread_ok (s : state) (t : nat) (th : thread) : Prop :=
  Forall good_region (todo th) /\
  ((lock s = Some t /\ cur th <> [] /\ inlock th = true /\
    Claim (gh s) (disk s) /\ fle (committed s) (restore (disk s)) /\
    safe_rest (cur th) (committed s) (mem s) (disk s) (gh s) (loc th) (flag th))
   \/ (lock s <> Some t /\ cur th = [])).

Definition Inv (s : state) : Prop :=
  (forall t th, nth_error (thr s) t = Some th -> thread_ok s t th) /\
  match lock s with
  | None => P (gh s) (mem s) (disk s) /\ committed s = mem s
  | Some t => exists th, nth_error (thr s) t = Some th
  end.

Lemma Inv_boot d g progs :
  Claim g d -> Forall (Forall op_ok) progs -> Inv (boot true d g progs).
Proof.
  intros HC Hok. split.
  - intros t th Hn. cbn in Hn. apply nth_error_In in Hn. apply in_map_iff in Hn as [ops [<- Hin]].
    split.
    + cbn. apply good_flat_map. rewrite Forall_forall in Hok. now apply Hok.
    + right. cbn. split; [discriminate|reflexivity].
  - cbn. split; [now apply Claim_P_boot | reflexivity].
Qed.

Lemma step_Inv s t : Inv s -> Inv (step s t).
Proof.
  intros [Hthr Hlock]. unfold step.
  destruct (nth_error (thr s) t) as [th|] eqn:Hn; [|split; assumption].
  destruct (Hthr t th Hn) as [Hgood Hst].
  destruct (cur th) as [|i rest] eqn:Hcur.
  - (* between regions *)
    destruct Hst as [[_ [Hne _]]|[Hnl _]]; [congruence|].
    destruct (todo th) as [|[needs ins] more] eqn:Htodo; [split; assumption|].
    inversion Hgood as [|? ? [Hfst [Hnonempty Hsafe]] Hmore]; subst. cbn in Hfst, Hnonempty, Hsafe. subst needs.
    destruct (lock s) as [h|] eqn:Hl; [split; [assumption|now rewrite Hl]|].
    destruct Hlock as [HP Hcm].
    split.
    + intros k thk Hk. cbn in Hk |- *.
      destruct (Nat.eq_dec t k) as [<-|Hneq].
      * rewrite (nth_error_set_nth_eq _ _ _ _ Hn) in Hk. inversion Hk; subst thk. split; [exact Hmore|].
        left. cbn. split; [reflexivity|]. split; [assumption|]. split; [reflexivity|].
        split; [now apply (P_Claim _ _ _ HP)|]. split; [rewrite Hcm; apply HP|]. rewrite Hcm. now apply Hsafe.
      * rewrite nth_error_set_nth_neq in Hk by assumption.
        destruct (Hthr k thk Hk) as [Hg Hs]. split; [exact Hg|].
        destruct Hs as [[Hh _]|[_ Hc]]; [rewrite Hl in Hh; discriminate|].
        right. cbn. split; [intros E; inversion E; congruence | exact Hc].
    + cbn. exists {| cur := ins; inlock := true; todo := more; loc := loc th; flag := flag th |}.
      now apply (nth_error_set_nth_eq _ _ _ _ Hn).
  - (* inside a region: t holds the lock *)
    destruct Hst as [[Hh [_ [Hin [_ [_ Hsafe]]]]]|[_ Hc]]; [|discriminate].
    cbn [safe_rest] in Hsafe.
    destruct (exec_instr i (mem s) (disk s) (gh s) (loc th) (flag th)) as [[[[m d] g] l] f] eqn:He.
    destruct Hsafe as [HC [Hfle Hrest]].
    rewrite Hin.
    destruct rest as [|j rest'].
    + (* region ends: release *)
      cbn [andb]. cbn [safe_rest] in Hrest. split.
      * intros k thk Hk. cbn in Hk |- *.
        destruct (Nat.eq_dec t k) as [<-|Hneq].
        -- rewrite (nth_error_set_nth_eq _ _ _ _ Hn) in Hk. inversion Hk; subst thk. split; [exact Hgood|].
           right. cbn. split; [discriminate|reflexivity].
        -- rewrite nth_error_set_nth_neq in Hk by assumption.
           destruct (Hthr k thk Hk) as [Hg Hs]. split; [exact Hg|].
           destruct Hs as [[Hh' _]|[_ Hc]]; [rewrite Hh in Hh'; inversion Hh'; congruence|].
           right. cbn. split; [discriminate|exact Hc].
      * cbn. split; [exact Hrest|reflexivity].
    + cbn [andb]. split.
      * intros k thk Hk. cbn in Hk |- *.
        destruct (Nat.eq_dec t k) as [<-|Hneq].
        -- rewrite (nth_error_set_nth_eq _ _ _ _ Hn) in Hk. inversion Hk; subst thk. split; [exact Hgood|].
           left. cbn. split; [exact Hh|]. split; [discriminate|]. split; [reflexivity|].
           split; [exact HC|]. split; [exact Hfle|exact Hrest].
        -- rewrite nth_error_set_nth_neq in Hk by assumption.
           destruct (Hthr k thk Hk) as [Hg Hs]. split; [exact Hg|].
           destruct Hs as [[Hh' _]|[Hnk Hc]]; [rewrite Hh in Hh'; inversion Hh'; congruence|].
           right. cbn. split; assumption.
      * cbn. rewrite Hh. exists {| cur := j :: rest'; inlock := true; todo := todo th; loc := l; flag := f |}.
        now apply (nth_error_set_nth_eq _ _ _ _ Hn).
Qed.

Lemma exec_Inv sched : forall s, Inv s -> Inv (exec s sched).
Proof. induction sched as [|t sched IH]; intros s H; cbn; [exact H|]. apply IH. now apply step_Inv. Qed.

(** what the invariant gives at ANY point of ANY schedule (also in the middle of a region) *)
Lemma Inv_Claim s : Inv s -> Claim (gh s) (disk s) /\ fle (committed s) (restore (disk s)).
Proof.
  intros [Hthr Hlock]. destruct (lock s) as [h|] eqn:Hl.
  - destruct Hlock as [th Hn]. destruct (Hthr h th Hn) as [_ [[_ [_ [_ [HC [Hf _]]]]]|[Hx _]]]; [|congruence].
    split; assumption.
  - destruct Hlock as [HP Hcm]. split; [now apply (P_Claim _ _ _ HP)|]. rewrite Hcm. apply HP.
Qed.

Theorem restart_covers_completed d g progs sched :
  Claim g d -> Forall (Forall op_ok) progs ->
  let s := exec (boot true d g progs) sched in
  Claim (gh s) (disk s) /\ fle (committed s) (restore (disk s)).
Proof. intros HC Hok s. apply Inv_Claim. apply exec_Inv. now apply Inv_boot. Qed.

(** any number of crash/restart epochs *)
Theorem epochs_cover_completed : forall es d g,
  Claim g d -> Forall (fun e : epoch => Forall (Forall op_ok) (fst e)) es ->
  let '(d', g') := run_epochs true d g es in Claim g' d'.
Proof.
  induction es as [|[progs sched] es IH]; intros d g HC Hok; cbn [run_epochs]; [exact HC|].
  inversion Hok as [|? ? Hp Hrest]; subst. cbn in Hp.
  apply IH; [|exact Hrest]. now apply restart_covers_completed.
Qed.

Lemma Claim_init d : Claim (ghost0 (restore d)) d.
Proof. unfold Claim, ghost0, restore. cbn. repeat split; try lia. constructor. Qed.

(** memory never lags a persisted cheque: in every reachable lock-free state the in-memory
    last-sent amount is at least every persisted one (so the next cheque starts above it) *)
Lemma quiescent_P d g progs sched :
  Claim g d -> Forall (Forall op_ok) progs ->
  let s := exec (boot true d g progs) sched in
  lock s = None -> P (gh s) (mem s) (disk s).
Proof.
  intros HC Hok s Hl. assert (HI : Inv s) by (apply exec_Inv; now apply Inv_boot).
  destruct HI as [_ HL]. rewrite Hl in HL. apply HL.
Qed.

(** * the code before the fix refutes the statement: two concurrent PutRetrieveTraffic(10) *)
Definition old_witness_progs : list (list op) := [[PutR 10]; [PutR 10]].
Definition old_witness_sched : list nat := [0;0;0;0;0; 1;1;1;1;1;1;1; 0;0]%nat.
Definition d_zero : dsk := {| s_rT := 0; s_tT := 0; lastSend := 0; lastRecv := 0; cR := 0; cT := 0 |}.

Lemma old_code_refuted :
  let s := exec (boot false d_zero (ghost0 (restore d_zero)) old_witness_progs) old_witness_sched in
  doneR (gh s) = 20 /\ rT (restore (disk s)) = 10.
Proof. vm_compute. split; reflexivity. Qed.

(** * a refresh that reads the stored total before taking the peer lock loses a concurrent update *)
Definition refresh_witness_progs : list (list op) := [[Refresh]; [PutR 10; PutR 5]].
Definition refresh_witness_sched : list nat := [0;0; 1;1;1;1; 0;0; 1;1;1;1]%nat.
(* pre-fix compile only differs for PutR/PutT/Refresh; use the fixed PutR with the early-read Refresh *)
Definition mk_thread_mixed (ops : list op) : thread :=
  {| cur := []; inlock := false;
     todo := flat_map (fun o => match o with Refresh => compile false Refresh | _ => compile true o end) ops;
     loc := 0; flag := false |}.
Definition refresh_s0 : state :=
  {| mem := restore d_zero; disk := d_zero; lock := None; thr := map mk_thread_mixed refresh_witness_progs;
     gh := ghost0 (restore d_zero); committed := restore d_zero |}.
Lemma early_read_refresh_refuted :
  let s := exec refresh_s0 refresh_witness_sched in
  doneR (gh s) = 15 /\ rT (restore (disk s)) = 5.
Proof. vm_compute. split; reflexivity. Qed.

(** * a cash-out receipt that stores the cashed amount under the served-total key loses the
      traffic served beyond the last received cheque at the next restart *)
Definition cash_witness_progs : list (list op) := [[PutT 12; Recv 5; Cash]].
Definition mk_thread_cashbad (ops : list op) : thread :=
  {| cur := []; inlock := false;
     todo := flat_map (fun o => match o with Cash => [(true, [ICashBad])] | _ => compile true o end) ops;
     loc := 0; flag := false |}.
Definition cash_s0 : state :=
  {| mem := restore d_zero; disk := d_zero; lock := None; thr := map mk_thread_cashbad cash_witness_progs;
     gh := ghost0 (restore d_zero); committed := restore d_zero |}.
Lemma cash_overwrites_total_refuted :
  let s := exec cash_s0 (repeat 0%nat 12) in
  doneT (gh s) = 12 /\ tT (restore (disk s)) = 5 /\
  tT (restore (disk (exec (boot true d_zero (ghost0 (restore d_zero)) cash_witness_progs) (repeat 0%nat 12)))) = 12.
Proof. vm_compute. repeat split; reflexivity. Qed.
