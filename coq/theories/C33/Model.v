(** C33 — persistence of per-peer traffic totals (pkg/settlement/traffic/traffic.go,
    pkg/settlement/traffic/cheque/chequestore.go), for ONE peer (every peer has its own
    lock and its own store keys, so peers are independent).

    Memory  : the four totals of [Traffic] the property speaks about.
    Disk    : the state-store keys they are restored from.
    Threads : each runs a list of lock regions; a region's instructions are executed one per
              scheduler step (so a crash can fall between any two storage/memory writes);
              a thread that wants the peer lock while another holds it does not move.
    Restart : memory := restore disk  (Service.Init -> trafficPeerChainUpdate/ChequeUpdate).

    [fixed = true]  is the code as it is now (persist inside the lock region);
    [fixed = false] is the code before fix-persist-under-lock (field re-read and Put after Unlock).

    Definitions only; proofs are in Proofs.v. *)
From Coq Require Import List ZArith Bool.
Import ListNotations.
Local Open Scope Z_scope.

Record fields := { rT : Z; rC : Z; tT : Z; tC : Z }.
(* rT retrieveTraffic, rC retrieveChequeTraffic (last cheque sent),
   tT transferTraffic, tC transferChequeTraffic (last cheque received) *)

Record dsk := { s_rT : Z; s_tT : Z; lastSend : Z; lastRecv : Z; cR : Z; cT : Z }.
(* absent keys read as 0 (GetRetrieveTraffic/GetTransferTraffic return 0 on ErrNotFound; no
   last cheque = no contribution to the maximum; all amounts are non-negative) *)

(** trafficPeerChainUpdate + trafficPeerChequeUpdate *)
Definition restore (d : dsk) : fields :=
  let rc := Z.max (cR d) (lastSend d) in
  let tc := Z.max (cT d) (lastRecv d) in
  {| rT := Z.max rc (s_rT d); rC := rc; tT := Z.max tc (s_tT d); tC := tc |}.

(** ghost bookkeeping of COMPLETED operations (what "before the restart" means) *)
Record ghost := { rT0 : Z; tT0 : Z; doneR : Z; doneT : Z; sentDone : Z; recvDone : Z;
                  emitted : list (Z * Z * Z) (* (largest completed payout so far, rC before, payout) of every cheque handed to the peer *) }.

Inductive instr :=
| IAddRT (a : Z) | IPersistRT | IDoneR (a : Z)           (* PutRetrieveTraffic *)
| IAddTT (a : Z) | IPersistTT | IDoneT (a : Z)           (* PutTransferTraffic *)
| IReadRT | IPersistRTloc | IReadTT | IPersistTTloc      (* pre-fix: argument evaluated / Put issued after Unlock *)
| ILoadBal                                               (* Pay: balance := retrieveTraffic - retrieveChequeTraffic *)
| IIssue (th : Z) | IPersistSend | IDoneSend             (* Pay: issue + putSendCheque *)
| IRecvStore (p : Z) | IRecvMem (p : Z) | IDoneRecv (p : Z) (* ReceiveCheque *)
| IRefresh                                               (* trafficInit (24 h refresh): trafficPeerChequeUpdate rebuilds the record from the store under the peer lock *)
| IReadDiskRT | IRefreshLoc                              (* a variant that reads the stored total BEFORE taking the lock (regression witness only) *)
| ICash                                                  (* cashChequeReceiptUpdate, receipt status 1: the chain now reports the last received cheque as transferred; the cached chain amounts are rewritten under the peer lock (trafficPeerChainUpdate); the four totals and their store keys are not touched *)
| ICashBad.                                              (* a variant that writes the cashed amount under the served-total key (regression witness only) *)

Inductive op := PutR (a : Z) | PutT (a : Z) | Pay (th : Z) | Recv (p : Z) | Refresh | Cash.

(** a region: (needs the peer lock?, instructions) *)
Definition region := (bool * list instr)%type.

Definition compile (fixed : bool) (o : op) : list region :=
  match o with
  | PutR a => if fixed then [(true, [IAddRT a; IPersistRT; IDoneR a])]
              else [(true, [IAddRT a]); (false, [IReadRT]); (false, [IPersistRTloc; IDoneR a])]
  | PutT a => if fixed then [(true, [IAddTT a; IPersistTT; IDoneT a])]
              else [(true, [IAddTT a]); (false, [IReadTT]); (false, [IPersistTTloc; IDoneT a])]
  | Pay th => [(true, [ILoadBal]); (true, [IIssue th; IPersistSend; IDoneSend])]
  | Recv p => [(true, [IRecvStore p; IRecvMem p; IDoneRecv p])]
  | Refresh => if fixed then [(true, [IRefresh])] else [(false, [IReadDiskRT]); (true, [IRefreshLoc])]
  | Cash => [(true, [ICash])]
  end.

Record thread := { cur : list instr; inlock : bool; todo : list region; loc : Z; flag : bool }.

Definition mk_thread (fixed : bool) (ops : list op) : thread :=
  {| cur := []; inlock := false; todo := flat_map (compile fixed) ops; loc := 0; flag := false |}.

Record state := { mem : fields; disk : dsk; lock : option nat; thr : list thread; gh : ghost;
                  committed : fields (* ghost: memory at the last moment the lock was free *) }.

Definition set_rT (m : fields) v := {| rT := v; rC := rC m; tT := tT m; tC := tC m |}.
Definition set_rC (m : fields) v := {| rT := rT m; rC := v; tT := tT m; tC := tC m |}.
Definition set_tT (m : fields) v := {| rT := rT m; rC := rC m; tT := v; tC := tC m |}.
Definition set_tC (m : fields) v := {| rT := rT m; rC := rC m; tT := tT m; tC := v |}.
Definition d_set_rT (d : dsk) v := {| s_rT := v; s_tT := s_tT d; lastSend := lastSend d; lastRecv := lastRecv d; cR := cR d; cT := cT d |}.
Definition d_set_tT (d : dsk) v := {| s_rT := s_rT d; s_tT := v; lastSend := lastSend d; lastRecv := lastRecv d; cR := cR d; cT := cT d |}.
Definition d_set_send (d : dsk) v := {| s_rT := s_rT d; s_tT := s_tT d; lastSend := v; lastRecv := lastRecv d; cR := cR d; cT := cT d |}.
Definition d_set_recv (d : dsk) v := {| s_rT := s_rT d; s_tT := s_tT d; lastSend := lastSend d; lastRecv := v; cR := cR d; cT := cT d |}.
Definition d_set_cT (d : dsk) v := {| s_rT := s_rT d; s_tT := s_tT d; lastSend := lastSend d; lastRecv := lastRecv d; cR := cR d; cT := v |}.
Definition g_doneR (g : ghost) a := {| rT0 := rT0 g; tT0 := tT0 g; doneR := doneR g + a; doneT := doneT g; sentDone := sentDone g; recvDone := recvDone g; emitted := emitted g |}.
Definition g_doneT (g : ghost) a := {| rT0 := rT0 g; tT0 := tT0 g; doneR := doneR g; doneT := doneT g + a; sentDone := sentDone g; recvDone := recvDone g; emitted := emitted g |}.
Definition g_sent (g : ghost) v := {| rT0 := rT0 g; tT0 := tT0 g; doneR := doneR g; doneT := doneT g; sentDone := Z.max (sentDone g) v; recvDone := recvDone g; emitted := emitted g |}.
Definition g_recv (g : ghost) v := {| rT0 := rT0 g; tT0 := tT0 g; doneR := doneR g; doneT := doneT g; sentDone := sentDone g; recvDone := Z.max (recvDone g) v; emitted := emitted g |}.
Definition g_emit (g : ghost) e := {| rT0 := rT0 g; tT0 := tT0 g; doneR := doneR g; doneT := doneT g; sentDone := sentDone g; recvDone := recvDone g; emitted := e :: emitted g |}.

(** one instruction: (mem, disk, ghost, loc, flag) -> same *)
Definition exec_instr (i : instr) (m : fields) (d : dsk) (g : ghost) (l : Z) (f : bool)
  : fields * dsk * ghost * Z * bool :=
  match i with
  | IAddRT a => (set_rT m (rT m + a), d, g, l, f)
  | IPersistRT => (m, d_set_rT d (rT m), g, l, f)
  | IDoneR a => (m, d, g_doneR g a, l, f)
  | IAddTT a => (set_tT m (tT m + a), d, g, l, f)
  | IPersistTT => (m, d_set_tT d (tT m), g, l, f)
  | IDoneT a => (m, d, g_doneT g a, l, f)
  | IReadRT => (m, d, g, rT m, f)
  | IPersistRTloc => (m, d_set_rT d l, g, l, f)
  | IReadTT => (m, d, g, tT m, f)
  | IPersistTTloc => (m, d_set_tT d l, g, l, f)
  | ILoadBal => (m, d, g, rT m - rC m, f)
  | IIssue th =>
      if th <=? l
      then let payout := rC m + l in
           (set_rT (set_rC m payout) (Z.max (rT m) payout), d, g_emit g (sentDone g, rC m, payout), l, true)
      else (m, d, g, l, false)
  | IPersistSend => if f then (m, d_set_send d (rC m), g, l, f) else (m, d, g, l, f)
  | IDoneSend => if f then (m, d, g_sent g (rC m), l, f) else (m, d, g, l, f)
  | IRecvStore p => if lastRecv d <? p then (m, d_set_recv d p, g, l, true) else (m, d, g, l, false)
  | IRecvMem p => if f then (set_tC m p, d, g, l, f) else (m, d, g, l, f)
  | IDoneRecv p => if f then (m, d, g_recv g p, l, f) else (m, d, g, l, f)
  | IRefresh => (restore d, d, g, l, f)
  | IReadDiskRT => (m, d, g, s_rT d, f)
  | IRefreshLoc => let r := restore d in (set_rT r (Z.max (rC r) l), d, g, l, f)
  | ICash => (m, d_set_cT d (Z.max (cT d) (lastRecv d)), g, l, f)
  | ICashBad => (m, d_set_tT (d_set_cT d (Z.max (cT d) (lastRecv d))) (tC m), g, l, f)
  end.

Fixpoint set_nth {A} (l : list A) (n : nat) (x : A) : list A :=
  match l, n with
  | [], _ => []
  | _ :: t, O => x :: t
  | h :: t, S n' => h :: set_nth t n' x
  end.

(** scheduler step: thread [t] performs its next action (or stays put when it needs the lock) *)
Definition step (s : state) (t : nat) : state :=
  match nth_error (thr s) t with
  | None => s
  | Some th =>
      match cur th with
      | i :: rest =>
          let '(m, d, g, l, f) := exec_instr i (mem s) (disk s) (gh s) (loc th) (flag th) in
          let fin := match rest with [] => true | _ => false end in
          let th' := {| cur := rest; inlock := if fin then false else inlock th; todo := todo th; loc := l; flag := f |} in
          let release := fin && inlock th in
          {| mem := m; disk := d; lock := if release then None else lock s;
             thr := set_nth (thr s) t th'; gh := g;
             committed := if release then m else committed s |}
      | [] =>
          match todo th with
          | [] => s
          | (needs_lock, ins) :: more =>
              if needs_lock then
                match lock s with
                | Some _ => s                                   (* blocked *)
                | None =>
                    {| mem := mem s; disk := disk s; lock := Some t;
                       thr := set_nth (thr s) t {| cur := ins; inlock := true; todo := more; loc := loc th; flag := flag th |};
                       gh := gh s; committed := committed s |}
                end
              else
                {| mem := mem s; disk := disk s; lock := lock s;
                   thr := set_nth (thr s) t {| cur := ins; inlock := false; todo := more; loc := loc th; flag := flag th |};
                   gh := gh s; committed := committed s |}
          end
      end
  end.

Definition exec (s : state) (sched : list nat) : state := fold_left step sched s.

Definition ghost0 (m : fields) : ghost :=
  {| rT0 := rT m; tT0 := tT m; doneR := 0; doneT := 0; sentDone := rC m; recvDone := tC m; emitted := [] |}.

(** state right after Service.Init on disk [d] with fresh threads *)
Definition boot (fixed : bool) (d : dsk) (g : ghost) (progs : list (list op)) : state :=
  {| mem := restore d; disk := d; lock := None; thr := map (mk_thread fixed) progs; gh := g;
     committed := restore d |}.

(** an epoch = programs + schedule; the process stops (crash or shutdown) wherever the schedule
    ends; the next epoch boots from the disk as it is *)
Definition epoch := (list (list op) * list nat)%type.

Fixpoint run_epochs (fixed : bool) (d : dsk) (g : ghost) (es : list epoch) : dsk * ghost :=
  match es with
  | [] => (d, g)
  | (progs, sched) :: more =>
      let s := exec (boot fixed d g progs) sched in
      run_epochs fixed (disk s) (gh s) more
  end.

Definition fle (a b : fields) : Prop := rT a <= rT b /\ rC a <= rC b /\ tT a <= tT b /\ tC a <= tC b.

Definition op_ok (o : op) : Prop :=
  match o with PutR a | PutT a => 0 <= a | Pay th => 0 <= th | Recv _ | Refresh | Cash => True end.
Definition op_okb (o : op) : bool :=
  match o with PutR a | PutT a => 0 <=? a | Pay th => 0 <=? th | Recv _ | Refresh | Cash => true end.
