(** C33 — correspondence: the harness runs the real traffic.Service with a gated state store,
    derives the micro-schedule from the observed order of store writes, stops ("crash") after a
    chosen number of writes, restarts a fresh Service on the surviving store contents and reads
    the restored totals. *)
From Coq Require Import List ZArith Bool.
Import ListNotations.
Require Import Aurora.Base.Corr.
Require Export Aurora.C33.Model.
Local Open Scope Z_scope.

Inductive case :=
| CRun (d0 : Z * Z * Z * Z * Z * Z)       (* s_rT s_tT lastSend lastRecv cR cT at boot *)
       (progs : list (list op)) (sched : list nat)
       (obs_disk : Z * Z * Z * Z)           (* s_rT s_tT lastSend lastRecv found in the store at the crash point *)
       (obs_restored : Z * Z * Z * Z)       (* rT rC tT tC of the restarted service *)
| CSeq (ops : list op) (obs_restored : Z * Z * Z * Z).
  (* one peer of a sequential multi-peer history (no stored state at boot, chain amounts 0): the
     operations run to completion one after the other (cash-out receipts included), then a restart *)

Definition mkd (t : Z * Z * Z * Z * Z * Z) : dsk :=
  let '(a, b, c, e, f, g) := t in {| s_rT := a; s_tT := b; lastSend := c; lastRecv := e; cR := f; cT := g |}.

Definition model_out (c : case) : (Z * Z * Z * Z) * (Z * Z * Z * Z) :=
  match c with
  | CRun d0 progs sched _ _ =>
      let d := mkd d0 in
      let s := exec (boot true d (ghost0 (restore d)) progs) sched in
      let r := restore (disk s) in
      ((s_rT (disk s), s_tT (disk s), lastSend (disk s), lastRecv (disk s)), (rT r, rC r, tT r, tC r))
  | CSeq ops _ =>
      let d := mkd (0, 0, 0, 0, 0, 0) in
      let s := exec (boot true d (ghost0 (restore d)) [ops]) (repeat 0%nat (5 * length ops)) in
      let r := restore (disk s) in
      ((s_rT (disk s), s_tT (disk s), lastSend (disk s), lastRecv (disk s)), (rT r, rC r, tT r, tC r))
  end.
Definition q_eqb (a b : Z * Z * Z * Z) : bool :=
  let '(a1, a2, a3, a4) := a in let '(b1, b2, b3, b4) := b in
  Z.eqb a1 b1 && Z.eqb a2 b2 && Z.eqb a3 b3 && Z.eqb a4 b4.
Definition check_case (c : case) : bool :=
  match c with
  | CRun _ _ _ od orr => let '(md, mr) := model_out c in q_eqb md od && q_eqb mr orr
  | CSeq _ orr => q_eqb (snd (model_out c)) orr
  end.
Definition explain_case (c : case) :=
  match c with CRun _ _ _ od orr => (model_out c, (od, orr)) | CSeq _ orr => (model_out c, ((0, 0, 0, 0), orr)) end.
