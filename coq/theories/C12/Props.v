(** C12 — garbage collection never deletes pinned or uploaded chunks and never
    changes a pin count.  Property theorems only.  The model is
    [Aurora.C12.Model] (localstore = [Aurora.C11.Model], the pyramid tables of
    chunkinfo, [collectGarbage] with the real chunkinfo behind it).

    The three clauses of the property are FALSE for the code
    ([C12_*_refuted], each witness is a corpus case of the harness and
    reproduces on the Go code: known findings).  What holds:
    a run touches only chunks of the files it evicts
    ([C12_gc_touches_only_evicted_files_partial]); the reference counts of
    chunkinfo are exact along EVERY history ([C12_refcount_invariant], for the
    code with proposed/C16/fix-delfile-unregistered-root.patch); hence a run
    leaves the bytes and the pin count of every chunk of every OTHER
    registered file alone, except a chunk that is itself the root of an evicted
    file ([C12_gc_protects_registered_files_partial]). *)
From Coq Require Import List NArith ZArith Bool.
Import ListNotations.
Require Import Aurora.Consts Aurora.C11.Model Aurora.C12.Model Aurora.C12.ProofsCi Aurora.C12.ProofsGc
        Aurora.C12.ProofsHist Aurora.C12.ProofsStep Aurora.C12.Witness.
Local Open Scope N_scope.

(** the mode numbers the correspondence decodes are the Go constants *)
Lemma consts_ok_C12 :
  (Consts.storage_ModePutRequest =? 0)%Z && (Consts.storage_ModePutUpload =? 1)%Z &&
  (Consts.storage_ModePutUploadPin =? 2)%Z && (Consts.storage_ModeGetRequest =? 0)%Z &&
  (Consts.storage_ModeSetRemove =? 1)%Z && (Consts.storage_ModeSetPin =? 2)%Z &&
  (Consts.storage_ModeSetUnpin =? 3)%Z && (0 <? Consts.boson_MaxPO)%Z = true.
Proof. vm_compute. reflexivity. Qed.

(** a collection run = the eviction phase [GGcEnd] applied to the state a history reached:
    [gc_run cat po cap x = fst (gstep cat po cap x GGcEnd)] (ProofsHist.v) *)

(** "no run deletes a chunk whose pin count is positive" — FALSE: a chunk pinned by a
    single-chunk upload (POST /chunks, Aurora-Pin) is deleted together with its pin entry when a
    cached file containing it is evicted: the pyramid counts do not know the pin *)
Theorem C12_gc_keeps_pinned_refuted :
  exists cat po cap h a pc,
    let x := gexec cat po cap sys_init h in
    pin_get (ls x) a = Some pc /\ 0 < pc /\ data_has (ls x) a = true /\
    data_has (ls (gc_run cat po cap x)) a = false /\ pin_get (ls (gc_run cat po cap x)) a = None.
Proof. exists cat0, po0, 2, w_pinned, x1, 1. vm_compute. repeat split; reflexivity. Qed.
Print Assumptions C12_gc_keeps_pinned_refuted.

(** ... and the root chunk of an evicted file is deleted whatever its pin count is *)
Theorem C12_gc_keeps_pinned_root_refuted :
  exists cat po cap h a,
    let x := gexec cat po cap sys_init h in
    pin_get (ls x) a = Some 2 /\ data_has (ls x) a = true /\
    data_has (ls (gc_run cat po cap x)) a = false /\ pin_get (ls (gc_run cat po cap x)) a = Some 1.
Proof. exists cat0, po0, 2, w_root, rA. vm_compute. repeat split; reflexivity. Qed.
Print Assumptions C12_gc_keeps_pinned_root_refuted.

(** "no run changes any pin count" — FALSE: PinCounter 2 > Number 1 is rewritten to 1 *)
Theorem C12_gc_preserves_pins_refuted :
  exists cat po cap h a,
    let x := gexec cat po cap sys_init h in
    pin_get (ls x) a = Some 2 /\ pin_get (ls (gc_run cat po cap x)) a = Some 1.
Proof. exists cat0, po0, 2, w_pinned2, x1. vm_compute. split; reflexivity. Qed.
Print Assumptions C12_gc_preserves_pins_refuted.

(** "no run deletes a chunk that was stored by local upload" — FALSE: file B is uploaded
    (upload-mode puts only, never request-put, never registered with chunkinfo: POST /bytes);
    the eviction of the cached file A deletes the chunk they share *)
Definition upload_only (h : list gop) (a : addr) : Prop :=
  (exists t d, In (GLs (OPut t PUpload None [(a, d)])) h) /\
  (forall t m r chs, In (GLs (OPut t m r chs)) h -> In a (map fst chs) -> m = PUpload).
Theorem C12_gc_keeps_uploads_refuted :
  exists cat po cap h a,
    let x := gexec cat po cap sys_init h in
    upload_only h a /\ data_has (ls x) a = true /\ data_has (ls (gc_run cat po cap x)) a = false.
Proof.
  exists cat0, po0, 2, w_upload, x1. split; [|vm_compute; split; reflexivity].
  split.
  - exists 1, [1]. now left.
  - intros t m r chs Hin Ha. unfold w_upload, up, req in Hin. simpl in Hin.
    repeat (destruct Hin as [Hin|Hin]; [inversion Hin; subst; simpl in Ha;
      try reflexivity; try (destruct Ha as [Ha|[]]; discriminate Ha) |]).
    contradiction.
Qed.
Print Assumptions C12_gc_keeps_uploads_refuted.

(** What a run can touch at all: from EVERY state (any candidate list, any tables, any
    catalogue), a chunk that belongs to none of the candidate files and is not a candidate
    root keeps its stored bytes and its pin count. *)
Theorem C12_gc_touches_only_evicted_files_partial :
  forall cat po cap (x : sys) ctx a,
    s_gcrun (ls x) = Some ctx ->
    (forall r sh, In r (cand_roots (g_cands ctx)) -> cat_get cat r = Some sh -> ~ In a (cidset sh)) ->
    ~ In a (cand_roots (g_cands ctx)) ->
    data_get (ls (gc_run cat po cap x)) a = data_get (ls x) a /\
    pin_get (ls (gc_run cat po cap x)) a = pin_get (ls x) a.
Proof. exact gc_frame_thm. Qed.
Print Assumptions C12_gc_touches_only_evicted_files_partial.

(** The reference counts: along EVERY history (any interleaving of localstore calls of any
    mode, registrations, deletes in any map order and collection phases, from the empty node)
    the count of every chunk is exactly the number of registered files containing it.
    (Repaired DelFile: a root the table does not know is registered before the callback.) *)
Theorem C12_refcount_invariant :
  forall cat po cap (h : list gop),
    let c := ci (gexec cat po cap sys_init h) in
    NoDup (map fst (ci_hash c)) /\ forall a, cnt c a = refs cat c a.
Proof. exact refcount_thm. Qed.
Print Assumptions C12_refcount_invariant.

(** The protection the counts give.  After every history, a run leaves alone — stored bytes
    AND pin count — every chunk of every registered file that is not a candidate, unless the
    chunk is itself the root address of a candidate.  (So within that class: pinned chunks
    stay, pin counts stay, uploaded chunks of files registered through POST /aurora stay.) *)
Theorem C12_gc_protects_registered_files_partial :
  forall cat po cap (h : list gop) ctx rb shb a,
    let x := gexec cat po cap sys_init h in
    s_gcrun (ls x) = Some ctx ->
    registered (ci x) rb = true -> cat_get cat rb = Some shb -> ~ In rb (cand_roots (g_cands ctx)) ->
    In a (cidset shb) -> ~ In a (cand_roots (g_cands ctx)) ->
    data_get (ls (gc_run cat po cap x)) a = data_get (ls x) a /\
    pin_get (ls (gc_run cat po cap x)) a = pin_get (ls x) a.
Proof. exact gc_protects_thm. Qed.
Print Assumptions C12_gc_protects_registered_files_partial.

(** INTERLEAVINGS INSIDE A RUN.  The machine [gstep2] takes the eviction phase one DelFile call
    at a time ([HGcStep root]); any operation may run after candidate selection, between two
    calls and before the final section ([H1 GGcEnd], which finishes the remaining candidates).
    A file TOUCHED after selection — a Set (any mode, any context) naming its root, or a
    successful request-mode Get of the root or under its file context — before its own DelFile
    call is not evicted by this run, whatever else happens in between: no item with its address
    is among those whose root chunk, access entry and gc entry the final section deletes.
    From every state with a run in progress (any candidates, tables, progress not yet holding the root). *)
Theorem C12_touched_file_is_not_evicted :
  forall cat po cap (x : sys) (p : gcprog) root o (h : list gop2),
    s_gcrun (ls x) <> None ->
    (forall kc, In kc (p_rec p) -> snd (fst kc) <> root) ->
    touches root (ls x) o -> ls_call o = true ->
    Forall (fun o' => o' <> H1 GGcEnd) h ->
    let y := fold_left (fun z o' => fst (gstep2 cat po cap z o')) (H1 (GLs o) :: h) (x, p) in
    forall kc, In kc (end_recycled cat y) -> snd (fst kc) <> root.
Proof. exact touched_not_evicted. Qed.
Print Assumptions C12_touched_file_is_not_evicted.

(** ... but a pin that arrives AFTER the DelFile call of the file and before the final section is
    lost: the run holds no lock in between, the batch deletes the chunks, the pin entries stay
    (known finding); the same pin before the call saves the file. *)
Theorem C12_pin_after_closure_refuted :
  (let y := run2 2 (cacheA2 ++ [pinA; HGcStep rA; H1 GGcEnd]) in
   data_has (ls (fst y)) x1 = true /\ pin_get (ls (fst y)) x1 = Some 1 /\ data_has (ls (fst y)) rA = true) /\
  (let y0 := run2 2 (cacheA2 ++ [HGcStep rA; pinA]) in
   let y := run2 2 (cacheA2 ++ [HGcStep rA; pinA; H1 GGcEnd]) in
   data_has (ls (fst y0)) x1 = true /\ pin_get (ls (fst y0)) x1 = Some 1 /\
   data_has (ls (fst y)) x1 = false /\ pin_get (ls (fst y)) x1 = Some 1).
Proof. exact pin_before_and_after_closure. Qed.
Print Assumptions C12_pin_after_closure_refuted.

(** non-vacuity: two registered cached files sharing a chunk; the run evicts the older one,
    the shared chunk, pinned, keeps bytes and pin count; the exclusive chunk goes *)
Example C12_example :
  let h := [req 1 rA rA; GReg rA; req 2 rA x1; req 3 rA x2; req 4 rB rB; GReg rB; req 5 rB x3;
            GLs (OSet 6 SPin None [x1]); GGcBegin 3 10000] in
  let x := gexec cat0 po0 5 sys_init h in
  (exists ctx, s_gcrun (ls x) = Some ctx /\ cand_roots (g_cands ctx) = [rA]) /\
  registered (ci x) rB = true /\ pin_get (ls x) x1 = Some 1 /\
  pin_get (ls (gc_run cat0 po0 5 x)) x1 = Some 1 /\ data_has (ls (gc_run cat0 po0 5 x)) x1 = true /\
  data_has (ls (gc_run cat0 po0 5 x)) x2 = false.
Proof.
  vm_compute. repeat split; try reflexivity.
  eexists. repeat split; reflexivity.
Qed.
