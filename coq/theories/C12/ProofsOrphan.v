(** C16 — after a successful DELETE of a registered file no unpinned chunk used
    only by that file remains; and the refutations of "others stay readable". *)
From Coq Require Import List NArith ZArith Bool Lia.
Import ListNotations.
Require Import Aurora.C11.Model Aurora.C11.Maps Aurora.C12.Model Aurora.C12.ProofsCi Aurora.C12.ProofsFrame
        Aurora.C12.ProofsGc Aurora.C12.ProofsDel Aurora.C12.ProofsHist Aurora.C12.Witness.
Local Open Scope N_scope.

(** is the chunk deleted by the batch (last word on its data entry)? *)
Fixpoint data_after (c : addr) (b : list write) (cur : bool) : bool :=
  match b with
  | [] => cur
  | WDataDel a :: t => data_after c t (cur || bytes_eqb c a)
  | WData a _ :: t => data_after c t (cur && negb (bytes_eqb c a))
  | _ :: t => data_after c t cur
  end.

Lemma commit_data_after c b : forall s cur,
  data_after c b cur = true -> (cur = true -> data_get s c = None) -> data_get (commit s b) c = None.
Proof.
  induction b as [|w b IH]; intros s cur H Hc; simpl in *; [now apply Hc|].
  destruct w as [a e|a|a ts|a|k g|k|a g|a|p i|n]; simpl in *;
    try (apply (IH _ cur H); intros E; unfold data_get in *; simpl; now apply Hc).
  - (* WData *) apply (IH _ _ H). intros E. apply andb_true_iff in E as [E1 E2].
    unfold data_get in *; simpl. rewrite (alookup_ainsert_other cmp_bytes cmp_bytes_eq); [now apply Hc|].
    intros ->. now rewrite bytes_eqb_refl in E2.
  - (* WDataDel *) apply (IH _ _ H). intros E. unfold data_get in *; simpl.
    apply orb_true_iff in E as [E|E].
    + destruct (list_eq_dec N.eq_dec c a) as [->|Hn]; [apply (alookup_aremove_same cmp_bytes)|].
      rewrite (alookup_aremove_other cmp_bytes cmp_bytes_eq) by exact Hn. now apply Hc.
    + apply bytes_eqb_eq in E. subst. apply (alookup_aremove_same cmp_bytes).
Qed.

Section Orphan.
  Variable cat : catalogue.
  Variable po : addr -> N.
  Variable capacity : N.

  Definition gone_or_pinned (s : state) (c : addr) : Prop := data_get s c = None \/ pin_get s c <> None.

  Lemma finish_data_after c s b ch : data_after c b false = true ->
    data_get (fst (finish capacity s b ch)) c = None.
  Proof.
    intros H. unfold finish.
    assert (H' : forall n, data_after c (b ++ [WGcSize n]) false = true).
    { intros n. revert H. generalize false. induction b as [|w b IH]; intros cur H; simpl in *; [exact H|].
      destruct w as [a0 e0|a0|a0 ts|a0|k g|k|a0 g|a0|p i|n0]; simpl; auto. }
    destruct (ch =? 0)%Z; simpl; [eapply commit_data_after; eauto; discriminate|].
    destruct (0 <? ch)%Z; simpl; [eapply commit_data_after; eauto; discriminate|].
    destruct (s_gcsize s <? Z.to_N (- ch)); simpl; eapply commit_data_after; eauto; discriminate.
  Qed.

  Lemma set_remove_fst root c s :
    fst (set capacity 0 SRemove (Some root) [c] s) =
    match set_remove (mark_dirty s [c]) [] c (Some root) with
    | Ok ch s' b => fst (finish capacity s' b ch)
    | Fail e s' => s'
    end.
  Proof.
    unfold set. cbn [set_loop set_one].
    destruct (set_remove (mark_dirty s [c]) [] c (Some root)) as [ch s' b|e s']; simpl; [|reflexivity].
    destruct (finish capacity s' b ch); reflexivity.
  Qed.

  (** what [setRemove] answers *)
  Lemma set_remove_cases s c root :
    match set_remove s [] c (Some root) with
    | Fail e s' => s' = s /\ (data_get s c = None \/ (data_get s c <> None /\ data_get s root = None))
    | Ok ch s' b' =>
        s' = s /\
        ((exists pc', ch = 0%Z /\ b' = [WPin c pc']) \/ data_after c b' false = true)
    end.
  Proof.
    unfold set_remove. cbn [root_bytes].
    destruct (data_get s c) as [e|] eqn:Ed; [|split; [reflexivity | now left]].
    assert (C : forall b1, data_after c (b1 ++ [WDataDel c; WAccessDel c]) false = true ->
      match
        (let b2 := b1 ++ [WDataDel c; WAccessDel c] in
         match access_get s root with
         | None => Ok 0%Z s b2
         | Some rats =>
             match data_get s root with
             | None => Fail ENotFound s
             | Some re =>
                 let k := (rats, d_bin re, root) in
                 match gc_get s k with
                 | None => Ok 0%Z s b2
                 | Some c0 => if 1 <? c0 then Ok (-1)%Z s (b2 ++ [WGc k (c0 - 1)]) else Ok (-1)%Z s (b2 ++ [WAccessDel root; WGcDel k])
                 end
             end
         end)
      with
      | Fail e0 s' => s' = s /\ (Some e = None \/ (Some e <> None /\ data_get s root = None))
      | Ok ch s' b' => s' = s /\ ((exists pc', ch = 0%Z /\ b' = [WPin c pc']) \/ data_after c b' false = true)
      end).
    { intros b1 Hb. cbv zeta.
      assert (Happ : forall ws, (forall cur, data_after c ws cur = cur) -> data_after c ((b1 ++ [WDataDel c; WAccessDel c]) ++ ws) false = true).
      { intros ws Hws. revert Hb. generalize false. generalize (b1 ++ [WDataDel c; WAccessDel c]).
        induction l as [|w l IH]; intros cur H; simpl in *; [now rewrite Hws|].
        destruct w as [a0 e0|a0|a0 ts|a0|k g|k|a0 g|a0|p i|n]; simpl; auto. }
      destruct (access_get s root).
      - destruct (data_get s root) eqn:Er.
        + destruct (gc_get s _).
          * destruct (1 <? n0); (split; [reflexivity|right]); apply Happ; intros cur; reflexivity.
          * split; [reflexivity | right; exact Hb].
        + split; [reflexivity|]. right. split; [discriminate | reflexivity].
      - split; [reflexivity | right; exact Hb]. }
    destruct (pin_get s c) as [pc|] eqn:Ep.
    - destruct (0 <? wsub pc 1).
      + split; [reflexivity|]. left. exists (wsub pc 1). split; reflexivity.
      + apply (C ([] ++ [WPinDel c])). simpl. now rewrite bytes_eqb_refl.
    - apply (C []). simpl. now rewrite bytes_eqb_refl.
  Qed.

  (** one Set(ModeSetRemove, c) under the file context: afterwards c is gone or still pinned,
      provided the root chunk of the context is stored (or c is the root itself) *)
  Lemma set1_orphan root c s : c = root \/ data_has s root = true ->
    gone_or_pinned (fst (set capacity 0 SRemove (Some root) [c] s)) c.
  Proof.
    intros Hroot. rewrite set_remove_fst.
    assert (M : forall a, data_get (mark_dirty s [c]) a = data_get s a)
      by (intros a; unfold mark_dirty; destruct (s_gcrun s); reflexivity).
    pose proof (set_remove_cases (mark_dirty s [c]) c root) as K.
    destruct (set_remove (mark_dirty s [c]) [] c (Some root)) as [ch s' b|e s'].
    - destruct K as [-> [[pc' [-> ->]]|Hb]].
      + right. unfold finish. simpl. unfold pin_get; simpl.
        rewrite (alookup_ainsert_same cmp_bytes cmp_bytes_eq). discriminate.
      + left. now apply finish_data_after.
    - destruct K as [-> [Hn|[Hs Hr]]]; [now left|]. exfalso.
      destruct Hroot as [->|H]; [contradiction|].
      rewrite M in Hr. unfold data_has, ahas in H. unfold data_get in Hr. now rewrite Hr in H.
  Qed.

  Lemma same_data_has a s s' : same_at a s s' -> data_has s' a = data_has s a.
  Proof. intros [H _]. unfold data_has, ahas. unfold data_get in H. now rewrite H. Qed.
  Lemma same_G a s s' : same_at a s s' -> gone_or_pinned s a -> gone_or_pinned s' a.
  Proof. intros [H1 H2] [G|G]; [left | right]; congruence. Qed.

  (** the inner loop on one chunk *)
  Lemma remove_n_G root c cid n : forall s,
    data_has s root = true -> cid <> root ->
    (gone_or_pinned s c \/ (cid = c /\ (0 < n)%nat)) ->
    gone_or_pinned (fst (remove_n capacity root n cid s)) c /\ data_has (fst (remove_n capacity root n cid s)) root = true.
  Proof.
    induction n as [|n IH]; intros s Hr Hne HG; cbn [remove_n fst].
    - split; [|exact Hr]. destruct HG as [G|[_ L]]; [exact G | lia].
    - pose proof (set1_same capacity root cid (Some root) s (not_eq_sym Hne)) as Fr.
      assert (G1 : gone_or_pinned (fst (set capacity 0 SRemove (Some root) [cid] s)) c).
      { destruct (list_eq_dec N.eq_dec cid c) as [->|Hc].
        - apply set1_orphan. now right.
        - destruct HG as [G|[E _]]; [|contradiction].
          exact (same_G c _ _ (set1_same capacity c cid (Some root) s (not_eq_sym Hc)) G). }
      destruct (set capacity 0 SRemove (Some root) [cid] s) as [s' o]. cbn [fst] in *.
      assert (Hr' : data_has s' root = true) by (rewrite (same_data_has root s s' Fr); exact Hr).
      destruct o as [r t|r|r|r|r|r t|f|c0 d| |]; cbn [fst]; try (split; assumption).
      destruct r as [[]|]; cbn [fst]; try (split; assumption); apply IH; auto.
  Qed.

  (** the loop over the pyramid list *)
  Lemma remove_all_G root c : c <> root -> forall l s s',
    remove_all capacity root l s = (s', None) -> data_has s root = true ->
    (gone_or_pinned s c \/ exists n, In (c, n) l /\ 0 < n) ->
    gone_or_pinned s' c /\ data_has s' root = true.
  Proof.
    intros Hcr. induction l as [|[cid num] l IH]; intros s s' H Hr HG; cbn [remove_all] in H.
    - inversion H; subst. split; [|exact Hr]. destruct HG as [G|[n [[] _]]]. exact G.
    - destruct (bytes_eqb cid root) eqn:Eb.
      + apply (IH s s' H Hr). destruct HG as [G|[n [[E|Hin] L]]]; [now left | | right; now exists n].
        inversion E; subst. apply bytes_eqb_eq in Eb. contradiction.
      + assert (Hne : cid <> root) by (intros ->; now rewrite bytes_eqb_refl in Eb).
        assert (HG' : gone_or_pinned s c \/ (cid = c /\ (0 < N.to_nat num)%nat) \/ exists n, In (c, n) l /\ 0 < n).
        { destruct HG as [G|[n [[E|Hin] L]]]; [now left | right; left | right; right; now exists n].
          inversion E; subst. split; [reflexivity | lia]. }
        destruct (remove_n capacity root (N.to_nat num) cid s) as [s1 [e|]] eqn:En; [discriminate|].
        destruct HG' as [G|[[E L]|Hex]].
        * destruct (remove_n_G root c cid (N.to_nat num) s Hr Hne (or_introl G)) as [G1 R1]. rewrite En in G1, R1.
          apply (IH s1 s' H R1). now left.
        * destruct (remove_n_G root c cid (N.to_nat num) s Hr Hne (or_intror (conj E L))) as [G1 R1]. rewrite En in G1, R1.
          apply (IH s1 s' H R1). now left.
        * assert (R1 : data_has s1 root = true).
          { pose proof (remove_n_same capacity root root cid (N.to_nat num) (not_eq_sym Hne) s) as F. rewrite En in F.
            rewrite (same_data_has root s s1 F). exact Hr. }
          apply (IH s1 s' H R1). now right.
  Qed.

  (** every entry of getUnRepeatChunk has a positive number *)
  Lemma count_addr_pos a l : In a l -> 0 < count_addr a l.
  Proof.
    induction l as [|x l IH]; simpl; [contradiction|].
    intros [->|H]; [rewrite bytes_eqb_refl; lia | specialize (IH H); destruct (bytes_eqb a x); lia].
  Qed.
  Lemma unrepeat_pos c sh a n : In (a, n) (unrepeat c sh) -> 0 < n.
  Proof.
    unfold unrepeat. rewrite in_app_iff. intros [H|H].
    - apply filter_In in H as [H _]. unfold cids in H. apply in_map_iff in H as [y [E Hy]]. inversion E; subst.
      apply count_addr_pos. now apply In_dedup.
    - apply in_map_iff in H as [y [E _]]. inversion E; subst. lia.
  Qed.
  Lemma unrepeat_has c sh a : In a (cidset sh) -> cnt c a <= 1 -> exists n, In (a, n) (unrepeat c sh).
  Proof.
    unfold cidset, unrepeat. rewrite in_app_iff. intros [H|H] Hle.
    - exists (count_addr a (f_leaves sh)). apply in_app_iff. left. apply filter_In. split.
      + unfold cids. apply in_map_iff. now exists a.
      + simpl. now apply N.leb_le.
    - exists 1. apply in_app_iff. right. apply in_map_iff. exists a. split; [reflexivity|].
      apply filter_In. split; [exact H | now apply N.leb_le].
  Qed.

  Lemma nodupb_NoDup l : nodupb l = true -> NoDup l.
  Proof.
    induction l as [|a l IH]; simpl; intros H; constructor; apply andb_true_iff in H as [H1 H2].
    - apply negb_true_iff in H1. now apply mem_addr_false.
    - auto.
  Qed.

  Lemma pick_spec a l cn : pick a l = Some cn -> fst cn = a /\ In cn l.
  Proof.
    induction l as [|[c n] l IH]; simpl; [discriminate|].
    destruct (bytes_eqb a c) eqn:E; intros H.
    - inversion H; subst. apply bytes_eqb_eq in E. split; [now simpl | now left].
    - destruct (IH H) as [A B]. split; [exact A | now right].
  Qed.
  Lemma reorder_has order : forall l l' a, reorder order l = Some l' -> In a order -> exists n, In (a, n) l' /\ In (a, n) l.
  Proof.
    induction order as [|x t IH]; intros l l' a H Ha; simpl in *; [contradiction|].
    destruct (pick x l) as [[c n]|] eqn:Ep; [|discriminate].
    destruct (reorder t l) as [r|] eqn:Er; [|discriminate]. inversion H; subst.
    destruct Ha as [->|Ha].
    - apply pick_spec in Ep as [E1 E2]. simpl in E1. subst c. exists n. split; [now left | exact E2].
    - destruct (IH l r a Er Ha) as [n' [A B]]. exists n'. split; [now right | exact B].
  Qed.

  Lemma all_root_le_one (l : list addr) root : NoDup l -> (forall r, In r l -> r = root) -> (length l <= 1)%nat.
  Proof.
    intros Hd Hall. destruct l as [|x [|y l]]; simpl; try lia.
    exfalso. inversion Hd as [|? ? Hn _]; subst. apply Hn.
    rewrite (Hall x (or_introl eq_refl)), <- (Hall y (or_intror (or_introl eq_refl))). now left.
  Qed.

  Lemma nfiles_le_one roots root a : NoDup roots ->
    (forall r, In r roots -> in_fileb cat r a = true -> r = root) -> nfiles cat roots a <= 1.
  Proof.
    intros Hd Hall. unfold nfiles.
    assert (L : (length (filter (fun r => in_fileb cat r a) roots) <= 1)%nat).
    { apply (all_root_le_one _ root); [now apply NoDup_filter|].
      intros r Hr. apply filter_In in Hr as [H1 H2]. now apply Hall. }
    lia.
  Qed.

  (** the theorem *)
  Lemma delete_no_orphan (x : sys) root order sh a :
    RC cat (ci x) -> trav cat (ls x) root = Some sh ->
    snd (gstep cat po capacity x (GDelete root order)) = GDel true ->
    In a (cidset sh) ->
    (forall r, registered (ci x) r = true -> r <> root -> in_fileb cat r a = false) ->
    gone_or_pinned (ls (delete_run cat po capacity root order x)) a.
  Proof.
    intros Hrc Et Hok Hin Honly. unfold delete_run. cbn [gstep] in *. unfold api_delete in *. rewrite Et in *.
    pose proof (trav_cat cat _ _ _ Et) as Ec.
    set (c0 := register_ci (ci x) root sh) in *.
    assert (Hrc0 : RC cat c0) by now apply RC_register_ci.
    assert (Hroot : data_has (ls x) root = true).
    { unfold trav in Et. destruct (cat_get cat root); [|discriminate].
      destruct (data_has (ls x) root); [reflexivity | simpl in Et; discriminate]. }
    assert (Hcnt : cnt c0 a <= 1).
    { destruct Hrc0 as [Hd Hc]. rewrite Hc. unfold refs. apply (nfiles_le_one _ root); [exact Hd|].
      intros r Hr Hp. apply registered_In in Hr.
      destruct (list_eq_dec N.eq_dec r root) as [->|Hn]; [reflexivity|]. exfalso.
      unfold c0 in Hr. rewrite registered_register_other in Hr by exact Hn.
      rewrite (Honly r Hr Hn) in Hp. discriminate. }
    destruct (order_ok root order (unrepeat c0 sh)) eqn:Eo; cbn [negb snd] in *; [|discriminate].
    destruct (reorder order (unrepeat c0 sh)) as [l'|] eqn:Er; cbn [snd] in *; [|discriminate].
    destruct (remove_all capacity root l' (ls x)) as [s1 [e|]] eqn:Ea; cbn [snd] in *; [discriminate|].
    destruct (unrepeat_has c0 sh a Hin Hcnt) as [n Hn].
    destruct (list_eq_dec N.eq_dec a root) as [->|Hne].
    - (* the root itself: listed, hence removed by the last call *)
      assert (Em : mem_addr root (map fst (unrepeat c0 sh)) = true).
      { apply mem_addr_In. apply in_map_iff. now exists (root, n). }
      rewrite Em in *.
      pose proof (set1_orphan root root s1 (or_introl eq_refl)) as G.
      destruct (set capacity 0 SRemove (Some root) [root] s1) as [s2 o2]. cbn [fst] in G.
      destruct o2 as [r t|r|r|r|r|r t|f|c1 d| |]; cbn [snd fst ls] in *; try discriminate.
      destruct r as [[]|]; cbn [snd fst ls] in *; try discriminate; exact G.
    - assert (Hl' : exists n, In (a, n) l' /\ 0 < n).
      { apply andb_true_iff in Eo as [Eo E3]. apply andb_true_iff in Eo as [E1 E2].
        apply Nat.eqb_eq in E1. apply nodupb_NoDup in E2.
        set (want := filter (fun a0 => negb (bytes_eqb a0 root)) (map fst (unrepeat c0 sh))) in *.
        assert (Hw : In a want).
        { apply filter_In. split; [apply in_map_iff; now exists (a, n) | now rewrite bytes_eqb_neq]. }
        assert (Hincl : incl order want).
        { intros y Hy. rewrite forallb_forall in E3. apply mem_addr_In. now apply E3. }
        assert (Ho : In a order) by (apply (NoDup_length_incl E2 (l' := want)); [apply Nat.eq_le_incl; symmetry; exact E1 | exact Hincl | exact Hw]).
        destruct (reorder_has order _ l' a Er Ho) as [n' [A B]]. exists n'. split; [exact A | now apply (unrepeat_pos c0 sh a)]. }
      destruct (remove_all_G root a Hne l' (ls x) s1 Ea Hroot (or_intror Hl')) as [G R].
      destruct (mem_addr root (map fst (unrepeat c0 sh))); cbn [snd fst ls] in *; [|exact G].
      pose proof (set1_same capacity a root (Some root) s1 Hne) as F.
      destruct (set capacity 0 SRemove (Some root) [root] s1) as [s2 o2]. cbn [fst] in F.
      assert (G2 : gone_or_pinned s2 a) by exact (same_G a s1 s2 F G).
      destruct o2 as [r t|r|r|r|r|r t|f|c1 d| |]; cbn [snd fst ls] in *; try discriminate.
      destruct r as [[]|]; cbn [snd fst ls] in *; try discriminate; exact G2.
  Qed.

  Lemma delete_no_orphan_thm (h : list gop) root order sh a :
    let x := gexec cat po capacity sys_init h in
    trav cat (ls x) root = Some sh ->
    snd (gstep cat po capacity x (GDelete root order)) = GDel true ->
    In a (cidset sh) ->
    (forall r, registered (ci x) r = true -> r <> root -> in_fileb cat r a = false) ->
    data_get (ls (delete_run cat po capacity root order x)) a = None \/
    pin_get (ls (delete_run cat po capacity root order x)) a <> None.
  Proof.
    intros x Et Hok Hin Honly.
    exact (delete_no_orphan x root order sh a (RC_history cat po capacity h sys_init (RC_init cat)) Et Hok Hin Honly).
  Qed.
End Orphan.

(** ** "others stay readable": the refutation that remains (eviction), and the two DELETE
    witnesses of the unrepaired code, now harmless *)
Lemma others_readable_refuted :
  exists cat po cap h rb ctx,
     let x := gexec cat po cap sys_init h in
     s_gcrun (ls x) = Some ctx /\ ~ In rb (cand_roots (g_cands ctx)) /\
     registered (ci x) rb = true /\ readable cat (ls x) rb = true /\
     readable cat (ls (gc_run cat po cap x)) rb = false.
Proof.
  exists cat0, po0, 1, w_gc_root, rN. eexists. vm_compute.
  repeat split; try reflexivity; try discriminate.
  intros [H|[]]. discriminate.
Qed.

Lemma delete_witnesses_repaired :
  (let x := gexec cat0 po0 100 sys_init w_del_unreg in
   snd (gstep cat0 po0 100 x (GDelete rB [])) = GDel true /\
   readable cat0 (ls (delete_run cat0 po0 100 rB [] x)) rM = true /\
   ci (delete_run cat0 po0 100 rB [] x) = ci x) /\
  (let x := gexec cat0 po0 100 sys_init w_del_root in
   snd (gstep cat0 po0 100 x (GDelete rB [])) = GDel true /\
   readable cat0 (ls (delete_run cat0 po0 100 rB [] x)) rM = true /\
   registered (ci (delete_run cat0 po0 100 rB [] x)) rB = false).
Proof. vm_compute. repeat split; reflexivity. Qed.
