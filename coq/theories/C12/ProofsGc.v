(** C12 / C16 — what a collection run ([gc_end_ci]: the eviction phase of
    collectGarbage with the real chunkinfo) can touch. *)
From Coq Require Import List NArith ZArith Bool Lia.
Import ListNotations.
Require Import Aurora.C11.Model Aurora.C11.Maps Aurora.C12.Model Aurora.C12.ProofsCi Aurora.C12.ProofsFrame.
Local Open Scope N_scope.

Definition cand_roots (cands : list (gckey * N)) : list addr := map (fun kc => snd (fst kc)) cands.

Section Gc.
  Variable cat : catalogue.

  Lemma trav_data s s' r : s_data s' = s_data s -> trav cat s' r = trav cat s r.
  Proof. intros H. unfold trav, data_has. now rewrite H. Qed.

  (** the loop over the candidates, for an invariant [P] of the chunkinfo
      tables and the candidates still to come that keeps [a] out of every
      pyramid list the loop hands to [gc_chunks] *)
  Section Loop.
    Variable a : addr.
    Variable s0 : state.                                     (* store at the start of the loop *)
    Variable P : cistate -> list (gckey * N) -> Prop.
    Hypothesis P_none : forall c k g rest, P c ((k, g) :: rest) -> trav cat s0 (snd k) = None -> P c rest.
    Hypothesis P_dirty : forall c k g rest sh, P c ((k, g) :: rest) ->
      trav cat s0 (snd k) = Some sh -> mem_addr (snd k) (s_dirty s0) = true -> P (register_ci c (snd k) sh) rest.
    Hypothesis P_evict : forall c k g rest sh, P c ((k, g) :: rest) ->
      trav cat s0 (snd k) = Some sh -> mem_addr (snd k) (s_dirty s0) = false ->
      ~ In a (map fst (unrepeat (register_ci c (snd k) sh) sh)) /\
      P (del_root_cid (register_ci c (snd k) sh) (snd k) sh) rest.

    Lemma evict_loop cands : forall s c b n recycled s1 c1 b1 n1 rec1,
      gc_evict_ci cat s c b n cands recycled = (s1, c1, b1, n1, rec1) ->
      s_data s = s_data s0 -> s_dirty s = s_dirty s0 -> P c cands ->
      s_data s1 = s_data s0 /\ pin_get s1 a = pin_get s a /\
      (exists nb, b1 = b ++ nb /\ forallb (wkeeps a) nb = true) /\
      P c1 [] /\
      (forall kc, In kc rec1 -> In kc recycled \/ In kc cands).
    Proof.
      induction cands as [|[k g] rest IH]; intros s c b n recycled s1 c1 b1 n1 rec1 H Hd Hy HP; simpl in H.
      - inversion H; subst. repeat split; auto. exists []. now rewrite app_nil_r.
      - assert (Et : trav cat s (snd k) = trav cat s0 (snd k)) by now apply trav_data.
        assert (W : forall c', P c' rest -> forall s1' c1' b1' n1' rec1',
                   gc_evict_ci cat s c' b n rest recycled = (s1', c1', b1', n1', rec1') ->
                   s_data s1' = s_data s0 /\ pin_get s1' a = pin_get s a /\
                   (exists nb, b1' = b ++ nb /\ forallb (wkeeps a) nb = true) /\ P c1' [] /\
                   (forall kc, In kc rec1' -> In kc recycled \/ In kc ((k, g) :: rest))).
        { intros c' HP' s1' c1' b1' n1' rec1' H'. apply IH in H' as (A1 & A2 & A3 & A4 & A5); auto.
          repeat split; auto. intros kc Hk. destruct (A5 kc Hk); [now left | right; now right]. }
        rewrite Et in H.
        destruct (trav cat s0 (snd k)) as [sh|] eqn:E; [|exact (W c (P_none c k g rest HP E) _ _ _ _ _ H)].
        rewrite Hy in H. destruct (mem_addr (snd k) (s_dirty s0)) eqn:Edirty;
          [exact (W _ (P_dirty c k g rest sh HP E Edirty) _ _ _ _ _ H)|].
        destruct (P_evict c k g rest sh HP E Edirty) as [Hnot HP'].
        destruct (gc_chunks s b 0 (unrepeat (register_ci c (snd k) sh) sh)) as [[s' b'] m] eqn:Eg.
        apply gc_chunks_frame in Eg as (D & Y & _ & _ & F).
        destruct (F a Hnot) as [Fp [nb [Fb Fk]]].
        apply IH in H as (A1 & A2 & [nb2 [A3 A3']] & A4 & A5); [|congruence|congruence|exact HP'].
        split; [exact A1|]. split; [congruence|]. split.
        + exists (nb ++ nb2). split; [now rewrite A3, Fb, app_assoc|]. now rewrite forallb_app, Fk, A3'.
        + split; [exact A4|]. intros kc Hk. destruct (A5 kc Hk) as [Hr|Hr]; [|right; now right].
          apply in_app_iff in Hr as [Hr|[<-|[]]]; [now left | right; now left].
    Qed.
  End Loop.

  (** the whole second phase *)
  Lemma gc_end_keeps (a : addr) (P : cistate -> list (gckey * N) -> Prop) x x' o ctx :
    (forall c k g rest, P c ((k, g) :: rest) -> trav cat (ls x) (snd k) = None -> P c rest) ->
    (forall c k g rest sh, P c ((k, g) :: rest) ->
       trav cat (ls x) (snd k) = Some sh -> mem_addr (snd k) (s_dirty (ls x)) = true -> P (register_ci c (snd k) sh) rest) ->
    (forall c k g rest sh, P c ((k, g) :: rest) ->
       trav cat (ls x) (snd k) = Some sh -> mem_addr (snd k) (s_dirty (ls x)) = false ->
       ~ In a (map fst (unrepeat (register_ci c (snd k) sh) sh)) /\
       P (del_root_cid (register_ci c (snd k) sh) (snd k) sh) rest) ->
    gc_end_ci cat x = (x', o) -> s_gcrun (ls x) = Some ctx ->
    P (ci x) (g_cands ctx) -> ~ In a (cand_roots (g_cands ctx)) ->
    data_get (ls x') a = data_get (ls x) a /\ pin_get (ls x') a = pin_get (ls x) a /\ P (ci x') [].
  Proof.
    intros Pnone Pdirty Pev H Hrun HP Hroot. unfold gc_end_ci in H. rewrite Hrun in H.
    destruct (gc_evict_ci cat (ls x) (ci x) [] 0 (g_cands ctx) []) as [[[[s1 c1] b1] n] recycled] eqn:E.
    apply (evict_loop a (ls x) P Pnone Pdirty Pev) in E as (A1 & A2 & [nb [A3 A3']] & A4 & A5); auto.
    inversion H; subst x' o; clear H. cbn [ls ci]. simpl in A3. subst b1.
    assert (K : forallb (wkeeps a)
              ((nb ++ flat_map (fun kc : gckey * N => [WDataDel (snd (fst kc)); WAccessDel (snd (fst kc)); WGcDel (fst kc)]) recycled)
               ++ [WGcSize (if (match recycled with [] => s_gcsize s1 | _ :: _ => wadd n (N.of_nat (length recycled)) end) <=? s_gcsize s1
                            then s_gcsize s1 - (match recycled with [] => s_gcsize s1 | _ :: _ => wadd n (N.of_nat (length recycled)) end) else 0)]) = true).
    { rewrite !forallb_app, A3'. simpl. rewrite andb_true_r.
      assert (R : forall kc, In kc recycled -> snd (fst kc) <> a).
      { intros kc Hk Heq. destruct (A5 kc Hk) as [[]|Hc]. apply Hroot. unfold cand_roots. apply in_map_iff. now exists kc. }
      clear -R. induction recycled as [|kc l IH]; simpl; [reflexivity|].
      rewrite IH by (intros kc' Hk'; apply R; now right).
      rewrite bytes_eqb_neq; [reflexivity|]. intros ->. now apply (R kc (or_introl eq_refl)). }
    destruct (commit_keeps a _ s1 K) as [C1 C2].
    split; [|split; [|exact A4]].
    - unfold data_get. simpl. etransitivity; [exact C1|]. unfold data_get. now rewrite A1.
    - unfold pin_get. simpl. etransitivity; [exact C2|]. exact A2.
  Qed.

  (** *** instance 1: the frame — chunks outside the candidate files are not touched *)
  Definition outside (a : addr) (c : cistate) (cands : list (gckey * N)) : Prop :=
    forall r sh, In r (cand_roots cands) -> cat_get cat r = Some sh -> ~ In a (cidset sh).

  Lemma gc_end_frame a x x' o ctx :
    gc_end_ci cat x = (x', o) -> s_gcrun (ls x) = Some ctx ->
    outside a (ci x) (g_cands ctx) -> ~ In a (cand_roots (g_cands ctx)) ->
    data_get (ls x') a = data_get (ls x) a /\ pin_get (ls x') a = pin_get (ls x) a.
  Proof.
    intros H Hrun Hout Hroot.
    destruct (gc_end_keeps a (outside a) x x' o ctx) as (A & B & _); auto.
    - intros c k g rest HP _ r sh Hr. apply HP. now right.
    - intros c k g rest sh HP _ _ r sh' Hr. apply HP. now right.
    - intros c k g rest sh HP Et _. split.
      + intros Hin. apply in_map_iff in Hin as [[a' n] [E Hin]]. simpl in E. subst a'.
        apply In_unrepeat in Hin as [Hin _]. apply trav_cat in Et. exact (HP (snd k) sh (or_introl eq_refl) Et Hin).
      + intros r sh' Hr. apply HP. now right.
  Qed.

  (** *** instance 2: the protection by the reference counts *)
  Definition protected (rb : addr) (c : cistate) (cands : list (gckey * N)) : Prop :=
    RC cat c /\ registered c rb = true /\ ~ In rb (cand_roots cands).

  Lemma gc_end_protects a rb shb x x' o ctx :
    gc_end_ci cat x = (x', o) -> s_gcrun (ls x) = Some ctx ->
    RC cat (ci x) ->
    registered (ci x) rb = true -> cat_get cat rb = Some shb -> ~ In rb (cand_roots (g_cands ctx)) ->
    In a (cidset shb) -> ~ In a (cand_roots (g_cands ctx)) ->
    data_get (ls x') a = data_get (ls x) a /\ pin_get (ls x') a = pin_get (ls x) a /\
    RC cat (ci x') /\ registered (ci x') rb = true.
  Proof.
    intros H Hrun Hrc Hreg Hcat Hnc Hin Hroot.
    destruct (gc_end_keeps a (protected rb) x x' o ctx) as (A & B & (C1 & C2 & _)); auto.
    - intros c k g rest (P1 & P2 & P4) _. split; [exact P1|]. split; [exact P2|].
      intros Hr. apply P4. now right.
    - intros c k g rest sh (P1 & P2 & P4) Et _. pose proof (trav_cat cat _ _ _ Et) as Ec.
      split; [now apply RC_register_ci|]. split; [now apply registered_register_mono|].
      intros Hr. apply P4. now right.
    - intros c k g rest sh (P1 & P2 & P4) Et Ed.
      assert (Hne : snd k <> rb) by (intros E; apply P4; left; exact E).
      pose proof (trav_cat cat _ _ _ Et) as Ec.
      assert (R0 : RC cat (register_ci c (snd k) sh)) by now apply RC_register_ci.
      assert (R1 : registered (register_ci c (snd k) sh) (snd k) = true) by apply registered_register_same.
      assert (R2 : registered (register_ci c (snd k) sh) rb = true) by now apply registered_register_mono.
      split.
      + intros Hi. apply in_map_iff in Hi as [[a' n] [E Hi]]. simpl in E. subst a'.
        exact (unrepeat_protects cat _ (snd k) rb sh shb a n R0 Hne R1 R2 Ec Hcat Hin Hi).
      + split; [|split].
        * now apply (RC_del_root cat).
        * rewrite registered_del_other; [exact R2 | intros E; now apply Hne].
        * intros Hr. apply P4. now right.
    - split; [exact Hrc|]. split; [exact Hreg | exact Hnc].
  Qed.
End Gc.
