(** C12 — the dirty bookkeeping of a collection run: every localstore call keeps
    [gcRunning] and only adds to [dirtyAddresses]; a call that names an address
    (Set of it, Get of it or under its file context) adds it while a run is on. *)
From Coq Require Import List NArith ZArith Bool Lia.
Import ListNotations.
Require Import Aurora.C11.Model Aurora.C11.Maps Aurora.C12.Model Aurora.C12.ProofsCi Aurora.C12.ProofsFrame.
Local Open Scope N_scope.

(** the two in-memory fields *)
Definition dg (s : state) := (s_dirty s, s_gcrun s).

Lemma apply_dg s w : dg (apply_write s w) = dg s.
Proof. destruct w; reflexivity. Qed.
Lemma commit_dg b : forall s, dg (commit s b) = dg s.
Proof. induction b as [|w b IH]; intros s; simpl; [reflexivity|]. unfold commit in *. simpl. now rewrite IH, apply_dg. Qed.

Definition res_dg {A} (r : res A) (d : list addr * option gcctx) : Prop :=
  match r with Ok _ s' _ => dg s' = d | Fail _ s' => dg s' = d end.

Ltac brk := repeat match goal with
  | |- context [match ?x with _ => _ end] => destruct x eqn:?
  | |- context [if ?x then _ else _] => destruct x eqn:?
  end; simpl; auto using apply_dg.

Lemma set_pin_item_dg s b a root rbin : res_dg (set_pin_item s b a root rbin) (dg s).
Proof. unfold set_pin_item. brk. Qed.
Lemma set_gc_root_dg t s b root rbin : res_dg (set_gc_root t s b root rbin) (dg s).
Proof. unfold set_gc_root. brk. Qed.
Lemma set_sync_dg t s b a : res_dg (set_sync t s b a) (dg s).
Proof. unfold set_sync. brk. Qed.
Lemma set_remove_dg s b a root : res_dg (set_remove s b a root) (dg s).
Proof. unfold set_remove. brk. Qed.
Lemma set_unpin_dg t s b a root : res_dg (set_unpin t s b a root) (dg s).
Proof. unfold set_unpin. brk. Qed.

Lemma set_one_dg t m root s b a : res_dg (set_one t m root s b a) (dg s).
Proof.
  destruct m; simpl; auto using set_sync_dg, set_remove_dg, set_unpin_dg.
  destruct (data_has s a); simpl; auto using set_pin_item_dg.
Qed.

Lemma set_loop_dg t m root addrs : forall s b ch, res_dg (set_loop t m root s b ch addrs) (dg s).
Proof.
  induction addrs as [|a l IH]; intros s b ch; simpl; [reflexivity|].
  pose proof (set_one_dg t m root s b a) as H.
  destruct (set_one t m root s b a) as [c s' b'|e s']; simpl in *; [|exact H].
  rewrite <- H. apply IH.
Qed.

Section WithCap.
  Variable po : addr -> N.
  Variable capacity : N.

  Lemma finish_dg s b ch : dg (fst (finish capacity s b ch)) = dg s.
  Proof. unfold finish. brk; apply commit_dg. Qed.

  Lemma set_dg t m root addrs s : dg (fst (set capacity t m root addrs s)) = dg (mark_dirty s addrs).
  Proof.
    unfold set. destruct m; simpl; try reflexivity;
      match goal with |- context [set_loop ?t ?m ?r ?s1 ?b ?c ?l] =>
        pose proof (set_loop_dg t m r l s1 b c) as H; destruct (set_loop t m r s1 b c l) as [ch s' b'|e s'] end;
      simpl in *; try exact H;
      pose proof (finish_dg s' b' ch) as F; destruct (finish capacity s' b' ch); simpl in *; congruence.
  Qed.

  Lemma put_one_dg t m root s b acc c : res_dg (put_one po t m root s b acc c) (dg s).
  Proof.
    unfold put_one. destruct c as [a d].
    destruct (mem_addr a (pa_seen acc)); [reflexivity|].
    destruct (inc_bin_id s (pa_bins acc) (po a)) as [id bins'] eqn:Ei.
    destruct m; simpl; try reflexivity.
    - destruct (data_has s a); simpl; [reflexivity|].
      pose proof (set_gc_root_dg t s (b ++ [WData a {| d_bin := id; d_ts := t; d_data := d |}]) root (if bytes_eqb a (root_bytes root) then id else 0)) as H.
      destruct (set_gc_root _ _ _ _ _); exact H.
    - destruct (data_has s a); reflexivity.
    - destruct (data_has s a); simpl.
      + pose proof (set_pin_item_dg s b a root 0) as H. destruct (set_pin_item s b a root 0); exact H.
      + pose proof (set_pin_item_dg s (b ++ [WData a {| d_bin := id; d_ts := t; d_data := d |}]) a root 0) as H.
        destruct (set_pin_item _ _ _ _ _); exact H.
    - destruct (data_has s a); simpl; [reflexivity|].
      pose proof (set_pin_item_dg s (b ++ [WData a {| d_bin := id; d_ts := t; d_data := d |}]) a root (if bytes_eqb a (root_bytes root) then id else 0)) as H.
      destruct (set_pin_item _ _ _ _ _); exact H.
  Qed.

  Lemma put_loop_dg t m root chs : forall s b acc, res_dg (put_loop po t m root s b acc chs) (dg s).
  Proof.
    induction chs as [|c l IH]; intros s b acc; simpl; [reflexivity|].
    pose proof (put_one_dg t m root s b acc c) as H.
    destruct (put_one po t m root s b acc c) as [acc' s' b'|e s']; simpl in *; [|exact H].
    rewrite <- H. apply IH.
  Qed.

  Lemma put_dg t m root chs s :
    dg (fst (put po capacity t m root chs s)) = dg s \/ dg (fst (put po capacity t m root chs s)) = dg (mark_dirty s (map fst chs)).
  Proof.
    unfold put.
    destruct (match chs with [(a, _)] => negb (pin_mode m) && data_has s a | _ => false end); [now left|]. right.
    destruct m; simpl; try reflexivity;
      match goal with |- context [put_loop po ?t ?m ?r ?s1 ?b ?c ?l] =>
        pose proof (put_loop_dg t m r l s1 b c) as H; destruct (put_loop po t m r s1 b c l) as [acc s' b'|e s'] end;
      simpl in *; try exact H;
      match goal with |- context [finish capacity ?s ?b ?c] =>
        pose proof (finish_dg s b c) as F; destruct (finish capacity s b c) end; simpl in *; congruence.
  Qed.

  Lemma update_gc_dg t a bin0 s : dg (update_gc t a bin0 s) = dg (mark_dirty s [a]).
  Proof. unfold update_gc. brk; apply commit_dg. Qed.
End WithCap.

(** [mark_dirty] while a run is on *)
Lemma mark_dirty_running s l ctx : s_gcrun s = Some ctx ->
  s_dirty (mark_dirty s l) = s_dirty s ++ l /\ s_gcrun (mark_dirty s l) = Some ctx.
Proof. intros H. unfold mark_dirty. rewrite H. simpl. split; reflexivity. Qed.
Lemma mark_dirty_incl s l : incl (s_dirty s) (s_dirty (mark_dirty s l)) /\ s_gcrun (mark_dirty s l) = s_gcrun s.
Proof.
  unfold mark_dirty. destruct (s_gcrun s) eqn:E; simpl; split; auto using incl_refl, incl_appl.
Qed.
