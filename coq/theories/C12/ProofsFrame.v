(** C12 / C16 — frame lemmas of the localstore model: which chunks a batch, the
    pyramid loop of a collection run ([gc_chunks]) and one
    [Set(ModeSetRemove, c)] call can touch (stored bytes and pin counter). *)
From Coq Require Import List NArith ZArith Bool Lia.
Import ListNotations.
Require Import Aurora.C11.Model Aurora.C11.Maps Aurora.C12.Model Aurora.C12.ProofsCi.
Local Open Scope N_scope.

(** the write leaves the stored bytes and the pin counter of [a] alone *)
Definition wkeeps (a : addr) (w : write) : bool :=
  match w with
  | WData c _ | WDataDel c | WPin c _ | WPinDel c => negb (bytes_eqb a c)
  | _ => true
  end.

Lemma neqb_ne a c : negb (bytes_eqb a c) = true -> a <> c.
Proof. intros H ->. now rewrite bytes_eqb_refl in H. Qed.

Lemma apply_keeps a w s : wkeeps a w = true ->
  data_get (apply_write s w) a = data_get s a /\ pin_get (apply_write s w) a = pin_get s a.
Proof.
  destruct w; simpl; intros H; unfold data_get, pin_get; simpl; try (split; reflexivity);
    apply neqb_ne in H; split; try reflexivity.
  - now apply (alookup_ainsert_other cmp_bytes cmp_bytes_eq).
  - now apply (alookup_aremove_other cmp_bytes cmp_bytes_eq).
  - now apply (alookup_ainsert_other cmp_bytes cmp_bytes_eq).
  - now apply (alookup_aremove_other cmp_bytes cmp_bytes_eq).
Qed.

Lemma commit_keeps a b : forall s, forallb (wkeeps a) b = true ->
  data_get (commit s b) a = data_get s a /\ pin_get (commit s b) a = pin_get s a.
Proof.
  induction b as [|w b IH]; intros s H; simpl in *; [split; reflexivity|].
  apply andb_true_iff in H as [H1 H2]. destruct (apply_keeps a w s H1) as [E1 E2].
  destruct (IH (apply_write s w) H2) as [F1 F2]. unfold commit in *. split; congruence.
Qed.

Lemma data_has_get s a : data_has s a = match data_get s a with Some _ => true | None => false end.
Proof. reflexivity. Qed.

(** fields a direct pin write does not change *)
Lemma apply_wpin_fields s c v :
  let s' := apply_write s (WPin c v) in
  s_data s' = s_data s /\ s_dirty s' = s_dirty s /\ s_gcrun s' = s_gcrun s /\ s_gcsize s' = s_gcsize s
  /\ s_access s' = s_access s /\ s_gc s' = s_gc s.
Proof. simpl. repeat split. Qed.

(** the loop over the pyramid inside the DelFile callback of a collection run *)
Lemma gc_chunks_frame l : forall s b n s' b' n',
  gc_chunks s b n l = (s', b', n') ->
  s_data s' = s_data s /\ s_dirty s' = s_dirty s /\ s_gcsize s' = s_gcsize s /\ s_gcrun s' = s_gcrun s /\
  forall a, ~ In a (map fst l) ->
    pin_get s' a = pin_get s a /\ exists nb, b' = b ++ nb /\ forallb (wkeeps a) nb = true.
Proof.
  induction l as [|[cid num] l IH]; intros s b n s' b' n' H; simpl in H.
  - inversion H; subst. (split; [auto | split; [auto | split; [auto | split; [auto|]]]]).
    intros a _. split; [reflexivity|]. exists []. now rewrite app_nil_r.
  - assert (K : forall a, ~ In a (map fst ((cid, num) :: l)) -> a <> cid /\ ~ In a (map fst l))
      by (simpl; intros a Ha; split; [intros -> | ]; tauto).
    assert (NE : forall a, a <> cid -> negb (bytes_eqb a cid) = true)
      by (intros a Ha; now rewrite bytes_eqb_neq).
    destruct (pin_get s cid) as [pc|] eqn:Ep.
    + destruct (num <? pc).
      * apply IH in H as (D & Y & Z & R & F). simpl in D, Y, Z, R. (split; [auto | split; [auto | split; [auto | split; [auto|]]]]).
        intros a Ha. apply K in Ha as [Hne Hn]. destruct (F a Hn) as [P Q]. split; [|exact Q].
        rewrite P. unfold pin_get; simpl. now apply (alookup_ainsert_other cmp_bytes cmp_bytes_eq).
      * destruct (data_has s cid); apply IH in H as (D & Y & Z & R & F); (split; [auto | split; [auto | split; [auto | split; [auto|]]]]);
          intros a Ha; apply K in Ha as [Hne Hn]; destruct (F a Hn) as [P [nb [Q1 Q2]]]; (split; [exact P|]).
        -- exists ([WPinDel cid] ++ [WDataDel cid] ++ nb). split; [now rewrite Q1, <- !app_assoc|].
           simpl. now rewrite (NE a Hne), Q2.
        -- exists ([WPinDel cid] ++ nb). split; [now rewrite Q1, <- !app_assoc|].
           simpl. now rewrite (NE a Hne), Q2.
    + destruct (data_has s cid); apply IH in H as (D & Y & Z & R & F); (split; [auto | split; [auto | split; [auto | split; [auto|]]]]);
        intros a Ha; apply K in Ha as [Hne Hn]; destruct (F a Hn) as [P [nb [Q1 Q2]]]; (split; [exact P|]).
      * exists ([WDataDel cid] ++ nb). split; [now rewrite Q1, <- !app_assoc|].
        simpl. now rewrite (NE a Hne), Q2.
      * exists nb. split; [exact Q1 | exact Q2].
Qed.

(** ** one [Set(ModeSetRemove, c)] call *)
Section SetRemove.
  Variable capacity : N.

  Lemma mark_dirty_get s l a : data_get (mark_dirty s l) a = data_get s a /\ pin_get (mark_dirty s l) a = pin_get s a.
  Proof. unfold mark_dirty. destruct (s_gcrun s); split; reflexivity. Qed.

  Lemma finish_keeps a s b ch : forallb (wkeeps a) b = true ->
    data_get (fst (finish capacity s b ch)) a = data_get s a /\ pin_get (fst (finish capacity s b ch)) a = pin_get s a.
  Proof.
    intros H. unfold finish.
    assert (H' : forall n, forallb (wkeeps a) (b ++ [WGcSize n]) = true)
      by (intros n; rewrite forallb_app, H; reflexivity).
    destruct (ch =? 0)%Z; simpl; [now apply commit_keeps|].
    destruct (0 <? ch)%Z; simpl; [now apply commit_keeps|].
    destruct (s_gcsize s <? Z.to_N (- ch)); simpl; now apply commit_keeps.
  Qed.

  Lemma set_remove_keeps a s b c root ch s' b' : a <> c ->
    set_remove s b c root = Ok ch s' b' -> s' = s /\ exists nb, b' = b ++ nb /\ forallb (wkeeps a) nb = true.
  Proof.
    intros Hne. assert (NE : negb (bytes_eqb a c) = true) by now rewrite bytes_eqb_neq.
    unfold set_remove.
    destruct (data_get s c); [|discriminate].
    assert (C : forall b1 nb1, b1 = b ++ nb1 -> forallb (wkeeps a) nb1 = true ->
      (let b2 := b1 ++ [WDataDel c; WAccessDel c] in
       let r := root_bytes root in
       match access_get s r with
       | None => Ok 0%Z s b2
       | Some rats =>
           match data_get s r with
           | None => Fail ENotFound s
           | Some re =>
               let k := (rats, d_bin re, r) in
               match gc_get s k with
               | None => Ok 0%Z s b2
               | Some c0 => if 1 <? c0 then Ok (-1)%Z s (b2 ++ [WGc k (c0 - 1)]) else Ok (-1)%Z s (b2 ++ [WAccessDel r; WGcDel k])
               end
           end
       end) = Ok ch s' b' -> s' = s /\ exists nb, b' = b ++ nb /\ forallb (wkeeps a) nb = true).
    { intros b1 nb1 -> Hk. cbv zeta.
      destruct (access_get s (root_bytes root)).
      - destruct (data_get s (root_bytes root)); [|discriminate].
        destruct (gc_get s _).
        + destruct (1 <? n0); intros H; inversion H; subst; (split; [reflexivity|]);
            eexists; (split; [rewrite <- !app_assoc; reflexivity|]); rewrite !forallb_app, Hk; simpl; now rewrite NE.
        + intros H; inversion H; subst. split; [reflexivity|].
          eexists; (split; [rewrite <- !app_assoc; reflexivity|]). rewrite !forallb_app, Hk; simpl; now rewrite NE.
      - intros H; inversion H; subst. split; [reflexivity|].
        eexists; (split; [rewrite <- !app_assoc; reflexivity|]). rewrite !forallb_app, Hk; simpl; now rewrite NE. }
    destruct (pin_get s c) as [pc|].
    - destruct (0 <? wsub pc 1).
      + intros H; inversion H; subst. split; [reflexivity|]. eexists; split; [reflexivity|]. simpl. now rewrite NE.
      + apply (C (b ++ [WPinDel c]) [WPinDel c] eq_refl). simpl. now rewrite NE.
    - apply (C b []); [now rewrite app_nil_r | reflexivity].
  Qed.

  (** stored bytes and pin counter of every other chunk survive the call, whatever it answers *)
  Lemma set_remove1_keeps a c root s : a <> c ->
    let s' := fst (set capacity 0 SRemove root [c] s) in
    data_get s' a = data_get s a /\ pin_get s' a = pin_get s a.
  Proof.
    intros Hne. unfold set. cbn [set_loop set_one].
    destruct (mark_dirty_get s [c] a) as [M1 M2].
    destruct (set_remove (mark_dirty s [c]) [] c root) as [ch s1 b1|e s1] eqn:E.
    - apply (set_remove_keeps a) in E as [-> [nb [-> Hk]]]; [|exact Hne]. simpl in Hk.
      destruct (finish_keeps a (mark_dirty s [c]) nb ch Hk) as [F1 F2]. simpl.
      destruct (finish capacity (mark_dirty s [c]) nb ch) as [s2 tr]. simpl in *. split; congruence.
    - unfold set_remove in E. simpl.
      assert (s1 = mark_dirty s [c]).
      { destruct (data_get (mark_dirty s [c]) c); [|now inversion E].
        destruct (pin_get (mark_dirty s [c]) c) as [pc|].
        - destruct (0 <? wsub pc 1); [discriminate|].
          destruct (access_get (mark_dirty s [c]) (root_bytes root)); [|discriminate].
          destruct (data_get (mark_dirty s [c]) (root_bytes root)); [|now inversion E].
          destruct (gc_get _ _); [destruct (1 <? _)|]; discriminate.
        - destruct (access_get (mark_dirty s [c]) (root_bytes root)); [|discriminate].
          destruct (data_get (mark_dirty s [c]) (root_bytes root)); [|now inversion E].
          destruct (gc_get _ _); [destruct (1 <? _)|]; discriminate. }
      subst s1. split; assumption.
  Qed.
End SetRemove.
