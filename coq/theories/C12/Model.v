(** C12 / C16 — executable model of the node-local storage side that garbage
    collection and file deletion run on:

      - pkg/localstore: the model [Aurora.C11.Model] (imported read-only);
      - pkg/chunkinfo/chunkpyramid.go: the pyramid tables of chunkinfo —
        [hashData] (registered roots) and the global reference counts [chunk];
        [updateChunkPyramid]/[initChunkPyramid]/[getChunkSize] (= [register]),
        [getPyramid] (= [cids]), [getPyramidHash] (= [hashes]),
        [getUnRepeatChunk] (= [unrepeat]), [delChunk], [delRootCid];
      - pkg/chunkinfo/chunkinfo.go: [DelFile] (pyramid side);
      - pkg/localstore/gc.go: [collectGarbage] with the REAL chunkinfo behind
        [db.discover] (= [gc_end_ci]; candidate selection is C11's [gc_begin]);
      - pkg/api/dirs.go: the delete closure of [auroraDeleteHandler] (= [api_delete]).

    TRAVERSAL.  chunkinfo recomputes a file's pyramid from the local store on
    every call ([traversal.GetPyramid], [traversal.GetChunkHashes]).  Chunks are
    content addressed, so what a traversal of [root] can return is fixed by
    [root]; that static description is the CATALOGUE: [root -> shape], where
    [f_leaves] is the list of data-chunk addresses in traversal order WITH
    repeats (GetChunkHashes, flattened) and [f_edges] the key set of the map
    GetPyramid returns (manifest nodes, file roots, intermediate chunks; may
    overlap the leaves: a one-chunk file's root is both).  Both traversals
    read the root and the edge chunks, and first probe the root for being a
    manifest by reading the whole content stored under it: for a manifest root
    that is the root chunk itself, for a bare (non-manifest) file reference it
    is every data chunk — [f_probe] lists those extra chunks.  Everything is
    read in mode ModeGetLookup (no effect on the store); a missing chunk makes
    the traversal fail with an error wrapping storage.ErrNotFound: [trav].  A root outside the catalogue stands for an address whose
    chunk is never stored.  Theorems quantify over every catalogue.

    REPAIRED CODE.  The model is of the code with proposed/C16/fix-delfile-unregistered-root.patch
    ([DelFile] registers a root the pyramid table does not know before the callback runs:
    [register_ci] inside [gc_evict_ci] and [api_delete]) and
    proposed/C16/fix-delete-shared-root.patch (the delete closure removes the root chunk only
    when getUnRepeatChunk listed it).

    Not modelled: the discover / neighbour / source tables and their state-store
    records (C17), the find queues ([IsDiscover]/[DelDiscover] answer false /
    do nothing without a pending discovery), the HTTP layer around the closure. *)
From Coq Require Import List NArith ZArith Bool.
Import ListNotations.
Require Import Aurora.C11.Model.
Local Open Scope N_scope.

(** ** catalogue *)
Record shape := { f_leaves : list addr; f_edges : list addr; f_probe : list addr }.
Definition catalogue := list (addr * shape).
Definition cat_get (cat : catalogue) (r : addr) : option shape := alookup cmp_bytes r cat.

(** first occurrences, in order (Go: insertion into a map keyed by the address) *)
Fixpoint dedup (l : list addr) : list addr :=
  match l with
  | [] => []
  | a :: t => a :: filter (fun x => negb (bytes_eqb x a)) (dedup t)
  end.
Fixpoint count_addr (a : addr) (l : list addr) : N :=
  match l with
  | [] => 0
  | x :: t => (if bytes_eqb a x then 1 else 0) + count_addr a t
  end.

(** [getPyramid]: cid -> number (the [sort] field is not used by GC / delete) *)
Definition cids (sh : shape) : list (addr * N) :=
  map (fun a => (a, count_addr a (f_leaves sh))) (dedup (f_leaves sh)).
(** [getPyramidHash]: the edge chunks that are not data chunks *)
Definition hashes (sh : shape) : list addr :=
  filter (fun e => negb (mem_addr e (f_leaves sh))) (dedup (f_edges sh)).
(** every chunk of the file, once *)
Definition cidset (sh : shape) : list addr := dedup (f_leaves sh) ++ hashes sh.

(** ** chunkinfo pyramid tables *)
Record cistate := { ci_hash : list (addr * (N * N)); ci_chunk : list (addr * N) }.
Definition ci_init : cistate := {| ci_hash := []; ci_chunk := [] |}.

Definition cnt_in (m : list (addr * N)) (a : addr) : N :=
  match alookup cmp_bytes a m with Some v => v | None => 0 end.
Definition cnt (c : cistate) (a : addr) : N := cnt_in (ci_chunk c) a.
Definition registered (c : cistate) (r : addr) : bool := ahas cmp_bytes r (ci_hash c).

(** [putChunk] (Go [uint] overflow needs 2^64 registrations: not written out) *)
Definition put_chunk (m : list (addr * N)) (a : addr) : list (addr * N) :=
  ainsert cmp_bytes a (cnt_in m a + 1) m.
(** [delChunk] *)
Definition del_chunk (m : list (addr * N)) (a : addr) : list (addr * N) :=
  let v := cnt_in m a in
  if 1 <? v then ainsert cmp_bytes a (v - 1) m else aremove cmp_bytes a m.

(** ** system state *)
Record sys := { ls : state; ci : cistate }.
Definition sys_init : sys := {| ls := init; ci := ci_init |}.

Section Sys.
  Variable cat : catalogue.
  Variable po : addr -> N.
  Variable capacity : N.

  (** GetPyramid / GetChunkHashes on the local store *)
  Definition trav (s : state) (root : addr) : option shape :=
    match cat_get cat root with
    | None => None
    | Some sh => if data_has s root && forallb (data_has s) (f_edges sh) && forallb (data_has s) (f_probe sh)
                 then Some sh else None
    end.

  (** [updateChunkPyramid] guarded by the hashData test of [initChunkPyramid] / [getChunkSize],
      for a root whose pyramid [sh] has been read *)
  Definition register_ci (c : cistate) (root : addr) (sh : shape) : cistate :=
    if registered c root then c
    else
      let m1 := fold_left put_chunk (dedup (f_leaves sh)) (ci_chunk c) in
      let m2 := fold_left put_chunk (hashes sh) m1 in
      {| ci_hash := ainsert cmp_bytes root
                      (N.of_nat (length (hashes sh)), N.of_nat (length (dedup (f_leaves sh))))
                      (ci_hash c);
         ci_chunk := m2 |}.

  (** [getChunkSize] / [initChunkPyramid]: nothing when the root is in hashData or the
      pyramid cannot be read locally *)
  Definition register (s : sys) (root : addr) : sys :=
    match trav (ls s) root with
    | None => s
    | Some sh => {| ls := ls s; ci := register_ci (ci s) root sh |}
    end.

  (** [getUnRepeatChunk]: the chunks of the file whose reference count is <= 1,
      data chunks with their multiplicity, the other edge chunks with 1.
      (Go iterates two maps: the order is arbitrary; here data chunks in
      traversal order, then edges in catalogue order.) *)
  Definition unrepeat (c : cistate) (sh : shape) : list (addr * N) :=
    filter (fun cn => cnt c (fst cn) <=? 1) (cids sh)
    ++ map (fun e => (e, 1)) (filter (fun e => cnt c e <=? 1) (hashes sh)).

  (** [delRootCid(rootCid, pyramid, hashs)] *)
  Definition del_root_cid (c : cistate) (root : addr) (sh : shape) : cistate :=
    {| ci_hash := aremove cmp_bytes root (ci_hash c);
       ci_chunk := fold_left del_chunk (hashes sh ++ dedup (f_leaves sh)) (ci_chunk c) |}.

  (** *** pkg/localstore/gc.go with chunkinfo behind db.discover *)

  (** the loop over the candidates: [DelFile(addr, callback)].  DelFile reads the pyramid,
      registers the root if the table does not know it (repaired code), then runs the
      callback, which gives up on a dirty root (the registration stays).  Traversal and
      the callback read the COMMITTED store: deletions sit in the batch, the
      pin decrements are direct writes.  C11's [gc_chunks] is the loop over the
      pyramid inside the callback. *)
  Fixpoint gc_evict_ci (s : state) (c : cistate) (b : list write) (n : N)
           (cands recycled : list (gckey * N)) : state * cistate * list write * N * list (gckey * N) :=
    match cands with
    | [] => (s, c, b, n, recycled)
    | (k, g) :: rest =>
        let a := snd k in
        match trav s a with
        | None => gc_evict_ci s c b n rest recycled                       (* getPyramid: storage.ErrNotFound *)
        | Some sh =>
            let c0 := register_ci c a sh in
            if mem_addr a (s_dirty s) then gc_evict_ci s c0 b n rest recycled   (* dirtyGarbageNoHandle *)
            else
              let '(s', b', m) := gc_chunks s b 0 (unrepeat c0 sh) in
              gc_evict_ci s' (del_root_cid c0 a sh) b' (wadd n m) rest (recycled ++ [(k, g)])
        end
    end.

  Inductive gobs :=
  | GO (o : obs)                (* a localstore call *)
  | GDone                       (* register: nothing observable *)
  | GDel (ok : bool)            (* delete handler: 200 / 500 *)
  | GBad.                       (* operation not enabled here (never generated) *)

  (** second phase of [collectGarbage] (after [testHookGCIteratorDone]) *)
  Definition gc_end_ci (x : sys) : sys * gobs :=
    match s_gcrun (ls x) with
    | None => (x, GBad)
    | Some ctx =>
        let '(s1, c1, b1, n, recycled) := gc_evict_ci (ls x) (ci x) [] 0 (g_cands ctx) [] in
        let g := s_gcsize s1 in
        let b2 := b1 ++ flat_map (fun kc => [WDataDel (snd (fst kc)); WAccessDel (snd (fst kc)); WGcDel (fst kc)]) recycled in
        let n1 := wadd n (N.of_nat (length recycled)) in
        let n2 := match recycled with [] => g | _ => n1 end in
        let cur := if n2 <=? g then g - n2 else 0 in
        let done := negb (g_target ctx <? cur) in
        let s2 := commit s1 (b2 ++ [WGcSize cur]) in
        ({| ls := set_gcrun s2 None []; ci := c1 |}, GO (RGcEnd n2 done))
    end.

  (** *** pkg/api/dirs.go: auroraDeleteHandler *)

  (** [for i := 0; i < chunk.Number; i++ { Set(ModeSetRemove, cid) }] under the
      request context (root hash = the file): driver.ErrNotFound -> continue,
      any other error aborts the closure *)
  Fixpoint remove_n (root : addr) (n : nat) (cid : addr) (s : state) : state * option err :=
    match n with
    | O => (s, None)
    | S n' =>
        match set capacity 0 SRemove (Some root) [cid] s with
        | (s', RSet None _) => remove_n root n' cid s'
        | (s', RSet (Some ENotFound) _) => remove_n root n' cid s'
        | (s', RSet (Some e) _) => (s', Some e)
        | (s', _) => (s', Some EInvalidMode)        (* not reachable: [set] answers RSet *)
        end
    end.

  Fixpoint remove_all (root : addr) (l : list (addr * N)) (s : state) : state * option err :=
    match l with
    | [] => (s, None)
    | (cid, num) :: rest =>
        if bytes_eqb cid root then remove_all root rest s      (* chunk.Cid.Equal(hash): continue *)
        else match remove_n root (N.to_nat num) cid s with
             | (s', None) => remove_all root rest s'
             | (s', Some e) => (s', Some e)
             end
    end.

  (** the order in which Go ranged over the two maps of getUnRepeatChunk is an
      input: [order] must list the addresses of [l] other than the root, once each *)
  Fixpoint pick (a : addr) (l : list (addr * N)) : option (addr * N) :=
    match l with
    | [] => None
    | (c, n) :: t => if bytes_eqb a c then Some (c, n) else pick a t
    end.
  Fixpoint reorder (order : list addr) (l : list (addr * N)) : option (list (addr * N)) :=
    match order with
    | [] => Some []
    | a :: t => match pick a l, reorder t l with
                | Some cn, Some r => Some (cn :: r)
                | _, _ => None
                end
    end.
  Fixpoint nodupb (l : list addr) : bool :=
    match l with [] => true | a :: t => negb (mem_addr a t) && nodupb t end.
  Definition order_ok (root : addr) (order : list addr) (l : list (addr * N)) : bool :=
    let want := filter (fun a => negb (bytes_eqb a root)) (map fst l) in
    (length order =? length want)%nat
    && nodupb order
    && forallb (fun a => mem_addr a want) order.

  (** [DelFile(hash, del)] with the closure of the handler (repaired: the root is registered
      first; the root chunk is removed only when the pyramid listed it) *)
  Definition api_delete (root : addr) (order : list addr) (x : sys) : sys * gobs :=
    match trav (ls x) root with
    | None => (x, GDel false)                       (* getPyramid fails: 500, nothing done *)
    | Some sh =>
        let c0 := register_ci (ci x) root sh in
        let l := unrepeat c0 sh in
        if negb (order_ok root order l) then (x, GBad)
        else match reorder order l with
             | None => (x, GBad)
             | Some l' =>
                 match remove_all root l' (ls x) with
                 | (s1, Some _) => ({| ls := s1; ci := c0 |}, GDel false)
                 | (s1, None) =>
                     if mem_addr root (map fst l) then
                       match set capacity 0 SRemove (Some root) [root] s1 with
                       | (s2, RSet None _) | (s2, RSet (Some ENotFound) _) =>
                           ({| ls := s2; ci := del_root_cid c0 root sh |}, GDel true)
                       | (s2, _) => ({| ls := s2; ci := c0 |}, GDel false)
                       end
                     else ({| ls := s1; ci := del_root_cid c0 root sh |}, GDel true)
                 end
             end
    end.

  (** *** operations of the system *)
  Inductive gop :=
  | GLs (o : op)                           (* one localstore call (not a collection phase, not reopen) *)
  | GReg (root : addr)                     (* chunkinfo registers the pyramid of root *)
  | GDelete (root : addr) (order : list addr)
  | GGcBegin (target batchsz : N)
  | GGcEnd.

  Definition ls_call (o : op) : bool :=
    match o with OGcBegin _ _ | OGcEnd _ | OReopen => false | _ => true end.

  Definition gstep (x : sys) (o : gop) : sys * gobs :=
    match o with
    | GLs o' =>
        if ls_call o' then let '(s', r) := step po capacity (ls x) o' in ({| ls := s'; ci := ci x |}, GO r)
        else (x, GBad)
    | GReg root => (register x root, GDone)
    | GDelete root order => api_delete root order x
    | GGcBegin target bs =>
        let '(s', r) := gc_begin target bs (ls x) in ({| ls := s'; ci := ci x |}, GO r)
    | GGcEnd => gc_end_ci x
    end.

  (** *** the eviction phase one candidate at a time (for interleavings inside a run)

      [collectGarbage] holds no lock between two [DelFile] calls: other operations can run
      after candidate selection, before the DelFile of any candidate and after it, until the
      final section commits the batch.  [gcprog] is what the run carries from one candidate to
      the next: the batch, the count, the recycled items.  One step = one [DelFile(addr,
      closure)] call, taken as atomic (the dirty test is INSIDE the closure, under batchMu,
      together with the pyramid loop). *)
  Record gcprog := { p_batch : list write; p_cnt : N; p_rec : list (gckey * N) }.
  Definition prog0 : gcprog := {| p_batch := []; p_cnt := 0; p_rec := [] |}.

  (** [root]: the address DelFile was called with (must be the next candidate) *)
  Definition gc_step_ci (root : addr) (x : sys) (p : gcprog) : sys * gcprog * gobs :=
    match s_gcrun (ls x) with
    | None => (x, p, GBad)
    | Some ctx =>
        match g_cands ctx with
        | [] => (x, p, GBad)
        | (k, g) :: rest =>
            if negb (bytes_eqb root (snd k)) then (x, p, GBad)
            else
              let '(s1, c1, b1, n1, rec1) := gc_evict_ci (ls x) (ci x) (p_batch p) (p_cnt p) [(k, g)] (p_rec p) in
              ({| ls := set_gcrun s1 (Some {| g_cands := rest; g_target := g_target ctx |}) (s_dirty s1); ci := c1 |},
               {| p_batch := b1; p_cnt := n1; p_rec := rec1 |}, GDone)
        end
    end.

  (** the rest of the run from a progress: remaining candidates, then the final section *)
  Definition gc_end_from (x : sys) (p : gcprog) : sys * gobs :=
    match s_gcrun (ls x) with
    | None => (x, GBad)
    | Some ctx =>
        let '(s1, c1, b1, n, recycled) := gc_evict_ci (ls x) (ci x) (p_batch p) (p_cnt p) (g_cands ctx) (p_rec p) in
        let g := s_gcsize s1 in
        let b2 := b1 ++ flat_map (fun kc => [WDataDel (snd (fst kc)); WAccessDel (snd (fst kc)); WGcDel (fst kc)]) recycled in
        let n1 := wadd n (N.of_nat (length recycled)) in
        let n2 := match recycled with [] => g | _ => n1 end in
        let cur := if n2 <=? g then g - n2 else 0 in
        let done := negb (g_target ctx <? cur) in
        let s2 := commit s1 (b2 ++ [WGcSize cur]) in
        ({| ls := set_gcrun s2 None []; ci := c1 |}, GO (RGcEnd n2 done))
    end.

  Inductive gop2 :=
  | H1 (o : gop)
  | HGcStep (root : addr).

  Definition gstep2 (y : sys * gcprog) (o : gop2) : sys * gcprog * gobs :=
    match o with
    | H1 GGcEnd => let '(x', r) := gc_end_from (fst y) (snd y) in (x', prog0, r)
    | H1 o' => let '(x', r) := gstep (fst y) o' in (x', snd y, r)
    | HGcStep root => gc_step_ci root (fst y) (snd y)
    end.

  Fixpoint grun (x : sys) (h : list gop) : sys * list gobs :=
    match h with
    | [] => (x, [])
    | o :: rest =>
        let '(x1, r) := gstep x o in
        let '(x2, rs) := grun x1 rest in
        (x2, r :: rs)
    end.
  Definition gexec (x : sys) (h : list gop) : sys := fold_left (fun y o => fst (gstep y o)) h x.
End Sys.
