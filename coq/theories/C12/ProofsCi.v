(** C12 / C16 — the reference counts of chunkinfo: [RC], "the count of every
    chunk is the number of registered files that contain it", is established
    by [register] and kept by [del_root_cid] of a REGISTERED root. *)
From Coq Require Import List NArith ZArith Bool Lia.
Import ListNotations.
Require Import Aurora.C11.Model Aurora.C11.Maps Aurora.C12.Model.
Local Open Scope N_scope.

(** ** lists of addresses *)
Lemma mem_addr_false a l : mem_addr a l = false <-> ~ In a l.
Proof. rewrite <- mem_addr_In. destruct (mem_addr a l); split; intros; try congruence; tauto. Qed.

Lemma In_filter_ne (a x : addr) l : In a (filter (fun y => negb (bytes_eqb y x)) l) <-> In a l /\ a <> x.
Proof.
  rewrite filter_In. split; intros [H1 H2]; split; auto.
  - intros ->. now rewrite bytes_eqb_refl in H2.
  - now rewrite bytes_eqb_neq.
Qed.

Lemma In_dedup a l : In a (dedup l) <-> In a l.
Proof.
  induction l as [|x l IH]; simpl; [tauto|].
  rewrite In_filter_ne, IH. split.
  - intros [->|[H _]]; auto.
  - intros [->|H]; auto. destruct (list_eq_dec N.eq_dec a x) as [->|Hn]; auto.
Qed.

Lemma NoDup_filter {A} (p : A -> bool) l : NoDup l -> NoDup (filter p l).
Proof.
  induction 1 as [|x l Hn Hd IH]; simpl; [constructor|].
  destruct (p x); auto. constructor; auto. rewrite filter_In. tauto.
Qed.

Lemma NoDup_dedup l : NoDup (dedup l).
Proof.
  induction l as [|x l IH]; simpl; constructor.
  - rewrite In_filter_ne. tauto.
  - now apply NoDup_filter.
Qed.

Lemma In_hashes a sh : In a (hashes sh) <-> In a (f_edges sh) /\ ~ In a (f_leaves sh).
Proof.
  unfold hashes. rewrite filter_In, In_dedup, negb_true_iff, mem_addr_false. tauto.
Qed.

Lemma NoDup_app_disj {A} (l1 l2 : list A) :
  NoDup l1 -> NoDup l2 -> (forall a, In a l1 -> ~ In a l2) -> NoDup (l1 ++ l2).
Proof.
  induction 1 as [|x l Hn Hd IH]; simpl; intros H2 Hdis; auto.
  constructor.
  - rewrite in_app_iff. intros [H|H]; [contradiction | exact (Hdis x (or_introl eq_refl) H)].
  - apply IH; auto.
Qed.

Lemma NoDup_cidset sh : NoDup (cidset sh).
Proof.
  unfold cidset. apply NoDup_app_disj.
  - apply NoDup_dedup.
  - unfold hashes. apply NoDup_filter, NoDup_dedup.
  - intros a H1 H2. rewrite In_dedup in H1. rewrite In_hashes in H2. tauto.
Qed.

Lemma In_cidset a sh : In a (cidset sh) <-> In a (f_leaves sh) \/ In a (f_edges sh).
Proof.
  unfold cidset. rewrite in_app_iff, In_dedup, In_hashes.
  destruct (in_dec (list_eq_dec N.eq_dec) a (f_leaves sh)); tauto.
Qed.

(** ** the count table *)
Lemma cnt_put_same m a : cnt_in (put_chunk m a) a = cnt_in m a + 1.
Proof. unfold put_chunk, cnt_in at 1. now rewrite (alookup_ainsert_same cmp_bytes cmp_bytes_eq). Qed.
Lemma cnt_put_other m a b : a <> b -> cnt_in (put_chunk m b) a = cnt_in m a.
Proof. intros H. unfold put_chunk, cnt_in at 1. rewrite (alookup_ainsert_other cmp_bytes cmp_bytes_eq) by exact H. reflexivity. Qed.

Lemma cnt_del_same m a : cnt_in (del_chunk m a) a = cnt_in m a - 1.
Proof.
  unfold del_chunk. destruct (1 <? cnt_in m a) eqn:E.
  - unfold cnt_in at 1. now rewrite (alookup_ainsert_same cmp_bytes cmp_bytes_eq).
  - unfold cnt_in at 1. rewrite (alookup_aremove_same cmp_bytes). apply N.ltb_ge in E. lia.
Qed.
Lemma cnt_del_other m a b : a <> b -> cnt_in (del_chunk m b) a = cnt_in m a.
Proof.
  intros H. unfold del_chunk. destruct (1 <? cnt_in m b); unfold cnt_in at 1.
  - now rewrite (alookup_ainsert_other cmp_bytes cmp_bytes_eq) by exact H.
  - now rewrite (alookup_aremove_other cmp_bytes cmp_bytes_eq) by exact H.
Qed.

Definition ind (b : bool) : N := if b then 1 else 0.

Lemma cnt_fold_put l : NoDup l -> forall m a,
  cnt_in (fold_left put_chunk l m) a = cnt_in m a + ind (mem_addr a l).
Proof.
  induction 1 as [|x l Hn Hd IH]; intros m a; simpl; [unfold ind; lia|].
  rewrite IH. destruct (bytes_eqb a x) eqn:E; simpl.
  - apply bytes_eqb_eq in E. subst x. rewrite cnt_put_same.
    apply mem_addr_false in Hn. rewrite Hn. unfold ind. lia.
  - rewrite cnt_put_other; [reflexivity|]. intros ->. now rewrite bytes_eqb_refl in E.
Qed.

Lemma cnt_fold_del l : NoDup l -> forall m a,
  cnt_in (fold_left del_chunk l m) a = cnt_in m a - ind (mem_addr a l).
Proof.
  induction 1 as [|x l Hn Hd IH]; intros m a; simpl; [unfold ind; lia|].
  rewrite IH. destruct (bytes_eqb a x) eqn:E; simpl.
  - apply bytes_eqb_eq in E. subst x. rewrite cnt_del_same.
    apply mem_addr_false in Hn. rewrite Hn. unfold ind. lia.
  - rewrite cnt_del_other; [reflexivity|]. intros ->. now rewrite bytes_eqb_refl in E.
Qed.

(** ** number of registered files containing a chunk *)
Section Refs.
  Variable cat : catalogue.

  Definition in_fileb (r a : addr) : bool :=
    match cat_get cat r with Some sh => mem_addr a (cidset sh) | None => false end.
  Definition nfiles (roots : list addr) (a : addr) : N :=
    N.of_nat (length (filter (fun r => in_fileb r a) roots)).
  Definition refs (c : cistate) (a : addr) : N := nfiles (keys (ci_hash c)) a.

  (** the invariant *)
  Definition RC (c : cistate) : Prop :=
    NoDupKeys (ci_hash c) /\ forall a, cnt c a = refs c a.

  Lemma RC_init : RC ci_init.
  Proof. split; [constructor | intros a; reflexivity]. Qed.

  Lemma aremove_notin {V} (k : list N) (m : list (list N * V)) : ~ In k (keys m) -> aremove cmp_bytes k m = m.
  Proof.
    induction m as [|[k' v] m IH]; simpl; intros H; [reflexivity|].
    destruct (cmp_bytes k k') eqn:E.
    - apply cmp_bytes_eq in E. subst. tauto.
    - f_equal. apply IH. tauto.
    - f_equal. apply IH. tauto.
  Qed.

  Lemma len_aplace {V} (p : list N -> bool) (k : list N) (v : V) (m : list (list N * V)) :
    length (filter p (keys (aplace cmp_bytes k v m))) = ((if p k then 1 else 0) + length (filter p (keys m)))%nat.
  Proof.
    induction m as [|[k' v'] m IH]; cbn [aplace keys map fst filter length].
    - destruct (p k); reflexivity.
    - destruct (cmp_bytes k k'); cbn [keys map fst filter length];
        try (destruct (p k), (p k'); cbn [length]; lia).
      unfold keys in IH. destruct (p k'); cbn [length]; rewrite IH; destruct (p k); lia.
  Qed.

  Lemma nfiles_aplace {V} k (v : V) m a :
    nfiles (keys (aplace cmp_bytes k v m)) a = ind (in_fileb k a) + nfiles (keys m) a.
  Proof. unfold nfiles. rewrite len_aplace, Nat2N.inj_add. destruct (in_fileb k a); reflexivity. Qed.

  Lemma nfiles_ainsert_new {V} k (v : V) m a : ~ In k (keys m) ->
    nfiles (keys (ainsert cmp_bytes k v m)) a = ind (in_fileb k a) + nfiles (keys m) a.
  Proof. intros H. unfold ainsert. rewrite aremove_notin by exact H. apply nfiles_aplace. Qed.

  Lemma len_aremove {V} (p : list N -> bool) (k : list N) (m : list (list N * V)) : NoDupKeys m -> In k (keys m) ->
    (length (filter p (keys (aremove cmp_bytes k m))) + (if p k then 1 else 0) = length (filter p (keys m)))%nat.
  Proof.
    unfold NoDupKeys. induction m as [|[k' v'] m IH]; cbn [aremove keys map fst filter length]; intros Hd Hin; [contradiction|].
    inversion Hd as [|x l Hn Hd']; subst.
    destruct (cmp_bytes k k') eqn:E.
    - apply cmp_bytes_eq in E. subst k'. rewrite aremove_notin by exact Hn.
      unfold keys. destruct (p k); cbn [length]; lia.
    - assert (Hk : In k (keys m)) by (destruct Hin as [->|H]; [rewrite cmp_bytes_refl in E; discriminate | exact H]).
      specialize (IH Hd' Hk). cbn [keys map fst filter]. unfold keys in *. destruct (p k'), (p k); cbn [length]; lia.
    - assert (Hk : In k (keys m)) by (destruct Hin as [->|H]; [rewrite cmp_bytes_refl in E; discriminate | exact H]).
      specialize (IH Hd' Hk). cbn [keys map fst filter]. unfold keys in *. destruct (p k'), (p k); cbn [length]; lia.
  Qed.

  Lemma nfiles_aremove {V} k (m : list (addr * V)) a : NoDupKeys m -> In k (keys m) ->
    nfiles (keys (aremove cmp_bytes k m)) a + ind (in_fileb k a) = nfiles (keys m) a.
  Proof.
    intros Hd Hin. unfold nfiles. pose proof (len_aremove (fun r => in_fileb r a) k m Hd Hin) as E.
    apply (f_equal N.of_nat) in E. rewrite Nat2N.inj_add in E.
    destruct (in_fileb k a); exact E.
  Qed.

  Lemma registered_In c r : registered c r = true <-> In r (keys (ci_hash c)).
  Proof.
    unfold registered, ahas. destruct (alookup cmp_bytes r (ci_hash c)) eqn:E.
    - split; auto. intros _. apply (alookup_Some_in cmp_bytes cmp_bytes_eq) in E.
      apply in_map_iff. now exists (r, p).
    - apply (alookup_None_notin cmp_bytes cmp_bytes_eq) in E. split; [discriminate | contradiction].
  Qed.

  (** two registered files containing the chunk: the count is at least 2 *)
  Lemma nfiles_two roots a r1 r2 : r1 <> r2 -> In r1 roots -> In r2 roots ->
    in_fileb r1 a = true -> in_fileb r2 a = true -> 2 <= nfiles roots a.
  Proof.
    intros Hne H1 H2 P1 P2. unfold nfiles.
    assert (F1 : In r1 (filter (fun r => in_fileb r a) roots)) by (apply filter_In; auto).
    assert (F2 : In r2 (filter (fun r => in_fileb r a) roots)) by (apply filter_In; auto).
    destruct (filter (fun r => in_fileb r a) roots) as [|y [|z l]]; simpl in *.
    - contradiction.
    - destruct F1 as [<-|[]], F2 as [<-|[]]. contradiction.
    - lia.
  Qed.

  Lemma nfiles_one roots a r : In r roots -> in_fileb r a = true -> 1 <= nfiles roots a.
  Proof.
    intros H P. unfold nfiles.
    assert (F : In r (filter (fun r => in_fileb r a) roots)) by (apply filter_In; auto).
    destruct (filter (fun r => in_fileb r a) roots); simpl in *; [contradiction | lia].
  Qed.

  Lemma trav_cat s r sh : trav cat s r = Some sh -> cat_get cat r = Some sh.
  Proof. unfold trav. destruct (cat_get cat r); [|discriminate]. destruct (_ && _ && _); congruence. Qed.

  (** registration keeps the invariant *)
  Lemma RC_register_ci c r sh : RC c -> cat_get cat r = Some sh -> RC (register_ci c r sh).
  Proof.
    intros [Hd Hc] Et. unfold register_ci.
    destruct (registered c r) eqn:Er; [now split|].
    assert (Hn : ~ In r (keys (ci_hash c))) by (rewrite <- registered_In; congruence).
    split; simpl.
    - now apply (NoDupKeys_ainsert cmp_bytes cmp_bytes_eq).
    - intros a. unfold cnt, refs; simpl.
      rewrite <- fold_left_app. change (dedup (f_leaves sh) ++ hashes sh) with (cidset sh).
      rewrite cnt_fold_put by apply NoDup_cidset.
      rewrite nfiles_ainsert_new by exact Hn.
      unfold in_fileb at 1. rewrite Et. specialize (Hc a). unfold cnt, refs in Hc. rewrite Hc. apply N.add_comm.
  Qed.

  Lemma RC_register x r : RC (ci x) -> RC (ci (register cat x r)).
  Proof.
    intros H. unfold register. destruct (trav cat (ls x) r) as [sh|] eqn:Et; [|exact H].
    simpl. apply RC_register_ci; [exact H | now apply (trav_cat (ls x))].
  Qed.

  Lemma registered_register_same c r sh : registered (register_ci c r sh) r = true.
  Proof.
    unfold register_ci. destruct (registered c r) eqn:E; [exact E|].
    unfold registered, ahas; simpl. now rewrite (alookup_ainsert_same cmp_bytes cmp_bytes_eq).
  Qed.
  Lemma registered_register_other c r sh b : b <> r -> registered (register_ci c r sh) b = registered c b.
  Proof.
    intros H. unfold register_ci. destruct (registered c r); [reflexivity|].
    unfold registered, ahas; simpl. now rewrite (alookup_ainsert_other cmp_bytes cmp_bytes_eq) by exact H.
  Qed.
  Lemma registered_register_mono c r sh b : registered c b = true -> registered (register_ci c r sh) b = true.
  Proof.
    intros H. destruct (list_eq_dec N.eq_dec b r) as [->|Hn]; [apply registered_register_same|].
    now rewrite registered_register_other.
  Qed.

  Lemma mem_addr_perm a l1 l2 : mem_addr a (l1 ++ l2) = mem_addr a (l2 ++ l1).
  Proof. rewrite !mem_addr_app. apply orb_comm. Qed.

  Lemma NoDup_hashes_leaves sh : NoDup (hashes sh ++ dedup (f_leaves sh)).
  Proof.
    apply NoDup_app_disj.
    - unfold hashes. apply NoDup_filter, NoDup_dedup.
    - apply NoDup_dedup.
    - intros a H1 H2. rewrite In_dedup in H2. rewrite In_hashes in H1. tauto.
  Qed.

  (** [delRootCid] of a registered root keeps the invariant *)
  Lemma RC_del_root c r sh : RC c -> registered c r = true -> cat_get cat r = Some sh ->
    RC (del_root_cid c r sh).
  Proof.
    intros [Hd Hc] Hr Et. apply registered_In in Hr. split; simpl.
    - now apply (NoDupKeys_aremove cmp_bytes cmp_bytes_eq).
    - intros a. unfold cnt, refs; simpl.
      rewrite cnt_fold_del by apply NoDup_hashes_leaves.
      rewrite mem_addr_perm. change (dedup (f_leaves sh) ++ hashes sh) with (cidset sh).
      pose proof (nfiles_aremove r (ci_hash c) a Hd Hr) as E.
      unfold in_fileb at 1 in E. rewrite Et in E.
      specialize (Hc a). unfold cnt, refs in Hc. rewrite Hc, <- E. now rewrite N.add_sub.
  Qed.

  Lemma registered_del_other c r sh b : b <> r -> registered (del_root_cid c r sh) b = registered c b.
  Proof.
    intros H. unfold registered, ahas, del_root_cid; simpl.
    now rewrite (alookup_aremove_other cmp_bytes cmp_bytes_eq) by exact H.
  Qed.

  (** what [getUnRepeatChunk] returns: chunks of the file with count <= 1 *)
  Lemma In_unrepeat c sh a n : In (a, n) (unrepeat c sh) -> In a (cidset sh) /\ cnt c a <= 1.
  Proof.
    unfold unrepeat, cidset. rewrite in_app_iff. intros [H|H].
    - apply filter_In in H as [H1 H2]. simpl in H2. apply N.leb_le in H2. split; [|exact H2].
      unfold cids in H1. apply in_map_iff in H1 as [y [E Hy]]. inversion E; subst. apply in_app_iff. now left.
    - apply in_map_iff in H as [y [E Hy]]. inversion E; subst. apply filter_In in Hy as [H1 H2].
      apply N.leb_le in H2. split; [|exact H2]. apply in_app_iff. now right.
  Qed.

  (** the protection the counts give: a chunk of ANOTHER registered file is never in the list *)
  Lemma unrepeat_protects c ra rb sha shb a n :
    RC c -> ra <> rb -> registered c ra = true -> registered c rb = true ->
    cat_get cat ra = Some sha -> cat_get cat rb = Some shb ->
    In a (cidset shb) -> ~ In (a, n) (unrepeat c sha).
  Proof.
    intros [Hd Hc] Hne Ha Hb Ea Eb Hin Hu. apply In_unrepeat in Hu as [Hia Hle].
    apply registered_In in Ha. apply registered_In in Hb.
    assert (2 <= refs c a).
    { apply (nfiles_two _ a ra rb Hne Ha Hb); unfold in_fileb.
      - rewrite Ea. now apply mem_addr_In.
      - rewrite Eb. now apply mem_addr_In. }
    rewrite <- Hc in H. lia.
  Qed.
End Refs.
