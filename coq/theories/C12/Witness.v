(** C12 / C16 — histories on which the properties fail (evaluated on the model;
    each is a corpus case of the harness and reproduces on the Go code). *)
From Coq Require Import List NArith ZArith Bool.
Import ListNotations.
Require Import Aurora.C11.Model Aurora.C12.Model.
Local Open Scope N_scope.

Definition po0 : addr -> N := fun _ => 0.
(** file A: root [10], data chunks [1] [2];  file B: root [20], data chunks [1] [3];
    manifest M: root [30] over the file root [20] (edges [30] [20]), same data chunks as B *)
Definition rA : addr := [10]. Definition rB : addr := [20]. Definition rM : addr := [30].
Definition x1 : addr := [1]. Definition x2 : addr := [2]. Definition x3 : addr := [3].
Definition rS : addr := [40]. Definition rN : addr := [50].
(** S: a one-chunk file (its root is its only data chunk); N: a manifest over S *)
Definition cat0 : catalogue :=
  [ (rA, {| f_leaves := [x1; x2]; f_edges := [rA]; f_probe := [] |});
    (rB, {| f_leaves := [x1; x3]; f_edges := [rB]; f_probe := [] |});
    (rM, {| f_leaves := [x1; x3]; f_edges := [rB; rM]; f_probe := [] |});
    (rS, {| f_leaves := [rS]; f_edges := [rS]; f_probe := [] |});
    (rN, {| f_leaves := [rS]; f_edges := [rS; rN]; f_probe := [] |}) ].

Definition req (t : N) (root a : addr) := GLs (OPut t PRequest (Some root) [(a, [t])]).
Definition up (t : N) (a : addr) := GLs (OPut t PUpload None [(a, [t])]).
Definition uppin (t : N) (a : addr) := GLs (OPut t PUploadPin None [(a, [t])]).
Definition fin (cap : N) (h : list gop) : sys := gexec cat0 po0 cap sys_init h.
Definition after_gc (cap : N) (h : list gop) : sys := fst (gstep cat0 po0 cap (fin cap h) GGcEnd).

(** a chunk pinned by a single-chunk upload, then file A (which contains it) is cached and evicted *)
Definition w_pinned := [uppin 1 x1; req 2 rA rA; GReg rA; req 3 rA x2; GGcBegin 1 10000].
(** the same chunk pinned twice *)
Definition w_pinned2 := [uppin 1 x1; uppin 2 x1; req 3 rA rA; GReg rA; req 4 rA x2; GGcBegin 1 10000].
(** an uploaded chunk (file not registered with chunkinfo), never request-put *)
Definition w_upload := [up 1 x1; up 2 x3; up 3 rB; req 4 rA rA; GReg rA; req 5 rA x2; GGcBegin 1 10000].
(** the root of the cached file pinned twice: the pin is decremented, the root chunk deleted *)
Definition w_root := [req 1 rA rA; GReg rA; req 2 rA x1; req 3 rA x2; uppin 4 rA; uppin 5 rA; GGcBegin 1 10000].

(** C16: DELETE of a reference that was never registered: M is uploaded and registered, B (bare
    reference of the same content) is stored too; deleting B removes M's chunks *)
Definition w_del_unreg := [up 1 x1; up 2 x3; up 3 rB; up 4 rM; GReg rM].
(** C16: B registered as well (a peer asked for it): its root, an inner chunk of M, is removed unconditionally *)
Definition w_del_root := [up 1 x1; up 2 x3; up 3 rB; up 4 rM; GReg rM; GReg rB].
(** C16: the same through eviction: the one-chunk file S is cached, the manifest N over it uploaded *)
Definition w_gc_root := [req 1 rS rS; GReg rS; up 2 rN; GReg rN; GGcBegin 0 10000].

Definition readable (cat : catalogue) (s : state) (r : addr) : bool :=
  match cat_get cat r with
  | None => false
  | Some sh => forallb (data_has s) (cidset sh)
  end.
