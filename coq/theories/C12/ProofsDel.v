(** C16 — what DELETE /aurora/{root} ([api_delete]) can touch. *)
From Coq Require Import List NArith ZArith Bool Lia.
Import ListNotations.
Require Import Aurora.C11.Model Aurora.C11.Maps Aurora.C12.Model Aurora.C12.ProofsCi Aurora.C12.ProofsFrame.
Local Open Scope N_scope.

Section Del.
  Variable cat : catalogue.
  Variable capacity : N.

  Lemma pick_In a l cn : pick a l = Some cn -> In cn l.
  Proof.
    induction l as [|[c n] l IH]; simpl; [discriminate|].
    destruct (bytes_eqb a c); intros H; [inversion H; now left | right; auto].
  Qed.

  Lemma reorder_In order : forall l l', reorder order l = Some l' -> forall cn, In cn l' -> In cn l.
  Proof.
    induction order as [|a t IH]; intros l l' H cn Hc; simpl in H.
    - inversion H; subst. contradiction.
    - destruct (pick a l) as [p|] eqn:Ep; [|discriminate].
      destruct (reorder t l) as [r|] eqn:Er; [|discriminate].
      inversion H; subst. destruct Hc as [<-|Hc]; [now apply (pick_In a) | now apply (IH l r)].
  Qed.

  Definition same_at (a : addr) (s s' : state) : Prop :=
    data_get s' a = data_get s a /\ pin_get s' a = pin_get s a.
  Lemma same_refl a s : same_at a s s. Proof. split; reflexivity. Qed.
  Lemma same_trans a s1 s2 s3 : same_at a s1 s2 -> same_at a s2 s3 -> same_at a s1 s3.
  Proof. intros [A B] [C D]. split; congruence. Qed.

  Lemma set1_same a c root s : a <> c -> same_at a s (fst (set capacity 0 SRemove root [c] s)).
  Proof. intros H. exact (set_remove1_keeps capacity a c root s H). Qed.

  Lemma remove_n_same a root cid n : a <> cid -> forall s, same_at a s (fst (remove_n capacity root n cid s)).
  Proof.
    intros Hne. induction n as [|n IH]; intros s; cbn [remove_n]; [apply same_refl|].
    pose proof (set1_same a cid (Some root) s Hne) as F.
    destruct (set capacity 0 SRemove (Some root) [cid] s) as [s' o]. cbn [fst] in F.
    destruct o as [r t|r|r|r|r|r t|f|c d| |]; cbn [fst]; try exact F.
    destruct r as [[]|]; cbn [fst]; try exact F; (eapply same_trans; [exact F | apply IH]).
  Qed.

  Lemma remove_all_same a root l : (forall cn, In cn l -> fst cn <> a) ->
    forall s, same_at a s (fst (remove_all capacity root l s)).
  Proof.
    induction l as [|[cid num] l IH]; intros Hl s; cbn [remove_all]; [apply same_refl|].
    assert (Hl' : forall cn, In cn l -> fst cn <> a) by (intros cn Hc; apply Hl; now right).
    destruct (bytes_eqb cid root); [now apply IH|].
    assert (Hne : a <> cid) by (intros ->; now apply (Hl (cid, num) (or_introl eq_refl))).
    pose proof (remove_n_same a root cid (N.to_nat num) Hne s) as F.
    destruct (remove_n capacity root (N.to_nat num) cid s) as [s' [e|]]; cbn [fst] in *; [exact F|].
    eapply same_trans; [exact F | now apply IH].
  Qed.

  (** the delete closure touches only the chunks [getUnRepeatChunk] listed *)
  Lemma api_delete_same a root order x x' o :
    api_delete cat capacity root order x = (x', o) ->
    (forall sh n, trav cat (ls x) root = Some sh -> ~ In (a, n) (unrepeat (register_ci (ci x) root sh) sh)) ->
    same_at a (ls x) (ls x').
  Proof.
    intros H Hun. unfold api_delete in H.
    destruct (trav cat (ls x) root) as [sh|] eqn:Et; [|inversion H; apply same_refl].
    set (c0 := register_ci (ci x) root sh) in *.
    destruct (negb (order_ok root order (unrepeat c0 sh))); [inversion H; apply same_refl|].
    destruct (reorder order (unrepeat c0 sh)) as [l'|] eqn:Er; [|inversion H; apply same_refl].
    assert (Hl : forall cn, In cn l' -> fst cn <> a).
    { intros [c n] Hc Heq. simpl in Heq. subst c. apply (reorder_In order _ _ Er) in Hc. exact (Hun sh n eq_refl Hc). }
    pose proof (remove_all_same a root l' Hl (ls x)) as F.
    destruct (remove_all capacity root l' (ls x)) as [s1 [e|]]; cbn [fst] in F.
    - inversion H; subst; exact F.
    - destruct (mem_addr root (map fst (unrepeat c0 sh))) eqn:Em; [|inversion H; subst; exact F].
      assert (Hroot : a <> root).
      { intros ->. apply mem_addr_In in Em. apply in_map_iff in Em as [[r n] [E Hin]]. simpl in E. subst r.
        exact (Hun sh n eq_refl Hin). }
      pose proof (set1_same a root (Some root) s1 Hroot) as G.
      destruct (set capacity 0 SRemove (Some root) [root] s1) as [s2 o2]. cbn [fst] in G.
      assert (same_at a (ls x) s2) by (eapply same_trans; eauto).
      destruct o2 as [r t|r|r|r|r|r t|f|c d| |]; try (inversion H; subst; simpl; assumption).
      destruct r as [[]|]; inversion H; subst; simpl; assumption.
  Qed.

  (** the tables after the handler: unchanged (nothing to traverse), the root registered, or
      registered and removed again by [delRootCid] *)
  Lemma api_delete_ci root order x x' o :
    api_delete cat capacity root order x = (x', o) ->
    ci x' = ci x \/ exists sh, trav cat (ls x) root = Some sh /\
      (ci x' = register_ci (ci x) root sh \/ ci x' = del_root_cid (register_ci (ci x) root sh) root sh).
  Proof.
    intros H. unfold api_delete in H.
    destruct (trav cat (ls x) root) as [sh|] eqn:Et; [|inversion H; now left].
    set (c0 := register_ci (ci x) root sh) in *.
    destruct (negb (order_ok root order (unrepeat c0 sh))); [inversion H; now left|].
    destruct (reorder order (unrepeat c0 sh)) as [l'|]; [|inversion H; now left].
    right. exists sh. split; [reflexivity|].
    destruct (remove_all capacity root l' (ls x)) as [s1 [e|]]; [inversion H; now left|].
    destruct (mem_addr root (map fst (unrepeat c0 sh))); [|inversion H; now right].
    destruct (set capacity 0 SRemove (Some root) [root] s1) as [s2 o2].
    destruct o2 as [r t|r|r|r|r|r t|f|c d| |]; try (inversion H; subst; simpl; now left).
    destruct r as [[]|]; inversion H; subst; simpl; try (now left); now right.
  Qed.

  (** chunks of another registered file: untouched, counts stay exact *)
  Lemma api_delete_protects a root order rb shb x x' o :
    api_delete cat capacity root order x = (x', o) ->
    RC cat (ci x) ->
    registered (ci x) rb = true -> cat_get cat rb = Some shb -> rb <> root ->
    In a (cidset shb) ->
    same_at a (ls x) (ls x') /\ RC cat (ci x') /\ registered (ci x') rb = true.
  Proof.
    intros H Hrc Hreg Hcat Hne Hin. split; [|].
    - apply (api_delete_same a root order x x' o H).
      intros sh n Et. pose proof (trav_cat cat _ _ _ Et) as Ec.
      apply (unrepeat_protects cat _ root rb sh shb a n); auto.
      + now apply RC_register_ci.
      + apply registered_register_same.
      + now apply registered_register_mono.
    - destruct (api_delete_ci root order x x' o H) as [ -> | [sh [Et [ -> | -> ]]]]; [now split| |];
        pose proof (trav_cat cat _ _ _ Et) as Ec.
      + split; [now apply RC_register_ci | now apply registered_register_mono].
      + split.
        * apply (RC_del_root cat); auto; [now apply RC_register_ci | apply registered_register_same].
        * rewrite registered_del_other by exact Hne. now apply registered_register_mono.
  Qed.

  Lemma api_delete_RC root order x x' o :
    api_delete cat capacity root order x = (x', o) -> RC cat (ci x) -> RC cat (ci x').
  Proof.
    intros H Hrc. destruct (api_delete_ci root order x x' o H) as [ -> | [sh [Et [ -> | -> ]]]]; [exact Hrc| |];
      pose proof (trav_cat cat _ _ _ Et) as Ec.
    - now apply RC_register_ci.
    - apply (RC_del_root cat); auto; [now apply RC_register_ci | apply registered_register_same].
  Qed.
End Del.
