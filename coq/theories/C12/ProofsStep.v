(** C12 — interleavings inside a collection run: a file touched after candidate
    selection and before its own DelFile call is not evicted by this run. *)
From Coq Require Import List NArith ZArith Bool Lia.
Import ListNotations.
Require Import Aurora.C11.Model Aurora.C11.Maps Aurora.C12.Model Aurora.C12.ProofsCi Aurora.C12.ProofsFrame
        Aurora.C12.ProofsDirty.
Local Open Scope N_scope.

(** dirtyAddresses only grows, gcRunning stays *)
Definition K (s s' : state) : Prop := incl (s_dirty s) (s_dirty s') /\ s_gcrun s' = s_gcrun s.
Lemma K_refl s : K s s. Proof. split; [apply incl_refl | reflexivity]. Qed.
Lemma K_trans s1 s2 s3 : K s1 s2 -> K s2 s3 -> K s1 s3.
Proof. intros [A B] [C D]. split; [eapply incl_tran; eauto | congruence]. Qed.
Lemma K_of_dg s s' : dg s' = dg s -> K s s'.
Proof. unfold dg. intros H. injection H as H1 H2. split; [rewrite H1; apply incl_refl | exact H2]. Qed.
Lemma K_mark s l : K s (mark_dirty s l).
Proof. unfold K. destruct (mark_dirty_incl s l) as [A B]. split; assumption. Qed.
Lemma K_of_dg_mark s s' l : dg s' = dg (mark_dirty s l) -> K s s'.
Proof. intros H. apply (K_trans s (mark_dirty s l) s'); [apply K_mark | apply K_of_dg; exact H]. Qed.

Section Step.
  Variable cat : catalogue.
  Variable po : addr -> N.
  Variable capacity : N.

  Lemma set_K t m r addrs s : K s (fst (set capacity t m r addrs s)).
  Proof. apply (K_of_dg_mark s _ addrs). apply set_dg. Qed.

  Lemma step_K o s : ls_call o = true -> K s (fst (step po capacity s o)).
  Proof.
    destruct o as [t m r chs|t m r a|t m addrs|m a|m addrs|t m r addrs|tg bs|pyr|]; simpl; intros H; try discriminate.
    - destruct (put_dg po capacity t m r chs s) as [E|E]; [now apply K_of_dg | now apply (K_of_dg_mark s _ (map fst chs))].
    - unfold get. destruct (data_get s a); [|apply K_refl].
      destruct m; simpl; try apply K_refl.
      + destruct (root_is_zero r); simpl; eapply K_of_dg_mark; apply update_gc_dg.
      + destruct (pin_get s a); apply K_refl.
    - unfold get_multi. destruct (fill_data s addrs) as [items|]; [|apply K_refl].
      destruct m; simpl; try apply K_refl.
      + clear. revert s. induction items as [|ae l IH]; intros s; simpl; [apply K_refl|].
        eapply K_trans; [|apply IH]. eapply K_of_dg_mark. apply update_gc_dg.
      + destruct (forallb (pin_has s) addrs); apply K_refl.
    - apply K_refl.
    - apply K_refl.
    - apply set_K.
  Qed.

  Lemma remove_n_K root n cid : forall s, K s (fst (remove_n capacity root n cid s)).
  Proof.
    induction n as [|n IH]; intros s; cbn [remove_n fst]; [apply K_refl|].
    pose proof (set_K 0 SRemove (Some root) [cid] s) as F.
    destruct (set capacity 0 SRemove (Some root) [cid] s) as [s' o]. cbn [fst] in *.
    destruct o as [r t|r|r|r|r|r t|f|c d| |]; cbn [fst]; try exact F.
    destruct r as [[]|]; cbn [fst]; try exact F; (eapply K_trans; [exact F | apply IH]).
  Qed.
  Lemma remove_all_K root l : forall s, K s (fst (remove_all capacity root l s)).
  Proof.
    induction l as [|[cid num] l IH]; intros s; cbn [remove_all]; [apply K_refl|].
    destruct (bytes_eqb cid root); [apply IH|].
    pose proof (remove_n_K root (N.to_nat num) cid s) as F.
    destruct (remove_n capacity root (N.to_nat num) cid s) as [s' [e|]]; cbn [fst] in *; [exact F|].
    eapply K_trans; [exact F | apply IH].
  Qed.

  Lemma api_delete_K root order x : K (ls x) (ls (fst (api_delete cat capacity root order x))).
  Proof.
    unfold api_delete. destruct (trav cat (ls x) root) as [sh|]; [|apply K_refl].
    destruct (negb _); [apply K_refl|]. destruct (reorder _ _) as [l'|]; [|apply K_refl].
    pose proof (remove_all_K root l' (ls x)) as F.
    destruct (remove_all capacity root l' (ls x)) as [s1 [e|]]; cbn [fst] in *; [exact F|].
    destruct (mem_addr root _); [|exact F].
    pose proof (set_K 0 SRemove (Some root) [root] s1) as G.
    destruct (set capacity 0 SRemove (Some root) [root] s1) as [s2 o2]. cbn [fst] in *.
    assert (K (ls x) s2) by (eapply K_trans; eauto).
    destruct o2 as [r t|r|r|r|r|r t|f|c d| |]; simpl; try assumption.
    destruct r as [[]|]; simpl; assumption.
  Qed.

  (** every system operation except the final section of the run, while a run is on *)
  Lemma gstep_K x o : s_gcrun (ls x) <> None -> o <> GGcEnd -> K (ls x) (ls (fst (gstep cat po capacity x o))).
  Proof.
    intros Hrun Ho. destruct o as [o'|root|root order|t bs|]; simpl.
    - destruct (ls_call o') eqn:E; [|apply K_refl].
      pose proof (step_K o' (ls x) E) as F. destruct (step po capacity (ls x) o'). exact F.
    - unfold register. destruct (trav cat (ls x) root); apply K_refl.
    - apply api_delete_K.
    - unfold gc_begin. destruct (s_gcrun (ls x)); [apply K_refl | contradiction].
    - contradiction.
  Qed.

  (** the loop over candidates: fields it leaves alone, and who can be recycled *)
  Lemma evict_fields cands : forall s c b n recycled s1 c1 b1 n1 rec1,
    gc_evict_ci cat s c b n cands recycled = (s1, c1, b1, n1, rec1) ->
    s_dirty s1 = s_dirty s /\ s_gcrun s1 = s_gcrun s /\
    forall kc, In kc rec1 -> In kc recycled \/ (In kc cands /\ mem_addr (snd (fst kc)) (s_dirty s) = false).
  Proof.
    induction cands as [|[k g] rest IH]; intros s c b n recycled s1 c1 b1 n1 rec1 H; simpl in H.
    - inversion H; subst. repeat split; auto.
    - assert (W : forall c', gc_evict_ci cat s c' b n rest recycled = (s1, c1, b1, n1, rec1) ->
                  s_dirty s1 = s_dirty s /\ s_gcrun s1 = s_gcrun s /\
                  forall kc, In kc rec1 -> In kc recycled \/ (In kc ((k, g) :: rest) /\ mem_addr (snd (fst kc)) (s_dirty s) = false)).
      { intros c' H'. apply IH in H' as (A & B & C). repeat split; auto.
        intros kc Hk. destruct (C kc Hk) as [L|[L1 L2]]; [now left | right; split; [now right | exact L2]]. }
      destruct (trav cat s (snd k)) as [sh|]; [|exact (W c H)].
      destruct (mem_addr (snd k) (s_dirty s)) eqn:Ed; [exact (W _ H)|].
      destruct (gc_chunks s b 0 (unrepeat (register_ci c (snd k) sh) sh)) as [[s' b'] m] eqn:Eg.
      apply gc_chunks_frame in Eg as (D & Y & _ & R & _).
      apply IH in H as (A & B & C). split; [congruence|]. split; [congruence|].
      intros kc Hk. destruct (C kc Hk) as [L|[L1 L2]].
      + apply in_app_iff in L as [L|[<-|[]]]; [now left | right; split; [now left | exact Ed]].
      + right. split; [now right | now rewrite <- Y].
  Qed.

  (** "touched and not yet recycled" *)
  Definition Q (root : addr) (y : sys * gcprog) : Prop :=
    s_gcrun (ls (fst y)) <> None /\ In root (s_dirty (ls (fst y))) /\
    forall kc, In kc (p_rec (snd y)) -> snd (fst kc) <> root.

  Lemma Q_step root y o : o <> H1 GGcEnd -> Q root y -> Q root (fst (gstep2 cat po capacity y o)).
  Proof.
    intros Ho (Hrun & Hd & Hrec). destruct y as [x p]. destruct o as [o'|r]; cbn [fst snd] in *.
    - assert (Ho' : o' <> GGcEnd) by (intros ->; now apply Ho).
      pose proof (gstep_K x o' Hrun Ho') as [K1 K2].
      assert (E : fst (gstep2 cat po capacity (x, p) (H1 o')) = (fst (gstep cat po capacity x o'), p)).
      { destruct o'; try contradiction; cbv beta iota delta [gstep2 fst snd];
          match goal with |- context [gstep ?a ?b ?c ?d ?e] => destruct (gstep a b c d e) end; reflexivity. }
      rewrite E. unfold Q. cbn [fst snd]. split; [now rewrite K2|]. split; [now apply K1 | exact Hrec].
    - unfold Q. cbn [gstep2 fst snd]. unfold gc_step_ci. destruct (s_gcrun (ls x)) as [ctx|] eqn:Er; [|contradiction].
      destruct (g_cands ctx) as [|[k g] rest]; cbn [fst snd]; [repeat split; auto; now rewrite Er|].
      destruct (negb (bytes_eqb r (snd k))); cbn [fst snd]; [repeat split; auto; now rewrite Er|].
      destruct (gc_evict_ci cat (ls x) (ci x) (p_batch p) (p_cnt p) [(k, g)] (p_rec p)) as [[[[s1 c1] b1] n1] rec1] eqn:E.
      apply evict_fields in E as (A & B & C). cbn [fst snd ls p_rec]. split; [simpl; discriminate|]. split.
      + simpl. now rewrite A.
      + intros kc Hk. destruct (C kc Hk) as [L|[[<-|[]] L2]]; [now apply Hrec|].
        simpl in *. intros E'. rewrite E' in L2. apply mem_addr_false in L2. contradiction.
  Qed.

  Lemma Q_run root h : forall y, Forall (fun o => o <> H1 GGcEnd) h -> Q root y ->
    Q root (fold_left (fun z o => fst (gstep2 cat po capacity z o)) h y).
  Proof.
    induction h as [|o t IH]; intros y Hf Hq; simpl; [exact Hq|].
    inversion Hf; subst. apply IH; [assumption | now apply Q_step].
  Qed.

  (** the items whose root chunk, access entry and gc entry the final section deletes *)
  Definition end_recycled (y : sys * gcprog) : list (gckey * N) :=
    match s_gcrun (ls (fst y)) with
    | None => []
    | Some ctx =>
        let '(_, _, _, _, recycled) :=
          gc_evict_ci cat (ls (fst y)) (ci (fst y)) (p_batch (snd y)) (p_cnt (snd y)) (g_cands ctx) (p_rec (snd y)) in
        recycled
    end.

  Lemma Q_end root y : Q root y -> forall kc, In kc (end_recycled y) -> snd (fst kc) <> root.
  Proof.
    intros (Hrun & Hd & Hrec) kc Hk. unfold end_recycled in Hk.
    destruct (s_gcrun (ls (fst y))) as [ctx|]; [|contradiction].
    destruct (gc_evict_ci _ _ _ _ _ _ _) as [[[[s1 c1] b1] n1] rec1] eqn:E.
    apply evict_fields in E as (_ & _ & C). destruct (C kc Hk) as [L|[_ L2]]; [now apply Hrec|].
    intros E'. rewrite E' in L2. apply mem_addr_false in L2. contradiction.
  Qed.

  (** the final section: what it deletes besides the batch the closures filled are exactly the
      root chunk, access entry and gc entry of the [end_recycled] items; from an empty progress
      it is the atomic eviction phase [gc_end_ci] of the other theorems *)
  Lemma gc_end_from_prog0 x : gc_end_from cat x prog0 = gc_end_ci cat x.
  Proof. reflexivity. Qed.

  (** touching: a Set naming the root, a successful Get of it or under its file context *)
  Definition touches (root : addr) (s : state) (o : op) : Prop :=
    match o with
    | OSet _ _ _ addrs => In root addrs
    | OGet _ GRequest r a => data_get s a <> None /\ (if root_is_zero r then a = root else root_bytes r = root)
    | _ => False
    end.

  Lemma touch_dirty root s o : s_gcrun s <> None -> touches root s o -> In root (s_dirty (fst (step po capacity s o))).
  Proof.
    intros Hrun Ht. destruct (s_gcrun s) as [ctx|] eqn:Er; [|contradiction].
    destruct o as [t m r chs|t m r a|t m addrs|m a|m addrs|t m r addrs|tg bs|pyr|]; simpl in Ht; try contradiction.
    - destruct m; try contradiction. destruct Ht as [Hd Ha]. simpl. unfold get.
      destruct (data_get s a) as [e|]; [|contradiction]. simpl.
      revert Ha. destruct (root_is_zero r); intros <-.
      + pose proof (update_gc_dg t a (d_bin e) s) as E. unfold dg in E. injection E as E1 E2. rewrite E1.
        rewrite (proj1 (mark_dirty_running s [a] ctx Er)). apply in_app_iff. right. now left.
      + pose proof (update_gc_dg t (root_bytes r) 0 s) as E. unfold dg in E. injection E as E1 E2. rewrite E1.
        rewrite (proj1 (mark_dirty_running s [root_bytes r] ctx Er)). apply in_app_iff. right. now left.
    - simpl. pose proof (set_dg capacity t m r addrs s) as E. unfold dg in E. injection E as E1 E2. rewrite E1.
      rewrite (proj1 (mark_dirty_running s addrs ctx Er)). apply in_app_iff. now right.
  Qed.

  (** the clause *)
  Lemma touched_not_evicted (x : sys) (p : gcprog) root o (h : list gop2) :
    s_gcrun (ls x) <> None ->
    (forall kc, In kc (p_rec p) -> snd (fst kc) <> root) ->
    touches root (ls x) o -> ls_call o = true ->
    Forall (fun o' => o' <> H1 GGcEnd) h ->
    let y := fold_left (fun z o' => fst (gstep2 cat po capacity z o')) (H1 (GLs o) :: h) (x, p) in
    forall kc, In kc (end_recycled y) -> snd (fst kc) <> root.
  Proof.
    intros Hrun Hrec Ht Hc Hf y. apply Q_end. unfold y. simpl fold_left. apply Q_run; [exact Hf|].
    pose proof (step_K o (ls x) Hc) as [K1 K2]. pose proof (touch_dirty root (ls x) o Hrun Ht) as Hd.
    unfold Q. cbv beta iota delta [gstep2 gstep fst snd]. rewrite Hc.
    destruct (step po capacity (ls x) o) as [s' r]. cbn [fst snd ls] in *.
    split; [now rewrite K2|]. split; [exact Hd | exact Hrec].
  Qed.
End Step.

(** ** witnesses (evaluated) *)
Require Import Aurora.C12.Witness.
Definition run2 (cap : N) (h : list gop2) : sys * gcprog :=
  fold_left (fun z o => fst (gstep2 cat0 po0 cap z o)) h (sys_init, prog0).
Definition cacheA2 : list gop2 := map H1 [req 1 rA rA; GReg rA; req 2 rA x1; req 3 rA x2; GGcBegin 1 10000].
Definition pinA : gop2 := H1 (GLs (OSet 9 SPin (Some rA) [rA; x1; x2])).

(** the pin arrives before the DelFile call of the file: nothing is evicted;
    it arrives after the call and before the final section: the chunks go, the pins stay *)
Lemma pin_before_and_after_closure :
  (let y := run2 2 (cacheA2 ++ [pinA; HGcStep rA; H1 GGcEnd]) in
   data_has (ls (fst y)) x1 = true /\ pin_get (ls (fst y)) x1 = Some 1 /\ data_has (ls (fst y)) rA = true) /\
  (let y0 := run2 2 (cacheA2 ++ [HGcStep rA; pinA]) in
   let y := run2 2 (cacheA2 ++ [HGcStep rA; pinA; H1 GGcEnd]) in
   data_has (ls (fst y0)) x1 = true /\ pin_get (ls (fst y0)) x1 = Some 1 /\
   data_has (ls (fst y)) x1 = false /\ pin_get (ls (fst y)) x1 = Some 1).
Proof. vm_compute. repeat split; reflexivity. Qed.
