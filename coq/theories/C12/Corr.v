(** C12 / C16 — correspondence.  The harness (harness/gcx) runs a history on the
    real stack (localstore.DB + netstore + traversal + pinning + chunkinfo +
    the HTTP API, wired as pkg/node does) and records

      - every state-changing localstore call made by any component (Put, Set,
        Get/GetMulti in ModeGetRequest) with its result and the index dump
        taken right after it          -> [XLs], checked against C11's [step];
      - every root that chunkinfo registered during a high-level operation
        (difference of the hashData tables)   -> [XReg];
      - DELETE /aurora/{root}: status, the order in which the closure removed
        the chunks, the dump after the handler returned   -> [XDelete];
      - a synchronous collection run (VerifCollectGarbage with the REAL chunkinfo behind
        db.discover, through a wrapper that sees every DelFile call): candidate selection
        [XGcBegin], one [XGcStep] per DelFile call, the final section [XGcEnd]; operations
        injected after selection, before a DelFile call and after it appear in between;

    and after every step the index dump (as a difference to the previous
    one) and the pyramid tables of chunkinfo (hashData, reference counts).
    [check_case] replays the steps on the model and compares observation,
    localstore state and chunkinfo tables after EVERY step.

    Addresses are indexes into the case's universe; the payload of a chunk is
    represented by the one-element token [[index]] (localstore never looks
    into a payload; the harness checks the real bytes). *)
From Coq Require Import List NArith ZArith Bool.
Import ListNotations.
Require Import Aurora.Base.Corr Aurora.Consts Aurora.C20.Model.
Require Export Aurora.C11.Model Aurora.C11.Corr Aurora.C12.Model.
Local Open Scope N_scope.

(** index dump as a difference to the previous dump: upserts and deletions per index *)
Inductive gdump :=
| GD (dataup : rows) (datadel : nl) (accup : rows) (accdel : nl) (gcup gcdel : rows)
     (pinup : rows) (pindel : nl) (binsup : rows) (gcsize : N) (running : bool) (dirty : nl).

(** chunkinfo pyramid tables: [Same] or hashData rows (R4 root hashMax chunkMax 0) and count rows (R2 cid n) *)
Inductive cidump := CiSame | CiSkip | CiNow (hash : rows) (chunk : rows).
(* [CiSkip]: tables not observed at this step (a registration in the middle of an operation) *)

Inductive gcop :=
| XLs (o : cop)
| XReg (root : N)
| XDelete (root : N) (order : nl)
| XGcBegin (target batchsz : N)
| XGcStep (root : N)                 (* one DelFile(root, closure) call of the run has returned *)
| XGcEnd.
Inductive gcobs := YLs (q : cobs) | YDone | YDel (ok : bool).

Inductive gsteps := GSE | GSC (o : gcop) (q : gcobs) (d : gdump) (c : cidump) (t : gsteps).
Inductive ccat := CE | CC (root : N) (leaves edges probe : nl) (t : ccat).
Inductive case := CSys (base : nl) (cap : N) (univ : univs) (cat : ccat) (st : gsteps).

Section Tr.
  Variable univ : list addr.
  Notation A := (Aurora.C11.Corr.A univ).

  Fixpoint tr_cat (c : ccat) : catalogue :=
    match c with
    | CE => []
    | CC r l e p t => ainsert cmp_bytes (A r) {| f_leaves := map A (nl_list l); f_edges := map A (nl_list e); f_probe := map A (nl_list p) |} (tr_cat t)
    end.

  Definition tr_gop (o : gcop) : gop2 :=
    match o with
    | XLs o' => H1 (GLs (tr_op univ o'))
    | XReg r => H1 (GReg (A r))
    | XDelete r order => H1 (GDelete (A r) (map A (nl_list order)))
    | XGcBegin t b => H1 (GGcBegin t b)
    | XGcStep r => HGcStep (A r)
    | XGcEnd => H1 GGcEnd
    end.

  Definition up_data (m : list (addr * dentry)) (r : rows) := fold_left (fun m kv => ainsert cmp_bytes (fst kv) (snd kv) m) (r_data univ r) m.
  Definition up_amap (m : list (addr * N)) (r : rows) := fold_left (fun m kv => ainsert cmp_bytes (fst kv) (snd kv) m) (r_amap univ r) m.
  Definition up_gc (m : list (gckey * N)) (r : rows) := fold_left (fun m kv => ainsert cmp_gckey (fst kv) (snd kv) m) (r_gc univ r) m.
  Definition up_bins (m : list (N * N)) (r : rows) := fold_left (fun m kv => ainsert N.compare (fst kv) (snd kv) m) (r_pairs r) m.
  Definition del_addrs {V} (m : list (addr * V)) (l : nl) := fold_left (fun m a => aremove cmp_bytes (A a) m) (nl_list l) m.
  Definition del_gc (m : list (gckey * N)) (r : rows) := fold_left (fun m kv => aremove cmp_gckey (fst kv) m) (r_gc univ r) m.

  (** the observed state after a step, from the observed state before it *)
  Definition tr_gdump (prev : state) (d : gdump) : state :=
    match d with
    | GD du dd au ad gu gd pu pd bu gs run dirty =>
      {| s_data := up_data (del_addrs (s_data prev) dd) du;
         s_access := up_amap (del_addrs (s_access prev) ad) au;
         s_gc := up_gc (del_gc (s_gc prev) gd) gu;
         s_pin := up_amap (del_addrs (s_pin prev) pd) pu;
         s_bins := up_bins (s_bins prev) bu;
         s_gcsize := gs;
         s_gcrun := if run then Some {| g_cands := []; g_target := 0 |} else None;
         s_dirty := map A (nl_list dirty) |}
    end.

  Fixpoint r_hash (r : rows) : list (addr * (N * N)) :=
    match r with R4 a h c _ t => (A a, (h, c)) :: r_hash t | _ => [] end.
  Definition tr_cidump (prev : cistate) (d : cidump) : cistate :=
    match d with
    | CiSame | CiSkip => prev
    | CiNow h c => {| ci_hash := r_hash h; ci_chunk := r_amap univ c |}
    end.
End Tr.

(** observations in one vocabulary *)
Inductive gvobs := WLs (v : vobs) | WDone | WDel (ok : bool) | WBad.
Definition gv_model (r : gobs) : gvobs :=
  match r with GO o => WLs (v_model o) | GDone => WDone | GDel ok => WDel ok | GBad => WBad end.
Definition gv_obs (q : gcobs) : gvobs :=
  match q with YLs q' => WLs (v_obs q') | YDone => WDone | YDel ok => WDel ok end.
Definition gvobs_eqb (x y : gvobs) : bool :=
  match x, y with
  | WLs a, WLs b => vobs_eqb a b
  | WDone, WDone => true
  | WDel a, WDel b => Bool.eqb a b
  | _, _ => false
  end.

Definition ci_eqb (m o : cistate) : bool :=
  list_eqb (pair_eqb abytes_eqb (pair_eqb N.eqb N.eqb)) (ci_hash m) (ci_hash o)
  && list_eqb (pair_eqb abytes_eqb N.eqb) (ci_chunk m) (ci_chunk o).

(** index of the first step on which model and implementation disagree
    (with the model's observation, localstore state and chunkinfo tables there) *)
Fixpoint gfirst_bad (cat : catalogue) (po : addr -> N) (cap : N) (univ : list addr) (x : sys) (pg : gcprog) (ob : sys)
         (st : gsteps) (i : N) : option (N * gvobs * sys) :=
  match st with
  | GSE => None
  | GSC o q d c rest =>
      let '(x', pg', r) := gstep2 cat po cap (x, pg) (tr_gop univ o) in
      let ob' := {| ls := tr_gdump univ (ls ob) d;
                    ci := match c with CiSkip => ci x' | _ => tr_cidump univ (ci ob) c end |} in
      if gvobs_eqb (gv_model r) (gv_obs q) && state_eqb (ls x') (ls ob') && ci_eqb (ci x') (ci ob')
      then gfirst_bad cat po cap univ x' pg' ob' rest (i + 1)
      else Some (i, gv_model r, x')
  end.

Definition run_case (c : case) :=
  match c with
  | CSys base cap univ cat st =>
      let u := univ_list univ in
      gfirst_bad (tr_cat u cat) (po_of (nl_list base)) cap u sys_init prog0 sys_init st 0
  end.
Definition check_case (c : case) : bool := match run_case c with None => true | Some _ => false end.
Definition explain_case (c : case) := run_case c.
