(** C12 / C16 — histories: the reference counts stay exact along every history
    in which [DelFile] is only ever run on a registered root ([guarded]), and
    what that gives for a collection run and for a DELETE. *)
From Coq Require Import List NArith ZArith Bool Lia.
Import ListNotations.
Require Import Aurora.C11.Model Aurora.C11.Maps Aurora.C12.Model Aurora.C12.ProofsCi Aurora.C12.ProofsFrame
        Aurora.C12.ProofsGc Aurora.C12.ProofsDel Aurora.C12.Witness.
Local Open Scope N_scope.

Section Hist.
  Variable cat : catalogue.
  Variable po : addr -> N.
  Variable capacity : N.

  (** the eviction loop keeps the counts exact *)
  Lemma evict_RC cands : forall s c b n recycled s1 c1 b1 n1 rec1,
    gc_evict_ci cat s c b n cands recycled = (s1, c1, b1, n1, rec1) ->
    RC cat c -> RC cat c1.
  Proof.
    induction cands as [|[k g] rest IH]; intros s c b n recycled s1 c1 b1 n1 rec1 H Hrc; simpl in H.
    - now inversion H; subst.
    - destruct (trav cat s (snd k)) as [sh|] eqn:E; [|eapply IH; eauto].
      pose proof (trav_cat cat _ _ _ E) as Ec.
      assert (R0 : RC cat (register_ci c (snd k) sh)) by now apply RC_register_ci.
      destruct (mem_addr (snd k) (s_dirty s)); [eapply IH; eauto|].
      destruct (gc_chunks s b 0 (unrepeat (register_ci c (snd k) sh) sh)) as [[s' b'] m].
      eapply IH; [exact H|]. apply (RC_del_root cat); auto. apply registered_register_same.
  Qed.

  (** every operation keeps the counts exact *)
  Lemma RC_step x o : RC cat (ci x) -> RC cat (ci (fst (gstep cat po capacity x o))).
  Proof.
    intros Hrc. destruct o as [o'|root|root order|t bs|]; simpl.
    - destruct (ls_call o'); [|exact Hrc]. destruct (step po capacity (ls x) o'). exact Hrc.
    - now apply RC_register.
    - destruct (api_delete cat capacity root order x) as [x' ob] eqn:E. simpl.
      exact (api_delete_RC cat capacity root order x x' ob E Hrc).
    - destruct (gc_begin t bs (ls x)). exact Hrc.
    - unfold gc_end_ci. destruct (s_gcrun (ls x)) as [ctx|]; [|exact Hrc].
      destruct (gc_evict_ci cat (ls x) (ci x) [] 0 (g_cands ctx) []) as [[[[s1 c1] b1] n] recycled] eqn:E.
      simpl. eapply evict_RC; eauto.
  Qed.

  Lemma RC_history h : forall x, RC cat (ci x) -> RC cat (ci (gexec cat po capacity x h)).
  Proof.
    induction h as [|o t IH]; intros x Hrc; simpl in *; [exact Hrc|].
    apply IH. now apply RC_step.
  Qed.

  (** *** readability *)
  Lemma readable_same x x' r sh :
    cat_get cat r = Some sh ->
    (forall a, In a (cidset sh) -> data_get (ls x') a = data_get (ls x) a) ->
    readable cat (ls x') r = readable cat (ls x) r.
  Proof.
    intros Ec H. unfold readable. rewrite Ec.
    induction (cidset sh) as [|a l IH]; simpl; [reflexivity|].
    rewrite IH by (intros b Hb; apply H; now right).
    unfold data_has, ahas. unfold data_get in H. now rewrite (H a (or_introl eq_refl)).
  Qed.

  (** *** the statements of Props.v *)
  Definition gc_run (x : sys) : sys := fst (gstep cat po capacity x GGcEnd).
  Definition delete_run (root : addr) (order : list addr) (x : sys) : sys := fst (gstep cat po capacity x (GDelete root order)).

  Lemma gc_frame_thm (x : sys) ctx a :
    s_gcrun (ls x) = Some ctx ->
    (forall r sh, In r (cand_roots (g_cands ctx)) -> cat_get cat r = Some sh -> ~ In a (cidset sh)) ->
    ~ In a (cand_roots (g_cands ctx)) ->
    data_get (ls (gc_run x)) a = data_get (ls x) a /\ pin_get (ls (gc_run x)) a = pin_get (ls x) a.
  Proof.
    intros Hrun Hout Hroot. unfold gc_run. simpl.
    destruct (gc_end_ci cat x) as [x' o] eqn:E. exact (gc_end_frame cat a x x' o ctx E Hrun Hout Hroot).
  Qed.

  Lemma refcount_thm (h : list gop) :
    let c := ci (gexec cat po capacity sys_init h) in
    NoDup (map fst (ci_hash c)) /\ forall a, cnt c a = refs cat c a.
  Proof. exact (RC_history h sys_init (RC_init cat)). Qed.

  Lemma gc_protects_thm (h : list gop) ctx rb shb a :
    let x := gexec cat po capacity sys_init h in
    s_gcrun (ls x) = Some ctx ->
    registered (ci x) rb = true -> cat_get cat rb = Some shb -> ~ In rb (cand_roots (g_cands ctx)) ->
    In a (cidset shb) -> ~ In a (cand_roots (g_cands ctx)) ->
    data_get (ls (gc_run x)) a = data_get (ls x) a /\ pin_get (ls (gc_run x)) a = pin_get (ls x) a.
  Proof.
    intros x Hrun Hreg Hcat Hnc Hin Hroot.
    pose proof (RC_history h sys_init (RC_init cat)) as Hrc. fold x in Hrc.
    unfold gc_run. simpl. destruct (gc_end_ci cat x) as [x' o] eqn:E.
    destruct (gc_end_protects cat a rb shb x x' o ctx E Hrun Hrc Hreg Hcat Hnc Hin Hroot) as (A & B & _).
    split; assumption.
  Qed.

  (** a root that is not a candidate stays registered through the loop *)
  Lemma evict_registered rb cands : forall s c b n recycled s1 c1 b1 n1 rec1,
    gc_evict_ci cat s c b n cands recycled = (s1, c1, b1, n1, rec1) ->
    ~ In rb (cand_roots cands) -> registered c1 rb = registered c rb.
  Proof.
    induction cands as [|[k g] rest IH]; intros s c b n recycled s1 c1 b1 n1 rec1 H Hn; simpl in H.
    - now inversion H; subst.
    - assert (Hn' : ~ In rb (cand_roots rest)) by (intros Hr; apply Hn; now right).
      assert (Hne : rb <> snd k) by (intros E; apply Hn; left; now rewrite E).
      destruct (trav cat s (snd k)) as [sh|]; [|eapply IH; eauto].
      destruct (mem_addr (snd k) (s_dirty s)).
      + rewrite (IH _ _ _ _ _ _ _ _ _ _ H Hn'). now apply registered_register_other.
      + destruct (gc_chunks s b 0 (unrepeat (register_ci c (snd k) sh) sh)) as [[s' b'] m].
        rewrite (IH _ _ _ _ _ _ _ _ _ _ H Hn'). rewrite registered_del_other by exact Hne.
        now apply registered_register_other.
  Qed.

  (** C16, eviction: every other registered file keeps every chunk (bytes and pin), stays
      as readable as it was and stays registered, provided no candidate root is one of its chunks *)
  Lemma gc_others_thm (h : list gop) ctx rb shb :
    let x := gexec cat po capacity sys_init h in
    s_gcrun (ls x) = Some ctx ->
    registered (ci x) rb = true -> cat_get cat rb = Some shb -> ~ In rb (cand_roots (g_cands ctx)) ->
    (forall r, In r (cand_roots (g_cands ctx)) -> ~ In r (cidset shb)) ->
    (forall a, In a (cidset shb) ->
       data_get (ls (gc_run x)) a = data_get (ls x) a /\ pin_get (ls (gc_run x)) a = pin_get (ls x) a) /\
    readable cat (ls (gc_run x)) rb = readable cat (ls x) rb /\
    registered (ci (gc_run x)) rb = true.
  Proof.
    intros x Hrun Hreg Hcat Hnc Hroots.
    assert (K : forall a, In a (cidset shb) ->
       data_get (ls (gc_run x)) a = data_get (ls x) a /\ pin_get (ls (gc_run x)) a = pin_get (ls x) a).
    { intros a Hin. apply (gc_protects_thm h ctx rb shb a); auto. intros Hr. exact (Hroots a Hr Hin). }
    split; [exact K|]. split.
    - apply (readable_same x (gc_run x) rb shb Hcat). intros a Ha. exact (proj1 (K a Ha)).
    - unfold gc_run. simpl. unfold gc_end_ci. rewrite Hrun.
      destruct (gc_evict_ci cat (ls x) (ci x) [] 0 (g_cands ctx) []) as [[[[s1 c1] b1] n] recycled] eqn:Ev.
      simpl. rewrite (evict_registered rb _ _ _ _ _ _ _ _ _ _ _ Ev Hnc). exact Hreg.
  Qed.

  (** C16, DELETE: every other registered file keeps every chunk, stays as readable as it was
      and stays registered *)
  Lemma delete_others_thm (h : list gop) root order rb shb :
    let x := gexec cat po capacity sys_init h in
    registered (ci x) rb = true -> cat_get cat rb = Some shb -> rb <> root ->
    (forall a, In a (cidset shb) ->
       data_get (ls (delete_run root order x)) a = data_get (ls x) a /\
       pin_get (ls (delete_run root order x)) a = pin_get (ls x) a) /\
    readable cat (ls (delete_run root order x)) rb = readable cat (ls x) rb /\
    registered (ci (delete_run root order x)) rb = true.
  Proof.
    intros x Hreg Hcat Hne.
    pose proof (RC_history h sys_init (RC_init cat)) as Hrc. fold x in Hrc.
    unfold delete_run. simpl. destruct (api_delete cat capacity root order x) as [x' o] eqn:E. simpl.
    assert (K : forall a, In a (cidset shb) -> data_get (ls x') a = data_get (ls x) a /\ pin_get (ls x') a = pin_get (ls x) a).
    { intros a Hin.
      destruct (api_delete_protects cat capacity a root order rb shb x x' o E Hrc Hreg Hcat Hne Hin) as [S _]. exact S. }
    split; [exact K|]. split.
    - apply (readable_same x x' rb shb Hcat). intros a Ha. exact (proj1 (K a Ha)).
    - destruct (cidset shb) as [|a0 l] eqn:El.
      + destruct (api_delete_ci cat capacity root order x x' o E) as [ -> | [sh [Et [ -> | -> ]]]]; [exact Hreg| |].
        * now apply registered_register_mono.
        * rewrite registered_del_other by exact Hne. now apply registered_register_mono.
      + assert (Ha0 : In a0 (cidset shb)) by (rewrite El; now left).
        destruct (api_delete_protects cat capacity a0 root order rb shb x x' o E Hrc Hreg Hcat Hne Ha0) as (_ & _ & R). exact R.
  Qed.
End Hist.
