(** C09 — property theorems only.  The general lemmas are parametric in the chunk
    size and the reference length; here they are instantiated at the constants
    re-extracted from pkg/boson and pkg/encryption on every run ([Consts.v]):
    [enc = false]: 32-byte references, [enc = true]: 64-byte references.

    Reading guide.  [tree] is a stored file: data chunks ([Leaf], with their
    length) and intermediate chunks ([Node], with their children); every node
    carries the reference (address, key) under which it was written.
    [entries p t] are the chunks written for it, [written t] their addresses
    (one per Put).  [wf_file p L t] is the decidable shape the hashtrie writer
    guarantees (levels wrapped at [branching] references, a lone reference
    carried up), [NoCollisionAmong st] the explicit collision hypothesis on
    the store content.  [traverse_file] / [chunk_hashes_file] / [pyramid_file]
    are the transcriptions of Traverse / GetChunkHashes(nil) / GetPyramid on a
    file reference, [traverse_manifest] / [pyramid_manifest] of the same calls
    on a manifest reference whose loaded trie is [erase m]. *)
From Coq Require Import List NArith ZArith Bool Lia Permutation.
Import ListNotations.
Require Import Aurora.Consts Aurora.C09.Model Aurora.C09.Proofs Aurora.C09.Partition Aurora.C09.Final.
Local Open Scope Z_scope.

Definition params_of (enc : bool) : params :=
  mkParams Consts.boson_ChunkSize (if enc then Consts.encryption_ReferenceSize else Consts.boson_HashSize).

(** side conditions on the constants, re-checked by computation on every run *)
Lemma consts_ok_C09 : forall enc, side (params_of enc) = true.
Proof. intros [|]; vm_compute; reflexivity. Qed.

(** Traverse of a stored file reports exactly the chunks written for it: the
    report list IS the list of written addresses (parents before children, one
    report per Put, duplicates included), in any store that contains the file's
    chunks and has no address collision. *)
Theorem C09_file_exact : forall (enc : bool) (L : nat) (t : tree) (st : store),
  (L <= depth_fuel)%nat -> wf_file (params_of enc) L t = true ->
  NoCollisionAmong st -> incl (entries (params_of enc) t) st ->
  traverse_file (params_of enc) st (tref t) = LDone (written t).
Proof. intros enc. exact (file_exact_gen (params_of enc) (consts_ok_C09 enc)). Qed.
Print Assumptions C09_file_exact.

(** the data-chunk list is the list of leaves in file order *)
Theorem C09_data_chunks : forall (enc : bool) (L : nat) (t : tree) (st : store),
  (L <= depth_fuel)%nat -> wf_file (params_of enc) L t = true ->
  NoCollisionAmong st -> incl (entries (params_of enc) t) st ->
  chunk_hashes_file (params_of enc) st (tref t) = LDone (leaves t).
Proof. intros enc. exact (data_chunks_gen (params_of enc) (consts_ok_C09 enc)). Qed.
Print Assumptions C09_data_chunks.

(** the pyramid holds the intermediate chunks (root included); for a one-chunk file, that chunk *)
Theorem C09_pyramid : forall (enc : bool) (L : nat) (t : tree) (st : store),
  (L <= depth_fuel)%nat -> wf_file (params_of enc) L t = true ->
  NoCollisionAmong st -> incl (entries (params_of enc) t) st ->
  pyramid_file (params_of enc) st (tref t) = LDone (pyramid_of t).
Proof. intros enc. exact (pyramid_gen (params_of enc) (consts_ok_C09 enc)). Qed.
Print Assumptions C09_pyramid.

(** data chunks and pyramid chunks are subsets of the written chunks and cover
    them; as multisets the written chunks are the leaves plus the intermediate
    chunks; for a multi-chunk file the two parts are disjoint (or two written
    chunks collide) *)
Theorem C09_partition : forall (enc : bool) (L : nat) (t : tree),
  wf_file (params_of enc) L t = true -> NoCollisionAmong (entries (params_of enc) t) ->
  (forall a, In a (written t) <-> In a (leaves t) \/ In a (pyramid_of t)) /\
  Permutation (written t) (leaves t ++ inner t) /\
  match t with
  | Leaf _ _ => pyramid_of t = written t /\ leaves t = written t
  | Node _ _ => forall a, In a (leaves t) -> In a (pyramid_of t) -> False
  end.
Proof. intros enc. exact (partition_gen (params_of enc) (consts_ok_C09 enc)). Qed.
Print Assumptions C09_partition.

(** a manifest: traversal = the chunks of every file of the trie (node files
    and the files value nodes point to), pyramid = their pyramids.  Partial: the
    trie [m] is what the mantaray loader produced from the stored nodes; the
    loader (a dependency outside the repository) is not modelled. *)
Theorem C09_manifest_partial : forall (enc : bool) (L : nat) (m : mspec) (st : store),
  (L <= depth_fuel)%nat -> NoCollisionAmong st ->
  (forall t, In t (mfiles m) -> wf_file (params_of enc) L t = true /\ incl (entries (params_of enc) t) st) ->
  traverse_manifest (params_of enc) st (erase m) = LDone (flat_map written (mfiles m)) /\
  pyramid_manifest (params_of enc) st (erase m) = LDone (flat_map pyramid_of (mfiles m)).
Proof. intros enc. exact (manifest_gen (params_of enc) (consts_ok_C09 enc)). Qed.
Print Assumptions C09_manifest_partial.

(** ---- non-vacuity.
    (1) at the real constants: a two-chunk file (root + full data chunk + 1-byte data chunk);
    (2) the shape predicate at small parameters (chunk 8, references 2 bytes, branching 4):
        a four-level tree with a full level-2 subtree, a carried-up data chunk and 31 chunks,
        on which the general theorem's hypotheses hold and the transcription computes [written]. *)
Definition R (a : N) : ref := mkRef a 0%N.
Example C09_hyps_satisfiable_real :
  let p := params_of false in
  let t := Node (R 1) [Leaf (R 2) Consts.boson_ChunkSize; Leaf (R 3) 1] in
  wf_file p 1 t = true /\ no_collision_b (entries p t) = true /\
  traverse_file p (entries p t) (tref t) = LDone [1; 2; 3]%N /\
  chunk_hashes_file p (entries p t) (tref t) = LDone [2; 3]%N /\
  pyramid_file p (entries p t) (tref t) = LDone [1]%N.
Proof. vm_compute. repeat split; reflexivity. Qed.

Fixpoint gen_full (L : nat) (id : N) : tree :=
  match L with
  | O => Leaf (R id) 8
  | S L' => Node (R id) (map (fun i => gen_full L' (id * 4 + i + 1)%N) [0; 1; 2; 3]%N)
  end.
Definition small : params := mkParams 8 2.
Definition deep_tree : tree :=
  Node (R 0) [gen_full 2 1; Node (R 2) [gen_full 1 9; Leaf (R 10) 5]].

Example C09_hyps_satisfiable_deep :
  0 < ref_len small /\ 2 <= branching small /\
  wf_file small 3 deep_tree = true /\ no_collision_b (entries small deep_tree) = true /\
  length (written deep_tree) = 29%nat /\ span deep_tree = 165 /\
  traverse_file small (entries small deep_tree) (tref deep_tree) = LDone (written deep_tree) /\
  chunk_hashes_file small (entries small deep_tree) (tref deep_tree) = LDone (leaves deep_tree) /\
  pyramid_file small (entries small deep_tree) (tref deep_tree) = LDone (inner deep_tree).
Proof. vm_compute. repeat split; try reflexivity; intro H; discriminate H. Qed.
