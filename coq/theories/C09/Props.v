(** C09 — property theorems only.  The general lemmas are parametric in the chunk
    size and the reference length; here they are instantiated at the constants
    re-extracted from pkg/boson and pkg/encryption on every run ([Consts.v]):
    [enc = false]: 32-byte references, [enc = true]: 64-byte references.

    Reading guide.  [tree] is a stored file: data chunks ([Leaf], with their
    length) and intermediate chunks ([Node], with their children); every node
    carries the reference (address, key) under which it was written.
    [entries p t] are the chunks written for it, [written t] their addresses
    (one per Put).  [wf_file p L t] is the decidable shape the hashtrie writer
    guarantees (levels wrapped at [branching] references, a lone reference
    carried up), [NoCollisionAmong st] the explicit collision hypothesis on
    the store content.  [traverse_file] / [chunk_hashes_file] / [pyramid_file]
    are the transcriptions of Traverse / GetChunkHashes(nil) / GetPyramid on a
    file reference, [traverse_manifest] / [pyramid_manifest] of the same calls
    on a manifest reference whose loaded trie is [erase m]. *)
From Coq Require Import List NArith ZArith Bool Lia Permutation.
Import ListNotations.
Require Import Aurora.Consts Aurora.C09.Model Aurora.C09.Proofs Aurora.C09.Partition Aurora.C09.Final Aurora.C09.ManifestFull.
Local Open Scope Z_scope.

Definition params_of (enc : bool) : params :=
  mkParams Consts.boson_ChunkSize (if enc then Consts.encryption_ReferenceSize else Consts.boson_HashSize).

(** side conditions on the constants, re-checked by computation on every run *)
Lemma consts_ok_C09 : forall enc, side (params_of enc) = true.
Proof. intros [|]; vm_compute; reflexivity. Qed.

(** Traverse of a stored file reports exactly the chunks written for it: the
    report list IS the list of written addresses (parents before children, one
    report per Put, duplicates included), in any store that contains the file's
    chunks and has no address collision. *)
Theorem C09_file_exact : forall (enc : bool) (L : nat) (t : tree) (st : store),
  (L <= depth_fuel)%nat -> wf_file (params_of enc) L t = true ->
  NoCollisionAmong st -> incl (entries (params_of enc) t) st ->
  traverse_file (params_of enc) st (tref t) = LDone (written t).
Proof. intros enc. exact (file_exact_gen (params_of enc) (consts_ok_C09 enc)). Qed.
Print Assumptions C09_file_exact.

(** the data-chunk list is the list of leaves in file order *)
Theorem C09_data_chunks : forall (enc : bool) (L : nat) (t : tree) (st : store),
  (L <= depth_fuel)%nat -> wf_file (params_of enc) L t = true ->
  NoCollisionAmong st -> incl (entries (params_of enc) t) st ->
  chunk_hashes_file (params_of enc) st (tref t) = LDone (leaves t).
Proof. intros enc. exact (data_chunks_gen (params_of enc) (consts_ok_C09 enc)). Qed.
Print Assumptions C09_data_chunks.

(** the pyramid holds the intermediate chunks (root included); for a one-chunk file, that chunk *)
Theorem C09_pyramid : forall (enc : bool) (L : nat) (t : tree) (st : store),
  (L <= depth_fuel)%nat -> wf_file (params_of enc) L t = true ->
  NoCollisionAmong st -> incl (entries (params_of enc) t) st ->
  pyramid_file (params_of enc) st (tref t) = LDone (pyramid_of t).
Proof. intros enc. exact (pyramid_gen (params_of enc) (consts_ok_C09 enc)). Qed.
Print Assumptions C09_pyramid.

(** data chunks and pyramid chunks are subsets of the written chunks and cover
    them; as multisets the written chunks are the leaves plus the intermediate
    chunks; for a multi-chunk file the two parts are disjoint (or two written
    chunks collide) *)
Theorem C09_partition : forall (enc : bool) (L : nat) (t : tree),
  wf_file (params_of enc) L t = true -> NoCollisionAmong (entries (params_of enc) t) ->
  (forall a, In a (written t) <-> In a (leaves t) \/ In a (pyramid_of t)) /\
  Permutation (written t) (leaves t ++ inner t) /\
  match t with
  | Leaf _ _ => pyramid_of t = written t /\ leaves t = written t
  | Node _ _ => forall a, In a (leaves t) -> In a (pyramid_of t) -> False
  end.
Proof. intros enc. exact (partition_gen (params_of enc) (consts_ok_C09 enc)). Qed.
Print Assumptions C09_partition.

(** a manifest inside the domain the mantaray model of C10 proves (every history of
    add / remove / lookup / hasPrefix / store / reload in [in_proved_domain] = C10's
    [disciplined], once it has been stored; no collision among the saved node payloads;
    any content-address function [addr] with 32-byte output, any obfuscation key):
    a fresh reference to the stored address loads completely ([loads_to]: WalkNode's
    lazy loading over C10's byte-level decoder, for every recursion budget from [F0] on);
    the references IterateAddresses hands to the file traversal are exactly the addresses
    of the saved node payloads and the non-zero references of the directory ([dir_spec] =
    the last entry written per path); and if each of them is the root of a well-formed file
    whose chunks are in the collision-free chunk store, Traverse / GetPyramid report exactly
    those files' chunks / pyramids.  [rid] translates reference bytes into the chunk model's
    references (arbitrary). *)
Theorem C09_manifest : forall (enc : bool) (rid : list N -> ref) (addr : list N -> list N) (kg : list N),
  (forall d, length (addr d) = 32%nat) -> length kg = 32%nat ->
  forall (menc : bool) (h : MT.history) (a : list N),
  MT.in_proved_domain h -> MT.payloads_collision_free addr kg menc h -> MT.stored_at addr kg menc h = Some a ->
  exists F0 : nat, forall F : nat, (F0 <= F)%nat -> exists m : mnode,
    MT.loads_to rid addr kg menc h F a m /\
    (forall r, In r (mrefs m) <->
       (exists b, In b (MT.payloads addr kg menc h) /\ r = rid (addr b)) \/
       (exists q e md, MT.dir_spec h q = Some (e, md) /\ MT.all_zero e = false /\ r = rid e)) /\
    forall (L : nat) (st : store) (files : ref -> tree),
      (L <= depth_fuel)%nat -> NoCollisionAmong st ->
      (forall r, In r (mrefs m) ->
         tref (files r) = r /\ wf_file (params_of enc) L (files r) = true /\ incl (entries (params_of enc) (files r)) st) ->
      traverse_manifest (params_of enc) st m = LDone (flat_map (fun r => written (files r)) (mrefs m)) /\
      pyramid_manifest (params_of enc) st m = LDone (flat_map (fun r => pyramid_of (files r)) (mrefs m)).
Proof. intros enc. exact (manifest_full_gen (params_of enc) (consts_ok_C09 enc)). Qed.
Print Assumptions C09_manifest.

(** outside that domain (histories C10 excludes because the dependency misbehaves there:
    removal of a prefix path, metadata overwrite with empty metadata, add/remove after a
    Store; encrypted 64-byte file references; the empty path): the loaded trie [erase m] is
    taken as given, whatever the loader produced, and the traversal is the concatenation
    over it.  Partial: nothing is claimed about what the loader produces there. *)
Theorem C09_manifest_partial : forall (enc : bool) (L : nat) (m : mspec) (st : store),
  (L <= depth_fuel)%nat -> NoCollisionAmong st ->
  (forall t, In t (mfiles m) -> wf_file (params_of enc) L t = true /\ incl (entries (params_of enc) t) st) ->
  traverse_manifest (params_of enc) st (erase m) = LDone (flat_map written (mfiles m)) /\
  pyramid_manifest (params_of enc) st (erase m) = LDone (flat_map pyramid_of (mfiles m)).
Proof. intros enc. exact (manifest_gen (params_of enc) (consts_ok_C09 enc)). Qed.
Print Assumptions C09_manifest_partial.

(** ---- non-vacuity.
    (1) at the real constants: a two-chunk file (root + full data chunk + 1-byte data chunk);
    (2) the shape predicate at small parameters (chunk 8, references 2 bytes, branching 4):
        a four-level tree with a full level-2 subtree, a carried-up data chunk and 31 chunks,
        on which the general theorem's hypotheses hold and the transcription computes [written]. *)
Definition R (a : N) : ref := mkRef a 0%N.
Example C09_hyps_satisfiable_real :
  let p := params_of false in
  let t := Node (R 1) [Leaf (R 2) Consts.boson_ChunkSize; Leaf (R 3) 1] in
  wf_file p 1 t = true /\ no_collision_b (entries p t) = true /\
  traverse_file p (entries p t) (tref t) = LDone [1; 2; 3]%N /\
  chunk_hashes_file p (entries p t) (tref t) = LDone [2; 3]%N /\
  pyramid_file p (entries p t) (tref t) = LDone [1]%N.
Proof. vm_compute. repeat split; reflexivity. Qed.

Fixpoint gen_full (L : nat) (id : N) : tree :=
  match L with
  | O => Leaf (R id) 8
  | S L' => Node (R id) (map (fun i => gen_full L' (id * 4 + i + 1)%N) [0; 1; 2; 3]%N)
  end.
Definition small : params := mkParams 8 2.
Definition deep_tree : tree :=
  Node (R 0) [gen_full 2 1; Node (R 2) [gen_full 1 9; Leaf (R 10) 5]].

Example C09_hyps_satisfiable_deep :
  0 < ref_len small /\ 2 <= branching small /\
  wf_file small 3 deep_tree = true /\ no_collision_b (entries small deep_tree) = true /\
  length (written deep_tree) = 29%nat /\ span deep_tree = 165 /\
  traverse_file small (entries small deep_tree) (tref deep_tree) = LDone (written deep_tree) /\
  chunk_hashes_file small (entries small deep_tree) (tref deep_tree) = LDone (leaves deep_tree) /\
  pyramid_file small (entries small deep_tree) (tref deep_tree) = LDone (inner deep_tree).
Proof. vm_compute. repeat split; try reflexivity; intro H; discriminate H. Qed.

(** (3) the manifest theorem's hypotheses: a directory of two files (one with metadata) built
    and stored under C10's toy address function lies in the proved domain, its three node
    payloads do not collide, and the stored manifest loads into a trie with three node
    references and two entry references. *)
Example C09_manifest_hyps_satisfiable :
  MT.in_proved_domain MT.ex_history /\
  (forall d, length (Aurora.C10.Spec.toy_addr d) = 32%nat) /\ length Aurora.C10.Refute.zkey = 32%nat /\
  MT.payloads_collision_free Aurora.C10.Spec.toy_addr Aurora.C10.Refute.zkey false MT.ex_history /\
  exists a m, MT.stored_at Aurora.C10.Spec.toy_addr Aurora.C10.Refute.zkey false MT.ex_history = Some a /\
    MT.loads_to MT.ex_rid Aurora.C10.Spec.toy_addr Aurora.C10.Refute.zkey false MT.ex_history 4 a m /\
    length (self_refs m) = 3%nat /\ length (entry_refs m) = 2%nat /\
    length (MT.payloads Aurora.C10.Spec.toy_addr Aurora.C10.Refute.zkey false MT.ex_history) = 3%nat.
Proof. exact (conj MT.ex_history_ok MT.ex_history_facts). Qed.
