(** C09 — manifests inside the domain C10 proves: the mantaray loader is no longer an
    input.  Combines [Mantaray.manifest_loads] (what a fresh reference to a stored
    manifest loads) with the chunk-level traversal of the loaded trie. *)
From Coq Require Import List NArith ZArith Bool Lia.
Import ListNotations.
Require Import Aurora.C09.Model Aurora.C09.Proofs Aurora.C09.Partition Aurora.C09.Final.
Require Aurora.C09.Mantaray.
Module MT := Aurora.C09.Mantaray.

Theorem manifest_full_gen : forall p, side p = true ->
  forall (rid : list N -> ref) (addr : list N -> list N) (kg : list N),
  (forall d, length (addr d) = 32%nat) -> length kg = 32%nat ->
  forall (menc : bool) (h : MT.history) (a : list N),
  MT.in_proved_domain h -> MT.payloads_collision_free addr kg menc h -> MT.stored_at addr kg menc h = Some a ->
  exists F0 : nat, forall F : nat, (F0 <= F)%nat -> exists m : mnode,
    MT.loads_to rid addr kg menc h F a m /\
    (forall r, In r (mrefs m) <->
       (exists b, In b (MT.payloads addr kg menc h) /\ r = rid (addr b)) \/
       (exists q e md, MT.dir_spec h q = Some (e, md) /\ MT.all_zero e = false /\ r = rid e)) /\
    forall (L : nat) (st : store) (files : ref -> tree),
      (L <= depth_fuel)%nat -> NoCollisionAmong st ->
      (forall r, In r (mrefs m) ->
         tref (files r) = r /\ wf_file p L (files r) = true /\ incl (entries p (files r)) st) ->
      traverse_manifest p st m = LDone (flat_map (fun r => written (files r)) (mrefs m)) /\
      pyramid_manifest p st m = LDone (flat_map (fun r => pyramid_of (files r)) (mrefs m)).
Proof.
  intros p Hs rid addr kg Ha Hk menc h a Hd Hnc Hl.
  destruct (MT.manifest_loads_named rid addr kg Ha Hk menc h a Hd Hnc Hl) as [F0 HF].
  exists F0. intros F HFle. destruct (HF F HFle) as [m [Hld [Hself [Hcov Hent]]]].
  exists m. split; [exact Hld|]. split.
  - intros r. rewrite mrefs_in. split.
    + intros [Hr|Hr]; [left; exact (Hself r Hr) | right; exact (proj1 (Hent r) Hr)].
    + intros [[b [Hb ->]]|Hr]; [left; exact (Hcov b Hb) | right; exact (proj2 (Hent r) Hr)].
  - intros L st files HL Hncs Hfiles. exact (manifest_refs_gen p Hs L m st files HL Hncs Hfiles).
Qed.
