(** C09 — the closed statements, for every parameter pair that passes the
    decidable side condition [side p] (positive reference length, branching >= 2).
    Props.v instantiates them at the constants of the Go source. *)
From Coq Require Import List NArith ZArith Bool Lia Permutation.
From Coq Require Import ZifyBool ZifyNat ZifyN.
Import ListNotations.
Require Import Aurora.C09.Model Aurora.C09.Arith Aurora.C09.Proofs Aurora.C09.Partition.
Local Open Scope Z_scope.

Definition side (p : params) : bool := (0 <? ref_len p) && (2 <=? branching p).
Lemma side_rl p : side p = true -> 0 < ref_len p.
Proof. unfold side. lia. Qed.
Lemma side_br p : side p = true -> 2 <= branching p.
Proof. unfold side. lia. Qed.

Lemma file_exact_gen : forall p, side p = true -> forall (L : nat) (t : tree) (st : store),
  (L <= depth_fuel)%nat -> wf_file p L t = true ->
  NoCollisionAmong st -> incl (entries p t) st ->
  traverse_file p st (tref t) = LDone (written t).
Proof.
  intros p Hs L t st HL Hwf Hnc Hincl.
  exact (traverse_file_ok p (side_rl p Hs) (side_br p Hs) st L t HL Hwf (no_collision_store_ok p t st Hnc Hincl)).
Qed.
Lemma data_chunks_gen : forall p, side p = true -> forall (L : nat) (t : tree) (st : store),
  (L <= depth_fuel)%nat -> wf_file p L t = true ->
  NoCollisionAmong st -> incl (entries p t) st ->
  chunk_hashes_file p st (tref t) = LDone (leaves t).
Proof.
  intros p Hs L t st HL Hwf Hnc Hincl.
  exact (chunk_hashes_file_ok p (side_rl p Hs) (side_br p Hs) st L t HL Hwf (no_collision_store_ok p t st Hnc Hincl)).
Qed.
Lemma pyramid_gen : forall p, side p = true -> forall (L : nat) (t : tree) (st : store),
  (L <= depth_fuel)%nat -> wf_file p L t = true ->
  NoCollisionAmong st -> incl (entries p t) st ->
  pyramid_file p st (tref t) = LDone (pyramid_of t).
Proof.
  intros p Hs L t st HL Hwf Hnc Hincl.
  exact (pyramid_file_ok p (side_rl p Hs) (side_br p Hs) st L t HL Hwf (no_collision_store_ok p t st Hnc Hincl)).
Qed.
Lemma partition_gen : forall p, side p = true -> forall (L : nat) (t : tree),
  wf_file p L t = true -> NoCollisionAmong (entries p t) ->
  (forall a, In a (written t) <-> In a (leaves t) \/ In a (pyramid_of t)) /\
  Permutation (written t) (leaves t ++ inner t) /\
  match t with
  | Leaf _ _ => pyramid_of t = written t /\ leaves t = written t
  | Node _ _ => forall a, In a (leaves t) -> In a (pyramid_of t) -> False
  end.
Proof.
  intros p Hs L t Hwf Hnc. split; [apply cover|]. split; [apply written_partition|].
  destruct t as [r len|r kids]; [split; reflexivity|].
  intros a Hl Hi. unfold wf_file in Hwf. apply andb_true_iff in Hwf as [Hw _].
  exact (leaves_inner_disjoint p (side_rl p Hs) (side_br p Hs) L _ a Hw Hnc Hl Hi).
Qed.
Lemma manifest_gen : forall p, side p = true -> forall (L : nat) (m : mspec) (st : store),
  (L <= depth_fuel)%nat -> NoCollisionAmong st ->
  (forall t, In t (mfiles m) -> wf_file p L t = true /\ incl (entries p t) st) ->
  traverse_manifest p st (erase m) = LDone (flat_map written (mfiles m)) /\
  pyramid_manifest p st (erase m) = LDone (flat_map pyramid_of (mfiles m)).
Proof.
  intros p Hs L m st HL Hnc Hfiles. split; apply walk_ok; intros t Ht; destruct (Hfiles t Ht) as [Hwf Hincl].
  - exact (traverse_file_ok p (side_rl p Hs) (side_br p Hs) st L t HL Hwf (no_collision_store_ok p t st Hnc Hincl)).
  - exact (pyramid_file_ok p (side_rl p Hs) (side_br p Hs) st L t HL Hwf (no_collision_store_ok p t st Hnc Hincl)).
Qed.

(** chunk level of a loaded trie: if every reference the walk hands out is the root of a
    well-formed file whose chunks are in the (collision-free) chunk store, the traversal
    reports exactly those files' chunks *)
Lemma manifest_refs_gen : forall p, side p = true -> forall (L : nat) (m : mnode) (st : store) (files : ref -> tree),
  (L <= depth_fuel)%nat -> NoCollisionAmong st ->
  (forall r, In r (mrefs m) -> tref (files r) = r /\ wf_file p L (files r) = true /\ incl (entries p (files r)) st) ->
  traverse_manifest p st m = LDone (flat_map (fun r => written (files r)) (mrefs m)) /\
  pyramid_manifest p st m = LDone (flat_map (fun r => pyramid_of (files r)) (mrefs m)).
Proof.
  intros p Hs L m st files HL Hnc Hfiles. split; apply walk_mrefs; intros r Hr;
    destruct (Hfiles r Hr) as [Href [Hwf Hincl]]; rewrite <- Href at 1.
  - exact (traverse_file_ok p (side_rl p Hs) (side_br p Hs) st L _ HL Hwf (no_collision_store_ok p _ st Hnc Hincl)).
  - exact (pyramid_file_ok p (side_rl p Hs) (side_br p Hs) st L _ HL Hwf (no_collision_store_ok p _ st Hnc Hincl)).
Qed.
