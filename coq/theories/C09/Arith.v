(** C09 — arithmetic of [subtrieSection]: for an intermediate chunk whose first
    [n-1] children are full subtrees of span [B = chunk * branching^j] and whose
    last child has span [0 < l <= B], the brute-force loop ends on [B] and the
    section of child [i] is its true span; no int64 operation wraps. *)
From Coq Require Import List NArith ZArith Bool Lia.
From Coq Require Import ZifyBool ZifyNat ZifyN.
Import ListNotations.
Require Import Aurora.C09.Model.
Local Open Scope Z_scope.

Lemma wrap64_id z : - two63 <= z < two63 -> wrap64 z = z.
Proof.
  intros Hz. unfold wrap64.
  destruct ((- two63 <=? z) && (z <? two63)) eqn:E; [reflexivity|].
  apply andb_false_iff in E. destruct E as [E|E]; lia.
Qed.

Lemma to_i64_id z : 0 <= z < two63 -> to_i64 z = z.
Proof. intros Hz. unfold to_i64. destruct (z <? two63) eqn:E; lia. Qed.

Section Arith.
  Variable p : params.
  Let cs := chunk_size p.
  Let rl := ref_len p.
  Let br := branching p.
  Hypothesis Hrl : 0 < rl.
  Hypothesis Hbr : 2 <= br.

  Lemma br_rl_le_cs : br * rl <= cs.
  Proof.
    unfold br, branching. fold cs rl.
    pose proof (Z.mul_div_le cs rl Hrl). lia.
  Qed.
  Lemma cs_pos : 0 < cs.
  Proof. pose proof br_rl_le_cs. nia. Qed.

  Definition fullspan (L : nat) : Z := cs * br ^ Z.of_nat L.

  Lemma fullspan_0 : fullspan 0 = cs.
  Proof. unfold fullspan. simpl. lia. Qed.
  Lemma fullspan_S L : fullspan (S L) = br * fullspan L.
  Proof.
    unfold fullspan. rewrite Nat2Z.inj_succ, Z.pow_succ_r by lia. ring.
  Qed.
  Lemma fullspan_pos L : 0 < fullspan L.
  Proof.
    induction L as [|L IH]; [rewrite fullspan_0; apply cs_pos|].
    rewrite fullspan_S. nia.
  Qed.
  Lemma fullspan_ge_cs L : cs <= fullspan L.
  Proof.
    induction L as [|L IH]; [rewrite fullspan_0; lia|].
    rewrite fullspan_S. pose proof (fullspan_pos L). nia.
  Qed.
  Lemma fullspan_mono_S L : fullspan L <= fullspan (S L).
  Proof. rewrite fullspan_S. pose proof (fullspan_pos L). nia. Qed.
  Lemma fullspan_mono i j : (i <= j)%nat -> fullspan i <= fullspan j.
  Proof.
    induction 1 as [|j Hle IH]; [lia|]. pose proof (fullspan_mono_S j). lia.
  Qed.
  Lemma fullspan_lt_mono i j : (i < j)%nat -> br * fullspan i <= fullspan j.
  Proof.
    intros Hlt. rewrite <- fullspan_S. apply fullspan_mono. lia.
  Qed.
  Lemma fullspan_ge_pow2 L : 2 ^ Z.of_nat L <= fullspan L.
  Proof.
    induction L as [|L IH]; [rewrite fullspan_0; pose proof cs_pos; simpl; lia|].
    rewrite fullspan_S, Nat2Z.inj_succ, Z.pow_succ_r by lia.
    pose proof (fullspan_pos L). nia.
  Qed.
  Lemma fullspan_small_level L : fullspan L < two63 -> (L < 63)%nat.
  Proof.
    intros Hlt. pose proof (fullspan_ge_pow2 L) as Hp.
    assert (Hq : 2 ^ Z.of_nat L < 2 ^ 63) by (change (2 ^ 63) with two63; lia).
    apply Z.pow_lt_mono_r_iff in Hq; lia.
  Qed.

  (** the loop, started at [fullspan i] with [i <= j] *)
  Lemma loop_step_last (F n l S0 : Z) :
    0 < F -> 2 <= n -> 0 < l <= F -> S0 = (n - 1) * F + l -> S0 < two63 ->
    wrap64 (S0 - wrap64 (F * (n - 1))) = l.
  Proof.
    intros HF Hn Hl HS Hlt.
    assert (H0 : 0 <= F * (n - 1)) by nia.
    assert (H1 : F * (n - 1) <= S0) by nia.
    assert (Hm : - two63 <= 0) by (unfold two63; lia).
    rewrite (wrap64_id (F * (n - 1))) by lia.
    rewrite wrap64_id by lia. lia.
  Qed.
  Lemma loop_step_more (b F n l S0 : Z) :
    0 < b -> br * b <= F -> 2 <= n -> 0 < l <= F -> S0 = (n - 1) * F + l -> S0 < two63 ->
    wrap64 (S0 - wrap64 (b * (n - 1))) > b /\ wrap64 (b * br) = b * br.
  Proof.
    intros Hb HbF Hn Hl HS Hlt.
    assert (H0 : 0 <= b * (n - 1)) by nia.
    assert (H1 : b * (n - 1) <= F * (n - 1)) by nia.
    assert (H2 : F * (n - 1) <= S0) by nia.
    assert (H3 : F <= F * (n - 1)) by nia.
    assert (H4 : 2 * b <= F) by nia.
    assert (H5 : (F - b) * (n - 1) >= F - b) by nia.
    assert (Hm : - two63 <= 0) by (unfold two63; lia).
    rewrite (wrap64_id (b * (n - 1))) by lia.
    rewrite (wrap64_id (S0 - _)) by lia.
    split; [nia|]. apply wrap64_id. nia.
  Qed.

  Lemma branch_loop_ok : forall (k : nat) (i j : nat) (fuel : nat) (S0 n l : Z),
    (j = i + k)%nat -> (k < fuel)%nat ->
    2 <= n -> 0 < l <= fullspan j -> S0 = (n - 1) * fullspan j + l -> S0 < two63 ->
    branch_loop fuel S0 n br (fullspan i) = Some (fullspan j).
  Proof.
    induction k as [|k IH]; intros i j fuel S0 n l Hj Hfuel Hn Hl HS Hlt;
      (destruct fuel as [|fuel]; [lia|]); cbn [branch_loop].
    - assert (Hji : j = i) by lia. clear Hj. subst j.
      pose proof (fullspan_pos i) as Hp.
      rewrite (loop_step_last (fullspan i) n l S0); try assumption; try lia.
      destruct (l <=? fullspan i) eqn:E; [reflexivity|lia].
    - pose proof (fullspan_pos i) as Hp. pose proof (fullspan_pos j) as Hpj.
      assert (Hbi : br * fullspan i <= fullspan j) by (apply fullspan_lt_mono; lia).
      destruct (loop_step_more (fullspan i) (fullspan j) n l S0) as [Hgt Hw]; try assumption.
      destruct (wrap64 (S0 - wrap64 (fullspan i * (n - 1))) <=? fullspan i) eqn:E; [exfalso; lia|].
      rewrite Hw.
      replace (fullspan i * br) with (fullspan (Datatypes.S i)) by (rewrite fullspan_S; ring).
      apply (IH (Datatypes.S i) j fuel S0 n l); try lia.
  Qed.

  (** [subtrieSection] on the payload of a node with [n] references *)
  Lemma section_arith (F n l S0 : Z) :
    cs <= F -> 2 <= n <= br -> 0 < l <= F -> S0 = (n - 1) * F + l -> S0 < two63 ->
    wrap64 ((n - 1) * rl) = (n - 1) * rl /\ wrap64 (S0 - wrap64 ((n - 1) * F)) = l.
  Proof.
    intros HF Hn Hl HS Hlt.
    pose proof br_rl_le_cs as Hbc.
    assert (Hm : - two63 <= 0) by (unfold two63; lia).
    assert (H0 : 0 <= (n - 1) * rl) by nia.
    assert (H1 : (n - 1) * rl <= br * rl) by nia.
    assert (H2 : 0 <= (n - 1) * F) by nia.
    assert (H3 : F <= (n - 1) * F) by nia.
    rewrite (wrap64_id ((n - 1) * rl)) by lia.
    rewrite (wrap64_id ((n - 1) * F)) by lia.
    rewrite wrap64_id by lia. lia.
  Qed.

  Lemma subtrie_section_ok : forall (j : nat) (S0 n l i : Z),
    2 <= n <= br -> 0 < l <= fullspan j -> S0 = (n - 1) * fullspan j + l -> S0 < two63 ->
    0 <= i < n ->
    subtrie_section p (rl * n) (rl * i) S0 = Some (if i =? n - 1 then l else fullspan j).
  Proof.
    intros j S0 n l i Hn Hl HS Hlt Hi.
    unfold subtrie_section. fold rl cs.
    replace (rl * n / rl) with n by (rewrite Z.mul_comm, Z.div_mul; lia).
    change (cs / rl) with br.
    pose proof (fullspan_pos j) as Hpj. pose proof (fullspan_ge_cs j) as Hge.
    assert (Hj63 : (j < 63)%nat).
    { apply fullspan_small_level. assert (fullspan j <= (n - 1) * fullspan j) by nia. lia. }
    rewrite <- fullspan_0.
    rewrite (branch_loop_ok j 0 j 128 S0 n l) by lia.
    destruct (section_arith (fullspan j) n l S0) as [Hw1 Hw2]; try assumption.
    rewrite Hw1, Hw2.
    destruct (i =? n - 1) eqn:Ei.
    - assert (i = n - 1) by lia. subst i.
      replace (rl * (n - 1) =? (n - 1) * rl) with true by lia. reflexivity.
    - destruct (rl * i =? (n - 1) * rl) eqn:E2; [exfalso; nia|reflexivity].
  Qed.
End Arith.
