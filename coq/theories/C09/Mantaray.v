(** C09 over the mantaray model of C10 (read-only import).

    [load_trie] transcribes what [Node.WalkNode] does to a manifest reference
    ([walker.go]: [LookupNode(root = "")] loads the root, [walkNode] loads every
    node whose fork map is nil, hands the node to the callback, recurses into
    the forks) and records, per node, what [mantarayManifest.IterateAddresses]
    (pkg/manifest/mantaray.go) looks at: [node.Reference()], [IsValueType()],
    [Entry()] classified as empty / all-zero / a reference.  The result is the
    [mnode] on which [C09.Model.walk] (the IterateAddresses callback order) runs.

    Proved here, for the manifest states C10's proof covers (every history of
    add / remove / lookup / hasPrefix / store / reload inside [disciplined],
    incl. Stores with size callbacks, after its first successful Store, no collision among the
    saved payloads):
    loading succeeds, and
    (a) the node references are addresses of saved payloads,
    (b) every saved payload's address is a node reference,
    (c) the entry references are exactly the references the specification map
        holds (all-zero references excepted: the code skips them). *)
From Coq Require Import List NArith Bool Arith Lia.
Import ListNotations.
Require Import Aurora.C10.Model Aurora.C10.Spec Aurora.C10.Basics Aurora.C10.Trie Aurora.C10.Codec
               Aurora.C10.Persist Aurora.C10.Build Aurora.C10.Hist Aurora.C10.Refute.
Require Aurora.C09.Model.
Module C9 := Aurora.C09.Model.

Definition all_zero (e : list N) : bool := forallb (N.eqb 0) e.

(** C10's lemmas are section-closed over [addr], [kg] and whichever of the two length
    hypotheses their proofs use; [c10 l X] instantiates those whatever the subset is, so that
    this file does not depend on that detail. *)
Ltac c10 l ad k al kl X :=
  first [ pose proof (l ad k al kl) as X | pose proof (l ad k kl) as X
        | pose proof (l ad k al) as X | pose proof (l ad k) as X ].

Section Load.
Variable rid : list N -> C9.ref.      (* reference bytes -> the chunk model's reference *)

Definition classify (e : list N) : C9.entry :=
  match e with [] => C9.ENone | _ => if all_zero e then C9.EZero else C9.ERef (rid e) end.

Definition load_forks (ld : node -> res C9.mnode) : forks_t -> res (list C9.mnode) :=
  fix go (fs : forks_t) : res (list C9.mnode) :=
    match fs with
    | [] => Ok []
    | (_, (_, c)) :: fs' =>
        match ld c with
        | Err x => Err x
        | Ok m => match go fs' with Err x => Err x | Ok ms => Ok (m :: ms) end
        end
    end.

Fixpoint load_trie (fuel : nat) (st : store) (n : node) : res C9.mnode :=
  match fuel with
  | O => Err EFuel
  | S f =>
      let '(n1, e) := load_if_nil st n in
      match e with
      | Some x => Err x
      | None =>
          match load_forks (load_trie f st) (match n_forks n1 with Some fs => fs | None => [] end) with
          | Err x => Err x
          | Ok ms => Ok (C9.MNode (option_map rid (n_ref n1)) (is_value (n_ty n1)) (classify (n_entry n1)) ms)
          end
      end
  end.

Lemma load_forks_cons ld k pre c fs :
  load_forks ld ((k, (pre, c)) :: fs) =
  match ld c with
  | Err x => Err x
  | Ok m => match load_forks ld fs with Err x => Err x | Ok ms => Ok (m :: ms) end
  end.
Proof. reflexivity. Qed.

Section WithStore.
Variable addr : list N -> list N.
Variable kg : list N.
Hypothesis addr_len : forall d, length (addr d) = 32.
Hypothesis kg_len : length kg = 32.

(** the loaded image of a saved tree [t] stored under [a] ([v]: the value flag the
    parent's fork recorded for it) *)
Inductive Img (L : list (list N)) : node -> list N -> bool -> C9.mnode -> Prop :=
| ImgI : forall t a v ts ms,
    Stored addr kg L t a -> n_forks t = Some ts ->
    Forall2 (fun kt m' => exists r', Img L (snd (snd kt)) r' (is_value (n_ty (snd (snd kt)))) m') ts ms ->
    Img L t a v (C9.MNode (Some (rid a)) v (classify (pad_to (n_rbs t) (n_entry t))) ms).

Definition Covered (L : list (list N)) (st2 : store) (t : node) (a : list N) (new : list (list N)) : Prop :=
  forall m F, n_forks m = None -> n_ref m = Some a -> height t <= F ->
  exists mm, load_trie F st2 m = Ok mm /\ Img L t a (is_value (n_ty m)) mm /\
             forall b, In b new -> In (rid (addr b)) (C9.self_refs mm).

Definition CoveredForks (L : list (list N)) (st2 : store) (fs fs' : forks_t) (new : list (list N)) : Prop :=
  forall F, (forall k pre c, In (k, (pre, c)) fs -> height c <= F) ->
  exists ms, load_forks (load_trie F st2) (map stub_fork fs') = Ok ms /\
    Forall2 (fun kt m' => exists r', Img L (snd (snd kt)) r' (is_value (n_ty (snd (snd kt)))) m') fs ms /\
    forall b, In b new -> In (rid (addr b)) (flat_map C9.self_refs ms).

Lemma save_forks_cover : forall f fs,
  (forall k pre c st log, In (k, (pre, c)) fs ->
     exists c' st' new a, save addr kg f st log c = (c', st', log ++ new, None) /\ saved_as c c' a /\
       (forall L, incl (log ++ new) L -> Stored addr kg L c a) /\
       (forall L st2, incl (log ++ new) L -> store_has addr st2 L -> Covered L st2 c a new)) ->
  forall st log, exists fs' st' new,
    save_forks (save addr kg f) fs st log = (fs', st', log ++ new, None) /\
    (forall L, incl (log ++ new) L -> Forall2 (kid_rel addr kg L) fs fs') /\
    (forall L st2, incl (log ++ new) L -> store_has addr st2 L -> CoveredForks L st2 fs fs' new).
Proof.
  intros f fs. induction fs as [|[k [pre c]] fs IH]; intros Hsv st log.
  - exists [], st, []. rewrite app_nil_r. split; [reflexivity|]. split; [constructor|].
    intros L st2 _ _ F _. exists []. split; [reflexivity|]. split; [constructor|intros b []].
  - destruct (Hsv k pre c st log (or_introl eq_refl)) as [c' [st1 [new1 [a [Hs [[R1 [R2 [R3 [R4 [R5 R6]]]]] [Hst Hcov]]]]]]].
    destruct (IH (fun k pre c st log Hin => Hsv k pre c st log (or_intror Hin)) st1 (log ++ new1)) as [fs2 [st2 [new2 [Hs2 [Hrel Hcov2]]]]].
    exists ((k, (pre, c')) :: fs2), st2, (new1 ++ new2). cbn [save_forks]. rewrite Hs, Hs2. rewrite app_assoc.
    split; [reflexivity|].
    assert (Hi1 : forall L, incl ((log ++ new1) ++ new2) L -> incl (log ++ new1) L)
      by (intros L HL x Hx; apply HL; apply in_or_app; now left).
    split.
    + intros L HL. constructor.
      * unfold kid_rel. cbn [fst snd]. repeat split; auto. exists a. split; [assumption|]. apply Hst, Hi1, HL.
      * apply Hrel. exact HL.
    + intros L st3 HL Hhas F HF.
      destruct (Hcov L st3 (Hi1 L HL) Hhas (stub c') F) as [mm [Hld [Himg Hc]]].
      { reflexivity. }
      { exact R1. }
      { apply (HF k pre c). now left. }
      destruct (Hcov2 L st3 HL Hhas F) as [ms [Hlds [Hf2 Hc2]]].
      { intros k0 pre0 c0 Hin. apply (HF k0 pre0 c0). now right. }
      exists (mm :: ms). cbn [map]. unfold stub_fork at 1. cbn [fst snd].
      rewrite load_forks_cons, Hld, Hlds. split; [reflexivity|]. split.
      * constructor; [|exact Hf2]. cbn [fst snd]. exists a.
        replace (is_value (n_ty c)) with (is_value (n_ty (stub c'))); [exact Himg|].
        unfold stub. cbn [n_ty]. now rewrite R3.
      * intros b Hb. cbn [flat_map]. apply in_or_app. apply in_app_or in Hb as [Hb|Hb]; [left; now apply Hc | right; now apply Hc2].
Qed.

Lemma unmarshalled_fields : forall n fs m,
  n_forks (unmarshalled kg n fs m) = Some (map stub_fork fs) /\
  n_entry (unmarshalled kg n fs m) = pad_to (n_rbs n) (n_entry n) /\
  is_value (n_ty (unmarshalled kg n fs m)) = is_value (n_ty m) /\
  n_ref (unmarshalled kg n fs m) = n_ref m.
Proof.
  intros n fs m. unfold unmarshalled. cbv zeta.
  match goal with |- context [if ?c then _ else _] => destruct c end;
    cbn [n_forks n_ty n_md n_ref n_entry n_rbs set_ty set_entry set_okey set_forks]; autorewrite with flags; repeat split; reflexivity.
Qed.

Lemma save_cover : forall f st log t,
  height t <= f -> tree_ok t -> (length (n_okey t) = 0 \/ length (n_okey t) = 32) ->
  (n_rbs t = 32 \/ (n_rbs t = 0 /\ n_forks t = Some [])) ->
  exists t' st' new a, save addr kg f st log t = (t', st', log ++ new, None) /\ saved_as t t' a /\
    (forall L, incl (log ++ new) L -> Stored addr kg L t a) /\
    (forall L st2, incl (log ++ new) L -> store_has addr st2 L -> Covered L st2 t a new).
Proof.
  induction f as [|f IH]; intros st log t Hh Hok Hkey Hrbs.
  { destruct t as [? ? ? ? ? ? [?|]]; simpl in Hh; lia. }
  destruct (tree_ok_inv t Hok) as [fs [Hfs [Href [Hs Hall]]]].
  cbn [save]. rewrite Href, Hfs.
  destruct (save_forks_cover f fs) with (st := st) (log := log) as [fs' [st1 [new1 [Hsf [Hrel Hcovf]]]]].
  { intros k pre c st0 log0 Hin.
    destruct (Hall k pre c (In_fget fs k (pre, c) Hs Hin)) as [Hfk [Hcr [Hcl Hct]]].
    apply IH; auto.
    - pose proof (height_child t fs k pre c Hfs Hin). lia.
    - apply Hcl. }
  rewrite Hsf.
  pose proof (Hrel (log ++ new1) (incl_refl _)) as Hrel1.
  set (n1 := set_forks t (Some fs')).
  assert (Hkeys : map fst fs' = map fst fs) by (eapply Forall2_keys; eassumption).
  destruct (marshal_unmarshal kg n1 fs') as [bytes [Hm Hun0]].
  { reflexivity. }
  { unfold keys_sorted. rewrite Hkeys. exact Hs. }
  { subst n1. simpl. destruct Hrbs as [H|[H _]]; rewrite H; lia. }
  { subst n1. unfold eff_key. cbn [n_okey set_forks]. destruct Hkey as [H|H]; rewrite H; cbn [Nat.eqb]; [exact kg_len | exact H]. }
  { subst n1. cbn [n_rbs set_forks].
    destruct fs as [|kf0 fs0].
    - inversion Hrel1; subst. constructor.
    - assert (Hr32 : n_rbs t = 32).
      { destruct Hrbs as [H|[_ H]]; [exact H|]. rewrite Hfs in H. discriminate H. }
      rewrite Hr32. apply (kids_child_ok addr kg addr_len _ _ _ Hrel1).
      intros [k [pre c]] Hin. destruct (Hall k pre c (In_fget _ k (pre, c) Hs Hin)) as [? [? [? ?]]]. auto. }
  assert (Hun : forall m, unmarshal m bytes = (unmarshalled kg n1 fs' m, None))
    by (first [exact Hun0 | apply Hun0]).
  clear Hun0.
  unfold save_self. fold n1. rewrite Hm.
  eexists. exists (st_put st1 (addr bytes) bytes), (new1 ++ [bytes]), (addr bytes).
  rewrite app_assoc. split; [reflexivity|]. split; [|split].
  - unfold saved_as. subst n1. destruct (length (n_okey (set_forks t (Some fs'))) =? 0); simpl; repeat split; reflexivity.
  - intros L HL. apply (StoredI addr kg L t fs fs' bytes Hfs).
    + apply Hrel. intros x Hx. apply HL. rewrite <- app_assoc. apply in_app_or in Hx. apply in_or_app.
      destruct Hx as [Hx|Hx]; [now left | right; apply in_or_app; now left].
    + exact Hun.
    + apply HL. rewrite <- app_assoc. apply in_or_app. right. apply in_or_app. right. now left.
  - intros L st2 HL Hhas m F Hmf Hmr HF.
    assert (Hbin : In bytes L).
    { apply HL. rewrite <- app_assoc. apply in_or_app. right. apply in_or_app. right. now left. }
    assert (HL1 : incl (log ++ new1) L).
    { intros x Hx. apply HL. rewrite <- app_assoc. apply in_app_or in Hx. apply in_or_app.
      destruct Hx as [Hx|Hx]; [now left | right; apply in_or_app; now left]. }
    assert (HSt : Stored addr kg L t (addr bytes)).
    { apply (StoredI addr kg L t fs fs' bytes Hfs); [apply Hrel, HL1 | exact Hun | exact Hbin]. }
    pose proof (height_pos t) as Hhp. destruct F as [|F]; [lia|].
    destruct (Hcovf L st2 HL1 Hhas F) as [ms [Hlds [Hf2 Hc2]]].
    { intros k pre c Hin. pose proof (height_child t fs k pre c Hfs Hin). lia. }
    destruct (unmarshalled_fields n1 fs' m) as [U1 [U2 [U3 U4]]].
    cbn [load_trie]. unfold load_if_nil. rewrite Hmf. unfold load. rewrite Hmr, (Hhas bytes Hbin), Hun.
    rewrite U1, Hlds, U2, U3, U4, Hmr. cbn [option_map].
    eexists. split; [reflexivity|]. split.
    + subst n1. cbn [n_rbs n_entry set_forks]. apply (ImgI L t (addr bytes) _ fs ms HSt Hfs Hf2).
    + intros b Hb. cbn [C9.self_refs]. apply in_app_or in Hb as [Hb|[<-|[]]].
      * right. now apply Hc2.
      * left. reflexivity.
Qed.

(** ---- what the loaded image says ---- *)
Lemma Forall2_in_l {A B} (R : A -> B -> Prop) l l' : Forall2 R l l' -> forall x, In x l -> exists y, In y l' /\ R x y.
Proof.
  induction 1 as [|a b l l' Hab _ IH]; intros x Hin; [contradiction|].
  destruct Hin as [->|Hin]; [exists b; split; [now left|assumption]|].
  destruct (IH x Hin) as [y [Hy HR]]. exists y. split; [now right|assumption].
Qed.
Lemma Forall2_in_r {A B} (R : A -> B -> Prop) l l' : Forall2 R l l' -> forall y, In y l' -> exists x, In x l /\ R x y.
Proof.
  induction 1 as [|a b l l' Hab _ IH]; intros y Hin; [contradiction|].
  destruct Hin as [->|Hin]; [exists a; split; [now left|assumption]|].
  destruct (IH y Hin) as [x [Hx HR]]. exists x. split; [now right|assumption].
Qed.

(** (a) every node reference is the address of a saved payload *)
Lemma img_self_in : forall n L t a v mm, height t <= n -> Img L t a v mm ->
  forall r, In r (C9.self_refs mm) -> exists b, In b L /\ r = rid (addr b).
Proof.
  induction n as [|n IH]; intros L t a v mm Hh HI r Hr.
  { pose proof (height_pos t). lia. }
  inversion HI as [t0 a0 v0 ts ms HS Hfs Hkids]; subst.
  cbn [C9.self_refs] in Hr. destruct Hr as [<-|Hr].
  - inversion HS as [t1 fs fs' bytes _ _ _ Hin]; subst. exists bytes. split; [assumption|reflexivity].
  - apply in_flat_map in Hr as [m' [Hm' Hr]].
    destruct (Forall2_in_r _ _ _ Hkids m' Hm') as [[k [pre c]] [Hin [r' HI']]]. cbn [fst snd] in HI'.
    apply (IH L c r' (is_value (n_ty c)) m'); [|exact HI'|exact Hr].
    pose proof (height_child t ts k pre c Hfs Hin). lia.
Qed.

(** the denotation of a never-saved tree, one level at a time *)
Lemma den_split : forall t ts x, tree_ok t -> n_forks t = Some ts ->
  ((exists q, den t q = Some x) <->
   (val_of t = Some x \/ exists k pre c, In (k, (pre, c)) ts /\ exists q', den c q' = Some x)).
Proof.
  intros t ts x Hok Hts.
  destruct (tree_ok_inv t Hok) as [fs [Hfs [_ [Hs Hall]]]].
  rewrite Hts in Hfs. inversion Hfs; subst fs. clear Hfs.
  split.
  - intros [[|b q] Hq].
    + left. exact Hq.
    + right. rewrite den_cons in Hq. unfold forks_get in Hq. rewrite Hts in Hq.
      destruct (fget ts b) as [[[|x0 pre] c]|] eqn:Hg; try discriminate.
      destruct (is_prefix (x0 :: pre) (b :: q)); [|discriminate].
      exists b, (x0 :: pre), c. split; [now apply fget_In|]. eexists. exact Hq.
  - intros [Hv|[k [pre [c [Hin [q' Hq']]]]]].
    + exists []. exact Hv.
    + pose proof (In_fget ts k (pre, c) Hs Hin) as Hg.
      destruct (Hall k pre c Hg) as [[Hne [Hhd _]] _].
      destruct pre as [|x0 pre]; [contradiction|]. cbn [hd] in Hhd. subst x0.
      exists ((k :: pre) ++ q'). cbn [app]. rewrite den_cons. unfold forks_get. rewrite Hts, Hg.
      change (k :: pre ++ q') with ((k :: pre) ++ q').
      rewrite is_prefix_app.
      change (S (length pre)) with (length (k :: pre)). rewrite skipn_app_exact. exact Hq'.
Qed.

Lemma all_zero_nil : all_zero [] = true.
Proof. reflexivity. Qed.

(** (c) the entry references are the non-zero references of the denotation *)
Lemma img_entries : forall n L t a mm, height t <= n -> tree_ok t ->
  (is_value (n_ty t) = true -> n_rbs t = 32 /\ length (n_entry t) = 32) ->
  Img L t a (is_value (n_ty t)) mm ->
  forall r, In r (C9.entry_refs mm) <-> exists q e md, den t q = Some (e, md) /\ all_zero e = false /\ r = rid e.
Proof.
  induction n as [|n IH]; intros L t a mm Hh Hok Hval HI r.
  { pose proof (height_pos t). lia. }
  inversion HI as [t0 a0 v0 ts ms HS Hfs Hkids]; subst.
  destruct (tree_ok_inv t Hok) as [fs [Hfs' [_ [Hs Hall]]]].
  rewrite Hfs in Hfs'. inversion Hfs'; subst fs. clear Hfs'.
  (* the node's own entry *)
  assert (Hown : In r (match is_value (n_ty t), classify (pad_to (n_rbs t) (n_entry t)) with
                       | true, C9.ERef r0 => [r0] | _, _ => [] end) <->
                 exists e md, val_of t = Some (e, md) /\ all_zero e = false /\ r = rid e).
  { unfold val_of. destruct (is_value (n_ty t)) eqn:Hv.
    - destruct (Hval eq_refl) as [Hr32 Hlen]. rewrite Hr32, (pad_to_id 32 _ Hlen).
      unfold classify. destruct (n_entry t) as [|e0 e] eqn:He; [discriminate Hlen|].
      destruct (all_zero (e0 :: e)) eqn:Hz.
      + split; [intros []|]. intros [e' [md [Heq [Hz' _]]]]. inversion Heq; subst. congruence.
      + split.
        * intros [<-|[]]. exists (e0 :: e), (n_md t). auto.
        * intros [e' [md [Heq [_ ->]]]]. inversion Heq; subst. now left.
    - split; [intros H; destruct (classify _); destruct H|]. intros [e [md [Heq _]]]. discriminate Heq. }
  (* the forks *)
  assert (Hkids_iff : In r (flat_map C9.entry_refs ms) <->
                      exists k pre c, In (k, (pre, c)) ts /\
                        exists q' e md, den c q' = Some (e, md) /\ all_zero e = false /\ r = rid e).
  { split.
    - intros Hin. apply in_flat_map in Hin as [m' [Hm' Hr]].
      destruct (Forall2_in_r _ _ _ Hkids m' Hm') as [[k [pre c]] [Hin [r' HI']]]. cbn [fst snd] in HI'.
      exists k, pre, c. split; [exact Hin|].
      destruct (Hall k pre c (In_fget ts k (pre, c) Hs Hin)) as [_ [Hc32 [[_ [Hcl _]] Hcok]]].
      apply (IH L c r' m'); auto.
      pose proof (height_child t ts k pre c Hfs Hin). lia.
    - intros [k [pre [c [Hin Hex]]]].
      destruct (Forall2_in_l _ _ _ Hkids _ Hin) as [m' [Hm' [r' HI']]]. cbn [fst snd] in HI'.
      apply in_flat_map. exists m'. split; [exact Hm'|].
      destruct (Hall k pre c (In_fget ts k (pre, c) Hs Hin)) as [_ [Hc32 [[_ [Hcl _]] Hcok]]].
      apply (IH L c r' m'); auto.
      pose proof (height_child t ts k pre c Hfs Hin). lia. }
  cbn [C9.entry_refs]. rewrite in_app_iff, Hown, Hkids_iff.
  split.
  - intros [[e [md [Hv [Hz Hr]]]]|[k [pre [c [Hin [q' [e [md [Hd [Hz Hr]]]]]]]]]].
    + exists [], e, md. auto.
    + destruct (proj2 (den_split t ts (e, md) Hok Hfs)) as [q Hq].
      { right. exists k, pre, c. split; [exact Hin|]. exists q'. exact Hd. }
      exists q, e, md. auto.
  - intros [q [e [md [Hd [Hz Hr]]]]].
    destruct (proj1 (den_split t ts (e, md) Hok Hfs)) as [Hv|[k [pre [c [Hin [q' Hq']]]]]].
    { exists q. exact Hd. }
    + left. exists e, md. auto.
    + right. exists k, pre, c. split; [exact Hin|]. exists q', e, md. auto.
Qed.

(** ---- histories: what a fresh manifest reference loads after a Store ---- *)
Definition Loads (st : store) (a : list N) (L : list (list N)) (f : spec) : Prop :=
  exists F0, forall F, F0 <= F -> exists mm,
    load_trie F st (node_ref (Some a)) = Ok mm /\
    (forall r, In r (C9.self_refs mm) -> exists b, In b L /\ r = rid (addr b)) /\
    (forall b, In b L -> In (rid (addr b)) (C9.self_refs mm)) /\
    (forall r, In r (C9.entry_refs mm) <-> exists q e md, f q = Some (e, md) /\ all_zero e = false /\ r = rid e).

Definition inv2q (L : list (list N)) (s : mstate) (f : spec) : Prop :=
  inv2 addr kg L s f /\ (no_collision addr L -> forall a, ms_last s = Some a -> Loads (ms_st s) a L f).

Lemma first_store_q : forall s f, inv1 s f ->
  exists s' a, step addr kg s OStore = (s', BRef a) /\ inv2q (ms_log s') s' f.
Proof.
  intros s f Hinv.
  c10 first_store addr kg addr_len kg_len X. destruct (X s f Hinv) as [s' [a [Hstep Hinv2]]]. clear X.
  exists s', a. split; [exact Hstep|]. split; [exact Hinv2|].
  intros Hnc a' Hlast.
  destruct s as [root st log last]. destruct Hinv as [[Hok [Hloc [Hrbs Hnv]]] [Hst [Hlog [Hlast0 [Hf0 Hden]]]]].
  cbn [ms_root ms_st ms_log ms_last] in *. subst st log last.
  destruct (save_cover (height root) [] [] root (le_n _) Hok) as [t' [st' [new [a0 [Hsv [Hsa [HS Hcov]]]]]]].
  { apply Hloc. }
  { exact Hrbs. }
  destruct Hsa as [S1 _].
  unfold step in Hstep. cbn [ms_root ms_st ms_log ms_last] in Hstep. rewrite Hsv, S1 in Hstep.
  inversion Hstep; subst s' a. clear Hstep. cbn [ms_st ms_log ms_last app] in *.
  inversion Hlast; subst a'. clear Hlast.
  assert (Hhas : store_has addr st' new).
  { destruct Hinv2 as [t [a1 [_ [_ [_ [_ [_ [_ [_ [_ [_ Hsi]]]]]]]]]]]. cbn [ms_st] in Hsi.
    apply store_inv_has; assumption. }
  exists (height root). intros F HF.
  destruct (Hcov new st' (incl_refl _) Hhas (node_ref (Some a0)) F eq_refl eq_refl HF) as [mm [Hld [HI Hc]]].
  exists mm. split; [exact Hld|]. split; [|split; [exact Hc|]].
  - intros r Hr. exact (img_self_in (height root) new root a0 _ mm (le_n _) HI r Hr).
  - intros r.
    assert (HI' : Img new root a0 (is_value (n_ty root)) mm) by (rewrite Hnv; exact HI).
    rewrite (img_entries (height root) new root a0 mm (le_n _) Hok) by (try exact HI'; rewrite Hnv; discriminate).
    split; intros [q [e [md [Hq Hrest]]]]; exists q, e, md; (split; [|exact Hrest]); [rewrite <- Hden|rewrite Hden]; exact Hq.
Qed.

Lemma step_readonly_fields : forall s o s' b, step addr kg s o = (s', b) ->
  match o with OLookup _ | OHasPrefix _ | OReload => True | _ => False end ->
  ms_st s' = ms_st s /\ ms_log s' = ms_log s /\ ms_last s' = ms_last s.
Proof.
  intros s o s' b Hs Ho. destruct o; try contradiction; unfold step in Hs.
  - destruct (lookup_node (fuel_of p) (ms_st s) (ms_root s) p) as [r' lr]. inversion Hs; subst. auto.
  - destruct (has_prefix (fuel_of p) (ms_st s) (ms_root s) p) as [r' hr]. inversion Hs; subst. auto.
  - inversion Hs; subst. auto.
Qed.

Lemma inv2q_transfer : forall L s s' f, inv2q L s f -> inv2 addr kg L s' f ->
  ms_st s' = ms_st s -> ms_last s' = ms_last s -> inv2q L s' f.
Proof.
  intros L s s' f [_ HQ] Hinv' Hst Hla. split; [exact Hinv'|]. rewrite Hst, Hla. exact HQ.
Qed.

Lemma run_phase2_q : forall h L s f, inv2q L s f -> disciplined f true h -> no_collision addr L ->
  inv2q L (fst (run addr kg s h)) (spec_run f h).
Proof.
  induction h as [|o h IH]; intros L s f Hq Hd Hnc; [exact Hq|].
  destruct Hd as [Hdom [Hdisc Hd]]. cbn [run spec_run fold_left].
  pose proof Hq as [Hinv _].
  destruct o; cbn [op_disciplined] in Hdisc.
  - destruct Hdisc as [Hx _]. discriminate Hx.
  - destruct Hdisc as [Hx _]. discriminate Hx.
  - c10 lookup_inv2 addr kg addr_len kg_len X. destruct (X L s f p Hinv Hnc) as [s' [Hs Hinv']]. clear X. rewrite Hs.
    destruct (step_readonly_fields _ _ _ _ Hs I) as [E1 [_ E3]].
    specialize (IH L s' f (inv2q_transfer L s s' f Hq Hinv' E1 E3) Hd Hnc). destruct (run addr kg s' h). exact IH.
  - c10 has_prefix_inv2 addr kg addr_len kg_len X. destruct (X L s f p Hinv Hnc) as [s' [t [Hs [Hinv' _]]]]. clear X. rewrite Hs.
    destruct (step_readonly_fields _ _ _ _ Hs I) as [E1 [_ E3]].
    specialize (IH L s' f (inv2q_transfer L s s' f Hq Hinv' E1 E3) Hd Hnc). destruct (run addr kg s' h). exact IH.
  - c10 store_inv2 addr kg addr_len kg_len X. destruct (X L s f Hinv) as [a [Hs _]]. clear X. rewrite Hs.
    specialize (IH L s f Hq Hd Hnc). destruct (run addr kg s h). exact IH.
  - c10 storecb_inv2 addr kg addr_len kg_len X. destruct (X L s f budget Hinv) as [a [Hs _]]. clear X. rewrite Hs.
    specialize (IH L s f Hq Hd Hnc). destruct (run addr kg s h). exact IH.
  - c10 reload_inv2 addr kg addr_len kg_len X. destruct (X L s f Hinv) as [s' [Hs Hinv']]. clear X. rewrite Hs.
    destruct (step_readonly_fields _ _ _ _ Hs I) as [E1 [_ E3]].
    specialize (IH L s' f (inv2q_transfer L s s' f Hq Hinv' E1 E3) Hd Hnc). destruct (run addr kg s' h). exact IH.
Qed.

Lemma run_phase1_q : forall h s f, inv1 s f -> disciplined f false h ->
  no_collision addr (ms_log (fst (run addr kg s h))) ->
  inv1 (fst (run addr kg s h)) (spec_run f h) \/
  inv2q (ms_log (fst (run addr kg s h))) (fst (run addr kg s h)) (spec_run f h).
Proof.
  induction h as [|o h IH]; intros s f Hinv Hd Hnc; [left; exact Hinv|].
  destruct Hd as [Hdom [Hdisc Hd]]. cbn [run spec_run fold_left] in *.
  destruct o; cbn [orb is_store] in Hd.
  - c10 add_inv1 addr kg addr_len kg_len X. destruct (X s f p e m Hinv Hdom Hdisc) as [s' [Hs Hinv']]. clear X. rewrite Hs in *.
    specialize (IH s' _ Hinv' Hd). destruct (run addr kg s' h). apply IH. exact Hnc.
  - c10 remove_inv1 addr kg addr_len kg_len X. destruct (X s f p Hinv Hdisc) as [s' [b [Hs Hinv']]]. clear X. rewrite Hs in *.
    specialize (IH s' _ Hinv' Hd). destruct (run addr kg s' h). apply IH. exact Hnc.
  - c10 lookup_inv1 addr kg addr_len kg_len X. rewrite (X s f p Hinv) in *. clear X.
    specialize (IH s _ Hinv Hd). destruct (run addr kg s h). apply IH. exact Hnc.
  - c10 has_prefix_inv1 addr kg addr_len kg_len X. rewrite (X s f p Hinv) in *. clear X.
    specialize (IH s _ Hinv Hd). destruct (run addr kg s h). apply IH. exact Hnc.
  - destruct (first_store_q s f Hinv) as [s' [a [Hs Hinv']]]. rewrite Hs in *.
    right.
    assert (Hsi : store_inv addr (ms_st s') (ms_log s')).
    { destruct Hinv' as [[t [a' [_ [_ [_ [_ [_ [_ [_ [_ [_ Hsi]]]]]]]]]]] _]. exact Hsi. }
    c10 run_store_inv addr kg addr_len kg_len X. destruct (X h s' Hsi) as [_ [new Hlog]]. clear X.
    pose proof (run_phase2_q h (ms_log s') s' f Hinv' Hd) as H2.
    destruct (run addr kg s' h) as [s2 bs]. cbn [fst] in *.
    rewrite Hlog in Hnc. specialize (H2 (no_collision_app _ _ _ Hnc)).
    assert (Hl2 : ms_log s2 = ms_log s').
    { destruct H2 as [[t [a' [_ [_ [_ [_ [_ [_ [_ [_ [Hl _]]]]]]]]]]] _]. exact Hl. }
    rewrite Hl2. exact H2.
  - cbn [op_disciplined] in Hdisc. destruct Hdisc as [Hx|Hb]; [discriminate Hx|].
    c10 rejected_store_inv1 addr kg addr_len kg_len X. destruct (X s f budget Hinv Hb) as [s' [Hs Hinv']]. clear X. rewrite Hs in *.
    specialize (IH s' _ Hinv' Hd). destruct (run addr kg s' h). apply IH. exact Hnc.
  - cbn [op_disciplined] in Hdisc. discriminate Hdisc.
Qed.

(** the result: after any disciplined history that has stored the manifest, a fresh
    reference to the stored address loads completely, and the loaded trie holds exactly the
    saved node payloads and exactly the (non-zero) references of the specification map *)
Theorem manifest_loads : forall enc h a,
  disciplined spec_empty false h ->
  no_collision addr (ms_log (final_state addr kg enc h)) ->
  ms_last (final_state addr kg enc h) = Some a ->
  Loads (ms_st (final_state addr kg enc h)) a (ms_log (final_state addr kg enc h)) (spec_run spec_empty h).
Proof.
  intros enc h a Hd Hnc Hlast. unfold final_state in *.
  destruct (run_phase1_q h (init_state enc) spec_empty (init_inv1 enc) Hd Hnc) as [H1|[_ H2]].
  - destruct H1 as [_ [_ [_ [Hl _]]]]. rewrite Hl in Hlast. discriminate Hlast.
  - exact (H2 Hnc a Hlast).
Qed.
End WithStore.
End Load.

(** ---- names for Props.v (so that it need not import the C10 modules) ---- *)
Definition history := list op.
Definition in_proved_domain (h : history) : Prop := disciplined spec_empty false h.
Definition payloads (addr : list N -> list N) (kg : list N) (enc : bool) (h : history) : list (list N) :=
  ms_log (final_state addr kg enc h).
Definition payloads_collision_free (addr : list N -> list N) (kg : list N) (enc : bool) (h : history) : Prop :=
  no_collision addr (payloads addr kg enc h).
Definition stored_at (addr : list N -> list N) (kg : list N) (enc : bool) (h : history) : option (list N) :=
  ms_last (final_state addr kg enc h).
Definition dir_spec (h : history) : list N -> option (list N * meta) := spec_run spec_empty h.
(** [NewMantarayManifestReference(a, ls)] walked by WalkNode with recursion budget [F] *)
Definition loads_to (rid : list N -> C9.ref) (addr : list N -> list N) (kg : list N) (enc : bool) (h : history)
  (F : nat) (a : list N) (m : C9.mnode) : Prop :=
  load_trie rid F (ms_st (final_state addr kg enc h)) (node_ref (Some a)) = Ok m.

Theorem manifest_loads_named : forall rid addr kg,
  (forall d, length (addr d) = 32) -> length kg = 32 ->
  forall enc h a, in_proved_domain h -> payloads_collision_free addr kg enc h -> stored_at addr kg enc h = Some a ->
  exists F0, forall F, F0 <= F -> exists m, loads_to rid addr kg enc h F a m /\
    (forall r, In r (C9.self_refs m) -> exists b, In b (payloads addr kg enc h) /\ r = rid (addr b)) /\
    (forall b, In b (payloads addr kg enc h) -> In (rid (addr b)) (C9.self_refs m)) /\
    (forall r, In r (C9.entry_refs m) <->
               exists q e md, dir_spec h q = Some (e, md) /\ all_zero e = false /\ r = rid e).
Proof.
  intros rid addr kg Ha Hk enc h a Hd Hnc Hl.
  exact (manifest_loads rid addr kg Ha Hk enc h a Hd Hnc Hl).
Qed.

(** a concrete history inside the domain: two files, one with metadata, a Store with a size
    callback that rejects (budget 5 bytes) in between, Store, a callback Store afterwards *)
Definition ex_md : meta := [([67; 116]%N, [116; 120; 116]%N)].
Definition ex_history : history :=
  [OAdd [97]%N (repeat 1%N 32) []; OStoreCb 5; OAdd [98; 47; 99]%N (repeat 2%N 32) ex_md; OStore; OStoreCb 100000].
Lemma ex_history_ok : in_proved_domain ex_history.
Proof.
  unfold in_proved_domain, ex_history. cbn [disciplined].
  assert (Hmd : md_ok ex_md) by (split; [reflexivity | vm_compute; discriminate]).
  repeat split; try discriminate; try reflexivity; try apply md_ok_nil; try exact Hmd;
    try (repeat constructor; unfold is_byte; lia); try (right; reflexivity); try (left; reflexivity).
Qed.

(** the example at C10's toy address function: hypotheses hold, the stored manifest loads *)
Definition ex_rid (b : list N) : C9.ref := C9.mkRef (fold_left (fun h x => (h * 257 + x + 1) mod 1000003)%N b 0%N) 0%N.
Lemma ex_history_facts :
  (forall d, length (toy_addr d) = 32) /\ length zkey = 32 /\
  payloads_collision_free toy_addr zkey false ex_history /\
  exists a m, stored_at toy_addr zkey false ex_history = Some a /\
    loads_to ex_rid toy_addr zkey false ex_history 4 a m /\
    length (C9.self_refs m) = 3 /\ length (C9.entry_refs m) = 2 /\ length (payloads toy_addr zkey false ex_history) = 3.
Proof.
  split; [exact toy_addr_len|]. split; [reflexivity|].
  split; [apply no_collisionb_ok; vm_compute; reflexivity|].
  eexists. eexists. split; [vm_compute; reflexivity|]. split; [vm_compute; reflexivity|].
  vm_compute. repeat split; reflexivity.
Qed.
