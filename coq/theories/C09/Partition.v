(** C09 — (a) data chunks and intermediate chunks of a well-formed tree have
    different addresses unless the collision hypothesis fails; (b) the manifest
    walk is the concatenation of the file traversals of the trie's references. *)
From Coq Require Import List NArith ZArith Bool Lia Permutation.
From Coq Require Import ZifyBool ZifyNat ZifyN.
Import ListNotations.
Require Import Aurora.C09.Model Aurora.C09.Arith Aurora.C09.Proofs.
Local Open Scope Z_scope.

Section Disjoint.
  Variable p : params.
  Hypothesis Hrl : 0 < ref_len p.
  Hypothesis Hbr : 2 <= branching p.

  Lemma inner_entry_wf : forall L t, wfb p L t = true -> forall a, In a (inner t) ->
    exists r c, raddr r = a /\ In (r, c) (entries p t) /\ cplen c < cspan c.
  Proof.
    induction L as [L IH] using lt_wf_ind. intros [r len|r kids] Hw a Hin; [contradiction|].
    destruct (node_shape p Hrl Hbr L r kids Hw) as (L' & l & HL & Hn & Hl & Hs & Hkids & _).
    cbn [inner] in Hin. destruct Hin as [<-|Hin].
    - exists r, (chunk_of p (Node r kids)). split; [reflexivity|]. split; [left; reflexivity|].
      cbn [chunk_of cplen cspan].
      pose proof (node_span_gt p Hrl Hbr L r kids Hw). pose proof (node_plen_le p Hrl Hbr L r kids Hw). lia.
    - apply in_flat_map in Hin as (k & Hk & Hin).
      destruct (IH L' HL k (Hkids k Hk) a Hin) as (r' & c & Ha & He & Hc).
      exists r', c. split; [exact Ha|]. split; [eapply entries_kid; eassumption|exact Hc].
  Qed.

  Theorem leaves_inner_disjoint : forall L t a,
    wfb p L t = true -> NoCollisionAmong (entries p t) ->
    In a (leaves t) -> In a (inner t) -> False.
  Proof.
    intros L t a Hw Hnc Hl Hi.
    destruct (leaves_entry p t a Hl) as (r1 & len & Ha1 & He1).
    destruct (inner_entry_wf L t Hw a Hi) as (r2 & c2 & Ha2 & He2 & Hc2).
    destruct (Hnc r1 _ r2 c2 He1 He2) as [_ Hc]; [congruence|].
    subst c2. cbn [cplen cspan] in Hc2. lia.
  Qed.
End Disjoint.

(** ---- manifests *)
Inductive mentry := MENone | MEZero | MERef (t : tree).
Inductive mspec := MS (self : option tree) (is_value : bool) (e : mentry) (forks : list mspec).

Section MspecInd.
  Variable P : mspec -> Prop.
  Hypothesis H : forall self v e forks, Forall P forks -> P (MS self v e forks).
  Fixpoint mspec_ind' (m : mspec) : P m :=
    match m with
    | MS self v e forks =>
        H self v e forks ((fix go (l : list mspec) : Forall P l :=
                             match l with
                             | [] => Forall_nil _
                             | x :: l' => Forall_cons _ (mspec_ind' x) (go l')
                             end) forks)
    end.
End MspecInd.

(** the trie as the traversal sees it (references only) *)
Fixpoint erase (m : mspec) : mnode :=
  match m with
  | MS self v e forks =>
      MNode (option_map tref self) v
            (match e with MENone => ENone | MEZero => EZero | MERef t => ERef (tref t) end)
            (map erase forks)
  end.

(** the files that make up the manifest, in walk order: each node's own file,
    the file a value node points to, then the forks *)
Fixpoint mfiles (m : mspec) : list tree :=
  match m with
  | MS self v e forks =>
      (match self with Some t => [t] | None => [] end) ++
      (match v, e with true, MERef t => [t] | _, _ => [] end) ++
      flat_map mfiles forks
  end.

Lemma flat_map_flat_map {A B C} (f : A -> list B) (g : B -> list C) l :
  flat_map g (flat_map f l) = flat_map (fun x => flat_map g (f x)) l.
Proof.
  induction l as [|x l IH]; [reflexivity|]. cbn [flat_map]. rewrite flat_map_app, IH. reflexivity.
Qed.

Lemma seq_all_cons w m ms :
  seq_all w (m :: ms) = lbind (w m) (fun a => lbind (seq_all w ms) (fun b => LDone (a ++ b))).
Proof. reflexivity. Qed.

Lemma walk_ok (f : ref -> lres) (g : tree -> list addr) : forall m,
  (forall t, In t (mfiles m) -> f (tref t) = LDone (g t)) ->
  walk f (erase m) = LDone (flat_map g (mfiles m)).
Proof.
  induction m as [self v e forks IH] using mspec_ind'. intros Hf.
  cbn [erase walk mfiles] in *.
  assert (Hforks : seq_all (walk f) (map erase forks) = LDone (flat_map g (flat_map mfiles forks))).
  { assert (Hf' : forall t, In t (flat_map mfiles forks) -> f (tref t) = LDone (g t))
      by (intros t Ht; apply Hf; apply in_or_app; right; apply in_or_app; right; exact Ht).
    clear Hf. induction IH as [|x l Hx Hl IHl]; [reflexivity|].
    cbn [map flat_map]. rewrite seq_all_cons. cbn [flat_map] in Hf'.
    rewrite Hx by (intros t Ht; apply Hf'; apply in_or_app; left; exact Ht).
    cbn [lbind]. rewrite IHl by (intros t Ht; apply Hf'; apply in_or_app; right; exact Ht).
    cbn [lbind]. rewrite flat_map_app. reflexivity. }
  rewrite Hforks.
  assert (Hvisit : visit f (option_map tref self) v
                     (match e with MENone => ENone | MEZero => EZero | MERef t => ERef (tref t) end)
                   = LDone (flat_map g ((match self with Some t => [t] | None => [] end) ++
                                        (match v, e with true, MERef t => [t] | _, _ => [] end)))).
  { unfold visit.
    assert (Hs : match option_map tref self with Some r => f r | None => LDone [] end
                 = LDone (flat_map g (match self with Some t => [t] | None => [] end))).
    { destruct self as [t|]; cbn [option_map flat_map]; [|reflexivity].
      rewrite Hf by (left; reflexivity). rewrite app_nil_r. reflexivity. }
    rewrite Hs. cbn [lbind]. rewrite flat_map_app.
    destruct v, e as [| |t]; cbn [flat_map]; rewrite ?app_nil_r; try reflexivity.
    rewrite Hf; [reflexivity|].
    apply in_or_app. right. apply in_or_app. left. left. reflexivity. }
  rewrite Hvisit. cbn [lbind]. rewrite <- flat_map_app, <- app_assoc. reflexivity.
Qed.

(** ---- the same on a loaded trie given by its references only *)
Section MnodeInd.
  Variable P : mnode -> Prop.
  Hypothesis H : forall self v e forks, Forall P forks -> P (MNode self v e forks).
  Fixpoint mnode_ind' (m : mnode) : P m :=
    match m with
    | MNode self v e forks =>
        H self v e forks ((fix go (l : list mnode) : Forall P l :=
                             match l with
                             | [] => Forall_nil _
                             | x :: l' => Forall_cons _ (mnode_ind' x) (go l')
                             end) forks)
    end.
End MnodeInd.

Lemma walk_mrefs (f : ref -> lres) (g : ref -> list addr) : forall m,
  (forall r, In r (mrefs m) -> f r = LDone (g r)) ->
  walk f m = LDone (flat_map g (mrefs m)).
Proof.
  induction m as [self v e forks IH] using mnode_ind'. intros Hf. cbn [walk mrefs] in *.
  assert (Hforks : seq_all (walk f) forks = LDone (flat_map g (flat_map mrefs forks))).
  { assert (Hf' : forall r, In r (flat_map mrefs forks) -> f r = LDone (g r))
      by (intros r Hr; apply Hf; apply in_or_app; right; apply in_or_app; right; exact Hr).
    clear Hf. induction IH as [|x l Hx Hl IHl]; [reflexivity|].
    rewrite seq_all_cons. cbn [flat_map] in *.
    rewrite Hx by (intros r Hr; apply Hf'; apply in_or_app; left; exact Hr).
    cbn [lbind]. rewrite IHl by (intros r Hr; apply Hf'; apply in_or_app; right; exact Hr).
    cbn [lbind]. rewrite flat_map_app. reflexivity. }
  rewrite Hforks. unfold visit.
  assert (Hs : match self with Some r => f r | None => LDone [] end
               = LDone (flat_map g (match self with Some r => [r] | None => [] end))).
  { destruct self as [r|]; cbn [flat_map]; [|reflexivity].
    rewrite Hf by (left; reflexivity). rewrite app_nil_r. reflexivity. }
  rewrite Hs. cbn [lbind]. rewrite !flat_map_app.
  destruct v, e as [| |r]; cbn [flat_map lbind]; rewrite ?app_nil_r; try reflexivity.
  rewrite Hf; [cbn [lbind]; rewrite <- app_assoc; reflexivity|].
  apply in_or_app. right. apply in_or_app. left. left. reflexivity.
Qed.

Lemma mrefs_in : forall m r, In r (mrefs m) <-> In r (self_refs m) \/ In r (entry_refs m).
Proof.
  induction m as [self v e forks IH] using mnode_ind'. intros r.
  cbn [mrefs self_refs entry_refs]. rewrite !in_app_iff.
  assert (Hk : In r (flat_map mrefs forks) <-> In r (flat_map self_refs forks) \/ In r (flat_map entry_refs forks)).
  { rewrite !in_flat_map. rewrite Forall_forall in IH. split.
    - intros [x [Hx Hr]]. apply (IH x Hx) in Hr as [Hr|Hr]; [left|right]; exists x; auto.
    - intros [[x [Hx Hr]]|[x [Hx Hr]]]; exists x; (split; [exact Hx|]); apply (IH x Hx); auto. }
  rewrite Hk. tauto.
Qed.
