(** C09 — model of the chunk-address traversal:
    pkg/file/joiner/joiner.go   IterateChunkAddresses / processChunkAddresses /
                                subtrieSection / New (the part the traversal uses)
    pkg/traversal/traversal.go  Traverse / GetPyramid / GetChunkHashes(pyramid = nil)
                                and the non-manifest branch of traverseAndProcess
    pkg/manifest/mantaray.go    IterateAddresses (the walker callback; the trie
                                itself is the dependency's, given here as a tree)
    (code as repaired by proposed/C09/fix-encrypted-traversal.patch: chunks are
    reported / listed / keyed by their 32-byte address, also when the reference
    that leads to them is an encrypted 64-byte reference; and by
    proposed/C09/fix-manifest-empty-entry.patch: an all-zero entry of either
    reference size is the empty entry).

    Definitions only.

    What the model sees.  The traversal never looks at payload bytes other than
    (a) the 8-byte span, (b) the payload length, (c) the payload of an
    intermediate chunk cut into [refLength]-byte references.  A chunk is
    therefore [(span, payload length, references)]; addresses and keys are
    opaque identifiers ([N]).  The store is the *decrypting* store
    [store.New(getter)] the joiner wraps around the chunk store: a finite map
    from references (address, key; key 0 = no key) to the decrypted view of the
    chunk.  A reference missing from the map is [storage.ErrNotFound].

    Go fixed-width arithmetic: spans are read as uint64 and converted to int64
    ([to_i64]); the products/differences of [subtrieSection] are int64
    ([wrap64]); its [for] loop has no bound in Go and gets explicit fuel
    ([EFuel] = the Go loop would not have ended within 128 rounds). *)
From Coq Require Import List NArith ZArith Bool.
Import ListNotations.
Local Open Scope Z_scope.

Definition addr := N.
Record ref := mkRef { raddr : addr; rkey : N }.
Definition ref_eqb (a b : ref) : bool := N.eqb (raddr a) (raddr b) && N.eqb (rkey a) (rkey b).

(** decrypted view of a stored chunk: [cspan] is the raw uint64 of bytes 0..7,
    [cplen] = len(ch.Data()) - 8, [crefs] = the payload cut at multiples of the
    reference length (meaningful for intermediate chunks only). *)
Record chunk := mkChunk { cspan : Z; cplen : Z; crefs : list ref }.

Definition store := list (ref * chunk).
Fixpoint lookup (st : store) (r : ref) : option chunk :=
  match st with
  | [] => None
  | (r', c) :: st' => if ref_eqb r' r then Some c else lookup st' r
  end.

(** parameters: boson.ChunkSize and len(address.Bytes()) of the root reference *)
Record params := mkParams { chunk_size : Z; ref_len : Z }.

Definition two63 : Z := 9223372036854775808.
Definition two64 : Z := 18446744073709551616.
Definition to_i64 (u : Z) : Z := if u <? two63 then u else u - two64.      (* int64(uint64) *)
Definition wrap64 (z : Z) : Z :=                                            (* int64 overflow *)
  if (- two63 <=? z) && (z <? two63) then z else (z + two63) mod two64 - two63.

(** [subtrieSection]: the brute-force loop
      for { whatsLeft := subtrieSize - branchSize*(refs-1); if whatsLeft <= branchSize {break}; branchSize *= branching } *)
Fixpoint branch_loop (fuel : nat) (subtrie_size refs branching branch_size : Z) : option Z :=
  match fuel with
  | O => None
  | S f =>
      let whats_left := wrap64 (subtrie_size - wrap64 (branch_size * (refs - 1))) in
      if whats_left <=? branch_size then Some branch_size
      else branch_loop f subtrie_size refs branching (wrap64 (branch_size * branching))
  end.

Definition subtrie_section (p : params) (data_len start_idx subtrie_size : Z) : option Z :=
  let refs := data_len / ref_len p in
  let branching := chunk_size p / ref_len p in
  match branch_loop 128 subtrie_size refs branching (chunk_size p) with
  | None => None
  | Some branch_size =>
      if start_idx =? wrap64 ((refs - 1) * ref_len p)
      then Some (wrap64 (subtrie_size - wrap64 ((refs - 1) * branch_size)))
      else Some branch_size
  end.

(** what the iteration does, in program order *)
Inductive event :=
| Rep (a : addr)      (* fn(chunkAddr) *)
| Data (a : addr)     (* j.dataChunks = append(j.dataChunks, a)   (kept when allowSaveData) *)
| Edge (a : addr).    (* j.edgeChunks[a] = stored chunk            (kept when allowSaveEdge) *)

Inductive err := ENotFound | EFuel | EMalformed.
Inductive res := Done (l : list event) | Fail (e : err).

Definition bind (r : res) (k : list event -> res) : res :=
  match r with Done l => k l | Fail e => Fail e end.

Section Iterate.
  Variable p : params.
  Variable st : store.
  Variable jaddr : addr.       (* j.addr: the address of the root chunk *)

  (** the [for cursor := 0; cursor < len(data); cursor += refLength] loop of
      processChunkAddresses over the references [rs] that remain, [rec] being the
      recursive call on a fetched chunk.  (The errgroup goroutine is awaited
      with [wg.Wait()] inside the loop body, so the order is sequential.) *)
  Fixpoint ref_loop (rec : chunk -> res) (data_len subtrie_size : Z) (rs : list ref) (cursor : Z) : res :=
    match rs with
    | [] => Done []
    | r :: rs' =>
        match subtrie_section p data_len cursor subtrie_size with
        | None => Fail EFuel
        | Some sec =>
            if sec <=? chunk_size p then
              bind (ref_loop rec data_len subtrie_size rs' (cursor + ref_len p))
                   (fun l => Done (Rep (raddr r) :: Data (raddr r) :: l))
            else
              match lookup st r with
              | None => Fail ENotFound
              | Some ch =>
                  let edge := if to_i64 (cspan ch) >? cplen ch then [Edge (raddr r)] else [] in
                  bind (rec ch) (fun l1 =>
                  bind (ref_loop rec data_len subtrie_size rs' (cursor + ref_len p))
                       (fun l2 => Done (Rep (raddr r) :: edge ++ l1 ++ l2)))
              end
        end
    end.

  (** processChunkAddresses(ctx, fn, data, subTrieSize) on the payload of [c] *)
  Fixpoint process (fuel : nat) (c : chunk) : res :=
    match fuel with
    | O => Fail EFuel
    | S f =>
        let sz := to_i64 (cspan c) in
        if sz <=? cplen c then Done [Data jaddr]          (* leaf: appends j.addr *)
        else if negb (cplen c =? ref_len p * Z.of_nat (length (crefs c))) then Fail EMalformed
        else ref_loop (process f) (cplen c) sz (crefs c) 0
    end.
End Iterate.

Definition depth_fuel : nat := 16.

(** joiner.New + IterateChunkAddresses *)
Definition iterate (p : params) (st : store) (root : ref) : res :=
  match lookup st root with
  | None => Fail ENotFound
  | Some c => bind (process p st (raddr root) depth_fuel c) (fun l => Done (Rep (raddr root) :: l))
  end.

Fixpoint reps (l : list event) : list addr :=
  match l with [] => [] | Rep a :: l' => a :: reps l' | _ :: l' => reps l' end.
Fixpoint datas (l : list event) : list addr :=
  match l with [] => [] | Data a :: l' => a :: datas l' | _ :: l' => datas l' end.
Fixpoint edges (l : list event) : list addr :=
  match l with [] => [] | Edge a :: l' => a :: edges l' | _ :: l' => edges l' end.

Inductive lres := LDone (l : list addr) | LFail (e : err).
Definition lmap (f : list event -> list addr) (r : res) : lres :=
  match r with Done l => LDone (f l) | Fail e => LFail e end.

(** Traverse on a non-manifest reference: processBytes = joiner.New + iterate(fn) *)
Definition traverse_file (p : params) (st : store) (root : ref) : lres := lmap reps (iterate p st root).

(** GetChunkHashes(addr, nil), non-manifest branch: one list, the data chunks in file order *)
Definition chunk_hashes_file (p : params) (st : store) (root : ref) : lres := lmap datas (iterate p st root).

(** GetPyramid, per processed reference: the root chunk, and the edge chunks when span > ChunkSize.
    The result is the key set of a Go map, here the list of insertions. *)
Definition pyramid_file (p : params) (st : store) (root : ref) : lres :=
  match lookup st root with
  | None => LFail ENotFound
  | Some c =>
      if to_i64 (cspan c) >? chunk_size p
      then lmap (fun l => raddr root :: edges l) (iterate p st root)
      else LDone [raddr root]
  end.

(** ---- manifests: mantarayManifest.IterateAddresses over the loaded trie.
    One trie node: its own reference (nil for a node never saved), whether it
    is a value node, its entry, and its forks. *)
Inductive entry := ENone | EZero | ERef (r : ref).   (* len 0 | all bytes zero (the serialised empty entry) | a reference *)
Inductive mnode := MNode (self : option ref) (is_value : bool) (e : entry) (forks : list mnode).

Definition lbind (r : lres) (k : list addr -> lres) : lres :=
  match r with LDone l => k l | LFail e => LFail e end.

Section Manifest.
  Variable file_fn : ref -> lres.     (* the processFn handed to traverseAndProcess *)

  (** the walker callback of IterateAddresses on one node *)
  Definition visit (self : option ref) (is_value : bool) (e : entry) : lres :=
    lbind (match self with Some r => file_fn r | None => LDone [] end) (fun l1 =>
    match is_value, e with
    | true, ERef r => lbind (file_fn r) (fun l2 => LDone (l1 ++ l2))
    | _, _ => LDone l1          (* not a value node, empty entry, or the all-zero entry *)
    end).

  (** walkNode: the node, then every fork (Go ranges over a map: the order of
      [forks] is the order the run happened to take) *)
  Definition seq_all (w : mnode -> lres) : list mnode -> lres :=
    fix go (ms : list mnode) : lres :=
      match ms with
      | [] => LDone []
      | m' :: ms' => lbind (w m') (fun a => lbind (go ms') (fun b => LDone (a ++ b)))
      end.
  Fixpoint walk (m : mnode) : lres :=
    match m with
    | MNode self v e forks =>
        lbind (visit self v e) (fun l1 => lbind (seq_all walk forks) (fun l2 => LDone (l1 ++ l2)))
    end.
End Manifest.

(** the references of a loaded trie: node references, entry references of value
    nodes, and both in the order [walk] hands them to the callback *)
Fixpoint self_refs (m : mnode) : list ref :=
  match m with
  | MNode self _ _ forks => (match self with Some r => [r] | None => [] end) ++ flat_map self_refs forks
  end.
Fixpoint entry_refs (m : mnode) : list ref :=
  match m with
  | MNode _ v e forks => (match v, e with true, ERef r => [r] | _, _ => [] end) ++ flat_map entry_refs forks
  end.
Fixpoint mrefs (m : mnode) : list ref :=
  match m with
  | MNode self v e forks =>
      (match self with Some r => [r] | None => [] end) ++
      (match v, e with true, ERef r => [r] | _, _ => [] end) ++ flat_map mrefs forks
  end.

Definition traverse_manifest (p : params) (st : store) (m : mnode) : lres := walk (traverse_file p st) m.
Definition pyramid_manifest (p : params) (st : store) (m : mnode) : lres := walk (pyramid_file p st) m.

(** ------------------------------------------------------------------------
    Specification side: a stored file as a tree of chunks. *)
Inductive tree :=
| Leaf (r : ref) (len : Z)
| Node (r : ref) (kids : list tree).

Definition tref (t : tree) : ref := match t with Leaf r _ => r | Node r _ => r end.
Definition taddr (t : tree) : addr := raddr (tref t).

Fixpoint span (t : tree) : Z :=
  match t with
  | Leaf _ len => len
  | Node _ kids => fold_right (fun k acc => span k + acc) 0 kids
  end.

Definition chunk_of (p : params) (t : tree) : chunk :=
  match t with
  | Leaf _ len => mkChunk len len []
  | Node _ kids => mkChunk (span t) (ref_len p * Z.of_nat (length kids)) (map tref kids)
  end.

(** the chunks written for the file (one entry per Put, parents before children) *)
Fixpoint entries (p : params) (t : tree) : list (ref * chunk) :=
  (tref t, chunk_of p t) ::
  match t with
  | Leaf _ _ => []
  | Node _ kids => flat_map (entries p) kids
  end.

Fixpoint written (t : tree) : list addr :=
  taddr t :: match t with Leaf _ _ => [] | Node _ kids => flat_map written kids end.
Fixpoint leaves (t : tree) : list addr :=
  match t with Leaf r _ => [raddr r] | Node _ kids => flat_map leaves kids end.
Fixpoint inner (t : tree) : list addr :=
  match t with Leaf _ _ => [] | Node r kids => raddr r :: flat_map inner kids end.
Definition pyramid_of (t : tree) : list addr :=
  match t with Leaf r _ => [raddr r] | Node _ _ => inner t end.

(** Well-formedness the hashtrie writer guarantees (hashtrie.go): a level is
    wrapped when it holds [branching] references, [Sum] wraps what remains of a
    level when it holds more than one reference and carries a single reference
    up unchanged.  Hence: a full level-L tree is a full data chunk (L = 0) or
    [branching] full level-(L-1) trees; a level-(L+1) tree is a level-L tree
    carried up, or 2..branching children of which all but the last are full
    level-L trees and the last is any level-L tree. *)
Section WF.
  Variable p : params.
  Definition branching : Z := chunk_size p / ref_len p.

  Fixpoint fullb (L : nat) (t : tree) {struct L} : bool :=
    match L, t with
    | O, Leaf _ len => len =? chunk_size p
    | S L', Node _ kids => (Z.of_nat (length kids) =? branching) && forallb (fullb L') kids
    | _, _ => false
    end.

  Fixpoint wfb (L : nat) (t : tree) {struct L} : bool :=
    match L with
    | O => match t with Leaf _ len => (0 <? len) && (len <=? chunk_size p) | Node _ _ => false end
    | S L' =>
        wfb L' t ||
        match t with
        | Leaf _ _ => false
        | Node _ kids =>
            (2 <=? Z.of_nat (length kids)) && (Z.of_nat (length kids) <=? branching) &&
            forallb (fullb L') (removelast kids) &&
            match rev kids with last :: _ => wfb L' last | [] => false end
        end
    end.

  (** a whole file: the empty file is one chunk with span 0 *)
  Definition wf_file (L : nat) (t : tree) : bool :=
    match t with Leaf _ 0 => true | _ => wfb L t end && (span t <? two63).
End WF.

(** explicit collision hypothesis, decidable: entries with the same address are the same chunk
    under the same reference *)
Definition chunk_eqb (a b : chunk) : bool :=
  (cspan a =? cspan b) && (cplen a =? cplen b) &&
  (fix eq (x y : list ref) := match x, y with
     | [], [] => true | u :: x', v :: y' => ref_eqb u v && eq x' y' | _, _ => false end) (crefs a) (crefs b).
Definition no_collision_b (es : list (ref * chunk)) : bool :=
  forallb (fun e1 => forallb (fun e2 =>
    negb (N.eqb (raddr (fst e1)) (raddr (fst e2))) || (ref_eqb (fst e1) (fst e2) && chunk_eqb (snd e1) (snd e2))) es) es.
