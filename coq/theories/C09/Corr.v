(** C09 — correspondence: the harness runs the real joiner / traversal.Service
    on a recording in-memory store and records (a) the store content as the
    decrypting store presents it (span, payload length, payload cut into
    references; addresses and keys replaced by small identifiers), (b) what the
    implementation reported.  [check_case] runs the model on (a) and compares
    with (b).

    Compact literals: identifiers of consecutive children are consecutive, so
    reference lists and observed address lists are run-length encoded
    ([Run a k n da dk] = n references (a,k), (a+da,k+dk), ...; da, dk in {0,1}). *)
From Coq Require Import List NArith ZArith Bool.
Import ListNotations.
Require Import Aurora.Base.Corr Aurora.Consts.
Require Export Aurora.C09.Model.
Require Aurora.C09.Mantaray.
Local Open Scope N_scope.

Inductive run := Run (a k n da dk : N).
Fixpoint expand_run (a k da dk : N) (n : nat) : list ref :=
  match n with O => [] | S n' => mkRef a k :: expand_run (a + da) (k + dk) da dk n' end.
Definition expand (rs : list run) : list ref :=
  flat_map (fun r => match r with Run a k n da dk => expand_run a k da dk (N.to_nat n) end) rs.
Definition expand_addrs (rs : list run) : list N := map raddr (expand rs).

(** one store entry: reference (a,k) -> span, payload length, references *)
Inductive ent := Ent (a k : N) (span plen : Z) (refs : list run).
Definition mk_store (es : list ent) : store :=
  map (fun e => match e with Ent a k s l rs => (mkRef a k, mkChunk s l (expand rs)) end) es.

(** observed result of one call: the address list, or an error class *)
Inductive obs := OOk (l : list run) | ONotFound | OOther.

Inductive mn := MN (self : option (N * N)) (is_value : bool) (e : N) (eref : N * N) (forks : list mn).
(* e: 0 = empty entry (length 0), 1 = all-zero entry (the serialised empty entry), 2 = reference [eref] *)

Inductive case :=
| CFile (enc : bool) (ra rk : N) (st : list ent) (trav data pyr : obs)
    (* Traverse / GetChunkHashes(nil) / GetPyramid of a non-manifest reference; pyr sorted, distinct *)
| CIter (enc : bool) (ra rk : N) (st : list ent) (trav data edge : obs)
    (* joiner.New + IterateChunkAddresses (+SetSaveDataChunks, +SetSaveEdgeChunks: key set, sorted)
       directly, fabricated two-level trees *)
| CMan (enc : bool) (m : mn) (st : list ent) (trav pyr : obs)
    (* Traverse / GetPyramid of a manifest reference; both sorted (Go map order), pyr distinct *)
| CLoad (tbl : list (list N * N)) (payloads : list (list N * list N)) (root : list N) (m : mn).
    (* the real node payloads (reference bytes -> bytes read back through loadsave) and the
       trie mantaray.WalkNode presented (forks in ascending byte order): the model's
       [Mantaray.load_trie] (C10's byte-level decoder + the walk) must load the same trie;
       [tbl] maps reference bytes to the identifiers used in [m] *)

Definition params_of (enc : bool) : params :=
  mkParams Consts.boson_ChunkSize (if enc then Consts.encryption_ReferenceSize else Consts.boson_HashSize).

(** insertion sort, for results whose order is a Go map order *)
Fixpoint ins (x : N) (l : list N) : list N :=
  match l with [] => [x] | y :: l' => if x <=? y then x :: l else y :: ins x l' end.
Definition sortN (l : list N) : list N := fold_right ins [] l.
Fixpoint dedup (l : list N) : list N :=   (* of a sorted list *)
  match l with
  | [] => []
  | x :: l' => match l' with [] => [x] | y :: _ => if x =? y then dedup l' else x :: dedup l' end
  end.

Inductive out := VOk (l : list N) | VNotFound | VOther.
Definition out_of_lres (f : list N -> list N) (r : lres) : out :=
  match r with LDone l => VOk (f l) | LFail ENotFound => VNotFound | LFail _ => VOther end.
Definition out_of_obs (o : obs) : out :=
  match o with OOk l => VOk (expand_addrs l) | ONotFound => VNotFound | OOther => VOther end.
Definition out_eqb (a b : out) : bool :=
  match a, b with
  | VOk x, VOk y => list_eqb N.eqb x y
  | VNotFound, VNotFound | VOther, VOther => true
  | _, _ => false
  end.

Fixpoint mnode_of (m : mn) : mnode :=
  match m with
  | MN self v e er forks =>
      MNode (option_map (fun ak => mkRef (fst ak) (snd ak)) self) v
            (match e with 0 => ENone | 1 => EZero | _ => ERef (mkRef (fst er) (snd er)) end)
            (map mnode_of forks)
  end.

Definition id_list (l : list N) := l.
Definition sort_dedup (l : list N) := dedup (sortN l).

Definition model_out (c : case) : list out :=
  match c with
  | CFile enc ra rk st _ _ _ =>
      let p := params_of enc in let s := mk_store st in let r := mkRef ra rk in
      [out_of_lres id_list (traverse_file p s r); out_of_lres id_list (chunk_hashes_file p s r);
       out_of_lres sort_dedup (pyramid_file p s r)]
  | CIter enc ra rk st _ _ _ =>
      let p := params_of enc in let s := mk_store st in let r := mkRef ra rk in
      [out_of_lres id_list (traverse_file p s r); out_of_lres id_list (chunk_hashes_file p s r);
       out_of_lres sort_dedup (lmap edges (iterate p s r))]
  | CMan enc m st _ _ =>
      let p := params_of enc in let s := mk_store st in
      [out_of_lres sortN (traverse_manifest p s (mnode_of m)); out_of_lres sort_dedup (pyramid_manifest p s (mnode_of m))]
  | CLoad _ _ _ _ => []
  end.
Definition obs_out (c : case) : list out :=
  match c with
  | CFile _ _ _ _ t d y => [out_of_obs t; out_of_obs d; out_of_obs y]
  | CIter _ _ _ _ t d e => [out_of_obs t; out_of_obs d; out_of_obs e]
  | CMan _ _ _ t y => [out_of_obs t; out_of_obs y]
  | CLoad _ _ _ _ => []
  end.

(** For real uploads the store content is also read back as a [tree] and
    checked against the theorem's hypotheses: the writer's shape predicate
    [wf_file], the collision predicate, and that every stored intermediate
    chunk is the [chunk_of] of its subtree (span = sum of the children's spans,
    payload = one reference per child). *)
Fixpoint tree_of_store (fuel : nat) (st : store) (r : ref) : option tree :=
  match fuel with
  | O => None
  | S f =>
      match lookup st r with
      | None => None
      | Some c =>
          if (to_i64 (cspan c) <=? cplen c)%Z then Some (Leaf r (cspan c))
          else option_map (Node r)
                 ((fix kids (rs : list ref) : option (list tree) :=
                     match rs with
                     | [] => Some []
                     | r' :: rs' =>
                         match tree_of_store f st r', kids rs' with
                         | Some t, Some ts => Some (t :: ts)
                         | _, _ => None
                         end
                     end) (crefs c))
      end
  end.
Definition hyps_ok (p : params) (st : store) (root : ref) : bool :=
  match tree_of_store 8 st root with
  | None => false
  | Some t =>
      wf_file p 8 t && no_collision_b (entries p t) &&
      forallb (fun e => match lookup st (fst e) with Some c => chunk_eqb (snd e) c | None => false end) (entries p t)
  end.
Definition shape_ok (c : case) : bool :=
  match c with
  | CFile enc ra rk st (OOk _) _ _ => hyps_ok (params_of enc) (mk_store st) (mkRef ra rk)
  | _ => true
  end.

Definition rid_of (tbl : list (list N * N)) (b : list N) : ref :=
  mkRef (match find (fun kv => bytes_eqb (fst kv) b) tbl with Some kv => snd kv | None => 0 end) 0.
Definition entry_eqb (a b : entry) : bool :=
  match a, b with
  | ENone, ENone | EZero, EZero => true
  | ERef x, ERef y => ref_eqb x y
  | _, _ => false
  end.
Fixpoint mnode_eqb (a b : mnode) : bool :=
  match a, b with
  | MNode s1 v1 e1 f1, MNode s2 v2 e2 f2 =>
      option_eqb ref_eqb s1 s2 && Bool.eqb v1 v2 && entry_eqb e1 e2 &&
      (fix go (x y : list mnode) : bool :=
         match x, y with
         | [], [] => true
         | m1 :: x', m2 :: y' => mnode_eqb m1 m2 && go x' y'
         | _, _ => false
         end) f1 f2
  end.
Definition load_ok (c : case) : bool :=
  match c with
  | CLoad tbl payloads root m =>
      match Aurora.C09.Mantaray.load_trie (rid_of tbl) 64 payloads (Aurora.C10.Model.node_ref (Some root)) with
      | Aurora.C10.Model.Ok lm => mnode_eqb lm (mnode_of m)
      | Aurora.C10.Model.Err _ => false
      end
  | _ => true
  end.

Definition check_case (c : case) : bool := list_eqb out_eqb (model_out c) (obs_out c) && shape_ok c && load_ok c.

(** on mismatch: per call, (model, observed) shortened to the first 12 addresses and the length *)
Definition brief (o : out) : option (list N * nat) :=
  match o with VOk l => Some (firstn 12 l, length l) | _ => None end.
Definition explain_case (c : case) :=
  (map brief (model_out c), map brief (obs_out c),
   map (fun o => match o with VNotFound => 1 | VOther => 2 | VOk _ => 0 end) (model_out c), shape_ok c, load_ok c).
