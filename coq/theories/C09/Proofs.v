(** C09 — lemmas: the transcribed iteration, run on the store that holds the
    chunks of a well-formed tree, produces exactly the structural event list of
    the tree. *)
From Coq Require Import List NArith ZArith Bool Lia Permutation.
From Coq Require Import ZifyBool ZifyNat ZifyN.
Import ListNotations.
Require Import Aurora.C09.Model Aurora.C09.Arith.
Local Open Scope Z_scope.

(** ---- induction principle for the nested tree type *)
Section TreeInd.
  Variable P : tree -> Prop.
  Hypothesis Hleaf : forall r len, P (Leaf r len).
  Hypothesis Hnode : forall r kids, Forall P kids -> P (Node r kids).
  Fixpoint tree_ind' (t : tree) : P t :=
    match t with
    | Leaf r len => Hleaf r len
    | Node r kids =>
        Hnode r kids ((fix go (l : list tree) : Forall P l :=
                         match l with
                         | [] => Forall_nil _
                         | k :: l' => Forall_cons _ (tree_ind' k) (go l')
                         end) kids)
    end.
End TreeInd.

Definition sum_spans (kids : list tree) : Z := fold_right (fun k acc => span k + acc) 0 kids.
Lemma span_node r kids : span (Node r kids) = sum_spans kids.
Proof. reflexivity. Qed.
Lemma sum_spans_app a b : sum_spans (a ++ b) = sum_spans a + sum_spans b.
Proof. induction a as [|k a IH]; simpl; [reflexivity|]. unfold sum_spans in *. lia. Qed.
Lemma sum_spans_const B l : Forall (fun k => span k = B) l -> sum_spans l = Z.of_nat (length l) * B.
Proof.
  induction 1 as [|k l Hk Hl IH]; [reflexivity|].
  change (sum_spans (k :: l)) with (span k + sum_spans l).
  rewrite IH, Hk. cbn [length]. lia.
Qed.
Lemma sum_spans_ge k l : (forall k', In k' l -> 0 <= span k') -> In k l -> span k <= sum_spans l.
Proof.
  induction l as [|k0 l IH]; intros Hpos Hin; [contradiction|].
  change (sum_spans (k0 :: l)) with (span k0 + sum_spans l).
  assert (Hs : 0 <= sum_spans l).
  { clear IH Hin. induction l as [|k1 l IH]; [simpl; lia|].
    change (sum_spans (k1 :: l)) with (span k1 + sum_spans l).
    pose proof (Hpos k1 (or_intror (or_introl eq_refl))).
    assert (0 <= sum_spans l) by (apply IH; intros; apply Hpos; simpl in *; tauto). lia. }
  destruct Hin as [->|Hin].
  - lia.
  - pose proof (Hpos k0 (or_introl eq_refl)).
    assert (span k <= sum_spans l) by (apply IH; [intros; apply Hpos; right; assumption|assumption]). lia.
Qed.

Lemma ref_eqb_eq a b : ref_eqb a b = true <-> a = b.
Proof.
  destruct a as [a1 a2], b as [b1 b2]. unfold ref_eqb. cbn [raddr rkey].
  rewrite andb_true_iff, !N.eqb_eq. split; [intros [-> ->]; reflexivity|intros H; inversion H; auto].
Qed.

(** events of the subtree below a reference / of a whole file *)
Fixpoint kid_events (t : tree) : list event :=
  Rep (taddr t) ::
  match t with
  | Leaf _ _ => [Data (taddr t)]
  | Node _ kids => Edge (taddr t) :: flat_map kid_events kids
  end.
Definition root_events (t : tree) : list event :=
  Rep (taddr t) ::
  match t with
  | Leaf _ _ => [Data (taddr t)]
  | Node _ kids => flat_map kid_events kids
  end.

Lemma reps_app a b : reps (a ++ b) = reps a ++ reps b.
Proof. induction a as [|[x|x|x] a IH]; simpl; rewrite ?IH; reflexivity. Qed.
Lemma datas_app a b : datas (a ++ b) = datas a ++ datas b.
Proof. induction a as [|[x|x|x] a IH]; simpl; rewrite ?IH; reflexivity. Qed.
Lemma edges_app a b : edges (a ++ b) = edges a ++ edges b.
Proof. induction a as [|[x|x|x] a IH]; simpl; rewrite ?IH; reflexivity. Qed.

Lemma proj_flat_map (f : list event -> list addr) (g : tree -> list addr) :
  (forall a b, f (a ++ b) = f a ++ f b) -> f [] = [] ->
  forall kids, Forall (fun k => f (kid_events k) = g k) kids ->
  f (flat_map kid_events kids) = flat_map g kids.
Proof.
  intros Happ Hnil kids HF. induction HF as [|k l Hk Hl IH]; [exact Hnil|].
  cbn [flat_map]. rewrite Happ, Hk, IH. reflexivity.
Qed.

Lemma reps_kid t : reps (kid_events t) = written t.
Proof.
  induction t as [r len|r kids IH] using tree_ind'; [reflexivity|].
  cbn [kid_events reps written]. f_equal.
  apply (proj_flat_map reps written reps_app eq_refl). exact IH.
Qed.
Lemma datas_kid t : datas (kid_events t) = leaves t.
Proof.
  induction t as [r len|r kids IH] using tree_ind'; [reflexivity|].
  cbn [kid_events datas leaves].
  apply (proj_flat_map datas leaves datas_app eq_refl). exact IH.
Qed.
Lemma edges_kid t : edges (kid_events t) = inner t.
Proof.
  induction t as [r len|r kids IH] using tree_ind'; [reflexivity|].
  cbn [kid_events edges inner]. f_equal.
  apply (proj_flat_map edges inner edges_app eq_refl). exact IH.
Qed.
Lemma Forall_all {A} (P : A -> Prop) (l : list A) : (forall x, P x) -> Forall P l.
Proof. intros H. induction l; constructor; auto. Qed.

Lemma reps_root t : reps (root_events t) = written t.
Proof.
  destruct t as [r len|r kids]; [reflexivity|].
  cbn [root_events reps written]. f_equal.
  apply (proj_flat_map reps written reps_app eq_refl). apply Forall_all, reps_kid.
Qed.
Lemma datas_root t : datas (root_events t) = leaves t.
Proof.
  destruct t as [r len|r kids]; [reflexivity|].
  cbn [root_events datas leaves].
  apply (proj_flat_map datas leaves datas_app eq_refl). apply Forall_all, datas_kid.
Qed.
Lemma edges_root_node r kids : raddr r :: edges (root_events (Node r kids)) = inner (Node r kids).
Proof.
  cbn [root_events edges inner]. f_equal.
  apply (proj_flat_map edges inner edges_app eq_refl). apply Forall_all, edges_kid.
Qed.

(** the store agrees with the tree: every chunk of the tree is what a Get of
    its reference returns *)
Definition store_ok (p : params) (st : store) (t : tree) : Prop :=
  forall r c, In (r, c) (entries p t) -> lookup st r = Some c.

Lemma entries_kid p r kids k : In k kids -> incl (entries p k) (entries p (Node r kids)).
Proof.
  intros Hin e He. cbn [entries]. right. apply in_flat_map. exists k. split; assumption.
Qed.
Lemma store_ok_kid p st r kids k : store_ok p st (Node r kids) -> In k kids -> store_ok p st k.
Proof. intros Hok Hin r' c Hc. apply Hok. eapply entries_kid; eassumption. Qed.
Lemma store_ok_root p st t : store_ok p st t -> lookup st (tref t) = Some (chunk_of p t).
Proof. intros Hok. apply Hok. destruct t; cbn [entries]; left; reflexivity. Qed.

Section Main.
  Variable p : params.
  Let cs := chunk_size p.
  Let rl := ref_len p.
  Let br := branching p.
  Hypothesis Hrl : 0 < rl.
  Hypothesis Hbr : 2 <= br.

  Lemma full_span : forall L t, fullb p L t = true -> span t = fullspan p L.
  Proof.
    induction L as [|L IH]; intros [r len|r kids] Hf; cbn [fullb] in Hf; try discriminate.
    - rewrite fullspan_0. cbn [span]. lia.
    - apply andb_true_iff in Hf as [Hn Hall].
      rewrite span_node, fullspan_S.
      rewrite (sum_spans_const (fullspan p L)).
      + fold br. replace (Z.of_nat (length kids)) with br by (unfold br; lia). reflexivity.
      + rewrite forallb_forall in Hall. apply Forall_forall. intros k Hk. apply IH, Hall, Hk.
  Qed.

  Lemma wf_leaf_inv : forall L r len, wfb p L (Leaf r len) = true -> 0 < len <= cs.
  Proof.
    induction L as [|L IH]; intros r len Hw; cbn [wfb] in Hw.
    - fold cs in Hw. lia.
    - rewrite orb_false_r in Hw. eapply IH; eassumption.
  Qed.

  (** decomposition of a well-formed intermediate node *)
  Lemma wf_node_inv : forall L r kids, wfb p L (Node r kids) = true ->
    exists L' init last, (L' < L)%nat /\ kids = init ++ [last] /\
      1 <= Z.of_nat (length init) /\ Z.of_nat (length kids) <= br /\
      Forall (fun k => fullb p L' k = true) init /\ wfb p L' last = true.
  Proof.
    induction L as [|L IH]; intros r kids Hw; cbn [wfb] in Hw; [discriminate|].
    apply orb_true_iff in Hw as [Hw|Hw].
    - destruct (IH r kids Hw) as (L' & init & last & HL & Hk & Hi & Hn & Hf & Hl).
      exists L', init, last. repeat split; try assumption. lia.
    - apply andb_true_iff in Hw as [Hw Hlast]. apply andb_true_iff in Hw as [Hw Hfull].
      apply andb_true_iff in Hw as [H2 Hn].
      destruct (rev kids) as [|last r'] eqn:Er; [discriminate|].
      assert (Hk : kids = rev r' ++ [last]).
      { rewrite <- (rev_involutive kids), Er. reflexivity. }
      exists L, (rev r'), last. rewrite Hk in *. rewrite removelast_last in Hfull.
      rewrite app_length in *. cbn [length] in *.
      fold br in Hn. repeat split; try lia; try assumption.
      apply Forall_forall. rewrite forallb_forall in Hfull. exact Hfull.
  Qed.

  Lemma full_wf : forall L t, fullb p L t = true -> wfb p L t = true.
  Proof.
    induction L as [|L IH]; intros [r len|r kids] Hf; cbn [fullb] in Hf; try discriminate.
    - cbn [wfb]. pose proof (cs_pos p Hrl Hbr). unfold cs in *. lia.
    - apply andb_true_iff in Hf as [Hn Hall].
      cbn [wfb]. apply orb_true_iff. right.
      rewrite forallb_forall in Hall.
      destruct (rev kids) as [|last r'] eqn:Er.
      + apply (f_equal (@length tree)) in Er. rewrite rev_length in Er. cbn [length] in Er.
        fold br in Hn. lia.
      + assert (Hk : kids = rev r' ++ [last]) by (rewrite <- (rev_involutive kids), Er; reflexivity).
        fold br in Hn. fold br.
        repeat (apply andb_true_iff; split); try lia.
        * apply forallb_forall. intros k Hk'. apply Hall. rewrite Hk, removelast_last in Hk'.
          rewrite Hk. apply in_or_app. left. exact Hk'.
        * apply IH, Hall. rewrite Hk. apply in_or_app. right. left. reflexivity.
  Qed.

  Lemma wf_span_bounds : forall L t, wfb p L t = true -> 0 < span t <= fullspan p L.
  Proof.
    induction L as [L IH] using lt_wf_ind. intros [r len|r kids] Hw.
    - apply wf_leaf_inv in Hw. cbn [span]. pose proof (fullspan_ge_cs p Hrl Hbr L). unfold cs in *. lia.
    - destruct (wf_node_inv L r kids Hw) as (L' & init & last & HL & Hk & Hi & Hn & Hf & Hl).
      rewrite span_node, Hk, sum_spans_app.
      rewrite (sum_spans_const (fullspan p L') init)
        by (eapply Forall_impl; [|exact Hf]; intros k Hk'; apply full_span; exact Hk').
      change (sum_spans [last]) with (span last + 0).
      pose proof (IH L' HL last Hl) as Hb.
      pose proof (fullspan_pos p Hrl Hbr L') as Hp.
      pose proof (fullspan_lt_mono p Hrl Hbr L' L HL) as Hm. fold br in Hm.
      rewrite Hk, app_length in Hn. cbn [length] in Hn.
      split; nia.
  Qed.

  (** everything the traversal needs to know about an intermediate node *)
  Lemma node_shape : forall L r kids, wfb p L (Node r kids) = true ->
    exists L' l, (L' < L)%nat /\
      2 <= Z.of_nat (length kids) <= br /\ 0 < l <= fullspan p L' /\
      span (Node r kids) = (Z.of_nat (length kids) - 1) * fullspan p L' + l /\
      (forall k, In k kids -> wfb p L' k = true) /\
      (forall pre k post, kids = pre ++ k :: post ->
         span k = if Z.of_nat (length pre) =? Z.of_nat (length kids) - 1 then l else fullspan p L').
  Proof.
    intros L r kids Hw.
    destruct (wf_node_inv L r kids Hw) as (L' & init & last & HL & Hk & Hi & Hn & Hf & Hl).
    exists L', (span last).
    assert (Hlen : Z.of_nat (length kids) = Z.of_nat (length init) + 1)
      by (rewrite Hk, app_length; cbn [length]; lia).
    split; [exact HL|]. split; [lia|]. split; [apply wf_span_bounds; exact Hl|].
    split; [|split].
    - rewrite span_node, Hk at 1. rewrite sum_spans_app.
      rewrite (sum_spans_const (fullspan p L') init)
        by (eapply Forall_impl; [|exact Hf]; intros k Hk'; apply full_span; exact Hk').
      change (sum_spans [last]) with (span last + 0). rewrite Hlen. lia.
    - intros k Hin. rewrite Hk in Hin. apply in_app_or in Hin as [Hin|[<-|[]]]; [|exact Hl].
      apply full_wf. rewrite Forall_forall in Hf. apply Hf, Hin.
    - intros pre k post Hsplit. rewrite Hlen.
      destruct post as [|x post] using rev_ind.
      + rewrite Hk in Hsplit. apply app_inj_tail in Hsplit as [-> ->].
        replace (Z.of_nat (length pre) =? Z.of_nat (length pre) + 1 - 1) with true by lia. reflexivity.
      + clear IHpost. rewrite Hk in Hsplit.
        change (pre ++ k :: post ++ [x]) with (pre ++ (k :: post) ++ [x]) in Hsplit.
        rewrite app_assoc in Hsplit. apply app_inj_tail in Hsplit as [Hinit _].
        assert (Hkin : In k init) by (rewrite Hinit; apply in_or_app; right; left; reflexivity).
        rewrite Forall_forall in Hf.
        rewrite (full_span L' k (Hf k Hkin)).
        assert (Z.of_nat (length init) = Z.of_nat (length pre) + 1 + Z.of_nat (length post))
          by (rewrite Hinit, app_length; cbn [length]; lia).
        destruct (Z.of_nat (length pre) =? Z.of_nat (length init) + 1 - 1) eqn:E; [lia|reflexivity].
  Qed.

  Lemma node_span_gt L r kids : wfb p L (Node r kids) = true -> cs < span (Node r kids).
  Proof.
    intros Hw. destruct (node_shape L r kids Hw) as (L' & l & _ & Hn & Hl & Hs & _).
    pose proof (fullspan_ge_cs p Hrl Hbr L'). unfold cs in *. nia.
  Qed.
  Lemma node_plen_le L r kids : wfb p L (Node r kids) = true -> rl * Z.of_nat (length kids) <= cs.
  Proof.
    intros Hw. destruct (node_shape L r kids Hw) as (L' & l & _ & Hn & _).
    pose proof (br_rl_le_cs p Hrl). unfold cs, rl, br in *. nia.
  Qed.

  Section Run.
    Variable st : store.
    Variable jaddr : addr.

    (** what [ref_loop] needs from one child *)
    Definition kid_ok (rec : chunk -> res) (k : tree) : Prop :=
      match k with
      | Leaf _ len => len <= cs
      | Node r kk =>
          cs < span k /\ span k < two63 /\ rl * Z.of_nat (length kk) <= cs /\
          lookup st r = Some (chunk_of p k) /\ rec (chunk_of p k) = Done (flat_map kid_events kk)
      end.

    Lemma ref_loop_ok rec n S0 kids :
      (forall pre k post, kids = pre ++ k :: post ->
         subtrie_section p (rl * n) (rl * Z.of_nat (length pre)) S0 = Some (span k)) ->
      forall ks pre, kids = pre ++ ks ->
      (forall k, In k ks -> kid_ok rec k) ->
      ref_loop p st rec (rl * n) S0 (map tref ks) (rl * Z.of_nat (length pre)) = Done (flat_map kid_events ks).
    Proof.
      intros Hsec ks. induction ks as [|k ks IH]; intros pre Hsplit Hok; [reflexivity|].
      cbn [map ref_loop]. rewrite (Hsec pre k ks Hsplit).
      assert (Hnext : rl * Z.of_nat (length pre) + ref_len p = rl * Z.of_nat (length (pre ++ [k])))
        by (rewrite app_length; cbn [length]; fold rl; lia).
      assert (IH' := IH (pre ++ [k])). rewrite <- Hnext in IH'.
      rewrite IH'; [|rewrite <- app_assoc; exact Hsplit|intros k' Hk'; apply Hok; right; exact Hk'].
      pose proof (Hok k (or_introl eq_refl)) as Hk.
      destruct k as [r len|r kk]; cbn [kid_ok] in Hk.
      - cbn [span]. fold cs. replace (len <=? cs) with true by lia. reflexivity.
      - destruct Hk as (Hgt & Hlt & Hpl & Hlk & Hrec).
        fold cs. replace (span (Node r kk) <=? cs) with false by lia.
        cbn [tref]. rewrite Hlk, Hrec. cbn [bind chunk_of cspan cplen].
        rewrite to_i64_id by lia. fold rl.
        replace (span (Node r kk) >? rl * Z.of_nat (length kk)) with true by lia.
        reflexivity.
    Qed.

    Lemma process_node_ok : forall L r kids,
      wfb p L (Node r kids) = true -> span (Node r kids) < two63 ->
      store_ok p st (Node r kids) ->
      forall f, (L <= f)%nat ->
      process p st jaddr f (chunk_of p (Node r kids)) = Done (flat_map kid_events kids).
    Proof.
      induction L as [L IH] using lt_wf_ind. intros r kids Hw Hlt Hok f Hf.
      destruct (node_shape L r kids Hw) as (L' & l & HL & Hn & Hl & Hs & Hkids & Hspans).
      destruct f as [|f]; [lia|].
      pose proof (node_span_gt L r kids Hw) as Hgt.
      pose proof (node_plen_le L r kids Hw) as Hpl.
      cbn [process chunk_of cspan cplen crefs].
      rewrite to_i64_id by lia. fold rl.
      replace (span (Node r kids) <=? rl * Z.of_nat (length kids)) with false by lia.
      rewrite map_length.
      replace (rl * Z.of_nat (length kids) =? rl * Z.of_nat (length kids)) with true by lia.
      cbn [negb].
      replace 0 with (rl * Z.of_nat (length (@nil tree))) at 1 by (cbn [length]; lia).
      apply (ref_loop_ok (process p st jaddr f) (Z.of_nat (length kids)) (span (Node r kids)) kids) with (pre := []).
      - intros pre k post Hsplit.
        assert (Hidx : 0 <= Z.of_nat (length pre) < Z.of_nat (length kids))
          by (rewrite Hsplit, app_length; cbn [length]; lia).
        unfold rl.
        rewrite (subtrie_section_ok p Hrl Hbr L' (span (Node r kids)) (Z.of_nat (length kids)) l (Z.of_nat (length pre)));
          try assumption; try (fold br; lia).
        rewrite (Hspans pre k post Hsplit). reflexivity.
      - reflexivity.
      - intros k Hin. pose proof (Hkids k Hin) as Hwk.
        assert (Hle : span k <= span (Node r kids)).
        { rewrite span_node. apply sum_spans_ge; [|exact Hin].
          intros k' Hk'. pose proof (wf_span_bounds L' k' (Hkids k' Hk')). lia. }
        destruct k as [r' len|r' kk]; cbn [kid_ok].
        + apply wf_leaf_inv in Hwk. lia.
        + pose proof (store_ok_kid p st r kids _ Hok Hin) as Hokk.
          split; [exact (node_span_gt L' r' kk Hwk)|].
          split; [lia|]. split; [exact (node_plen_le L' r' kk Hwk)|].
          split; [exact (store_ok_root p st _ Hokk)|].
          apply (IH L'); try assumption; lia.
    Qed.
  End Run.

  (** joiner.New + IterateChunkAddresses on the root of a well-formed file *)
  Theorem iterate_ok : forall st L t,
    (L <= depth_fuel)%nat -> wf_file p L t = true -> store_ok p st t ->
    iterate p st (tref t) = Done (root_events t).
  Proof.
    intros st L t HL Hwf Hok. unfold wf_file in Hwf. apply andb_true_iff in Hwf as [Hw Hlt].
    unfold iterate. rewrite (store_ok_root p st t Hok).
    destruct t as [r len|r kids].
    - assert (Hlen : 0 <= len) by (destruct len; [lia|apply wf_leaf_inv in Hw; lia|apply wf_leaf_inv in Hw; lia]).
      cbn [span] in Hlt. unfold depth_fuel. cbn [process chunk_of cspan cplen tref].
      rewrite to_i64_id by lia. replace (len <=? len) with true by lia. reflexivity.
    - cbn [tref]. rewrite (process_node_ok st (raddr r) L r kids Hw) by (assumption || lia).
      reflexivity.
  Qed.

  Lemma wf_file_span_class : forall L t, wf_file p L t = true ->
    match t with Leaf _ _ => 0 <= span t <= cs | Node _ _ => cs < span t end /\ span t < two63.
  Proof.
    intros L t Hwf. unfold wf_file in Hwf. apply andb_true_iff in Hwf as [Hw Hlt]. split; [|lia].
    destruct t as [r len|r kids].
    - cbn [span]. pose proof (cs_pos p Hrl Hbr). unfold cs in *.
      destruct len; [lia|apply wf_leaf_inv in Hw; lia|apply wf_leaf_inv in Hw; lia].
    - eapply node_span_gt; eassumption.
  Qed.

  Theorem traverse_file_ok : forall st L t,
    (L <= depth_fuel)%nat -> wf_file p L t = true -> store_ok p st t ->
    traverse_file p st (tref t) = LDone (written t).
  Proof.
    intros st L t HL Hwf Hok. unfold traverse_file. rewrite (iterate_ok st L t HL Hwf Hok).
    cbn [lmap]. rewrite reps_root. reflexivity.
  Qed.

  Theorem chunk_hashes_file_ok : forall st L t,
    (L <= depth_fuel)%nat -> wf_file p L t = true -> store_ok p st t ->
    chunk_hashes_file p st (tref t) = LDone (leaves t).
  Proof.
    intros st L t HL Hwf Hok. unfold chunk_hashes_file. rewrite (iterate_ok st L t HL Hwf Hok).
    cbn [lmap]. rewrite datas_root. reflexivity.
  Qed.

  Theorem pyramid_file_ok : forall st L t,
    (L <= depth_fuel)%nat -> wf_file p L t = true -> store_ok p st t ->
    pyramid_file p st (tref t) = LDone (pyramid_of t).
  Proof.
    intros st L t HL Hwf Hok. unfold pyramid_file.
    rewrite (store_ok_root p st t Hok).
    destruct (wf_file_span_class L t Hwf) as [Hcls Hlt].
    destruct t as [r len|r kids].
    - cbn [chunk_of cspan span] in *. rewrite to_i64_id by lia. fold cs.
      replace (len >? cs) with false by lia. reflexivity.
    - rewrite (iterate_ok st L _ HL Hwf Hok).
      assert (Hcp : 0 < cs) by (apply (cs_pos p Hrl Hbr)).
      cbn [chunk_of cspan]. rewrite to_i64_id by lia. fold cs.
      replace (span (Node r kids) >? cs) with true by lia.
      cbn [lmap tref pyramid_of]. rewrite edges_root_node. reflexivity.
  Qed.
End Main.

(** ---- the collision hypothesis makes the written chunks a store that agrees with the tree *)
Definition NoCollisionAmong (es : list (ref * chunk)) : Prop :=
  forall r c r' c', In (r, c) es -> In (r', c') es -> raddr r = raddr r' -> r = r' /\ c = c'.

Lemma lookup_in st r c : lookup st r = Some c -> In (r, c) st.
Proof.
  induction st as [|[r' c'] st IH]; cbn [lookup]; [discriminate|].
  destruct (ref_eqb r' r) eqn:E.
  - intros [= ->]. apply ref_eqb_eq in E. subst. left. reflexivity.
  - intros H. right. apply IH, H.
Qed.
Lemma in_lookup st r c : In (r, c) st -> exists c', lookup st r = Some c'.
Proof.
  induction st as [|[r' c'] st IH]; [contradiction|]. intros Hin. cbn [lookup].
  destruct (ref_eqb r' r) eqn:E; [eexists; reflexivity|].
  destruct Hin as [Heq|Hin]; [|apply IH, Hin].
  inversion Heq; subst. assert (ref_eqb r r = true) by (apply ref_eqb_eq; reflexivity). congruence.
Qed.

Lemma no_collision_lookup st r c : NoCollisionAmong st -> In (r, c) st -> lookup st r = Some c.
Proof.
  intros Hnc Hin. destruct (in_lookup st r c Hin) as [c' Hc'].
  pose proof (lookup_in st r c' Hc') as Hin'.
  destruct (Hnc r c r c' Hin Hin' eq_refl) as [_ ->]. exact Hc'.
Qed.

Lemma no_collision_store_ok p t st :
  NoCollisionAmong st -> incl (entries p t) st -> store_ok p st t.
Proof. intros Hnc Hincl r c Hin. apply no_collision_lookup; [exact Hnc|apply Hincl, Hin]. Qed.

Lemma chunk_eqb_eq a b : chunk_eqb a b = true -> a = b.
Proof.
  destruct a as [s1 l1 r1], b as [s2 l2 r2]. unfold chunk_eqb. cbn [cspan cplen crefs].
  intros H. apply andb_true_iff in H as [H Hr]. apply andb_true_iff in H as [Hs Hl].
  assert (r1 = r2).
  { revert r2 Hr. induction r1 as [|u r1 IH]; intros [|v r2] Hr; try discriminate; [reflexivity|].
    apply andb_true_iff in Hr as [Hu Hr]. apply ref_eqb_eq in Hu. subst. f_equal. apply IH, Hr. }
  subst. f_equal; lia.
Qed.

Lemma no_collision_b_ok es : no_collision_b es = true -> NoCollisionAmong es.
Proof.
  unfold no_collision_b. intros H r c r' c' H1 H2 Ha.
  rewrite forallb_forall in H. pose proof (H _ H1) as H'. rewrite forallb_forall in H'.
  pose proof (H' _ H2) as H3. cbn [fst snd] in H3.
  apply orb_true_iff in H3 as [H3|H3].
  - apply negb_true_iff, N.eqb_neq in H3. contradiction.
  - apply andb_true_iff in H3 as [Hr Hc]. apply ref_eqb_eq in Hr. apply chunk_eqb_eq in Hc. auto.
Qed.

(** ---- pure tree facts: data chunks and pyramid chunks partition the written chunks *)
Lemma perm_flat_map_app {A B} (f g : A -> list B) l :
  Permutation (flat_map (fun x => f x ++ g x) l) (flat_map f l ++ flat_map g l).
Proof.
  induction l as [|x l IH]; [constructor|]. cbn [flat_map].
  rewrite IH. rewrite <- !app_assoc. apply Permutation_app_head.
  rewrite !app_assoc. apply Permutation_app_tail. apply Permutation_app_comm.
Qed.
Lemma perm_flat_map_ext {A B} (f g : A -> list B) l :
  Forall (fun x => Permutation (f x) (g x)) l -> Permutation (flat_map f l) (flat_map g l).
Proof.
  induction 1 as [|x l Hx Hl IH]; [constructor|]. cbn [flat_map]. apply Permutation_app; assumption.
Qed.

Lemma written_partition t : Permutation (written t) (leaves t ++ inner t).
Proof.
  induction t as [r len|r kids IH] using tree_ind'; [reflexivity|].
  cbn [written leaves inner taddr tref].
  rewrite (perm_flat_map_ext written (fun k => leaves k ++ inner k) kids IH).
  rewrite perm_flat_map_app. apply Permutation_middle.
Qed.

Theorem cover t a : In a (written t) <-> In a (leaves t) \/ In a (pyramid_of t).
Proof.
  destruct t as [r len|r kids].
  - cbn. tauto.
  - cbn [pyramid_of]. rewrite <- in_app_iff.
    split; apply Permutation_in; [|symmetry]; apply written_partition.
Qed.

(** a data chunk and an intermediate chunk of a well-formed tree never share an address, unless
    the collision hypothesis fails *)
Lemma leaves_entry p t a : In a (leaves t) ->
  exists r len, raddr r = a /\ In (r, mkChunk len len []) (entries p t).
Proof.
  induction t as [r len|r kids IH] using tree_ind'; intros Hin.
  - destruct Hin as [<-|[]]. exists r, len. split; [reflexivity|left; reflexivity].
  - cbn [leaves] in Hin. apply in_flat_map in Hin as (k & Hk & Hin).
    rewrite Forall_forall in IH. destruct (IH k Hk Hin) as (r' & len & Ha & He).
    exists r', len. split; [exact Ha|]. eapply entries_kid; eassumption.
Qed.
Lemma inner_entry p t a : In a (inner t) ->
  exists r kk, raddr r = a /\ In (r, chunk_of p (Node r kk)) (entries p t) /\
               exists t', t' = Node r kk.
Proof.
  induction t as [r len|r kids IH] using tree_ind'; intros Hin; [contradiction|].
  cbn [inner] in Hin. destruct Hin as [<-|Hin].
  - exists r, kids. split; [reflexivity|]. split; [left; reflexivity|eexists; reflexivity].
  - apply in_flat_map in Hin as (k & Hk & Hin).
    rewrite Forall_forall in IH. destruct (IH k Hk Hin) as (r' & kk & Ha & He & Ht).
    exists r', kk. split; [exact Ha|]. split; [eapply entries_kid; eassumption|exact Ht].
Qed.
