(** C40 — property theorems only.  The model (Model.v) is pkg/subscribe/subscribe.go with
    proposed/C40/fix-subpub-early-fire.patch applied.  A schedule is any list of [action]s
    (Subscribe calls, error channels closing or delivering a value, steps of the process
    goroutine in any order, Publish key loops); "the error channel fires" is read as "is
    closed", which is what every notifier of the repository does (rpc.Subscription.Err,
    NotifierWithMsgChan.ErrChan). *)
From Coq Require Import List NArith Bool.
Import ListNotations.
Require Import Aurora.C40.Model Aurora.C40.Proofs.
Local Open Scope N_scope.

(** Registration takes effect when process takes the subscription from its queue; from then on,
    until process handles an unsubscription of that (key, notifier), every message published
    under the key is notified to the notifier, in publication order, at least once (once per
    registration), and nothing else is notified to it under that key — for all schedules. *)
Theorem C40_delivery :
  (forall s k n q, subq s = (k, n) :: q ->
     cnt n (lookup (regs (fst (step s AProcSub))) k) = S (cnt n (lookup (regs s) k))) /\
  (forall k n acts s, (1 <= cnt n (lookup (regs s) k))%nat -> no_unsub_of (k, n) s acts ->
     Expand (pub_blocks k acts) (recv n k (snd (run s acts)))) /\
  (forall k n c acts s, cnt n (lookup (regs s) k) = c -> cntev (k, n) (subq s) = 0%nat ->
     no_unsub_of (k, n) s acts -> no_subscribe_of (k, n) acts ->
     recv n k (snd (run s acts)) = concat (flat_map (fun b => repeat b c) (pub_blocks k acts))).
Proof. exact (conj registered_by_proc_sub (conj delivery_run delivery_exact)). Qed.
Print Assumptions C40_delivery.

(** Publish(ns, kind, param, m) reaches the subscribers of the namespace-wide key and of the
    specific key, once each *)
Theorem C40_publish_keys : forall ns kind param param' m,
  param' = [] \/ param' = param ->
  pub_blocks (sub_key ns kind param') (publish ns kind param m) = [[m]].
Proof. exact publish_reaches. Qed.
Print Assumptions C40_publish_keys.

(** PublishArray offers the namespace-wide subscribers every message of the array and the
    subscribers of a specific key the messages carrying that param, in list order, whatever
    order the Go map is ranged over *)
Theorem C40_publish_array :
  (forall ns kind items param',
     lookup (array_groups ns kind items) (sub_key ns kind param') =
     map snd (filter (fun it => is_empty param' || Aurora.Base.Corr.bytes_eqb (fst it) param') items)) /\
  (forall k g, pub_blocks k (array_actions g) = map snd (filter (fun e : key * list msg => keyb (fst e) k) g)).
Proof. exact (conj array_group_of array_blocks). Qed.
Print Assumptions C40_publish_array.

(** In every reachable state, once n's error channel is closed and every unsubscription of
    (k, n) it triggered has been handled, n is in no list of k — however many times it had
    subscribed to k — and no subscription or waiter of it is left. *)
Theorem C40_removed_after_all_events : forall s k n,
  reachable s -> mem_nid n (closed s) = true -> cntev (k, n) (unsubq s) = 0%nat ->
  cnt n (lookup (regs s) k) = 0%nat /\ cntev (k, n) (subq s) = 0%nat /\ cntev (k, n) (waiting s) = 0%nat.
Proof. exact removed_after_all_events. Qed.
Print Assumptions C40_removed_after_all_events.

(** ... and from that point on n is never notified under k again, whatever the schedule does
    (unless it is subscribed to k anew) *)
Theorem C40_silent_after : forall s k n acts,
  reachable s -> mem_nid n (closed s) = true -> cntev (k, n) (unsubq s) = 0%nat ->
  no_subscribe_of (k, n) acts ->
  recv n k (snd (run s acts)) = [].
Proof. exact silent_after. Qed.
Print Assumptions C40_silent_after.

(** non-vacuity and the two observations on the code:
    (1) before the repair, an unsubscription could overtake its own subscription
        (F-subpub-early-fire): closed, everything handled, still notified; not after the repair;
    (2) the removal loop skips the element after a removed one (F-subpub-dup): with a SENT
        error value and two registrations one survives; closing the channel removes it. *)
Example C40_witnesses :
  (let acts := [ASubscribe k0 1; AClose 1; AProcUnsub 0; AProcSub; APub k0 [9]] in
   let s := fst (run_orig init acts) in
   mem_nid 1 (closed s) = true /\ unsubq s = [] /\ subq s = [] /\
   snd (run_orig init acts) = [(1, k0, 9)] /\ snd (run init acts) = []) /\
  (let pre := [ASubscribe k0 1; ASubscribe k0 1; AProcSub; AProcSub; AWake 0; AProcUnsub 0] in
   remove_skip 1 [1; 1] = [1] /\
   snd (run init (pre ++ [APub k0 [9]])) = [(1, k0, 9)] /\
   snd (run init (pre ++ [AClose 1; AProcUnsub 0; APub k0 [9]])) = []).
Proof. exact (conj early_fire_orig skip_on_send). Qed.

Example C40_hyps_satisfiable :
  let s := fst (run init [ASubscribe k0 1; ASubscribe k0 1; AProcSub; AProcSub]) in
  reachable s /\ cnt 1 (lookup (regs s) k0) = 2%nat /\ cntev (k0, 1) (subq s) = 0%nat /\
  no_unsub_of (k0, 1) s [APub k0 [5]; AClose 1; APub k0 [6]] /\
  recv 1 k0 (snd (run s [APub k0 [5]; AClose 1; APub k0 [6]])) = [5; 5; 6; 6] /\
  (let s' := fst (run s [AClose 1; AProcUnsub 0; AProcUnsub 0]) in
   mem_nid 1 (closed s') = true /\ cntev (k0, 1) (unsubq s') = 0%nat /\ lookup (regs s') k0 = []).
Proof. split; [eexists; reflexivity|]. vm_compute. repeat split; reflexivity. Qed.
