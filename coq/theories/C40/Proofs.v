(** C40 — proofs about the subscribe/publish model. *)
From Coq Require Import List NArith Bool Lia Arith.
From Coq Require Import ZifyBool ZifyNat ZifyN.
Import ListNotations.
Require Import Aurora.Base.Corr Aurora.C40.Model.
Local Open Scope N_scope.

(** * keys and events *)

Lemma keyb_eq a b : keyb a b = true <-> a = b.
Proof. apply bytes_eqb_eq. Qed.
Lemma keyb_refl a : keyb a a = true.
Proof. now apply keyb_eq. Qed.
Lemma keyb_neq a b : keyb a b = false <-> a <> b.
Proof.
  split.
  - intros H E. apply keyb_eq in E. congruence.
  - intros H. destruct (keyb a b) eqn:E; [apply keyb_eq in E; contradiction | reflexivity].
Qed.
Lemma keyb_sym a b : keyb a b = keyb b a.
Proof.
  destruct (keyb a b) eqn:E.
  - apply keyb_eq in E. subst. symmetry. apply keyb_refl.
  - symmetry. apply keyb_neq. apply keyb_neq in E. congruence.
Qed.

Lemma evb_eq a b : evb a b = true <-> a = b.
Proof.
  unfold evb. rewrite andb_true_iff, keyb_eq, N.eqb_eq. destruct a, b; cbn. split.
  - intros [-> ->]. reflexivity.
  - intros [= -> ->]. split; reflexivity.
Qed.
Lemma evb_refl a : evb a a = true.
Proof. now apply evb_eq. Qed.
Lemma evb_pair k0 n0 k n : evb (k0, n0) (k, n) = keyb k0 k && (n0 =? n).
Proof. reflexivity. Qed.

(** * the registry *)

Lemma lookup_store r k l k' : lookup (store r k l) k' = if keyb k k' then l else lookup r k'.
Proof.
  induction r as [|[k0 l0] t IH]; cbn [store lookup].
  - reflexivity.
  - destruct (keyb k0 k) eqn:E0; cbn [lookup].
    + apply keyb_eq in E0. subst k0. destruct (keyb k k'); reflexivity.
    + rewrite IH. destruct (keyb k0 k') eqn:E1; [|reflexivity].
      apply keyb_eq in E1. subst k'. rewrite keyb_sym, E0. reflexivity.
Qed.

Lemma lookup_delete r k k' : lookup (delete r k) k' = if keyb k k' then [] else lookup r k'.
Proof.
  unfold delete. induction r as [|[k0 l0] t IH]; cbn [filter lookup fst].
  - now destruct (keyb k k').
  - destruct (keyb k0 k) eqn:E0; cbn [negb lookup].
    + apply keyb_eq in E0. subst k0. rewrite IH. now destruct (keyb k k').
    + rewrite IH. destruct (keyb k0 k') eqn:E1; [|reflexivity].
      apply keyb_eq in E1. subst k'. rewrite keyb_sym, E0. reflexivity.
Qed.

Lemma lookup_register r e k' :
  lookup (register r e) k' = if keyb (fst e) k' then lookup r (fst e) ++ [snd e] else lookup r k'.
Proof. unfold register. apply lookup_store. Qed.

Lemma lookup_unregister r e k' :
  lookup (unregister r e) k' =
  if keyb (fst e) k' then remove_skip (snd e) (lookup r (fst e)) else lookup r k'.
Proof.
  unfold unregister. destruct (remove_skip (snd e) (lookup r (fst e))) eqn:E.
  - apply lookup_delete.
  - apply lookup_store.
Qed.

(** * counting *)

Lemma cnt_app n l1 l2 : cnt n (l1 ++ l2) = (cnt n l1 + cnt n l2)%nat.
Proof. induction l1 as [|x l1 IH]; cbn [cnt app]; [reflexivity | rewrite IH; lia]. Qed.

Lemma cntev_app e l1 l2 : cntev e (l1 ++ l2) = (cntev e l1 + cntev e l2)%nat.
Proof. induction l1 as [|x l1 IH]; cbn [cntev app]; [reflexivity | rewrite IH; lia]. Qed.

Lemma cntev_partition e f l :
  (cntev e (filter f l) + cntev e (filter (fun x => negb (f x)) l) = cntev e l)%nat.
Proof.
  induction l as [|x l IH]; cbn [filter cntev]; [reflexivity|].
  destruct (f x); cbn [negb cntev]; lia.
Qed.

Lemma cntev_remove_nth e' l : forall i e, nth_error l i = Some e ->
  (cntev e' (remove_nth l i) + (if evb e e' then 1 else 0) = cntev e' l)%nat.
Proof.
  induction l as [|x l IH]; intros [|i] e H; cbn in H; try discriminate.
  - injection H as ->. cbn [remove_nth cntev]. lia.
  - cbn [remove_nth cntev]. specialize (IH i e H). lia.
Qed.

Lemma cntev_zero_nth e' l i e : cntev e' l = 0%nat -> nth_error l i = Some e -> evb e e' = false.
Proof.
  intros Hz Hn. pose proof (cntev_remove_nth e' l i e Hn) as H.
  destruct (evb e e'); [lia | reflexivity].
Qed.

Lemma cntev_filter_le e f l : (cntev e (filter f l) <= cntev e l)%nat.
Proof. induction l as [|x l IH]; cbn [filter cntev]; [lia|]. destruct (f x); cbn [cntev]; lia. Qed.

(** registering the queued subscriptions *)
Lemma cnt_drain n k : forall q r,
  cnt n (lookup (fold_left register q r) k) = (cnt n (lookup r k) + cntev (k, n) q)%nat.
Proof.
  induction q as [|[k0 n0] q IH]; intros r; cbn [fold_left cntev].
  - lia.
  - rewrite IH, lookup_register. cbn [fst snd]. rewrite evb_pair.
    destruct (keyb k0 k) eqn:E; cbn [andb].
    + apply keyb_eq in E. subst k0. rewrite cnt_app. cbn [cnt]. destruct (n0 =? n); lia.
    + lia.
Qed.

(** * the removal loop *)

Lemma remove_skip_facts n : forall m l, (length l <= m)%nat ->
  (forall n', n' <> n -> cnt n' (remove_skip n l) = cnt n' l) /\
  (cnt n (remove_skip n l) <= cnt n l)%nat /\
  ((1 <= cnt n l)%nat -> (cnt n (remove_skip n l) + 1 <= cnt n l)%nat).
Proof.
  induction m as [|m IH]; intros l Hl.
  - destruct l; [|cbn in Hl; lia]. cbn. repeat split; intros; lia.
  - destruct l as [|x t]; [cbn; repeat split; intros; lia|].
    cbn [length] in Hl. cbn [remove_skip].
    destruct (N.eqb_spec x n) as [->|Hxn].
    + destruct t as [|y t'].
      * cbn [cnt]. rewrite N.eqb_refl. repeat split; intros; try lia.
        destruct (N.eqb_spec n n'); [congruence | lia].
      * destruct (IH t') as (Ha & Hb & Hc); [cbn [length] in Hl; lia|].
        cbn [cnt]. rewrite N.eqb_refl. repeat split.
        -- intros n' Hn'. rewrite (Ha n' Hn'). destruct (N.eqb_spec n n'); [congruence | lia].
        -- destruct (y =? n); lia.
        -- intros _. destruct (y =? n); lia.
    + destruct (IH t) as (Ha & Hb & Hc); [lia|].
      cbn [cnt]. destruct (N.eqb_spec x n) as [|_]; [contradiction|]. repeat split.
      * intros n' Hn'. now rewrite (Ha n' Hn').
      * lia.
      * intros H1. specialize (Hc ltac:(lia)). lia.
Qed.

Lemma cnt_remove_skip_other n n' l : n' <> n -> cnt n' (remove_skip n l) = cnt n' l.
Proof. intros H. now apply (remove_skip_facts n (length l) l (le_n _)). Qed.
Lemma cnt_remove_skip_le n l : (cnt n (remove_skip n l) <= cnt n l)%nat.
Proof. now apply (remove_skip_facts n (length l) l (le_n _)). Qed.
Lemma cnt_remove_skip_dec n l : (1 <= cnt n l)%nat -> (cnt n (remove_skip n l) + 1 <= cnt n l)%nat.
Proof. now apply (remove_skip_facts n (length l) l (le_n _)). Qed.

(** effect of the registry updates on one (key, notifier) count *)
Lemma cnt_register r e k n :
  cnt n (lookup (register r e) k) = (cnt n (lookup r k) + (if evb e (k, n) then 1 else 0))%nat.
Proof.
  rewrite lookup_register. destruct e as [k0 n0]. cbn [fst snd]. rewrite evb_pair.
  destruct (keyb k0 k) eqn:E; cbn [andb]; [|lia].
  apply keyb_eq in E. subst k0. rewrite cnt_app. cbn [cnt]. destruct (n0 =? n); lia.
Qed.

Lemma cnt_unregister_other r e k n : evb e (k, n) = false ->
  cnt n (lookup (unregister r e) k) = cnt n (lookup r k).
Proof.
  intros He. rewrite lookup_unregister. destruct e as [k0 n0]. cbn [fst snd] in *. rewrite evb_pair in He.
  destruct (keyb k0 k) eqn:E; [|reflexivity].
  apply keyb_eq in E. subst k0. cbn [andb] in He. apply N.eqb_neq in He.
  apply cnt_remove_skip_other. congruence.
Qed.

Lemma cnt_unregister_same r k n :
  (cnt n (lookup (unregister r (k, n)) k) <= cnt n (lookup r k) - 1)%nat.
Proof.
  rewrite lookup_unregister. cbn [fst snd]. rewrite keyb_refl.
  pose proof (cnt_remove_skip_le n (lookup r k)). pose proof (cnt_remove_skip_dec n (lookup r k)). lia.
Qed.

(** * the invariant: registrations never outnumber live waiters + pending unsubscriptions *)

Definition InvI (s : st) : Prop := forall k n,
  (cnt n (lookup (regs s) k) + cntev (k, n) (subq s) <= cntev (k, n) (waiting s) + cntev (k, n) (unsubq s))%nat.
(** a closed notifier has no blocked waiter *)
Definition InvC (s : st) : Prop := forall k n,
  mem_nid n (closed s) = true -> cntev (k, n) (waiting s) = 0%nat.

Lemma mem_nid_cons n n0 l : mem_nid n (n0 :: l) = (n =? n0) || mem_nid n l.
Proof. reflexivity. Qed.

Lemma cntev_filter_closed k n l : cntev (k, n) (filter (fun e : ev => negb (snd e =? n)) l) = 0%nat.
Proof.
  induction l as [|[k0 n0] l IH]; cbn [filter snd]; [reflexivity|].
  destruct (N.eqb_spec n0 n) as [->|Hne]; cbn [negb]; [exact IH|].
  cbn [cntev]. rewrite evb_pair. replace (n0 =? n) with false by (symmetry; now apply N.eqb_neq).
  rewrite andb_false_r. exact IH.
Qed.

Lemma InvI_step s a : InvI s -> InvI (fst (step s a)).
Proof.
  intros HI k n. specialize (HI k n) as HI0.
  destruct a as [k0 n0| |n0|i|i|k0 ms]; unfold step; cbn [step_gen].
  - destruct (mem_nid n0 (closed s)); cbn [fst regs subq waiting unsubq]; rewrite !cntev_app; cbn [cntev]; lia.
  - destruct (subq s) as [|e q] eqn:Eq; cbn [fst regs subq waiting unsubq]; [rewrite Eq; exact HI0|].
    rewrite cnt_register. cbn [cntev] in HI0. lia.
  - cbn [fst regs subq waiting unsubq]. rewrite cntev_app.
    pose proof (cntev_partition (k, n) (fun e : ev => snd e =? n0) (waiting s)) as Hp. cbv beta in Hp. lia.
  - destruct (nth_error (waiting s) i) as [e|] eqn:En; cbn [fst regs subq waiting unsubq]; [|exact HI0].
    rewrite cntev_app. cbn [cntev]. pose proof (cntev_remove_nth (k, n) _ _ _ En). lia.
  - destruct (nth_error (unsubq s) i) as [e|] eqn:En; cbn [fst regs subq waiting unsubq]; [|exact HI0].
    pose proof (cntev_remove_nth (k, n) _ _ _ En) as Hr. cbn [cntev].
    destruct (evb e (k, n)) eqn:Ee.
    + apply evb_eq in Ee. subst e.
      pose proof (cnt_unregister_same (fold_left register (subq s) (regs s)) k n) as Hu.
      rewrite cnt_drain in Hu. lia.
    + rewrite cnt_unregister_other by exact Ee. rewrite cnt_drain. lia.
  - cbn [fst]. exact HI0.
Qed.

Lemma InvC_step s a : InvC s -> InvC (fst (step s a)).
Proof.
  intros HC k n. specialize (HC k n) as HC0.
  destruct a as [k0 n0| |n0|i|i|k0 ms]; unfold step; cbn [step_gen].
  - destruct (mem_nid n0 (closed s)) eqn:Em; cbn [fst closed waiting]; [exact HC0|].
    intros Hn. rewrite cntev_app, (HC0 Hn). cbn [cntev]. rewrite evb_pair.
    destruct (N.eqb_spec n0 n) as [->|_]; [congruence|]. now rewrite andb_false_r.
  - destruct (subq s); cbn [fst closed waiting]; exact HC0.
  - cbn [fst closed waiting]. rewrite mem_nid_cons. intros Hn.
    destruct (N.eqb_spec n n0) as [->|Hne]; [apply cntev_filter_closed|].
    cbn [orb] in Hn. pose proof (cntev_filter_le (k, n) (fun e : ev => negb (snd e =? n0)) (waiting s)).
    rewrite (HC0 Hn) in H. lia.
  - destruct (nth_error (waiting s) i) as [e|] eqn:En; cbn [fst closed waiting]; [|exact HC0].
    intros Hn. pose proof (cntev_remove_nth (k, n) _ _ _ En). rewrite (HC0 Hn) in H. lia.
  - destruct (nth_error (unsubq s) i); cbn [fst closed waiting]; exact HC0.
  - cbn [fst]. exact HC0.
Qed.

Lemma run_fst_cons d s a t : fst (run_gen d s (a :: t)) = fst (run_gen d (fst (step_gen d s a)) t).
Proof. cbn [run_gen]. destruct (step_gen d s a) as [s1 l1]. cbn [fst]. now destruct (run_gen d s1 t). Qed.
Lemma run_snd_cons d s a t :
  snd (run_gen d s (a :: t)) = snd (step_gen d s a) ++ snd (run_gen d (fst (step_gen d s a)) t).
Proof. cbn [run_gen]. destruct (step_gen d s a) as [s1 l1]. cbn [fst snd]. now destruct (run_gen d s1 t). Qed.

Lemma Inv_run : forall acts s, InvI s /\ InvC s -> InvI (fst (run s acts)) /\ InvC (fst (run s acts)).
Proof.
  induction acts as [|a t IH]; intros s [HI HC]; [split; assumption|].
  unfold run. rewrite run_fst_cons. apply IH. split; [now apply InvI_step | now apply InvC_step].
Qed.

Lemma Inv_init : InvI init /\ InvC init.
Proof. split; intros k n; cbn; [lia | discriminate]. Qed.

Lemma Inv_reachable s : reachable s -> InvI s /\ InvC s.
Proof. intros [acts ->]. apply Inv_run. apply Inv_init. Qed.

(** after the error channel of n was closed and every unsubscription of (k, n) it triggered
    has been handled, n is in no list of k and no subscription of it is pending *)
Lemma removed_after_all_events s k n :
  reachable s -> mem_nid n (closed s) = true -> cntev (k, n) (unsubq s) = 0%nat ->
  cnt n (lookup (regs s) k) = 0%nat /\ cntev (k, n) (subq s) = 0%nat /\ cntev (k, n) (waiting s) = 0%nat.
Proof.
  intros Hr Hc Hu. destruct (Inv_reachable s Hr) as [HI HC].
  specialize (HI k n). specialize (HC k n Hc). lia.
Qed.

(** * deliveries *)

Lemma recv_app n k l1 l2 : recv n k (l1 ++ l2) = recv n k l1 ++ recv n k l2.
Proof.
  induction l1 as [|[[n' k'] m] l1 IH]; cbn [recv app]; [reflexivity|].
  destruct ((n' =? n) && keyb k' k); cbn [app]; now rewrite IH.
Qed.

Lemma recv_one n k x k0 ms :
  recv n k (map (fun m => (x, k0, m)) ms) = if (x =? n) && keyb k0 k then ms else [].
Proof.
  induction ms as [|m ms IH]; cbn [map recv]; [now destruct ((x =? n) && keyb k0 k)|].
  rewrite IH. now destruct ((x =? n) && keyb k0 k).
Qed.

Lemma recv_notify n k k0 ms l :
  recv n k (flat_map (fun n' => map (fun m => (n', k0, m)) ms) l) =
  if keyb k0 k then concat (repeat ms (cnt n l)) else [].
Proof.
  induction l as [|x l IH]; cbn [flat_map cnt]; [now destruct (keyb k0 k)|].
  rewrite recv_app, recv_one, IH. destruct (keyb k0 k); [|now rewrite andb_false_r].
  rewrite andb_true_r. destruct (x =? n); reflexivity.
Qed.

Lemma pub_blocks_app k a1 a2 : pub_blocks k (a1 ++ a2) = pub_blocks k a1 ++ pub_blocks k a2.
Proof.
  induction a1 as [|a a1 IH]; [reflexivity|]. cbn [app pub_blocks].
  destruct a; try exact IH. destruct (keyb k0 k); cbn [app]; now rewrite IH.
Qed.
Lemma pubs_app k a1 a2 : pubs k (a1 ++ a2) = pubs k a1 ++ pubs k a2.
Proof. unfold pubs. now rewrite pub_blocks_app, concat_app. Qed.

Definition quiet (s : st) (k : key) (n : nid) : Prop :=
  cnt n (lookup (regs s) k) = 0%nat /\ cntev (k, n) (subq s) = 0%nat /\
  cntev (k, n) (waiting s) = 0%nat /\ cntev (k, n) (unsubq s) = 0%nat.

Lemma quiet_step s a k n : quiet s k n ->
  match a with ASubscribe k0 n0 => evb (k0, n0) (k, n) = false | _ => True end ->
  quiet (fst (step s a)) k n /\ recv n k (snd (step s a)) = [].
Proof.
  intros (Hr & Hs & Hw & Hu) Ha.
  destruct a as [k0 n0| |n0|i|i|k0 ms]; unfold step; cbn [step_gen].
  - destruct (mem_nid n0 (closed s)); cbn [fst snd regs subq waiting unsubq]; unfold quiet;
      cbn [regs subq waiting unsubq]; rewrite !cntev_app; cbn [cntev]; rewrite Ha; repeat split; lia.
  - destruct (subq s) as [|e q] eqn:Eq; cbn [fst snd]; unfold quiet; cbn [regs subq waiting unsubq].
    + rewrite Eq. repeat split; assumption.
    + cbn [cntev] in Hs. rewrite cnt_register. destruct (evb e (k, n)); repeat split; lia.
  - cbn [fst snd]. unfold quiet; cbn [regs subq waiting unsubq]. rewrite cntev_app.
    pose proof (cntev_filter_le (k, n) (fun e : ev => negb (snd e =? n0)) (waiting s)).
    pose proof (cntev_filter_le (k, n) (fun e : ev => snd e =? n0) (waiting s)). repeat split; lia.
  - destruct (nth_error (waiting s) i) as [e|] eqn:En; cbn [fst snd]; unfold quiet; cbn [regs subq waiting unsubq];
      [|repeat split; assumption].
    pose proof (cntev_remove_nth (k, n) _ _ _ En). rewrite cntev_app. cbn [cntev].
    rewrite (cntev_zero_nth _ _ _ _ Hw En). repeat split; lia.
  - destruct (nth_error (unsubq s) i) as [e|] eqn:En; cbn [fst snd]; unfold quiet; cbn [regs subq waiting unsubq];
      [|repeat split; assumption].
    pose proof (cntev_remove_nth (k, n) _ _ _ En). cbn [cntev].
    rewrite cnt_unregister_other by exact (cntev_zero_nth _ _ _ _ Hu En). rewrite cnt_drain.
    repeat split; lia.
  - cbn [fst snd]. split; [repeat split; assumption|].
    rewrite recv_notify. destruct (keyb k0 k) eqn:E; [|reflexivity].
    apply keyb_eq in E. subst k0. now rewrite Hr.
Qed.

Lemma silent_run k n : forall acts s, quiet s k n -> no_subscribe_of (k, n) acts ->
  recv n k (snd (run s acts)) = [] /\ quiet (fst (run s acts)) k n.
Proof.
  induction acts as [|a t IH]; intros s Hq Hn; [split; [reflexivity | exact Hq]|].
  unfold run. rewrite run_fst_cons, run_snd_cons, recv_app.
  assert (Ha : match a with ASubscribe k0 n0 => evb (k0, n0) (k, n) = false | _ => True end /\ no_subscribe_of (k, n) t).
  { destruct a; cbn [no_subscribe_of] in Hn; try (split; [exact I | exact Hn]). exact Hn. }
  destruct Ha as [Ha Ht]. destruct (quiet_step s a k n Hq Ha) as [Hq' Hr'].
  fold (step s a). rewrite Hr'. cbn [app]. apply IH; assumption.
Qed.

(** once every unsubscription triggered by the closed channel has been handled, n is never
    notified under k again, whatever happens next, as long as it is not subscribed anew *)
Lemma silent_after s k n acts :
  reachable s -> mem_nid n (closed s) = true -> cntev (k, n) (unsubq s) = 0%nat ->
  no_subscribe_of (k, n) acts ->
  recv n k (snd (run s acts)) = [].
Proof.
  intros Hr Hc Hu Hn. destruct (removed_after_all_events s k n Hr Hc Hu) as (H1 & H2 & H3).
  apply (silent_run k n acts s); [repeat split; assumption | exact Hn].
Qed.

(** a registration persists until [process] handles an unsubscription of that (key, notifier) *)
Lemma cnt_step_mono s a k n :
  match a with
  | AProcUnsub i => match nth_error (unsubq s) i with Some e' => evb e' (k, n) = false | None => True end
  | _ => True
  end ->
  (cnt n (lookup (regs s) k) <= cnt n (lookup (regs (fst (step s a))) k))%nat.
Proof.
  intros Ha. destruct a as [k0 n0| |n0|i|i|k0 ms]; unfold step; cbn [step_gen].
  - destruct (mem_nid n0 (closed s)); cbn [fst regs]; lia.
  - destruct (subq s) as [|e q]; cbn [fst regs]; [lia|]. rewrite cnt_register. lia.
  - cbn [fst regs]. lia.
  - destruct (nth_error (waiting s) i); cbn [fst regs]; lia.
  - destruct (nth_error (unsubq s) i) as [e|]; cbn [fst regs]; [|lia].
    rewrite cnt_unregister_other by exact Ha. rewrite cnt_drain. lia.
  - cbn [fst]. lia.
Qed.

Lemma delivery_run k n : forall acts s,
  (1 <= cnt n (lookup (regs s) k))%nat -> no_unsub_of (k, n) s acts ->
  Expand (pub_blocks k acts) (recv n k (snd (run s acts))).
Proof.
  induction acts as [|a t IH]; intros s Hc Hn; [constructor|].
  cbn [no_unsub_of] in Hn. destruct Hn as [Ha Ht].
  unfold run. rewrite run_snd_cons, recv_app. fold (step s a).
  pose proof (cnt_step_mono s a k n Ha) as Hm.
  specialize (IH (fst (step s a)) ltac:(lia) Ht).
  destruct a as [k0 n0| |n0|i|i|k0 ms]; cbn [pub_blocks];
    try (replace (recv n k (snd (step s _))) with (@nil msg); [exact IH|]; unfold step; cbn [step_gen]).
  - now destruct (mem_nid n0 (closed s)).
  - now destruct (subq s).
  - reflexivity.
  - now destruct (nth_error (waiting s) i).
  - now destruct (nth_error (unsubq s) i).
  - unfold step at 1; cbn [step_gen snd]. rewrite recv_notify.
    destruct (keyb k0 k) eqn:E; [|exact IH]. apply keyb_eq in E. subst k0. now constructor.
Qed.

(** exactly once per registration when the number of registrations does not change *)
Lemma cnt_step_const s a k n :
  match a with
  | AProcUnsub i => match nth_error (unsubq s) i with Some e' => evb e' (k, n) = false | None => True end
  | _ => True
  end ->
  cntev (k, n) (subq s) = 0%nat ->
  match a with ASubscribe k0 n0 => evb (k0, n0) (k, n) = false | _ => True end ->
  cnt n (lookup (regs (fst (step s a))) k) = cnt n (lookup (regs s) k) /\
  cntev (k, n) (subq (fst (step s a))) = 0%nat.
Proof.
  intros Ha Hs Hb. destruct a as [k0 n0| |n0|i|i|k0 ms]; unfold step; cbn [step_gen].
  - destruct (mem_nid n0 (closed s)); cbn [fst regs subq]; rewrite cntev_app; cbn [cntev]; rewrite Hb; split; lia.
  - destruct (subq s) as [|e q] eqn:Eq; cbn [fst regs subq]; [rewrite Eq; split; [reflexivity | exact Hs]|].
    cbn [cntev] in Hs. rewrite cnt_register. destruct (evb e (k, n)); split; lia.
  - cbn [fst regs subq]. split; [reflexivity | exact Hs].
  - destruct (nth_error (waiting s) i); cbn [fst regs subq]; split; try reflexivity; exact Hs.
  - destruct (nth_error (unsubq s) i) as [e|]; cbn [fst regs subq]; [|split; [reflexivity | exact Hs]].
    rewrite cnt_unregister_other by exact Ha. rewrite cnt_drain. cbn [cntev]. split; lia.
  - cbn [fst]. split; [reflexivity | exact Hs].
Qed.

Lemma delivery_exact k n c : forall acts s,
  cnt n (lookup (regs s) k) = c -> cntev (k, n) (subq s) = 0%nat ->
  no_unsub_of (k, n) s acts -> no_subscribe_of (k, n) acts ->
  recv n k (snd (run s acts)) = concat (flat_map (fun b => repeat b c) (pub_blocks k acts)).
Proof.
  induction acts as [|a t IH]; intros s Hc Hs Hn Hb; [reflexivity|].
  cbn [no_unsub_of] in Hn. destruct Hn as [Ha Ht].
  assert (Hb' : match a with ASubscribe k0 n0 => evb (k0, n0) (k, n) = false | _ => True end /\ no_subscribe_of (k, n) t).
  { destruct a; cbn [no_subscribe_of] in Hb; try (split; [exact I | exact Hb]). exact Hb. }
  destruct Hb' as [Hb1 Hb2].
  destruct (cnt_step_const s a k n Ha Hs Hb1) as [Hc' Hs'].
  unfold run. rewrite run_snd_cons, recv_app. fold (step s a).
  specialize (IH (fst (step s a)) ltac:(congruence) Hs' Ht Hb2). unfold run in IH. rewrite IH.
  destruct a as [k0 n0| |n0|i|i|k0 ms]; cbn [pub_blocks];
    try (replace (recv n k (snd (step s _))) with (@nil msg); [reflexivity|]; unfold step; cbn [step_gen]).
  - now destruct (mem_nid n0 (closed s)).
  - now destruct (subq s).
  - reflexivity.
  - now destruct (nth_error (waiting s) i).
  - now destruct (nth_error (unsubq s) i).
  - unfold step at 1; cbn [step_gen snd]. rewrite recv_notify.
    destruct (keyb k0 k) eqn:E; [|reflexivity]. apply keyb_eq in E. subst k0.
    cbn [flat_map]. now rewrite concat_app, Hc.
Qed.

(** the registration takes effect when [process] takes the subscription from the queue *)
Lemma registered_by_proc_sub s k n q : subq s = (k, n) :: q ->
  cnt n (lookup (regs (fst (step s AProcSub))) k) = S (cnt n (lookup (regs s) k)).
Proof.
  intros Hq. unfold step; cbn [step_gen]. rewrite Hq. cbn [fst regs].
  rewrite cnt_register, evb_refl. lia.
Qed.

(** * Publish: namespace-wide key and specific key *)

Lemma keyb_longer a x b : keyb (a ++ x :: b) a = false.
Proof.
  apply keyb_neq. intros E. apply (f_equal (@length N)) in E. rewrite app_length in E. cbn in E. lia.
Qed.

Lemma publish_reaches ns kind param param' m :
  param' = [] \/ param' = param ->
  pub_blocks (sub_key ns kind param') (publish ns kind param m) = [[m]].
Proof.
  intros H. unfold publish, publish_keys, sub_key.
  destruct H as [->| ->].
  - cbn [is_empty map pub_blocks]. rewrite keyb_refl.
    destruct param as [|c p]; cbn [is_empty map pub_blocks]; [reflexivity|]. now rewrite keyb_longer.
  - destruct param as [|c p]; cbn [is_empty map pub_blocks].
    + now rewrite keyb_refl.
    + rewrite keyb_sym, keyb_longer, keyb_refl. reflexivity.
Qed.

(** * PublishArray: grouping by key *)

Lemma lookup_fold_register k : forall q r,
  lookup (fold_left register q r) k = lookup r k ++ map snd (filter (fun e : ev => keyb (fst e) k) q).
Proof.
  induction q as [|[k1 m] q IH]; intros r; cbn [fold_left filter map fst]; [now rewrite app_nil_r|].
  rewrite IH, lookup_register. cbn [fst snd].
  destruct (keyb k1 k) eqn:E; cbn [map snd]; [|reflexivity].
  apply keyb_eq in E. subst k1. now rewrite <- app_assoc.
Qed.

Lemma app_cons_inj (a : list N) x b1 b2 : a ++ x :: b1 = a ++ x :: b2 -> b1 = b2.
Proof. intros E. apply app_inv_head in E. now injection E. Qed.

(** a subscriber of the namespace-wide key is offered every message of the array, a subscriber
    of a specific key the messages whose param is that key's, in list order *)
Lemma array_events_cons ns kind p m items :
  array_events ns kind ((p, m) :: items) =
  ((if is_empty p then [] else [(key_prefix ns kind ++ us :: p, m)]) ++ [(key_prefix ns kind, m)])
  ++ array_events ns kind items.
Proof. reflexivity. Qed.

Lemma array_group_of ns kind items param' :
  lookup (array_groups ns kind items) (sub_key ns kind param') =
  map snd (filter (fun it => is_empty param' || bytes_eqb (fst it) param') items).
Proof.
  unfold array_groups. rewrite lookup_fold_register. cbn [lookup app].
  induction items as [|[p m] items IH]; [reflexivity|].
  rewrite array_events_cons, !filter_app, !map_app. unfold ev, nid, msg, key in *. rewrite IH. clear IH.
  cbn [filter fst snd].
  unfold sub_key. destruct param' as [|c' p']; cbn [is_empty orb].
  - (* namespace-wide key *)
    destruct p as [|c p]; cbn [is_empty filter app fst map snd]; rewrite ?keyb_longer, keyb_refl; reflexivity.
  - destruct p as [|c p]; cbn [is_empty filter app fst map snd].
    + rewrite keyb_sym, keyb_longer. cbn [bytes_eqb list_eqb]. reflexivity.
    + rewrite (keyb_sym (key_prefix ns kind)), keyb_longer.
      destruct (bytes_eqb (c :: p) (c' :: p')) eqn:E.
      * apply bytes_eqb_eq in E. rewrite E, keyb_refl. reflexivity.
      * replace (keyb (key_prefix ns kind ++ us :: c :: p) (key_prefix ns kind ++ us :: c' :: p')) with false; [reflexivity|].
        symmetry. apply keyb_neq. intros E'. apply app_cons_inj in E'.
        assert (bytes_eqb (c :: p) (c' :: p') = true) by (now apply bytes_eqb_eq). congruence.
Qed.

(** whatever order the groups are ranged over, the blocks published under a key are that key's groups *)
Lemma array_blocks k g :
  pub_blocks k (array_actions g) = map snd (filter (fun e : key * list msg => keyb (fst e) k) g).
Proof.
  unfold array_actions. induction g as [|[k1 ms] g IH]; [reflexivity|].
  cbn [map pub_blocks filter fst snd]. destruct (keyb k1 k); cbn [map snd]; now rewrite IH.
Qed.

(** * the defects of the code before the repair, and the removal loop's skip *)

Definition k0 : key := [110; 115; 95; 107]%N.   (* "ns_k" *)

(** subscribe, close at once, process takes the unsubscription first: n stays registered *)
Lemma early_fire_orig :
  let acts := [ASubscribe k0 1; AClose 1; AProcUnsub 0; AProcSub; APub k0 [9]] in
  let s := fst (run_orig init acts) in
  mem_nid 1 (closed s) = true /\ unsubq s = [] /\ subq s = [] /\
  snd (run_orig init acts) = [(1, k0, 9)] /\ snd (run init acts) = [].
Proof. vm_compute. repeat split; reflexivity. Qed.

(** one SENT error value with two registrations under one key: one registration survives
    (the loop skips the element after a removed one); closing removes it *)
Lemma skip_on_send :
  let pre := [ASubscribe k0 1; ASubscribe k0 1; AProcSub; AProcSub; AWake 0; AProcUnsub 0] in
  remove_skip 1 [1; 1] = [1] /\
  snd (run init (pre ++ [APub k0 [9]])) = [(1, k0, 9)] /\
  snd (run init (pre ++ [AClose 1; AProcUnsub 0; APub k0 [9]])) = [].
Proof. vm_compute. repeat split; reflexivity. Qed.
