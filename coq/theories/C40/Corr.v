(** C40 — correspondence.  The harness drives the real [subPub] with operations and waits,
    after each of them (or, for a paused prefix, at [HStart]), until [process] has handled
    everything that is queued; [check_case] replays the operations on the model, letting the
    model's [process] run to quiescence at the same points, and compares what every [Publish]
    notified (in order) and every registry snapshot. *)
From Coq Require Import List NArith Bool.
Import ListNotations.
Require Import Aurora.Base.Corr.
Require Export Aurora.C40.Model.
Local Open Scope N_scope.

Inductive hop :=
| HSub (n : nid) (ns kind param : list N)       (* Subscribe(notifier n, ns, kind, param) *)
| HClose (n : nid)                              (* close n's error channel *)
| HWake (i : nat)                               (* a sent value wakes the i-th blocked waiter *)
| HStart                                        (* the process goroutine is started (paused prefix ends) *)
| HPub (ns kind param : list N) (m : msg)       (* Publish(ns, kind, param, m) *)
| HSnap.                                        (* dump of keyToNotifier *)

Inductive hobs :=
| ONone
| OLog (l : list (nid * key * msg))             (* Notify calls made by the Publish, in order *)
| OSnap (r : list (key * list nid)).            (* sorted by key by the harness *)

(** the first op list runs while process is not started (empty for a normal case) *)
Inductive case := Case (paused : bool) (ops : list (hop * hobs)).

(** process runs until both queues are empty; an unsubscription is taken whenever one is pending
    (with the repaired code the result does not depend on that choice) *)
Fixpoint settle (fuel : nat) (s : st) : st :=
  match fuel with
  | O => s
  | S f =>
      match unsubq s, subq s with
      | _ :: _, _ => settle f (fst (step s (AProcUnsub 0)))
      | [], _ :: _ => settle f (fst (step s AProcSub))
      | [], [] => s
      end
  end.
Definition quiesce (paused : bool) (s : st) : st :=
  if paused then s else settle (S (length (subq s) + length (unsubq s))) s.

Definition exec (paused : bool) (s : st) (o : hop) : bool * st * hobs :=
  match o with
  | HSub n ns kind param => (paused, quiesce paused (fst (step s (ASubscribe (sub_key ns kind param) n))), ONone)
  | HClose n => (paused, quiesce paused (fst (step s (AClose n))), ONone)
  | HWake i => (paused, quiesce paused (fst (step s (AWake i))), ONone)
  | HStart => (false, quiesce false s, ONone)
  | HPub ns kind param m => let '(s', l) := run s (publish ns kind param m) in (paused, s', OLog l)
  | HSnap => (paused, s, OSnap (regs s))
  end.

Definition nids_eqb := list_eqb N.eqb.
Definition delivery_eqb (a b : nid * key * msg) : bool :=
  (fst (fst a) =? fst (fst b)) && keyb (snd (fst a)) (snd (fst b)) && (snd a =? snd b).

(** the model's registry against a snapshot: same number of keys, same list under every key *)
Definition snap_eqb (r obs : list (key * list nid)) : bool :=
  Nat.eqb (length r) (length obs) &&
  forallb (fun e => nids_eqb (lookup r (fst e)) (snd e) && negb (is_empty (snd e))) obs.

Definition hobs_eqb (m o : hobs) : bool :=
  match m, o with
  | ONone, ONone => true
  | OLog a, OLog b => list_eqb delivery_eqb a b
  | OSnap a, OSnap b => snap_eqb a b
  | _, _ => false
  end.

Fixpoint replay (paused : bool) (s : st) (ops : list (hop * hobs)) (i : nat) : option (nat * hobs * hobs) :=
  match ops with
  | [] => None
  | (o, observed) :: t =>
      let '(p', s', m) := exec paused s o in
      if hobs_eqb m observed then replay p' s' t (S i) else Some (i, m, observed)
  end.

Definition check_case (c : case) : bool :=
  let 'Case p ops := c in match replay p init ops 0 with None => true | Some _ => false end.
(** index of the first differing operation, (model, observed) *)
Definition explain_case (c : case) := let 'Case p ops := c in replay p init ops 0.
