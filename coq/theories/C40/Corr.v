(** C40 — correspondence.  The harness drives the real [subPub] with operations and waits,
    after each of them (or, for a paused prefix, at [HStart]), until [process] has handled
    everything that is queued; [check_case] replays the operations on the model, letting the
    model's [process] run to quiescence at the same points, and compares what every [Publish]
    notified (in order) and every registry snapshot. *)
From Coq Require Import List NArith Bool.
Import ListNotations.
Require Import Aurora.Base.Corr.
Require Export Aurora.C40.Model.
Local Open Scope N_scope.

(** monomorphic constructors for the generated case files (cheap to type-check) *)
Inductive dl := D (n : nid) (k : key) (m : msg).              (* one Notify call *)
Inductive kreg := KR (k : key) (l : list nid).                (* one registry entry *)
Inductive item := It (p : list N) (m : msg).                  (* one PublishArray message *)
Definition dl_t (d : dl) : nid * key * msg := let 'D n k m := d in (n, k, m).
Definition kreg_t (e : kreg) : key * list nid := let 'KR k l := e in (k, l).
Definition item_t (i : item) : list N * msg := let 'It p m := i in (p, m).

Inductive hop :=
| HSub (n : nid) (ns kind param : list N)       (* Subscribe(notifier n, ns, kind, param) *)
| HClose (n : nid)                              (* close n's error channel *)
| HWake (i : nat)                               (* a sent value wakes the i-th blocked waiter *)
| HStart                                        (* the process goroutine is started (paused prefix ends) *)
| HPub (ns kind param : list N) (m : msg)       (* Publish(ns, kind, param, m) *)
| HPubArr (ns kind : list N) (items : list item)
                                                (* PublishArray(ns, kind, field, messages): an item is
                                                   (the string the field holds or "" , message id) *)
| HSnap.                                        (* dump of keyToNotifier *)

Inductive hobs :=
| ONone
| OLog (l : list dl)                            (* Notify calls made by the Publish, in order *)
| OLogArr (l : list dl)                         (* Notify calls of a PublishArray: the keys come in Go map
                                                   order, so the log is compared key by key *)
| OSnap (r : list kreg).                        (* sorted by key by the harness *)

(** the same observations in the model's own types *)
Inductive mobs :=
| MNone | MLog (l : list (nid * key * msg)) | MLogArr (l : list (nid * key * msg)) | MSnap (r : list (key * list nid)).

(** the first op list runs while process is not started (empty for a normal case) *)
Inductive hstep := St (o : hop) (observed : hobs).
Inductive case := Case (paused : bool) (ops : list hstep).

(** process runs until both queues are empty; an unsubscription is taken whenever one is pending
    (with the repaired code the result does not depend on that choice) *)
Fixpoint settle (fuel : nat) (s : st) : st :=
  match fuel with
  | O => s
  | S f =>
      match unsubq s, subq s with
      | _ :: _, _ => settle f (fst (step s (AProcUnsub 0)))
      | [], _ :: _ => settle f (fst (step s AProcSub))
      | [], [] => s
      end
  end.
Definition quiesce (paused : bool) (s : st) : st :=
  if paused then s else settle (S (length (subq s) + length (unsubq s))) s.

Definition exec (paused : bool) (s : st) (o : hop) : bool * st * mobs :=
  match o with
  | HSub n ns kind param => (paused, quiesce paused (fst (step s (ASubscribe (sub_key ns kind param) n))), MNone)
  | HClose n => (paused, quiesce paused (fst (step s (AClose n))), MNone)
  | HWake i => (paused, quiesce paused (fst (step s (AWake i))), MNone)
  | HStart => (false, quiesce false s, MNone)
  | HPub ns kind param m => let '(s', l) := run s (publish ns kind param m) in (paused, s', MLog l)
  | HPubArr ns kind items =>
      let '(s', l) := run s (array_actions (array_groups ns kind (map item_t items))) in (paused, s', MLogArr l)
  | HSnap => (paused, s, MSnap (regs s))
  end.

Definition nids_eqb := list_eqb N.eqb.
Definition to_mobs (o : hobs) : mobs :=
  match o with
  | ONone => MNone | OLog l => MLog (map dl_t l) | OLogArr l => MLogArr (map dl_t l) | OSnap r => MSnap (map kreg_t r)
  end.
Definition delivery_eqb (a b : nid * key * msg) : bool :=
  (fst (fst a) =? fst (fst b)) && keyb (snd (fst a)) (snd (fst b)) && (snd a =? snd b).

(** the model's registry against a snapshot: same number of keys, same list under every key *)
Definition snap_eqb (r obs : list (key * list nid)) : bool :=
  Nat.eqb (length r) (length obs) &&
  forallb (fun e => nids_eqb (lookup r (fst e)) (snd e) && negb (is_empty (snd e))) obs.

Definition of_key (k : key) (l : list (nid * key * msg)) := filter (fun d => keyb (snd (fst d)) k) l.
Definition per_key_eqb (a b : list (nid * key * msg)) : bool :=
  Nat.eqb (length a) (length b) &&
  forallb (fun d => list_eqb delivery_eqb (of_key (snd (fst d)) a) (of_key (snd (fst d)) b)) (a ++ b).

Definition mobs_eqb (m o : mobs) : bool :=
  match m, o with
  | MNone, MNone => true
  | MLog a, MLog b => list_eqb delivery_eqb a b
  | MLogArr a, MLogArr b => per_key_eqb a b
  | MSnap a, MSnap b => snap_eqb a b
  | _, _ => false
  end.

Fixpoint replay (paused : bool) (s : st) (ops : list hstep) (i : nat) : option (nat * mobs * mobs) :=
  match ops with
  | [] => None
  | St o observed :: t =>
      let '(p', s', m) := exec paused s o in
      if mobs_eqb m (to_mobs observed) then replay p' s' t (S i) else Some (i, m, to_mobs observed)
  end.

Definition check_case (c : case) : bool :=
  let 'Case p ops := c in match replay p init ops 0 with None => true | Some _ => false end.
(** index of the first differing operation, (model, observed) *)
Definition explain_case (c : case) := let 'Case p ops := c in replay p init ops 0.
