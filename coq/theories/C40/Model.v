(** C40 — model of pkg/subscribe/subscribe.go (with proposed/C40/fix-subpub-early-fire.patch
    applied: before an unsubscription is handled, [process] registers every subscription that
    is already queued).  Definitions only; proofs are in Proofs.v.

    The component is concurrent: callers of [Subscribe]/[Publish], one waiter goroutine per
    [Subscribe] call blocked on the notifier's error channel, and the single [process]
    goroutine.  It is modelled as a state machine whose [action]s are the atomic steps of those
    goroutines; a schedule is a list of actions and the theorems quantify over all of them.

    strings are [list N] (bytes), notifiers and messages are identified by numbers. *)
From Coq Require Import List NArith Bool.
Import ListNotations.
Require Import Aurora.Base.Corr.
Local Open Scope N_scope.

Definition key := list N.
Definition nid := N.
Definition msg := N.
(** [subInfo{key, notifier}] *)
Definition ev := (key * nid)%type.

Definition keyb (a b : key) : bool := bytes_eqb a b.
Definition evb (a b : ev) : bool := keyb (fst a) (fst b) && (snd a =? snd b).

(** ---- keys: [fmt.Sprintf("%s_%s_%s", nameSpace, kind, param)] / ["%s_%s"] ---- *)
Definition us : N := 95.  (* '_' *)
Definition key_prefix (ns kind : list N) : key := ns ++ us :: kind.
Definition is_empty (s : list N) : bool := match s with [] => true | _ => false end.
(** key a [Subscribe(n, ns, kind, param)] registers under *)
Definition sub_key (ns kind param : list N) : key :=
  if is_empty param then key_prefix ns kind else key_prefix ns kind ++ us :: param.
(** [keyList] of [Publish(ns, kind, param, m)]: the namespace-wide key, then the specific one *)
Definition publish_keys (ns kind param : list N) : list key :=
  key_prefix ns kind :: (if is_empty param then [] else [key_prefix ns kind ++ us :: param]).

(** ---- state ---- *)
Record st := mk {
  regs : list (key * list nid);   (* keyToNotifier (sync.Map): key -> []*subInfo, in list order *)
  subq : list ev;                 (* subInfoChan, FIFO *)
  waiting : list ev;              (* waiter goroutines blocked in [<-iNotifier.Err()] *)
  unsubq : list ev;               (* woken waiters whose event process has not handled yet *)
  closed : list nid               (* notifiers whose error channel has been closed *)
}.
Definition init : st := mk [] [] [] [] [].

Fixpoint lookup (r : list (key * list nid)) (k : key) : list nid :=
  match r with
  | [] => []
  | (k', l) :: t => if keyb k' k then l else lookup t k
  end.
(** [keyToNotifier.Store(k, l)] *)
Fixpoint store (r : list (key * list nid)) (k : key) (l : list nid) : list (key * list nid) :=
  match r with
  | [] => [(k, l)]
  | (k', l') :: t => if keyb k' k then (k', l) :: t else (k', l') :: store t k l
  end.
(** [keyToNotifier.Delete(k)] *)
Definition delete (r : list (key * list nid)) (k : key) : list (key * list nid) :=
  filter (fun e => negb (keyb (fst e) k)) r.

(** [register]: [slice = append(slice, &info); Store(key, slice)] *)
Definition register (r : list (key * list nid)) (e : ev) : list (key * list nid) :=
  store r (fst e) (lookup r (fst e) ++ [snd e]).

(** the removal loop of [process], transcribed:
    [for j := 0; j < len(c); j++ { if c[j].notifier == n { c = append(c[:j], c[j+1:]...) } }]
    — after a removal [j] still advances, so the element that moved into position [j] is
    not examined (it is kept whatever it is). *)
Fixpoint remove_skip (n : nid) (c : list nid) : list nid :=
  match c with
  | [] => []
  | x :: t =>
      if x =? n then match t with [] => [] | y :: t' => y :: remove_skip n t' end
      else x :: remove_skip n t
  end.

(** [if len(cSlice) == 0 { Delete(key) } else { Store(key, cSlice) }]; an absent key
    ([continue]) is the case [lookup = []], for which this is the identity on [lookup]. *)
Definition unregister (r : list (key * list nid)) (e : ev) : list (key * list nid) :=
  let c := remove_skip (snd e) (lookup r (fst e)) in
  match c with [] => delete r (fst e) | _ => store r (fst e) c end.

Fixpoint remove_nth {A} (l : list A) (i : nat) : list A :=
  match l, i with
  | [], _ => []
  | _ :: t, O => t
  | x :: t, S i' => x :: remove_nth t i'
  end.

Definition mem_nid (n : nid) (l : list nid) : bool := existsb (N.eqb n) l.

(** ---- atomic actions ---- *)
Inductive action :=
| ASubscribe (k : key) (n : nid)   (* [Subscribe]: [subInfoChan <- info] and the waiter goroutine starts *)
| AProcSub                         (* [process] takes the head of subInfoChan *)
| AClose (n : nid)                 (* n's error channel is closed: every waiter of n wakes *)
| AWake (i : nat)                  (* a value SENT on an error channel is received by the i-th waiter *)
| AProcUnsub (i : nat)             (* [process] takes a woken waiter's event (any of them: their sends race) *)
| APub (k : key) (ms : list msg).  (* one key of [Publish] (ms = [m]) or of [PublishArray]: Load(k), then
                                      [for sub in list { for m in ms { sub.notifier.Notify(k, m) } }] *)

Definition delivery := (nid * key * msg)%type.

Definition step_gen (drain_first : bool) (s : st) (a : action) : st * list delivery :=
  match a with
  | ASubscribe k n =>
      if mem_nid n (closed s)
      then (mk (regs s) (subq s ++ [(k, n)]) (waiting s) (unsubq s ++ [(k, n)]) (closed s), [])
      else (mk (regs s) (subq s ++ [(k, n)]) (waiting s ++ [(k, n)]) (unsubq s) (closed s), [])
  | AProcSub =>
      match subq s with
      | [] => (s, [])
      | e :: q => (mk (register (regs s) e) q (waiting s) (unsubq s) (closed s), [])
      end
  | AClose n =>
      (mk (regs s) (subq s)
          (filter (fun e : ev => negb (snd e =? n)) (waiting s))
          (unsubq s ++ filter (fun e : ev => snd e =? n) (waiting s))
          (n :: closed s), [])
  | AWake i =>
      match nth_error (waiting s) i with
      | None => (s, [])
      | Some e => (mk (regs s) (subq s) (remove_nth (waiting s) i) (unsubq s ++ [e]) (closed s), [])
      end
  | AProcUnsub i =>
      match nth_error (unsubq s) i with
      | None => (s, [])
      | Some e =>
          (* the repair: every queued subscription is registered first *)
          let r1 := if drain_first then fold_left register (subq s) (regs s) else regs s in
          let q1 := if drain_first then [] else subq s in
          (mk (unregister r1 e) q1 (waiting s) (remove_nth (unsubq s) i) (closed s), [])
      end
  | APub k ms => (s, flat_map (fun n => map (fun m => (n, k, m)) ms) (lookup (regs s) k))
  end.

(** the repaired code *)
Definition step := step_gen true.
(** the code before the repair (kept to state the defect) *)
Definition step_orig := step_gen false.

Fixpoint run_gen (d : bool) (s : st) (acts : list action) : st * list delivery :=
  match acts with
  | [] => (s, [])
  | a :: t => let '(s1, l1) := step_gen d s a in let '(s2, l2) := run_gen d s1 t in (s2, l1 ++ l2)
  end.
Definition run := run_gen true.
Definition run_orig := run_gen false.

(** [Publish(ns, kind, param, m)] as actions *)
Definition publish (ns kind param : list N) (m : msg) : list action :=
  map (fun k => APub k [m]) (publish_keys ns kind param).

(** [PublishArray(ns, kind, field, messageList)]: [messageMap] groups the messages by key — every
    message under the namespace-wide key and, when its [param] (the string found in [field]) is
    not empty, under the specific key, in list order.  The map is then ranged over (in an order
    the Go runtime chooses), one [APub] per key.  An item is (param, message). *)
Definition array_events (ns kind : list N) (items : list (list N * msg)) : list ev :=
  flat_map (fun it =>
    (if is_empty (fst it) then [] else [(key_prefix ns kind ++ us :: fst it, snd it)])
    ++ [(key_prefix ns kind, snd it)]) items.
(** [slice = append(messageMap[key], message); messageMap[key] = slice] is [register] on a
    table of messages (messages and notifier ids are both numbers) *)
Definition array_groups (ns kind : list N) (items : list (list N * msg)) : list (key * list msg) :=
  fold_left register (array_events ns kind items) [].
Definition array_actions (g : list (key * list msg)) : list action :=
  map (fun e => APub (fst e) (snd e)) g.

(** ---- vocabulary of the statements ---- *)
Fixpoint cnt (n : nid) (l : list nid) : nat :=
  match l with [] => O | x :: t => (if x =? n then 1 else 0) + cnt n t end%nat.
Fixpoint cntev (e : ev) (l : list ev) : nat :=
  match l with [] => O | x :: t => (if evb x e then 1 else 0) + cntev e t end%nat.

(** message blocks published under key k, in order (one block per [APub]) *)
Fixpoint pub_blocks (k : key) (acts : list action) : list (list msg) :=
  match acts with
  | [] => []
  | APub k' ms :: t => if keyb k' k then ms :: pub_blocks k t else pub_blocks k t
  | _ :: t => pub_blocks k t
  end.
(** messages published under key k, in order *)
Definition pubs (k : key) (acts : list action) : list msg := concat (pub_blocks k acts).
(** messages notifier n was notified of under key k, in order *)
Fixpoint recv (n : nid) (k : key) (log : list delivery) : list msg :=
  match log with
  | [] => []
  | (n', k', m) :: t => if (n' =? n) && keyb k' k then m :: recv n k t else recv n k t
  end.

(** [Expand bs rs]: rs is the blocks bs in order, every block repeated at least once
    (once per registration; a block of [Publish] is a single message) *)
Inductive Expand : list (list msg) -> list msg -> Prop :=
| Expand_nil : Expand [] []
| Expand_cons b c bs rs : (1 <= c)%nat -> Expand bs rs -> Expand (b :: bs) (concat (repeat b c) ++ rs).

(** along the run, [process] handles no unsubscription of (k, n) *)
Fixpoint no_unsub_of (e : ev) (s : st) (acts : list action) : Prop :=
  match acts with
  | [] => True
  | a :: t =>
      match a with
      | AProcUnsub i => match nth_error (unsubq s) i with Some e' => evb e' e = false | None => True end
      | _ => True
      end /\ no_unsub_of e (fst (step s a)) t
  end.

Fixpoint no_subscribe_of (e : ev) (acts : list action) : Prop :=
  match acts with
  | [] => True
  | ASubscribe k n :: t => evb (k, n) e = false /\ no_subscribe_of e t
  | _ :: t => no_subscribe_of e t
  end.

Definition reachable (s : st) : Prop := exists acts, s = fst (run init acts).
