(** C17 — every call of a history preserves the invariant (repaired code, [fx = true]). *)
From Coq Require Import List NArith ZArith Bool Lia.
Import ListNotations.
Require Import Aurora.C39.Model Aurora.C39.Proofs.
Require Import Aurora.C17.Model Aurora.C17.Lemmas Aurora.C17.Inv.
Local Open Scope N_scope.

Section Steps.
  Variable U : universe.
  Variable self : addr.
  Hypothesis wfU : wf_universe U.

  Notation InvC := (InvC U self).
  Notation frame := (frame U).

  (** every persisted discover key has its in-memory entry *)
  Definition disc_ok (s : st) : Prop :=
    forall R o, tget2 R o (kv_disc s) <> None -> tget2 R o (cd s) <> None.
  Lemma disc_ok_same3 s s' : same3 s s' -> disc_ok s -> disc_ok s'.
  Proof. intros (_ & A & B) H R o. rewrite A, B. apply H. Qed.

  Lemma InvC_grow_store stv s st2 : InvC stv s -> sub (store s) st2 -> sub st2 stv -> InvC stv (w_store s st2).
  Proof.
    intros I H1 H2. destruct I. constructor; cbn; try assumption.
    intros R H. specialize (i_hd_trav R H). destruct (trav U (store s) R) as [f|] eqn:E; [|contradiction].
    rewrite (trav_mono U _ _ _ _ H1 E). discriminate.
  Qed.

  Lemma hd_update_pyramid_source s R src : hd (update_pyramid_source s R src) = hd s.
  Proof. unfold update_pyramid_source. destruct (aget R (cs s)) as [[[p|] m]|]; reflexivity. Qed.

  (** ---- onChunkPyramidResp ---- *)
  Lemma pyramid_resp_store s R peer wh :
    store (fst (pyramid_resp U self true s R peer wh)) = store s \/
    exists f, aget R U = Some f /\ store (fst (pyramid_resp U self true s R peer wh)) = sadd_all (f_trie f) (store s).
  Proof.
    unfold pyramid_resp. destruct (aget R (hd s)); [now left|].
    destruct (aget R U) as [f|] eqn:Ef; [|now left].
    destruct (f_rcv f && forallb (fun c => negb (smem c wh)) (f_trie f)); [|now left].
    right. exists f. split; [reflexivity|].
    set (s1 := w_store s (sadd_all (f_trie f) (store s))).
    set (s2 := update_pyramid_source s1 R peer).
    set (s3 := update_chunk_pyramid s2 R (f_hashes f) (f_trie f)).
    pose proof (init_neighbor_same U self s3 R peer (f_pieces f)) as (A & _).
    destruct (init_neighbor U self true s3 R peer (f_pieces f)) as [s4 r]. cbn [fst] in *.
    rewrite A. destruct (update_chunk_pyramid_fields s2 R (f_hashes f) (f_trie f)) as (B & _). fold s3 in B.
    rewrite B. pose proof (frame_same3 U _ _ (update_pyramid_source_frame U s1 R peer)) as (C & _). fold s2 in C.
    rewrite C. reflexivity.
  Qed.
  Lemma pyramid_resp_grow s R peer wh : sub (store s) (store (fst (pyramid_resp U self true s R peer wh))).
  Proof.
    destruct (pyramid_resp_store s R peer wh) as [->|(f & _ & ->)]; [apply sub_refl | apply sub_sadd_all].
  Qed.
  Lemma pyramid_resp_discs s R peer wh :
    cd (fst (pyramid_resp U self true s R peer wh)) = cd s /\ kv_disc (fst (pyramid_resp U self true s R peer wh)) = kv_disc s.
  Proof.
    unfold pyramid_resp. destruct (aget R (hd s)); [now split|].
    destruct (aget R U) as [f|]; [|now split].
    destruct (f_rcv f && forallb (fun c => negb (smem c wh)) (f_trie f)); [|now split].
    set (s1 := w_store s (sadd_all (f_trie f) (store s))).
    set (s2 := update_pyramid_source s1 R peer).
    set (s3 := update_chunk_pyramid s2 R (f_hashes f) (f_trie f)).
    pose proof (init_neighbor_same U self s3 R peer (f_pieces f)) as (_ & A1 & A2).
    destruct (init_neighbor U self true s3 R peer (f_pieces f)) as [s4 r]. cbn [fst] in *.
    destruct (update_chunk_pyramid_fields s2 R (f_hashes f) (f_trie f)) as (_ & _ & B2 & _ & B1 & _). fold s3 in B1, B2.
    pose proof (frame_same3 U _ _ (update_pyramid_source_frame U s1 R peer)) as (_ & C1 & C2). fold s2 in C1, C2.
    assert (E1 : cd s1 = cd s) by reflexivity. assert (E2 : kv_disc s1 = kv_disc s) by reflexivity.
    split; congruence.
  Qed.

  Lemma pyramid_resp_inv stv s R peer wh s' r :
    pyramid_resp U self true s R peer wh = (s', r) -> InvC stv s -> sub (store s') stv -> InvC stv s'.
  Proof.
    intros H I Hsub. pose proof (pyramid_resp_store s R peer wh) as Hst. rewrite H in Hst. cbn [fst] in Hst.
    unfold pyramid_resp in H. destruct (aget R (hd s)) eqn:Eh; [injection H as <- <-; assumption|].
    destruct (aget R U) as [f|] eqn:Ef; [|injection H as <- <-; assumption].
    destruct (f_rcv f && forallb (fun c => negb (smem c wh)) (f_trie f)) eqn:Ec; [|injection H as <- <-; assumption].
    apply andb_true_iff in Ec as [Ercv _].
    destruct Hst as [Hst|(f' & Hf' & Hst)].
    2:{ assert (f' = f) by congruence. subst f'.
        set (s1 := w_store s (sadd_all (f_trie f) (store s))) in *.
        set (s2 := update_pyramid_source s1 R peer) in *.
        set (s3 := update_chunk_pyramid s2 R (f_hashes f) (f_trie f)) in *.
        destruct (init_neighbor U self true s3 R peer (f_pieces f)) as [s4 r4] eqn:Ei.
        injection H as <- <-.
        assert (I1 : InvC stv s1).
        { apply InvC_grow_store; [assumption | apply sub_sadd_all | now rewrite <- Hst]. }
        assert (I2 : InvC stv s2) by (eapply Inv_frame; [exact I1 | apply update_pyramid_source_frame]).
        assert (Hs2 : store s2 = sadd_all (f_trie f) (store s)).
        { pose proof (frame_same3 U _ _ (update_pyramid_source_frame U s1 R peer)) as (C & _). exact C. }
        assert (I3 : InvC stv s3).
        { eapply Inv_frame; [exact I2|]. apply frame_update_chunk_pyramid.
          - unfold s2. rewrite hd_update_pyramid_source. exact Eh.
          - apply trav_intro; [assumption|]. intros c Hc. rewrite Hs2. apply smem_sadd_all_in.
            destruct (wfU R f Ef) as [Hn _]. now apply Hn. }
        eapply init_neighbor_inv; [exact Ei | exact I3|].
        intros c Hc. apply Hsub. rewrite Hst. apply smem_sadd_all_in.
        destruct (wfU R f Ef) as [_ Hp]. now apply Hp. }
    (* the store did not change although the branch ran: same argument with the smaller store *)
    set (s1 := w_store s (sadd_all (f_trie f) (store s))) in *.
    set (s2 := update_pyramid_source s1 R peer) in *.
    set (s3 := update_chunk_pyramid s2 R (f_hashes f) (f_trie f)) in *.
    destruct (init_neighbor U self true s3 R peer (f_pieces f)) as [s4 r4] eqn:Ei.
    injection H as <- <-.
    assert (Hs4 : store s4 = sadd_all (f_trie f) (store s)).
    { pose proof (init_neighbor_same U self s3 R peer (f_pieces f)) as (A & _). rewrite Ei in A. cbn [fst] in A.
      rewrite A. destruct (update_chunk_pyramid_fields s2 R (f_hashes f) (f_trie f)) as (B & _). fold s3 in B.
      rewrite B. pose proof (frame_same3 U _ _ (update_pyramid_source_frame U s1 R peer)) as (C & _). exact C. }
    assert (I1 : InvC stv s1).
    { apply InvC_grow_store; [assumption | apply sub_sadd_all | now rewrite <- Hs4]. }
    assert (I2 : InvC stv s2) by (eapply Inv_frame; [exact I1 | apply update_pyramid_source_frame]).
    assert (Hs2 : store s2 = sadd_all (f_trie f) (store s)).
    { pose proof (frame_same3 U _ _ (update_pyramid_source_frame U s1 R peer)) as (C & _). exact C. }
    assert (I3 : InvC stv s3).
    { eapply Inv_frame; [exact I2|]. apply frame_update_chunk_pyramid.
      - unfold s2. rewrite hd_update_pyramid_source. exact Eh.
      - apply trav_intro; [assumption|]. intros c Hc. rewrite Hs2. apply smem_sadd_all_in.
        destruct (wfU R f Ef) as [Hn _]. now apply Hn. }
    eapply init_neighbor_inv; [exact Ei | exact I3|].
    intros c Hc. apply Hsub. rewrite Hs4. apply smem_sadd_all_in.
    destruct (wfU R f Ef) as [_ Hp]. now apply Hp.
  Qed.

  (** ---- pyramidCheck ---- *)
  Definition grows (s s' : st) : Prop := sub (store s) (store s') /\ cd s' = cd s /\ kv_disc s' = kv_disc s.
  Lemma grows_refl s : grows s s. Proof. split; [apply sub_refl | split; reflexivity]. Qed.
  Lemma grows_trans a b c : grows a b -> grows b c -> grows a c.
  Proof. intros (A1 & A2 & A3) (B1 & B2 & B3). split; [eapply sub_trans; eauto | split; congruence]. Qed.
  Lemma same3_grows s s' : same3 s s' -> grows s s'.
  Proof. intros (A & B & C). split; [rewrite A; apply sub_refl | split; assumption]. Qed.
  Lemma pyramid_resp_grows s R peer wh : grows s (fst (pyramid_resp U self true s R peer wh)).
  Proof. split; [apply pyramid_resp_grow | apply pyramid_resp_discs]. Qed.
  Lemma disc_ok_grows s s' : grows s s' -> disc_ok s -> disc_ok s'.
  Proof. intros (_ & A & B) H R o. rewrite A, B. apply H. Qed.

  Lemma pyramid_check_grows s R o target net : grows s (fst (pyramid_check U self true s R o target net)).
  Proof.
    unfold pyramid_check. destruct (aget R (hd s)); [apply grows_refl|].
    destruct (negb (target =? 0) && negb (target =? self)).
    - destruct net.
      + pose proof (pyramid_resp_grows s R target []) as G.
        destruct (pyramid_resp U self true s R target []) as [s1 r1]. cbn [fst] in G.
        destruct r1; try exact G.
        pose proof (put_neighbor_same U s1 R o) as G2. destruct (put_neighbor U s1 R o) as [s2 r2]. cbn [fst] in *.
        eapply grows_trans; [exact G | now apply same3_grows].
      + apply grows_refl.
    - pose proof (put_neighbor_same U s R o) as G2. destruct (put_neighbor U s R o) as [s2 r2]. cbn [fst] in *.
      now apply same3_grows.
  Qed.

  Lemma pyramid_check_inv stv s R o target net s' r :
    pyramid_check U self true s R o target net = (s', r) -> InvC stv s -> sub (store s') stv -> InvC stv s'.
  Proof.
    unfold pyramid_check. intros H I Hsub. destruct (aget R (hd s)); [injection H as <- <-; assumption|].
    destruct (negb (target =? 0) && negb (target =? self)).
    - destruct net; [|injection H as <- <-; assumption].
      destruct (pyramid_resp U self true s R target []) as [s1 r1] eqn:Ep.
      assert (Hs1 : store s' = store s1 \/ s' = s1).
      { destruct r1; try (injection H as <- <-; now right).
        left. pose proof (put_neighbor_same U s1 R o) as (A & _). rewrite H in A. exact A. }
      assert (I1 : InvC stv s1).
      { eapply pyramid_resp_inv; [exact Ep | exact I|]. destruct Hs1 as [<-| <-]; assumption. }
      destruct r1; try (injection H as <- <-; assumption).
      now destruct (put_neighbor_inv U self stv s1 R o s' r H I1).
    - now destruct (put_neighbor_inv U self stv s R o s' r H I).
  Qed.

  (** ---- OnChunkRetrieved / OnChunkTransferred ---- *)
  Lemma on_retrieved_grows s cid R src net : grows s (fst (on_retrieved U self true s cid R src net)).
  Proof.
    unfold on_retrieved. pose proof (pyramid_check_grows s R self src net) as G.
    destruct (pyramid_check U self true s R self src net) as [s1 r1]. cbn [fst] in G.
    destruct r1; try exact G.
    pose proof (upd_neighbor_same U s1 R cid self) as G2.
    destruct (upd_neighbor U true s1 R cid self) as [s2 r2]. cbn [fst] in G2.
    pose proof (grows_trans _ _ _ G (same3_grows _ _ G2)) as G3.
    destruct r2; try exact G3.
    eapply grows_trans; [exact G3|]. apply same3_grows. eapply same3_trans.
    - apply (frame_same3 U). apply update_pyramid_source_frame.
    - apply (frame_same3 U). apply update_source_frame.
  Qed.

  Lemma on_retrieved_inv stv s cid R src net s' r :
    on_retrieved U self true s cid R src net = (s', r) -> InvC stv s -> sub (store s') stv ->
    (r = ROk -> smem cid stv = true) -> r <> RPanic -> InvC stv s'.
  Proof.
    unfold on_retrieved. intros H I Hsub Hcid Hnp.
    destruct (pyramid_check U self true s R self src net) as [s1 r1] eqn:Ep.
    assert (Hs1 : store s' = store s1).
    { destruct r1; try (injection H as <- <-; reflexivity).
      pose proof (upd_neighbor_same U s1 R cid self) as (A & _).
      destruct (upd_neighbor U true s1 R cid self) as [s2 r2]. cbn [fst] in A.
      destruct r2; try (injection H as <- <-; exact A).
      pose proof (frame_same3 U _ _ (update_source_frame U (update_pyramid_source s2 R src) R src cid)) as (B & _).
      rewrite H in B. cbn [fst] in B. rewrite B.
      pose proof (frame_same3 U _ _ (update_pyramid_source_frame U s2 R src)) as (C & _). congruence. }
    assert (I1 : InvC stv s1) by (eapply pyramid_check_inv; [exact Ep | exact I | now rewrite <- Hs1]).
    destruct r1; try (injection H as <- <-; assumption).
    destruct (upd_neighbor U true s1 R cid self) as [s2 r2] eqn:Eu.
    assert (I2 : InvC stv s2).
    { eapply upd_neighbor_inv; [exact Eu | exact I1|]. intros -> _.
      (* the vector was touched: the call ends with the result of UpdateChunkInfoSource, which is
         ROk (RErr is impossible once the source record exists, RPanic is excluded) *)
      apply Hcid.
      pose proof (update_source_not_err U (update_pyramid_source s2 R src) R src cid (update_pyramid_source_cs s2 R src)) as Hne.
      rewrite H in Hne. cbn [snd] in Hne. destruct Hne as [->| ->]; [reflexivity | contradiction]. }
    destruct r2; try (injection H as <- <-; assumption).
    pose proof (update_source_frame U (update_pyramid_source s2 R src) R src cid) as F. rewrite H in F. cbn [fst] in F.
    eapply Inv_frame; [|exact F]. eapply Inv_frame; [exact I2 | apply update_pyramid_source_frame].
  Qed.

  Lemma on_transferred_grows s cid R o target net : grows s (fst (on_transferred U self true s cid R o target net)).
  Proof.
    unfold on_transferred. pose proof (pyramid_check_grows s R o target net) as G.
    destruct (pyramid_check U self true s R o target net) as [s1 r1]. cbn [fst] in G.
    destruct r1; try exact G.
    pose proof (upd_neighbor_same U s1 R cid o) as G2.
    destruct (upd_neighbor U true s1 R cid o) as [s2 r2]. cbn [fst] in *.
    eapply grows_trans; [exact G | now apply same3_grows].
  Qed.

  Lemma on_transferred_inv stv s cid R o target net s' r :
    on_transferred U self true s cid R o target net = (s', r) -> InvC stv s -> sub (store s') stv ->
    o <> self -> InvC stv s'.
  Proof.
    unfold on_transferred. intros H I Hsub Ho.
    destruct (pyramid_check U self true s R o target net) as [s1 r1] eqn:Ep.
    assert (Hs1 : store s' = store s1).
    { destruct r1; try (injection H as <- <-; reflexivity).
      pose proof (upd_neighbor_same U s1 R cid o) as (A & _). rewrite H in A. exact A. }
    assert (I1 : InvC stv s1) by (eapply pyramid_check_inv; [exact Ep | exact I | now rewrite <- Hs1]).
    destruct r1; try (injection H as <- <-; assumption).
    eapply upd_neighbor_inv; [exact H | exact I1 | intros; contradiction].
  Qed.

  (** ---- netstore.Get ---- *)
  Lemma ns_get_grows s R cid src net : grows s (fst (ns_get U self true s R cid src net)).
  Proof.
    unfold ns_get. destruct (smem cid (store s)).
    - destruct (negb (R =? 0) && negb (R =? cid)); [|apply grows_refl].
      pose proof (on_retrieved_grows s cid R self net) as G.
      destruct (on_retrieved U self true s cid R self net) as [s1 r1]. exact G.
    - destruct (R =? 0); [apply grows_refl|]. destruct (src =? 0); [apply grows_refl|].
      pose proof (on_retrieved_grows s cid R src net) as G.
      destruct (on_retrieved U self true s cid R src net) as [s1 r1]. cbn [fst] in G.
      destruct r1; try exact G. cbn [fst].
      destruct G as (G1 & G2 & G3). split; [|split; assumption].
      cbn. eapply sub_trans; [exact G1 | apply sub_sadd].
  Qed.

  Lemma ns_get_inv s R cid src net s' r :
    ns_get U self true s R cid src net = (s', r) -> r <> RPanic -> InvC (store s) s -> InvC (store s') s'.
  Proof.
    unfold ns_get. intros H Hnp I. destruct (smem cid (store s)) eqn:Em.
    - destruct (negb (R =? 0) && negb (R =? cid)); [|injection H as <- <-; assumption].
      pose proof (on_retrieved_grows s cid R self net) as (G & _).
      destruct (on_retrieved U self true s cid R self net) as [s1 r1] eqn:Eo. cbn [fst] in G.
      injection H as <- Hr.
      eapply on_retrieved_inv; [exact Eo | eapply Inv_mono; [exact G | exact I] | apply sub_refl | intros _; now apply G|].
      intros ->. now apply Hnp.
    - destruct (R =? 0); [injection H as <- <-; assumption|].
      destruct (src =? 0); [injection H as <- <-; assumption|].
      pose proof (on_retrieved_grows s cid R src net) as (G & _).
      destruct (on_retrieved U self true s cid R src net) as [s1 r1] eqn:Eo. cbn [fst] in G.
      destruct r1.
      + injection H as <- <-. cbn [store w_store].
        assert (I1 : InvC (sadd cid (store s1)) s1).
        { eapply on_retrieved_inv; [exact Eo | | apply sub_sadd | | discriminate].
          - eapply Inv_mono; [|exact I]. eapply sub_trans; [exact G | apply sub_sadd].
          - intros _. rewrite smem_sadd, N.eqb_refl. reflexivity. }
        apply InvC_grow_store; [exact I1 | apply sub_sadd | apply sub_refl].
      + injection H as <- <-.
        eapply on_retrieved_inv; [exact Eo | eapply Inv_mono; [exact G | exact I] | apply sub_refl | discriminate | discriminate].
      + injection H as <- <-.
        eapply on_retrieved_inv; [exact Eo | eapply Inv_mono; [exact G | exact I] | apply sub_refl | discriminate | discriminate].
      + injection H as <- <-. contradiction.
  Qed.

  (** ---- upload handlers ---- *)
  Lemma upload_loop_grows R cids : forall s, grows s (fst (upload_loop U self true s R cids)).
  Proof.
    induction cids as [|c t IH]; intros s; cbn [upload_loop]; [apply grows_refl|].
    pose proof (on_retrieved_grows s c R self false) as G.
    destruct (on_retrieved U self true s c R self false) as [s1 r1]. cbn [fst] in G.
    destruct r1; try exact G. eapply grows_trans; [exact G | apply IH].
  Qed.

  Lemma upload_loop_inv stv R cids : forall s s' r,
    upload_loop U self true s R cids = (s', r) -> r <> RPanic -> InvC stv s -> sub (store s') stv ->
    (forall c, In c cids -> smem c stv = true) -> InvC stv s'.
  Proof.
    induction cids as [|c t IH]; intros s s' r H Hnp I Hsub Hall; cbn [upload_loop] in H.
    - injection H as <- <-. assumption.
    - destruct (on_retrieved U self true s c R self false) as [s1 r1] eqn:Eo.
      assert (Hs1 : sub (store s1) stv).
      { destruct r1; try (injection H as <- <-; assumption).
        pose proof (upload_loop_grows R t s1) as (G & _). rewrite H in G. cbn [fst] in G.
        eapply sub_trans; eauto. }
      assert (I1 : InvC stv s1).
      { eapply on_retrieved_inv; [exact Eo | exact I | exact Hs1 | intros _; apply Hall; now left|].
        intros ->. injection H as <- <-. now apply Hnp. }
      destruct r1; try (injection H as <- <-; assumption).
      eapply IH; eauto. intros x Hx. apply Hall. now right.
  Qed.

  Lemma upload_grows s R : grows s (fst (upload U self true s R)).
  Proof.
    unfold upload. destruct (aget R U) as [f|]; [|apply grows_refl].
    set (s1 := w_store s (sadd_all (concat (f_hashes f)) (sadd_all (f_trie f) (store s)))).
    assert (G1 : grows s s1).
    { split; [|split; reflexivity]. cbn. eapply sub_trans; apply sub_sadd_all. }
    destruct (trav U (store s1) R) as [f'|]; [|exact G1].
    eapply grows_trans; [exact G1 | apply upload_loop_grows].
  Qed.

  Lemma upload_inv s R s' r : upload U self true s R = (s', r) -> r <> RPanic -> InvC (store s) s -> InvC (store s') s'.
  Proof.
    unfold upload. intros H Hnp I. destruct (aget R U) as [f|] eqn:Ef; [|injection H as <- <-; assumption].
    set (s1 := w_store s (sadd_all (concat (f_hashes f)) (sadd_all (f_trie f) (store s)))) in *.
    assert (G1 : sub (store s) (store s1)) by (cbn; eapply sub_trans; apply sub_sadd_all).
    destruct (trav U (store s1) R) as [f'|] eqn:Et.
    - assert (f' = f) by (apply trav_some in Et; congruence). subst f'.
      pose proof (upload_loop_grows R (concat (f_hashes f)) s1) as (G2 & _). rewrite H in G2. cbn [fst] in G2.
      eapply upload_loop_inv; [exact H | exact Hnp | | apply sub_refl |].
      + apply InvC_grow_store; [eapply Inv_mono; [|exact I]; eapply sub_trans; eauto | exact G1 | exact G2].
      + intros c Hc. apply G2. cbn. now apply smem_sadd_all_in.
    - injection H as <- <-. apply InvC_grow_store; [eapply Inv_mono; [exact G1 | exact I] | exact G1 | apply sub_refl].
  Qed.

  (** ---- discover responses ---- *)
  Lemma update_chunk_info_inv stv s R o b s' r :
    update_chunk_info U s R o b = (s', r) -> InvC stv s -> disc_ok s ->
    InvC stv s' /\ disc_ok s' /\ store s' = store s.
  Proof.
    unfold update_chunk_info. intros H I D.
    set (s0 := match aget R (cd s) with Some _ => s | None => w_cd s (aset R [] (cd s)) end) in *.
    assert (Hcd0 : forall R' o', tget2 R' o' (cd s0) = tget2 R' o' (cd s)).
    { intros R' o'. unfold s0. destruct (aget R (cd s)) eqn:E; [reflexivity|]. cbn. now apply tget2_aset_nil. }
    assert (I0 : InvC stv s0).
    { unfold s0. destruct (aget R (cd s)) eqn:E; [assumption|]. destruct I. constructor; cbn; try assumption.
      intros R' o'. rewrite tget2_aset_nil by assumption. apply i_cd_hd. }
    assert (D0 : disc_ok s0).
    { intros R' o' Hk. rewrite Hcd0. apply D. unfold s0 in Hk. destruct (aget R (cd s)); exact Hk. }
    assert (S0 : store s0 = store s) by (unfold s0; destruct (aget R (cd s)); reflexivity).
    clearbody s0.
    assert (Hset : forall s1 vb, InvC stv s1 -> disc_ok s1 -> aget R (hd s1) <> None ->
              let s2 := w_kv_disc (w_cd s1 (tset2 R o vb (cd s1))) (tset2 R o vb (kv_disc s1)) in
              InvC stv s2 /\ disc_ok s2).
    { intros s1 vb I1 D1 Hh. split.
      - destruct I1. constructor; cbn; try assumption.
        intros R' o' Hk. destruct (N.eq_dec R R') as [<-|Hne]; [assumption|].
        rewrite tget2_tset2_ne in Hk by congruence. eauto.
      - intros R' o' Hk. cbn in *. destruct (N.eq_dec R R') as [<-|Hne]; [destruct (N.eq_dec o o') as [<-|Hno]|].
        + rewrite tget2_tset2_eq. discriminate.
        + rewrite tget2_tset2_ne in * by congruence. auto.
        + rewrite tget2_tset2_ne in * by congruence. auto. }
    destruct (tget2 R o (cd s0)) as [vb|] eqn:Ev.
    - assert (Hh : aget R (hd s0) <> None) by (apply (i_cd_hd _ _ _ _ I0 R o); congruence).
      destruct (BV.set_bytes vb b) as [vb'| |]; injection H as <- <-.
      + destruct (Hset s0 vb' I0 D0 Hh). auto.
      + split; [|split; [|exact S0]].
        * destruct I0. constructor; cbn; assumption.
        * intros R' o' Hk. cbn in *. destruct (N.eq_dec R R') as [<-|Hne]; [destruct (N.eq_dec o o') as [<-|Hno]|].
          -- congruence.
          -- rewrite tget2_tset2_ne in Hk by congruence. auto.
          -- rewrite tget2_tset2_ne in Hk by congruence. auto.
      + auto.
    - pose proof (get_chunk_size_frame U s0 R) as F. pose proof (get_chunk_size_nz U self stv s0 R I0) as Hnz.
      destruct (get_chunk_size U s0 R) as [s1 v]. cbn [fst snd] in F, Hnz.
      pose proof (Inv_frame U self _ _ _ I0 F) as I1.
      pose proof (disc_ok_same3 _ _ (frame_same3 U _ _ F) D0) as D1.
      assert (S1 : store s1 = store s) by (destruct F as (A & _); congruence).
      destruct (v =? 0)%Z eqn:Ez; [injection H as <- <-; auto|].
      apply Z.eqb_neq in Ez. destruct (Hnz Ez) as (f & hm & _ & _ & Hh).
      destruct (BV.new_from_bytes b v); injection H as <- <-; auto.
      destruct (Hset s1 a I1 D1 ltac:(congruence)). auto.
  Qed.

  (** ---- delDiscoverPresence ---- *)
  Definition del_keys (R : addr) (m : list (addr * bv)) (t : tab bv) : tab bv :=
    fold_left (fun t ob => tdel2 R (fst ob) t) m t.
  Lemma del_keys_other R m : forall t R' o', R' <> R -> tget2 R' o' (del_keys R m t) = tget2 R' o' t.
  Proof.
    unfold del_keys. induction m as [|[k v] r IH]; intros t R' o' Hne; cbn [fold_left]; [reflexivity|].
    rewrite IH by assumption. apply tget2_tdel2_ne. cbn. congruence.
  Qed.
  Lemma del_keys_none R m : forall t o', tget2 R o' t = None -> tget2 R o' (del_keys R m t) = None.
  Proof.
    unfold del_keys. induction m as [|[k v] r IH]; intros t o' Hn; cbn [fold_left]; [assumption|].
    apply IH. cbn. destruct (N.eq_dec k o') as [->|Hne]; [apply tget2_tdel2_eq|].
    rewrite tget2_tdel2_ne by congruence. assumption.
  Qed.
  Lemma del_keys_gone R m : forall t o', aget o' m <> None -> tget2 R o' (del_keys R m t) = None.
  Proof.
    unfold del_keys. induction m as [|[k v] r IH]; intros t o' Hn; cbn [fold_left aget] in *; [contradiction|].
    destruct (o' =? k) eqn:E.
    - apply N.eqb_eq in E; subst. apply (del_keys_none R r). apply tget2_tdel2_eq.
    - now apply IH.
  Qed.
  Lemma del_keys_sub R m : forall t R' o', tget2 R' o' (del_keys R m t) <> None -> tget2 R' o' t <> None.
  Proof.
    unfold del_keys. induction m as [|[k v] r IH]; intros t R' o' Hn; cbn [fold_left] in *; [assumption|].
    apply IH in Hn. cbn in Hn. destruct (N.eq_dec R R') as [<-|Hne]; [destruct (N.eq_dec k o') as [<-|Hno]|].
    - now rewrite tget2_tdel2_eq in Hn.
    - rewrite tget2_tdel2_ne in Hn by congruence. assumption.
    - rewrite tget2_tdel2_ne in Hn by congruence. assumption.
  Qed.

  Lemma del_discover_presence_inv stv s R : InvC stv s -> disc_ok s ->
    InvC stv (del_discover_presence s R) /\ disc_ok (del_discover_presence s R).
  Proof.
    intros I D. unfold del_discover_presence. fold (del_keys R (inner R (cd s)) (kv_disc s)). split.
    - destruct I. constructor; cbn; try assumption.
      intros R' o' Hk. destruct (N.eq_dec R R') as [<-|Hne]; [now rewrite tget2_adel_eq in Hk|].
      rewrite tget2_adel_ne in Hk by assumption. eauto.
    - intros R' o' Hk. cbn in *. destruct (N.eq_dec R' R) as [->|Hne].
      + exfalso. apply Hk. apply del_keys_gone. rewrite <- tget2_inner. apply D. eapply del_keys_sub; eauto.
      + rewrite del_keys_other in Hk by assumption. rewrite tget2_adel_ne by congruence. auto.
  Qed.

  (** ---- histories: which calls the theorems quantify over ---- *)
  Definition legal (o : op) : Prop :=
    match o with
    | OTransferred _ _ ov _ _ => ov <> self
    | ODel R removed ok =>
        (ok = false -> removed = []) /\
        forall c R' f', In c removed -> aget R' U = Some f' -> R' <> R ->
          ~ In c (f_need f') /\ ~ In c (concat (f_hashes f'))
    | _ => True
    end.

  (** ---- DelFile ---- *)
  (** the part of [DelFile] after the root has been registered in the pyramid table *)
  Definition del_file_tail (s : st) (f : fdesc) (R : addr) (removed : list addr) (ok : bool) : st * rc :=
    let py := pyramid_cids f in
    let hashs := filter (fun k => match aget k py with Some _ => false | None => true end) (f_trie f) in
    let s1 := w_store s (sdel_all removed (store s)) in
    if negb ok then (s1, RErr)
    else
      let t := fold_left (fun t c => del_chunk c t) (map fst py) (fold_left (fun t c => del_chunk c t) hashs (cc s1)) in
      let s2 := w_hd (w_cc s1 t) (adel R (hd s1)) in
      let s3 := del_discover_presence s2 R in
      let s4 := w_cs (w_kv_srcp (w_kv_srcc s3 (adel R (kv_srcc s3))) (adel R (kv_srcp s3))) (adel R (cs s3)) in
      let s5 := w_ct_ov (w_ct (w_kv_chunk s4 (adel R (kv_chunk s4))) (adel R (ct s4))) (adel R (ct_ov s4)) in
      (s5, ROk).
  Lemma del_file_unfold s R removed ok :
    del_file U s R removed ok =
    match trav U (store s) R with
    | None => (s, RErr)
    | Some f => let '(s0, okp) := init_chunk_pyramid U s R in
                if negb okp then (s0, RErr) else del_file_tail s0 f R removed ok
    end.
  Proof.
    unfold del_file, del_file_tail. destruct (trav U (store s) R); [|reflexivity].
    destruct (init_chunk_pyramid U s R) as [s0 okp]. reflexivity.
  Qed.

  Lemma del_file_tail_inv s f R removed ok s' r :
    del_file_tail s f R removed ok = (s', r) -> legal (ODel R removed ok) -> InvC (store s) s -> disc_ok s ->
    InvC (store s') s' /\ disc_ok s'.
  Proof.
    unfold del_file_tail. intros H (Hfail & Hrem) I D.
    destruct ok; cbn [negb] in H.
    2:{ rewrite (Hfail eq_refl) in H. injection H as <- <-. cbn. split.
        - destruct I. constructor; cbn; assumption.
        - exact D. }
    injection H as <- <-. cbn. fold (del_keys R (inner R (cd s)) (kv_disc s)).
    assert (Hkeep : forall R' f' c, R' <> R -> aget R' U = Some f' ->
              (In c (f_need f') \/ In c (concat (f_hashes f'))) -> smem c (store s) = true ->
              smem c (sdel_all removed (store s)) = true).
    { intros R' f' c Hne Hf Hc Hm. apply smem_sdel_all_keep; [|assumption].
      intros Hin. destruct (Hrem c R' f' Hin Hf Hne) as [N1 N2]. tauto. }
    split.
    - destruct I. constructor; cbn.
      + intros R' b Hk. destruct (N.eq_dec R R') as [<-|Hne]; [now rewrite tget2_adel_eq in Hk|].
        rewrite tget2_adel_ne in Hk by assumption.
        destruct (i_ct R' b Hk) as (f' & Hf' & Hwf & Hlen & Hbits).
        apply (claim_intro U _ _ _ f'); try assumption.
        intros i Hi Hg. destruct (Hbits i Hi Hg) as (c & Hc & Hm). exists c. split; [assumption|].
        eapply Hkeep; eauto. right. apply uniq_in. eapply nth_error_In; eauto.
      + intros R' b Hk. apply in_flat_adel in Hk as [Hk Hne].
        destruct (i_kv R' b Hk) as (f' & Hf' & Hwf & Hlen & Hbits).
        apply (claim_intro U _ _ _ f'); try assumption.
        intros i Hi Hg. destruct (Hbits i Hi Hg) as (c & Hc & Hm). exists c. split; [assumption|].
        eapply Hkeep; eauto. right. apply uniq_in. eapply nth_error_In; eauto.
      + intros R' hm cm Hk. destruct (N.eq_dec R R') as [<-|Hne]; [now rewrite aget_adel_eq in Hk|].
        rewrite aget_adel_ne in Hk by assumption. eauto.
      + intros R' Hk. destruct (N.eq_dec R R') as [<-|Hne]; [now rewrite aget_adel_eq in Hk|].
        rewrite aget_adel_ne in Hk by assumption. specialize (i_hd_trav R' Hk).
        destruct (trav U (store s) R') as [f'|] eqn:Et'; [|contradiction].
        rewrite (trav_intro U _ R' f'); [discriminate | eapply trav_some; eauto|].
        intros c Hc. eapply Hkeep; eauto. eapply trav_some; eauto. eapply trav_need; eauto.
      + intros R' o' Hk. destruct (N.eq_dec R R') as [<-|Hne]; [now rewrite tget2_adel_eq in Hk|].
        rewrite tget2_adel_ne in Hk by assumption. rewrite aget_adel_ne by assumption. eauto.
      + apply sub_refl.
    - intros R' o' Hk.
      change (tget2 R' o' (del_keys R (inner R (cd s)) (kv_disc s)) <> None) in Hk.
      change (tget2 R' o' (adel R (cd s)) <> None).
      destruct (N.eq_dec R' R) as [->|Hne].
      + exfalso. apply Hk. apply del_keys_gone. rewrite <- tget2_inner. apply D. eapply del_keys_sub; eauto.
      + rewrite del_keys_other in Hk by assumption. rewrite tget2_adel_ne by congruence. now apply D.
  Qed.

  Lemma del_file_inv s R removed ok s' r :
    del_file U s R removed ok = (s', r) -> legal (ODel R removed ok) -> InvC (store s) s -> disc_ok s ->
    InvC (store s') s' /\ disc_ok s'.
  Proof.
    rewrite del_file_unfold. intros H Hl I D.
    destruct (trav U (store s) R) as [f|]; [|injection H as <- <-; auto].
    pose proof (init_chunk_pyramid_frame U s R) as F.
    destruct (init_chunk_pyramid U s R) as [s0 okp]. cbn [fst] in F.
    pose proof (Inv_frame U self _ _ _ I F) as I0.
    pose proof (disc_ok_same3 _ _ (frame_same3 U _ _ F) D) as D0.
    destruct F as (F1 & _). rewrite <- F1 in I0.
    destruct okp; cbn [negb] in H.
    - eapply del_file_tail_inv; eauto.
    - injection H as <- <-. auto.
  Qed.
End Steps.
