(** C17 — model of the chunk availability records of a node:
    pkg/chunkinfo/{chunkinfo,chunkinfotabneighbor,chunkpyramid,chunkinfosource,
    chunkinfodiscover}.go and pkg/netstore/netstore.go, with
    proposed/C17/fix-cidsort-membership.patch applied ([fx = true]; [fx = false] is the
    code before the repair and is kept to state the defect).  Bit vectors are the C39 model
    of pkg/bitvector.  Definitions only.

    What is abstract:
    - the chunk store is a set of chunk addresses ([store]);
    - addresses (chunks, roots, overlays) are numbers; 0 is the zero address;
    - the traversal service (pkg/traversal) is described per root by a [fdesc]: the keys
      of GetPyramid ([f_trie]), the data-chunk lists of GetChunkHashes ([f_hashes]), the
      single-chunk pieces it reports to a receiver ([f_pieces]), the chunks a local walk
      reads ([f_need]; the walk succeeds iff they are all stored) and whether a receiver
      can walk the root from the pyramid alone ([f_rcv]).  A root that is not in the
      universe cannot be walked;
    - the network: a pyramid exchange with a peer either fails or delivers the honest
      pyramid ([net] flag of the calls that may trigger one); a retrieval from the network
      either fails (source 0) or delivers the chunk from the named source.

    Go maps are association lists kept sorted by key (so that dumps are canonical); the
    state store is four tables (one per key prefix) keyed by (root, overlay).  A Go panic
    (nil dereference, index out of range) is the explicit result [RPanic]. *)
From Coq Require Import List NArith ZArith Bool.
Import ListNotations.
Require Aurora.C39.Model.
Module BV := Aurora.C39.Model.
Local Open Scope N_scope.

Notation addr := N (only parsing).
Notation bv := BV.bv.

(** ---- association lists with [N] keys ---- *)
Section AL.
  Context {V : Type}.
  Fixpoint aget (k : N) (l : list (N * V)) : option V :=
    match l with
    | [] => None
    | (k', v) :: t => if k =? k' then Some v else aget k t
    end.
  (** insert or replace, keeping ascending key order *)
  Fixpoint aset (k : N) (v : V) (l : list (N * V)) : list (N * V) :=
    match l with
    | [] => [(k, v)]
    | (k', v') :: t =>
        if k =? k' then (k, v) :: t
        else if k <? k' then (k, v) :: l
        else (k', v') :: aset k v t
    end.
  Fixpoint adel (k : N) (l : list (N * V)) : list (N * V) :=
    match l with
    | [] => []
    | (k', v') :: t => if k =? k' then adel k t else (k', v') :: adel k t
    end.
End AL.

(** two-level maps: root -> overlay -> value *)
Definition tab (V : Type) := list (addr * list (addr * V)).
Definition inner {V} (R : addr) (t : tab V) : list (addr * V) :=
  match aget R t with Some m => m | None => [] end.
Definition tget2 {V} (R o : addr) (t : tab V) : option V :=
  match aget R t with Some m => aget o m | None => None end.
Definition tset2 {V} (R o : addr) (v : V) (t : tab V) : tab V := aset R (aset o v (inner R t)) t.
(** deletion of one key of a persisted table: a root without keys does not exist *)
Definition tdel2 {V} (R o : addr) (t : tab V) : tab V :=
  match aget R t with
  | None => t
  | Some m => match adel o m with [] => adel R t | m' => aset R m' t end
  end.

(** sets of addresses (sorted lists) *)
Fixpoint smem (c : addr) (l : list addr) : bool :=
  match l with [] => false | x :: t => (c =? x) || smem c t end.
Fixpoint sadd (c : addr) (l : list addr) : list addr :=
  match l with
  | [] => [c]
  | x :: t => if c =? x then l else if c <? x then c :: l else x :: sadd c t
  end.
Fixpoint sdel (c : addr) (l : list addr) : list addr :=
  match l with [] => [] | x :: t => if c =? x then sdel c t else x :: sdel c t end.
Definition sadd_all (cs l : list addr) : list addr := fold_left (fun acc c => sadd c acc) cs l.
Definition sdel_all (cs l : list addr) : list addr := fold_left (fun acc c => sdel c acc) cs l.

(** ---- the traversal service, per root ---- *)
Record fdesc := mkf {
  f_trie : list addr;
  f_hashes : list (list addr);
  f_pieces : list addr;
  f_need : list addr;
  f_rcv : bool }.
Definition universe := list (addr * fdesc).

(** GetPyramid / GetChunkHashes(root, nil) on the local store *)
Definition trav (U : universe) (stv : list addr) (R : addr) : option fdesc :=
  match aget R U with
  | Some f => if forallb (fun c => smem c stv) (f_need f) then Some f else None
  | None => None
  end.

(** [getPyramid]: the map cid -> sort built over the data-chunk lists
    ([sort] counts the distinct cids met so far; the [number] field is not modelled) *)
Fixpoint build_py (xs : list addr) (py : list (addr * Z)) (sort : Z) : list (addr * Z) :=
  match xs with
  | [] => py
  | x :: t =>
      match aget x py with
      | None => build_py t (py ++ [(x, sort)]) (sort + 1)
      | Some _ => build_py t py sort
      end
  end.
Definition pyramid_cids (f : fdesc) : list (addr * Z) := build_py (concat (f_hashes f)) [] 0%Z.
(** the data chunks of a file in first-occurrence order: bit i of a vector stands for [nth i] *)
Definition uniq (f : fdesc) : list addr := map fst (pyramid_cids f).

(** ---- node state ---- *)
Record st := mkst {
  store : list addr;
  kv_chunk : tab bv;      (* "chunk-<root>-<overlay>" *)
  kv_disc : tab bv;       (* "discover-..." *)
  kv_srcc : tab bv;       (* "sourceChunk-..." *)
  kv_srcp : tab addr;     (* "sourcePyramid-<root>-<overlay>" -> overlay *)
  ct : tab bv;            (* chunkInfoTabNeighbor.presence *)
  ct_ov : list (addr * list addr);   (* chunkInfoTabNeighbor.overlays *)
  cd : tab bv;            (* chunkInfoDiscover.presence (times not modelled) *)
  cs : list (addr * (option addr * list (addr * bv)));  (* chunkInfoSource.presence *)
  hd : list (addr * (Z * Z));        (* chunkPyramid.hashData: hashMax, chunkMax *)
  cc : list (addr * Z) }.            (* chunkPyramid.chunk *)

Definition init : st := mkst [] [] [] [] [] [] [] [] [] [] [].

Definition w_store s x := mkst x (kv_chunk s) (kv_disc s) (kv_srcc s) (kv_srcp s) (ct s) (ct_ov s) (cd s) (cs s) (hd s) (cc s).
Definition w_kv_chunk s x := mkst (store s) x (kv_disc s) (kv_srcc s) (kv_srcp s) (ct s) (ct_ov s) (cd s) (cs s) (hd s) (cc s).
Definition w_kv_disc s x := mkst (store s) (kv_chunk s) x (kv_srcc s) (kv_srcp s) (ct s) (ct_ov s) (cd s) (cs s) (hd s) (cc s).
Definition w_kv_srcc s x := mkst (store s) (kv_chunk s) (kv_disc s) x (kv_srcp s) (ct s) (ct_ov s) (cd s) (cs s) (hd s) (cc s).
Definition w_kv_srcp s x := mkst (store s) (kv_chunk s) (kv_disc s) (kv_srcc s) x (ct s) (ct_ov s) (cd s) (cs s) (hd s) (cc s).
Definition w_ct s x := mkst (store s) (kv_chunk s) (kv_disc s) (kv_srcc s) (kv_srcp s) x (ct_ov s) (cd s) (cs s) (hd s) (cc s).
Definition w_ct_ov s x := mkst (store s) (kv_chunk s) (kv_disc s) (kv_srcc s) (kv_srcp s) (ct s) x (cd s) (cs s) (hd s) (cc s).
Definition w_cd s x := mkst (store s) (kv_chunk s) (kv_disc s) (kv_srcc s) (kv_srcp s) (ct s) (ct_ov s) x (cs s) (hd s) (cc s).
Definition w_cs s x := mkst (store s) (kv_chunk s) (kv_disc s) (kv_srcc s) (kv_srcp s) (ct s) (ct_ov s) (cd s) x (hd s) (cc s).
Definition w_hd s x := mkst (store s) (kv_chunk s) (kv_disc s) (kv_srcc s) (kv_srcp s) (ct s) (ct_ov s) (cd s) (cs s) x (cc s).
Definition w_cc s x := mkst (store s) (kv_chunk s) (kv_disc s) (kv_srcc s) (kv_srcp s) (ct s) (ct_ov s) (cd s) (cs s) (hd s) x.

Inductive rc := ROk | RErr | RNotFound | RPanic.

(** ---- chunkpyramid.go ---- *)

(** [putChunk] *)
Definition put_chunk (c : addr) (t : list (addr * Z)) : list (addr * Z) :=
  match aget c t with Some v => aset c (v + 1)%Z t | None => aset c 1%Z t end.
(** [delChunk] *)
Definition del_chunk (c : addr) (t : list (addr * Z)) : list (addr * Z) :=
  match aget c t with
  | Some v => if (1 <? v)%Z then aset c (v - 1)%Z t else adel c t
  | None => adel c t
  end.

(** [updateChunkPyramid], first loop: distinct data cids are counted and registered *)
Fixpoint ucp_data (xs py : list addr) (t : list (addr * Z)) (cm : Z) : list addr * list (addr * Z) * Z :=
  match xs with
  | [] => (py, t, cm)
  | x :: r => if smem x py then ucp_data r py t cm else ucp_data r (x :: py) (put_chunk x t) (cm + 1)%Z
  end.
(** second loop: pyramid keys that are not data cids *)
Fixpoint ucp_trie (ks py : list addr) (t : list (addr * Z)) (hm : Z) : list (addr * Z) * Z :=
  match ks with
  | [] => (t, hm)
  | k :: r => if smem k py then ucp_trie r py t hm else ucp_trie r py (put_chunk k t) (hm + 1)%Z
  end.
Definition update_chunk_pyramid (s : st) (R : addr) (hashes : list (list addr)) (trie : list addr) : st :=
  let '(py, t1, cm) := ucp_data (concat hashes) [] (cc s) 0%Z in
  let '(t2, hm) := ucp_trie trie py t1 0%Z in
  w_cc (w_hd s (aset R (hm, cm) (hd s))) t2.

Section Node.
  Variable U : universe.
  Variable self : addr.
  Variable fx : bool.     (* true: with fix-cidsort-membership.patch *)

  (** [initChunkPyramid]: false = error *)
  Definition init_chunk_pyramid (s : st) (R : addr) : st * bool :=
    match aget R (hd s) with
    | Some _ => (s, true)
    | None =>
        match trav U (store s) R with
        | None => (s, false)
        | Some f => (update_chunk_pyramid s R (f_hashes f) (f_trie f), true)
        end
    end.

  (** [getChunkSize] (0 also stands for its error returns: every caller treats them alike) *)
  Definition get_chunk_size (s : st) (R : addr) : st * Z :=
    match aget R (hd s) with
    | Some (_, cm) => (s, cm)
    | None =>
        match trav U (store s) R with
        | None => (s, 0%Z)
        | Some f =>
            let s' := update_chunk_pyramid s R (f_hashes f) (f_trie f) in
            (s', match aget R (hd s') with Some (_, cm) => cm | None => 0%Z end)
        end
    end.

  (** [getCidSort]: (index, found) *)
  Definition cid_sort (s : st) (R cid : addr) : Z * bool :=
    match trav U (store s) R with
    | None => (0%Z, false)
    | Some f => match aget cid (pyramid_cids f) with Some v => (v, true) | None => (0%Z, false) end
    end.

  (** ---- chunkinfotabneighbor.go ---- *)

  (** [putChunkInfoTabNeighbor] *)
  Definition put_tab_neighbor (s : st) (R o : addr) (b : bv) : st :=
    w_ct (w_ct_ov s (aset R (match aget R (ct_ov s) with Some l => l | None => [] end ++ [o]) (ct_ov s))) (tset2 R o b (ct s)).

  (** [putChunkInfoNeighbor] *)
  Definition put_neighbor (s : st) (R o : addr) : st * rc :=
    let '(s1, v) := get_chunk_size s R in
    if (v =? 0)%Z then (s1, RErr)
    else
      match tget2 R o (ct s1) with
      | Some _ => (s1, ROk)
      | None =>
          match BV.new v with
          | BV.Ok b => (w_kv_chunk (put_tab_neighbor s1 R o b) (tset2 R o b (kv_chunk s1)), ROk)
          | _ => (s1, RPanic)
          end
      end.

  (** [updateNeighborChunkInfo] *)
  Definition upd_neighbor (s : st) (R cid o : addr) : st * rc :=
    match aget R (ct s) with
    | None => (s, RErr)
    | Some _ =>
        let '(s1, r) := put_neighbor s R o in
        match r with
        | ROk =>
            match tget2 R o (ct s1) with
            | None => (s1, RPanic)
            | Some b =>
                let '(v, found) := cid_sort s1 R cid in
                if fx && negb found then (s1, ROk)
                else
                  match BV.set b v true with
                  | BV.Ok b' => (w_kv_chunk (w_ct s1 (tset2 R o b' (ct s1))) (tset2 R o b' (kv_chunk s1)), ROk)
                  | _ => (s1, RPanic)
                  end
            end
        | _ => (s1, r)
        end
    end.

  (** ---- chunkinfosource.go ---- *)

  (** [updatePyramidSource] *)
  Definition update_pyramid_source (s : st) (R src : addr) : st :=
    match aget R (cs s) with
    | None => w_kv_srcp (w_cs s (aset R (Some src, []) (cs s))) (tset2 R src src (kv_srcp s))
    | Some (None, m) => w_kv_srcp (w_cs s (aset R (Some src, m) (cs s))) (tset2 R src src (kv_srcp s))
    | Some (Some _, _) => s
    end.

  (** [UpdateChunkInfoSource] *)
  Definition any_has (m : list (addr * bv)) (v : Z) : option bool :=
    fold_left (fun acc ob => match acc with
                             | None => None
                             | Some true => Some true
                             | Some false => match BV.get (snd ob) v with BV.Ok b => Some b | _ => None end
                             end) m (Some false).
  Definition update_source (s : st) (R src cid : addr) : st * rc :=
    match aget R (cs s) with
    | None => (s, RErr)
    | Some (ps, m) =>
        let '(v, found) := cid_sort s R cid in
        if fx && negb found then (s, ROk)
        else
          match any_has m v with
          | None => (s, RPanic)
          | Some true => (s, ROk)
          | Some false =>
              let '(s1, ovb) :=
                match aget src m with
                | Some b => (s, Some b)
                | None =>
                    let '(s1, n) := get_chunk_size s R in
                    (s1, match BV.new n with BV.Ok b => Some b | _ => None end)
                end in
              match ovb with
              | None => (s1, RPanic)
              | Some b =>
                  match BV.set b v true with
                  | BV.Ok b' =>
                      (w_kv_srcc (w_cs s1 (aset R (ps, aset src b' m) (cs s1))) (tset2 R src b' (kv_srcc s1)), ROk)
                  | _ => (s1, RPanic)
                  end
              end
          end
    end.

  (** [initNeighborChunkInfo] (errors are logged; the loop stops at the first one) *)
  Fixpoint init_neighbor_loop (s : st) (R peer : addr) (cids : list addr) : st * rc :=
    match cids with
    | [] => (s, ROk)
    | c :: t =>
        let '(s1, r1) := update_source s R peer c in
        match r1 with
        | ROk =>
            let '(s2, r2) := upd_neighbor s1 R c self in
            match r2 with
            | ROk => init_neighbor_loop s2 R peer t
            | RPanic => (s2, RPanic)
            | _ => (s2, ROk)
            end
        | RPanic => (s1, RPanic)
        | _ => (s1, ROk)
        end
    end.
  Definition init_neighbor (s : st) (R peer : addr) (cids : list addr) : st * rc :=
    match aget R (ct s) with
    | Some _ => init_neighbor_loop s R peer cids
    | None =>
        let '(s1, r) := put_neighbor s R self in
        match r with
        | ROk => init_neighbor_loop s1 R peer cids
        | RPanic => (s1, RPanic)
        | _ => (s1, ROk)
        end
    end.

  (** [onChunkPyramidResp] with the honest pyramid of the peer minus the [withheld] entries *)
  Definition pyramid_resp (s : st) (R peer : addr) (withheld : list addr) : st * rc :=
    match aget R (hd s) with
    | Some _ => (s, ROk)
    | None =>
        match aget R U with
        | None => (s, RErr)
        | Some f =>
            if f_rcv f && forallb (fun c => negb (smem c withheld)) (f_trie f) then
              (* traversal.GetChunkHashes(root, pyramid) stores the entries it walked *)
              let s1 := w_store s (sadd_all (f_trie f) (store s)) in
              let s2 := update_pyramid_source s1 R peer in
              let s3 := update_chunk_pyramid s2 R (f_hashes f) (f_trie f) in
              let '(s4, r) := init_neighbor s3 R peer (f_pieces f) in
              (s4, match r with RPanic => RPanic | _ => ROk end)
            else (s, RErr)
        end
    end.

  (** [pyramidCheck] ([doFindChunkPyramid] is the exchange with [target], allowed by [net]) *)
  Definition pyramid_check (s : st) (R o target : addr) (net : bool) : st * rc :=
    match aget R (hd s) with
    | Some _ => (s, ROk)
    | None =>
        let '(s1, r1) :=
          if negb (target =? 0) && negb (target =? self) then
            if net then pyramid_resp s R target [] else (s, RErr)
          else (s, ROk) in
        match r1 with
        | ROk => put_neighbor s1 R o
        | _ => (s1, r1)
        end
    end.

  (** [OnChunkRetrieved] *)
  Definition on_retrieved (s : st) (cid R src : addr) (net : bool) : st * rc :=
    let '(s1, r1) := pyramid_check s R self src net in
    match r1 with
    | ROk =>
        let '(s2, r2) := upd_neighbor s1 R cid self in
        match r2 with
        | ROk => update_source (update_pyramid_source s2 R src) R src cid
        | _ => (s2, r2)
        end
    | _ => (s1, r1)
    end.

  (** [OnChunkTransferred] *)
  Definition on_transferred (s : st) (cid R o target : addr) (net : bool) : st * rc :=
    let '(s1, r1) := pyramid_check s R o target net in
    match r1 with
    | ROk => upd_neighbor s1 R cid o
    | _ => (s1, r1)
    end.

  (** netstore.Get under the file context [R] (0: none).  A miss goes to the retrieval
      service: [src] = 0 means no peer delivers; otherwise the chunk arrives from [src],
      is reported to chunkinfo and then stored (retrieval.go). *)
  Definition ns_get (s : st) (R cid src : addr) (net : bool) : st * rc :=
    if smem cid (store s) then
      if negb (R =? 0) && negb (R =? cid) then
        let '(s1, r) := on_retrieved s cid R self net in
        (s1, match r with RPanic => RPanic | _ => ROk end)
      else (s, ROk)
    else if R =? 0 then (s, RNotFound)
    else if src =? 0 then (s, RErr)
    else
      let '(s1, r) := on_retrieved s cid R src net in
      match r with
      | ROk => (w_store s1 (sadd cid (store s1)), ROk)
      | RPanic => (s1, RPanic)
      | _ => (s1, RErr)
      end.

  (** the upload handlers: the pipeline has stored every chunk, then each data chunk is
      registered (api/aurora.go, api/dirs.go) *)
  Fixpoint upload_loop (s : st) (R : addr) (cids : list addr) : st * rc :=
    match cids with
    | [] => (s, ROk)
    | c :: t =>
        let '(s1, r) := on_retrieved s c R self false in
        match r with ROk => upload_loop s1 R t | _ => (s1, r) end
    end.
  Definition upload (s : st) (R : addr) : st * rc :=
    match aget R U with
    | None => (s, RErr)
    | Some f =>
        let s1 := w_store s (sadd_all (concat (f_hashes f)) (sadd_all (f_trie f) (store s))) in
        match trav U (store s1) R with
        | None => (s1, RErr)
        | Some f' => upload_loop s1 R (concat (f_hashes f'))
        end
    end.

  (** ---- chunkinfodiscover.go ---- *)

  (** [updateChunkInfo] (reached from onFindChunkInfo -> updateQueue) *)
  Definition update_chunk_info (s : st) (R o : addr) (b : list N) : st * rc :=
    let s0 := match aget R (cd s) with Some _ => s | None => w_cd s (aset R [] (cd s)) end in
    match tget2 R o (cd s0) with
    | None =>
        let '(s1, v) := get_chunk_size s0 R in
        if (v =? 0)%Z then (s1, ROk)
        else
          match BV.new_from_bytes b v with
          | BV.Ok vb => (w_kv_disc (w_cd s1 (tset2 R o vb (cd s1))) (tset2 R o vb (kv_disc s1)), ROk)
          | _ => (s1, ROk)
          end
    | Some vb =>
        match BV.set_bytes vb b with
        | BV.Ok vb' => (w_kv_disc (w_cd s0 (tset2 R o vb' (cd s0))) (tset2 R o vb' (kv_disc s0)), ROk)
        | BV.Err => (w_kv_disc s0 (tset2 R o vb (kv_disc s0)), ROk)
        | BV.Panic => (s0, RPanic)
        end
    end.

  (** [delDiscoverPresence]: the keys deleted are those of the in-memory entries *)
  Definition del_discover_presence (s : st) (R : addr) : st :=
    let kv := fold_left (fun t ob => tdel2 R (fst ob) t) (inner R (cd s)) (kv_disc s) in
    w_cd (w_kv_disc s kv) (adel R (cd s)).

  (** ---- chunkinfo.go ---- *)

  (** [DelFile]; the closure [del] removes the chunks [removed] and fails when [ok = false] *)
  Definition del_file (s : st) (R : addr) (removed : list addr) (ok : bool) : st * rc :=
    match trav U (store s) R with
    | None => (s, RErr)
    | Some f =>
        let py := pyramid_cids f in
        let hashs := filter (fun k => match aget k py with Some _ => false | None => true end) (f_trie f) in
        (* a root the pyramid table does not know is registered first ([initChunkPyramid]
           returns at once for a known root), so that the reference counts include it *)
        let '(s0, okp) := init_chunk_pyramid s R in
        if negb okp then (s0, RErr)
        else
        let s1 := w_store s0 (sdel_all removed (store s0)) in
        if negb ok then (s1, RErr)
        else
          (* delRootCid *)
          let t := fold_left (fun t c => del_chunk c t) (map fst py) (fold_left (fun t c => del_chunk c t) hashs (cc s1)) in
          let s2 := w_hd (w_cc s1 t) (adel R (hd s1)) in
          let s3 := del_discover_presence s2 R in
          (* DelChunkInfoSource *)
          let s4 := w_cs (w_kv_srcp (w_kv_srcc s3 (adel R (kv_srcc s3))) (adel R (kv_srcp s3))) (adel R (cs s3)) in
          (* delPresence *)
          let s5 := w_ct_ov (w_ct (w_kv_chunk s4 (adel R (kv_chunk s4))) (adel R (ct s4))) (adel R (ct_ov s4)) in
          (s5, ROk)
    end.

  (** node start: [chunkinfo.New] + [InitChunkInfo] over the persisted tables *)
  Definition flat {V} (t : tab V) : list (addr * addr * V) :=
    flat_map (fun rm => map (fun ov => (fst rm, fst ov, snd ov)) (snd rm)) t.

  Fixpoint reinit_ct (s : st) (l : list (addr * addr * bv)) : st * rc :=
    match l with
    | [] => (s, ROk)
    | (R, o, b) :: t =>
        (* [bit, _ := NewFromBytes(..)]; [*bit] is evaluated only after initChunkPyramid succeeded *)
        let '(s1, ok) := init_chunk_pyramid s R in
        if ok then
          match BV.new_from_bytes (BV.bytes b) (BV.len b) with
          | BV.Ok b' => reinit_ct (put_tab_neighbor s1 R o b') t
          | _ => (s1, RPanic)
          end
        else reinit_ct s1 t
    end.
  Fixpoint reinit_cd (s : st) (l : list (addr * addr * bv)) : st * rc :=
    match l with
    | [] => (s, ROk)
    | (R, o, b) :: t =>
        let '(s1, ok) := init_chunk_pyramid s R in
        if ok then
          match BV.new_from_bytes (BV.bytes b) (BV.len b) with
          | BV.Ok b' => reinit_cd (w_cd s1 (tset2 R o b' (cd s1))) t
          | _ => (s1, RPanic)
          end
        else reinit_cd s1 t
    end.
  Fixpoint reinit_srcp (s : st) (l : list (addr * addr * addr)) : st :=
    match l with
    | [] => s
    | (R, _, ov) :: t =>
        let '(s1, ok) := init_chunk_pyramid s R in
        if ok then
          reinit_srcp (match aget R (cs s1) with Some _ => s1 | None => w_cs s1 (aset R (Some ov, []) (cs s1)) end) t
        else reinit_srcp s1 t
    end.
  Fixpoint reinit_srcc (s : st) (l : list (addr * addr * bv)) : st * rc :=
    match l with
    | [] => (s, ROk)
    | (R, o, b) :: t =>
        match BV.new_from_bytes (BV.bytes b) (BV.len b) with
        | BV.Ok b' =>
            let '(s1, ok) := init_chunk_pyramid s R in
            if ok then
              match aget R (cs s1) with
              | Some (ps, m) => reinit_srcc (w_cs s1 (aset R (ps, aset o b' m) (cs s1))) t
              | None => (s1, RPanic)
              end
            else reinit_srcc s1 t
        | _ => (s, RErr)
        end
    end.
  Definition reinit (s : st) : st * rc :=
    let s0 := mkst (store s) (kv_chunk s) (kv_disc s) (kv_srcc s) (kv_srcp s) [] [] [] [] [] [] in
    let '(s1, r1) := reinit_ct s0 (flat (kv_chunk s0)) in
    match r1 with
    | ROk =>
        let '(s2, r2) := reinit_cd s1 (flat (kv_disc s1)) in
        match r2 with
        | ROk => reinit_srcc (reinit_srcp s2 (flat (kv_srcp s2))) (flat (kv_srcc s2))
        | _ => (s2, r2)
        end
    | _ => (s1, r1)
    end.

  (** ---- histories ---- *)
  Inductive op :=
  | OPut (cs : list addr)                                   (* chunks get stored *)
  | OUpload (R : addr)
  | OGet (R cid src : addr) (net : bool)                    (* netstore.Get *)
  | OTransferred (cid R o target : addr) (net : bool)
  | OPyramid (R peer : addr) (withheld : list addr)
  | ODiscover (R o : addr) (b : list N)
  | OReinit
  | ODel (R : addr) (removed : list addr) (ok : bool)
  | ODelDiscover (R : addr).

  Definition step (s : st) (o : op) : st * rc :=
    match o with
    | OPut l => (w_store s (sadd_all l (store s)), ROk)
    | OUpload R => upload s R
    | OGet R cid src net => ns_get s R cid src net
    | OTransferred cid R o target net => on_transferred s cid R o target net
    | OPyramid R peer wh => pyramid_resp s R peer wh
    | ODiscover R o b => update_chunk_info s R o b
    | OReinit => reinit s
    | ODel R removed ok => del_file s R removed ok
    | ODelDiscover R => (del_discover_presence s R, ROk)
    end.

  Definition run (s : st) (ops : list op) : st := fold_left (fun s o => fst (step s o)) ops s.

  (** the state after a history in which no call panicked (a Go panic ends the process) *)
  Fixpoint run_ok (s : st) (ops : list op) : option st :=
    match ops with
    | [] => Some s
    | o :: t => let '(s', r) := step s o in match r with RPanic => None | _ => run_ok s' t end
    end.

  (** [isDownload(root, self)] *)
  Definition is_download (s : st) (R : addr) : BV.res bool :=
    match aget R (ct s) with
    | Some m => BV.equals_ptr (aget self m)
    | None => BV.Ok false
    end.
End Node.

(** ---- canonical serialisation of a state (the harness produces the same list) ---- *)
Definition ser_bv (b : bv) : list N :=
  [Z.to_N (BV.len b); N.of_nat (length (BV.bytes b))] ++ BV.bytes b.
Definition ser_inner {V} (f : V -> list N) (m : list (addr * V)) : list N :=
  N.of_nat (length m) :: flat_map (fun ov => fst ov :: f (snd ov)) m.
Definition ser_tab {V} (f : V -> list N) (t : tab V) : list N :=
  N.of_nat (length t) :: flat_map (fun rm => fst rm :: ser_inner f (snd rm)) t.
Definition ser_state (s : st) : list N :=
  (N.of_nat (length (store s)) :: store s)
  ++ ser_tab ser_bv (kv_chunk s) ++ ser_tab ser_bv (kv_disc s) ++ ser_tab ser_bv (kv_srcc s)
  ++ ser_tab (fun o : addr => [o]) (kv_srcp s)
  ++ ser_tab ser_bv (ct s)
  ++ (N.of_nat (length (ct_ov s)) :: flat_map (fun rl => fst rl :: N.of_nat (length (snd rl)) :: snd rl) (ct_ov s))
  ++ ser_tab ser_bv (cd s)
  ++ (N.of_nat (length (cs s)) ::
      flat_map (fun e => fst e :: (match fst (snd e) with None => [0] | Some o => [1; o] end)
                                  ++ ser_inner ser_bv (snd (snd e))) (cs s))
  ++ (N.of_nat (length (hd s)) :: flat_map (fun e => [fst e; Z.to_N (fst (snd e)); Z.to_N (snd (snd e))]) (hd s))
  ++ (N.of_nat (length (cc s)) :: flat_map (fun e => [fst e; Z.to_N (snd e)]) (cc s)).

Definition cksum (l : list N) : N :=
  N.land (fold_left (fun h x => N.land (h * 1099511628211 + x + 1) (N.ones 64)) l 14695981039346656037) (N.ones 61).

Definition rc_code (r : rc) : N := match r with ROk => 0 | RErr => 1 | RNotFound => 2 | RPanic => 3 end.
