(** C17 — restart from the state store, the step lemma, and the three property lemmas. *)
From Coq Require Import List NArith ZArith Bool Lia.
Import ListNotations.
Require Import Aurora.C39.Model Aurora.C39.Proofs.
Require Import Aurora.C17.Model Aurora.C17.Lemmas Aurora.C17.Inv Aurora.C17.Steps.
Local Open Scope N_scope.

Lemma reload_eq (b b' : bv) : new_from_bytes (bytes b) (len b) = Ok b' -> b' = b.
Proof. intros H. apply new_from_bytes_inv in H as [-> _]. now destruct b. Qed.

Section Proofs.
  Variable U : universe.
  Variable self : addr.
  Hypothesis wfU : wf_universe U.

  Notation InvC := (InvC U self).
  Notation frame := (frame U).

  (** ---- node start ---- *)
  Definition same4 (c c' : st) : Prop :=
    store c' = store c /\ kv_chunk c' = kv_chunk c /\ kv_disc c' = kv_disc c /\ cd c' = cd c.

  Lemma reinit_ct_inv stv l : forall c c' r, reinit_ct U c l = (c', r) ->
    (forall R b, In (R, self, b) l -> claim_ok U stv R b) -> InvC stv c ->
    InvC stv c' /\ same4 c c' /\ (r = ROk \/ r = RPanic).
  Proof.
    induction l as [|[[R o] b] t IH]; intros c c' r H Hel I; cbn [reinit_ct] in H.
    - injection H as <- <-. split; [assumption | split; [repeat split | now left]].
    - pose proof (init_chunk_pyramid_frame U c R) as F.
      destruct (init_chunk_pyramid U c R) as [c1 ok]. cbn [fst] in F.
      pose proof (Inv_frame U self _ _ _ I F) as I1. destruct F as (F1 & F2 & F3 & _ & F5 & _).
      destruct ok.
      + destruct (BV.new_from_bytes (BV.bytes b) (BV.len b)) as [b'| |] eqn:En;
          try (injection H as <- <-; split; [assumption | split; [repeat split; assumption | now right]]).
        apply reload_eq in En. subst b'.
        assert (I2 : InvC stv (put_tab_neighbor c1 R o b)).
        { destruct I1. constructor; cbn; try assumption.
          intros R' b' Hk. destruct (N.eq_dec R R') as [<-|Hne]; [destruct (N.eq_dec o self) as [->|Hno]|].
          - rewrite tget2_tset2_eq in Hk. inversion Hk; subst. apply Hel. now left.
          - rewrite tget2_tset2_ne in Hk by congruence. eauto.
          - rewrite tget2_tset2_ne in Hk by congruence. eauto. }
        destruct (IH _ _ _ H (fun R' b' Hin => Hel R' b' (or_intror Hin)) I2) as (I3 & (S1 & S2 & S3 & S4) & Hr).
        cbn in S1, S2, S3, S4. split; [assumption | split; [repeat split; congruence | assumption]].
      + destruct (IH _ _ _ H (fun R' b' Hin => Hel R' b' (or_intror Hin)) I1) as (I3 & (S1 & S2 & S3 & S4) & Hr).
        split; [assumption | split; [repeat split; congruence | assumption]].
  Qed.

  Lemma reinit_cd_inv stv l : forall c c' r, reinit_cd U c l = (c', r) -> InvC stv c ->
    InvC stv c' /\ store c' = store c /\ kv_chunk c' = kv_chunk c /\ kv_disc c' = kv_disc c /\
    (forall R o, tget2 R o (cd c) <> None -> tget2 R o (cd c') <> None) /\ (r = ROk \/ r = RPanic).
  Proof.
    induction l as [|[[R o] b] t IH]; intros c c' r H I; cbn [reinit_cd] in H.
    - injection H as <- <-. split; [assumption|]. repeat split; auto.
    - pose proof (init_chunk_pyramid_frame U c R) as F. pose proof (init_chunk_pyramid_ok U c R) as Hok.
      destruct (init_chunk_pyramid U c R) as [c1 ok]. cbn [fst snd] in F, Hok.
      pose proof (Inv_frame U self _ _ _ I F) as I1. destruct F as (F1 & F2 & F3 & _ & F5 & _).
      destruct ok.
      + destruct (BV.new_from_bytes (BV.bytes b) (BV.len b)) as [b'| |] eqn:En;
          try (injection H as <- <-; split; [assumption|]; repeat split; auto; intros R' o'; rewrite F5; auto).
        assert (I2 : InvC stv (w_cd c1 (tset2 R o b' (cd c1)))).
        { destruct I1. constructor; cbn; try assumption.
          intros R' o' Hk. destruct (N.eq_dec R R') as [<-|Hne]; [now apply Hok|].
          rewrite tget2_tset2_ne in Hk by congruence. eauto. }
        destruct (IH _ _ _ H I2) as (I3 & S1 & S2 & S3 & Hm & Hr). cbn in S1, S2, S3, Hm.
        split; [assumption|]. repeat split; try assumption; try congruence.
        intros R' o' Hk. apply Hm. rewrite <- F5 in Hk.
        destruct (N.eq_dec R R') as [<-|Hne]; [destruct (N.eq_dec o o') as [<-|Hno]|].
        * rewrite tget2_tset2_eq. discriminate.
        * now rewrite tget2_tset2_ne by congruence.
        * now rewrite tget2_tset2_ne by congruence.
      + destruct (IH _ _ _ H I1) as (I3 & S1 & S2 & S3 & Hm & Hr).
        split; [assumption|]. repeat split; try assumption; try congruence. intros R' o' Hk. apply Hm. now rewrite F5.
  Qed.

  Lemma reinit_cd_loads l : forall c c' R o b, reinit_cd U c l = (c', ROk) -> In (R, o, b) l ->
    trav U (store c) R <> None -> tget2 R o (cd c') <> None.
  Proof.
    induction l as [|[[R0 o0] b0] t IH]; intros c c' R o b H Hin Ht; [destruct Hin|].
    cbn [reinit_cd] in H.
    pose proof (init_chunk_pyramid_frame U c R0) as F. pose proof (init_chunk_pyramid_succeeds U c R0) as Hs.
    destruct (init_chunk_pyramid U c R0) as [c1 ok]. cbn [fst snd] in F, Hs.
    destruct F as (F1 & _).
    destruct Hin as [Hq|Hin].
    - inversion Hq; subst R0 o0 b0. rewrite (Hs Ht) in H.
      destruct (BV.new_from_bytes (BV.bytes b) (BV.len b)) as [b'| |] eqn:En; try discriminate.
      (* loaded now; later entries only add *)
      assert (Hnow : tget2 R o (cd (w_cd c1 (tset2 R o b' (cd c1)))) <> None) by (cbn; rewrite tget2_tset2_eq; discriminate).
      clear -H Hnow. revert H Hnow. generalize (w_cd c1 (tset2 R o b' (cd c1))). clear c1.
      induction t as [|[[R1 o1] b1] t IH]; intros c H Hnow; cbn [reinit_cd] in H.
      + injection H as <-. assumption.
      + pose proof (init_chunk_pyramid_frame U c R1) as F. destruct (init_chunk_pyramid U c R1) as [c1 ok].
        cbn [fst] in F. destruct F as (_ & _ & _ & _ & F5 & _).
        destruct ok.
        * destruct (BV.new_from_bytes (BV.bytes b1) (BV.len b1)) as [b2| |]; try discriminate.
          apply (IH _ H). cbn. rewrite <- F5 in Hnow.
          destruct (N.eq_dec R1 R) as [->|Hne]; [destruct (N.eq_dec o1 o) as [->|Hno]|].
          -- rewrite tget2_tset2_eq. discriminate.
          -- now rewrite tget2_tset2_ne by congruence.
          -- now rewrite tget2_tset2_ne by congruence.
        * apply (IH _ H). now rewrite F5.
    - destruct ok.
      + destruct (BV.new_from_bytes (BV.bytes b0) (BV.len b0)) as [b'| |]; try discriminate.
        eapply IH; [exact H | exact Hin | cbn; now rewrite F1].
      + eapply IH; [exact H | exact Hin | now rewrite F1].
  Qed.

  Lemma reinit_srcp_frame l : forall c, frame c (reinit_srcp U c l).
  Proof.
    induction l as [|[[R o] ov] t IH]; intros c; cbn [reinit_srcp]; [apply frame_refl|].
    pose proof (init_chunk_pyramid_frame U c R) as F. destruct (init_chunk_pyramid U c R) as [c1 ok]. cbn [fst] in F.
    destruct ok.
    - eapply frame_trans; [|apply IH]. destruct (aget R (cs c1)); [exact F|].
      eapply frame_trans; [exact F | apply frame_eq; reflexivity].
    - eapply frame_trans; [exact F | apply IH].
  Qed.
  Lemma reinit_srcc_frame l : forall c, frame c (fst (reinit_srcc U c l)).
  Proof.
    induction l as [|[[R o] b] t IH]; intros c; cbn [reinit_srcc]; [apply frame_refl|].
    destruct (BV.new_from_bytes (BV.bytes b) (BV.len b)) as [b'| |]; try apply frame_refl.
    pose proof (init_chunk_pyramid_frame U c R) as F. destruct (init_chunk_pyramid U c R) as [c1 ok]. cbn [fst] in F.
    destruct ok.
    - destruct (aget R (cs c1)) as [[ps m]|]; [|exact F].
      eapply frame_trans; [|apply IH]. eapply frame_trans; [exact F | apply frame_eq; reflexivity].
    - eapply frame_trans; [exact F | apply IH].
  Qed.

  Lemma reinit_inv s s' r : reinit U s = (s', r) -> r <> RPanic -> InvC (store s) s -> disc_ok s ->
    InvC (store s') s' /\ disc_ok s'.
  Proof.
    unfold reinit. intros H Hnp I D.
    set (s0 := mkst (store s) (kv_chunk s) (kv_disc s) (kv_srcc s) (kv_srcp s) [] [] [] [] [] []) in *.
    assert (I0 : InvC (store s) s0).
    { destruct I. constructor; cbn; try assumption; try (intros; discriminate); intros ? ? H0; now elim H0. }
    destruct (reinit_ct U s0 (flat (kv_chunk s0))) as [s1 r1] eqn:E1.
    destruct (reinit_ct_inv (store s) _ _ _ _ E1 (fun R b Hin => i_kv _ _ _ _ I R b Hin) I0) as (I1 & (A1 & A2 & A3 & A4) & Hr1).
    cbn in A1, A2, A3, A4.
    destruct Hr1 as [->| ->]; [|injection H as <- <-; contradiction].
    destruct (reinit_cd U s1 (flat (kv_disc s1))) as [s2 r2] eqn:E2.
    destruct (reinit_cd_inv (store s) _ _ _ _ E2 I1) as (I2 & B1 & B2 & B3 & _ & Hr2).
    destruct Hr2 as [->| ->]; [|injection H as <- <-; contradiction].
    pose proof (reinit_srcc_frame (flat (kv_srcc s2)) (reinit_srcp U s2 (flat (kv_srcp s2)))) as F4.
    rewrite H in F4. cbn [fst] in F4.
    pose proof (frame_trans U _ _ _ (reinit_srcp_frame (flat (kv_srcp s2)) s2) F4) as F.
    pose proof (Inv_frame U self _ _ _ I2 F) as I3.
    destruct F as (C1 & C2 & C3 & _ & C5 & _).
    assert (Hst : store s' = store s) by congruence.
    split; [now rewrite Hst|].
    intros R o Hk. rewrite C3, B3, A3 in Hk. rewrite C5.
    destruct (tget2 R o (kv_disc s)) as [b|] eqn:Eb; [|contradiction].
    eapply (reinit_cd_loads _ _ _ R o b E2).
    - rewrite A3. now apply tget2_in_flat.
    - rewrite A1. apply (i_hd_trav _ _ _ _ I). apply (i_cd_hd _ _ _ _ I R o). apply D. congruence.
  Qed.

  (** ---- one call ---- *)
  Lemma step_inv s o s' r : step U self true s o = (s', r) -> r <> RPanic -> legal U self o ->
    InvC (store s) s -> disc_ok s -> InvC (store s') s' /\ disc_ok s'.
  Proof.
    intros H Hnp Hl I D. destruct o; cbn [step] in H.
    - injection H as <- <-. split; [|exact D]. cbn [store w_store].
      apply InvC_grow_store; [eapply Inv_mono; [apply sub_sadd_all | exact I] | apply sub_sadd_all | apply sub_refl].
    - split; [eapply upload_inv; eauto|].
      pose proof (upload_grows U self s R) as G. rewrite H in G. eapply disc_ok_grows; eauto.
    - split; [eapply ns_get_inv; eauto|].
      pose proof (ns_get_grows U self s R cid src net) as G. rewrite H in G. eapply disc_ok_grows; eauto.
    - pose proof (on_transferred_grows U self s cid R o target net) as G. rewrite H in G. cbn [fst] in G.
      split; [|eapply disc_ok_grows; eauto].
      eapply on_transferred_inv; [exact wfU | exact H | eapply Inv_mono; [apply G | exact I] | apply sub_refl | exact Hl].
    - pose proof (pyramid_resp_grows U self s R peer withheld) as G. rewrite H in G. cbn [fst] in G.
      split; [|eapply disc_ok_grows; eauto].
      eapply pyramid_resp_inv; [exact wfU | exact H | eapply Inv_mono; [apply G | exact I] | apply sub_refl].
    - destruct (update_chunk_info_inv U self (store s) s R o b s' r H I D) as (I1 & D1 & S1).
      split; [now rewrite S1 | exact D1].
    - eapply reinit_inv; eauto.
    - eapply del_file_inv; eauto.
    - injection H as <- <-. destruct (del_discover_presence_inv U self (store s) s R I D) as [I1 D1].
      split; assumption.
  Qed.

  (** ---- histories ---- *)
  Lemma run_ok_inv ops : forall s s', run_ok U self true s ops = Some s' -> Forall (legal U self) ops ->
    InvC (store s) s -> disc_ok s -> InvC (store s') s' /\ disc_ok s'.
  Proof.
    induction ops as [|o t IH]; intros s s' H Hl I D; cbn [run_ok] in H.
    - injection H as <-. auto.
    - destruct (step U self true s o) as [s1 r] eqn:Es. inversion Hl; subst.
      assert (Hnp : r <> RPanic) by (intros ->; discriminate).
      destruct (step_inv s o s1 r Es Hnp H2 I D) as [I1 D1].
      apply (IH s1 s'); try assumption. destruct r; try assumption. contradiction.
  Qed.

  Lemma reach_inv ops s : run_ok U self true init ops = Some s -> Forall (legal U self) ops ->
    InvC (store s) s /\ disc_ok s.
  Proof.
    intros H Hl. eapply run_ok_inv; eauto.
    - apply Inv_init.
    - intros R o Hk. cbn in Hk. now elim Hk.
  Qed.

  (** ---- the property lemmas ---- *)

  (** no overclaim: a bit of the node's own vector (in memory or persisted) that reads true
      names a data chunk that is stored *)
  Lemma no_overclaim ops s : run_ok U self true init ops = Some s -> Forall (legal U self) ops ->
    forall R b i, tget2 R self (ct s) = Some b \/ tget2 R self (kv_chunk s) = Some b ->
      (0 <= i < BV.len b)%Z -> BV.get b i = BV.Ok true ->
      exists f c, aget R U = Some f /\ nth_error (uniq f) (Z.to_nat i) = Some c /\ smem c (store s) = true.
  Proof.
    intros H Hl R b i Hb Hi Hg. destruct (reach_inv ops s H Hl) as [I _].
    assert (Hc : claim_ok U (store s) R b).
    { destruct Hb as [Hb|Hb]; [eapply (i_ct _ _ _ _ I); eauto | eapply (i_kv _ _ _ _ I); eauto using tget2_in_flat]. }
    destruct Hc as (f & Hf & Hwf & Hlen & Hbits). destruct (Hbits i Hi Hg) as (c & Hc & Hm). eauto.
  Qed.

  (** the fully-downloaded report implies that every data chunk of the file is stored *)
  Lemma download_flag ops s : run_ok U self true init ops = Some s -> Forall (legal U self) ops ->
    forall R, is_download self s R = BV.Ok true ->
      exists f, aget R U = Some f /\ forall c, In c (concat (f_hashes f)) -> smem c (store s) = true.
  Proof.
    intros H Hl R Hd. destruct (reach_inv ops s H Hl) as [I _].
    unfold is_download in Hd. destruct (aget R (ct s)) as [m|] eqn:Em; [|discriminate].
    destruct (aget self m) as [b|] eqn:Eb; cbn [equals_ptr] in Hd; [|discriminate].
    assert (Hk : tget2 R self (ct s) = Some b) by (unfold tget2; now rewrite Em).
    destruct (i_ct _ _ _ _ I R b Hk) as (f & Hf & Hwf & Hlen & Hbits).
    exists f. split; [assumption|]. intros c Hc. apply uniq_complete in Hc.
    apply In_nth_error in Hc as [n Hn].
    assert (Hlt : (n < length (uniq f))%nat) by (apply nth_error_Some; congruence).
    rewrite (equals_spec b Hwf) in Hd. injection Hd as Hall.
    assert (Hi : (0 <= Z.of_nat n < blen b)%Z) by lia.
    destruct (Hbits (Z.of_nat n) Hi) as (c' & Hc' & Hm').
    - destruct (get_set_thm b (Z.of_nat n) true Hwf Hi) as [Hg _]. rewrite Hg. f_equal.
      rewrite Nat2Z.id. rewrite forallb_forall in Hall.
      apply (Hall (nth n (abs b) false)). apply nth_In. rewrite (abs_length b Hwf). lia.
    - rewrite Nat2Z.id in Hc'. congruence.
  Qed.

  (** after a successful DelFile no record of the root remains, in memory or persisted *)
  Definition no_record (s : st) (R : addr) : Prop :=
    aget R (ct s) = None /\ aget R (ct_ov s) = None /\ aget R (cd s) = None /\ aget R (cs s) = None /\
    aget R (hd s) = None /\
    (forall o, tget2 R o (kv_chunk s) = None) /\ (forall o, tget2 R o (kv_disc s) = None) /\
    (forall o, tget2 R o (kv_srcc s) = None) /\ (forall o, tget2 R o (kv_srcp s) = None).

  Lemma delete_clears ops s R removed s' : run_ok U self true init ops = Some s -> Forall (legal U self) ops ->
    step U self true s (ODel R removed true) = (s', ROk) -> no_record s' R.
  Proof.
    intros H Hl Hs. destruct (reach_inv ops s H Hl) as [I D].
    cbn [step] in Hs. rewrite del_file_unfold in Hs. destruct (trav U (store s) R) as [f|]; [|discriminate].
    pose proof (init_chunk_pyramid_frame U s R) as F.
    destruct (init_chunk_pyramid U s R) as [s0 okp]. cbn [fst] in F.
    pose proof (disc_ok_same3 _ _ (frame_same3 U _ _ F) D) as D0.
    destruct okp; cbn [negb] in Hs; [|discriminate].
    unfold del_file_tail in Hs. cbn [negb] in Hs. injection Hs as <-. cbn. unfold no_record. cbn.
    repeat split; try apply aget_adel_eq; intros o; try apply tget2_adel_eq.
    fold (del_keys R (inner R (cd s0)) (kv_disc s0)).
    destruct (tget2 R o (del_keys R (inner R (cd s0)) (kv_disc s0))) eqn:E; [|reflexivity].
    assert (Hn : tget2 R o (del_keys R (inner R (cd s0)) (kv_disc s0)) <> None) by congruence.
    apply del_keys_sub in Hn. apply D0 in Hn. rewrite tget2_inner in Hn.
    rewrite (del_keys_gone R _ _ _ Hn) in E. discriminate.
  Qed.

  (** DelFile succeeds whenever the file can still be walked and the closure does not fail *)
  Lemma delete_succeeds s R removed : trav U (store s) R <> None ->
    snd (step U self true s (ODel R removed true)) = ROk.
  Proof.
    intros Ht. cbn [step]. rewrite del_file_unfold.
    pose proof (init_chunk_pyramid_succeeds U s R Ht) as Hs.
    destruct (trav U (store s) R); [|contradiction].
    destruct (init_chunk_pyramid U s R) as [s0 okp]. cbn [snd] in Hs. subst okp. reflexivity.
  Qed.
End Proofs.
