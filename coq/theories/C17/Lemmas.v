(** C17 — basic lemmas: association lists, two-level tables, address sets, the pyramid
    index map, and the facts about C39 bit vectors that the invariants need. *)
From Coq Require Import List NArith ZArith Bool Lia.
Import ListNotations.
Require Import Aurora.C39.Model Aurora.C39.Proofs.
Require Import Aurora.C17.Model.
Local Open Scope N_scope.

(** ---- association lists ---- *)
Section AL.
  Context {V : Type}.
  Implicit Types (l : list (N * V)).

  Lemma aget_aset_eq k v l : aget k (aset k v l) = Some v.
  Proof.
    induction l as [|[k' v'] t IH]; cbn [aset aget].
    - now rewrite N.eqb_refl.
    - destruct (k =? k') eqn:E; cbn [aget].
      + now rewrite N.eqb_refl.
      + destruct (k <? k'); cbn [aget]; [now rewrite N.eqb_refl | now rewrite E].
  Qed.

  Lemma aget_aset_ne k k' v l : k <> k' -> aget k' (aset k v l) = aget k' l.
  Proof.
    intros Hne. induction l as [|[k0 v0] t IH]; cbn [aset aget].
    - destruct (k' =? k) eqn:E; [apply N.eqb_eq in E; congruence | reflexivity].
    - destruct (k =? k0) eqn:E; cbn [aget].
      + apply N.eqb_eq in E; subst k0.
        destruct (k' =? k) eqn:E2; [apply N.eqb_eq in E2; congruence | reflexivity].
      + destruct (k <? k0); cbn [aget].
        * destruct (k' =? k) eqn:E2; [apply N.eqb_eq in E2; congruence | reflexivity].
        * destruct (k' =? k0); [reflexivity | apply IH].
  Qed.

  Lemma aget_adel_eq k l : aget k (adel k l) = None.
  Proof.
    induction l as [|[k' v'] t IH]; cbn [adel aget]; [reflexivity|].
    destruct (k =? k') eqn:E; [apply IH | cbn [aget]; now rewrite E].
  Qed.

  Lemma aget_adel_ne k k' l : k <> k' -> aget k' (adel k l) = aget k' l.
  Proof.
    intros Hne. induction l as [|[k0 v0] t IH]; cbn [adel aget]; [reflexivity|].
    destruct (k =? k0) eqn:E.
    - apply N.eqb_eq in E; subst k0.
      destruct (k' =? k) eqn:E2; [apply N.eqb_eq in E2; congruence | apply IH].
    - cbn [aget]. destruct (k' =? k0); [reflexivity | apply IH].
  Qed.

  Lemma adel_nil_aget k k' l : adel k l = [] -> k <> k' -> aget k' l = None.
  Proof.
    intros H Hne. induction l as [|[k0 v0] t IH]; [reflexivity|].
    cbn [adel] in H. destruct (k =? k0) eqn:E; [|discriminate].
    apply N.eqb_eq in E; subst k0. cbn [aget].
    destruct (k' =? k) eqn:E2; [apply N.eqb_eq in E2; congruence | now apply IH].
  Qed.

  Lemma aget_app k l1 l2 :
    aget k (l1 ++ l2) = match aget k l1 with Some v => Some v | None => aget k l2 end.
  Proof.
    induction l1 as [|[k0 v0] t IH]; cbn [app aget]; [reflexivity|].
    destruct (k =? k0); [reflexivity | apply IH].
  Qed.

  Lemma aget_nth k v l : aget k l = Some v -> exists i, nth_error l i = Some (k, v).
  Proof.
    induction l as [|[k0 v0] t IH]; cbn [aget]; [discriminate|].
    destruct (k =? k0) eqn:E.
    - intros H; inversion H; subst. apply N.eqb_eq in E; subst. now exists 0%nat.
    - intros H. destruct (IH H) as [i Hi]. now exists (S i).
  Qed.

  Lemma aget_in k v l : aget k l = Some v -> In (k, v) l.
  Proof. intros H. destruct (aget_nth _ _ _ H) as [i Hi]. eapply nth_error_In; eauto. Qed.
End AL.

(** ---- two-level tables ---- *)
Section TAB.
  Context {V : Type}.
  Implicit Types (t : tab V).

  Lemma tget2_tset2_eq R o v t : tget2 R o (tset2 R o v t) = Some v.
  Proof. unfold tget2, tset2. rewrite aget_aset_eq. apply aget_aset_eq. Qed.

  Lemma tget2_tset2_ne R o R' o' v t : (R, o) <> (R', o') -> tget2 R' o' (tset2 R o v t) = tget2 R' o' t.
  Proof.
    intros Hne. unfold tget2, tset2.
    destruct (N.eq_dec R R') as [->|HR].
    - rewrite aget_aset_eq. rewrite aget_aset_ne by congruence.
      unfold inner. destruct (aget R' t); reflexivity.
    - now rewrite aget_aset_ne.
  Qed.

  Lemma tget2_adel_eq R o t : tget2 R o (adel R t) = None.
  Proof. unfold tget2. now rewrite aget_adel_eq. Qed.

  Lemma tget2_adel_ne R R' o t : R <> R' -> tget2 R' o (adel R t) = tget2 R' o t.
  Proof. intros H. unfold tget2. now rewrite aget_adel_ne. Qed.

  Lemma tget2_tdel2_eq R o t : tget2 R o (tdel2 R o t) = None.
  Proof.
    unfold tdel2, tget2. destruct (aget R t) as [m|] eqn:E; [|now rewrite E].
    destruct (adel o m) eqn:E2.
    - now rewrite aget_adel_eq.
    - rewrite aget_aset_eq, <- E2. apply aget_adel_eq.
  Qed.

  Lemma tget2_tdel2_ne R o R' o' t : (R, o) <> (R', o') -> tget2 R' o' (tdel2 R o t) = tget2 R' o' t.
  Proof.
    intros Hne. unfold tdel2, tget2. destruct (aget R t) as [m|] eqn:E; [|reflexivity].
    destruct (N.eq_dec R R') as [->|HR].
    - rewrite E. assert (Ho : o <> o') by congruence.
      destruct (adel o m) eqn:E2.
      + rewrite aget_adel_eq. symmetry. eapply adel_nil_aget; eauto.
      + rewrite aget_aset_eq, <- E2. now apply aget_adel_ne.
    - destruct (adel o m); [now rewrite aget_adel_ne | now rewrite aget_aset_ne].
  Qed.

  Lemma tget2_some_aget R o v t : tget2 R o t = Some v -> aget R t <> None.
  Proof. unfold tget2. destruct (aget R t); [discriminate | discriminate]. Qed.

  Lemma tget2_inner R o t : tget2 R o t = aget o (inner R t).
  Proof. unfold tget2, inner. destruct (aget R t); reflexivity. Qed.
End TAB.

(** ---- address sets ---- *)
Lemma smem_sadd c c' l : smem c (sadd c' l) = (c =? c') || smem c l.
Proof.
  induction l as [|x t IH]; cbn [sadd smem]; [reflexivity|].
  destruct (c' =? x) eqn:E.
  - apply N.eqb_eq in E; subst. cbn [smem]. destruct (c =? x); reflexivity.
  - destruct (c' <? x); cbn [smem]; [reflexivity|].
    rewrite IH. destruct (c =? x), (c =? c'); reflexivity.
Qed.

Lemma smem_sadd_all c cs : forall l, smem c (sadd_all cs l) = existsb (N.eqb c) cs || smem c l.
Proof.
  unfold sadd_all. induction cs as [|x t IH]; intros l; cbn [fold_left existsb]; [reflexivity|].
  rewrite IH, smem_sadd. destruct (c =? x), (existsb (N.eqb c) t); reflexivity.
Qed.

Lemma smem_sadd_all_mono c cs l : smem c l = true -> smem c (sadd_all cs l) = true.
Proof. intros H. rewrite smem_sadd_all, H. apply orb_true_r. Qed.

Lemma smem_sadd_all_in c cs l : In c cs -> smem c (sadd_all cs l) = true.
Proof.
  intros H. rewrite smem_sadd_all. apply orb_true_iff; left. apply existsb_exists.
  exists c; split; [assumption | apply N.eqb_refl].
Qed.

Lemma smem_sdel c c' l : smem c (sdel c' l) = negb (c =? c') && smem c l.
Proof.
  induction l as [|x t IH]; cbn [sdel smem]; [now rewrite andb_false_r|].
  destruct (c' =? x) eqn:E.
  - apply N.eqb_eq in E; subst. rewrite IH. destruct (c =? x); reflexivity.
  - cbn [smem]. rewrite IH. destruct (c =? x) eqn:E2; [|reflexivity].
    apply N.eqb_eq in E2; subst. rewrite N.eqb_sym, E. reflexivity.
Qed.

Lemma smem_sdel_all c cs : forall l, smem c (sdel_all cs l) = negb (existsb (N.eqb c) cs) && smem c l.
Proof.
  unfold sdel_all. induction cs as [|x t IH]; intros l; cbn [fold_left existsb]; [reflexivity|].
  rewrite IH, smem_sdel. destruct (c =? x), (existsb (N.eqb c) t); reflexivity.
Qed.

Lemma smem_sdel_all_keep c cs l : ~ In c cs -> smem c l = true -> smem c (sdel_all cs l) = true.
Proof.
  intros Hn H. rewrite smem_sdel_all, H, andb_true_r. apply negb_true_iff.
  destruct (existsb (N.eqb c) cs) eqn:E; [|reflexivity].
  apply existsb_exists in E as [x [Hx Hq]]. apply N.eqb_eq in Hq; subst. contradiction.
Qed.

Lemma smem_sdel_all_sub c cs l : smem c (sdel_all cs l) = true -> smem c l = true.
Proof. rewrite smem_sdel_all. intros H. now apply andb_true_iff in H. Qed.

Lemma smem_In c l : smem c l = true <-> In c l.
Proof.
  induction l as [|x t IH]; cbn [smem In]; [split; [discriminate | tauto]|].
  rewrite orb_true_iff, IH, N.eqb_eq. split; intros [H|H]; auto.
Qed.

(** ---- the pyramid index map ---- *)
Definition idx_ok (py : list (addr * Z)) : Prop :=
  forall i x v, nth_error py i = Some (x, v) -> v = Z.of_nat i.

Lemma build_py_idx xs : forall py s,
  idx_ok py -> s = Z.of_nat (length py) -> idx_ok (build_py xs py s).
Proof.
  induction xs as [|x t IH]; intros py s Hok Hs; cbn [build_py]; [assumption|].
  destruct (aget x py); [now apply IH|].
  apply IH.
  - intros i y v Hi. destruct (Nat.lt_ge_cases i (length py)) as [Hlt|Hge].
    + rewrite nth_error_app1 in Hi by assumption. eapply Hok; eauto.
    + rewrite nth_error_app2 in Hi by assumption.
      destruct (i - length py)%nat eqn:E; cbn in Hi.
      * inversion Hi; subst. f_equal. lia.
      * destruct n; discriminate.
  - rewrite app_length, Nat2Z.inj_add. cbn [length]. lia.
Qed.

(** the index the map gives to a data chunk is its position in [uniq] *)
Lemma cid_index f cid v : aget cid (pyramid_cids f) = Some v ->
  (0 <= v < Z.of_nat (length (uniq f)))%Z /\ nth_error (uniq f) (Z.to_nat v) = Some cid.
Proof.
  intros H. destruct (aget_nth _ _ _ H) as [i Hi].
  assert (Hok : idx_ok (pyramid_cids f)) by (apply build_py_idx; [intros [|?] ? ? Hq; discriminate | reflexivity]).
  pose proof (Hok _ _ _ Hi) as ->.
  assert (Hlt : (i < length (pyramid_cids f))%nat).
  { apply (proj1 (nth_error_Some _ _)). intros Hn. pose proof (eq_trans (eq_sym Hi) Hn) as Hc. discriminate Hc. }
  unfold uniq. rewrite map_length. split; [lia|].
  rewrite Nat2Z.id. rewrite nth_error_map. change (option_map fst (nth_error (pyramid_cids f) i) = Some cid).
  rewrite Hi. reflexivity.
Qed.

(** [updateChunkPyramid] counts as many distinct data chunks as the index map has entries *)
Lemma ucp_data_cm xs : forall py t cm pyb,
  (forall x, smem x py = match aget x pyb with Some _ => true | None => false end) ->
  cm = Z.of_nat (length pyb) ->
  snd (ucp_data xs py t cm) = Z.of_nat (length (build_py xs pyb cm)).
Proof.
  induction xs as [|x r IH]; intros py t cm pyb Hrel Hcm; cbn [ucp_data build_py snd]; [assumption|].
  rewrite (Hrel x). destruct (aget x pyb) eqn:E; [now apply IH|].
  apply IH.
  - intros y. cbn [smem]. rewrite aget_app, (Hrel y). destruct (aget y pyb); [apply orb_true_r|].
    cbn [aget]. rewrite orb_false_r. destruct (y =? x); reflexivity.
  - rewrite app_length, Nat2Z.inj_add. cbn [length]. lia.
Qed.

Lemma update_chunk_pyramid_hd s R f :
  exists hm, hd (update_chunk_pyramid s R (f_hashes f) (f_trie f)) = aset R (hm, Z.of_nat (length (uniq f))) (hd s).
Proof.
  unfold update_chunk_pyramid.
  pose proof (ucp_data_cm (concat (f_hashes f)) [] (cc s) 0%Z [] (fun x => eq_refl) eq_refl) as Hcm.
  destruct (ucp_data (concat (f_hashes f)) [] (cc s) 0%Z) as [[py t1] cm]. cbn [snd] in Hcm.
  destruct (ucp_trie (f_trie f) py t1 0%Z) as [t2 hm]. exists hm. cbn.
  unfold uniq, pyramid_cids. rewrite map_length. now rewrite Hcm.
Qed.

Lemma update_chunk_pyramid_fields s R hs tr :
  let s' := update_chunk_pyramid s R hs tr in
  store s' = store s /\ kv_chunk s' = kv_chunk s /\ kv_disc s' = kv_disc s /\ ct s' = ct s /\ cd s' = cd s /\
  kv_srcc s' = kv_srcc s /\ kv_srcp s' = kv_srcp s /\ cs s' = cs s /\ ct_ov s' = ct_ov s.
Proof.
  unfold update_chunk_pyramid.
  destruct (ucp_data (concat hs) [] (cc s) 0%Z) as [[py t1] cm].
  destruct (ucp_trie tr py t1 0%Z) as [t2 hm]. cbn. repeat split.
Qed.

(** ---- bit vectors: what is needed of C39 ---- *)
Local Open Scope Z_scope.

(** a vector that [NewFromBytes] accepts again after a restart *)
Definition okbv (b : bv) : Prop := 0 < blen b <= 8 * Z.of_nat (length (bb b)).

Lemma okbv_reload b : okbv b -> new_from_bytes (bytes b) (len b) = Ok b.
Proof. intros H. unfold bytes, len. rewrite new_from_bytes_ok by exact H. now destruct b. Qed.

Lemma wf_okbv b : wf b -> okbv b.
Proof. intros (H1 & H2 & _). split; assumption. Qed.

Lemma set_shape b i val b' : set b i val = Ok b' -> blen b' = blen b /\ length (bb b') = length (bb b).
Proof.
  unfold set. destruct (get b i); try discriminate.
  destruct (Bool.eqb a val); [intros H; inversion H; subst; auto|].
  destruct (idx (bb b) (Z.quot i 8)); [|discriminate].
  intros H; inversion H; subst; cbn. split; [reflexivity | apply upd_length].
Qed.

Lemma set_okbv b i val b' : okbv b -> set b i val = Ok b' -> okbv b'.
Proof. intros H Hs. apply set_shape in Hs as [H1 H2]. unfold okbv. now rewrite H1, H2. Qed.

Lemma mask_loop_shape val bs : forall fuel i v v',
  mask_loop val bs v i fuel = Ok v' -> blen v' = blen v /\ length (bb v') = length (bb v).
Proof.
  induction fuel as [|f IH]; intros i v v'; cbn [mask_loop].
  - intros H; inversion H; subst; auto.
  - destruct (idx bs (Z.quot (Z.of_nat i) 8)); [|discriminate].
    destruct (0 <? N.land n (mask (Z.of_nat i)))%N.
    + destruct (set v (Z.of_nat i) val) eqn:Es; try discriminate.
      intros H. apply IH in H as [H1 H2]. apply set_shape in Es as [H3 H4]. split; congruence.
    + apply IH.
Qed.

Lemma set_bytes_okbv b m b' : okbv b -> set_bytes b m = Ok b' -> okbv b'.
Proof.
  unfold set_bytes, set_bytes_gen. intros H. destruct (negb _); [discriminate|].
  intros Hs. apply mask_loop_shape in Hs as [H1 H2]. unfold okbv. now rewrite H1, H2.
Qed.

Lemma new_from_bytes_okbv m l b : new_from_bytes m l = Ok b -> okbv b.
Proof. intros H. apply new_from_bytes_inv in H. unfold okbv. destruct H as (-> & H); cbn. tauto. Qed.

(** a fresh vector of [l] bits: well-formed, no bit set *)
Lemma new_fresh l b : 1 <= l -> new l = Ok b ->
  wf b /\ blen b = l /\ forall i, 0 <= i < l -> get b i = Ok false.
Proof.
  intros Hl Hn. destruct (new_ok l Hl) as (Hq & Hwf & Habs). rewrite Hq in Hn. inversion Hn; subst b; clear Hn.
  split; [assumption|]. split; [reflexivity|]. intros i Hi.
  destruct (get_set_thm _ i true Hwf) as [Hg _]; [cbn; lia|].
  rewrite Hg, Habs. f_equal. apply nth_repeat.
Qed.

(** setting bit [i] (in range) of a well-formed vector: well-formed, same length, and a
    bit that reads true afterwards is [i] or read true before *)
Lemma set_true_spec b i b' : wf b -> 0 <= i < blen b -> set b i true = Ok b' ->
  wf b' /\ blen b' = blen b /\
  forall j, 0 <= j < blen b -> get b' j = Ok true -> j = i \/ get b j = Ok true.
Proof.
  intros Hwf Hi Hs.
  destruct (get_set_thm b i true Hwf Hi) as [_ (v' & Hs' & Hwf' & Hlen & _ & _ & Hget)].
  rewrite Hs in Hs'. inversion Hs'; subst v'; clear Hs'.
  split; [assumption|]. split; [exact Hlen|]. intros j Hj Hg.
  rewrite (Hget j Hj) in Hg. destruct (j =? i) eqn:E; [left; now apply Z.eqb_eq|].
  right. destruct (get_set_thm b j true Hwf Hj) as [Hgj _]. rewrite Hgj. exact Hg.
Qed.
