(** C17 — property theorems only.  The model (Model.v) is the code of pkg/chunkinfo and
    pkg/netstore with proposed/C17/fix-cidsort-membership.patch applied ([fx = true]).

    Reading guide.  [U] describes what the traversal service answers per root ([wf_universe]:
    two facts about it that the harness checks of every universe it builds).  A history is a
    list of calls; [run_ok] is the state after it provided no call panicked (a Go panic ends the
    process).  [legal] restricts histories to the property's quantifier: OnChunkTransferred names
    a receiver other than the node itself, and the closure handed to DelFile removes only chunks
    that no other root of the universe uses (and nothing when it fails).  Bit [i] of a vector of
    root [R] stands for [nth i (uniq f)], the i-th distinct data chunk of the file. *)
From Coq Require Import List NArith ZArith Bool.
Import ListNotations.
Require Import Aurora.C17.Model Aurora.C17.Inv Aurora.C17.Steps Aurora.C17.Proofs.
Local Open Scope N_scope.

(** a data chunk is marked present, in the node's own vector in memory or persisted (the
    vector it also advertises), only if that chunk is stored *)
Theorem C17_no_overclaim : forall (U : universe) (self : addr) (ops : list op) (s : st),
  wf_universe U -> Forall (legal U self) ops -> run_ok U self true init ops = Some s ->
  forall R b i, tget2 R self (ct s) = Some b \/ tget2 R self (kv_chunk s) = Some b ->
    (0 <= i < BV.len b)%Z -> BV.get b i = BV.Ok true ->
    exists f c, aget R U = Some f /\ nth_error (uniq f) (Z.to_nat i) = Some c /\ smem c (store s) = true.
Proof. intros U self ops s W L H. exact (no_overclaim U self W ops s H L). Qed.
Print Assumptions C17_no_overclaim.

(** the file is reported fully downloaded only if every data chunk is stored *)
Theorem C17_download_flag : forall (U : universe) (self : addr) (ops : list op) (s : st),
  wf_universe U -> Forall (legal U self) ops -> run_ok U self true init ops = Some s ->
  forall R, is_download self s R = BV.Ok true ->
    exists f, aget R U = Some f /\ forall c, In c (concat (f_hashes f)) -> smem c (store s) = true.
Proof. intros U self ops s W L H. exact (download_flag U self W ops s H L). Qed.
Print Assumptions C17_download_flag.

(** after DelFile has returned without error no presence, overlay-list, discover, source or
    pyramid record of the root remains in memory, and no key of the four persisted tables *)
Theorem C17_delete_clears : forall (U : universe) (self : addr) (ops : list op) (s s' : st) R removed,
  wf_universe U -> Forall (legal U self) ops -> run_ok U self true init ops = Some s ->
  step U self true s (ODel R removed true) = (s', ROk) -> no_record s' R.
Proof. intros U self ops s s' R removed W L H. exact (delete_clears U self W ops s R removed s' H L). Qed.
Print Assumptions C17_delete_clears.

(** and DelFile does return without error whenever the file can be walked *)
Theorem C17_delete_succeeds : forall (U : universe) (self : addr) (s : st) R removed,
  trav U (store s) R <> None -> snd (step U self true s (ODel R removed true)) = ROk.
Proof. exact delete_succeeds. Qed.
Print Assumptions C17_delete_succeeds.

(** the defect the repair removes (F-cidsort-default): with the code as it was ([fx = false]),
    after a pyramid exchange a local read of the intermediate chunk of a two-chunk file under
    the file context marks data chunk 0 present although it is not stored *)
Definition wU : universe := [(1, mkf [1; 2] [[3; 4]] [] [1; 2] true)].
Definition wops : list op := [OPyramid 1 9 []; OGet 1 2 0 false].
Theorem C17_cidsort_default_defect :
  wf_universe wU /\ Forall (legal wU 7) wops /\
  exists s b, run_ok wU 7 false init wops = Some s /\ tget2 1 7 (ct s) = Some b /\
    BV.get b 0 = BV.Ok true /\ nth_error (uniq (mkf [1; 2] [[3; 4]] [] [1; 2] true)) 0 = Some 3 /\
    smem 3 (store s) = false.
Proof.
  split; [|split].
  - intros R f H. cbn in H. destruct (R =? 1) eqn:E; [|discriminate]. injection H as <-. cbn.
    split; [intros _ x Hx; exact Hx | intros x []].
  - repeat constructor.
  - eexists. eexists. vm_compute. repeat split.
Qed.
Print Assumptions C17_cidsort_default_defect.

(** non-vacuity: on the same universe the repaired code leaves the vector empty after the same
    two calls; after the two data chunks have been retrieved from a peer both bits are set, the
    file is reported downloaded, all hypotheses of the theorems hold, and a legal DelFile
    (removing the four chunks of the file) succeeds *)
Example C17_hyps_satisfiable :
  let ops := wops ++ [OGet 1 3 9 false; OGet 1 4 9 false; OReinit] in
  Forall (legal wU 7) (ops ++ [ODel 1 [1; 2; 3; 4] true]) /\
  (exists s b, run_ok wU 7 true init wops = Some s /\ tget2 1 7 (ct s) = Some b /\ BV.get b 0 = BV.Ok false) /\
  exists s b, run_ok wU 7 true init ops = Some s /\ tget2 1 7 (ct s) = Some b /\
    BV.get b 0 = BV.Ok true /\ BV.get b 1 = BV.Ok true /\ is_download 7 s 1 = BV.Ok true /\
    snd (step wU 7 true s (ODel 1 [1; 2; 3; 4] true)) = ROk.
Proof.
  split; [|split].
  - repeat (apply Forall_cons; [cbn; try exact I|]); [|apply Forall_nil].
    split; [discriminate|]. intros x R' f' _ H Hne. cbn in H.
    destruct (R' =? 1) eqn:E; [apply N.eqb_eq in E; congruence | discriminate].
  - eexists. eexists. vm_compute. repeat split.
  - eexists. eexists. vm_compute. repeat split.
Qed.
