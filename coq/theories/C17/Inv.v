(** C17 — the invariant of the node state and its preservation by the building blocks
    (repaired code, [fx = true]). *)
From Coq Require Import List NArith ZArith Bool Lia.
Import ListNotations.
Require Import Aurora.C39.Model Aurora.C39.Proofs.
Require Import Aurora.C17.Model Aurora.C17.Lemmas.
Local Open Scope N_scope.

Definition sub (a b : list addr) : Prop := forall c, smem c a = true -> smem c b = true.
Lemma sub_refl a : sub a a. Proof. intros c H; exact H. Qed.
Lemma sub_trans a b c : sub a b -> sub b c -> sub a c. Proof. intros H1 H2 x Hx. auto. Qed.
Lemma sub_sadd_all cs l : sub l (sadd_all cs l).
Proof. intros c H. now apply smem_sadd_all_mono. Qed.
Lemma sub_sadd c l : sub l (sadd c l).
Proof. intros x H. rewrite smem_sadd, H. apply orb_true_r. Qed.

(** membership in the flattened form of a persisted table *)
Section FLAT.
  Context {V : Type}.
  Implicit Types (t : tab V).

  Lemma in_flat R o v t : In (R, o, v) (flat t) <-> exists m, In (R, m) t /\ In (o, v) m.
  Proof.
    unfold flat. rewrite in_flat_map. split.
    - intros [[R' m] [Hin Hm]]. cbn [fst snd] in Hm. apply in_map_iff in Hm as [[o' v'] [Hq Ho]].
      cbn [fst snd] in Hq. inversion Hq; subst. eauto.
    - intros [m [Hin Hm]]. exists (R, m). split; [assumption|]. cbn [fst snd].
      apply in_map_iff. exists (o, v). auto.
  Qed.

  Lemma in_aset {W} k (x : W) k' x' l : In (k', x') (aset k x l) -> (k', x') = (k, x) \/ In (k', x') l.
  Proof.
    induction l as [|[k0 x0] r IH]; cbn [aset].
    - intros [H|[]]; auto.
    - destruct (k =? k0).
      + intros [H|H]; [auto | right; now right].
      + destruct (k <? k0).
        * intros [H|H]; auto.
        * intros [H|H]; [right; now left|]. destruct (IH H); [auto | right; now right].
  Qed.

  Lemma in_adel {W} k k' (x' : W) l : In (k', x') (adel k l) -> In (k', x') l /\ k' <> k.
  Proof.
    induction l as [|[k0 x0] r IH]; cbn [adel]; [intros []|].
    destruct (k =? k0) eqn:E.
    - intros H. destruct (IH H). split; [now right | assumption].
    - intros [H|H].
      + inversion H; subst. split; [now left|]. intros ->. now rewrite N.eqb_refl in E.
      + destruct (IH H). split; [now right | assumption].
  Qed.

  Lemma tget2_in_flat R o v t : tget2 R o t = Some v -> In (R, o, v) (flat t).
  Proof.
    unfold tget2. destruct (aget R t) as [m|] eqn:E; [|discriminate].
    intros H. apply in_flat. exists m. split; [now apply aget_in | now apply aget_in].
  Qed.

  Lemma in_flat_tset2 R o v R0 o0 v0 t :
    In (R, o, v) (flat (tset2 R0 o0 v0 t)) -> (R, o, v) = (R0, o0, v0) \/ In (R, o, v) (flat t).
  Proof.
    intros H. apply in_flat in H as [m [Hm Hov]]. unfold tset2 in Hm.
    apply in_aset in Hm as [Hq|Hm].
    - inversion Hq; subst. apply in_aset in Hov as [Hq2|Hov].
      + inversion Hq2; subst. now left.
      + right. unfold inner in Hov. destruct (aget R0 t) as [m0|] eqn:E; [|destruct Hov].
        apply in_flat. exists m0. split; [now apply aget_in | assumption].
    - right. apply in_flat. eauto.
  Qed.

  Lemma in_flat_adel R o v R0 t : In (R, o, v) (flat (adel R0 t)) -> In (R, o, v) (flat t) /\ R <> R0.
  Proof.
    intros H. apply in_flat in H as [m [Hm Hov]]. apply in_adel in Hm as [Hm Hne].
    split; [apply in_flat; eauto | assumption].
  Qed.

  Lemma in_flat_tdel2 R o v R0 o0 t : In (R, o, v) (flat (tdel2 R0 o0 t)) -> In (R, o, v) (flat t).
  Proof.
    unfold tdel2. destruct (aget R0 t) as [m0|] eqn:E; [|auto].
    destruct (adel o0 m0) eqn:E2.
    - intros H. now apply in_flat_adel in H.
    - rewrite <- E2. intros H. apply in_flat in H as [m [Hm Hov]].
      apply in_aset in Hm as [Hq|Hm].
      + inversion Hq; subst. apply in_adel in Hov as [Hov _].
        apply in_flat. exists m0. split; [now apply aget_in | assumption].
      + apply in_flat. eauto.
  Qed.
End FLAT.

Lemma tget2_aset_nil {V} R R' o' (t : tab V) : aget R t = None -> tget2 R' o' (aset R [] t) = tget2 R' o' t.
Proof.
  intros H. unfold tget2. destruct (N.eq_dec R R') as [->|Hne].
  - now rewrite aget_aset_eq, H.
  - now rewrite aget_aset_ne.
Qed.

Lemma sdel_all_nil l : sdel_all [] l = l. Proof. reflexivity. Qed.

(** data chunks named by the index map occur in the data-chunk lists, and conversely *)
Lemma build_py_keys xs : forall py s x v, In (x, v) (build_py xs py s) -> In (x, v) py \/ In x xs.
Proof.
  induction xs as [|y r IH]; intros py s x v; cbn [build_py]; [auto|].
  destruct (aget y py).
  - intros H. destruct (IH _ _ _ _ H); [auto | right; now right].
  - intros H. destruct (IH _ _ _ _ H) as [Hi|Hi]; [|right; now right].
    apply in_app_or in Hi as [Hi|[Hi|[]]]; [auto|]. inversion Hi; subst. right; now left.
Qed.
Lemma uniq_in f c : In c (uniq f) -> In c (concat (f_hashes f)).
Proof.
  unfold uniq. intros H. apply in_map_iff in H as [[x v] [Hq Hin]]. cbn in Hq; subst x.
  destruct (build_py_keys _ _ _ _ _ Hin) as [[]|H]; assumption.
Qed.
Lemma build_py_complete xs : forall py s x, (In x xs \/ aget x py <> None) -> aget x (build_py xs py s) <> None.
Proof.
  induction xs as [|y r IH]; intros py s x; cbn [build_py].
  - intros [[]|H]; assumption.
  - intros H. destruct (aget y py) eqn:E.
    + apply IH. destruct H as [[->|H]|H]; [right; congruence | now left | now right].
    + apply IH. destruct H as [[->|H]|H]; [right | now left | right].
      * rewrite aget_app, E. cbn [aget]. now rewrite N.eqb_refl.
      * rewrite aget_app. destruct (aget x py); [discriminate | contradiction].
Qed.
Lemma uniq_complete f c : In c (concat (f_hashes f)) -> In c (uniq f).
Proof.
  intros H. pose proof (build_py_complete (concat (f_hashes f)) [] 0%Z c (or_introl H)) as Hn.
  fold (pyramid_cids f) in Hn. destruct (aget c (pyramid_cids f)) as [v|] eqn:E; [|contradiction].
  apply aget_in in E. unfold uniq. apply in_map_iff. exists (c, v). auto.
Qed.

Section Inv.
  Variable U : universe.
  Variable self : addr.

  (** what the theorems assume of a universe (the harness checks it of every universe it builds):
      a root a receiver can walk from the pyramid alone is walked locally by reading pyramid
      entries only, and the single-chunk pieces reported to a receiver are pyramid entries *)
  Definition wf_universe : Prop :=
    forall R f, aget R U = Some f ->
      (f_rcv f = true -> incl (f_need f) (f_trie f)) /\ incl (f_pieces f) (f_trie f).
  Hypothesis wfU : wf_universe.

  Lemma trav_some stv R f : trav U stv R = Some f -> aget R U = Some f.
  Proof. unfold trav. destruct (aget R U); [|discriminate]. destruct (forallb _ _); congruence. Qed.
  Lemma trav_mono stv stv' R f : sub stv stv' -> trav U stv R = Some f -> trav U stv' R = Some f.
  Proof.
    unfold trav. intros Hs. destruct (aget R U) as [g|]; [|discriminate].
    destruct (forallb (fun c => smem c stv) (f_need g)) eqn:E; [|discriminate].
    intros H. replace (forallb (fun c => smem c stv') (f_need g)) with true; [assumption|].
    symmetry. apply forallb_forall. intros x Hx. rewrite forallb_forall in E. auto.
  Qed.
  Lemma trav_intro stv R f : aget R U = Some f -> (forall c, In c (f_need f) -> smem c stv = true) ->
    trav U stv R = Some f.
  Proof.
    intros H Hall. unfold trav. rewrite H.
    replace (forallb (fun c => smem c stv) (f_need f)) with true; [reflexivity|].
    symmetry. now apply forallb_forall.
  Qed.
  Lemma trav_need stv R f c : trav U stv R = Some f -> In c (f_need f) -> smem c stv = true.
  Proof.
    unfold trav. destruct (aget R U) as [g|]; [|discriminate].
    destruct (forallb (fun c => smem c stv) (f_need g)) eqn:E; [|discriminate].
    intros H; inversion H; subst. rewrite forallb_forall in E. auto.
  Qed.

  (** the claim a presence vector of the node itself makes, against a set of chunks [stv] *)
  Definition claim_ok (stv : list addr) (R : addr) (b : bv) : Prop :=
    exists f, aget R U = Some f /\ wf b /\ blen b = Z.of_nat (length (uniq f)) /\
      forall i, (0 <= i < blen b)%Z -> get b i = Ok true ->
        exists c, nth_error (uniq f) (Z.to_nat i) = Some c /\ smem c stv = true.

  Lemma claim_intro stv R b f : aget R U = Some f -> wf b -> blen b = Z.of_nat (length (uniq f)) ->
    (forall i, (0 <= i < blen b)%Z -> get b i = Ok true ->
       exists c, nth_error (uniq f) (Z.to_nat i) = Some c /\ smem c stv = true) -> claim_ok stv R b.
  Proof. intros. exists f. auto. Qed.

  Lemma claim_mono stv stv' R b : sub stv stv' -> claim_ok stv R b -> claim_ok stv' R b.
  Proof.
    intros Hs (f & H1 & H2 & H3 & H4). apply (claim_intro _ _ _ f); try assumption.
    intros i Hi Hg. destruct (H4 i Hi Hg) as (c & Hc & Hm). eauto.
  Qed.

  Record InvC (stv : list addr) (s : st) : Prop := mkInv {
    i_ct : forall R b, tget2 R self (ct s) = Some b -> claim_ok stv R b;
    i_kv : forall R b, In (R, self, b) (flat (kv_chunk s)) -> claim_ok stv R b;
    i_hd : forall R hm cm, aget R (hd s) = Some (hm, cm) ->
             exists f, aget R U = Some f /\ cm = Z.of_nat (length (uniq f));
    i_hd_trav : forall R, aget R (hd s) <> None -> trav U (store s) R <> None;
    i_cd_hd : forall R o, tget2 R o (cd s) <> None -> aget R (hd s) <> None;
    i_sub : sub (store s) stv }.

  Lemma Inv_init : InvC [] init.
  Proof. constructor; cbn; try (intros; discriminate); try (intros; contradiction); try (intros ? H; exact H). Qed.

  Lemma Inv_mono stv stv' s : sub stv stv' -> InvC stv s -> InvC stv' s.
  Proof.
    intros Hs I. destruct I. constructor; try assumption.
    - intros R b H. eapply claim_mono; eauto.
    - intros R b H. eapply claim_mono; eauto.
    - eapply sub_trans; eauto.
  Qed.

  (** ---- frames: steps that only extend the pyramid tables (and touch tables the invariant
      does not mention: source records, overlay lists, reference counts) ---- *)
  Definition hd_ext (s s' : st) : Prop :=
    forall R, aget R (hd s') = aget R (hd s) \/
      (aget R (hd s) = None /\ exists f hm, trav U (store s) R = Some f /\
         aget R (hd s') = Some (hm, Z.of_nat (length (uniq f)))).
  Definition frame (s s' : st) : Prop :=
    store s' = store s /\ kv_chunk s' = kv_chunk s /\ kv_disc s' = kv_disc s /\ ct s' = ct s /\
    cd s' = cd s /\ hd_ext s s'.

  Lemma frame_refl s : frame s s.
  Proof. unfold frame, hd_ext. repeat split; auto. Qed.
  Lemma frame_trans s1 s2 s3 : frame s1 s2 -> frame s2 s3 -> frame s1 s3.
  Proof.
    intros (A1 & A2 & A3 & A4 & A5 & A6) (B1 & B2 & B3 & B4 & B5 & B6).
    unfold frame. repeat split; try congruence.
    intros R. destruct (B6 R) as [Hb|(Hn & f & hm & Ht & Hb)].
    - rewrite Hb. apply A6.
    - destruct (A6 R) as [Ha|(Hn1 & f1 & hm1 & Ht1 & Ha)].
      + right. split; [congruence|]. exists f, hm. split; [congruence | assumption].
      + congruence.
  Qed.
  (** same on the six fields the invariant reads *)
  Lemma frame_eq s s' : store s' = store s -> kv_chunk s' = kv_chunk s -> kv_disc s' = kv_disc s ->
    ct s' = ct s -> cd s' = cd s -> hd s' = hd s -> frame s s'.
  Proof. intros. unfold frame, hd_ext. repeat split; try assumption. intros R; left; congruence. Qed.

  Lemma Inv_frame stv s s' : InvC stv s -> frame s s' -> InvC stv s'.
  Proof.
    intros I (F1 & F2 & F3 & F4 & F5 & F6). destruct I.
    constructor; rewrite ?F1, ?F2, ?F3, ?F4, ?F5; try assumption.
    - intros R hm cm H. destruct (F6 R) as [Hq|(Hn & f & hm' & Ht & Hq)].
      + rewrite Hq in H. eauto.
      + rewrite Hq in H. inversion H; subst. exists f. split; [eapply trav_some; eauto | reflexivity].
    - intros R H. destruct (F6 R) as [Hq|(Hn & f & hm' & Ht & Hq)].
      + rewrite Hq in H. auto.
      + rewrite Ht. discriminate.
    - intros R o H. destruct (F6 R) as [Hq|(Hn & f & hm' & Ht & Hq)].
      + rewrite Hq. eauto.
      + rewrite Hq. discriminate.
  Qed.

  Ltac frame_tac := unfold frame, hd_ext in *; cbn in *; intuition.

  Lemma frame_update_chunk_pyramid s R f :
    aget R (hd s) = None -> trav U (store s) R = Some f ->
    frame s (update_chunk_pyramid s R (f_hashes f) (f_trie f)).
  Proof.
    intros Hn Ht. destruct (update_chunk_pyramid_hd s R f) as [hm Hhd].
    destruct (update_chunk_pyramid_fields s R (f_hashes f) (f_trie f)) as (E1 & E2 & E3 & E4 & E5 & _).
    unfold frame. repeat split; try assumption.
    intros R'. rewrite Hhd. destruct (N.eq_dec R R') as [<-|Hne].
    - right. split; [assumption|]. exists f, hm. split; [assumption | apply aget_aset_eq].
    - left. now apply aget_aset_ne.
  Qed.

  Lemma get_chunk_size_frame s R : frame s (fst (get_chunk_size U s R)).
  Proof.
    unfold get_chunk_size. destruct (aget R (hd s)) as [[hm cm]|] eqn:E; [apply frame_refl|].
    destruct (trav U (store s) R) as [f|] eqn:Et; [|apply frame_refl].
    cbn [fst]. now apply frame_update_chunk_pyramid.
  Qed.

  Lemma get_chunk_size_nz stv s R : InvC stv s -> snd (get_chunk_size U s R) <> 0%Z ->
    exists f hm, aget R U = Some f /\ snd (get_chunk_size U s R) = Z.of_nat (length (uniq f)) /\
      aget R (hd (fst (get_chunk_size U s R))) = Some (hm, snd (get_chunk_size U s R)).
  Proof.
    intros I. unfold get_chunk_size. destruct (aget R (hd s)) as [[hm cm]|] eqn:E.
    - cbn [fst snd]. intros _. destruct (i_hd _ _ I _ _ _ E) as (f & Hf & ->). exists f, hm. auto.
    - destruct (trav U (store s) R) as [f|] eqn:Et; [|cbn; congruence].
      cbn [fst snd]. destruct (update_chunk_pyramid_hd s R f) as [hm Hhd]. rewrite Hhd, aget_aset_eq.
      intros _. exists f, hm. split; [eapply trav_some; eauto | auto].
  Qed.

  Lemma init_chunk_pyramid_frame s R : frame s (fst (init_chunk_pyramid U s R)).
  Proof.
    unfold init_chunk_pyramid. destruct (aget R (hd s)) eqn:E; [apply frame_refl|].
    destruct (trav U (store s) R) as [f|] eqn:Et; [|apply frame_refl].
    cbn [fst]. now apply frame_update_chunk_pyramid.
  Qed.
  Lemma init_chunk_pyramid_ok s R : snd (init_chunk_pyramid U s R) = true ->
    aget R (hd (fst (init_chunk_pyramid U s R))) <> None.
  Proof.
    unfold init_chunk_pyramid. destruct (aget R (hd s)) eqn:E; [cbn; congruence|].
    destruct (trav U (store s) R) as [f|] eqn:Et; [|cbn; discriminate].
    cbn [fst snd]. intros _. destruct (update_chunk_pyramid_hd s R f) as [hm Hhd]. rewrite Hhd, aget_aset_eq. discriminate.
  Qed.
  Lemma init_chunk_pyramid_succeeds s R : trav U (store s) R <> None -> snd (init_chunk_pyramid U s R) = true.
  Proof.
    unfold init_chunk_pyramid. destruct (aget R (hd s)); [reflexivity|].
    destruct (trav U (store s) R); [reflexivity | contradiction].
  Qed.

  (** ---- setting a presence vector in memory and in the state store ---- *)
  Lemma Inv_set_ct_kv stv s s' R o b :
    InvC stv s -> (o = self -> claim_ok stv R b) ->
    store s' = store s -> hd s' = hd s -> cd s' = cd s ->
    ct s' = tset2 R o b (ct s) -> kv_chunk s' = tset2 R o b (kv_chunk s) -> InvC stv s'.
  Proof.
    intros I Hcl E1 E2 E3 E5 E6. destruct I.
    constructor; rewrite ?E1, ?E2, ?E3, ?E5, ?E6; try assumption.
    - intros R' b' H. destruct (N.eq_dec R R') as [<-|Hne]; [destruct (N.eq_dec o self) as [->|Hno]|].
      + rewrite tget2_tset2_eq in H. inversion H; subst. auto.
      + rewrite tget2_tset2_ne in H by congruence. eauto.
      + rewrite tget2_tset2_ne in H by congruence. eauto.
    - intros R' b' H. apply in_flat_tset2 in H as [Hq|H]; [inversion Hq; subst; auto | eauto].
  Qed.

  (** steps that leave the chunk store and both discover tables alone *)
  Definition same3 (s s' : st) : Prop := store s' = store s /\ cd s' = cd s /\ kv_disc s' = kv_disc s.
  Lemma same3_refl s : same3 s s. Proof. repeat split. Qed.
  Lemma same3_trans s1 s2 s3 : same3 s1 s2 -> same3 s2 s3 -> same3 s1 s3.
  Proof. intros (A & B & C) (D & E & F). repeat split; congruence. Qed.
  Lemma frame_same3 s s' : frame s s' -> same3 s s'.
  Proof. intros (A & _ & C & _ & E & _). repeat split; assumption. Qed.

  (** [putChunkInfoNeighbor] *)
  Lemma put_neighbor_same s R o : same3 s (fst (put_neighbor U s R o)).
  Proof.
    unfold put_neighbor. pose proof (frame_same3 _ _ (get_chunk_size_frame s R)) as F.
    destruct (get_chunk_size U s R) as [s1 v]. cbn [fst] in F.
    destruct (v =? 0)%Z; [exact F|]. destruct (tget2 R o (ct s1)); [exact F|].
    destruct (BV.new v); exact F.
  Qed.

  Lemma put_neighbor_inv stv s R o s' r : put_neighbor U s R o = (s', r) -> InvC stv s ->
    InvC stv s' /\ (r = ROk -> tget2 R o (ct s') <> None).
  Proof.
    unfold put_neighbor. intros H I.
    pose proof (get_chunk_size_frame s R) as F. pose proof (get_chunk_size_nz stv s R I) as Hnz.
    destruct (get_chunk_size U s R) as [s1 v]. cbn [fst snd] in F, Hnz.
    pose proof (Inv_frame _ _ _ I F) as I1.
    destruct (v =? 0)%Z eqn:Ev.
    { injection H as <- <-. split; [assumption | discriminate]. }
    apply Z.eqb_neq in Ev. destruct (Hnz Ev) as (f & hm & Hf & Hv & Hhd).
    destruct (tget2 R o (ct s1)) eqn:Et.
    { injection H as <- <-. split; [assumption | intros _; congruence]. }
    destruct (BV.new v) as [b| |] eqn:En; injection H as <- <-; try (split; [assumption | discriminate]).
    assert (Hl : (1 <= v)%Z) by lia.
    destruct (new_fresh v b Hl En) as (Hwf & Hlen & Hbits).
    split.
    - eapply (Inv_set_ct_kv stv s1 _ R o b I1); try reflexivity.
      intros _. apply (claim_intro _ _ _ f); try assumption; try congruence.
        intros i Hi Hg. rewrite Hbits in Hg by lia. discriminate.
    - intros _. cbn. rewrite tget2_tset2_eq. discriminate.
  Qed.

  (** [updateNeighborChunkInfo] *)
  Lemma upd_neighbor_same s R cid o : same3 s (fst (upd_neighbor U true s R cid o)).
  Proof.
    unfold upd_neighbor. destruct (aget R (ct s)); [|apply same3_refl].
    pose proof (put_neighbor_same s R o) as Hs. destruct (put_neighbor U s R o) as [s1 r]. cbn [fst] in Hs.
    destruct r; try exact Hs. destruct (tget2 R o (ct s1)); [|exact Hs].
    destruct (cid_sort U s1 R cid) as [v found]. destruct (true && negb found); [exact Hs|].
    destruct (BV.set b v true); exact Hs.
  Qed.

  Lemma upd_neighbor_inv stv s R cid o s' r : upd_neighbor U true s R cid o = (s', r) -> InvC stv s ->
    (r = ROk -> o = self -> smem cid stv = true) -> InvC stv s'.
  Proof.
    unfold upd_neighbor. intros H I Hcid. destruct (aget R (ct s)); [|injection H as <- <-; assumption].
    destruct (put_neighbor U s R o) as [s1 r1] eqn:Ep.
    destruct (put_neighbor_inv stv s R o s1 r1 Ep I) as [I1 _].
    destruct r1; try (injection H as <- <-; assumption).
    destruct (tget2 R o (ct s1)) as [b|] eqn:Eb; [|injection H as <- <-; assumption].
    unfold cid_sort in H. destruct (trav U (store s1) R) as [f|] eqn:Et; cbn [andb negb] in H;
      [|injection H as <- <-; assumption].
    destruct (aget cid (pyramid_cids f)) as [v|] eqn:Ec; cbn [andb negb] in H; [|injection H as <- <-; assumption].
    destruct (BV.set b v true) as [b'| |] eqn:Es; injection H as <- <-; try assumption.
    destruct (cid_index f cid v Ec) as [Hv Hnth].
    eapply (Inv_set_ct_kv stv s1 _ R o b' I1); try reflexivity.
    intros ->. destruct (i_ct _ _ I1 _ _ Eb) as (f0 & Hf0 & Hwf & Hlen & Hbits).
    assert (f0 = f) by (apply trav_some in Et; congruence). subst f0.
    destruct (set_true_spec b v b' Hwf ltac:(lia) Es) as (Hwf' & Hlen' & Hb').
    apply (claim_intro _ _ _ f); try assumption; try congruence.
    intros j Hj Hg. rewrite Hlen' in Hj. destruct (Hb' j Hj Hg) as [->|Hold].
    - exists cid. auto.
    - auto.
  Qed.

  (** [updatePyramidSource], [UpdateChunkInfoSource] *)
  Lemma update_pyramid_source_frame s R src : frame s (update_pyramid_source s R src).
  Proof.
    unfold update_pyramid_source. destruct (aget R (cs s)) as [[[p|] m]|]; try apply frame_refl;
      apply frame_eq; reflexivity.
  Qed.

  Lemma update_source_frame s R src cid : frame s (fst (update_source U true s R src cid)).
  Proof.
    unfold update_source. destruct (aget R (cs s)) as [[ps m]|]; [|apply frame_refl].
    destruct (cid_sort U s R cid) as [v found]. destruct (true && negb found); [apply frame_refl|].
    destruct (any_has m v) as [[|]|]; try apply frame_refl.
    destruct (aget src m) as [b|].
    - destruct (BV.set b v true); cbn [fst]; try apply frame_refl. apply frame_eq; reflexivity.
    - pose proof (get_chunk_size_frame s R) as F. destruct (get_chunk_size U s R) as [s1 n]. cbn [fst] in F.
      destruct (BV.new n) as [b| |]; cbn [fst]; try assumption.
      destruct (BV.set b v true); cbn [fst]; assumption.
  Qed.

  Lemma update_pyramid_source_cs s R src : aget R (cs (update_pyramid_source s R src)) <> None.
  Proof.
    unfold update_pyramid_source. destruct (aget R (cs s)) as [[[p|] m]|] eqn:E; cbn;
      rewrite ?aget_aset_eq, ?E; discriminate.
  Qed.
  Lemma update_source_not_err s R src cid : aget R (cs s) <> None ->
    snd (update_source U true s R src cid) = ROk \/ snd (update_source U true s R src cid) = RPanic.
  Proof.
    unfold update_source. intros Hn. destruct (aget R (cs s)) as [[ps m]|]; [|contradiction].
    destruct (cid_sort U s R cid) as [v found]. destruct (true && negb found); [cbn; auto|].
    destruct (any_has m v) as [[|]|]; try (cbn; auto).
    destruct (aget src m) as [b|].
    - destruct (BV.set b v true); cbn; auto.
    - destruct (get_chunk_size U s R) as [s1 n]. destruct (BV.new n) as [b| |]; try (cbn; auto).
      destruct (BV.set b v true); cbn; auto.
  Qed.

  (** [initNeighborChunkInfo] *)
  Lemma init_neighbor_loop_same R peer cids : forall s, same3 s (fst (init_neighbor_loop U self true s R peer cids)).
  Proof.
    induction cids as [|c t IH]; intros s; cbn [init_neighbor_loop]; [apply same3_refl|].
    pose proof (frame_same3 _ _ (update_source_frame s R peer c)) as F.
    destruct (update_source U true s R peer c) as [s1 r1]. cbn [fst] in F.
    destruct r1; try exact F.
    pose proof (upd_neighbor_same s1 R c self) as F2.
    destruct (upd_neighbor U true s1 R c self) as [s2 r2]. cbn [fst] in F2.
    pose proof (same3_trans _ _ _ F F2) as F3.
    destruct r2; try exact F3. eapply same3_trans; [exact F3 | apply IH].
  Qed.
  Lemma init_neighbor_same s R peer cids : same3 s (fst (init_neighbor U self true s R peer cids)).
  Proof.
    unfold init_neighbor. destruct (aget R (ct s)); [apply init_neighbor_loop_same|].
    pose proof (put_neighbor_same s R self) as F. destruct (put_neighbor U s R self) as [s1 r1]. cbn [fst] in F.
    destruct r1; try exact F. eapply same3_trans; [exact F | apply init_neighbor_loop_same].
  Qed.

  Lemma init_neighbor_loop_inv stv R peer cids : forall s s' r,
    init_neighbor_loop U self true s R peer cids = (s', r) -> InvC stv s ->
    (forall c, In c cids -> smem c stv = true) -> InvC stv s'.
  Proof.
    induction cids as [|c t IH]; intros s s' r H I Hall; cbn [init_neighbor_loop] in H.
    - injection H as <- <-. assumption.
    - pose proof (update_source_frame s R peer c) as F.
      destruct (update_source U true s R peer c) as [s1 r1]. cbn [fst] in F.
      pose proof (Inv_frame _ _ _ I F) as I1.
      destruct r1; try (injection H as <- <-; assumption).
      destruct (upd_neighbor U true s1 R c self) as [s2 r2] eqn:Eu.
      pose proof (upd_neighbor_inv stv s1 R c self s2 r2 Eu I1 (fun _ _ => Hall c (or_introl eq_refl))) as I2.
      destruct r2; try (injection H as <- <-; assumption).
      exact (IH s2 s' r H I2 (fun x Hx => Hall x (or_intror Hx))).
  Qed.

  Lemma init_neighbor_inv stv s R peer cids s' r :
    init_neighbor U self true s R peer cids = (s', r) -> InvC stv s ->
    (forall c, In c cids -> smem c stv = true) -> InvC stv s'.
  Proof.
    unfold init_neighbor. intros H I Hall. destruct (aget R (ct s)).
    - eapply init_neighbor_loop_inv; eauto.
    - destruct (put_neighbor U s R self) as [s1 r1] eqn:Ep.
      destruct (put_neighbor_inv stv s R self s1 r1 Ep I) as [I1 _].
      destruct r1; try (injection H as <- <-; assumption).
      exact (init_neighbor_loop_inv stv R peer cids s1 s' r H I1 Hall).
  Qed.
End Inv.
