(** C17 — correspondence: the harness runs a history on the real chunkinfo/netstore and
    records, per call, the result class and a checksum of the canonical dump of every table,
    the state store and the chunk store; at the end the full dump.  [check_case] replays the
    history on the model (repaired code, [fx = true]). *)
From Coq Require Import List NArith ZArith Bool.
Import ListNotations.
Require Import Aurora.Base.Corr.
Require Export Aurora.C17.Model.
Local Open Scope N_scope.

Inductive case :=
| Case (U : universe) (self : addr) (ops : list op) (obs : list (N * N)) (final : list N).

(** what is observed of a state: the canonical dump followed by isDownload of every root of the
    universe (0 false, 1 true, 2 panic) *)
Definition dl_flags (U : universe) (self : addr) (s : st) : list N :=
  map (fun rf => match is_download self s (fst rf) with BV.Ok true => 1 | BV.Ok false => 0 | _ => 2 end) U.
Definition observe (U : universe) (self : addr) (s : st) : list N := ser_state s ++ dl_flags U self s.

Fixpoint trace (U : universe) (self : addr) (s : st) (ops : list op) : list (N * N) * st :=
  match ops with
  | [] => ([], s)
  | o :: t =>
      let '(s1, r) := step U self true s o in
      let '(l, s2) := trace U self s1 t in
      ((rc_code r, cksum (observe U self s1)) :: l, s2)
  end.

Definition model_out (c : case) : list (N * N) * list N :=
  match c with
  | Case U self ops _ _ => let '(l, s) := trace U self init ops in (l, observe U self s)
  end.
Definition obs_out (c : case) : list (N * N) * list N :=
  match c with Case _ _ _ obs final => (obs, final) end.
Definition check_case (c : case) : bool :=
  pair_eqb (list_eqb (pair_eqb N.eqb N.eqb)) (list_eqb N.eqb) (model_out c) (obs_out c).

(** on a mismatch: index of the first call whose (class, checksum) differs, the model's
    (class, checksum) there, the model's state dump after that call, and the final dumps *)
Fixpoint first_diff (U : universe) (self : addr) (s : st) (ops : list op) (obs : list (N * N)) (i : nat)
  : option (nat * (N * N) * list N) :=
  match ops, obs with
  | o :: t, (c, k) :: t' =>
      let '(s1, r) := step U self true s o in
      if (rc_code r =? c) && (cksum (observe U self s1) =? k) then first_diff U self s1 t t' (S i)
      else Some (i, (rc_code r, cksum (observe U self s1)), observe U self s1)
  | _, _ => None
  end.
Definition explain_case (c : case) :=
  match c with
  | Case U self ops obs final => (first_diff U self init ops obs 0, snd (model_out c), final)
  end.
