(** C34 — property theorems only. Each is closed by [exact <lemma>] and
    followed by [Print Assumptions]. The cryptographic primitives stay
    universally quantified ([forall P : prims]); their textbook laws
    ([Laws P]) are a premise where a theorem needs them. No Go constant
    enters (the 8-byte network id and the tag are literals of the code). *)
From Coq Require Import List NArith ZArith Bool Arith.
Import ListNotations.
Require Import Aurora.C05.Sig Aurora.C05.SigProofs Aurora.C05.Toy Aurora.C34.Model Aurora.C34.Proofs.
Local Open Scope N_scope.

(** "records produced by a node's own signer are always accepted" *)
Theorem C34_own_accepted : forall (P : prims), Laws P ->
  forall (k u : bytes) (n : N), ma_valid P u = true ->
  let o := overlay_of P (pub P k) in
  parse_address P u o (a_sig (new_address P k u o n)) n = PAOk (new_address P k u o n).
Proof. exact own_accepted. Qed.
Print Assumptions C34_own_accepted.

(** "accepted ... only if the signature over the underlay, overlay and network
    id was made by a key whose overlay is the claimed one" — exact
    characterisation of ParseAddress *)
Theorem C34_accept_sound : forall (P : prims) (u o sig : bytes) (n : N) (r : addr_rec),
  parse_address P u o sig n = PAOk r <->
  r = {| a_underlay := u; a_overlay := o; a_sig := sig |} /\
  exists pk, crypto_recover P sig (sign_data u o n) = ROk pk /\ overlay_of P pk = o /\ ma_valid P u = true.
Proof. exact parse_address_ok_iff. Qed.
Print Assumptions C34_accept_sound.

(** framing: for overlays of one length the signed bytes determine underlay,
    overlay and network id (accepted overlays are all 32 bytes) *)
Theorem C34_sign_data_injective : forall (u o : bytes) (n : N) (u' o' : bytes) (n' : N),
  length o = length o' -> n < 2 ^ 64 -> n' < 2 ^ 64 ->
  sign_data u o n = sign_data u' o' n' -> u = u' /\ o = o' /\ n = n'.
Proof. exact sign_data_injective. Qed.
Print Assumptions C34_sign_data_injective.

(** "changing any of those four values makes the record rejected": an altered
    record that is accepted exhibits a Keccak or SHA3 collision, a forgery
    against the signing key, or (only if the overlay was changed) is itself a
    correctly signed record of another key *)
Theorem C34_mutation : forall (P : prims), Laws P ->
  forall (k u : bytes) (n : N) (u' o' sig' : bytes) (n' : N),
  n < 2 ^ 64 -> n' < 2 ^ 64 ->
  let o := overlay_of P (pub P k) in
  let m := sign_data u o n in
  let sig := crypto_sign P k m in
  (u', o', sig', n') <> (u, o, sig, n) ->
  accepted P u' o' sig' n' ->
  Break34 P k sig m o o' sig' (sign_data u' o' n').
Proof. exact mutation. Qed.
Print Assumptions C34_mutation.

(** underlay, network id or signature changed, overlay kept: collision or forgery *)
Theorem C34_mutation_same_overlay : forall (P : prims), Laws P ->
  forall (k u : bytes) (n : N) (u' sig' : bytes) (n' : N),
  n < 2 ^ 64 -> n' < 2 ^ 64 ->
  let o := overlay_of P (pub P k) in
  let m := sign_data u o n in
  let sig := crypto_sign P k m in
  (u', sig', n') <> (u, sig, n) ->
  accepted P u' o sig' n' ->
  (exists x y, x <> y /\ K P x = K P y) \/
  (exists x y, x <> y /\ S3 P x = S3 P y) \/
  (exists s2 m2, (s2, m2) <> (sig, m) /\ crypto_recover P s2 m2 = ROk (pub P k)).
Proof. exact mutation_same_overlay. Qed.
Print Assumptions C34_mutation_same_overlay.

(** the same with idealised unforgeability of the signing key as a premise *)
Theorem C34_mutation_same_overlay_ideal : forall (P : prims), Laws P ->
  forall (k u : bytes) (n : N) (u' sig' : bytes) (n' : N),
  n < 2 ^ 64 -> n' < 2 ^ 64 ->
  let o := overlay_of P (pub P k) in
  let m := sign_data u o n in
  let sig := crypto_sign P k m in
  (forall s2 m2, crypto_recover P s2 m2 = ROk (pub P k) -> (s2, m2) = (sig, m)) ->
  (u', sig', n') <> (u, sig, n) ->
  accepted P u' o sig' n' ->
  (exists x y, x <> y /\ K P x = K P y) \/ (exists x y, x <> y /\ S3 P x = S3 P y).
Proof. exact mutation_same_overlay_ideal. Qed.
Print Assumptions C34_mutation_same_overlay_ideal.

(** re-encodings of an accepted record's signature (recovery byte + 4; (r, N - s))
    are rejected after fix-recover-canonical *)
Theorem C34_reencoded_signature_rejected : forall (P : prims) (u o sig : bytes) (n : N) (sig' : bytes),
  accepted P u o sig n -> length sig' = 65%nat ->
  nth 64 sig' 0 = nth 64 sig 0 + 4 \/
  be (firstn 32 (skipn 32 sig')) = secp_n - be (firstn 32 (skipn 32 sig)) ->
  parse_address P u o sig' n = PAInvalid.
Proof. exact reencoded_rejected. Qed.
Print Assumptions C34_reencoded_signature_rejected.

(** handshake, both roles: a peer record is returned only if the Ack carries
    the node's own network id and the record is accepted under it *)
Theorem C34_handshake_sound : forall (P : prims) (nd : node) (a : ack) (r : addr_rec) (md : bytes),
  (forall syn_ok, handshake_synack P nd syn_ok a = HsOk r md ->
     k_netid a = n_netid nd /\ md = k_mode a /\
     r = {| a_underlay := k_underlay a; a_overlay := k_overlay a; a_sig := k_sig a |} /\
     accepted P (k_underlay a) (k_overlay a) (k_sig a) (n_netid nd)) /\
  (forall picker lf, handle_ack P nd picker lf a = HsOk r md ->
     k_netid a = n_netid nd /\ md = k_mode a /\
     r = {| a_underlay := k_underlay a; a_overlay := k_overlay a; a_sig := k_sig a |} /\
     accepted P (k_underlay a) (k_overlay a) (k_sig a) (n_netid nd)).
Proof.
  intros P nd a r md.
  exact (conj (fun s => handshake_synack_ok_inv P nd s a r md) (fun pk lf => handle_ack_ok_inv P nd pk lf a r md)).
Qed.
Print Assumptions C34_handshake_sound.

(** an Ack of another network id is refused as such, in both roles *)
Theorem C34_netid_mismatch_refused : forall (P : prims) (nd : node) picker lf syn_ok (a : ack),
  k_netid a <> n_netid nd ->
  handle_ack P nd picker lf a = HsErr HsNetworkID /\
  (syn_ok = true -> handshake_synack P nd syn_ok a = HsErr HsNetworkID).
Proof. exact netid_mismatch. Qed.
Print Assumptions C34_netid_mismatch_refused.

(** the Ack a node emits is accepted by every node of the same network *)
Theorem C34_handshake_own_accepted : forall (P : prims), Laws P ->
  forall (peer nd : node) (adv mode : bytes),
  n_overlay peer = overlay_of P (pub P (n_key peer)) ->
  n_netid peer = n_netid nd -> ma_valid P adv = true -> mode_ok mode = true ->
  let a := own_ack P peer adv mode in
  handshake_synack P nd true a = HsOk (own_record P peer adv) mode /\
  handle_ack P nd None false a = HsOk (own_record P peer adv) mode.
Proof. exact handshake_own_accepted. Qed.
Print Assumptions C34_handshake_own_accepted.

(** routetab: after ANY sequence of saveUnderlay calls and FindUnderlay replies,
    every record in the address book is accepted for the node's network id and
    stored under its own overlay; and what FindUnderlay returns is such a record *)
Theorem C34_book_authenticated : forall (P : prims) (n : N) (ops : list rt_op),
  Forall (authentic P n) (fold_left (rt_step P n) ops []).
Proof. exact rt_run_authentic. Qed.
Print Assumptions C34_book_authenticated.

Theorem C34_find_underlay_sound : forall (P : prims) (n : N) (v : underlay_resp) (b : book) (r : addr_rec) (b' : book),
  find_underlay_reply P n v b = (Some r, b') ->
  r = {| a_underlay := u_underlay v; a_overlay := u_dest v; a_sig := u_sig v |} /\
  accepted P (u_underlay v) (u_dest v) (u_sig v) n /\ book_get b' (u_dest v) = Some r.
Proof. exact find_underlay_reply_sound. Qed.
Print Assumptions C34_find_underlay_sound.

(** non-vacuity: the toy primitives satisfy the laws; a node's own record over
    them is accepted, lands in the address book, and its overlay is 32 bytes *)
Example C34_hyps_satisfiable :
  Laws toyP /\
  let k := [5; 6; 7] in let u := [4; 127; 0; 0; 1; 6; 6; 98] in let n := 10 in
  let o := overlay_of toyP (pub toyP k) in
  let r := new_address toyP k u o n in
  ma_valid toyP u = true /\ n < 2 ^ 64 /\ length o = 32%nat /\
  parse_address toyP u o (a_sig r) n = PAOk r /\
  book_get (rt_step toyP n [] (OpSave [{| u_dest := o; u_underlay := u; u_sig := a_sig r |}])) o = Some r.
Proof.
  split; [exact toy_laws|]. cbn zeta.
  split; [reflexivity|]. split; [vm_compute; reflexivity|]. split; [vm_compute; reflexivity|].
  split; vm_compute; reflexivity.
Qed.
