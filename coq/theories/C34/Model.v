(** C34 — model of pkg/aurora/address.go (NewAddress / ParseAddress /
    generateSignData), of the address-record checks of the handshake
    (pkg/p2p/libp2p/internal/handshake: Handshake, Handle, parseCheckAck) and
    of routetab's underlay-reply check (FindUnderlay, saveUnderlay).
    Definitions only. The cryptographic primitives and the model of
    pkg/crypto are those of [Aurora.C05.Sig]. *)
From Coq Require Import List NArith Bool Arith.
Import ListNotations.
Require Import Aurora.C05.Sig.
Local Open Scope N_scope.

(** ---- pkg/aurora/address.go ---- *)

(** "aurorafs-handshake-" *)
Definition handshake_tag : bytes :=
  [97;117;114;111;114;97;102;115;45;104;97;110;100;115;104;97;107;101;45].

(** [generateSignData(underlay, overlay, networkID)]:
    tag || underlay || overlay || big-endian uint64 network id *)
Definition sign_data (underlay overlay : bytes) (netid : N) : bytes :=
  handshake_tag ++ underlay ++ overlay ++ be_bytes 8 netid.

Record addr_rec := { a_underlay : bytes; a_overlay : bytes; a_sig : bytes }.

(** [NewAddress(signer, underlay, overlay, networkID)] for the default signer
    of key [k]; [underlay] is the multiaddr's binary form *)
Definition new_address (P : prims) (k underlay overlay : bytes) (netid : N) : addr_rec :=
  {| a_underlay := underlay; a_overlay := overlay;
     a_sig := crypto_sign P k (sign_data underlay overlay netid) |}.

Inductive parse_res := PAOk (r : addr_rec) | PAInvalid.

(** [ParseAddress(underlay, overlay, signature, networkID)]: every failure is
    ErrInvalidAddress *)
Definition parse_address (P : prims) (underlay overlay sig : bytes) (netid : N) : parse_res :=
  match crypto_recover P sig (sign_data underlay overlay netid) with
  | RErr _ => PAInvalid
  | ROk pk =>
      (* NewOverlayAddress(recoveredPK, networkID): the network id is not used *)
      if negb (bytes_eqb (overlay_of P pk) overlay) then PAInvalid
      else if negb (ma_valid P underlay) then PAInvalid
      else PAOk {| a_underlay := underlay; a_overlay := overlay; a_sig := sig |}
  end.

(** ---- handshake.go ---- *)

(** a node's handshake service: signing key, own overlay, network id *)
Record node := { n_key : bytes; n_overlay : bytes; n_netid : N }.

(** the Ack message (its Address sub-message present) *)
Record ack := {
  k_underlay : bytes; k_overlay : bytes; k_sig : bytes;  (* pb.BzzAddress *)
  k_netid : N;                                           (* NetworkID *)
  k_mode : bytes                                         (* NodeMode *)
}.

(** the record a node puts into the Ack it sends:
    aurora.NewAddress(s.signer, advertisableUnderlay, s.overlay, s.networkID) *)
Definition own_record (P : prims) (nd : node) (adv_underlay : bytes) : addr_rec :=
  new_address P (n_key nd) adv_underlay (n_overlay nd) (n_netid nd).
Definition own_ack (P : prims) (nd : node) (adv_underlay mode : bytes) : ack :=
  let r := own_record P nd adv_underlay in
  {| k_underlay := a_underlay r; k_overlay := a_overlay r; k_sig := a_sig r;
     k_netid := n_netid nd; k_mode := mode |}.

Inductive hs_err := HsNetworkID | HsInvalidAck | HsNodeMode | HsPicker | HsPickerLight | HsInvalidSyn.
Inductive hs_res := HsOk (r : addr_rec) (mode : bytes) | HsErr (e : hs_err).

(** [aurora.NewModelFromBytes]: bitvector of length 1 over the bytes *)
Definition mode_ok (m : bytes) : bool := negb (Nat.eqb (length m) 0).
(** [Model.IsFull]: bit FullNode (0) of the first byte *)
Definition mode_full (m : bytes) : bool := N.testbit (nth 0 m 0) 0.

(** [parseCheckAck(ack)]: ParseAddress with the node's OWN network id *)
Definition parse_check_ack (P : prims) (nd : node) (a : ack) : parse_res :=
  parse_address P (k_underlay a) (k_overlay a) (k_sig a) (n_netid nd).

(** [Handshake] (initiator) from the point where the SynAck has been read:
    [syn_ok] = the observed underlay in it parses; then network id, then
    parseCheckAck, then (after the own Ack is written) the node mode *)
Definition handshake_synack (P : prims) (nd : node) (syn_ok : bool) (a : ack) : hs_res :=
  if negb syn_ok then HsErr HsInvalidSyn
  else if negb (k_netid a =? n_netid nd) then HsErr HsNetworkID
  else match parse_check_ack P nd a with
       | PAInvalid => HsErr HsInvalidAck
       | PAOk r => if negb (mode_ok (k_mode a)) then HsErr HsNodeMode else HsOk r (k_mode a)
       end.

(** [Handle] (responder) from the point where the peer's Ack has been read:
    network id, node mode, picker (kademlia's Pick for full nodes, the light
    node limit otherwise; [None] = no picker installed), then parseCheckAck *)
Definition handle_ack (P : prims) (nd : node) (picker : option bool) (light_full : bool) (a : ack) : hs_res :=
  if negb (k_netid a =? n_netid nd) then HsErr HsNetworkID
  else if negb (mode_ok (k_mode a)) then HsErr HsNodeMode
  else
    let picked :=
      match picker with
      | None => None
      | Some pick => if mode_full (k_mode a) then (if pick then None else Some HsPicker)
                     else (if light_full then Some HsPickerLight else None)
      end in
    match picked with
    | Some e => HsErr e
    | None => match parse_check_ack P nd a with
              | PAInvalid => HsErr HsInvalidAck
              | PAOk r => HsOk r (k_mode a)
              end
    end.

(** ---- routetab/route.go ---- *)

(** the address book: overlay -> record; [Put] overwrites *)
Definition book := list (bytes * addr_rec).
Definition book_put (b : book) (o : bytes) (r : addr_rec) : book :=
  (o, r) :: filter (fun e => negb (bytes_eqb (fst e) o)) b.
Fixpoint book_get (b : book) (o : bytes) : option addr_rec :=
  match b with
  | [] => None
  | (o', r) :: b' => if bytes_eqb o' o then Some r else book_get b' o
  end.

(** pb.UnderlayResp *)
Record underlay_resp := { u_dest : bytes; u_underlay : bytes; u_sig : bytes }.

(** [saveUnderlay(uList)] *)
Definition save_one (P : prims) (netid : N) (b : book) (v : underlay_resp) : book :=
  match parse_address P (u_underlay v) (u_dest v) (u_sig v) netid with
  | PAOk r => book_put b (a_overlay r) r
  | PAInvalid => b
  end.
Definition save_underlay (P : prims) (netid : N) (l : list underlay_resp) (b : book) : book :=
  fold_left (save_one P netid) l b.

(** [FindUnderlay] from the point where the reply has been read: the reply's
    Dest is what is checked and stored (it is not compared with the target) *)
Definition find_underlay_reply (P : prims) (netid : N) (v : underlay_resp) (b : book)
  : option addr_rec * book :=
  match parse_address P (u_underlay v) (u_dest v) (u_sig v) netid with
  | PAOk r => (Some r, book_put b (a_overlay r) r)
  | PAInvalid => (None, b)
  end.

Inductive rt_op := OpSave (l : list underlay_resp) | OpFindReply (v : underlay_resp).
Definition rt_step (P : prims) (netid : N) (b : book) (o : rt_op) : book :=
  match o with
  | OpSave l => save_underlay P netid l b
  | OpFindReply v => snd (find_underlay_reply P netid v b)
  end.
