(** C34 — lemmas about the model of peer address records. *)
From Coq Require Import List NArith ZArith Bool Arith Lia ZifyBool ZifyNat ZifyN.
Import ListNotations.
Require Import Aurora.C05.Sig Aurora.C05.SigProofs Aurora.C34.Model.
Local Open Scope N_scope.
Ltac Zify.zify_post_hook ::= Z.div_mod_to_equations.

(** ---- ParseAddress: exact characterisation ---- *)

(** the record (u, o, sig) is accepted under network id n *)
Definition accepted (P : prims) (u o sig : bytes) (n : N) : Prop :=
  exists pk, crypto_recover P sig (sign_data u o n) = ROk pk /\ overlay_of P pk = o /\ ma_valid P u = true.

Lemma parse_address_ok_iff P u o sig n r :
  parse_address P u o sig n = PAOk r <->
  r = {| a_underlay := u; a_overlay := o; a_sig := sig |} /\ accepted P u o sig n.
Proof.
  unfold parse_address, accepted. split.
  - destruct (crypto_recover P sig (sign_data u o n)) as [pk|e]; [|discriminate].
    destruct (bytes_eqb (overlay_of P pk) o) eqn:E1; cbn [negb]; [|discriminate].
    destruct (ma_valid P u) eqn:E2; cbn [negb]; [|discriminate].
    intros Hq. inversion Hq. split; [reflexivity|]. exists pk. apply bytes_eqb_eq in E1. auto.
  - intros [-> (pk & Hr & Ho & Hm)]. rewrite Hr, Hm.
    apply bytes_eqb_eq in Ho. rewrite Ho. reflexivity.
Qed.

Lemma parse_address_invalid_iff P u o sig n :
  parse_address P u o sig n = PAInvalid <-> ~ accepted P u o sig n.
Proof.
  split.
  - intros Hp (pk & Hr & Ho & Hm).
    assert (parse_address P u o sig n = PAOk {| a_underlay := u; a_overlay := o; a_sig := sig |}) as Hq.
    { apply parse_address_ok_iff. split; [reflexivity|]. exists pk. auto. }
    congruence.
  - intros Hn. destruct (parse_address P u o sig n) as [r|] eqn:E; [|reflexivity].
    apply parse_address_ok_iff in E as [_ Ha]. contradiction.
Qed.

(** ---- a node's own records are accepted ---- *)

Lemma own_accepted P (L : Laws P) k u n :
  ma_valid P u = true ->
  let o := overlay_of P (pub P k) in
  parse_address P u o (a_sig (new_address P k u o n)) n = PAOk (new_address P k u o n).
Proof.
  intros Hm o. apply parse_address_ok_iff. split; [reflexivity|].
  exists (pub P k). split; [|split; [reflexivity | exact Hm]].
  cbn [new_address a_sig]. apply (recover_sign_ok P L).
Qed.

(** ---- the signed bytes determine the three values ---- *)

Lemma sign_data_injective u o n u' o' n' :
  length o = length o' -> n < 2 ^ 64 -> n' < 2 ^ 64 ->
  sign_data u o n = sign_data u' o' n' -> u = u' /\ o = o' /\ n = n'.
Proof.
  intros Hl Hn Hn' He. unfold sign_data in He. apply app_inv_head in He.
  assert (Hlen : length (u ++ o ++ be_bytes 8 n) = length (u' ++ o' ++ be_bytes 8 n')) by now rewrite He.
  rewrite !app_length, !be_bytes_len in Hlen.
  apply app_inv_len in He as [-> He]; [|lia].
  apply app_inv_len in He as [-> He]; [|lia].
  repeat split. apply (be_bytes_inj 8); assumption.
Qed.

Lemma accepted_overlay_len P (L : Laws P) u o sig n : accepted P u o sig n -> length o = 32%nat.
Proof. intros (pk & _ & <- & _). unfold overlay_of. apply (S3_len P L). Qed.

(** ---- alteration ---- *)

(** an explicit break, relative to the one record key [k] signed: a hash
    collision, a forgery against [k] (another (signature, message) pair that
    recovers [k]'s key), or — only when the claimed overlay was changed — the
    altered record is itself a correctly signed record of another key *)
Definition Break34 (P : prims) (k sig m : bytes) (o o' sig' m' : bytes) : Prop :=
  (exists x y, x <> y /\ K P x = K P y) \/
  (exists x y, x <> y /\ S3 P x = S3 P y) \/
  (exists s2 m2, (s2, m2) <> (sig, m) /\ crypto_recover P s2 m2 = ROk (pub P k)) \/
  (o' <> o /\ exists pk', pk' <> pub P k /\ crypto_recover P sig' m' = ROk pk' /\ overlay_of P pk' = o').

Lemma overlay_collision P pk1 pk2 :
  pk1 <> pk2 -> overlay_of P pk1 = overlay_of P pk2 ->
  (exists x y, x <> y /\ K P x = K P y) \/ (exists x y, x <> y /\ S3 P x = S3 P y).
Proof.
  intros Hne He. unfold overlay_of in He.
  destruct (bytes_eq_dec (K P pk1) (K P pk2)) as [Hk|Hk].
  - left. eauto.
  - right. eauto.
Qed.

Lemma mutation P (L : Laws P) k u n u' o' sig' n' :
  n < 2 ^ 64 -> n' < 2 ^ 64 ->
  let o := overlay_of P (pub P k) in
  let m := sign_data u o n in
  let sig := crypto_sign P k m in
  (u', o', sig', n') <> (u, o, sig, n) ->
  accepted P u' o' sig' n' ->
  Break34 P k sig m o o' sig' (sign_data u' o' n').
Proof.
  intros Hn Hn' o m sig Hne Hacc.
  pose proof (accepted_overlay_len P L _ _ _ _ Hacc) as Hlo'.
  destruct Hacc as (pk' & Hr & Ho & Hm).
  destruct (bytes_eq_dec o' o) as [->|Hoo].
  - (* overlay unchanged *)
    destruct (bytes_eq_dec pk' (pub P k)) as [->|Hpk].
    + right; right; left. exists sig', (sign_data u' o n'). split; [|exact Hr].
      intros Hq. pose proof (f_equal fst Hq) as Hs. pose proof (f_equal snd Hq) as Hd.
      cbn [fst snd] in Hs, Hd. apply Hne.
      apply sign_data_injective in Hd as (-> & _ & ->); auto.
      now rewrite Hs.
    + destruct (overlay_collision P pk' (pub P k) Hpk Ho) as [H|H]; [left | right; left]; exact H.
  - right; right; right. split; [exact Hoo|]. exists pk'. split; [|split; [exact Hr | exact Ho]].
    intros ->. apply Hoo. symmetry. exact Ho.
Qed.

(** one of underlay / network id / signature changed, overlay kept *)
Lemma mutation_same_overlay P (L : Laws P) k u n u' sig' n' :
  n < 2 ^ 64 -> n' < 2 ^ 64 ->
  let o := overlay_of P (pub P k) in
  let m := sign_data u o n in
  let sig := crypto_sign P k m in
  (u', sig', n') <> (u, sig, n) ->
  accepted P u' o sig' n' ->
  (exists x y, x <> y /\ K P x = K P y) \/
  (exists x y, x <> y /\ S3 P x = S3 P y) \/
  (exists s2 m2, (s2, m2) <> (sig, m) /\ crypto_recover P s2 m2 = ROk (pub P k)).
Proof.
  intros Hn Hn' o m sig Hne Hacc.
  assert (Hne' : (u', o, sig', n') <> (u, o, sig, n)).
  { intros Hq. inversion Hq. apply Hne. congruence. }
  destruct (mutation P L k u n u' o sig' n' Hn Hn' Hne' Hacc) as [H|[H|[H|[H _]]]]; auto.
  exfalso. now apply H.
Qed.

(** idealised: the key's only valid (signature, message) pair is the one it
    issued. Then an altered record with the same overlay is accepted only
    through an explicit hash collision *)
Lemma mutation_same_overlay_ideal P (L : Laws P) k u n u' sig' n' :
  n < 2 ^ 64 -> n' < 2 ^ 64 ->
  let o := overlay_of P (pub P k) in
  let m := sign_data u o n in
  let sig := crypto_sign P k m in
  (forall s2 m2, crypto_recover P s2 m2 = ROk (pub P k) -> (s2, m2) = (sig, m)) ->
  (u', sig', n') <> (u, sig, n) ->
  accepted P u' o sig' n' ->
  (exists x y, x <> y /\ K P x = K P y) \/ (exists x y, x <> y /\ S3 P x = S3 P y).
Proof.
  intros Hn Hn' o m sig Hu Hne Hacc.
  destruct (mutation_same_overlay P L k u n u' sig' n' Hn Hn' Hne Hacc) as [H|[H|H]]; auto.
  destruct H as (s2 & m2 & Hd & Hr). exfalso. apply Hd. now apply Hu.
Qed.

(** re-encodings of an accepted record's signature are rejected *)
Lemma reencoded_rejected P u o sig n sig' :
  accepted P u o sig n -> length sig' = 65%nat ->
  nth 64 sig' 0 = nth 64 sig 0 + 4 \/
  be (firstn 32 (skipn 32 sig')) = secp_n - be (firstn 32 (skipn 32 sig)) ->
  parse_address P u o sig' n = PAInvalid.
Proof.
  intros (pk & Hr & _ & _) Hl Hm.
  apply recover_ok_inv in Hr as (_ & Hc & _).
  assert (Hc' : canonical sig' = false).
  { destruct Hm as [Hm|Hm]; [eapply flag_variant_noncanonical | eapply twin_noncanonical]; eauto. }
  unfold parse_address. now rewrite (noncanonical_rejected P sig' _ Hl Hc').
Qed.

(** ---- handshake ---- *)

Lemma handshake_synack_ok_inv P nd syn_ok a r md :
  handshake_synack P nd syn_ok a = HsOk r md ->
  k_netid a = n_netid nd /\ md = k_mode a /\
  r = {| a_underlay := k_underlay a; a_overlay := k_overlay a; a_sig := k_sig a |} /\
  accepted P (k_underlay a) (k_overlay a) (k_sig a) (n_netid nd).
Proof.
  unfold handshake_synack, parse_check_ack.
  destruct syn_ok; cbn [negb]; [|discriminate].
  destruct (k_netid a =? n_netid nd) eqn:En; cbn [negb]; [|discriminate].
  destruct (parse_address P _ _ _ _) as [r'|] eqn:Ep; [|discriminate].
  destruct (mode_ok (k_mode a)); cbn [negb]; [|discriminate].
  intros Hq. inversion Hq; subst. apply N.eqb_eq in En.
  apply parse_address_ok_iff in Ep as [-> Ha]. auto.
Qed.

Lemma handle_ack_ok_inv P nd picker lf a r md :
  handle_ack P nd picker lf a = HsOk r md ->
  k_netid a = n_netid nd /\ md = k_mode a /\
  r = {| a_underlay := k_underlay a; a_overlay := k_overlay a; a_sig := k_sig a |} /\
  accepted P (k_underlay a) (k_overlay a) (k_sig a) (n_netid nd).
Proof.
  unfold handle_ack, parse_check_ack.
  destruct (k_netid a =? n_netid nd) eqn:En; cbn [negb]; [|discriminate].
  destruct (mode_ok (k_mode a)); cbn [negb]; [|discriminate].
  match goal with |- match ?x with _ => _ end = _ -> _ => destruct x end; [discriminate|].
  destruct (parse_address P _ _ _ _) as [r'|] eqn:Ep; [|discriminate].
  intros Hq. inversion Hq; subst. apply N.eqb_eq in En.
  apply parse_address_ok_iff in Ep as [-> Ha]. auto.
Qed.

(** a different network id in the Ack, or on the checking node, is refused
    before anything else *)
Lemma netid_mismatch P nd picker lf syn_ok a :
  k_netid a <> n_netid nd ->
  handle_ack P nd picker lf a = HsErr HsNetworkID /\
  (syn_ok = true -> handshake_synack P nd syn_ok a = HsErr HsNetworkID).
Proof.
  intros Hn. apply N.eqb_neq in Hn. unfold handle_ack, handshake_synack. rewrite Hn. cbn [negb].
  split; [reflexivity|]. intros ->. reflexivity.
Qed.

(** the Ack a node emits is accepted by any node of the same network whose
    picker does not refuse it *)
Lemma handshake_own_accepted P (L : Laws P) (peer nd : node) adv mode :
  n_overlay peer = overlay_of P (pub P (n_key peer)) ->
  n_netid peer = n_netid nd -> ma_valid P adv = true -> mode_ok mode = true ->
  let a := own_ack P peer adv mode in
  handshake_synack P nd true a = HsOk (own_record P peer adv) mode /\
  handle_ack P nd None false a = HsOk (own_record P peer adv) mode.
Proof.
  intros Ho Hn Hm Hmo a.
  assert (Hp : parse_check_ack P nd a = PAOk (own_record P peer adv)).
  { unfold parse_check_ack, a, own_ack, own_record. cbn [k_underlay k_overlay k_sig].
    cbn [new_address a_underlay a_overlay]. rewrite <- Hn, Ho.
    apply (own_accepted P L (n_key peer) adv (n_netid peer) Hm). }
  unfold handshake_synack, handle_ack. rewrite Hp.
  unfold a, own_ack. cbn [k_netid k_mode]. rewrite Hn, N.eqb_refl, Hmo. cbn [negb].
  split; reflexivity.
Qed.

(** ---- routetab: every stored record is authenticated ---- *)

Definition authentic (P : prims) (n : N) (e : bytes * addr_rec) : Prop :=
  a_overlay (snd e) = fst e /\
  accepted P (a_underlay (snd e)) (fst e) (a_sig (snd e)) n.

Lemma book_put_authentic P n b o r :
  Forall (authentic P n) b -> authentic P n (o, r) -> Forall (authentic P n) (book_put b o r).
Proof.
  intros Hb Hr. unfold book_put. constructor; [exact Hr|].
  apply Forall_forall. intros e He. apply filter_In in He as [He _].
  rewrite Forall_forall in Hb. now apply Hb.
Qed.

Lemma save_one_authentic P n b v :
  Forall (authentic P n) b -> Forall (authentic P n) (save_one P n b v).
Proof.
  intros Hb. unfold save_one.
  destruct (parse_address P (u_underlay v) (u_dest v) (u_sig v) n) as [r|] eqn:E; [|exact Hb].
  apply parse_address_ok_iff in E as [-> Ha].
  apply book_put_authentic; [exact Hb|]. split; [reflexivity | exact Ha].
Qed.

Lemma save_underlay_authentic P n l b :
  Forall (authentic P n) b -> Forall (authentic P n) (save_underlay P n l b).
Proof.
  unfold save_underlay. revert b. induction l as [|v l IH]; intros b Hb; cbn [fold_left]; [exact Hb|].
  apply IH. now apply save_one_authentic.
Qed.

Lemma rt_step_authentic P n b o :
  Forall (authentic P n) b -> Forall (authentic P n) (rt_step P n b o).
Proof.
  intros Hb. destruct o as [l|v]; cbn [rt_step].
  - now apply save_underlay_authentic.
  - unfold find_underlay_reply.
    pose proof (save_one_authentic P n b v Hb) as Hs. unfold save_one in Hs.
    destruct (parse_address P (u_underlay v) (u_dest v) (u_sig v) n); exact Hs.
Qed.

Lemma rt_run_authentic P n ops :
  Forall (authentic P n) (fold_left (rt_step P n) ops []).
Proof.
  assert (H : forall b, Forall (authentic P n) b -> Forall (authentic P n) (fold_left (rt_step P n) ops b)).
  { induction ops as [|o ops IH]; intros b Hb; cbn [fold_left]; [exact Hb|].
    apply IH. now apply rt_step_authentic. }
  apply H. constructor.
Qed.

(** what FindUnderlay returns is an accepted record for the reply's Dest *)
Lemma find_underlay_reply_sound P n v b r b' :
  find_underlay_reply P n v b = (Some r, b') ->
  r = {| a_underlay := u_underlay v; a_overlay := u_dest v; a_sig := u_sig v |} /\
  accepted P (u_underlay v) (u_dest v) (u_sig v) n /\ book_get b' (u_dest v) = Some r.
Proof.
  unfold find_underlay_reply.
  destruct (parse_address P (u_underlay v) (u_dest v) (u_sig v) n) as [r'|] eqn:E; [|discriminate].
  intros Hq. inversion Hq; subst. apply parse_address_ok_iff in E as [-> Ha].
  repeat split; auto. cbn [book_put book_get a_overlay]. now rewrite bytes_eqb_refl.
Qed.
