(** C34 — correspondence: the harness runs aurora.NewAddress/ParseAddress,
    the real handshake Service (through pkg/p2p/libp2p/verifexport) and
    routetab's saveUnderlay/FindUnderlay, and records inputs, the real
    primitives' outputs (as a table) and what the functions returned;
    [check_case] recomputes the model's answer with table-backed primitives. *)
From Coq Require Import List NArith ZArith Bool Arith.
Import ListNotations.
Require Export Aurora.C05.Sig Aurora.C05.Tables Aurora.C34.Model.
Local Open Scope N_scope.

Definition rec_eqb (a b : addr_rec) : bool :=
  bytes_eqb (a_underlay a) (a_underlay b) && bytes_eqb (a_overlay a) (a_overlay b) &&
  bytes_eqb (a_sig a) (a_sig b).
Definition orecd_eqb (a b : option addr_rec) : bool :=
  match a, b with Some x, Some y => rec_eqb x y | None, None => true | _, _ => false end.

(** handshake outcome as observed: the returned record and node mode, or the
    error class (1 network id, 2 invalid ack, 3 node mode, 4 picker,
    5 picker-light, 6 invalid syn) *)
Inductive hs_obs := HOk (u o sig mode : bytes) | HErr (c : N).
Definition hs_class (e : hs_err) : N :=
  match e with
  | HsNetworkID => 1 | HsInvalidAck => 2 | HsNodeMode => 3
  | HsPicker => 4 | HsPickerLight => 5 | HsInvalidSyn => 6
  end.
Definition hs_obs_of (r : hs_res) : hs_obs :=
  match r with
  | HsOk r m => HOk (a_underlay r) (a_overlay r) (a_sig r) m
  | HsErr e => HErr (hs_class e)
  end.
Definition hs_obs_eqb (a b : hs_obs) : bool :=
  match a, b with
  | HOk a1 a2 a3 a4, HOk b1 b2 b3 b4 => bytes_eqb a1 b1 && bytes_eqb a2 b2 && bytes_eqb a3 b3 && bytes_eqb a4 b4
  | HErr c, HErr c' => c =? c'
  | _, _ => false
  end.

Definition ack_eqb (a b : ack) : bool :=
  bytes_eqb (k_underlay a) (k_underlay b) && bytes_eqb (k_overlay a) (k_overlay b) &&
  bytes_eqb (k_sig a) (k_sig b) && (k_netid a =? k_netid b) && bytes_eqb (k_mode a) (k_mode b).

(** address book dumps: same keys, same records *)
Definition book_same (model : book) (obs : list (bytes * addr_rec)) : bool :=
  Nat.eqb (length model) (length obs) &&
  forallb (fun e => match book_get model (fst e) with Some r => rec_eqb r (snd e) | None => false end) obs.

(** a routetab step with what FindUnderlay returned (None for saveUnderlay) *)
Definition rt_obs := (rt_op * option (option addr_rec))%type.

Inductive case :=
| CSignBytes (u o : bytes) (n : N) (obs : bytes)                    (* generateSignData *)
| COverlay (T : list entry) (pk obs : bytes)                        (* crypto.NewOverlayAddress *)
| CNew (T : list entry) (k u o : bytes) (n : N) (obs_sig : bytes)   (* aurora.NewAddress(...).Signature *)
| CParse (T : list entry) (u o sig : bytes) (n : N)
         (orecov : orec) (ok : bool)                                (* crypto.Recover on the signed bytes; ParseAddress ok? *)
| COwnAck (T : list entry) (nd : node) (adv mode : bytes) (obs : ack)  (* the Ack a node emits *)
| CHandshake (T : list entry) (nd : node) (syn_ok : bool) (a : ack) (obs : hs_obs)
| CHandle (T : list entry) (nd : node) (picker : option bool) (light_full : bool) (a : ack) (obs : hs_obs)
| CTwoNode (T : list entry) (ndA ndB : node) (advA advB modeA modeB : bytes)
           (obsA : hs_obs) (obsB : option hs_obs)                   (* A.Handshake against B.Handle over a pipe *)
| CRoute (T : list entry) (n : N) (steps : list rt_obs) (obs_book : list (bytes * addr_rec)).

Definition parse_ok (r : parse_res) : bool := match r with PAOk _ => true | PAInvalid => false end.

(** the multiaddr verdict must come from the table whenever the model asks for it *)
Definition ma_known (T : list entry) (u o sig : bytes) (n : N) : bool :=
  match crypto_recover (prims_of T) sig (sign_data u o n) with
  | ROk pk => if bytes_eqb (overlay_of (prims_of T) pk) o
              then match lk_ma T u with Some _ => true | None => false end else true
  | RErr _ => true
  end.

Fixpoint run_steps (P : prims) (n : N) (steps : list rt_obs) (b : book) : bool * book :=
  match steps with
  | [] => (true, b)
  | (op, obs) :: rest =>
      let ok :=
        match op, obs with
        | OpFindReply v, Some o => orecd_eqb (fst (find_underlay_reply P n v b)) o
        | OpSave _, None => true
        | _, _ => false
        end in
      let (ok', b') := run_steps P n rest (rt_step P n b op) in
      (ok && ok', b')
  end.

Definition check_case (c : case) : bool :=
  match c with
  | CSignBytes u o n obs => bytes_eqb (sign_data u o n) obs
  | COverlay T pk obs => bytes_eqb (overlay_of (prims_of T) pk) obs
  | CNew T k u o n obs_sig => bytes_eqb (a_sig (new_address (prims_of T) k u o n)) obs_sig
  | CParse T u o sig n orecov ok =>
      orec_eqb (orec_of (crypto_recover (prims_of T) sig (sign_data u o n))) orecov &&
      ma_known T u o sig n &&
      Bool.eqb (parse_ok (parse_address (prims_of T) u o sig n)) ok
  | COwnAck T nd adv mode obs => ack_eqb (own_ack (prims_of T) nd adv mode) obs
  | CHandshake T nd syn_ok a obs =>
      ma_known T (k_underlay a) (k_overlay a) (k_sig a) (n_netid nd) &&
      hs_obs_eqb (hs_obs_of (handshake_synack (prims_of T) nd syn_ok a)) obs
  | CHandle T nd picker lf a obs =>
      ma_known T (k_underlay a) (k_overlay a) (k_sig a) (n_netid nd) &&
      hs_obs_eqb (hs_obs_of (handle_ack (prims_of T) nd picker lf a)) obs
  | CTwoNode T ndA ndB advA advB modeA modeB obsA obsB =>
      let P := prims_of T in
      hs_obs_eqb (hs_obs_of (handshake_synack P ndA true (own_ack P ndB advB modeB))) obsA &&
      match obsB with
      | Some ob => hs_obs_eqb (hs_obs_of (handle_ack P ndB None false (own_ack P ndA advA modeA))) ob
      | None => true
      end
  | CRoute T n steps obs_book =>
      let (ok, b) := run_steps (prims_of T) n steps [] in
      ok && book_same b obs_book
  end.

Inductive explained :=
| XBytes (model : bytes)
| XParse (model_recover : orec) (ma_in_table : bool) (model_ok : bool)
| XAck (model : ack)
| XHs (model : hs_obs)
| XHs2 (modelA modelB : hs_obs)
| XRoute (steps_ok : bool) (model_book : book).

Definition explain_case (c : case) : explained :=
  match c with
  | CSignBytes u o n _ => XBytes (sign_data u o n)
  | COverlay T pk _ => XBytes (overlay_of (prims_of T) pk)
  | CNew T k u o n _ => XBytes (a_sig (new_address (prims_of T) k u o n))
  | CParse T u o sig n _ _ =>
      XParse (orec_of (crypto_recover (prims_of T) sig (sign_data u o n))) (ma_known T u o sig n)
             (parse_ok (parse_address (prims_of T) u o sig n))
  | COwnAck T nd adv mode _ => XAck (own_ack (prims_of T) nd adv mode)
  | CHandshake T nd syn_ok a _ => XHs (hs_obs_of (handshake_synack (prims_of T) nd syn_ok a))
  | CHandle T nd picker lf a _ => XHs (hs_obs_of (handle_ack (prims_of T) nd picker lf a))
  | CTwoNode T ndA ndB advA advB modeA modeB _ _ =>
      let P := prims_of T in
      XHs2 (hs_obs_of (handshake_synack P ndA true (own_ack P ndB advB modeB)))
           (hs_obs_of (handle_ack P ndB None false (own_ack P ndA advA modeA)))
  | CRoute T n steps _ => let (ok, b) := run_steps (prims_of T) n steps [] in XRoute ok b
  end.
