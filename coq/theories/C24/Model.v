(** C24 — model of the connection tracking of pkg/topology/kademlia/kademlia.go
    (Connected / onConnected / Outbound / Disconnected / DisconnectForce / Pick /
    AddPeers / RefreshProtectPeer / Reachable, binSaturated, recalcDepth) over
    pkg/topology/pslice/pslice.go.  Definitions only; proofs are in Proofs.v.

    A peer is a pair [(x, id)]: [x] is what [boson.Proximity(base, addr)] returns
    for its overlay address (the proximity function itself is property C20) and
    [id] identifies the address; two addresses are equal iff the pairs are.

    What is environment (inputs of the step function, quantified in the theorems):
    - the index drawn by [randomPeer] ([crypto/rand]),
    - whether the discovery broadcast to the new peer fails,
    - whether [p2p.Disconnect] / [addressBook.Remove] fail,
    - whether the p2p layer notifies [Disconnected] synchronously from inside
      [Disconnect] (libp2p does; [c_cb]).                                         *)
From Coq Require Import List NArith ZArith Bool Arith.
Import ListNotations.
Local Open Scope N_scope.

Definition peer := (nat * N)%type.
Definition peer_eqb (a b : peer) : bool := Nat.eqb (fst a) (fst b) && N.eqb (snd a) (snd b).
Definition memb (p : peer) (l : list peer) : bool := existsb (peer_eqb p) l.

(** ---- configuration of one Kad (fixed by kademlia.New) + the live package variables ---- *)
Record config := mkConfig {
  c_nb : nat;          (* boson.MaxBins: number of bins of both pslices *)
  c_maxpo : N;         (* boson.MaxPO: largest value of Proximity; radius used by binSaturated *)
  c_nn : N;            (* nnLowWatermark (live) *)
  c_qs : N;            (* quickSaturationPeers at the time of New (live afterwards: state field [thr]) *)
  c_sat : N;           (* saturationPeers at the time of New (live afterwards) *)
  c_over : N;          (* overSaturationPeers at the time of New *)
  c_bootover : N;      (* bootNodeOverSaturationPeers *)
  c_boot : bool;       (* Options.NodeMode.IsBootNode() *)
  c_static : list peer;(* Options.StaticNodes *)
  c_radius : N;        (* k.radius *)
  c_disc : bool;       (* discovery.IsStart() && !discovery.IsHive2() *)
  c_cb : bool          (* p2p.Disconnect calls back Kad.Disconnected before returning *)
}.

(** [boson.Proximity] never exceeds MaxPO; [pslice.po] caps at maxBins-1 *)
Definition prox (cfg : config) (p : peer) : nat := Nat.min (fst p) (N.to_nat (c_maxpo cfg)).
Definition pbin (cfg : config) (p : peer) : nat := Nat.min (prox cfg p) (c_nb cfg - 1).

(** [New]: os := overSaturationPeers; if bootnode && os < bootNodeOverSaturationPeers { os = boot... } *)
Definition eff_over (cfg : config) : N :=
  if c_boot cfg && (c_over cfg <? c_bootover cfg) then c_bootover cfg else c_over cfg.

(** ---- pslice: one list per bin, in the order of the Go slices ---- *)
Definition pslice := list (list peer).
Definition ps_new (nb : nat) : pslice := repeat [] nb.
Definition ps_bin (s : pslice) (b : nat) : list peer := nth b s [].

Fixpoint upd (b : nat) (f : list peer -> list peer) (s : pslice) : pslice :=
  match s, b with
  | [], _ => []
  | l :: t, O => f l :: t
  | l :: t, S b' => l :: upd b' f t
  end.

Definition ps_exists (cfg : config) (p : peer) (s : pslice) : bool := memb p (ps_bin s (pbin cfg p)).

(** [Add] with exactly one address *)
Definition ps_add1 (cfg : config) (p : peer) (s : pslice) : pslice :=
  if ps_exists cfg p s then s else upd (pbin cfg p) (fun l => l ++ [p]) s.

(** [Add] with 0 or >= 2 addresses: an address is skipped when it is found in the STORED bin or
    was already accepted earlier in the same batch ([seen]); the others are appended in argument order *)
Fixpoint batch_new (cfg : config) (s : pslice) (ps : list peer) (seen : list peer) : list peer :=
  match ps with
  | [] => []
  | p :: t =>
      if ps_exists cfg p s || memb p seen then batch_new cfg s t seen
      else p :: batch_new cfg s t (p :: seen)
  end.

Definition ps_add_batch (cfg : config) (ps : list peer) (s : pslice) : pslice :=
  fold_left (fun acc p => upd (pbin cfg p) (fun l => l ++ [p]) acc) (batch_new cfg s ps []) s.

Definition ps_add (cfg : config) (ps : list peer) (s : pslice) : pslice :=
  match ps with
  | [p] => ps_add1 cfg p s
  | _ => ps_add_batch cfg ps s
  end.

(** [Remove] inside one bin: the first occurrence is overwritten by the last
    element and the slice is shortened by one *)
Fixpoint swap_remove (p : peer) (l : list peer) : list peer :=
  match l with
  | [] => []
  | x :: t =>
      if peer_eqb p x then
        match t with
        | [] => []
        | y :: _ => last t y :: removelast t
        end
      else x :: swap_remove p t
  end.

Definition ps_remove (cfg : config) (p : peer) (s : pslice) : pslice :=
  upd (pbin cfg p) (swap_remove p) s.

Definition ps_length (s : pslice) : N := N.of_nat (length (concat s)).

(** iteration orders: (peer, bin index) *)
Definition binned (s : pslice) : list (nat * list peer) := combine (seq 0 (length s)) s.
Definition tag (bl : nat * list peer) : list (peer * N) := map (fun p => (p, N.of_nat (fst bl))) (snd bl).
Definition each_rev (s : pslice) : list (peer * N) := flat_map tag (binned s).      (* EachBinRev: shallowest bin first *)
Definition each (s : pslice) : list (peer * N) := flat_map tag (rev (binned s)).    (* EachBin: deepest bin first *)

Fixpoint shallowest_empty (s : pslice) (i : N) : option N :=
  match s with
  | [] => None
  | [] :: _ => Some i
  | _ :: t => shallowest_empty t (i + 1)
  end.

(** ---- recalcDepth, as coded ---- *)
(** first scan (EachBinRev): shallowestUnsaturated / binCount *)
Fixpoint scan1 (qs : N) (flt : peer -> bool) (l : list (peer * N)) (su bc : N) : N :=
  match l with
  | [] => su
  | (a, bin) :: t =>
      if flt a then scan1 qs flt t su bc
      else if bin =? su then scan1 qs flt t su (bc + 1)
      else if (su <? bin) && (bc <? qs) then su
      else if su + 1 <? bin then su + 1      (* bins in between hold no unfiltered peer *)
      else scan1 qs flt t bin 1
  end.

(** second scan (EachBin): bin of the nn-th unfiltered peer counted from the deepest *)
Fixpoint scan2 (nn : N) (flt : peer -> bool) (l : list (peer * N)) (ctr : N) : N :=
  match l with
  | [] => 0
  | (a, po) :: t =>
      if flt a then scan2 nn flt t ctr
      else if nn <=? ctr + 1 then po else scan2 nn flt t (ctr + 1)
  end.

Definition recalc_depth (nn qs : N) (s : pslice) (radius : N) (flt : peer -> bool) : N :=
  if ps_length s <=? nn then 0 else
  let su := scan1 qs flt (each_rev s) 0 0 in
  let su := match shallowest_empty s 0 with
            | Some e => if e <? su then e else su
            | None => su
            end in
  let cand := scan2 nn flt (each s) 0 in
  if cand <? su then (if radius <? cand then radius else cand)
  else (if radius <? su then radius else su).

(** ---- binSaturated(os, static)(bin, known, connected, filter) ---- *)
Definition is_static (cfg : config) (p : peer) : bool := memb p (c_static cfg).

Definition counted (cfg : config) (flt : peer -> bool) (bin : N) (x : peer * N) : bool :=
  negb (flt (fst x)) && (snd x =? bin) && negb (is_static cfg (fst x)).

Definition count_bin (cfg : config) (flt : peer -> bool) (bin : N) (conn : pslice) : N :=
  N.of_nat (length (filter (counted cfg flt bin) (each conn))).

(** [thr] = the live (quickSaturationPeers, saturationPeers); the over-saturation amount is the
    value captured by the closure at New ([eff_over]) *)
Definition potential_depth (cfg : config) (thr : N * N) (flt : peer -> bool) (known : pslice) : N :=
  recalc_depth (c_nn cfg) (fst thr) known (c_maxpo cfg) flt.

Definition bin_saturated (cfg : config) (thr : N * N) (flt : peer -> bool) (bin : N) (known conn : pslice) : bool * bool :=
  if potential_depth cfg thr flt known <=? bin then (false, false)
  else let size := count_bin cfg flt bin conn in (snd thr <=? size, eff_over cfg <=? size).

(** ---- Kad state ---- *)
Record state := mkState {
  conn : pslice;          (* connectedPeers *)
  known : pslice;         (* knownPeers *)
  protect : list peer;    (* protectPeers *)
  public : list peer;     (* peers whose last recorded reachability status is Public *)
  depth : N;              (* k.depth *)
  thr : N * N             (* live package variables (quickSaturationPeers, saturationPeers) *)
}.

Definition init (cfg : config) : state :=
  mkState (ps_new (c_nb cfg)) (ps_new (c_nb cfg)) [] [] 0 (c_qs cfg, c_sat cfg).

(** [peerUnreachable]: no metrics entry, or status other than Public *)
Definition unreach (st : state) (p : peer) : bool := negb (memb p (public st)).
Definition is_protected (st : state) (p : peer) : bool := memb p (protect st).

Definition cur_depth (cfg : config) (t : N * N) (c : pslice) (pub : list peer) : N :=
  recalc_depth (c_nn cfg) (fst t) c (c_radius cfg) (fun p => negb (memb p pub)).

Inductive event :=
| EConnected (p : peer) (force bfail : bool) (victim : nat)
| EOutbound (p : peer) (boot : bool)
| EDisconnected (p : peer)
| EDisconnectForce (p : peer) (p2pfail abfail : bool)
| EPick (p : peer)
| EAddPeers (ps : list peer)
| EProtect (ps : list peer)
| EReach (p : peer) (pub : bool)
| ENewKad (binmax : N).      (* another kademlia.New in the same process with Options.BinMaxPeers = binmax *)

Inductive resp :=
| ROk
| RBool (b : bool)
| RErrOversaturated      (* topology.ErrOversaturated *)
| RErrEmptyBin           (* errEmptyBin from randomPeer *)
| RErrAnnounce           (* error of discovery.BroadcastPeers *)
| RErrP2P                (* error of p2p.Disconnect *)
| RErrAddressbook.       (* error of addressBook.Remove *)

(** result of one call: new state, return value, the [p2p.Disconnect] calls that succeeded, in order *)
Definition outcome := (state * resp * list peer)%type.

(** [Disconnected(peer)] *)
Definition disconnected (cfg : config) (st : state) (p : peer) : state :=
  let c := ps_remove cfg p (conn st) in
  mkState c (known st) (protect st) (public st) (cur_depth cfg (thr st) c (public st)) (thr st).

(** a successful [p2p.Disconnect(v)] as seen by Kad *)
Definition p2p_disc (cfg : config) (st : state) (v : peer) : state :=
  if c_cb cfg then disconnected cfg st v else st.

(** [Announce(ctx, p, true)] reaches [discovery.BroadcastPeers(ctx, p, addrs...)]
    iff some reachable connected peer other than [p] exists *)
Definition announce_targets (st : state) (p : peer) : bool :=
  existsb (fun x : peer * N => negb (unreach st (fst x)) && negb (peer_eqb (fst x) p)) (each (conn st)).

Definition on_connected (cfg : config) (st : state) (p : peer) (bfail : bool) : outcome :=
  if c_disc cfg && bfail && announce_targets st p then (p2p_disc cfg st p, RErrAnnounce, [p])
  else
    let k := ps_add1 cfg p (known st) in
    let c := ps_add1 cfg p (conn st) in
    (mkState c k (protect st) (public st) (cur_depth cfg (thr st) c (public st)) (thr st), ROk, []).

Definition oversaturated (cfg : config) (st : state) (p : peer) : bool :=
  snd (bin_saturated cfg (thr st) (unreach st) (N.of_nat (prox cfg p)) (known st) (conn st)).

(** candidates of [randomPeer(po)]: the bin without static peers, order kept *)
Definition evict_candidates (cfg : config) (st : state) (p : peer) : list peer :=
  filter (fun q => negb (is_static cfg q)) (ps_bin (conn st) (prox cfg p)).

Definition connected (cfg : config) (st : state) (p : peer) (force bfail : bool) (victim : nat) : outcome :=
  if oversaturated cfg st p && negb (is_protected st p) then
    if c_boot cfg then
      match evict_candidates cfg st p with
      | [] => (st, RErrEmptyBin, [])
      | (c0 :: _) as cands =>
          let v := nth (victim mod length cands) cands c0 in
          let '(st2, r, calls) := on_connected cfg (p2p_disc cfg st v) p bfail in
          (st2, r, v :: calls)
      end
    else if force then on_connected cfg st p bfail
    else (st, RErrOversaturated, [])
  else on_connected cfg st p bfail.

Definition outbound (cfg : config) (st : state) (p : peer) (boot : bool) : outcome :=
  if boot then
    (mkState (conn st) (ps_remove cfg p (known st)) (protect st) (public st) (depth st) (thr st), ROk, [])
  else
    let k := ps_add1 cfg p (known st) in
    let c := ps_add1 cfg p (conn st) in
    (mkState c k (protect st) (public st) (cur_depth cfg (thr st) c (public st)) (thr st), ROk, []).

Definition disconnect_force (cfg : config) (st : state) (p : peer) (p2pfail abfail : bool) : outcome :=
  if p2pfail then (st, RErrP2P, [])
  else
    let st1 := p2p_disc cfg st p in
    if abfail then (st1, RErrAddressbook, [p])
    else
      let c := ps_remove cfg p (conn st1) in
      (mkState c (ps_remove cfg p (known st1)) (protect st1) (public st1) (cur_depth cfg (thr st1) c (public st1)) (thr st1), ROk, [p]).

Definition pick (cfg : config) (st : state) (p : peer) : bool :=
  if c_boot cfg then true
  else if is_protected st p then true
  else negb (oversaturated cfg st p).

Fixpoint remove_all (p : peer) (l : list peer) : list peer :=
  match l with
  | [] => []
  | x :: t => if peer_eqb p x then remove_all p t else x :: remove_all p t
  end.

(** [Reachable(addr, status)]: the status is recorded and the depth recomputed, whatever the status *)
Definition reach (cfg : config) (st : state) (p : peer) (pub : bool) : state :=
  let pb := if pub then (if memb p (public st) then public st else p :: public st)
            else remove_all p (public st) in
  mkState (conn st) (known st) (protect st) pb (cur_depth cfg (thr st) (conn st) pb) (thr st).

(** [New]: BinMaxPeers > 0 rewrites overSaturationPeers (rounded up to a multiple of 5, at
    least 5), saturationPeers = over/5*2 and quickSaturationPeers = over/5 — package variables
    read live by every Kad of the process; an existing Kad keeps the over-saturation amount its
    closure captured and its stale depth *)
Definition rethreshold (binmax : N) (t : N * N) : N * N :=
  if binmax =? 0 then t else
  let b := if binmax <? 5 then 5 else binmax in
  let over := if b mod 5 =? 0 then b else b - b mod 5 + 5 in
  (over / 5, over / 5 * 2).

Definition step (cfg : config) (st : state) (e : event) : outcome :=
  match e with
  | EConnected p force bfail victim => connected cfg st p force bfail victim
  | EOutbound p boot => outbound cfg st p boot
  | EDisconnected p => (disconnected cfg st p, ROk, [])
  | EDisconnectForce p f1 f2 => disconnect_force cfg st p f1 f2
  | EPick p => (st, RBool (pick cfg st p), [])
  | EAddPeers ps => (mkState (conn st) (ps_add cfg ps (known st)) (protect st) (public st) (depth st) (thr st), ROk, [])
  | EProtect ps => (mkState (conn st) (known st) ps (public st) (depth st) (thr st), ROk, [])
  | EReach p pub => (reach cfg st p pub, ROk, [])
  | ENewKad b => (mkState (conn st) (known st) (protect st) (public st) (depth st) (rethreshold b (thr st)), ROk, [])
  end.

(** a history: the log keeps, per call, the event, the return value and the p2p.Disconnect calls *)
Definition entry := (event * resp * list peer)%type.

Fixpoint run (cfg : config) (st : state) (h : list event) : list entry * state :=
  match h with
  | [] => ([], st)
  | e :: t =>
      let '(st1, r, calls) := step cfg st e in
      let '(log, st2) := run cfg st1 t in
      ((e, r, calls) :: log, st2)
  end.

(** what the topology reports: EachPeer / EachKnownPeer order (deepest bin first) *)
Definition reported (s : pslice) : list peer := map fst (each s).

(** ================= specification objects (independent of pslices) ================= *)

(** the set of peers "connected and not since disconnected", read off the log only *)
Definition set_add (p : peer) (l : list peer) : list peer := if memb p l then l else p :: l.

Definition live_step (cb : bool) (L : list peer) (x : entry) : list peer :=
  let '(e, r, calls) := x in
  (* peers our own p2p.Disconnect dropped, when the p2p layer reports it *)
  let L1 := if cb then fold_left (fun acc v => remove_all v acc) calls L else L in
  match e, r with
  | EConnected p _ _ _, ROk => set_add p L1            (* inbound full node admitted *)
  | EOutbound p false, ROk => set_add p L1             (* outbound connection to a non-boot node *)
  | EDisconnected p, _ => remove_all p L1
  | EDisconnectForce p _ _, ROk => remove_all p L1
  | _, _ => L1                                          (* incl. outbound to a boot node *)
  end.

Definition live (cb : bool) (log : list entry) : list peer := fold_left (live_step cb) log [].

(** environment condition on histories: an outbound boot-node connection is reported
    only for a peer that is not at that moment counted as connected (the p2p layer
    keeps one connection per overlay and never passes a boot node to Connected) *)
Fixpoint wf_log (cb : bool) (L : list peer) (log : list entry) : bool :=
  match log with
  | [] => true
  | x :: t =>
      (match x with
       | (EOutbound p true, _, _) => negb (memb p L)
       | _ => true
       end) && wf_log cb (live_step cb L x) t
  end.

(** spec-level over-saturation of the bin of [p]: the bin lies below the potential
    depth of the known peers and holds at least [eff_over] counted peers
    (reachable, non-static) among the peers in [L] *)
Definition in_bin_counted (cfg : config) (st : state) (b : nat) (q : peer) : bool :=
  Nat.eqb (pbin cfg q) b && negb (unreach st q) && negb (is_static cfg q).

Definition oversaturated_spec (cfg : config) (st : state) (L : list peer) (b : nat) : bool :=
  (N.of_nat b <? potential_depth cfg (thr st) (unreach st) (known st)) &&
  (eff_over cfg <=? N.of_nat (length (filter (in_bin_counted cfg st b) L))).
